//! Case files: the line protocol shared with the Lean driver (`/verif/lean/Driver.lean`).
//!
//! A case is `CASE <id> <kind> [args…]`, any number of record lines, `END`.
//! Every token is separated by single spaces; byte strings are lower-case hex (`-` = empty).

use std::collections::HashMap;

#[derive(Clone, Debug, Default)]
pub struct Case {
    pub id: String,
    pub kind: String,
    pub args: Vec<String>,
    pub lines: Vec<Vec<String>>,
}

impl Case {
    pub fn opt_map(&self) -> HashMap<String, String> {
        let mut m = HashMap::new();
        for l in &self.lines {
            if l[0] == "OPT" {
                for kv in &l[1..] {
                    if let Some((k, v)) = kv.split_once('=') {
                        m.insert(k.to_string(), v.to_string());
                    }
                }
            }
        }
        m
    }
    pub fn records<'a>(&'a self, tag: &'a str) -> impl Iterator<Item = &'a Vec<String>> + 'a {
        self.lines.iter().filter(move |l| l[0] == tag)
    }
}

pub fn parse_cases(text: &str) -> Vec<Case> {
    let mut out = vec![];
    let mut cur: Option<Case> = None;
    for line in text.lines() {
        let line = line.trim_end();
        if line.is_empty() || line.starts_with('#') {
            continue;
        }
        let toks: Vec<String> = line.split(' ').map(|s| s.to_string()).collect();
        match toks[0].as_str() {
            "CASE" => {
                cur = Some(Case {
                    id: toks[1].clone(),
                    kind: toks.get(2).cloned().unwrap_or_default(),
                    args: toks[3.min(toks.len())..].to_vec(),
                    lines: vec![],
                });
            }
            "END" => {
                if let Some(c) = cur.take() {
                    out.push(c);
                }
            }
            _ => {
                if let Some(c) = cur.as_mut() {
                    c.lines.push(toks);
                }
            }
        }
    }
    out
}

pub fn hex(b: &[u8]) -> String {
    if b.is_empty() {
        return "-".to_string();
    }
    let mut s = String::with_capacity(b.len() * 2);
    for x in b {
        s.push_str(&format!("{:02x}", x));
    }
    s
}

pub fn unhex(s: &str) -> Vec<u8> {
    if s == "-" {
        return vec![];
    }
    (0..s.len() / 2)
        .map(|i| u8::from_str_radix(&s[2 * i..2 * i + 2], 16).unwrap())
        .collect()
}

/// Canonical text of an f64: a decimal integer when it is one (|x| < 2^53), `nan`, else the bit pattern.
pub fn fnum(x: f64) -> String {
    if x.is_nan() {
        "nan".to_string()
    } else if x.is_finite() && x.fract() == 0.0 && x.abs() < 9007199254740992.0 {
        if x == 0.0 {
            "0".to_string()
        } else {
            format!("{}", x as i64)
        }
    } else {
        format!("f64:{:016x}", x.to_bits())
    }
}

pub fn f32bits(x: f32) -> String {
    format!("{:08x}", x.to_bits())
}
