//! The smaller case kinds: staging buffer (C12), FileView / chunker / indexer (C18), autoSql (C19),
//! merge / fill (C15), destination-operation prefixes and faults (C14).

use crate::proto::*;
use crate::sinks::*;
use crate::wigbed;
use bigtools::utils::file::tempfilebuffer::TempFileBuffer;
use bigtools::utils::file_view::FileView;
use bigtools::{BBIRead, BigBedRead, BigWigRead, Value};
use std::fmt::Write as _;
use std::io::{Cursor, Read, Seek, SeekFrom, Write};
use std::path::Path;
use std::sync::mpsc;
use std::time::Duration;

pub fn run(kind: &str, c: &Case, outdir: &Path, out: &mut String) {
    match kind {
        "tempbuf" => tempbuf(c, out),
        "fileview" => fileview(c, outdir, out),
        "chunks" => chunks(c, outdir, out),
        "index" => index(c, outdir, out),
        "autosql" => autosql(c, out),
        "merge" => merge(c, out),
        "mergeinto" => mergeinto(c, out),
        "fill" => fill(c, out),
        "wigops" | "bedops" => ops(c, outdir, out),
        "compat" => compat(c, out),
        _ => {
            writeln!(out, "R unknown-kind").unwrap();
        }
    }
}

// ---------------------------------------------------------------------------------------------
// C12: the staging buffer under a schedule of public calls.
//   SCHED tokens: W:<hex> (producer write), D (producer drop), S (consumer switch),
//   A (consumer await_real_file, on a helper thread), L (len(), helper thread),
//   X (expect_closed_write, helper thread), R (is_real_file_ready).
// Helper-thread calls must stay blocked until D; that is probed before every later token.

enum Pending {
    Await(mpsc::Receiver<Dest>),
    Len(mpsc::Receiver<u64>),
    Expect(mpsc::Receiver<Dest>),
}

/// The real destination of the staging buffer: a byte vector whose `write` accepts at most `max` bytes per call (a pipe,
/// a socket, any `Write` is allowed to do that; `usize::MAX` = takes everything, like a `Vec`).
struct Dest {
    data: Vec<u8>,
    max: usize,
}

impl Write for Dest {
    fn write(&mut self, b: &[u8]) -> std::io::Result<usize> {
        let n = b.len().min(self.max);
        self.data.extend_from_slice(&b[..n]);
        Ok(n)
    }
    fn flush(&mut self) -> std::io::Result<()> {
        Ok(())
    }
}

fn tempbuf(c: &Case, out: &mut String) {
    let m = c.opt_map();
    let inmem = m.get("inmem").map(|x| x == "1").unwrap_or(true);
    let d0 = unhex(m.get("d0").map(|s| s.as_str()).unwrap_or("-"));
    let destmax: usize = m.get("destmax").and_then(|v| v.parse().ok()).unwrap_or(usize::MAX);
    let (buf, writer) = TempFileBuffer::<Dest>::new(inmem);
    let mut buf = Some(buf);
    let mut writer = Some(writer);
    let mut pending: Option<Pending> = None;
    let mut dropped = false;
    let mut early = false;
    let sched: Vec<String> = c.records("SCHED").flat_map(|l| l[1..].to_vec()).collect();
    for tok in &sched {
        // a blocked helper call must still be blocked while the producer has not dropped
        if !dropped {
            if let Some(p) = &pending {
                std::thread::sleep(Duration::from_millis(3));
                let done = match p {
                    Pending::Await(rx) => rx.try_recv().is_ok(),
                    Pending::Len(rx) => rx.try_recv().is_ok(),
                    Pending::Expect(rx) => rx.try_recv().is_ok(),
                };
                if done {
                    early = true;
                }
            }
        }
        match tok.as_str() {
            "D" => {
                drop(writer.take());
                dropped = true;
            }
            "S" => {
                buf.as_mut().unwrap().switch(Dest { data: d0.clone(), max: destmax });
            }
            "R" => {
                writeln!(out, "RDY {}", buf.as_ref().unwrap().is_real_file_ready() as u8).unwrap();
            }
            "A" => {
                let b = buf.take().unwrap();
                let (tx, rx) = mpsc::channel();
                std::thread::spawn(move || {
                    let r = std::panic::catch_unwind(std::panic::AssertUnwindSafe(|| b.await_real_file()));
                    if let Ok(d) = r {
                        let _ = tx.send(d);
                    }
                });
                pending = Some(Pending::Await(rx));
            }
            "L" => {
                // len() borrows; run it on a helper thread through a raw pointer-free route: move the buffer in,
                // send it back together with the answer.
                let b = buf.take().unwrap();
                let (tx, rx) = mpsc::channel();
                let (btx, brx) = mpsc::channel();
                std::thread::spawn(move || {
                    let r = std::panic::catch_unwind(std::panic::AssertUnwindSafe(|| b.len().unwrap()));
                    if let Ok(n) = r {
                        let _ = tx.send(n);
                        let _ = btx.send(b);
                    }
                });
                pending = Some(Pending::Len(rx));
                // the buffer comes back once len() has returned; picked up at the end
                std::mem::forget(brx);
            }
            "X" => {
                let b = buf.take().unwrap();
                let (tx, rx) = mpsc::channel();
                let mut dest = Dest { data: d0.clone(), max: destmax };
                std::thread::spawn(move || {
                    let r = std::panic::catch_unwind(std::panic::AssertUnwindSafe(|| {
                        b.expect_closed_write(&mut dest).unwrap();
                        dest
                    }));
                    if let Ok(d) = r {
                        let _ = tx.send(d);
                    }
                });
                pending = Some(Pending::Expect(rx));
            }
            w if w.starts_with("WN:") => {
                // `WN:<count>`: count bytes, written in 1 MiB pieces (staged sizes beyond 2^32 without a 2^33-character line)
                let mut left: u64 = w[3..].parse().unwrap();
                let chunk = vec![0xA5u8; 1 << 20];
                while left > 0 {
                    let k = left.min(chunk.len() as u64) as usize;
                    writer.as_mut().unwrap().write_all(&chunk[..k]).unwrap();
                    left -= k as u64;
                }
            }
            w if w.starts_with("W:") => {
                let data = unhex(&w[2..]);
                writer.as_mut().unwrap().write_all(&data).unwrap();
            }
            _ => {}
        }
    }
    writeln!(out, "EARLY {}", early as u8).unwrap();
    match pending {
        None => writeln!(out, "DEST none").unwrap(),
        Some(p) => {
            let wait = Duration::from_millis(if dropped { 3000 } else { 30 });
            match p {
                Pending::Await(rx) => match rx.recv_timeout(wait) {
                    Ok(d) => writeln!(out, "DEST {}", hex(&d.data)).unwrap(),
                    Err(_) => writeln!(out, "DEST blocked").unwrap(),
                },
                Pending::Expect(rx) => match rx.recv_timeout(wait) {
                    Ok(d) => writeln!(out, "DEST {}", hex(&d.data)).unwrap(),
                    Err(_) => writeln!(out, "DEST blocked").unwrap(),
                },
                Pending::Len(rx) => match rx.recv_timeout(wait) {
                    Ok(n) => writeln!(out, "LEN {}", n).unwrap(),
                    Err(_) => writeln!(out, "LEN blocked").unwrap(),
                },
            }
        }
    }
}

// ---------------------------------------------------------------------------------------------
// C18

fn write_text(c: &Case, outdir: &Path, ext: &str) -> std::path::PathBuf {
    let p = outdir.join(format!("{}.{}", c.id, ext));
    let text = unhex(&c.records("TEXT").next().expect("TEXT")[1]);
    std::fs::File::create(&p).unwrap().write_all(&text).unwrap();
    p
}

fn fileview(c: &Case, outdir: &Path, out: &mut String) {
    let p = write_text(c, outdir, "txt");
    // `HOLE <pos> <len>`: the file gets `len` zero bytes inserted at `pos` — as a hole (a sparse file: views of more than 4 GiB
    // without 4 GiB of data)
    if let Some(h) = c.records("HOLE").next() {
        use std::io::{Seek as _, Write as _};
        let (pos, len): (u64, u64) = (h[1].parse().unwrap(), h[2].parse().unwrap());
        let text = std::fs::read(&p).unwrap();
        let mut f = std::fs::File::create(&p).unwrap();
        f.write_all(&text[..pos as usize]).unwrap();
        f.seek(SeekFrom::Start(pos + len)).unwrap();
        f.write_all(&text[pos as usize..]).unwrap();
    }
    let lo: u64 = c.args[0].parse().unwrap();
    let hi: u64 = c.args[1].parse().unwrap();
    let mut v = FileView::new(std::fs::File::open(&p).unwrap(), lo, hi).unwrap();
    for l in c.records("OP") {
        let r = std::panic::catch_unwind(std::panic::AssertUnwindSafe(|| match l[1].as_str() {
            "read" => {
                let n: usize = l[2].parse().unwrap();
                let mut buf = vec![0u8; n];
                match v.read(&mut buf) {
                    Ok(k) => format!("O bytes {}", hex(&buf[..k])),
                    Err(_) => "O err".to_string(),
                }
            }
            _ => {
                let k: i64 = l[3].parse().unwrap();
                let w = match l[2].as_str() {
                    "start" => SeekFrom::Start(k as u64),
                    "cur" => SeekFrom::Current(k),
                    _ => SeekFrom::End(k),
                };
                match v.seek(w) {
                    Ok(p) => format!("O pos {}", p),
                    Err(_) => "O err".to_string(),
                }
            }
        }));
        match r {
            Ok(s) => writeln!(out, "{}", s).unwrap(),
            Err(_) => {
                writeln!(out, "O panic").unwrap();
                break;
            }
        }
    }
    let _ = std::fs::remove_file(p);
}

fn chunks(c: &Case, outdir: &Path, out: &mut String) {
    let p = write_text(c, outdir, "txt");
    let n: u64 = c.args[0].parse().unwrap();
    match bigtools::utils::file::split_file_into_chunks_by_size(std::fs::File::open(&p).unwrap(), n) {
        Ok(v) => {
            let mut line = "CHUNKS".to_string();
            for (a, b) in v {
                write!(line, " {}:{}", a, b).unwrap();
            }
            writeln!(out, "{}", line).unwrap();
        }
        Err(_) => writeln!(out, "CHUNKS err").unwrap(),
    }
    let _ = std::fs::remove_file(p);
}

fn index(c: &Case, outdir: &Path, out: &mut String) {
    let p = write_text(c, outdir, "bed");
    match bigtools::bed::indexer::index_chroms(std::fs::File::open(&p).unwrap()) {
        Ok(Some(v)) => {
            let mut line = "INDEX".to_string();
            for (o, ch) in v {
                write!(line, " {}:{}", o, hex(ch.as_bytes())).unwrap();
            }
            writeln!(out, "{}", line).unwrap();
        }
        Ok(None) => writeln!(out, "INDEX none").unwrap(),
        Err(_) => writeln!(out, "INDEX err").unwrap(),
    }
    let _ = std::fs::remove_file(p);
}

// ---------------------------------------------------------------------------------------------
// C19

fn autosql(c: &Case, out: &mut String) {
    use bigtools::bed::autosql::parse::*;
    if let Some(l) = c.records("GEN").next() {
        // GEN <hex of the rest-of-line of the first BED line>
        let rest = String::from_utf8(unhex(&l[1])).unwrap();
        let text = bigtools::bed::autosql::bed_autosql(&rest);
        writeln!(out, "GEN {}", hex(text.as_bytes())).unwrap();
        match parse_autosql(&text) {
            Ok(mut d) => match d.pop() {
                Some(d) => writeln!(out, "FIELDS {}", d.fields.len()).unwrap(),
                None => writeln!(out, "FIELDS none").unwrap(),
            },
            Err(_) => writeln!(out, "FIELDS err").unwrap(),
        }
        return;
    }
    let text = String::from_utf8(unhex(&c.records("TEXT").next().expect("TEXT")[1])).unwrap();
    fn idx(i: &Option<IndexType>) -> String {
        match i {
            None => "-".into(),
            Some(IndexType::Primary) => "primary".into(),
            Some(IndexType::Unique) => "unique".into(),
            Some(IndexType::Index(None)) => "index".into(),
            Some(IndexType::Index(Some(s))) => format!("index[{}]", hex(s.as_bytes())),
        }
    }
    fn dt(d: &DeclarationType) -> &'static str {
        match d {
            DeclarationType::Simple => "simple",
            DeclarationType::Object => "object",
            DeclarationType::Table => "table",
        }
    }
    fn ft(t: &FieldType) -> String {
        match t {
            FieldType::Enum(v) => format!(
                "enum({})",
                v.iter().map(|s| hex(s.as_bytes())).collect::<Vec<_>>().join(",")
            ),
            FieldType::Set(v) => format!(
                "set({})",
                v.iter().map(|s| hex(s.as_bytes())).collect::<Vec<_>>().join(",")
            ),
            FieldType::Declaration(d, n) => format!("{}:{}", dt(d), hex(n.name.as_bytes())),
            other => other.to_string(),
        }
    }
    match parse_autosql(&text) {
        Err(e) => {
            let k = format!("{:?}", e);
            writeln!(out, "PARSE err {}", k.split('(').next().unwrap()).unwrap();
        }
        Ok(ds) => {
            writeln!(out, "PARSE ok {}", ds.len()).unwrap();
            for d in ds {
                writeln!(
                    out,
                    "DECL {} {} {} {} {} {}",
                    dt(&d.declaration_type),
                    hex(d.name.name.as_bytes()),
                    idx(&d.name.index_type),
                    d.name.auto as u8,
                    hex(d.comment.as_bytes()),
                    d.fields.len()
                )
                .unwrap();
                for f in d.fields {
                    writeln!(
                        out,
                        "FIELD {} {} {} {} {} {}",
                        ft(&f.field_type),
                        f.field_size.map(|s| hex(s.as_bytes())).unwrap_or("none".into()),
                        hex(f.name.as_bytes()),
                        idx(&f.index_type),
                        f.auto as u8,
                        hex(f.comment.as_bytes())
                    )
                    .unwrap();
                }
            }
        }
    }
}

// ---------------------------------------------------------------------------------------------
// C15

fn vals_of(c: &Case, tag: &str, k: Option<usize>) -> Vec<Value> {
    c.records(tag)
        .filter(|l| k.map(|k| l[1].parse::<usize>().unwrap() == k).unwrap_or(true))
        .map(|l| {
            let o = if k.is_some() { 2 } else { 1 };
            Value {
                start: l[o].parse().unwrap(),
                end: l[o + 1].parse().unwrap(),
                value: f32::from_bits(u32::from_str_radix(&l[o + 2], 16).unwrap()),
            }
        })
        .collect()
}

fn vline(tag: &str, v: &[Value]) -> String {
    let mut s = tag.to_string();
    for x in v {
        write!(s, " {}:{}:{}", x.start, x.end, f32bits(x.value)).unwrap();
    }
    s
}

fn merge(c: &Case, out: &mut String) {
    let n: usize = c.args[0].parse().unwrap();
    let streams: Vec<_> = (0..n)
        .map(|k| vals_of(c, "MV", Some(k)).into_iter().map(Ok::<Value, std::io::Error>))
        .collect();
    let merged: Vec<Value> = bigtools::utils::merge::merge_sections_many(streams)
        .map(|r| r.unwrap())
        .collect();
    writeln!(out, "{}", vline("M", &merged)).unwrap();
}

fn mergeinto(c: &Case, out: &mut String) {
    let v = vals_of(c, "V", None);
    let (a, b, c3, d) = bigtools::utils::merge::merge_into(v[0], v[1]);
    let mut all = vec![a];
    for x in [b, c3, d] {
        if let Some(x) = x {
            all.push(x);
        }
    }
    writeln!(out, "{}", vline("M", &all)).unwrap();
}

fn fill(c: &Case, out: &mut String) {
    let v = vals_of(c, "V", None);
    let it = v.into_iter().map(Ok::<Value, std::io::Error>);
    let res: Vec<Value> = if c.args.len() >= 2 {
        bigtools::utils::fill::fill_start_to_end(it, c.args[0].parse().unwrap(), c.args[1].parse().unwrap())
            .map(|r| r.unwrap())
            .collect()
    } else {
        bigtools::utils::fill::fill(it).map(|r| r.unwrap()).collect()
    };
    writeln!(out, "{}", vline("F", &res)).unwrap();
}

// ---------------------------------------------------------------------------------------------
// C14: every prefix of the operations that reach the destination, and a failure at every operation.

fn full_answers(kind: &str, bytes: &[u8]) -> Option<String> {
    // everything the file advertises: chromosomes, every record, every zoom level's records
    let mut s = String::new();
    if kind == "wigops" {
        let mut r = BigWigRead::open(Cursor::new(bytes.to_vec())).ok()?;
        let chroms: Vec<_> = r.chroms().to_vec();
        let zooms: Vec<u32> = r.info().zoom_headers.iter().map(|z| z.reduction_level).collect();
        for ch in &chroms {
            write!(s, "C {} {} ", ch.name, ch.length).unwrap();
            match r.get_interval(&ch.name, 0, ch.length) {
                Ok(it) => {
                    for v in it {
                        match v {
                            Ok(v) => write!(s, "{}:{}:{} ", v.start, v.end, f32bits(v.value)).unwrap(),
                            Err(_) => write!(s, "ERR ").unwrap(),
                        }
                    }
                }
                Err(_) => write!(s, "QERR ").unwrap(),
            }
            for z in &zooms {
                write!(s, "Z{} ", z).unwrap();
                match r.get_zoom_interval(&ch.name, 0, ch.length, *z) {
                    Ok(it) => {
                        for v in it {
                            match v {
                                Ok(v) => write!(s, "{} ", wigbed::zrec_text(&v).replace(' ', ":")).unwrap(),
                                Err(_) => write!(s, "ERR ").unwrap(),
                            }
                        }
                    }
                    Err(_) => write!(s, "QERR ").unwrap(),
                }
            }
        }
    } else {
        let mut r = BigBedRead::open(Cursor::new(bytes.to_vec())).ok()?;
        let chroms: Vec<_> = r.chroms().to_vec();
        let zooms: Vec<u32> = r.info().zoom_headers.iter().map(|z| z.reduction_level).collect();
        for ch in &chroms {
            write!(s, "C {} {} ", ch.name, ch.length).unwrap();
            match r.get_interval(&ch.name, 0, ch.length) {
                Ok(it) => {
                    for v in it {
                        match v {
                            Ok(v) => write!(s, "{}:{}:{} ", v.start, v.end, hex(v.rest.as_bytes())).unwrap(),
                            Err(_) => write!(s, "ERR ").unwrap(),
                        }
                    }
                }
                Err(_) => write!(s, "QERR ").unwrap(),
            }
            for z in &zooms {
                write!(s, "Z{} ", z).unwrap();
                match r.get_zoom_interval(&ch.name, 0, ch.length, *z) {
                    Ok(it) => {
                        for v in it {
                            match v {
                                Ok(v) => write!(s, "{} ", wigbed::zrec_text(&v).replace(' ', ":")).unwrap(),
                                Err(_) => write!(s, "ERR ").unwrap(),
                            }
                        }
                    }
                    Err(_) => write!(s, "QERR ").unwrap(),
                }
            }
        }
    }
    Some(s)
}

fn ops(c: &Case, outdir: &Path, out: &mut String) {
    let wig = c.kind == "wigops";
    let write = |sink: Sink| -> Result<(), String> {
        if wig {
            wigbed::write_wig(c, sink, outdir)
        } else {
            wigbed::write_bed(c, sink, outdir)
        }
    };
    let sink = Sink::recording();
    let res = write(sink.clone());
    writeln!(out, "R {}", if res.is_ok() { "ok".to_string() } else { format!("err {}", res.clone().unwrap_err()) }).unwrap();
    let (oplist, log, final_bytes) = {
        let st = sink.0.lock().unwrap();
        (st.ops.clone(), st.log.clone(), st.cur.get_ref().clone())
    };
    let mut line = format!("OPS {}", oplist.len());
    let mut wix = 0usize;
    for o in &oplist {
        match o {
            Op::Write { pos, len } => {
                // `!` marks a write that puts a non-zero byte into the magic number (offsets 0..4)
                let (_, data) = &log[wix];
                wix += 1;
                let hot = *pos < 4 && data.iter().take((4 - *pos) as usize).any(|b| *b != 0);
                write!(line, " W{}+{}{}", pos, len, if hot { "!" } else { "" }).unwrap()
            }
            Op::Seek { to } => write!(line, " S{}", to).unwrap(),
            Op::Flush => write!(line, " F").unwrap(),
        }
    }
    writeln!(out, "{}", line).unwrap();
    let complete = full_answers(&c.kind, &final_bytes);
    writeln!(out, "FINAL {}", if complete.is_some() { "opens" } else { "rejected" }).unwrap();
    // prefixes: replay the first k operations into an empty buffer
    let mut img: Vec<u8> = vec![];
    let mut wi = 0usize;
    let mut verdicts = String::from("PREFIX");
    let mut first_open: Option<usize> = None;
    for (k, o) in oplist.iter().enumerate() {
        // state after k operations (before applying o)
        let v = match full_answers(&c.kind, &img) {
            None => 'r',
            Some(a) => {
                if Some(&a) == complete.as_ref() {
                    'c'
                } else {
                    'P'
                }
            }
        };
        if v != 'r' && first_open.is_none() {
            first_open = Some(k);
        }
        verdicts.push(' ');
        verdicts.push(v);
        if let Op::Write { .. } = o {
            let (pos, data) = &log[wi];
            wi += 1;
            let end = *pos as usize + data.len();
            if img.len() < end {
                img.resize(end, 0);
            }
            img[*pos as usize..end].copy_from_slice(data);
        }
    }
    writeln!(out, "{}", verdicts).unwrap();
    writeln!(out, "FIRSTOPEN {}", first_open.map(|k| k.to_string()).unwrap_or("never".into())).unwrap();
    // the same prefixes on a REUSED destination: it already holds an older complete file of the same kind (a buffer or a
    // file opened without truncation). `o` = still serves the old file completely, `r` rejected, `c` complete new file,
    // `P` = opens and serves neither
    let old_case_text = if wig {
        "CASE old wigops\nOPT compress=0 ips=2 bs=2 zooms=8 pass=1 inmem=1 rt=ct threads=1 chan=0 src=iter sort=all\nCHROM oldA 400\nCHROM oldB 90\n\
V oldA 3 9 3f800000\nV oldA 20 31 40000000\nV oldA 100 180 40400000\nV oldA 200 201 3f800000\nV oldA 300 390 40a00000\nV oldB 0 90 3f800000\nEND\n"
    } else {
        "CASE old bedops\nOPT compress=0 ips=2 bs=2 zooms=8 pass=1 inmem=1 rt=ct threads=1 chan=0 src=iter sort=all\nCHROM oldA 400\nCHROM oldB 90\n\
E oldA 3 9 -\nE oldA 20 31 61\nE oldA 25 180 -\nE oldA 200 201 62\nE oldA 300 390 -\nE oldB 0 90 -\nEND\n"
    };
    let old_case = parse_cases(old_case_text).remove(0);
    let old_sink = Sink::new();
    let old_ok = if wig { wigbed::write_wig(&old_case, old_sink.clone(), outdir) } else { wigbed::write_bed(&old_case, old_sink.clone(), outdir) };
    if old_ok.is_ok() {
        let old_bytes = old_sink.bytes();
        let old_answers = full_answers(&c.kind, &old_bytes);
        let mut img: Vec<u8> = old_bytes.clone();
        let mut wi = 0usize;
        let mut verdicts = String::from("PREFIXOLD");
        for o in oplist.iter().chain(std::iter::once(&Op::Flush)) {
            let v = match full_answers(&c.kind, &img) {
                None => 'r',
                Some(a) => {
                    if Some(&a) == complete.as_ref() {
                        'c'
                    } else if Some(&a) == old_answers.as_ref() {
                        'o'
                    } else {
                        'P'
                    }
                }
            };
            verdicts.push(' ');
            verdicts.push(v);
            if let Op::Write { .. } = o {
                let (pos, data) = &log[wi];
                wi += 1;
                let end = *pos as usize + data.len();
                if img.len() < end {
                    img.resize(end, 0);
                }
                img[*pos as usize..end].copy_from_slice(data);
            }
        }
        writeln!(out, "{}", verdicts).unwrap();
    }
    // faults: the k-th operation fails
    let mut fl = String::from("FAULT");
    for k in 1..=oplist.len() {
        let s = Sink::failing(k);
        let r = std::panic::catch_unwind(std::panic::AssertUnwindSafe(|| write(s.clone())));
        let hit = s.0.lock().unwrap().failed;
        let v = match r {
            Err(_) => 'p',
            Ok(Ok(())) => {
                if hit {
                    'S'
                } else {
                    's'
                }
            }
            Ok(Err(_)) => 'e',
        };
        fl.push(' ');
        fl.push(v);
    }
    writeln!(out, "{}", fl).unwrap();
}

// ---------------------------------------------------------------------------------------------
// C16: UCSC-style argument rewriting (`compat_args`)

fn compat(c: &Case, out: &mut String) {
    let args: Vec<std::ffi::OsString> = c
        .records("ARG")
        .map(|l| std::ffi::OsString::from(String::from_utf8(unhex(&l[1])).unwrap()))
        .collect();
    let res: Vec<std::ffi::OsString> = bigtools::utils::cli::compat_args(args.into_iter()).collect();
    let mut line = "ARGS".to_string();
    for a in res {
        write!(line, " {}", hex(a.to_string_lossy().as_bytes())).unwrap();
    }
    writeln!(out, "{}", line).unwrap();
}
