//! Kinds `wig` and `bed`: write a bigWig / bigBed with the real writers under the case's options,
//! then read it back with the real readers and print the property-level observables.

use crate::proto::*;
use crate::sinks::*;
use bigtools::beddata::{BedParserParallelStreamingIterator, BedParserStreamingIterator};
use bigtools::bed::bedparser::{parse_bed, parse_bedgraph, BedValueError};
use bigtools::{
    BBIProcessError, BBIReadError, BBIWriteOptions, BedEntry, BigBedRead, BigBedWrite,
    BigWigRead, BigWigWrite, InputSortType, Value, ZoomRecord,
};
use std::collections::HashMap;
use std::fmt::Write as _;
use std::io::{Cursor, Write};
use std::path::{Path, PathBuf};
use std::sync::atomic::{AtomicUsize, Ordering};
use std::sync::Arc;

pub struct WOpts {
    pub o: BBIWriteOptions,
    pub pass: u32,
    pub threads: usize,
    pub rt: String,
    pub src: String,
}

pub fn parse_opts(m: &HashMap<String, String>) -> WOpts {
    let mut o = BBIWriteOptions::default();
    let g = |k: &str, d: &str| m.get(k).cloned().unwrap_or_else(|| d.to_string());
    o.compress = g("compress", "0") == "1";
    o.items_per_slot = g("ips", "1024").parse().unwrap();
    o.block_size = g("bs", "256").parse().unwrap();
    o.inmemory = g("inmem", "0") == "1";
    o.channel_size = g("chan", "100").parse().unwrap();
    o.max_zooms = g("nzooms", "10").parse().unwrap();
    o.initial_zoom_size = g("izs", "160").parse().unwrap();
    o.input_sort_type = if g("sort", "all") == "start" {
        InputSortType::START
    } else {
        InputSortType::ALL
    };
    let z = g("zooms", "auto");
    o.manual_zoom_sizes = match z.as_str() {
        "auto" => None,
        "none" => Some(vec![]),
        l => Some(l.split(',').map(|x| x.parse().unwrap()).collect()),
    };
    WOpts {
        o,
        pass: g("pass", "1").parse().unwrap(),
        threads: g("threads", "2").parse().unwrap(),
        rt: g("rt", "mt"),
        src: g("src", "iter"),
    }
}

pub fn runtime(w: &WOpts) -> tokio::runtime::Runtime {
    if w.rt == "ct" {
        tokio::runtime::Builder::new_current_thread().build().unwrap()
    } else {
        tokio::runtime::Builder::new_multi_thread()
            .worker_threads(w.threads.max(1))
            .build()
            .unwrap()
    }
}

pub fn err_class<E: std::error::Error>(e: &BBIProcessError<E>) -> String {
    match e {
        BBIProcessError::InvalidInput(_) => "InvalidInput".into(),
        BBIProcessError::InvalidChromosome(_) => "InvalidChromosome".into(),
        BBIProcessError::IoError(_) => "Io".into(),
        BBIProcessError::SourceError(_) => "SourceError".into(),
    }
}

pub fn read_err_class(e: &BBIReadError) -> &'static str {
    match e {
        BBIReadError::InvalidChromosome(_) => "InvalidChromosome",
        BBIReadError::UnknownMagic => "UnknownMagic",
        BBIReadError::InvalidFile(_) => "InvalidFile",
        BBIReadError::BedValueError(_) => "BedValue",
        BBIReadError::IoError(_) => "Io",
    }
}

fn chrom_sizes(c: &Case) -> HashMap<String, u32> {
    c.records("CHROM")
        .map(|l| (l[1].clone(), l[2].parse().unwrap()))
        .collect()
}

/// Byte offsets of the first line of every chromosome run (what a correct `index_chroms` returns).
pub fn linear_index(text: &str) -> Vec<(u64, String)> {
    let mut out: Vec<(u64, String)> = vec![];
    let mut off = 0u64;
    for line in text.split_inclusive('\n') {
        let chrom = line.split('\t').next().unwrap_or("").trim_end().to_string();
        if out.last().map(|l| l.1 != chrom).unwrap_or(true) {
            out.push((off, chrom));
        }
        off += line.len() as u64;
    }
    out
}

fn wig_text(vals: &[(String, Value)]) -> String {
    let mut s = String::new();
    for (c, v) in vals {
        writeln!(s, "{}\t{}\t{}\t{}", c, v.start, v.end, v.value).unwrap();
    }
    s
}

fn bed_text(vals: &[(String, BedEntry)]) -> String {
    let mut s = String::new();
    for (c, v) in vals {
        if v.rest.is_empty() {
            writeln!(s, "{}\t{}\t{}", c, v.start, v.end).unwrap();
        } else {
            writeln!(s, "{}\t{}\t{}\t{}", c, v.start, v.end, v.rest).unwrap();
        }
    }
    s
}

pub fn wig_values(c: &Case) -> Vec<(String, Value)> {
    c.records("V")
        .map(|l| {
            (
                l[1].clone(),
                Value {
                    start: l[2].parse().unwrap(),
                    end: l[3].parse().unwrap(),
                    value: f32::from_bits(u32::from_str_radix(&l[4], 16).unwrap()),
                },
            )
        })
        .collect()
}

pub fn bed_entries(c: &Case) -> Vec<(String, BedEntry)> {
    c.records("E")
        .map(|l| {
            (
                l[1].clone(),
                BedEntry {
                    start: l[2].parse().unwrap(),
                    end: l[3].parse().unwrap(),
                    rest: String::from_utf8(unhex(&l[4])).unwrap(),
                },
            )
        })
        .collect()
}

/// Optional `TEXT <hex>` line: the raw text of the input file (overrides the V/E records as the file source;
/// used for malformed lines).
fn raw_text(c: &Case) -> Option<String> {
    c.records("TEXT")
        .next()
        .map(|l| String::from_utf8_lossy(&unhex(&l[1])).to_string())
}

pub fn write_wig(c: &Case, sink: Sink, scratch: &Path) -> Result<(), String> {
    let w = parse_opts(&c.opt_map());
    let vals = wig_values(c);
    let mut out = BigWigWrite::new(sink, chrom_sizes(c));
    out.options = w.o.clone();
    let allow = !matches!(w.o.input_sort_type, InputSortType::ALL);
    let rt = runtime(&w);
    let path: PathBuf = scratch.join(format!("{}.bedGraph", c.id));
    let text = raw_text(c).unwrap_or_else(|| wig_text(&vals));
    if w.src != "iter" {
        std::fs::File::create(&path).unwrap().write_all(text.as_bytes()).unwrap();
    }
    let r: Result<(), String> = match (w.src.as_str(), w.pass) {
        ("iter", 1) => out
            .write(BedParserStreamingIterator::wrap_infallible_iter(vals.into_iter(), allow), rt)
            .map_err(|e| err_class(&e)),
        ("iter", _) => out
            .write_multipass(
                || Ok(BedParserStreamingIterator::wrap_infallible_iter(vals.clone().into_iter(), allow)),
                rt,
            )
            .map_err(|e| err_class(&e)),
        ("file", 1) => out
            .write(
                BedParserStreamingIterator::from_bedgraph_file(std::fs::File::open(&path).unwrap(), allow),
                rt,
            )
            .map_err(|e| err_class(&e)),
        ("file", _) => out
            .write_multipass(
                || {
                    Ok(BedParserStreamingIterator::from_bedgraph_file(
                        std::fs::File::open(&path)?,
                        allow,
                    ))
                },
                rt,
            )
            .map_err(|e| err_class(&e)),
        (p, pass) => {
            let idx = if p == "parix" {
                match bigtools::bed::indexer::index_chroms(std::fs::File::open(&path).unwrap()) {
                    Ok(Some(i)) => i,
                    Ok(None) => return Err("NotGrouped".into()),
                    Err(_) => return Err("Io".into()),
                }
            } else {
                linear_index(&text)
            };
            if pass == 1 {
                out.write(
                    BedParserParallelStreamingIterator::new(idx, allow, path.clone(), parse_bedgraph),
                    rt,
                )
                .map_err(|e| err_class(&e))
            } else {
                out.write_multipass(
                    || {
                        Ok(BedParserParallelStreamingIterator::new(
                            idx.clone(),
                            allow,
                            path.clone(),
                            parse_bedgraph,
                        ))
                    },
                    rt,
                )
                .map_err(|e| err_class(&e))
            }
        }
    };
    let _ = std::fs::remove_file(&path);
    r
}

pub fn write_bed(c: &Case, sink: Sink, scratch: &Path) -> Result<(), String> {
    let w = parse_opts(&c.opt_map());
    let vals = bed_entries(c);
    let mut out = BigBedWrite::new(sink, chrom_sizes(c));
    out.options = w.o.clone();
    if let Some(l) = c.records("AUTOSQL").next() {
        out.autosql = Some(String::from_utf8(unhex(&l[1])).unwrap());
    }
    let allow = !matches!(w.o.input_sort_type, InputSortType::ALL);
    let rt = runtime(&w);
    let path: PathBuf = scratch.join(format!("{}.bed", c.id));
    let text = raw_text(c).unwrap_or_else(|| bed_text(&vals));
    if w.src != "iter" {
        std::fs::File::create(&path).unwrap().write_all(text.as_bytes()).unwrap();
    }
    let r: Result<(), String> = match (w.src.as_str(), w.pass) {
        ("iter", 1) => out
            .write(BedParserStreamingIterator::wrap_infallible_iter(vals.into_iter(), allow), rt)
            .map_err(|e| err_class(&e)),
        ("iter", _) => out
            .write_multipass(
                || Ok(BedParserStreamingIterator::wrap_infallible_iter(vals.clone().into_iter(), allow)),
                rt,
            )
            .map_err(|e| err_class(&e)),
        ("file", 1) => out
            .write(
                BedParserStreamingIterator::from_bed_file(std::fs::File::open(&path).unwrap(), allow),
                rt,
            )
            .map_err(|e| err_class(&e)),
        ("file", _) => out
            .write_multipass(
                || Ok(BedParserStreamingIterator::from_bed_file(std::fs::File::open(&path)?, allow)),
                rt,
            )
            .map_err(|e| err_class(&e)),
        (p, pass) => {
            let idx = if p == "parix" {
                match bigtools::bed::indexer::index_chroms(std::fs::File::open(&path).unwrap()) {
                    Ok(Some(i)) => i,
                    Ok(None) => return Err("NotGrouped".into()),
                    Err(_) => return Err("Io".into()),
                }
            } else {
                linear_index(&text)
            };
            if pass == 1 {
                out.write(
                    BedParserParallelStreamingIterator::new(idx, allow, path.clone(), parse_bed),
                    rt,
                )
                .map_err(|e| err_class(&e))
            } else {
                out.write_multipass(
                    || {
                        Ok(BedParserParallelStreamingIterator::new(
                            idx.clone(),
                            allow,
                            path.clone(),
                            parse_bed,
                        ))
                    },
                    rt,
                )
                .map_err(|e| err_class(&e))
            }
        }
    };
    let _ = std::fs::remove_file(&path);
    r
}

fn debug_field(dbg: &str, field: &str) -> String {
    // pull `field: value` out of a derived Debug rendering (ids are crate-private)
    let key = format!("{}: ", field);
    match dbg.find(&key) {
        Some(i) => dbg[i + key.len()..]
            .chars()
            .take_while(|c| c.is_ascii_digit())
            .collect(),
        None => "?".into(),
    }
}

pub fn zrec_text(z: &ZoomRecord) -> String {
    let id = debug_field(&format!("{:?}", z), "chrom");
    format!(
        "{} {} {} {} {} {} {} {}",
        id,
        z.start,
        z.end,
        z.summary.bases_covered,
        fnum(z.summary.min_val),
        fnum(z.summary.max_val),
        fnum(z.summary.sum),
        fnum(z.summary.sum_squares)
    )
}

fn rle_values(v: &[f32]) -> String {
    let mut s = String::new();
    let mut i = 0;
    while i < v.len() {
        let b = v[i].to_bits();
        let mut j = i;
        while j < v.len() && v[j].to_bits() == b {
            j += 1;
        }
        let name = if v[i].is_nan() { "nan".to_string() } else { f32bits(v[i]) };
        write!(s, " {}*{}", name, j - i).unwrap();
        i = j;
    }
    s
}

/// Reads `bytes` as a bigWig and prints the observables + the answers to the case's `Q` lines.
pub fn read_wig(c: &Case, bytes: Vec<u8>, out: &mut String) {
    let mode = c.opt_map().get("reader").cloned().unwrap_or_else(|| "plain".into());
    let r = match BigWigRead::open(Cursor::new(bytes.clone())) {
        Ok(r) => r,
        Err(e) => {
            writeln!(out, "OPEN err {}", format!("{:?}", e).split('(').next().unwrap()).unwrap();
            return;
        }
    };
    writeln!(out, "OPEN ok").unwrap();
    header_lines(r.info(), out);
    let zoom_levels: Vec<u32> = r.info().zoom_headers.iter().map(|z| z.reduction_level).collect();
    let mut r = r;
    match r.get_summary() {
        Ok(s) => writeln!(
            out,
            "SUM {} {} {} {} {} {}",
            s.total_items,
            s.bases_covered,
            fnum(s.min_val),
            fnum(s.max_val),
            fnum(s.sum),
            fnum(s.sum_squares)
        )
        .unwrap(),
        Err(_) => writeln!(out, "SUM err").unwrap(),
    }
    macro_rules! answer {
        ($rd:expr, $qi:expr, $q:expr) => {{
            let rd = $rd;
            let q: &Vec<String> = $q;
            let (s, e): (u32, u32) = (q[3].parse().unwrap(), q[4].parse().unwrap());
            match q[1].as_str() {
                "iv" => match rd.get_interval(&q[2], s, e) {
                    Err(e) => writeln!(out, "A {} err {}", $qi, read_err_class(&e)).unwrap(),
                    Ok(it) => {
                        let mut line = format!("A {} ok", $qi);
                        let mut bad = None;
                        for v in it {
                            match v {
                                Ok(v) => write!(line, " {}:{}:{}", v.start, v.end, f32bits(v.value)).unwrap(),
                                Err(e) => {
                                    bad = Some(read_err_class(&e));
                                    break;
                                }
                            }
                        }
                        match bad {
                            None => writeln!(out, "{}", line).unwrap(),
                            Some(b) => writeln!(out, "A {} err {}", $qi, b).unwrap(),
                        }
                    }
                },
                "stats" => {
                    let entry = BedEntry { start: s, end: e, rest: String::new() };
                    match bigtools::utils::misc::stats_for_bed_item(&q[2], entry, rd) {
                        Err(e) => writeln!(out, "A {} err {}", $qi, read_err_class(&e)).unwrap(),
                        Ok(st) => writeln!(
                            out,
                            "A {} ok {} {} {} {} {} | {} {}",
                            $qi,
                            st.size,
                            st.bases,
                            fnum(st.sum),
                            fnum(st.min),
                            fnum(st.max),
                            format!("{:016x}", st.mean0.to_bits()),
                            format!("{:016x}", st.mean.to_bits())
                        )
                        .unwrap(),
                    }
                }
                "vals" => match rd.values(&q[2], s, e) {
                    Err(e) => writeln!(out, "A {} err {}", $qi, read_err_class(&e)).unwrap(),
                    Ok(v) => writeln!(out, "A {} ok{}", $qi, rle_values(&v)).unwrap(),
                },
                "zoom" => {
                    // `#k` = the k-th stored level; a plain number = that reduction level
                    let lvl: u32 = if let Some(k) = q[5].strip_prefix('#') {
                        let k: usize = k.parse().unwrap();
                        match zoom_levels.get(k) {
                            Some(l) => *l,
                            None => u32::MAX,
                        }
                    } else {
                        q[5].parse().unwrap()
                    };
                    match rd.get_zoom_interval(&q[2], s, e, lvl) {
                        Err(e) => writeln!(out, "A {} err {}", $qi, {
                            let d = format!("{:?}", e);
                            if d.contains("InvalidChromosome") {
                                "InvalidChromosome".to_string()
                            } else if d.starts_with("ReductionLevelNotFound") {
                                "Zoom".to_string()
                            } else {
                                format!("Zoom:{}", d.split('(').next().unwrap())
                            }
                        }).unwrap(),
                        Ok(it) => {
                            let mut line = format!("A {} ok", $qi);
                            for z in it {
                                match z {
                                    Ok(z) => write!(line, " | {}", zrec_text(&z)).unwrap(),
                                    Err(_) => write!(line, " | err").unwrap(),
                                }
                            }
                            writeln!(out, "{}", line).unwrap();
                        }
                    }
                }
                _ => {}
            }
        }};
    }
    let qs: Vec<&Vec<String>> = c.records("Q").collect();
    match mode.as_str() {
        "cached" => {
            let mut rd = r.cached();
            for (qi, q) in qs.iter().enumerate() {
                answer!(&mut rd, qi, q);
            }
        }
        "fresh" => {
            for (qi, q) in qs.iter().enumerate() {
                let mut rd = BigWigRead::open(Cursor::new(bytes.clone())).unwrap();
                answer!(&mut rd, qi, q);
            }
        }
        "freshcached" => {
            for (qi, q) in qs.iter().enumerate() {
                let mut rd = BigWigRead::open(Cursor::new(bytes.clone())).unwrap().cached();
                answer!(&mut rd, qi, q);
            }
        }
        "flaky" => {
            // a reader whose k-th read after opening fails ONCE (a transient failure of a remote or file-like source): for the
            // first interval query, at every k, the answer must be an error or exactly the answer of an undisturbed reader
            let kmax: usize = c.opt_map().get("flaky").and_then(|v| v.parse().ok()).unwrap_or(40);
            if let Some(q) = qs.iter().find(|q| q[1] == "iv") {
                let (s, e): (u32, u32) = (q[3].parse().unwrap(), q[4].parse().unwrap());
                for k in 0..=kmax {
                    let ctl = Arc::new((AtomicUsize::new(0), AtomicUsize::new(usize::MAX)));
                    let fr = FlakyReader { inner: Cursor::new(bytes.clone()), ctl: ctl.clone() };
                    let mut rd = match BigWigRead::open(fr) {
                        Ok(r) => r,
                        Err(_) => {
                            writeln!(out, "F {} err Open", k).unwrap();
                            continue;
                        }
                    };
                    ctl.0.store(0, Ordering::SeqCst);
                    ctl.1.store(if k == 0 { usize::MAX } else { k }, Ordering::SeqCst);
                    let cached = k % 2 == 1;
                    let line = if cached {
                        let mut rd = rd.cached();
                        flaky_answer(&mut rd, &q[2], s, e)
                    } else {
                        flaky_answer(&mut rd, &q[2], s, e)
                    };
                    writeln!(out, "F {} {}", k, line).unwrap();
                }
            }
        }
        "bufreader" | "bufreadercached" => {
            // the file on disk behind a `BufReader` (a reader whose `read` may legally return fewer bytes than asked: what is
            // left in its buffer)
            let tf = tempfile::NamedTempFile::new().unwrap();
            std::fs::write(tf.path(), &bytes).unwrap();
            let rb = BigWigRead::open(std::io::BufReader::new(std::fs::File::open(tf.path()).unwrap())).unwrap();
            if mode == "bufreader" {
                let mut rb = rb;
                for (qi, q) in qs.iter().enumerate() {
                    answer!(&mut rb, qi, q);
                }
            } else {
                let mut rb = rb.cached();
                for (qi, q) in qs.iter().enumerate() {
                    answer!(&mut rb, qi, q);
                }
            }
        }
        "reopened" | "reopenedmt" => {
            // the file on disk, read through `open_file` (a `ReopenableFile`): the original reader, readers reopened from it
            // AFTER it has answered queries, and readers opened anew on a reopened handle must all answer alike; in
            // `reopenedmt` four more reopened readers answer every interval query concurrently with the original
            use bigtools::utils::reopen::Reopen;
            let tf = tempfile::NamedTempFile::new().unwrap();
            std::fs::write(tf.path(), &bytes).unwrap();
            let mut r0 = BigWigRead::open_file(tf.path().to_str().unwrap()).unwrap();
            let mut handles = vec![];
            if mode == "reopenedmt" {
                let ivq: Vec<(String, u32, u32)> = qs
                    .iter()
                    .filter(|q| q[1] == "iv")
                    .map(|q| (q[2].clone(), q[3].parse().unwrap(), q[4].parse().unwrap()))
                    .collect();
                let collect = |rd: &mut BigWigRead<bigtools::utils::reopen::ReopenableFile>, ivq: &Vec<(String, u32, u32)>| -> Vec<String> {
                    let mut res = vec![];
                    for _round in 0..3 {
                        for (n, s, e) in ivq {
                            let mut line = String::new();
                            match rd.get_interval(n, *s, *e) {
                                Err(_) => line.push_str("err"),
                                Ok(it) => {
                                    for v in it {
                                        match v {
                                            Ok(v) => write!(line, " {}:{}:{}", v.start, v.end, f32bits(v.value)).unwrap(),
                                            Err(_) => line.push_str(" err"),
                                        }
                                    }
                                }
                            }
                            res.push(line);
                        }
                    }
                    res
                };
                // reference answers: a reader of its own on the in-memory bytes
                let mut want = vec![];
                {
                    let mut rc = BigWigRead::open(Cursor::new(bytes.clone())).unwrap();
                    for _round in 0..3 {
                        for (n, s, e) in &ivq {
                            let mut line = String::new();
                            match rc.get_interval(n, *s, *e) {
                                Err(_) => line.push_str("err"),
                                Ok(it) => {
                                    for v in it {
                                        match v {
                                            Ok(v) => write!(line, " {}:{}:{}", v.start, v.end, f32bits(v.value)).unwrap(),
                                            Err(_) => line.push_str(" err"),
                                        }
                                    }
                                }
                            }
                            want.push(line);
                        }
                    }
                }
                for _t in 0..4 {
                    let mut rt = r0.reopen().unwrap();
                    let ivq = ivq.clone();
                    handles.push(std::thread::spawn(move || collect(&mut rt, &ivq)));
                }
                let mine = collect(&mut r0, &ivq);
                let mut same = mine == want;
                for h in handles.drain(..) {
                    match h.join() {
                        Ok(v) => same = same && v == want,
                        Err(_) => same = false,
                    }
                }
                writeln!(out, "CONC {}", if same { "ok" } else { "differ" }).unwrap();
            }
            for (qi, q) in qs.iter().enumerate() {
                match qi % 4 {
                    0 => answer!(&mut r0, qi, q),
                    1 => match r0.reopen() {
                        Ok(mut r1) => answer!(&mut r1, qi, q),
                        Err(_) => writeln!(out, "A {} err Reopen", qi).unwrap(),
                    },
                    2 => match r0.inner_read().reopen().map_err(|_| ()).and_then(|f| BigWigRead::open(f).map_err(|_| ())) {
                        Ok(mut r2) => answer!(&mut r2, qi, q),
                        Err(_) => writeln!(out, "A {} err ReopenOpen", qi).unwrap(),
                    },
                    _ => match r0.reopen() {
                        Ok(r3) => {
                            let mut r3 = r3.cached();
                            answer!(&mut r3, qi, q)
                        }
                        Err(_) => writeln!(out, "A {} err Reopen", qi).unwrap(),
                    },
                }
            }
        }
        _ => {
            for (qi, q) in qs.iter().enumerate() {
                answer!(&mut r, qi, q);
            }
        }
    }
}

/// `Read + Seek` over an in-memory file; the `fail_at`-th `read` call (counted from when the counter was reset) fails once.
pub struct FlakyReader {
    inner: Cursor<Vec<u8>>,
    ctl: Arc<(AtomicUsize, AtomicUsize)>,
}

impl std::io::Read for FlakyReader {
    fn read(&mut self, buf: &mut [u8]) -> std::io::Result<usize> {
        let n = self.ctl.0.fetch_add(1, Ordering::SeqCst) + 1;
        if n == self.ctl.1.load(Ordering::SeqCst) {
            return Err(std::io::Error::new(std::io::ErrorKind::Other, "injected transient read failure"));
        }
        self.inner.read(buf)
    }
}

impl std::io::Seek for FlakyReader {
    fn seek(&mut self, p: std::io::SeekFrom) -> std::io::Result<u64> {
        self.inner.seek(p)
    }
}

fn flaky_answer<R: bigtools::BBIFileRead>(rd: &mut BigWigRead<R>, chrom: &str, s: u32, e: u32) -> String {
    match rd.get_interval(chrom, s, e) {
        Err(_) => "err".to_string(),
        Ok(it) => {
            let mut line = "ok".to_string();
            for v in it {
                match v {
                    Ok(v) => write!(line, " {}:{}:{}", v.start, v.end, f32bits(v.value)).unwrap(),
                    Err(_) => return "err".to_string(),
                }
            }
            line
        }
    }
}

fn header_lines(info: &bigtools::BBIFileInfo, out: &mut String) {
    let mut chroms: Vec<(u32, String, u32)> = info
        .chrom_info
        .iter()
        .map(|ci| {
            (
                debug_field(&format!("{:?}", ci), "id").parse().unwrap_or(u32::MAX),
                ci.name.clone(),
                ci.length,
            )
        })
        .collect();
    chroms.sort();
    let mut line = "CHROMS".to_string();
    for (id, n, l) in chroms {
        write!(line, " {}:{}:{}", n, id, l).unwrap();
    }
    writeln!(out, "{}", line).unwrap();
    let mut line = "ZOOMS".to_string();
    for z in &info.zoom_headers {
        write!(line, " {}", z.reduction_level).unwrap();
    }
    writeln!(out, "{}", line).unwrap();
    writeln!(
        out,
        "HDR version={} fields={} defined={} compressed={}",
        info.header.version,
        info.header.field_count,
        info.header.defined_field_count,
        info.header.is_compressed() as u8
    )
    .unwrap();
}

pub fn read_bed(c: &Case, bytes: Vec<u8>, out: &mut String) {
    let mode = c.opt_map().get("reader").cloned().unwrap_or_else(|| "plain".into());
    let r = match BigBedRead::open(Cursor::new(bytes.clone())) {
        Ok(r) => r,
        Err(e) => {
            writeln!(out, "OPEN err {}", format!("{:?}", e).split('(').next().unwrap()).unwrap();
            return;
        }
    };
    writeln!(out, "OPEN ok").unwrap();
    header_lines(r.info(), out);
    let zoom_levels: Vec<u32> = r.info().zoom_headers.iter().map(|z| z.reduction_level).collect();
    let mut r = r;
    match r.get_summary() {
        Ok(s) => writeln!(
            out,
            "SUM {} {} {} {} {} {}",
            s.total_items,
            s.bases_covered,
            fnum(s.min_val),
            fnum(s.max_val),
            fnum(s.sum),
            fnum(s.sum_squares)
        )
        .unwrap(),
        Err(_) => writeln!(out, "SUM err").unwrap(),
    }
    match r.item_count() {
        Ok(n) => writeln!(out, "ITEMCOUNT {}", n).unwrap(),
        Err(_) => writeln!(out, "ITEMCOUNT err").unwrap(),
    }
    match r.autosql() {
        Ok(Some(s)) => writeln!(out, "AUTOSQL {}", hex(s.as_bytes())).unwrap(),
        Ok(None) => writeln!(out, "AUTOSQL none").unwrap(),
        Err(_) => writeln!(out, "AUTOSQL err").unwrap(),
    }
    macro_rules! answer {
        ($rd:expr, $qi:expr, $q:expr) => {{
            let rd = $rd;
            let q: &Vec<String> = $q;
            let (s, e): (u32, u32) = (q[3].parse().unwrap(), q[4].parse().unwrap());
            match q[1].as_str() {
                "iv" => match rd.get_interval(&q[2], s, e) {
                    Err(e) => writeln!(out, "A {} err {}", $qi, read_err_class(&e)).unwrap(),
                    Ok(it) => {
                        let mut line = format!("A {} ok", $qi);
                        let mut bad = None;
                        for v in it {
                            match v {
                                Ok(v) => write!(line, " {}:{}:{}", v.start, v.end, hex(v.rest.as_bytes())).unwrap(),
                                Err(e) => {
                                    bad = Some(read_err_class(&e));
                                    break;
                                }
                            }
                        }
                        match bad {
                            None => writeln!(out, "{}", line).unwrap(),
                            Some(b) => writeln!(out, "A {} err {}", $qi, b).unwrap(),
                        }
                    }
                },
                "zoom" => {
                    // `#k` = the k-th stored level; a plain number = that reduction level
                    let lvl: u32 = if let Some(k) = q[5].strip_prefix('#') {
                        let k: usize = k.parse().unwrap();
                        match zoom_levels.get(k) {
                            Some(l) => *l,
                            None => u32::MAX,
                        }
                    } else {
                        q[5].parse().unwrap()
                    };
                    match rd.get_zoom_interval(&q[2], s, e, lvl) {
                        Err(e) => writeln!(out, "A {} err {}", $qi, {
                            let d = format!("{:?}", e);
                            if d.contains("InvalidChromosome") {
                                "InvalidChromosome".to_string()
                            } else if d.starts_with("ReductionLevelNotFound") {
                                "Zoom".to_string()
                            } else {
                                format!("Zoom:{}", d.split('(').next().unwrap())
                            }
                        }).unwrap(),
                        Ok(it) => {
                            let mut line = format!("A {} ok", $qi);
                            for z in it {
                                match z {
                                    Ok(z) => write!(line, " | {}", zrec_text(&z)).unwrap(),
                                    Err(_) => write!(line, " | err").unwrap(),
                                }
                            }
                            writeln!(out, "{}", line).unwrap();
                        }
                    }
                }
                _ => {}
            }
        }};
    }
    let qs: Vec<&Vec<String>> = c.records("Q").collect();
    match mode.as_str() {
        "cached" => {
            let mut rd = r.cached();
            for (qi, q) in qs.iter().enumerate() {
                answer!(&mut rd, qi, q);
            }
        }
        "fresh" => {
            for (qi, q) in qs.iter().enumerate() {
                let mut rd = BigBedRead::open(Cursor::new(bytes.clone())).unwrap();
                answer!(&mut rd, qi, q);
            }
        }
        "freshcached" => {
            for (qi, q) in qs.iter().enumerate() {
                let mut rd = BigBedRead::open(Cursor::new(bytes.clone())).unwrap().cached();
                answer!(&mut rd, qi, q);
            }
        }
        _ => {
            for (qi, q) in qs.iter().enumerate() {
                answer!(&mut r, qi, q);
            }
        }
    }
}

/// `wig` / `bed` case: write, keep the bytes as `<outdir>/<id>.bin`, read back.
fn fnv(bytes: &[u8]) -> u64 {
    let mut h: u64 = 0xcbf29ce484222325;
    for b in bytes {
        h ^= *b as u64;
        h = h.wrapping_mul(0x100000001b3);
    }
    h
}

pub fn run_write_case(c: &Case, outdir: &Path, out: &mut String) {
    // `destmax=N`: a destination whose `write` takes at most N bytes per call
    let sink = match c.opt_map().get("destmax").and_then(|v| v.parse::<usize>().ok()) {
        Some(n) => Sink::short_writing(n),
        None => Sink::new(),
    };
    #[cfg(bigtools_verif)]
    {
        let seed: u64 = c.opt_map().get("delay").map(|s| s.parse().unwrap()).unwrap_or(0);
        bigtools::utils::verif_hooks::set_schedule(seed);
    }
    let res = if c.kind == "wig" {
        write_wig(c, sink.clone(), outdir)
    } else {
        write_bed(c, sink.clone(), outdir)
    };
    match &res {
        Ok(()) => writeln!(out, "R ok").unwrap(),
        Err(cls) => writeln!(out, "R err {}", cls).unwrap(),
    }
    let bytes = sink.bytes();
    if c.opt_map().get("keep").map(|x| x == "1").unwrap_or(true) {
        std::fs::write(outdir.join(format!("{}.bin", c.id)), &bytes).unwrap();
    }
    writeln!(out, "LEN {}", bytes.len()).unwrap();
    writeln!(out, "BYTES {} {:016x}", bytes.len(), fnv(&bytes)).unwrap();
    #[cfg(bigtools_verif)]
    writeln!(out, "DELAYPOINTS {}", bigtools::utils::verif_hooks::points_passed()).unwrap();
    if res.is_ok() {
        if c.kind == "wig" {
            read_wig(c, bytes, out);
        } else {
            read_bed(c, bytes, out);
        }
    } else {
        // a refused input must not leave something a reader accepts with data missing (C14, second half)
        let opened = if c.kind == "wig" {
            BigWigRead::open(Cursor::new(bytes)).is_ok()
        } else {
            BigBedRead::open(Cursor::new(bytes)).is_ok()
        };
        writeln!(out, "OPEN {}", if opened { "ok" } else { "err refused-leftover" }).unwrap();
    }
}

/// `readwig` / `readbed` case: the file is given (`FILE <path>`), only read.
/// A file image given as segments (`SEG <offset> <hex>`), zero elsewhere: files whose data lies beyond 4 GiB without 4 GiB of memory.
pub struct Sparse {
    segs: Vec<(u64, Vec<u8>)>,
    len: u64,
    pos: u64,
}

impl std::io::Read for Sparse {
    fn read(&mut self, buf: &mut [u8]) -> std::io::Result<usize> {
        if self.pos >= self.len || buf.is_empty() {
            return Ok(0);
        }
        // inside a segment: copy from it; in a hole: zeros up to the next segment (or the end)
        for (off, data) in &self.segs {
            if self.pos >= *off && self.pos < *off + data.len() as u64 {
                let i = (self.pos - *off) as usize;
                let n = buf.len().min(data.len() - i);
                buf[..n].copy_from_slice(&data[i..i + n]);
                self.pos += n as u64;
                return Ok(n);
            }
        }
        let next = self.segs.iter().map(|(o, _)| *o).filter(|o| *o > self.pos).min().unwrap_or(self.len);
        let n = (buf.len() as u64).min(next - self.pos) as usize;
        for b in &mut buf[..n] {
            *b = 0;
        }
        self.pos += n as u64;
        Ok(n)
    }
}

impl std::io::Seek for Sparse {
    fn seek(&mut self, p: std::io::SeekFrom) -> std::io::Result<u64> {
        let np: i128 = match p {
            std::io::SeekFrom::Start(x) => x as i128,
            std::io::SeekFrom::End(x) => self.len as i128 + x as i128,
            std::io::SeekFrom::Current(x) => self.pos as i128 + x as i128,
        };
        if np < 0 {
            return Err(std::io::Error::new(std::io::ErrorKind::InvalidInput, "seek before the start"));
        }
        self.pos = np as u64;
        Ok(self.pos)
    }
}

/// `readwig` on a sparse image: chromosome table, then interval and per-base queries through the plain or the caching reader
fn read_wig_sparse(c: &Case, out: &mut String) {
    let segs: Vec<(u64, Vec<u8>)> = c.records("SEG").map(|l| (l[1].parse().unwrap(), unhex(&l[2]))).collect();
    let len = segs.iter().map(|(o, d)| o + d.len() as u64).max().unwrap_or(0);
    let mode = c.opt_map().get("reader").cloned().unwrap_or_else(|| "plain".into());
    let r = match BigWigRead::open(Sparse { segs, len, pos: 0 }) {
        Ok(r) => r,
        Err(e) => {
            writeln!(out, "OPEN err {}", format!("{:?}", e).split('(').next().unwrap()).unwrap();
            return;
        }
    };
    writeln!(out, "OPEN ok").unwrap();
    header_lines(r.info(), out);
    let qs: Vec<&Vec<String>> = c.records("Q").collect();
    macro_rules! answer {
        ($rd:expr, $qi:expr, $q:expr) => {{
            let q: &Vec<String> = $q;
            let (s, e): (u32, u32) = (q[3].parse().unwrap(), q[4].parse().unwrap());
            match q[1].as_str() {
                "iv" => match $rd.get_interval(&q[2], s, e) {
                    Err(e) => writeln!(out, "A {} err {}", $qi, read_err_class(&e)).unwrap(),
                    Ok(it) => {
                        let mut line = format!("A {} ok", $qi);
                        let mut bad = None;
                        for v in it {
                            match v {
                                Ok(v) => write!(line, " {}:{}:{}", v.start, v.end, f32bits(v.value)).unwrap(),
                                Err(e) => {
                                    bad = Some(read_err_class(&e));
                                    break;
                                }
                            }
                        }
                        match bad {
                            None => writeln!(out, "{}", line).unwrap(),
                            Some(b) => writeln!(out, "A {} err {}", $qi, b).unwrap(),
                        }
                    }
                },
                "vals" => match $rd.values(&q[2], s, e) {
                    Err(e) => writeln!(out, "A {} err {}", $qi, read_err_class(&e)).unwrap(),
                    Ok(v) => writeln!(out, "A {} ok{}", $qi, rle_values(&v)).unwrap(),
                },
                _ => {}
            }
        }};
    }
    if mode == "cached" {
        let mut rd = r.cached();
        for (qi, q) in qs.iter().enumerate() {
            answer!(rd, qi, q);
        }
    } else {
        let mut rd = r;
        for (qi, q) in qs.iter().enumerate() {
            answer!(rd, qi, q);
        }
    }
}

pub fn run_read_case(c: &Case, out: &mut String) {
    if c.kind == "readwig" && c.records("SEG").next().is_some() {
        read_wig_sparse(c, out);
        return;
    }
    // the file travels inside the case (`FILEHEX <hex>`), or is named by `FILE <path>`
    let bytes = match c.records("FILEHEX").next() {
        Some(l) => unhex(&l[1]),
        None => std::fs::read(&c.records("FILE").next().expect("FILE line")[1]).unwrap(),
    };
    if c.kind == "readwig" {
        read_wig(c, bytes, out);
    } else {
        read_bed(c, bytes, out);
    }
}

#[allow(dead_code)]
pub fn unused(_: BedValueError) {}
