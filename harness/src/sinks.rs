//! Destinations handed to the writers: an in-memory `Write + Seek` sink that records every operation
//! reaching it and can be told to fail at the k-th operation (of any kind).

use std::io::{self, Cursor, Seek, SeekFrom, Write};
use std::sync::{Arc, Mutex};

#[derive(Clone, Debug, PartialEq)]
pub enum Op {
    Write { pos: u64, len: usize },
    Seek { to: u64 },
    Flush,
}

pub struct SinkState {
    pub cur: Cursor<Vec<u8>>,
    pub ops: Vec<Op>,
    /// snapshots of the op index → nothing stored; prefixes are replayed from `log`
    pub log: Vec<(u64, Vec<u8>)>,
    pub record: bool,
    /// fail the n-th operation (1-based, counted over writes, seeks and flushes together)
    pub fail_at: Option<usize>,
    pub count: usize,
    pub failed: bool,
    /// a `write` call accepts at most this many bytes (legal for any `Write`; `write_all` callers never notice)
    pub max_write: usize,
}

#[derive(Clone)]
pub struct Sink(pub Arc<Mutex<SinkState>>);

impl Sink {
    pub fn new() -> Sink {
        Sink(Arc::new(Mutex::new(SinkState {
            cur: Cursor::new(vec![]),
            ops: vec![],
            log: vec![],
            record: false,
            fail_at: None,
            count: 0,
            failed: false,
            max_write: usize::MAX,
        })))
    }
    pub fn recording() -> Sink {
        let s = Sink::new();
        s.0.lock().unwrap().record = true;
        s
    }
    pub fn failing(k: usize) -> Sink {
        let s = Sink::new();
        s.0.lock().unwrap().fail_at = Some(k);
        s
    }
    pub fn short_writing(max: usize) -> Sink {
        let s = Sink::new();
        s.0.lock().unwrap().max_write = max.max(1);
        s
    }
    pub fn bytes(&self) -> Vec<u8> {
        self.0.lock().unwrap().cur.get_ref().clone()
    }
    fn tick(st: &mut SinkState) -> io::Result<()> {
        st.count += 1;
        if Some(st.count) == st.fail_at {
            st.failed = true;
            return Err(io::Error::new(io::ErrorKind::Other, "injected failure"));
        }
        Ok(())
    }
}

impl Write for Sink {
    fn write(&mut self, b: &[u8]) -> io::Result<usize> {
        let mut st = self.0.lock().unwrap();
        Sink::tick(&mut st)?;
        let pos = st.cur.position();
        let b = &b[..b.len().min(st.max_write)];
        if st.record {
            st.ops.push(Op::Write { pos, len: b.len() });
            st.log.push((pos, b.to_vec()));
        }
        st.cur.write(b)
    }
    fn flush(&mut self) -> io::Result<()> {
        let mut st = self.0.lock().unwrap();
        Sink::tick(&mut st)?;
        if st.record {
            st.ops.push(Op::Flush);
        }
        Ok(())
    }
}

impl Seek for Sink {
    fn seek(&mut self, p: SeekFrom) -> io::Result<u64> {
        let mut st = self.0.lock().unwrap();
        Sink::tick(&mut st)?;
        let r = st.cur.seek(p)?;
        if st.record {
            st.ops.push(Op::Seek { to: r });
        }
        Ok(r)
    }
}
