//! bbharness — runs cases of the /verif line protocol against the real bigtools code (in-process).
//!
//! `bbharness run <cases-file> <outdir> [--from <case-id>] [--timeout <seconds>]`
//!
//! For every case it prints `CASE <id>`, the result lines, `END`. A panic inside a case is caught and
//! printed as `R panic`; a case that exceeds the timeout prints `R hang`, `END` and the process exits
//! with status 3 (threads cannot be killed) — the caller restarts after that case with `--from`.

mod proto;
mod sinks;
mod wigbed;
mod small;

use proto::*;
use std::fmt::Write as _;
use std::io::Write;
use std::path::PathBuf;
use std::sync::atomic::{AtomicU64, Ordering};
use std::sync::Arc;

fn run_case(c: &Case, outdir: &PathBuf) -> String {
    let mut out = String::new();
    match c.kind.as_str() {
        "wig" | "bed" => wigbed::run_write_case(c, outdir, &mut out),
        "readwig" | "readbed" => wigbed::run_read_case(c, &mut out),
        k => small::run(k, c, outdir, &mut out),
    }
    out
}

fn main() {
    let args: Vec<String> = std::env::args().collect();
    if args.len() < 4 || args[1] != "run" {
        eprintln!("usage: bbharness run <cases> <outdir> [--from id] [--timeout s]");
        std::process::exit(2);
    }
    let text = std::fs::read_to_string(&args[2]).expect("cases file");
    let outdir = PathBuf::from(&args[3]);
    std::fs::create_dir_all(&outdir).unwrap();
    let mut from: Option<String> = None;
    let mut timeout = 20u64;
    let mut i = 4;
    while i < args.len() {
        match args[i].as_str() {
            "--from" => {
                from = Some(args[i + 1].clone());
                i += 2;
            }
            "--timeout" => {
                timeout = args[i + 1].parse().unwrap();
                i += 2;
            }
            _ => i += 1,
        }
    }
    std::panic::set_hook(Box::new(|_| {}));
    let cases = parse_cases(&text);
    // watchdog: `started` holds the start time (ms since program start, 0 = idle)
    let started = Arc::new(AtomicU64::new(0));
    let t0 = std::time::Instant::now();
    {
        let started = started.clone();
        std::thread::spawn(move || loop {
            std::thread::sleep(std::time::Duration::from_millis(200));
            let s = started.load(Ordering::SeqCst);
            if s != 0 && t0.elapsed().as_millis() as u64 > s + timeout * 1000 {
                let so = std::io::stdout();
                let mut l = so.lock();
                let _ = writeln!(l, "R hang\nEND");
                let _ = l.flush();
                std::process::exit(3);
            }
        });
    }
    let mut skipping = from.is_some();
    for c in &cases {
        if skipping {
            if Some(&c.id) == from.as_ref() {
                skipping = false;
            } else {
                continue;
            }
        }
        {
            let so = std::io::stdout();
            let mut l = so.lock();
            writeln!(l, "CASE {}", c.id).unwrap();
            l.flush().unwrap();
        }
        started.store(t0.elapsed().as_millis() as u64 + 1, Ordering::SeqCst);
        let r = std::panic::catch_unwind(std::panic::AssertUnwindSafe(|| run_case(c, &outdir)));
        started.store(0, Ordering::SeqCst);
        let mut body = match r {
            Ok(s) => s,
            Err(p) => {
                let msg = p
                    .downcast_ref::<String>()
                    .cloned()
                    .or_else(|| p.downcast_ref::<&str>().map(|s| s.to_string()))
                    .unwrap_or_default();
                let mut s = String::new();
                writeln!(s, "R panic {}", hex(msg.as_bytes())).unwrap();
                s
            }
        };
        body.push_str("END\n");
        let so = std::io::stdout();
        let mut l = so.lock();
        l.write_all(body.as_bytes()).unwrap();
        l.flush().unwrap();
    }
}
