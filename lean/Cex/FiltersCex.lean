import BigtoolsModel.Generated.Funcs
import BigtoolsModel.WigSections
import BigtoolsModel.BedQueryBytes
import BigtoolsModel.ZoomQueryBytes
/-! failing-input search used when an obligation of `FiltersGen.lean` no longer checks: the first small argument tuple
    on which a regenerated range filter and the model's filter differ (lake env lean --run). -/
open BBI

def wigSide (k : Nat) (vs ve qs qe : Nat) : Option (Nat × Nat) :=
  let (keep, a, b) := match k with
    | 0 => (Gen.wig_keep_0 vs ve qs qe, Gen.wig_clip_start_0 vs ve qs qe, Gen.wig_clip_end_0 vs ve qs qe)
    | 1 => (Gen.wig_keep_1 vs ve qs qe, Gen.wig_clip_start_1 vs ve qs qe, Gen.wig_clip_end_1 vs ve qs qe)
    | _ => (Gen.wig_keep_2 vs ve qs qe, Gen.wig_clip_start_2 vs ve qs qe, Gen.wig_clip_end_2 vs ve qs qe)
  if keep then some (a, b) else none

def main : IO Unit := do
  let r := [0, 1, 2, 3]
  for vs in r do for ve in r do for qs in r do for qe in r do
    if vs ≤ ve && qs ≤ qe then
      for k in [0, 1, 2] do
        let m := (keepClip qs qe ⟨vs, ve, 0⟩).map fun v => (v.start, v.stop)
        if wigSide k vs ve qs qe != m then
          IO.println s!"CEX bigWig section type {k + 1}: value [{vs},{ve}) query [{qs},{qe}): source {wigSide k vs ve qs qe}, model {m}"
          return
      if Gen.bed_keep vs ve qs qe != bedKeep qs qe ⟨vs, ve, []⟩ then
        IO.println s!"CEX bigBed entry [{vs},{ve}) query [{qs},{qe}): source {Gen.bed_keep vs ve qs qe}, model {bedKeep qs qe ⟨vs, ve, []⟩}"
        return
      for c in [0, 1] do for rc in [0, 1] do
        let z : ZRec := ⟨rc, vs, ve, 0, 0, 0, 0, 0⟩
        if Gen.zoom_keep_0 rc c vs ve qs qe != zKeep c qs qe z || Gen.zoom_keep_1 rc c vs ve qs qe != zKeep c qs qe z then
          IO.println s!"CEX zoom record chrom {rc} [{vs},{ve}) query chrom {c} [{qs},{qe}): source {Gen.zoom_keep_0 rc c vs ve qs qe}/{Gen.zoom_keep_1 rc c vs ve qs qe}, model {zKeep c qs qe z}"
          return
  IO.println "NOCEX"
