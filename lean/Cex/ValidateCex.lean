import BigtoolsModel.Generated.Funcs
import BigtoolsModel.Validate
/-! failing-input search for `ValidateGen.lean`: the first small (value, look-ahead, chromosome length) on which the
    regenerated preconditions and the model's `VL.check` differ. -/
open VL
def main : IO Unit := do
  let r := [0, 1, 2, 3]
  for s in r do for e in r do for len in r do
    if check false len ⟨s, e⟩ none != !Gen.wig_refuse_alone s e len then
      IO.println s!"CEX bigWig value [{s},{e}) chromosome length {len}, no look-ahead: source refuses = {Gen.wig_refuse_alone s e len}, model accepts = {check false len ⟨s, e⟩ none}"
      return
    if check true len ⟨s, e⟩ none != !Gen.bed_refuse_alone s e len then
      IO.println s!"CEX bigBed entry [{s},{e}) chromosome length {len}, no look-ahead: source refuses = {Gen.bed_refuse_alone s e len}, model accepts = {check true len ⟨s, e⟩ none}"
      return
    for ns in r do for ne in r do
      let a := Gen.wig_refuse_alone s e len || Gen.wig_refuse_next s e len ns ne
      if check false len ⟨s, e⟩ (some ⟨ns, ne⟩) != !a then
        IO.println s!"CEX bigWig value [{s},{e}) followed by [{ns},{ne}), chromosome length {len}: source refuses = {a}, model accepts = {check false len ⟨s, e⟩ (some ⟨ns, ne⟩)}"
        return
      let b := Gen.bed_refuse_alone s e len || Gen.bed_refuse_next s e len ns ne
      if check true len ⟨s, e⟩ (some ⟨ns, ne⟩) != !b then
        IO.println s!"CEX bigBed entry [{s},{e}) followed by [{ns},{ne}), chromosome length {len}: source refuses = {b}, model accepts = {check true len ⟨s, e⟩ (some ⟨ns, ne⟩)}"
        return
  IO.println "NOCEX"
