import BigtoolsModel.Generated.Funcs
import BigtoolsModel.RT
/-! failing-input search used when the obligation `gen_overlaps_eq_ov` no longer checks: the first argument tuple in
    {0,1,2}^7 on which the regenerated `overlaps` and the model's `ov` differ (lake env lean --run). -/
def main : IO Unit := do
  let r := [0, 1, 2]
  for q in r do for qs in r do for qe in r do for b1 in r do for b1s in r do for b2 in r do for b2e in r do
    -- only well-formed index entries and queries: start ≤ end
    if qs ≤ qe && (b1 < b2 || (b1 == b2 && b1s ≤ b2e)) then
      let a := Gen.overlaps q qs qe b1 b1s b2 b2e
      let b := RT.ov ⟨q, qs⟩ ⟨q, qe⟩ ⟨b1, b1s⟩ ⟨b2, b2e⟩
      if a != b then
        IO.println s!"CEX query chrom={q} [{qs},{qe}] entry ({b1},{b1s})..({b2},{b2e}): source overlaps = {a}, model ov = {b}"
        return
  IO.println "NOCEX"
