import BigtoolsModel.Generated.Atoms
/-! failing-input search used when an obligation of `AtomsGen.lean` no longer checks: the first small argument tuple on
    which an expression regenerated from the Rust source and the model's expression differ (lake env lean --run). -/

/-- as `StepSections.fixedStart` (not imported: `AtomsGen` does not build when an obligation fails) -/
def fixedStart (start step span : Nat) : Nat → Nat
  | 0 => Gen.fixed_first start
  | i + 1 => fixedStart start step span i + Gen.fixed_advance step span

-- small arguments first; then arguments around 2^24 and 2^25 (where `f32` stops being exact for integers) and `u32::MAX`
def rng : List Nat := [0, 1, 2, 3, 4, 16777216, 16777217, 16777219, 33554434, 4294967295]

def chk2 (name : String) (f : Nat → Nat → String) (g : Nat → Nat → String) (args : String) : IO Bool := do
  for a in rng do for b in rng do
    if f a b != g a b then
      IO.println s!"CEX {name} ({args}) = ({a}, {b}): source {f a b}, model {g a b}"
      return true
  return false

def main : IO Unit := do
  let s (b : Bool) : String := toString b
  let n (x : Nat) : String := toString x
  let tests : List (IO Bool) := [
    chk2 "bigWig tiler: loop exit" (fun a e => s (Gen.wz_done a e)) (fun a e => s (decide (a ≥ e))) "add_start, value end",
    chk2 "bigWig tiler: end of the record's window" (fun a z => n (Gen.wz_next_end a z)) (fun a z => n (a + z)) "record start, resolution",
    chk2 "bigWig tiler: end of the bases to add" (fun a e => n (Gen.wz_add_end a e)) (fun a e => n (min a e)) "window end, value end",
    chk2 "bigWig tiler: update test" (fun ae a => s (Gen.wz_update ae a)) (fun ae a => s (decide (ae > a))) "add_end, add_start",
    chk2 "bigWig tiler: added bases" (fun ae a => if ae > a then n (Gen.wz_added ae a) else "-") (fun ae a => if ae > a then n (ae - a) else "-") "add_end, add_start",
    chk2 "bigWig tiler: record complete test" (fun ae ne => s (Gen.wz_close ae ne)) (fun ae ne => s (decide (ae = ne))) "add_end, window end",
    chk2 "bigWig tiler: next add_start" (fun ae st => n (Gen.wz_next_start ae st)) (fun ae st => n (max ae st)) "add_end, value start",
    chk2 "bigBed tiler: loop exit" (fun a e => s (Gen.bz_done a e)) (fun a e => s (decide (a ≥ e))) "add_start, piece end",
    chk2 "bigBed tiler: end of the record's window" (fun a z => n (Gen.bz_next_end a z)) (fun a z => n (a + z)) "record start, resolution",
    chk2 "bigBed tiler: end of the bases to add" (fun a e => n (Gen.bz_add_end a e)) (fun a e => n (min a e)) "window end, piece end",
    chk2 "bigBed tiler: update test" (fun ae a => s (Gen.bz_update ae a)) (fun ae a => s (decide (ae > a))) "add_end, add_start",
    chk2 "bigBed tiler: added bases" (fun ae a => if ae > a then n (Gen.bz_added ae a) else "-") (fun ae a => if ae > a then n (ae - a) else "-") "add_end, add_start",
    chk2 "bigBed tiler: record complete test" (fun ae ne => s (Gen.bz_close ae ne)) (fun ae ne => s (decide (ae = ne))) "add_end, window end",
    chk2 "bigBed tiler: next add_start" (fun ae st => n (Gen.bz_next_start ae st)) (fun ae st => n (max ae st)) "add_end, piece start",
    chk2 "zoom section full test (bigBed)" (fun k i => s (Gen.bz_full k i)) (fun k i => s (decide (k = i))) "records, items_per_slot",
    chk2 "summary sweep: split test" (fun a b => s (Gen.bs_split a b)) (fun a b => s (decide (a < b))) "item end, segment end",
    chk2 "zoom sweep: split test" (fun a b => s (Gen.bzs_split a b)) (fun a b => s (decide (a < b))) "item end, segment end",
    chk2 "summary sweep: tail test" (fun a b => s (Gen.bs_tail a b)) (fun a b => s (decide (a < b))) "last segment end, item end",
    chk2 "zoom sweep: tail test" (fun a b => s (Gen.bzs_tail a b)) (fun a b => s (decide (a < b))) "last segment end, item end",
    chk2 "summary sweep: flush loop test" (fun a b => s (Gen.bs_more a b)) (fun a b => s (decide (a < b))) "first segment start, next start",
    chk2 "zoom sweep: flush loop test" (fun a b => s (Gen.bzs_more a b)) (fun a b => s (decide (a < b))) "first segment start, next start",
    chk2 "summary sweep: whole-segment test" (fun a b => s (Gen.bs_whole a b)) (fun a b => s (decide (a ≤ b))) "segment end, next start",
    chk2 "zoom sweep: whole-segment test" (fun a b => s (Gen.bzs_whole a b)) (fun a b => s (decide (a ≤ b))) "segment end, next start",
    chk2 "summary sweep: length of a partly flushed piece" (fun a b => n (Gen.bs_part_len a b)) (fun a b => n (a - b)) "next start, segment start",
    chk2 "summary sweep: zero-length piece test" (fun a _ => s (Gen.bs_skip a)) (fun a _ => s (decide (a = 0))) "length, -",
    chk2 "pybigtools array routines: an integer after its conversion to float" (fun x _ => toString (Gen.pyb_conv_to_array x ++ Gen.pyb_conv_to_array_bins x ++ Gen.pyb_conv_to_entry_array x ++ Gen.pyb_conv_to_entry_array_bins x).eraseDups) (fun x _ => toString [x]) "integer, -",
    chk2 "bare write calls on a destination (the count is ignored; a destination taking 4 bytes per call loses the rest of a longer buffer)" (fun _ _ => toString (Gen.wr_bare_write_bbiwrite ++ Gen.wr_bare_write_bigwigwrite ++ Gen.wr_bare_write_bigbedwrite ++ Gen.wr_bare_write_tempfilebuffer)) (fun _ _ => toString ([] : List String)) "-, -",
    chk2 "block fetch: bytes read at the block's offset" (fun bs u => n (Gen.rb_raw_len u bs bs)) (fun bs _ => n bs) "block size, uncompress_buf_size",
    chk2 "block fetch: inflate buffer (compressed block of 20 bytes)" (fun u _ => n (Gen.rb_inflate_buf (5000 + u) 20 20)) (fun u _ => n (5000 + u)) "uncompress_buf_size − 5000, -",
    chk2 "block fetch: inflate buffer" (fun u bs => n (Gen.rb_inflate_buf u bs bs)) (fun u _ => n u) "uncompress_buf_size, block size",
    chk2 "block fetch: compressed file test" (fun u bs => s (Gen.rb_compressed u bs bs)) (fun u _ => s (decide (u > 0))) "uncompress_buf_size, block size",
    chk2 "zoom record (bigWig): bases, items, sum, sum of squares added by a piece" (fun k v => toString [Gen.wzs_bases_add k v 0 0 0, Gen.wzs_items_add k v 0 0 0, Gen.wzs_sum_add k v 0 0 0, Gen.wzs_sumsq_add k v 0 0 0]) (fun k v => toString ([k, 1, k * v, k * v * v] : List Int)) "added bases, value",
    chk2 "zoom record (bigBed): bases, items, sum, sum of squares added by a piece" (fun k v => toString [Gen.bzs2_bases_add k v 0 0 0, Gen.bzs2_items_add k v 0 0 0, Gen.bzs2_sum_add k v 0 0 0, Gen.bzs2_sumsq_add k v 0 0 0]) (fun k v => toString ([k, 1, k * v, k * v * v] : List Int)) "added bases, value",
    chk2 "zoom record: running minimum / maximum" (fun a v => toString [Gen.wzs_min 1 v a a 0, Gen.wzs_max 1 v a a 0, Gen.bzs2_min 1 v a a 0, Gen.bzs2_max 1 v a a 0]) (fun a v => toString ([min a v, max a v, min a v, max a v] : List Int)) "so far, value",
    chk2 "zoom record: fresh record (start, end, min, max, bases)" (fun st v => toString [Gen.wzs_new_start 0 v 0 0 st, Gen.wzs_new_end 0 v 0 0 st, Gen.wzs_new_min 0 v 0 0 st, Gen.wzs_new_max 0 v 0 0 st, Gen.wzs_new_bases 0 v 0 0 st, Gen.bzs2_new_start 0 v 0 0 st, Gen.bzs2_new_end 0 v 0 0 st, Gen.bzs2_new_min 0 v 0 0 st, Gen.bzs2_new_max 0 v 0 0 st, Gen.bzs2_new_bases 0 v 0 0 st]) (fun st v => toString ([st, st, v, v, 0, st, st, v, v, 0] : List Int)) "add_start, value",
    chk2 "staging buffer: reported length (in memory; nothing written)" (fun k _ => toString [Gen.tb_len_inmem (4294967295 + k), Gen.tb_len_inmem k, Gen.tb_len_notstarted]) (fun k _ => toString [4294967295 + k, k, 0]) "staged bytes − (2^32 − 1), -",
    chk2 "coverage sweeps: bound of the final drain (summary, zoom)" (fun l _ => toString [Gen.bs_final_bound l, Gen.bzs_final_bound l]) (fun _ _ => toString [4294967295, 4294967295]) "chromosome length, -",
    chk2 "index / bedGraph item decoders: bytes each field is assembled from (leaf, non-leaf, bedGraph item)" (fun _ _ => toString (Gen.bf_leaf, Gen.bf_nonleaf, Gen.bf_bedgraph_item)) (fun _ _ =>
      let lay (fs : List (String × Nat)) : List (String × String × List Nat) :=
        let rec go : Nat → List (String × Nat) → List (String × List Nat)
          | _, [] => []
          | a, (nm, w) :: r => (nm, (List.range w).map (· + a)) :: go (a + w) r
        (go 0 fs).map (fun (nm, ix) => (nm, "be", ix)) ++ (go 0 fs).map (fun (nm, ix) => (nm, "le", ix))
      toString (lay [("start_chrom_ix", 4), ("start_base", 4), ("end_chrom_ix", 4), ("end_base", 4), ("data_offset", 8), ("data_size", 8)],
                lay [("start_chrom_ix", 4), ("start_base", 4), ("end_chrom_ix", 4), ("end_base", 4), ("data_offset", 8)],
                lay [("chrom_start", 4), ("chrom_end", 4), ("value", 4)])) "-, -",
    chk2 "automatic zoom levels: number of candidate resolutions (single pass, two pass)" (fun mz _ => toString [Gen.zl_count_single (10 + mz) 10, Gen.zl_count_two (10 + mz) 10, Gen.zl_count_single mz 10, Gen.zl_count_two mz 10]) (fun mz _ => toString [10, 10, min mz 10, min mz 10]) "max_zooms − 10, -",
    chk2 "index search entry: chromosome id searched with, early returns, adaptors on the walk" (fun cid ix => toString (Gen.sc_chrom_id (cid + 7) ix, Gen.sc_early_returns, Gen.sc_walk_adaptors)) (fun cid _ => toString (cid + 7, ([] : List String), ([] : List String))) "stored id − 7, position in name order",
    chk2 "FileView read length with 4 GiB left in the view" (fun k b => n (Gen.fv_read_len (b + 1) (4294967296 + k) k)) (fun _ b => n (b + 1)) "position, buffer length − 1",
    chk2 "bigWig value length" (fun e st => n (Gen.wig_len e st)) (fun e st => n (e - st)) "end, start",
    chk2 "section cut (bigWig), not the last item" (fun k i => s (Gen.wig_cut false k i)) (fun k i => s (decide (k ≥ min i 65535))) "items, items_per_slot",
    chk2 "section cut (bigBed), not the last item" (fun k i => s (Gen.bed_cut false k i)) (fun k i => s (decide (k ≥ min i 65535))) "items, items_per_slot",
    chk2 "section cut (bigWig), at 65535 items" (fun k i => s (Gen.wig_cut false (65535 + k) (70000 + i))) (fun _ _ => "true") "items − 65535, items_per_slot − 70000",
    chk2 "section cut (bigBed), at 65535 items" (fun k i => s (Gen.bed_cut false (65535 + k) (70000 + i))) (fun _ _ => "true") "items − 65535, items_per_slot − 70000",
    chk2 "section cut, last item" (fun k i => s (Gen.wig_cut true k i && Gen.bed_cut true k i)) (fun _ _ => "true") "items, items_per_slot",
    chk2 "variable-step item end" (fun a b => n (Gen.var_end a b 7)) (fun a b => n (a + b)) "start, span (step 7)",
    chk2 "fixed-step item end" (fun a b => n (Gen.fixed_end a b 7)) (fun a b => n (a + b)) "start, span (step 7)",
    chk2 "fixed-step start of item 2" (fun a b => n (fixedStart a b 9 2)) (fun a b => n (a + 2 * b)) "section start, step (span 9)"]
  let z (x : Int) : String := toString x
  let tests := tests ++ [
    chk2 "FileView read length (window end 4)" (fun nb cur => n (Gen.fv_read_len nb 4 cur)) (fun nb cur => n (min nb (4 - cur))) "buffer length, position",
    chk2 "FileView seek(Start) target (window [2, 5))" (fun k _ => n (Gen.fv_start_target 2 5 k)) (fun k _ => n (min 5 (2 + k))) "offset, -",
    chk2 "FileView reported position" (fun p lo => n (Gen.fv_rel p lo)) (fun p lo => n (p - lo)) "absolute position, window start",
    chk2 "FileView seek(End) target (window [lo, 6), offset 2 − d)" (fun lo d => z (Gen.fv_end_clamp (Gen.fv_end_pos 6 (Gen.fv_end_offset (2 - (d : Int) * 3))) lo 6))
      (fun lo d => z (max ((6 : Int) + min (2 - (d : Int) * 3) 0) (lo : Int))) "window start, d",
    chk2 "FileView seek(Current) target (window [2, 6), position 3, offset 2·d − 4)" (fun d _ => n ((Gen.fv_cur_clamp (Gen.fv_cur_pos 3 (2 * (d : Int) - 4)) 2 6).toNat))
      (fun d _ => n ((min (max ((3 : Int) + (2 * (d : Int) - 4)) 2) 6).toNat)) "d, -"]
  let tests := tests ++ [
    chk2 "bisection: stop test" (fun p l => s (Gen.ix_stop p l 0 0)) (fun p l => s (decide (l ≤ p + 1))) "previous line start, limit",
    chk2 "bisection: probe" (fun p l => n (Gen.ix_probe p (p + l) 0 0)) (fun p l => n (p + (p + l - p - 1) / 2)) "previous line start, limit − previous line start",
    chk2 "bisection: nothing to the right test" (fun t l => s (Gen.ix_nothing_right 0 l 0 t)) (fun t l => s (decide (t ≥ l))) "line start found, limit",
    chk2 "bisection: limit of the retry to the left" (fun m t => n (Gen.ix_retry_limit 0 9 m t)) (fun m _ => n (m + 1)) "probe, line start found",
    chk2 "bisection: limit of the left half" (fun m t => n (Gen.ix_left_limit 0 9 m t)) (fun _ t => n t) "probe, line start found",
    chk2 "bisection: limit of the right half" (fun m t => n (Gen.ix_right_limit 0 9 m t)) (fun _ _ => n 9) "probe, line start found (limit 9)"]
  let tests := tests ++ [
    chk2 "chunker: chunk size" (fun fs k => n (Gen.ch_size fs (k + 1) 0 0 0)) (fun fs k => n (fs / (k + 1))) "file size, chunks − 1",
    chk2 "chunker: first cut target" (fun cs _ => n (Gen.ch_first_end 9 2 cs 0 0)) (fun cs _ => n cs) "chunk size, -",
    chk2 "chunker: next chunk start" (fun a b => n (Gen.ch_next_start 9 2 3 a b)) (fun _ b => n b) "chunk start, line end",
    chk2 "chunker: next cut target (chunk size 1)" (fun a b => n (Gen.ch_next_end_raw 9 2 1 a b)) (fun a b => n (max b (a + 1 + 1))) "chunk start, line end",
    chk2 "chunker: clamp to the file size" (fun b fs => n (Gen.ch_clamp_end fs 2 1 0 b)) (fun b fs => n (min b fs)) "cut target, file size",
    chk2 "chunker: exit test" (fun a fs => s (Gen.ch_done fs 2 1 a 0)) (fun a fs => s (decide (a ≥ fs))) "next chunk start, file size"]
  let zi (k : Nat) : Int := (k : Int) - 2
  let fc (c : Gen.FConst) : String := match c with
    | .posMax => "f64::MAX" | .negMax => "f64::MIN" | .minPositive => "f64::MIN_POSITIVE" | .nan => "NaN" | .posInf => "INFINITY"
    | .negInf => "NEG_INFINITY" | .epsilon => "EPSILON"
  let tests := tests ++ [
    chk2 "bigWig summary: sum added by a value" (fun l v => z (Gen.ws_sum_add l (zi v) 0 0)) (fun l v => z ((l : Int) * zi v)) "bases, value + 2",
    chk2 "bigWig summary: sum of squares added by a value" (fun l v => z (Gen.ws_sumsq_add l (zi v) 0 0)) (fun l v => z ((l : Int) * zi v * zi v)) "bases, value + 2",
    chk2 "bigWig summary: bases added by a value" (fun l v => z (Gen.ws_bases_add l (zi v) 0 0)) (fun l _ => z (l : Int)) "bases, value + 2",
    chk2 "bigWig summary: running minimum" (fun m v => z (Gen.ws_min 1 (zi v) (zi m) 0)) (fun m v => z (min (zi m) (zi v))) "minimum + 2, value + 2",
    chk2 "bigWig summary: running maximum" (fun m v => z (Gen.ws_max 1 (zi v) 0 (zi m))) (fun m v => z (max (zi m) (zi v))) "maximum + 2, value + 2",
    chk2 "bigWig summary (single pass): running minimum starts from" (fun _ _ => fc Gen.ws_min_init_full) (fun _ _ => "f64::MAX") "-, -",
    chk2 "bigWig summary (single pass): running maximum starts from" (fun _ _ => fc Gen.ws_max_init_full) (fun _ _ => "f64::MIN") "-, -",
    chk2 "bigWig summary (two pass): running minimum starts from" (fun _ _ => fc Gen.ws_min_init_nozoom) (fun _ _ => "f64::MAX") "-, -",
    chk2 "bigWig summary (two pass): running maximum starts from" (fun _ _ => fc Gen.ws_max_init_nozoom) (fun _ _ => "f64::MIN") "-, -",
    chk2 "bigBed summary: first piece, sum" (fun l d => z (Gen.bs_first_sum l d 0 0)) (fun l d => z ((l : Int) * d)) "length, depth",
    chk2 "bigBed summary: first piece, sum of squares" (fun l d => z (Gen.bs_first_sumsq l d 0 0)) (fun l d => z ((l : Int) * d * d)) "length, depth",
    chk2 "bigBed summary: first piece, bases / min / max" (fun l d => z (Gen.bs_first_bases l d 0 0) ++ "/" ++ z (Gen.bs_first_min l d 0 0) ++ "/" ++ z (Gen.bs_first_max l d 0 0))
      (fun l d => z (l : Int) ++ "/" ++ z (d : Int) ++ "/" ++ z (d : Int)) "length, depth",
    chk2 "bigBed summary: later piece, sum" (fun l d => z (Gen.bs_sum_add l d 0 0)) (fun l d => z ((l : Int) * d)) "length, depth",
    chk2 "bigBed summary: later piece, sum of squares" (fun l d => z (Gen.bs_sumsq_add l d 0 0)) (fun l d => z ((l : Int) * d * d)) "length, depth",
    chk2 "bigBed summary: later piece, bases" (fun l d => z (Gen.bs_bases_add l d 0 0)) (fun l _ => z (l : Int)) "length, depth",
    chk2 "bigBed summary: running min / max" (fun m d => z (Gen.bs_min 1 d m 0) ++ "/" ++ z (Gen.bs_max 1 d 0 m)) (fun m d => z (min (m : Int) d) ++ "/" ++ z (max (m : Int) d)) "current, depth",
    chk2 "region statistics: bases and sum added" (fun n v => z (Gen.st_bases_add n (zi v) 0 0) ++ "/" ++ z (Gen.st_sum_add n (zi v) 0 0)) (fun n v => z (n : Int) ++ "/" ++ z ((n : Int) * zi v)) "bases, value + 2",
    chk2 "region statistics: running min / max" (fun m v => z (Gen.st_min 1 (zi v) (zi m) 0) ++ "/" ++ z (Gen.st_max 1 (zi v) 0 (zi m))) (fun m v => z (min (zi m) (zi v)) ++ "/" ++ z (max (zi m) (zi v))) "current + 2, value + 2",
    chk2 "region statistics: running minimum starts from" (fun _ _ => fc Gen.st_min_init) (fun _ _ => "f64::MAX") "-, -",
    chk2 "region statistics: running maximum starts from" (fun _ _ => fc Gen.st_max_init) (fun _ _ => "f64::MIN") "-, -"]
  for t in tests do
    if (← t) then return
  IO.println "NOCEX"
