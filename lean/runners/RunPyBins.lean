import BigtoolsModel.PyBins
open PYN

/-- all sorted lists of disjoint non-empty intervals inside [a, b), values from `vs` -/
partial def wigLists (a b : Nat) (vs : List Int) : List (List (Nat × Nat × Int)) :=
  [[]] ++ (List.range (b - a)).flatMap fun i =>
    (List.range (b - a - i)).flatMap fun j =>
      let s := a + i
      let e := s + j + 1
      vs.flatMap fun v => (wigLists e b vs).map fun rest => (s, e, v) :: rest

/-- sorted-by-start entry lists with at most `n` entries, coordinates in [0, hi] -/
def bedLists (hi : Nat) : Nat → Nat → List (List (Nat × Nat))
  | 0, _ => [[]]
  | n + 1, from_ => [[]] ++ (List.range (hi + 1 - from_)).flatMap fun i =>
      let s := from_ + i
      (List.range (hi + 1 - s)).flatMap fun j =>
        (bedLists hi n s).map fun rest => (s, s + j) :: rest

def sums := [Summary.mean, Summary.min, Summary.max]

def wigTest (fx : Fix) : Nat × Nat × Nat × Nat :=
  Id.run do
    let mut cases := 0
    let mut bad := 0      -- integral width: differs from the spec
    let mut nan := 0      -- any width: NaN or panic
    let mut first : Nat := 0
    for start in [0, 2] do
      for L in [1, 2, 3, 4, 5, 6] do
        for vals in wigLists start (start + L) [1, -2] do
          for nb in List.range (L + 1) do
            if nb ≥ 1 then
              for sm in sums do
                cases := cases + 1
                let got := toArrayBins fx sm start L nb vals
                if !noNaN got then nan := nan + 1
                if L % nb == 0 && !agrees got sm (valueAt vals) start L nb then
                  bad := bad + 1
    return (cases, bad, nan, first)

def bedTest (fx : Fix) (m : Int) : Nat × Nat × Nat :=
  Id.run do
    let mut cases := 0
    let mut bad := 0
    let mut nan := 0
    for start in [0, 2] do
      for L in [1, 2, 3, 4, 6] do
        for entries0 in bedLists (start + L + 1) 3 0 do
          -- the reader's inclusive filter: end ≥ start ∧ start ≤ end of range
          let entries := entries0.filter fun x => decide (x.2 ≥ start ∧ x.1 ≤ start + L)
          if entries.length == entries0.length then
            for nb in List.range (L + 1) do
              if nb ≥ 1 then
                for sm in sums do
                  cases := cases + 1
                  let got := toEntryArrayBins fx sm m start L nb entries
                  if !noNaN got then nan := nan + 1
                  if L % nb == 0 && !agrees got sm (depthAt entries) start L nb then
                    bad := bad + 1
    return (cases, bad, nan)

#eval wigTest asFound
#eval wigTest repaired
#eval bedTest asFound 7
#eval bedTest repaired 7
#eval toEntryArrayBins asFound .mean 7 0 20 2 [(5, 15), (20, 30)]
#eval toEntryArrayBins repaired .mean 7 0 20 2 [(5, 15), (20, 30)]
#eval toArrayBins asFound .mean 0 5 2 [(2, 3, 1)]
#eval toArrayBins repaired .mean 0 5 2 [(2, 3, 1)]
