import BigtoolsModel.WfIndex
open BBI RT
def main (args : List String) : IO Unit := do
  for path in args do
    let bytes ← IO.FS.readBinFile path
    let s := Src.ofArray bytes
    match readHeader s with
    | .error e => IO.println s!"{path}: header {repr e}"
    | .ok h =>
      let off := h.fullIndexOffset
      let bs := u32 h.endian s (off + 4)
      let bounds : Span := ⟨⟨u32 h.endian s (off + 16), u32 h.endian s (off + 20)⟩, ⟨u32 h.endian s (off + 24), u32 h.endian s (off + 28)⟩⟩
      match walk h.endian s bs (s.size + 1) (off + 48) (some bounds) with
      | .error e => IO.println s!"{path}: index REJECTED: {repr e}"
      | .ok t => IO.println s!"{path}: index accepted; {(leaves t).length} leaf entries, blockSize {bs}"
