import BigtoolsModel.FileOfBed
open BBI RT CD
#print axioms BBI.bed_model_roundtrip
/-- the D2 shape (a long first entry, blocks of two): through the model writer with the repaired span rule the
    query that the code as found answers with nothing returns the long entry -/
def csb : List ChromBedIn := [⟨[99, 104, 114, 49], 2000, [⟨0, 1000, [120]⟩, ⟨10, 20, [121]⟩, ⟨30, 40, []⟩, ⟨50, 60, [122, 122]⟩]⟩]
def ob : BOpts := ⟨2, 2, 0, 0, 3, 3, 0, 0, 0, List.replicate 288 0, [1, 2, 3, 4]⟩
#eval getBedIntervalF 100 (bedFileOf ob csb).bytes [99, 104, 114, 49] 500 600
#eval getBedIntervalF 100 (bedFileOf ob csb).bytes [99, 104, 114, 49] 35 55
