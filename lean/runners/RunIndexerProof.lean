import BigtoolsModel.IndexerFix
import BigtoolsModel.IndexerProof
/-! model-vs-model test: the abstract bisection `IXP.found` (subject of `index_spec`) against the transcription
    `IX.indexFixed` of the repaired `do_index` (linked list, byte offsets, `read_line`), all small grouped files -/
#print axioms IXP.found_spec
#print axioms IXP.index_spec

def startsOf : Nat → IX.File → List IXP.Line
  | _, [] => []
  | off, l :: ls => (off, l.1) :: startsOf (off + l.2) ls

def viaAbstract (f : IX.File) : Option (List (Nat × Nat)) :=
  match startsOf 0 f with
  | [] => none
  | x :: xs => (IXP.found (x :: xs) 200 x.1 x.2 none (IX.fsize f)).map fun R => IXP.dedupGo none (x :: R)

def test : Nat × Nat :=
  let fs := (List.range 4).flatMap fun k => IX.allFiles [1, 2, 9, 40] 3 k 1
  fs.foldl (fun (acc : Nat × Nat) f =>
    if f = [] then acc else
    (acc.1 + 1, acc.2 + (if (IX.indexFixed f) == some (viaAbstract f) then 0 else 1))) (0, 0)
#eval test
