import BigtoolsModel.WfFile
open BBI
def main (args : List String) : IO Unit := do
  for path in args do
    let bytes ← IO.FS.readBinFile path
    match checkBigBedData (Src.ofArray bytes) with
    | .error e => IO.println s!"{path}: NOT WELL-FORMED: {e}"
    | .ok r => IO.println s!"{path}: ok; blocks={r.1} records={r.2}"
