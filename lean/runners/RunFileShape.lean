import BigtoolsModel.FileRT
import BigtoolsModel.BBIWrite
open BBI RT
#print axioms BBI.wig_file_roundtrip
#print axioms BBI.readHeader_wig
#print axioms BBI.readChroms_written
#print axioms BBI.searchCir_mono

/-! shape test: the file shape of the theorem against the byte-level writer model (itself byte-equal to real output) -/
def vals1 : List BW.V := [⟨0, 10, 1⟩, ⟨10, 25, 2⟩, ⟨30, 40, 3⟩, ⟨40, 55, 4⟩, ⟨60, 70, 5⟩]
def vals2 : List BW.V := [⟨5, 15, 7⟩, ⟨20, 30, 8⟩, ⟨100, 200, 9⟩]
def input : List (List Nat × Nat × List BW.V) := [([99, 104, 114, 49], 1000, vals1), ([99, 104, 114, 50], 500, vals2)]
def opts : BW.Opts := ⟨2, 2, [10]⟩
def real : List Nat := BW.writeBigWig opts input

def toValue (x : BW.V) : Value := ⟨x.s, x.e, BW.floatBits 8 23 x.v⟩
def sections : List (Nat × Nat × Nat × List Value) :=
  input.zipIdx.flatMap fun (c, id) =>
    (RT.chunks 2 c.2.2).map fun ch => (id, (ch.head?.map (·.s)).getD 0, (ch.getLast?.map (·.e)).getD 0, ch.map toValue)

def mkFile : Option WigFile :=
  let dataLen := (dataBytes sections).length
  let chroms : List (List Nat × Nat × Nat) := input.zipIdx.map fun (c, id) => (c.1, id, c.2.1)
  let ct := chromTreeBytes 4 256 chroms
  let io := 352 + dataLen + ct.length
  let ds := mkDSecs 352 sections
  match levelsOf true 2 (ds.map DSec.sec) with
  | none => none
  | some Ls =>
    let idxLen := 48 + (body 2 (io + 48) Ls).length
    some { zoomCount := 1, dataOff := 344, summaryOff := 304, bufSize := 0, mid := (real.drop 64).take 288,
           sections := sections, keySize := 4, chromBlockSize := 256, chroms := chroms, blockSize := 2, itemsPerSlot := 2,
           rootSpan := ⟨⟨0, 0⟩, ⟨1, 200⟩⟩, levels := Ls, tail := real.drop (io + idxLen) }

#eval (mkFile.map fun f => (f.bytes.length, real.length, f.bytes == real,
        (List.range real.length).filter fun i => f.bytes.getD i 0 != real.getD i 0))
#eval (mkFile.map fun f => (getIntervalF 100 f.bytes [99, 104, 114, 49] 8 45))
