import BigtoolsModel.FileOf
import BigtoolsModel.BBIWrite
open BBI RT
#print axioms BBI.wig_model_roundtrip
#print axioms BBI.fileOf_valid

/-! shape test: `fileOf` (subject of `wig_model_roundtrip`) against the byte-level writer model `BW.writeBigWig`
    (itself byte-equal to the real writer's output) -/
def vals1 : List BW.V := [⟨0, 10, 1⟩, ⟨10, 25, 2⟩, ⟨30, 40, 3⟩, ⟨40, 55, 4⟩, ⟨60, 70, 5⟩]
def vals2 : List BW.V := [⟨5, 15, 7⟩, ⟨20, 30, 8⟩, ⟨100, 200, 9⟩]
def input : List (List Nat × Nat × List BW.V) := [([99, 104, 114, 49], 1000, vals1), ([99, 104, 114, 50], 500, vals2)]
def real : List Nat := BW.writeBigWig ⟨2, 2, [10]⟩ input
def toValue (x : BW.V) : Value := ⟨x.s, x.e, BW.floatBits 8 23 x.v⟩
def cs : List ChromIn := input.map fun c => ⟨c.1, c.2.1, c.2.2.map toValue⟩

def opts : WOpts :=
  let f0 := fileOf ⟨2, 2, 1, 344, 304, 0, (real.drop 64).take 288, []⟩ cs
  ⟨2, 2, 1, 344, 304, 0, (real.drop 64).take 288, real.drop f0.bytes.length⟩

#eval ((fileOf opts cs).bytes.length, real.length, (fileOf opts cs).bytes == real)
#eval getIntervalF 100 (fileOf opts cs).bytes [99, 104, 114, 50] 10 150
