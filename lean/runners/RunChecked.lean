import BigtoolsModel.CheckedFile
open BBI RT
def main (args : List String) : IO Unit := do
  for path in args do
    let bytes ← IO.FS.readBinFile path
    let l : List Nat := bytes.toList.map (·.toNat)
    let s := srcOf l
    match readHeader s with
    | .error e => IO.println s!"{path}: header {repr e}"
    | .ok h =>
      let off := h.fullIndexOffset
      let bs := u32 h.endian s (off + 4)
      match walk .little s bs (l.length + 1) (off + 48) none with
      | .error e => IO.println s!"{path}: index REJECTED: {repr e}"
      | .ok t =>
        let lv := leaves t
        let ok := lv.filter fun x => (checkBlock l x).isSome
        IO.println s!"{path}: index accepted, {lv.length} leaves, {ok.length} blocks accepted, {(lv.flatMap (itemsOf l)).length} values decoded"
