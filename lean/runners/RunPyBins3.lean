import BigtoolsModel.PyBins
import BigtoolsModel.PyBedBinsProof
/-! model-vs-model test: the proof-friendly `PEB.run` (subject of `bed_bins_spec`) against the faithful deque
    model `PYN.toEntryArrayBins` (repaired), all small inputs with integral bin width -/
#print axioms PEB.bed_bins_spec

def bedLists (hi : Nat) : Nat → Nat → List (List (Nat × Nat))
  | 0, _ => [[]]
  | n + 1, from_ => [[]] ++ (List.range (hi + 1 - from_)).flatMap fun i =>
      let s := from_ + i
      (List.range (hi + 1 - s)).flatMap fun j =>
        (bedLists hi n s).map fun rest => (s, s + j) :: rest

def conv : PBP.Res → PYN.Res
  | .missing => .missing
  | .val a b => .val a b
def convS : PYN.Summary → PEB.Summary
  | .mean => .mean | .min => .min | .max => .max

def test : Nat × Nat :=
  Id.run do
    let mut cases := 0
    let mut bad := 0
    for L in [1, 2, 3, 4, 6] do
      for ents in bedLists (L + 1) 3 0 do
        for nb in List.range (L + 1) do
          if nb ≥ 1 && L % nb == 0 then
            for sm in [PYN.Summary.mean, .min, .max] do
              cases := cases + 1
              let a := PYN.toEntryArrayBins PYN.repaired sm 7 0 L nb ents
              let b := PEB.run (convS sm) (L / nb) nb (ents.map fun x => ⟨x.1, min x.2 L⟩)
              match b with
              | none => bad := bad + 1
              | some out => if out.map conv != a then bad := bad + 1
    return (cases, bad)
#eval test
