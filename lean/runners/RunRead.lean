import BigtoolsModel.BBIRead
open BBI
def main (args : List String) : IO Unit := do
  let path := args.head!
  let bytes ← IO.FS.readBinFile path
  let s := Src.ofArray bytes
  match readHeader s with
  | .error e => IO.println s!"header error {repr e}"
  | .ok h =>
    IO.println s!"kind={repr h.kind} endian={repr h.endian} version={h.version} zooms={h.zooms.map (·.reduction)} ubuf={h.uncompressBufSize}"
    match readChroms h s with
    | .error e => IO.println s!"chrom error {repr e}"
    | .ok cs =>
      for c in cs do
        let name := String.mk (c.name.map fun b => Char.ofNat b.toNat)
        IO.println s!"chrom {name} id={c.id} len={c.length}"
        match getInterval s h cs c.name 0 c.length with
        | .error e => IO.println s!"  query error {repr e}"
        | .ok vs => for v in vs do IO.println s!"  {v.start} {v.stop} {v.bits}"
        match getInterval s h cs c.name 7 24 with
        | .error e => IO.println s!"  query error {repr e}"
        | .ok vs => IO.println s!"  [7,24): {vs.map fun v => (v.start, v.stop)}"
