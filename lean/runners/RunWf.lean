import BigtoolsModel.WfFile
open BBI
def main (args : List String) : IO Unit := do
  for path in args do
    let bytes ← IO.FS.readBinFile path
    let s := Src.ofArray bytes
    match checkBigWig s with
    | .error e => IO.println s!"{path}: NOT WELL-FORMED: {e}"
    | .ok r =>
      IO.println s!"{path}: ok; chroms={r.chroms.length} sections={r.index.leaves.length} values={r.values.length} blockSize={r.index.blockSize} itemsPerSlot={r.index.itemsPerSlot} bounds={repr r.index.bounds} zooms={r.zoomIndexes.map fun z => (z.1, z.2.leaves.length, z.2.itemsPerSlot)}"
