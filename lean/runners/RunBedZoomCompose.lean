import BigtoolsModel.BedZoomCompose
/-! model-vs-model test: the composed model `BZC.bedZoom` (subject of `bed_zoom_faithful`) against the literal
    transcription `BZ.zoomRecords` of the bigBed `process_val_zoom` (D14 and D15 repaired), all small inputs -/
#print axioms BZC.bed_zoom_faithful
open BZC

def conv (r : Tiler2.Rec) : BZ.Rec := ⟨r.start, r.stop, r.bases, r.sum.toNat, r.mn.toNat, r.mx.toNat⟩

def test (m : Nat) : Nat × Nat × Nat :=
  let cases := (List.range 4).flatMap fun k => BZ.allEntries m (k + 1) 0
  cases.foldl (fun (acc : Nat × Nat × Nat) es =>
    [1, 2, 3, 5].foldl (fun (acc : Nat × Nat × Nat) sz =>
      let a := BZ.zoomRecords ⟨true, true⟩ sz es
      match bedZoom 4294967295 sz es [] ⟨none, []⟩ with
      | none => (acc.1 + 1, acc.2.1, acc.2.2 + 1)
      | some st => (acc.1 + 1, acc.2.1 + (if (Tiler2.recs st).map conv == a then 0 else 1), acc.2.2)) acc) (0, 0, 0)

-- (cases, mismatches, out-of-fuel)
#eval test 5
