import BigtoolsModel.PyBins
import BigtoolsModel.PyBinsProof
/-! model-vs-model test: the proof-friendly contiguous model `PBP.run` (subject of `bins_spec`) against the
    faithful deque model `PYN.toArrayBins` (repaired), all small inputs with integral bin width -/
#print axioms PBP.bins_spec
#print axioms PBP.accSpec_mean

partial def wigLists (a b : Nat) (vs : List Int) : List (List (Nat × Nat × Int)) :=
  [[]] ++ (List.range (b - a)).flatMap fun i =>
    (List.range (b - a - i)).flatMap fun j =>
      let s := a + i
      let e := s + j + 1
      vs.flatMap fun v => (wigLists e b vs).map fun rest => (s, e, v) :: rest

def conv : PBP.Res → PYN.Res
  | .missing => .missing
  | .val a b => .val a b
def convS : PYN.Summary → PBP.Summary
  | .mean => .mean | .min => .min | .max => .max

def test : Nat × Nat :=
  Id.run do
    let mut cases := 0
    let mut bad := 0
    for L in [1, 2, 3, 4, 6, 8] do
      for vals in wigLists 0 L [1, -2] do
        for nb in List.range (L + 1) do
          if nb ≥ 1 && L % nb == 0 then
            for sm in [PYN.Summary.mean, .min, .max] do
              cases := cases + 1
              let a := PYN.toArrayBins PYN.repaired sm 0 L nb vals
              let b := PBP.run (convS sm) (L / nb) nb (vals.map fun x => ⟨x.1, x.2.1, x.2.2⟩)
              match b with
              | none => bad := bad + 1
              | some out => if out.map conv != a then bad := bad + 1
    return (cases, bad)
#eval test
