import BigtoolsModel.BBIWrite
open BW
def name (s : String) : List Nat := s.toList.map Char.toNat
def main (args : List String) : IO Unit := do
  let real ← IO.FS.readBinFile args.head!
  let input : List (List Nat × Nat × List V) := [
    (name "chr1", 1000, [⟨0,5,1⟩, ⟨5,9,2⟩, ⟨12,13,-3⟩, ⟨20,30,4⟩, ⟨30,31,5⟩, ⟨100,131,7⟩, ⟨140,141,6⟩]),
    (name "chrB2", 500, [⟨3,4,6⟩, ⟨10,50,7⟩, ⟨60,61,8⟩])]
  let model := writeBigWig ⟨2, 2, [10, 40]⟩ input
  let realL := real.toList.map (·.toNat)
  IO.println s!"real {realL.length} bytes, model {model.length} bytes"
  let mism := (List.range (min realL.length model.length)).filter fun i => realL[i]! ≠ model[i]!
  IO.println s!"mismatching offsets: {mism.length}; first: {mism.take 12}"
  match mism.head? with
  | some i => IO.println s!"  at {i}: real {(realL.drop i).take 16} model {(model.drop i).take 16}"
  | none => pure ()
