/-! Probe: bigWig zoom tiler (`process_val_zoom`) for one resolution, one chromosome, with the min/max fields
    and two independent repair switches (D1: `add_start`, D14: `>=` vs `>`). -/
namespace Tiler2

structure Val where
  s : Nat
  e : Nat
  v : Int
deriving Repr, DecidableEq

structure Rec where
  start : Nat
  stop : Nat
  bases : Nat
  sum : Int
  mn : Int
  mx : Int
deriving Repr, DecidableEq

/-- which repairs are applied: `start` = `add_start = max add_end start` (D1), `cmp` = `add_end > add_start` (D14) -/
structure Fix where
  start : Bool
  cmp : Bool
deriving Repr, DecidableEq

def asFound : Fix := ⟨false, false⟩
def repaired : Fix := ⟨true, true⟩

structure TSt where
  live : Option Rec
  out : List Rec
deriving Repr

def newRec (a : Nat) (v : Int) : Rec := { start := a, stop := a, bases := 0, sum := 0, mn := v, mx := v }

/-- one pass through the body of the `loop` in `process_val_zoom` when `add_start < end` -/
def iter (fx : Fix) (size : Nat) (x : Val) (a : Nat) (st : TSt) : Nat × TSt :=
  let r := st.live.getD (newRec a x.v)
  let nextEnd := r.start + size
  let addEnd := min nextEnd x.e
  let upd : Bool := if fx.cmp then decide (addEnd > a) else decide (addEnd ≥ a)
  let r' : Rec := if upd then
      { r with stop := addEnd, bases := r.bases + (addEnd - a), sum := r.sum + ((addEnd - a : Nat) : Int) * x.v,
               mn := min r.mn x.v, mx := max r.mx x.v }
    else r
  let st' : TSt := if addEnd = nextEnd then { live := none, out := st.out ++ [r'] }
                   else { live := some r', out := st.out }
  let a' := if fx.start then max addEnd x.s else addEnd
  (a', st')

def finish (isLast : Bool) (st : TSt) : TSt :=
  if isLast then
    match st.live with
    | some r => { live := none, out := st.out ++ [r] }
    | none => st
  else st

def inner (fx : Fix) (size : Nat) (x : Val) (isLast : Bool) : Nat → Nat → TSt → Option TSt
  | 0, _, _ => none
  | fuel + 1, a, st =>
    if a ≥ x.e then some (finish isLast st)
    else
      let (a', st') := iter fx size x a st
      inner fx size x isLast fuel a' st'

def processAll (fx : Fix) (size : Nat) : List Val → TSt → Option TSt
  | [], st => some st
  | x :: xs, st =>
    match inner fx size x xs.isEmpty (x.e + 3) x.s st with
    | some st' => processAll fx size xs st'
    | none => none

def run (fx : Fix) (size : Nat) (vals : List Val) : Option (List Rec) :=
  (processAll fx size vals { live := none, out := [] }).map (·.out)

-- the counter-example found by reading (D1): gap longer than the resolution
#eval run asFound 10 [⟨0,5,1⟩, ⟨100,105,2⟩]
#eval run repaired 10 [⟨0,5,1⟩, ⟨100,105,2⟩]
#eval run ⟨true, false⟩ 10 [⟨0,5,1⟩, ⟨10,15,7⟩]
#eval run repaired 10 [⟨0,5,1⟩, ⟨10,15,7⟩]

/-- covered bases of `P` inside `[a,b)` -/
def cov (P : List Val) (a b : Nat) : Nat :=
  (P.map fun p => min p.e b - max p.s a).sum

def wsum (P : List Val) (a b : Nat) : Int :=
  (P.map fun p => ((min p.e b - max p.s a : Nat) : Int) * p.v).sum

def total (P : List Val) : Nat := (P.map fun p => p.e - p.s).sum

theorem bug_witness_D1 :
    run asFound 10 [⟨0,5,1⟩, ⟨100,105,2⟩] ≠ run repaired 10 [⟨0,5,1⟩, ⟨100,105,2⟩] := by decide

/-- D14: with only the `add_start` repair, the record `[0,10)` of `[0,5)=1, [10,15)=7` reports max 7 -/
theorem bug_witness_D14 :
    (run ⟨true, false⟩ 10 [⟨0,5,1⟩, ⟨10,15,7⟩]).map (fun rs => rs.map (·.mx)) = some [7, 7] ∧
    (run repaired 10 [⟨0,5,1⟩, ⟨10,15,7⟩]).map (fun rs => rs.map (·.mx)) = some [1, 7] := by decide

def recs (st : TSt) : List Rec := st.out ++ st.live.toList

/-- values seen so far, the current one truncated at `a` -/
def cur (Pprev : List Val) (x : Val) (a : Nat) : List Val := Pprev ++ [⟨x.s, a, x.v⟩]

theorem cov_append (P Q : List Val) (a b : Nat) : cov (P ++ Q) a b = cov P a b + cov Q a b := by
  simp [cov, List.map_append, List.sum_append]
theorem wsum_append (P Q : List Val) (a b : Nat) : wsum (P ++ Q) a b = wsum P a b + wsum Q a b := by
  simp [wsum, List.map_append, List.sum_append]
theorem total_append (P Q : List Val) : total (P ++ Q) = total P + total Q := by
  simp [total, List.map_append, List.sum_append]
@[simp] theorem cov_single (p : Val) (a b : Nat) : cov [p] a b = min p.e b - max p.s a := by simp [cov]
@[simp] theorem wsum_single (p : Val) (a b : Nat) :
    wsum [p] a b = ((min p.e b - max p.s a : Nat) : Int) * p.v := by simp [wsum]
@[simp] theorem total_single (p : Val) : total [p] = p.e - p.s := by simp [total]

/-- `p` has at least one base inside `[lo, hi)` -/
def Ov (p : Val) (lo hi : Nat) : Prop := max p.s lo < min p.e hi

/-- min/max of a record are those of the values that really overlap its span -/
structure MM (P : List Val) (r : Rec) : Prop where
  lower : ∀ p ∈ P, Ov p r.start r.stop → r.mn ≤ p.v
  upper : ∀ p ∈ P, Ov p r.start r.stop → p.v ≤ r.mx
  mn_wit : ∃ p ∈ P, Ov p r.start r.stop ∧ p.v = r.mn
  mx_wit : ∃ p ∈ P, Ov p r.start r.stop ∧ p.v = r.mx

structure LI (size : Nat) (Pprev : List Val) (x : Val) (a : Nat) (st : TSt) : Prop where
  a_lo : x.s ≤ a
  a_hi : a ≤ x.e
  out_before : ∀ r0 ∈ st.out, r0.stop ≤ a
  live_before : ∀ r, st.live = some r → r.stop ≤ a ∧ (a ≠ x.s → r.stop = a) ∧ ∀ r0 ∈ st.out, r0.stop ≤ r.start
  shape : ∀ r ∈ recs st, r.start ≤ r.stop ∧ r.stop ≤ r.start + size
  bases_ok : ∀ r ∈ recs st, r.bases = cov (cur Pprev x a) r.start r.stop
  sum_ok : ∀ r ∈ recs st, r.sum = wsum (cur Pprev x a) r.start r.stop
  mm_ok : ∀ r ∈ recs st, MM (cur Pprev x a) r
  sorted : st.out.Pairwise (fun r1 r2 => r1.stop ≤ r2.start)
  live_covers : ∀ r, st.live = some r → ∀ p ∈ Pprev, p.e ≤ r.stop ∨ p.e ≤ p.s
  total_ok : ((recs st).map (·.bases)).sum = total (cur Pprev x a)

theorem cov_cur_mono (Pprev : List Val) (x : Val) (a a' lo hi : Nat) (h : hi ≤ a) (h' : a ≤ a') :
    cov (cur Pprev x a') lo hi = cov (cur Pprev x a) lo hi := by
  simp only [cur, cov_append, cov_single]; omega
theorem wsum_cur_mono (Pprev : List Val) (x : Val) (a a' lo hi : Nat) (h : hi ≤ a) (h' : a ≤ a') :
    wsum (cur Pprev x a') lo hi = wsum (cur Pprev x a) lo hi := by
  simp only [cur, wsum_append, wsum_single]
  have : min a' hi - max x.s lo = min a hi - max x.s lo := by omega
  rw [this]

/-- a record ending at or before `a` sees the same overlapping values however far the current value is
    truncated beyond `a` -/
theorem mm_cur_mono (Pprev : List Val) (x : Val) (a a' : Nat) (r : Rec) (h : r.stop ≤ a) (h' : a ≤ a')
    (hm : MM (cur Pprev x a) r) : MM (cur Pprev x a') r := by
  have key : ∀ p, p ∈ cur Pprev x a' → Ov p r.start r.stop → ∃ q ∈ cur Pprev x a, Ov q r.start r.stop ∧ q.v = p.v := by
    intro p hp hov
    simp only [cur, List.mem_append, List.mem_singleton] at hp
    rcases hp with hp | rfl
    · exact ⟨p, by simp [cur, hp], hov, rfl⟩
    · refine ⟨⟨x.s, a, x.v⟩, by simp [cur], ?_, rfl⟩
      unfold Ov at *; simp only at *; omega
  have key' : ∀ q, q ∈ cur Pprev x a → Ov q r.start r.stop → ∃ p ∈ cur Pprev x a', Ov p r.start r.stop ∧ p.v = q.v := by
    intro q hq hov
    simp only [cur, List.mem_append, List.mem_singleton] at hq
    rcases hq with hq | rfl
    · exact ⟨q, by simp [cur, hq], hov, rfl⟩
    · refine ⟨⟨x.s, a', x.v⟩, by simp [cur], ?_, rfl⟩
      unfold Ov at *; simp only at *; omega
  refine ⟨?_, ?_, ?_, ?_⟩
  · intro p hp hov; obtain ⟨q, hq, hqo, hqv⟩ := key p hp hov; rw [← hqv]; exact hm.lower q hq hqo
  · intro p hp hov; obtain ⟨q, hq, hqo, hqv⟩ := key p hp hov; rw [← hqv]; exact hm.upper q hq hqo
  · obtain ⟨q, hq, hqo, hqv⟩ := hm.mn_wit
    obtain ⟨p, hp, hpo, hpv⟩ := key' q hq hqo
    exact ⟨p, hp, hpo, by rw [hpv, hqv]⟩
  · obtain ⟨q, hq, hqo, hqv⟩ := hm.mx_wit
    obtain ⟨p, hp, hpo, hpv⟩ := key' q hq hqo
    exact ⟨p, hp, hpo, by rw [hpv, hqv]⟩

theorem cov_hi_irrelevant (P : List Val) (lo h1 h2 : Nat) (h : ∀ p ∈ P, p.e ≤ h1 ∨ p.e ≤ p.s) (h12 : h1 ≤ h2) :
    cov P lo h2 = cov P lo h1 := by
  induction P with
  | nil => rfl
  | cons p P ih =>
    have hp := h p (by simp)
    have ih' := ih (fun q hq => h q (by simp [hq]))
    simp only [cov, List.map_cons, List.sum_cons] at *
    omega

theorem wsum_hi_irrelevant (P : List Val) (lo h1 h2 : Nat) (h : ∀ p ∈ P, p.e ≤ h1 ∨ p.e ≤ p.s) (h12 : h1 ≤ h2) :
    wsum P lo h2 = wsum P lo h1 := by
  induction P with
  | nil => rfl
  | cons p P ih =>
    have hp := h p (by simp)
    have ih' := ih (fun q hq => h q (by simp [hq]))
    simp only [wsum, List.map_cons, List.sum_cons] at *
    have : min p.e h2 - max p.s lo = min p.e h1 - max p.s lo := by omega
    rw [this, ih']

theorem cov_empty (P : List Val) (a : Nat) : cov P a a = 0 := by
  induction P with
  | nil => rfl
  | cons p P ih => simp only [cov, List.map_cons, List.sum_cons] at *; omega

theorem wsum_empty (P : List Val) (a : Nat) : wsum P a a = 0 := by
  induction P with
  | nil => rfl
  | cons p P ih =>
    simp only [wsum, List.map_cons, List.sum_cons] at *
    have : min p.e a - max p.s a = 0 := by omega
    rw [this, ih]; simp

/-- the working record at the top of an iteration: the live one, or a fresh one at `a` -/
structure WR (size : Nat) (Pprev : List Val) (x : Val) (a : Nat) (out : List Rec) (r : Rec) : Prop where
  stop_le : r.stop ≤ a
  stop_eq : a ≠ x.s → r.stop = a
  after_out : ∀ r0 ∈ out, r0.stop ≤ r.start
  shape : r.start ≤ r.stop ∧ r.stop ≤ r.start + size
  covers : ∀ p ∈ Pprev, p.e ≤ r.stop ∨ p.e ≤ p.s
  bases_ok : r.bases = cov (cur Pprev x a) r.start r.stop
  sum_ok : r.sum = wsum (cur Pprev x a) r.start r.stop
  /-- either a record that already overlaps something, or a fresh one seeded with the current value -/
  mm : MM (cur Pprev x a) r ∨ (r.stop = r.start ∧ r.start = a ∧ r.mn = x.v ∧ r.mx = x.v)

theorem wr_of_li (size : Nat) (Pprev : List Val) (x : Val) (a : Nat) (st : TSt)
    (hprev : ∀ p ∈ Pprev, p.e ≤ x.s) (h : LI size Pprev x a st) :
    WR size Pprev x a st.out (st.live.getD (newRec a x.v)) := by
  cases hl : st.live with
  | none =>
    simp only [Option.getD_none, newRec]
    refine ⟨by simp, by simp, ?_, by simp, ?_, ?_, ?_, Or.inr ⟨rfl, rfl, rfl, rfl⟩⟩
    · intro r0 h0; exact h.out_before r0 h0
    · intro p hp; have := hprev p hp; have := h.a_lo; left; simp; omega
    · exact (cov_empty _ a).symm
    · exact (wsum_empty _ a).symm
  | some r =>
    simp only [Option.getD_some]
    have hb := h.live_before r hl
    have hr : r ∈ recs st := by simp [recs, hl]
    exact ⟨hb.1, hb.2.1, hb.2.2, h.shape r hr, h.live_covers r hl, h.bases_ok r hr, h.sum_ok r hr,
      Or.inl (h.mm_ok r hr)⟩

theorem sum_recs (st : TSt) (a : Nat) (v : Int) :
    ((recs st).map (·.bases)).sum = (st.out.map (·.bases)).sum + (st.live.getD (newRec a v)).bases := by
  cases hl : st.live <;> simp [recs, hl, newRec]

/-- records already emitted keep satisfying their clauses when `a` advances -/
theorem out_ok_mono (size : Nat) (Pprev : List Val) (x : Val) (a a' : Nat) (st : TSt)
    (h : LI size Pprev x a st) (haa : a ≤ a') (r0 : Rec) (h0 : r0 ∈ st.out) :
    (r0.start ≤ r0.stop ∧ r0.stop ≤ r0.start + size) ∧
    r0.bases = cov (cur Pprev x a') r0.start r0.stop ∧
    r0.sum = wsum (cur Pprev x a') r0.start r0.stop ∧ r0.stop ≤ a' ∧ MM (cur Pprev x a') r0 := by
  have hr : r0 ∈ recs st := by simp [recs, h0]
  have hb := h.out_before r0 h0
  refine ⟨h.shape r0 hr, ?_, ?_, by omega, mm_cur_mono Pprev x a a' r0 hb haa (h.mm_ok r0 hr)⟩
  · rw [cov_cur_mono Pprev x a a' _ _ hb haa]; exact h.bases_ok r0 hr
  · rw [wsum_cur_mono Pprev x a a' _ _ hb haa]; exact h.sum_ok r0 hr

/-- extending the working record to `addEnd > a` -/
theorem ext_ok (size : Nat) (Pprev : List Val) (x : Val) (a : Nat) (out : List Rec) (r : Rec)
    (w : WR size Pprev x a out r) (ha : x.s ≤ a) (hprev : ∀ p ∈ Pprev, p.e ≤ x.s)
    (addEnd : Nat) (h1 : a < addEnd) (h2 : addEnd ≤ r.start + size) :
    let r' : Rec := { r with stop := addEnd, bases := r.bases + (addEnd - a),
                             sum := r.sum + ((addEnd - a : Nat) : Int) * x.v,
                             mn := min r.mn x.v, mx := max r.mx x.v }
    (r'.start ≤ r'.stop ∧ r'.stop ≤ r'.start + size) ∧
    r'.bases = cov (cur Pprev x addEnd) r'.start r'.stop ∧
    r'.sum = wsum (cur Pprev x addEnd) r'.start r'.stop ∧
    MM (cur Pprev x addEnd) r' := by
  intro r'
  have hs := w.shape
  have hle := w.stop_le
  have hse := w.stop_eq
  have key : min addEnd addEnd - max x.s r.start = (min a r.stop - max x.s r.start) + (addEnd - a) := by
    by_cases hax : a = x.s
    · subst hax; omega
    · have := hse hax; omega
  -- the truncated current value now really overlaps the record
  have hovx : Ov ⟨x.s, addEnd, x.v⟩ r.start addEnd := by unfold Ov; simp only; omega
  -- previous values overlap `[r.start, addEnd)` exactly when they overlap `[r.start, r.stop)`
  have hprev_ov : ∀ p ∈ Pprev, Ov p r.start addEnd → Ov p r.start r.stop := by
    intro p hp hov
    have := w.covers p hp
    unfold Ov at *; omega
  refine ⟨⟨by simp [r']; omega, by simp [r']; omega⟩, ?_, ?_, ?_⟩
  · simp only [r', w.bases_ok, cur, cov_append, cov_single]
    rw [cov_hi_irrelevant Pprev r.start r.stop addEnd w.covers (by omega)]
    omega
  · simp only [r', w.sum_ok, cur, wsum_append, wsum_single]
    rw [wsum_hi_irrelevant Pprev r.start r.stop addEnd w.covers (by omega)]
    rw [key]; push_cast; rw [Int.add_mul]; omega
  · -- min / max
    have hmem : (⟨x.s, addEnd, x.v⟩ : Val) ∈ cur Pprev x addEnd := by simp [cur]
    rcases w.mm with hmm | ⟨e1, e2, e3, e4⟩
    · -- the record already overlapped something
      have old_of : ∀ p ∈ Pprev, Ov p r.start addEnd → r.mn ≤ p.v ∧ p.v ≤ r.mx := by
        intro p hp hov
        have hpo := hprev_ov p hp hov
        exact ⟨hmm.lower p (by simp [cur, hp]) hpo, hmm.upper p (by simp [cur, hp]) hpo⟩
      refine ⟨?_, ?_, ?_, ?_⟩
      · intro p hp hov
        simp only [cur, List.mem_append, List.mem_singleton] at hp
        rcases hp with hp | rfl
        · have := (old_of p hp hov).1; simp only [r']; omega
        · simp only [r']; omega
      · intro p hp hov
        simp only [cur, List.mem_append, List.mem_singleton] at hp
        rcases hp with hp | rfl
        · have := (old_of p hp hov).2; simp only [r']; omega
        · simp only [r']; omega
      · -- witness for the minimum
        by_cases hc : x.v ≤ r.mn
        · exact ⟨_, hmem, hovx, by simp only [r']; omega⟩
        · obtain ⟨q, hq, hqo, hqv⟩ := hmm.mn_wit
          simp only [cur, List.mem_append, List.mem_singleton] at hq
          rcases hq with hq | rfl
          · refine ⟨q, by simp [cur, hq], ?_, by simp only [r']; omega⟩
            unfold Ov at *; simp only [r']; omega
          · -- the old witness was the current value itself
            exact ⟨_, hmem, hovx, by simp only [r'] at *; omega⟩
      · by_cases hc : r.mx ≤ x.v
        · exact ⟨_, hmem, hovx, by simp only [r']; omega⟩
        · obtain ⟨q, hq, hqo, hqv⟩ := hmm.mx_wit
          simp only [cur, List.mem_append, List.mem_singleton] at hq
          rcases hq with hq | rfl
          · refine ⟨q, by simp [cur, hq], ?_, by simp only [r']; omega⟩
            unfold Ov at *; simp only [r']; omega
          · exact ⟨_, hmem, hovx, by simp only [r'] at *; omega⟩
    · -- fresh record: seeded with the current value, nothing earlier reaches it
      have none_prev : ∀ p ∈ Pprev, ¬ Ov p r.start addEnd := by
        intro p hp hov
        have := hprev p hp
        unfold Ov at hov; omega
      refine ⟨?_, ?_, ⟨_, hmem, hovx, by simp only [r']; omega⟩, ⟨_, hmem, hovx, by simp only [r']; omega⟩⟩
      · intro p hp hov
        simp only [cur, List.mem_append, List.mem_singleton] at hp
        rcases hp with hp | rfl
        · exact absurd hov (none_prev p hp)
        · simp only [r']; omega
      · intro p hp hov
        simp only [cur, List.mem_append, List.mem_singleton] at hp
        rcases hp with hp | rfl
        · exact absurd hov (none_prev p hp)
        · simp only [r']; omega

theorem total_cur (Pprev : List Val) (x : Val) (a : Nat) : total (cur Pprev x a) = total Pprev + (a - x.s) := by
  simp [cur, total_append]

theorem li_closed (size : Nat) (Pprev : List Val) (x : Val) (a a' : Nat) (st : TSt) (rn : Rec)
    (h : LI size Pprev x a st) (haa : a ≤ a') (hhi : a' ≤ x.e)
    (hshape : rn.start ≤ rn.stop ∧ rn.stop ≤ rn.start + size)
    (hb : rn.bases = cov (cur Pprev x a') rn.start rn.stop)
    (hsm : rn.sum = wsum (cur Pprev x a') rn.start rn.stop)
    (hmm : MM (cur Pprev x a') rn)
    (hstop : rn.stop ≤ a') (hafter : ∀ r0 ∈ st.out, r0.stop ≤ rn.start)
    (htot : (st.out.map (·.bases)).sum + rn.bases = total (cur Pprev x a')) :
    LI size Pprev x a' { live := none, out := st.out ++ [rn] } := by
  have hlo := h.a_lo
  have mem_cases : ∀ r0, r0 ∈ recs { live := none, out := st.out ++ [rn] } → r0 ∈ st.out ∨ r0 = rn := by
    intro r0 h0
    simpa [recs] using h0
  refine ⟨by omega, hhi, ?_, by simp, ?_, ?_, ?_, ?_, ?_, by simp, ?_⟩
  · intro r0 h0
    simp only [List.mem_append, List.mem_singleton] at h0
    rcases h0 with h0 | rfl
    · exact (out_ok_mono size Pprev x a a' st h haa r0 h0).2.2.2.1
    · exact hstop
  · intro r0 h0
    rcases mem_cases r0 h0 with h0 | rfl
    · exact (out_ok_mono size Pprev x a a' st h haa r0 h0).1
    · exact hshape
  · intro r0 h0
    rcases mem_cases r0 h0 with h0 | rfl
    · exact (out_ok_mono size Pprev x a a' st h haa r0 h0).2.1
    · exact hb
  · intro r0 h0
    rcases mem_cases r0 h0 with h0 | rfl
    · exact (out_ok_mono size Pprev x a a' st h haa r0 h0).2.2.1
    · exact hsm
  · intro r0 h0
    rcases mem_cases r0 h0 with h0 | rfl
    · exact (out_ok_mono size Pprev x a a' st h haa r0 h0).2.2.2.2
    · exact hmm
  · rw [List.pairwise_append]
    refine ⟨h.sorted, by simp, ?_⟩
    intro r1 h1 r2 h2
    simp only [List.mem_singleton] at h2; subst h2
    have := hafter r1 h1
    have := hshape.1
    omega
  · simp only [recs, Option.toList_none, List.append_nil, List.map_append, List.sum_append,
      List.map_cons, List.map_nil, List.sum_cons, List.sum_nil]
    omega

theorem li_open (size : Nat) (Pprev : List Val) (x : Val) (a a' : Nat) (st : TSt) (rn : Rec)
    (h : LI size Pprev x a st) (haa : a ≤ a') (hhi : a' ≤ x.e)
    (hshape : rn.start ≤ rn.stop ∧ rn.stop ≤ rn.start + size)
    (hb : rn.bases = cov (cur Pprev x a') rn.start rn.stop)
    (hsm : rn.sum = wsum (cur Pprev x a') rn.start rn.stop)
    (hmm : MM (cur Pprev x a') rn)
    (hstop : rn.stop = a') (hafter : ∀ r0 ∈ st.out, r0.stop ≤ rn.start)
    (hcov : ∀ p ∈ Pprev, p.e ≤ rn.stop ∨ p.e ≤ p.s)
    (htot : (st.out.map (·.bases)).sum + rn.bases = total (cur Pprev x a')) :
    LI size Pprev x a' { live := some rn, out := st.out } := by
  have hlo := h.a_lo
  have mem_cases : ∀ r0, r0 ∈ recs { live := some rn, out := st.out } → r0 ∈ st.out ∨ r0 = rn := by
    intro r0 h0
    simpa [recs] using h0
  refine ⟨by omega, hhi, ?_, ?_, ?_, ?_, ?_, ?_, h.sorted, ?_, ?_⟩
  · intro r0 h0; exact (out_ok_mono size Pprev x a a' st h haa r0 h0).2.2.2.1
  · intro r hr; simp only [Option.some.injEq] at hr; subst hr
    exact ⟨by omega, fun _ => hstop, hafter⟩
  · intro r0 h0
    rcases mem_cases r0 h0 with h0 | rfl
    · exact (out_ok_mono size Pprev x a a' st h haa r0 h0).1
    · exact hshape
  · intro r0 h0
    rcases mem_cases r0 h0 with h0 | rfl
    · exact (out_ok_mono size Pprev x a a' st h haa r0 h0).2.1
    · exact hb
  · intro r0 h0
    rcases mem_cases r0 h0 with h0 | rfl
    · exact (out_ok_mono size Pprev x a a' st h haa r0 h0).2.2.1
    · exact hsm
  · intro r0 h0
    rcases mem_cases r0 h0 with h0 | rfl
    · exact (out_ok_mono size Pprev x a a' st h haa r0 h0).2.2.2.2
    · exact hmm
  · intro r hr; simp only [Option.some.injEq] at hr; subst hr; exact hcov
  · simp only [recs, Option.toList_some, List.map_append, List.sum_append,
      List.map_cons, List.map_nil, List.sum_cons, List.sum_nil]
    omega

theorem iter_preserves (size : Nat) (hsize : 0 < size) (Pprev : List Val) (x : Val) (a : Nat) (st : TSt)
    (hprev : ∀ p ∈ Pprev, p.e ≤ x.s) (h : LI size Pprev x a st) (hlt : a < x.e) :
    LI size Pprev x (iter repaired size x a st).1 (iter repaired size x a st).2 ∧ a ≤ (iter repaired size x a st).1 := by
  have w := wr_of_li size Pprev x a st hprev h
  have hsum := sum_recs st a x.v
  have htot := h.total_ok
  have hlo := h.a_lo
  generalize hr : st.live.getD (newRec a x.v) = r at w hsum
  have hs := w.shape
  have hle := w.stop_le
  simp only [iter, hr, repaired, if_true]
  have hm1 : min (r.start + size) x.e ≤ r.start + size := by omega
  have hm2 : min (r.start + size) x.e ≤ x.e := by omega
  have hm3 : min (r.start + size) x.e = r.start + size ∨ min (r.start + size) x.e = x.e := by omega
  generalize min (r.start + size) x.e = addEnd at hm1 hm2 hm3 ⊢
  by_cases hA : a < addEnd
  · -- the working record is extended to `addEnd`
    have hext := ext_ok size Pprev x a st.out r w hlo hprev addEnd hA hm1
    have hdec : decide (addEnd > a) = true := by simpa using hA
    simp only [hdec, if_true]
    have htot' : (st.out.map (·.bases)).sum + (r.bases + (addEnd - a)) = total (cur Pprev x addEnd) := by
      rw [total_cur] at htot ⊢; omega
    have e : max addEnd x.s = addEnd := by omega
    rw [e]
    by_cases hB : addEnd = r.start + size
    · simp only [hB, if_true]
      subst hB
      exact ⟨li_closed size Pprev x a (r.start + size) st _ h (by omega) hm2 hext.1 hext.2.1 hext.2.2.1 hext.2.2.2
        (by simp) (by intro r0 h0; simpa using w.after_out r0 h0) htot', by omega⟩
    · simp only [hB, if_false]
      have hxe : addEnd = x.e := by omega
      subst hxe
      refine ⟨li_open size Pprev x a x.e st _ h (by omega) (by omega) hext.1 hext.2.1 hext.2.2.1 hext.2.2.2
        (by simp) (by intro r0 h0; simpa using w.after_out r0 h0) ?_ htot', by omega⟩
      intro p hp; have := hprev p hp; left; simp; omega
  · -- nothing of this value fits into the working record: it is emitted unchanged
    have hB : addEnd = r.start + size := by omega
    subst hB
    have hdec : decide (r.start + size > a) = false := by simpa using hA
    simp only [hdec, Bool.false_eq_true, if_false, if_true]
    -- a fresh record would have had room: this one is an old one
    have hmm : MM (cur Pprev x a) r := by
      rcases w.mm with hmm | ⟨e1, e2, _, _⟩
      · exact hmm
      · omega
    have hax : max (r.start + size) x.s = a := by
      by_cases hax : a = x.s
      · omega
      · have := w.stop_eq hax; omega
    rw [hax]
    refine ⟨li_closed size Pprev x a a st r h (by omega) (by omega) hs w.bases_ok w.sum_ok hmm hle
      w.after_out ?_, by omega⟩
    rw [← htot, hsum]

/-- running the loop to completion from a state satisfying the invariant -/
theorem inner_spec (size : Nat) (hsize : 0 < size) (Pprev : List Val) (x : Val) (isLast : Bool)
    (hprev : ∀ p ∈ Pprev, p.e ≤ x.s) :
    ∀ (fuel a : Nat) (st st' : TSt), LI size Pprev x a st →
      inner repaired size x isLast fuel a st = some st' →
      ∃ st0, LI size Pprev x x.e st0 ∧ st' = finish isLast st0 := by
  intro fuel
  induction fuel with
  | zero => intro a st st' _ h; simp [inner] at h
  | succ fuel ih =>
    intro a st st' hli h
    simp only [inner] at h
    by_cases hge : a ≥ x.e
    · simp only [hge, if_true, Option.some.injEq] at h
      have : a = x.e := by have := hli.a_hi; omega
      subst this
      exact ⟨st, hli, h.symm⟩
    · simp only [hge, if_false] at h
      have hp := iter_preserves size hsize Pprev x a st hprev hli (by omega)
      exact ih _ _ _ hp.1 h

/-- measure for termination of the loop -/
def meas (x : Val) (a : Nat) (st : TSt) : Nat :=
  if a ≥ x.e then 0 else (x.e - a) + (if st.live.isSome then 1 else 0) + 1

theorem iter_fst (size : Nat) (x : Val) (a : Nat) (st : TSt) :
    (iter repaired size x a st).1 = max (min ((st.live.getD (newRec a x.v)).start + size) x.e) x.s := by
  simp [iter, repaired]

theorem iter_live (size : Nat) (x : Val) (a : Nat) (st : TSt) :
    (iter repaired size x a st).2.live.isSome =
      !(decide (min ((st.live.getD (newRec a x.v)).start + size) x.e = (st.live.getD (newRec a x.v)).start + size)) := by
  simp only [iter]
  split <;> simp_all

theorem iter_meas (size : Nat) (hsize : 0 < size) (Pprev : List Val) (x : Val) (a : Nat) (st : TSt)
    (hprev : ∀ p ∈ Pprev, p.e ≤ x.s) (h : LI size Pprev x a st) (hlt : a < x.e) :
    meas x (iter repaired size x a st).1 (iter repaired size x a st).2 < meas x a st := by
  have w := wr_of_li size Pprev x a st hprev h
  have hlo := h.a_lo
  have hs := w.shape
  have hle := w.stop_le
  have hse := w.stop_eq
  have hfresh : st.live = none → (st.live.getD (newRec a x.v)).start = a := by
    intro hn; simp [hn, newRec]
  unfold meas
  rw [iter_fst, iter_live]
  generalize (st.live.getD (newRec a x.v)) = r at *
  have hnot : ¬ (a ≥ x.e) := by omega
  simp only [hnot, if_false]
  cases hl : st.live with
  | none =>
    have := hfresh hl
    simp only [Option.isSome_none]
    by_cases hB : min (r.start + size) x.e = r.start + size
    · simp only [hB, decide_true, Bool.not_true]
      split <;> simp <;> omega
    · simp only [hB, decide_false, Bool.not_false]
      have : max (min (r.start + size) x.e) x.s ≥ x.e := by omega
      simp [this]
  | some r0 =>
    simp only [Option.isSome_some]
    by_cases hB : min (r.start + size) x.e = r.start + size
    · simp only [hB, decide_true, Bool.not_true]
      split <;> simp <;> omega
    · simp only [hB, decide_false, Bool.not_false]
      have : max (min (r.start + size) x.e) x.s ≥ x.e := by omega
      simp [this]

theorem inner_terminates (size : Nat) (hsize : 0 < size) (Pprev : List Val) (x : Val) (isLast : Bool)
    (hprev : ∀ p ∈ Pprev, p.e ≤ x.s) :
    ∀ (fuel a : Nat) (st : TSt), LI size Pprev x a st → meas x a st < fuel →
      (inner repaired size x isLast fuel a st).isSome := by
  intro fuel
  induction fuel with
  | zero => intro a st _ h; omega
  | succ fuel ih =>
    intro a st hli hm
    simp only [inner]
    by_cases hge : a ≥ x.e
    · simp [hge]
    · simp only [hge, if_false]
      have hp := iter_preserves size hsize Pprev x a st hprev hli (by omega)
      have hd := iter_meas size hsize Pprev x a st hprev hli (by omega)
      exact ih _ _ hp.1 (by omega)

theorem cur_full (Pprev : List Val) (x : Val) : cur Pprev x x.e = Pprev ++ [x] := by
  cases x; rfl

theorem li_init (size : Nat) (x : Val) (hx : x.s ≤ x.e) :
    LI size [] x x.s { live := none, out := [] } := by
  refine ⟨by omega, hx, by simp, by simp, by simp [recs], by simp [recs], by simp [recs], by simp [recs], by simp, by simp, ?_⟩
  simp [recs, cur, total]

theorem li_next (size : Nat) (Pprev : List Val) (x y : Val) (st : TSt)
    (h : LI size Pprev x x.e st) (hxy : x.e ≤ y.s) (hy : y.s ≤ y.e) :
    LI size (Pprev ++ [x]) y y.s st := by
  have hc : ∀ lo hi, cov (cur (Pprev ++ [x]) y y.s) lo hi = cov (cur Pprev x x.e) lo hi := by
    intro lo hi; rw [cur_full]; simp only [cur, cov_append, cov_single]; omega
  have hw : ∀ lo hi, wsum (cur (Pprev ++ [x]) y y.s) lo hi = wsum (cur Pprev x x.e) lo hi := by
    intro lo hi; rw [cur_full]; simp only [cur, wsum_append, wsum_single]
    have : min y.s hi - max y.s lo = 0 := by omega
    rw [this]; simp
  refine ⟨by omega, hy, ?_, ?_, h.shape, ?_, ?_, ?_, h.sorted, ?_, ?_⟩
  · intro r0 h0; have := h.out_before r0 h0; omega
  · intro r hr; have := h.live_before r hr
    exact ⟨by omega, fun hne => absurd rfl hne, this.2.2⟩
  · intro r hr; rw [hc]; exact h.bases_ok r hr
  · intro r hr; rw [hw]; exact h.sum_ok r hr
  · -- the zero-length stub of `y` overlaps nothing
    intro r hr
    have hm := h.mm_ok r hr
    rw [cur_full] at hm
    have stub : ∀ lo hi, ¬ Ov ⟨y.s, y.s, y.v⟩ lo hi := by intro lo hi; unfold Ov; simp only; omega
    refine ⟨?_, ?_, ?_, ?_⟩
    · intro p hp hov
      simp only [cur, List.mem_append, List.mem_singleton] at hp
      rcases hp with hp | rfl
      · exact hm.lower p (by simpa using hp) hov
      · exact absurd hov (stub _ _)
    · intro p hp hov
      simp only [cur, List.mem_append, List.mem_singleton] at hp
      rcases hp with hp | rfl
      · exact hm.upper p (by simpa using hp) hov
      · exact absurd hov (stub _ _)
    · obtain ⟨q, hq, hqo, hqv⟩ := hm.mn_wit
      exact ⟨q, by simp only [cur, List.mem_append]; left; simpa using hq, hqo, hqv⟩
    · obtain ⟨q, hq, hqo, hqv⟩ := hm.mx_wit
      exact ⟨q, by simp only [cur, List.mem_append]; left; simpa using hq, hqo, hqv⟩
  · intro r hr p hp
    simp only [List.mem_append, List.mem_singleton] at hp
    rcases hp with hp | rfl
    · exact h.live_covers r hr p hp
    · have := (h.live_before r hr).2.1
      by_cases hz : p.e = p.s
      · right; omega
      · left; have := this hz; omega
  · rw [h.total_ok, cur_full, total_cur, total_append, total_single]; omega

/-- what the finished record list satisfies with respect to the values `P` -/
structure Final (size : Nat) (P : List Val) (R : List Rec) : Prop where
  sorted : R.Pairwise (fun r1 r2 => r1.stop ≤ r2.start)
  shape : ∀ r ∈ R, r.start ≤ r.stop ∧ r.stop ≤ r.start + size
  bases_ok : ∀ r ∈ R, r.bases = cov P r.start r.stop
  sum_ok : ∀ r ∈ R, r.sum = wsum P r.start r.stop
  mm_ok : ∀ r ∈ R, MM P r
  total_ok : (R.map (·.bases)).sum = total P

theorem final_of_li (size : Nat) (Pprev : List Val) (x : Val) (st : TSt)
    (h : LI size Pprev x x.e st) : Final size (Pprev ++ [x]) (recs st) := by
  rw [← cur_full]
  refine ⟨?_, h.shape, h.bases_ok, h.sum_ok, h.mm_ok, h.total_ok⟩
  cases hl : st.live with
  | none => simpa [recs, hl] using h.sorted
  | some r =>
    simp only [recs, hl, Option.toList_some]
    rw [List.pairwise_append]
    refine ⟨h.sorted, by simp, ?_⟩
    intro r1 h1 r2 h2
    simp only [List.mem_singleton] at h2; subst h2
    exact (h.live_before r2 hl).2.2 r1 h1

theorem finish_true_out (st : TSt) : (finish true st).out = recs st ∧ (finish true st).live = none := by
  cases hl : st.live <;> simp [finish, recs, hl]

theorem processAll_spec (size : Nat) (hsize : 0 < size) :
    ∀ (vals Pprev : List Val) (st st' : TSt),
      (Pprev ++ vals).Pairwise (fun p q => p.e ≤ q.s) → (∀ p ∈ vals, p.s ≤ p.e) →
      (∀ x ∈ vals.head?, LI size Pprev x x.s st) → vals ≠ [] →
      processAll repaired size vals st = some st' →
      st'.live = none ∧ Final size (Pprev ++ vals) st'.out := by
  intro vals
  induction vals with
  | nil => intro _ _ _ _ _ _ hne; exact absurd rfl hne
  | cons x xs ih =>
    intro Pprev st st' hpw hse hli _ hrun
    have hli' := hli x (by simp)
    have hprev : ∀ p ∈ Pprev, p.e ≤ x.s := by
      intro p hp
      rw [List.pairwise_append] at hpw
      exact hpw.2.2 p hp x (by simp)
    simp only [processAll] at hrun
    split at hrun
    · rename_i st1 hin
      obtain ⟨st0, h0, rfl⟩ := inner_spec size hsize Pprev x xs.isEmpty hprev _ _ _ _ hli' hin
      cases xs with
      | nil =>
        simp only [processAll, Option.some.injEq, List.isEmpty_nil] at hrun
        subst hrun
        have := finish_true_out st0
        exact ⟨this.2, by rw [this.1]; exact final_of_li size Pprev x st0 h0⟩
      | cons y ys =>
        simp only [List.isEmpty_cons, finish] at hrun
        have hxy : x.e ≤ y.s := by
          rw [List.pairwise_append] at hpw
          have := hpw.2.1
          rw [List.pairwise_cons] at this
          exact this.1 y (by simp)
        have hn := li_next size Pprev x y st0 h0 hxy (hse y (by simp))
        have := ih (Pprev ++ [x]) st0 st' (by simpa using hpw) (fun p hp => hse p (by simp [hp]))
          (by intro z hz; simp at hz; subst hz; exact hn) (by simp) hrun
        simpa using this
    · simp at hrun

/-- **Zoom tiler, repaired variant: every record is a faithful reduction** — in order, disjoint, at most one
    resolution long, covered bases and sum exact, min and max attained by and bounding exactly the values
    that overlap the record, total coverage preserved. -/
theorem run_faithful (size : Nat) (hsize : 0 < size) (vals : List Val) (R : List Rec)
    (hpw : vals.Pairwise (fun p q => p.e ≤ q.s)) (hse : ∀ p ∈ vals, p.s ≤ p.e)
    (hrun : run repaired size vals = some R) : Final size vals R := by
  cases vals with
  | nil =>
    simp [run, processAll] at hrun; subst hrun
    exact ⟨by simp, by simp, by simp, by simp, by simp, by simp [total]⟩
  | cons x xs =>
    simp only [run, Option.map_eq_some_iff] at hrun
    obtain ⟨st', hst, rfl⟩ := hrun
    have := processAll_spec size hsize (x :: xs) [] _ st' (by simpa using hpw) hse
      (by intro z hz; simp only [List.head?_cons, Option.mem_def, Option.some.injEq] at hz
          rw [← hz]; exact li_init size x (hse x (by simp))) (by simp) hst
    simpa using this.2

theorem meas_start_le (x : Val) (st : TSt) : meas x x.s st ≤ (x.e - x.s) + 2 := by
  unfold meas; repeat' split
  all_goals omega

theorem processAll_total (size : Nat) (hsize : 0 < size) :
    ∀ (vals Pprev : List Val) (st : TSt),
      (Pprev ++ vals).Pairwise (fun p q => p.e ≤ q.s) → (∀ p ∈ vals, p.s ≤ p.e) →
      (∀ x ∈ vals.head?, LI size Pprev x x.s st) →
      (processAll repaired size vals st).isSome := by
  intro vals
  induction vals with
  | nil => intro _ _ _ _ _; simp [processAll]
  | cons x xs ih =>
    intro Pprev st hpw hse hli
    have hli' := hli x (by simp)
    have hprev : ∀ p ∈ Pprev, p.e ≤ x.s := by
      intro p hp
      rw [List.pairwise_append] at hpw
      exact hpw.2.2 p hp x (by simp)
    have hterm := inner_terminates size hsize Pprev x xs.isEmpty hprev (x.e + 3) x.s st hli'
      (by have := meas_start_le x st; omega)
    simp only [processAll]
    cases hin : inner repaired size x xs.isEmpty (x.e + 3) x.s st with
    | none => simp [hin] at hterm
    | some st1 =>
      simp only
      obtain ⟨st0, h0, rfl⟩ := inner_spec size hsize Pprev x xs.isEmpty hprev _ _ _ _ hli' hin
      cases xs with
      | nil => simp [processAll]
      | cons y ys =>
        simp only [List.isEmpty_cons, finish]
        have hxy : x.e ≤ y.s := by
          rw [List.pairwise_append] at hpw
          have := hpw.2.1
          rw [List.pairwise_cons] at this
          exact this.1 y (by simp)
        have hn := li_next size Pprev x y st0 h0 hxy (hse y (by simp))
        exact ih (Pprev ++ [x]) st0 (by simpa using hpw) (fun p hp => hse p (by simp [hp]))
          (by intro z hz; simp at hz; subst hz; exact hn)

/-- the repaired tiler never runs out of the fuel the model gives it -/
theorem run_total (size : Nat) (hsize : 0 < size) (vals : List Val)
    (hpw : vals.Pairwise (fun p q => p.e ≤ q.s)) (hse : ∀ p ∈ vals, p.s ≤ p.e) :
    (run repaired size vals).isSome := by
  cases vals with
  | nil => simp [run, processAll]
  | cons x xs =>
    have := processAll_total size hsize (x :: xs) [] { live := none, out := [] } (by simpa using hpw) hse
      (by intro z hz; simp only [List.head?_cons, Option.mem_def, Option.some.injEq] at hz
          rw [← hz]; exact li_init size x (hse x (by simp)))
    simpa [run] using this

end Tiler2
