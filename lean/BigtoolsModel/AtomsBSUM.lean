import BigtoolsModel.Tiler2
import BigtoolsModel.Sweep
import BigtoolsModel.FView
import BigtoolsModel.IndexerFix
import BigtoolsModel.Chunker
import BigtoolsModel.SummaryFold
import BigtoolsModel.BedSummary
import BigtoolsModel.Stats2
import BigtoolsModel.ZoomLevels
import BigtoolsModel.AtomsNorm
namespace BSUM
open SW

/-- the summary update of the bigBed writer for one flushed piece of positive length, as the source writes it: the first
    piece seeds the summary, later ones are added -/
def addSeg (st : Option Sm) (g : Seg) : Option Sm :=
  let len := g.e - g.s
  match st with
  | none => some ⟨len, len * g.d, len * g.d * g.d, g.d, g.d⟩
  | some t => some ⟨t.bases + len, t.sum + len * g.d, t.sumsq + len * g.d * g.d, min t.mn g.d, max t.mx g.d⟩

/-- … the same, assembled from the expressions regenerated from the source -/
def addSegGen (st : Option Sm) (g : Seg) : Option Sm :=
  let l : Int := ((g.e - g.s : Nat) : Int)
  let d : Int := (g.d : Nat)
  match st with
  | none => some ⟨(Gen.bs_first_bases l d 0 0).toNat, (Gen.bs_first_sum l d 0 0).toNat, (Gen.bs_first_sumsq l d 0 0).toNat,
                  (Gen.bs_first_min l d 0 0).toNat, (Gen.bs_first_max l d 0 0).toNat⟩
  | some t => some ⟨t.bases + (Gen.bs_bases_add l d 0 0).toNat, t.sum + (Gen.bs_sum_add l d 0 0).toNat,
                    t.sumsq + (Gen.bs_sumsq_add l d 0 0).toNat, (Gen.bs_min l d t.mn 0).toNat, (Gen.bs_max l d 0 t.mx).toNat⟩

theorem gen_bed_summary_atoms (l v a b : Int) :
    Gen.bs_first_bases l v a b = l ∧ Gen.bs_first_sum l v a b = l * v ∧ Gen.bs_first_sumsq l v a b = l * v * v ∧
    Gen.bs_first_min l v a b = v ∧ Gen.bs_first_max l v a b = v ∧
    Gen.bs_bases_add l v a b = l ∧ Gen.bs_sum_add l v a b = l * v ∧ Gen.bs_sumsq_add l v a b = l * v * v ∧
    Gen.bs_min l v a b = min a v ∧ Gen.bs_max l v a b = max b v := by
  delta Gen.bs_first_bases Gen.bs_first_sum Gen.bs_first_sumsq Gen.bs_first_min Gen.bs_first_max Gen.bs_bases_add Gen.bs_sum_add
    Gen.bs_sumsq_add Gen.bs_min Gen.bs_max
  refine ⟨?_, ?_, ?_, ?_, ?_, ?_, ?_, ?_, ?_, ?_⟩ <;> first | rfl | omega | grind

theorem toNat_mul2 (a b : Nat) : ((a : Int) * (b : Int)).toNat = a * b := by
  rw [← Int.natCast_mul]; exact Int.toNat_natCast _
theorem toNat_mul3 (a b : Nat) : ((a : Int) * (b : Int) * (b : Int)).toNat = a * b * b := by
  rw [← Int.natCast_mul, ← Int.natCast_mul]; exact Int.toNat_natCast _
theorem toNat_min (a b : Nat) : (min (a : Int) (b : Int)).toNat = min a b := by omega
theorem toNat_max (a b : Nat) : (max (a : Int) (b : Int)).toNat = max a b := by omega

/-- **bigBed summary update** with the source's expressions is `addSeg` -/
theorem gen_bed_summary_step (st : Option Sm) (g : Seg) : addSegGen st g = addSeg st g := by
  have h := fun a b => gen_bed_summary_atoms ((g.e - g.s : Nat) : Int) (g.d : Nat) a b
  unfold addSegGen addSeg
  cases st with
  | none =>
    simp only [(h _ _).1, (h _ _).2.1, (h _ _).2.2.1, (h _ _).2.2.2.1, (h _ _).2.2.2.2.1, Int.toNat_natCast, toNat_mul2, toNat_mul3]
  | some t =>
    simp only [(h _ _).2.2.2.2.2.1, (h _ _).2.2.2.2.2.2.1, (h _ _).2.2.2.2.2.2.2.1, (h _ _).2.2.2.2.2.2.2.2.1,
      (h _ _).2.2.2.2.2.2.2.2.2, Int.toNat_natCast, toNat_mul2, toNat_mul3, toNat_min, toNat_max]

theorem foldl_addSeg_some (l : List Seg) : ∀ (t : Sm), l.foldl addSeg (some t) =
    some ⟨t.bases + (l.map fun g => g.e - g.s).sum, t.sum + (l.map fun g => (g.e - g.s) * g.d).sum,
          t.sumsq + (l.map fun g => (g.e - g.s) * g.d * g.d).sum, (l.map (·.d)).foldl min t.mn, (l.map (·.d)).foldl max t.mx⟩ := by
  induction l with
  | nil => intro t; simp
  | cons g rest ih =>
    intro t
    simp only [List.foldl_cons, addSeg, ih, List.map_cons, List.sum_cons]
    congr 2 <;> omega

/-- folding `addSeg` over the pieces of positive length a chromosome's sweep emits gives the chromosome summary `ofSegs` the
    theorems of C06 are about (`C06_bed_bases_covered`, `…_sum`, `…_sum_squares`, `…_min_max`, the cross-chromosome merge) -/
theorem foldl_addSeg_eq_ofSegs (l : List Seg) (hpos : ∀ g ∈ l, g.s < g.e) (hne : l ≠ []) :
    l.foldl addSeg none = some (ofSegs l) := by
  have hp : pos l = l := List.filter_eq_self.mpr (by intro g hg; simpa using hpos g hg)
  cases l with
  | nil => exact absurd rfl hne
  | cons g rest =>
    unfold ofSegs
    rw [hp]
    simp only [List.foldl_cons, addSeg, foldl_addSeg_some, List.map_cons, List.sum_cons, minD, maxD, Nat.zero_max]

end BSUM
