import BigtoolsModel.Tiler2
import BigtoolsModel.Sweep
import BigtoolsModel.FView
import BigtoolsModel.IndexerFix
import BigtoolsModel.Chunker
import BigtoolsModel.SummaryFold
import BigtoolsModel.BedSummary
import BigtoolsModel.Stats2
import BigtoolsModel.ZoomLevels
import BigtoolsModel.AtomsNorm
namespace IX

/-- the bisection of `index_chroms` with its arithmetic taken from the source: the stop test, the probe, the "no line starts to
    the right of the probe" test and the upper bounds handed to the three recursive calls -/
def doIndexGen (f : File) : Nat → St → Nat → Option Nat → Nat → Option St
  | 0, _, _, _, _ => none
  | limit + 1, st, prevId, nextId, hi =>
    match find st prevId with
    | none => none
    | some prev =>
      if Gen.ix_stop prev.off hi 0 0 then some st else
      let nextEnt := nextId.bind (find st)
      let m := Gen.ix_probe prev.off hi 0 0
      let tell := lineEndAfter 0 f m
      if Gen.ix_nothing_right prev.off hi m tell then
        doIndexGen f limit st prevId nextId (Gen.ix_retry_limit prev.off hi m tell)
      else
        match chromAt 0 f tell with
        | none => some st
        | some chrom =>
          let (st1, currId) := insertAfter st prevId tell chrom
          let left : Bool := decide (chrom ≠ prev.chrom)
          let right : Bool := match nextEnt with
            | some n => decide (chrom ≠ n.chrom)
            | none => true
          let st2 := if left then doIndexGen f limit st1 prevId (some currId) (Gen.ix_left_limit prev.off hi m tell) else some st1
          st2.bind fun s => if right then doIndexGen f limit s currId nextId (Gen.ix_right_limit prev.off hi m tell) else some s

theorem gen_ix_atoms (p hi m t x y : Nat) :
    Gen.ix_stop p hi x y = decide (hi ≤ p + 1) ∧ Gen.ix_probe p hi x y = p + (hi - p - 1) / 2 ∧
    Gen.ix_nothing_right p hi m t = decide (t ≥ hi) ∧ Gen.ix_retry_limit p hi m t = m + 1 ∧
    Gen.ix_left_limit p hi m t = t ∧ Gen.ix_right_limit p hi m t = hi := by
  delta Gen.ix_stop Gen.ix_probe Gen.ix_nothing_right Gen.ix_retry_limit Gen.ix_left_limit Gen.ix_right_limit
  refine ⟨?_, ?_, ?_, ?_, ?_, ?_⟩ <;> first | rfl | omega | grind | (rw [Bool.eq_iff_iff]; atoms_norm; omega)

/-- **Chromosome bisection.** `do_index` with the source's arithmetic is the model's repaired bisection `doIndexFixed` — the
    function `index_is_first_line_of_every_run` (C18) is about — for every file, depth budget, list state and bounds. -/
theorem gen_index_bisection (f : File) : ∀ (fuel : Nat) (st : St) (prevId : Nat) (nextId : Option Nat) (hi : Nat),
    doIndexGen f fuel st prevId nextId hi = doIndexFixed f fuel st prevId nextId hi := by
  intro fuel
  induction fuel with
  | zero => intros; rfl
  | succ n ih =>
    intro st prevId nextId hi
    unfold doIndexGen doIndexFixed
    cases hp : find st prevId with
    | none => rfl
    | some prev =>
      have a := fun m t => gen_ix_atoms prev.off hi m t 0 0
      simp only [(a 0 0).1, (a 0 0).2.1, fun m t => (a m t).2.2.1, fun m t => (a m t).2.2.2.1, fun m t => (a m t).2.2.2.2.1,
        fun m t => (a m t).2.2.2.2.2, ih, decide_eq_true_eq]
      first | rfl | (split <;> first | rfl | (split <;> first | rfl | (split <;> rfl)))

end IX
