import BigtoolsModel.CirBytes
import BigtoolsModel.RTLayout
import BigtoolsModel.Codec
/-! Probe (C05): the bytes `write_rtreeindex` produces (level-order layout, `write_tree` pointer arithmetic)
    lay the built tree out in the file (`Laid`), hence — with `searchCir_eq_search`, `build_search` — the
    reader's byte-level search over the written index equals a linear scan. Little-endian writer. -/
namespace BBI
open RT CD

/-- byte source over a list of byte values -/
def srcOf (l : List Nat) : Src := ⟨l.length, fun i => UInt8.ofNat (l.getD i 0)⟩

/-- `seg` occurs in `l` at offset `off` -/
def Has (l : List Nat) (off : Nat) (seg : List Nat) : Prop :=
  ∃ pre post, l = pre ++ seg ++ post ∧ pre.length = off

theorem Has.left {l off a b} (h : Has l off (a ++ b)) : Has l off a := by
  obtain ⟨pre, post, rfl, hp⟩ := h
  exact ⟨pre, b ++ post, by simp [List.append_assoc], hp⟩

theorem Has.right {l off a b} (h : Has l off (a ++ b)) : Has l (off + a.length) b := by
  obtain ⟨pre, post, rfl, hp⟩ := h
  exact ⟨pre ++ a, post, by simp [List.append_assoc], by simp [hp]⟩

theorem Has.size {l off seg} (h : Has l off seg) : off + seg.length ≤ l.length := by
  obtain ⟨pre, post, rfl, hp⟩ := h
  simp; omega

theorem Has.byte {l off seg} (h : Has l off seg) (i : Nat) (hi : i < seg.length) (hb : seg[i] < 256) :
    byte (srcOf l) (off + i) = seg[i] := by
  obtain ⟨pre, post, rfl, hp⟩ := h
  subst hp
  have : ((pre ++ seg ++ post).getD (pre.length + i) 0) = seg[i] := by
    rw [List.getD_eq_getElem?_getD, List.append_assoc, List.getElem?_append_right (by omega)]
    simp [List.getElem?_append_left hi, List.getElem?_eq_getElem hi]
  show (UInt8.ofNat ((pre ++ seg ++ post).getD (pre.length + i) 0)).toNat = seg[i]
  rw [this]
  simp [UInt8.toNat_ofNat']
  omega

theorem uN_little_succ (s : Src) (off k : Nat) :
    uN .little s off (k + 1) = uN .little s (off + 1) k * 256 + byte s off := by
  simp only [uN]
  rw [List.range_succ_eq_map, List.foldr_cons, List.foldr_map]
  simp only [Nat.add_zero]
  congr 2
  have : (fun x y => y * 256 + byte s (off + x.succ)) = (fun i acc => acc * 256 + byte s (off + 1 + i)) := by
    funext i acc
    simp [Nat.add_assoc, Nat.add_comm 1 i]
  rw [this]

theorem uN_le (l : List Nat) : ∀ (k off n : Nat), Has l off (le k n) → n < 256 ^ k →
    uN .little (srcOf l) off k = n := by
  intro k
  induction k with
  | zero => intro off n _ hn; simp at hn; subst hn; simp [uN]
  | succ k ih =>
    intro off n h hn
    rw [uN_little_succ]
    have h0 : byte (srcOf l) off = n % 256 := by
      have := h.byte 0 (by simp [le_length]) (by simp [le]; omega)
      simpa [le] using this
    have hr : Has l (off + 1) (le k (n / 256)) := by
      have : le (k + 1) n = [n % 256] ++ le k (n / 256) := rfl
      rw [this] at h
      simpa using h.right
    rw [ih (off + 1) (n / 256) hr (by rw [Nat.pow_succ] at hn; omega), h0]
    omega

theorem Has.cast {l o o' seg} (h : Has l o seg) (e : o = o') : Has l o' seg := e ▸ h

/-! ### serialiser -/

def PosOK (p : Pos) : Prop := p.c < 256 ^ 4 ∧ p.b < 256 ^ 4
def SecOK (x : Sec) : Prop := PosOK x.lo ∧ PosOK x.hi ∧ x.off < 256 ^ 8 ∧ x.size < 256 ^ 8
def SpanBd (sp : Span) : Prop := PosOK sp.lo ∧ PosOK sp.hi

def secBytes (x : Sec) : List Nat :=
  le 4 x.lo.c ++ le 4 x.lo.b ++ le 4 x.hi.c ++ le 4 x.hi.b ++ le 8 x.off ++ le 8 x.size
def kidBytes (sp : Span) (p : Nat) : List Nat :=
  le 4 sp.lo.c ++ le 4 sp.lo.b ++ le 4 sp.hi.c ++ le 4 sp.hi.b ++ le 8 p

/-- one node as `write_tree` writes it; `ps` = the child offsets it computed -/
def nodeBytes : T → List Nat → List Nat
  | .leaf secs, _ => [1, 0] ++ le 2 secs.length ++ secs.flatMap secBytes
  | .node kids, ps => [0, 0] ++ le 2 kids.length ++ (kids.zip ps).flatMap fun kp => kidBytes kp.1.1 kp.2

def nodeSize : T → Nat
  | .leaf secs => 4 + 32 * secs.length
  | .node kids => 4 + 24 * kids.length

def kidCount : T → Nat
  | .leaf _ => 0
  | .node kids => kids.length

theorem secBytes_length (x : Sec) : (secBytes x).length = 32 := by simp [secBytes, le_length]
theorem kidBytes_length (sp : Span) (p : Nat) : (kidBytes sp p).length = 24 := by simp [kidBytes, le_length]

theorem leafItemAt_of_has (l : List Nat) (b : Nat) (x : Sec) (h : Has l b (secBytes x)) (hx : SecOK x) :
    leafItemAt .little (srcOf l) b x := by
  unfold secBytes at h
  obtain ⟨⟨a1, a2⟩, ⟨a3, a4⟩, a5, a6⟩ := hx
  have h6 := h.right
  have h5 := h.left.right
  have h4 := h.left.left.right
  have h3 := h.left.left.left.right
  have h2 := h.left.left.left.left.right
  have h1 := h.left.left.left.left.left
  simp only [List.length_append, le_length] at h1 h2 h3 h4 h5 h6
  exact ⟨uN_le l 4 _ _ h1 a1, uN_le l 4 _ _ h2 a2, uN_le l 4 _ _ (h3.cast (by omega)) a3,
    uN_le l 4 _ _ (h4.cast (by omega)) a4, uN_le l 8 _ _ (h5.cast (by omega)) a5, uN_le l 8 _ _ (h6.cast (by omega)) a6⟩

theorem nodeItemAt_of_has (l : List Nat) (b : Nat) (sp : Span) (p : Nat) (h : Has l b (kidBytes sp p))
    (hx : SpanBd sp) (hp : p < 256 ^ 8) : nodeItemAt .little (srcOf l) b sp p := by
  unfold kidBytes at h
  obtain ⟨⟨a1, a2⟩, ⟨a3, a4⟩⟩ := hx
  have h5 := h.right
  have h4 := h.left.right
  have h3 := h.left.left.right
  have h2 := h.left.left.left.right
  have h1 := h.left.left.left.left
  simp only [List.length_append, le_length] at h1 h2 h3 h4 h5
  exact ⟨uN_le l 4 _ _ h1 a1, uN_le l 4 _ _ h2 a2, uN_le l 4 _ _ (h3.cast (by omega)) a3,
    uN_le l 4 _ _ (h4.cast (by omega)) a4, uN_le l 8 _ _ (h5.cast (by omega)) hp⟩

theorem has_flatMap_items {α} (f : α → List Nat) (w : Nat) (hw : ∀ x, (f x).length = w) (l : List Nat) :
    ∀ (xs : List α) (base : Nat), Has l base (xs.flatMap f) →
      ∀ i (hi : i < xs.length), Has l (base + i * w) (f xs[i]) := by
  intro xs
  induction xs with
  | nil => intro base _ i hi; simp at hi
  | cons x xs ih =>
    intro base h i hi
    rw [List.flatMap_cons] at h
    cases i with
    | zero => simpa using h.left
    | succ i =>
      have := ih (base + w) (by simpa [hw] using h.right) i (by simpa using hi)
      simp only [List.getElem_cons_succ]
      exact this.cast (by rw [Nat.succ_mul]; omega)

theorem length_flatMap_const {α} (f : α → List Nat) (w : Nat) (hw : ∀ x, (f x).length = w) (xs : List α) :
    (xs.flatMap f).length = xs.length * w := by
  induction xs with
  | nil => simp
  | cons x xs ih => simp [List.flatMap_cons, hw, ih, Nat.succ_mul]; omega

/-- node header: flag byte and item count -/
theorem header_of_has (l : List Nat) (off flag n : Nat) (rest : List Nat) (hf : flag < 256) (hn : n < 256 ^ 2)
    (h : Has l off ([flag, 0] ++ le 2 n ++ rest)) :
    byte (srcOf l) off = flag ∧ u16 .little (srcOf l) (off + 2) = n := by
  constructor
  · have := h.left.left.byte 0 (by simp) (by simpa using hf)
    simpa using this
  · have := h.left.right
    exact uN_le l 2 _ _ (by simpa using this) hn

def All2 {α β} (R : α → β → Prop) : List α → List β → Prop
  | [], [] => True
  | a :: as, b :: bs => R a b ∧ All2 R as bs
  | _, _ => False

theorem laid_lt_size {e s nlb off t} (h : Laid e s nlb off t) : off < s.size := by
  cases h with
  | leaf _ _ hb => omega
  | node _ _ _ hb => omega

theorem laid_leaf_of_has (l : List Nat) (off : Nat) (secs : List Sec) (ps : List Nat)
    (h : Has l off (nodeBytes (.leaf secs) ps)) (hc : secs.length < 256 ^ 2) (hs : ∀ x ∈ secs, SecOK x) :
    Laid .little (srcOf l) 24 off (.leaf secs) := by
  unfold nodeBytes at h
  obtain ⟨hb, hcnt⟩ := header_of_has l off 1 secs.length _ (by omega) hc h
  have hitems : Has l (off + 4) (secs.flatMap secBytes) := by
    have := h.right; simpa [le_length] using this
  refine Laid.leaf off secs ?_ hb hcnt ?_
  · have := h.size
    simp only [List.length_append, le_length, length_flatMap_const secBytes 32 secBytes_length,
      List.length_cons, List.length_nil] at this
    show off + 4 + secs.length * 32 ≤ l.length
    omega
  · intro i hi
    exact leafItemAt_of_has l _ _ (has_flatMap_items secBytes 32 secBytes_length l secs (off + 4) hitems i hi)
      (hs _ (List.getElem_mem hi))

theorem laidKids_of_has (l : List Nat) : ∀ (kids : List (Span × T)) (ps : List Nat) (base : Nat),
    Has l base ((kids.zip ps).flatMap fun kp => kidBytes kp.1.1 kp.2) →
    All2 (Laid .little (srcOf l) 24) ps (kids.map (·.2)) → (∀ k ∈ kids, SpanBd k.1) → l.length < 256 ^ 8 →
    LaidKids .little (srcOf l) 24 base kids ps := by
  intro kids
  induction kids with
  | nil =>
    intro ps base _ ha _ _
    cases ps with
    | nil => exact LaidKids.nil base
    | cons p ps => simp [All2] at ha
  | cons k ks ih =>
    intro ps base h ha hk hp
    cases ps with
    | nil => simp [All2] at ha
    | cons p ps =>
      simp only [List.map_cons, All2] at ha
      rw [List.zip_cons_cons, List.flatMap_cons] at h
      refine LaidKids.cons base k ks p ps ?_ ha.1 ?_
      · exact nodeItemAt_of_has l base k.1 p h.left (hk k (by simp)) (Nat.lt_trans (laid_lt_size ha.1) hp)
      · exact ih ps (base + 24) (by simpa [kidBytes_length] using h.right) ha.2
          (fun k' hk' => hk k' (by simp [hk'])) hp

theorem laid_node_of_has (l : List Nat) (off : Nat) (kids : List (Span × T)) (ps : List Nat)
    (h : Has l off (nodeBytes (.node kids) ps)) (hc : kids.length < 256 ^ 2)
    (ha : All2 (Laid .little (srcOf l) 24) ps (kids.map (·.2))) (hk : ∀ k ∈ kids, SpanBd k.1)
    (hp : l.length < 256 ^ 8) (hlen : ps.length = kids.length) :
    Laid .little (srcOf l) 24 off (.node kids) := by
  unfold nodeBytes at h
  obtain ⟨hb, hcnt⟩ := header_of_has l off 0 kids.length _ (by omega) hc h
  have hitems : Has l (off + 4) ((kids.zip ps).flatMap fun kp => kidBytes kp.1.1 kp.2) := by
    have := h.right; simpa [le_length] using this
  refine Laid.node off kids ps ?_ hb hcnt (laidKids_of_has l kids ps (off + 4) hitems ha hk hp)
  have := h.size
  simp only [List.length_append, le_length,
    length_flatMap_const (fun kp : (Span × T) × Nat => kidBytes kp.1.1 kp.2) 24 (fun _ => kidBytes_length _ _),
    List.length_cons, List.length_nil, List.length_zip, hlen, Nat.min_self] at this
  show off + 4 + kids.length * 24 ≤ l.length
  omega

/-! ### levels -/

def levelBytes : List T → List (List Nat) → List Nat
  | n :: ns, ps :: pss => nodeBytes n ps ++ levelBytes ns pss
  | _, _ => []

theorem nodeBytes_length (n : T) (ps : List Nat) (h : ps.length = kidCount n) : (nodeBytes n ps).length = nodeSize n := by
  cases n with
  | leaf secs =>
    simp only [nodeBytes, nodeSize, List.length_append, le_length, length_flatMap_const secBytes 32 secBytes_length,
      List.length_cons, List.length_nil]
    omega
  | node kids =>
    simp only [kidCount] at h
    simp only [nodeBytes, nodeSize, List.length_append, le_length,
      length_flatMap_const (fun kp : (Span × T) × Nat => kidBytes kp.1.1 kp.2) 24 (fun _ => kidBytes_length _ _),
      List.length_cons, List.length_nil, List.length_zip, h, Nat.min_self]
    omega

theorem levelBytes_length : ∀ (nodes : List T) (pss : List (List Nat)), pss.map List.length = nodes.map kidCount →
    (levelBytes nodes pss).length = (nodes.map nodeSize).sum := by
  intro nodes
  induction nodes with
  | nil => intro pss _; cases pss <;> simp [levelBytes]
  | cons n ns ih =>
    intro pss h
    cases pss with
    | nil => simp at h
    | cons ps pss =>
      simp only [List.map_cons, List.cons.injEq] at h
      simp only [levelBytes, List.length_append, nodeBytes_length n ps h.1, ih pss h.2, List.map_cons, List.sum_cons]

theorem ptrs_shape (full : Nat) : ∀ (counts : List Nat) (off : Nat), (ptrs full off counts).map List.length = counts := by
  intro counts
  induction counts with
  | nil => intro off; simp [ptrs]
  | cons c cs ih => intro off; simp [ptrs, ih]

theorem all2_length {α β} {R : α → β → Prop} : ∀ {as : List α} {bs : List β}, All2 R as bs → as.length = bs.length := by
  intro as
  induction as with
  | nil => intro bs h; cases bs with
    | nil => rfl
    | cons => simp [All2] at h
  | cons a as ih => intro bs h; cases bs with
    | nil => simp [All2] at h
    | cons b bs => simp only [All2] at h; simp [ih h.2]

theorem all2_append {α β} {R : α → β → Prop} : ∀ (a a' : List α) (b b' : List β), a.length = b.length →
    All2 R (a ++ a') (b ++ b') → All2 R a b ∧ All2 R a' b' := by
  intro a
  induction a with
  | nil => intro a' b b' hl h; cases b with
    | nil => simpa [All2] using h
    | cons => simp at hl
  | cons x xs ih => intro a' b b' hl h; cases b with
    | nil => simp at hl
    | cons y ys =>
      simp only [List.cons_append, All2] at h
      have := ih a' ys b' (by simpa using hl) h.2
      exact ⟨⟨h.1, this.1⟩, this.2⟩

theorem all2_unflatten {α β} {R : α → β → Prop} : ∀ (pss : List (List α)) (xss : List (List β)),
    pss.map List.length = xss.map List.length → All2 R pss.flatten xss.flatten → All2 (All2 R) pss xss := by
  intro pss
  induction pss with
  | nil => intro xss hl _; cases xss with
    | nil => simp [All2]
    | cons => simp at hl
  | cons ps pss ih => intro xss hl h; cases xss with
    | nil => simp at hl
    | cons xs xss =>
      simp only [List.map_cons, List.cons.injEq] at hl
      simp only [List.flatten_cons] at h
      have := all2_append ps pss.flatten xs xss.flatten hl.1 h
      exact ⟨this.1, ih xss hl.2 this.2⟩

/-! ### the builder's levels -/

def NodeBd : T → Prop
  | .leaf secs => secs.length < 256 ^ 2 ∧ ∀ x ∈ secs, SecOK x
  | .node kids => kids.length < 256 ^ 2 ∧ ∀ k ∈ kids, SpanBd k.1

theorem posOK_origin : PosOK origin := by simp [PosOK, origin]

theorem posOK_max {p q : Pos} (hp : PosOK p) (hq : PosOK q) : PosOK (Pos.max p q) := by
  unfold Pos.max; split <;> assumption

theorem posOK_maxHi : ∀ (secs : List Sec), (∀ x ∈ secs, PosOK x.hi) → PosOK (maxHi secs)
  | [], _ => posOK_origin
  | x :: xs, hs => posOK_max (hs x (by simp)) (posOK_maxHi xs (fun y hy => hs y (by simp [hy])))

theorem posOK_maxSpanHi : ∀ (kids : List (Span × T)), (∀ k ∈ kids, PosOK k.1.hi) → PosOK (maxSpanHi kids)
  | [], _ => posOK_origin
  | x :: xs, hs => posOK_max (hs x (by simp)) (posOK_maxSpanHi xs (fun y hy => hs y (by simp [hy])))

theorem spanOf_bd (fixed : Bool) (n : T) (h : NodeBd n) : SpanBd (spanOf fixed n) := by
  cases n with
  | leaf secs =>
    obtain ⟨_, hs⟩ := h
    have hmax : PosOK (maxHi secs) := posOK_maxHi secs (fun x hx => (hs x hx).2.1)
    have hlast : PosOK (lastHi secs) := by
      unfold lastHi
      cases hl : secs.getLast? with
      | none => exact posOK_origin
      | some x => exact (hs x (List.mem_of_getLast? hl)).2.1
    have hfirst : PosOK (firstLo secs) := by
      unfold firstLo
      cases hl : secs.head? with
      | none => exact posOK_origin
      | some x => exact (hs x (List.mem_of_head? hl)).1
    simp only [spanOf, SpanBd]
    refine ⟨hfirst, ?_⟩
    split <;> assumption
  | node kids =>
    obtain ⟨_, hs⟩ := h
    have hmax : PosOK (maxSpanHi kids) := posOK_maxSpanHi kids (fun x hx => (hs x hx).2)
    have hlast : PosOK ((kids.getLast?.map (·.1.hi)).getD origin) := by
      cases hl : kids.getLast? with
      | none => exact posOK_origin
      | some x => exact (hs x (List.mem_of_getLast? hl)).2
    have hfirst : PosOK ((kids.head?.map (·.1.lo)).getD origin) := by
      cases hl : kids.head? with
      | none => exact posOK_origin
      | some x => exact (hs x (List.mem_of_head? hl)).1
    simp only [spanOf, SpanBd]
    refine ⟨hfirst, ?_⟩
    split <;> assumption

theorem chunksF_length_le (b : Nat) : ∀ (fuel : Nat) (l : List α), ∀ c ∈ chunksF b fuel l, c.length ≤ b := by
  intro fuel
  induction fuel with
  | zero => intro l c h; simp [chunksF] at h
  | succ fuel ih =>
    intro l c h
    simp only [chunksF] at h
    split at h
    · simp at h
    · simp only [List.mem_cons] at h
      rcases h with rfl | h
      · simp [List.length_take]; omega
      · exact ih _ c h

theorem chunksF_map {β} (f : α → β) (b : Nat) : ∀ (fuel : Nat) (l : List α),
    chunksF b fuel (l.map f) = (chunksF b fuel l).map (List.map f) := by
  intro fuel
  induction fuel with
  | zero => intro l; rfl
  | succ fuel ih =>
    intro l
    simp only [chunksF, List.map_eq_nil_iff]
    split
    · rfl
    · rw [← List.map_drop, ih]; simp [List.map_take]

theorem chunks_map {β} (f : α → β) (b : Nat) (l : List α) : chunks b (l.map f) = (chunks b l).map (List.map f) := by
  simp [chunks, chunksF_map]

/-- the levels the builder goes through, top level first -/
inductive Chain (fixed : Bool) (b : Nat) : List (List T) → Prop
  | bottom (secs : List Sec) : (∀ x ∈ secs, SecOK x) → Chain fixed b [(chunks b secs).map T.leaf]
  | up (L : List T) (rest : List (List T)) : Chain fixed b (L :: rest) → Chain fixed b (group fixed b L :: L :: rest)

/-- `write_rtreeindex` after the 48-byte header: levels from the root down; every level's child pointers
    start at the byte position of the next level and advance by a full node per child -/
def body (b : Nat) : Nat → List (List T) → List Nat
  | _, [] => []
  | off, L :: rest =>
    levelBytes L (ptrs (4 + (if rest.length ≤ 1 then 32 else 24) * b) (off + (L.map nodeSize).sum) (L.map kidCount))
      ++ body b (off + (L.map nodeSize).sum) rest

theorem chain_head_bd (fixed : Bool) (b : Nat) (hb16 : b < 256 ^ 2) : ∀ Ls, Chain fixed b Ls →
    ∀ n ∈ Ls.headD [], NodeBd n := by
  intro Ls h
  induction h with
  | bottom secs hs =>
    intro n hn
    simp only [List.headD_cons, List.mem_map] at hn
    obtain ⟨ch, hch, rfl⟩ := hn
    exact ⟨Nat.lt_of_le_of_lt (chunksF_length_le b _ secs ch hch) hb16,
      fun x hx => hs x ((chunks_sublist b secs ch hch).subset hx)⟩
  | up L rest _ ih =>
    intro n hn
    simp only [List.headD_cons, group, List.mem_map] at hn
    obtain ⟨ch, hch, rfl⟩ := hn
    simp only [mkNode, NodeBd, List.length_map, List.mem_map]
    refine ⟨Nat.lt_of_le_of_lt (chunksF_length_le b _ L ch hch) hb16, ?_⟩
    rintro k ⟨c, hc, rfl⟩
    exact spanOf_bd fixed c (ih c (by simpa using (chunks_sublist b L ch hch).subset hc))

abbrev LaidL (l : List Nat) := Laid .little (srcOf l) 24

theorem level_laid_bottom (l : List Nat) : ∀ (chs : List (List Sec)) (pss : List (List Nat)) (off : Nat),
    Has l off (levelBytes (chs.map T.leaf) pss) → pss.length = chs.length →
    (∀ ch ∈ chs, ch.length < 256 ^ 2 ∧ ∀ x ∈ ch, SecOK x) →
    All2 (LaidL l) (positions off ((chs.map T.leaf).map nodeSize)) (chs.map T.leaf) := by
  intro chs
  induction chs with
  | nil => intro pss off _ _ _; simp [positions, All2]
  | cons ch chs ih =>
    intro pss off h hlen hbd
    cases pss with
    | nil => simp at hlen
    | cons ps pss =>
      simp only [List.map_cons, levelBytes] at h
      simp only [List.map_cons, positions, All2]
      have hb := hbd ch (by simp)
      refine ⟨laid_leaf_of_has l off ch ps h.left hb.1 hb.2, ?_⟩
      have hsz : (nodeBytes (T.leaf ch) ps).length = nodeSize (T.leaf ch) := by
        simp only [nodeBytes, nodeSize, List.length_append, le_length,
          length_flatMap_const secBytes 32 secBytes_length, List.length_cons, List.length_nil]
        omega
      exact ih pss _ (h.right.cast (by rw [hsz])) (by simpa using hlen) (fun c hc => hbd c (by simp [hc]))

theorem level_laid_up (fixed : Bool) (l : List Nat) (hl : l.length < 256 ^ 8) :
    ∀ (chs : List (List T)) (pss : List (List Nat)) (off : Nat),
    Has l off (levelBytes (chs.map (mkNode fixed)) pss) → All2 (All2 (LaidL l)) pss chs →
    (∀ ch ∈ chs, ch.length < 256 ^ 2 ∧ ∀ c ∈ ch, NodeBd c) →
    All2 (LaidL l) (positions off ((chs.map (mkNode fixed)).map nodeSize)) (chs.map (mkNode fixed)) := by
  intro chs
  induction chs with
  | nil => intro pss off _ _ _; simp [positions, All2]
  | cons ch chs ih =>
    intro pss off h ha hbd
    cases pss with
    | nil => simp [All2] at ha
    | cons ps pss =>
      simp only [All2] at ha
      simp only [List.map_cons, levelBytes] at h
      simp only [List.map_cons, positions, All2]
      have hb := hbd ch (by simp)
      have hlen : ps.length = (ch.map fun c => (spanOf fixed c, c)).length := by
        rw [all2_length ha.1, List.length_map]
      have hsnd : (ch.map fun c => (spanOf fixed c, c)).map (·.2) = ch := by
        rw [List.map_map]; exact List.map_id' ch
      refine ⟨?_, ?_⟩
      · refine laid_node_of_has l off _ ps h.left (by simpa using hb.1) (by rw [hsnd]; exact ha.1) ?_ hl hlen
        intro k hk
        simp only [List.mem_map] at hk
        obtain ⟨c, hc, rfl⟩ := hk
        exact spanOf_bd fixed c (hb.2 c hc)
      · have hsz : (nodeBytes (mkNode fixed ch) ps).length = nodeSize (mkNode fixed ch) :=
          nodeBytes_length _ _ (by simpa [mkNode, kidCount] using hlen)
        exact ih pss _ (h.right.cast (by rw [hsz])) ha.2 (fun c hc => hbd c (by simp [hc]))

/-- the pointers written in the level above `L` are, group by group, the positions of the nodes of `L` -/
theorem ptrs_laid {α} (fixed : Bool) (b : Nat) (hb : 0 < b) (l : List Nat) (src : List α) (f : List α → T) (isz : Nat)
    (hsz : ∀ ch, nodeSize (f ch) = 4 + isz * ch.length) (next : Nat)
    (ih : All2 (LaidL l) (positions next (((chunks b src).map f).map nodeSize)) ((chunks b src).map f)) :
    All2 (All2 (LaidL l)) (ptrs (4 + isz * b) next ((group fixed b ((chunks b src).map f)).map kidCount))
      (chunks b ((chunks b src).map f)) := by
  have hcounts : (group fixed b ((chunks b src).map f)).map kidCount = (chunks b (chunks b src)).map List.length := by
    simp only [group, List.map_map, chunks_map]
    apply List.map_congr_left
    intro ch _
    simp [mkNode, kidCount]
  apply all2_unflatten
  · rw [ptrs_shape, hcounts, chunks_map, List.map_map]
    apply List.map_congr_left
    intro ch _
    simp
  · rw [hcounts, child_pointers_correct b 4 isz next hb (chunks b src) src rfl, chunks_flatten b hb]
    have : ((chunks b src).map fun n => 4 + isz * n.length) = ((chunks b src).map f).map nodeSize := by
      rw [List.map_map]
      apply List.map_congr_left
      intro ch _
      simp [hsz]
    rw [this]
    exact ih

/-- **Serialiser ⇒ layout.** Wherever the bytes of the levels are placed in a file (`off`), every node of
    the top level of the chain is laid out at its position, with all its descendants. -/
theorem chain_laid (fixed : Bool) (b : Nat) (hb : 0 < b) (hb16 : b < 256 ^ 2) (l : List Nat) (hl : l.length < 256 ^ 8) :
    ∀ Ls, Chain fixed b Ls → ∀ off, Has l off (body b off Ls) →
      All2 (LaidL l) (positions off ((Ls.headD []).map nodeSize)) (Ls.headD []) := by
  intro Ls h
  induction h with
  | bottom secs hs =>
    intro off hh
    simp only [body, List.append_nil] at hh
    simp only [List.headD_cons]
    refine level_laid_bottom l (chunks b secs) _ off hh ?_ ?_
    · have := congrArg List.length (ptrs_shape (4 + (if ([] : List (List T)).length ≤ 1 then 32 else 24) * b)
        (((chunks b secs).map T.leaf).map kidCount) (off + (((chunks b secs).map T.leaf).map nodeSize).sum))
      simpa using this
    · intro ch hch
      exact ⟨Nat.lt_of_le_of_lt (chunksF_length_le b _ secs ch hch) hb16,
        fun x hx => hs x ((chunks_sublist b secs ch hch).subset hx)⟩
  | up L rest hch ih =>
    intro off hh
    simp only [body] at hh
    simp only [List.headD_cons]
    have hshape := ptrs_shape (4 + (if (L :: rest).length ≤ 1 then 32 else 24) * b)
      ((group fixed b L).map kidCount) (off + ((group fixed b L).map nodeSize).sum)
    have hnext := ih _ (hh.right.cast (by rw [levelBytes_length _ _ hshape]))
    simp only [List.headD_cons] at hnext
    have hbdL := chain_head_bd fixed b hb16 _ hch
    simp only [List.headD_cons] at hbdL
    have hbds : ∀ ch ∈ chunks b L, ch.length < 256 ^ 2 ∧ ∀ c ∈ ch, NodeBd c := fun ch hc =>
      ⟨Nat.lt_of_le_of_lt (chunksF_length_le b _ L ch hc) hb16, fun c hcc => hbdL c ((chunks_sublist b L ch hc).subset hcc)⟩
    refine level_laid_up fixed l hl (chunks b L) _ off hh.left ?_ hbds
    cases hch with
    | bottom secs hs =>
      simp only [List.length_cons, List.length_nil, Nat.zero_add, Nat.le_refl, if_true]
      exact ptrs_laid fixed b hb l secs T.leaf 32 (fun ch => by simp [nodeSize]) _ hnext
    | up L' rest' hch' =>
      have : ¬ ((group fixed b L' :: L' :: rest').length ≤ 1) := by simp
      simp only [this, if_false]
      exact ptrs_laid fixed b hb l L' (mkNode fixed) 24 (fun ch => by simp [nodeSize, mkNode]) _ hnext

/-- the builder's loop, keeping every level (top first) -/
def levelsLoop (fixed : Bool) (b : Nat) : Nat → List T → List (List T) → Option (List (List T))
  | 0, _, _ => none
  | fuel + 1, L, rest =>
    if L.length = 1 then some (L :: rest) else levelsLoop fixed b fuel (group fixed b L) (L :: rest)

def levelsOf (fixed : Bool) (b : Nat) (secs : List Sec) : Option (List (List T)) :=
  levelsLoop fixed b (secs.length + 1) ((chunks b secs).map T.leaf) []

theorem levelsLoop_spec (fixed : Bool) (b : Nat) : ∀ (fuel : Nat) (L : List T) (rest Ls : List (List T)),
    levelsLoop fixed b fuel L rest = some Ls → Chain fixed b (L :: rest) →
    Chain fixed b Ls ∧ ∃ root, Ls.headD [] = [root] ∧ buildLoop fixed b fuel L = some root := by
  intro fuel
  induction fuel with
  | zero => intro L rest Ls h _; simp [levelsLoop] at h
  | succ fuel ih =>
    intro L rest Ls h hc
    simp only [levelsLoop] at h
    simp only [buildLoop]
    by_cases h1 : L.length = 1
    · simp only [h1, if_true, Option.some.injEq] at h ⊢
      subst h
      match L, h1 with
      | [t], _ => exact ⟨hc, t, rfl, rfl⟩
    · simp only [h1, if_false] at h ⊢
      exact ih _ _ _ h (Chain.up L rest hc)

/-- the index file image: anything before, the levels of the built tree, anything after -/
theorem written_index_laid (fixed : Bool) (b : Nat) (hb : 0 < b) (hb16 : b < 256 ^ 2) (secs : List Sec)
    (hs : ∀ x ∈ secs, SecOK x) (Ls : List (List T)) (hLs : levelsOf fixed b secs = some Ls)
    (pre post : List Nat) (hlen : (pre ++ body b pre.length Ls ++ post).length < 256 ^ 8) :
    ∃ root, build fixed b secs = some root ∧
      Laid .little (srcOf (pre ++ body b pre.length Ls ++ post)) 24 pre.length root := by
  obtain ⟨hc, root, hroot, hbuild⟩ := levelsLoop_spec fixed b _ _ _ _ hLs (Chain.bottom secs hs)
  refine ⟨root, hbuild, ?_⟩
  have := chain_laid fixed b hb hb16 _ hlen Ls hc pre.length ⟨pre, post, rfl, rfl⟩
  rw [hroot] at this
  simp only [List.map_cons, List.map_nil, positions, All2] at this
  exact this.1

/-- **C05, bytes to answer (repaired span rule).** For every fan-out `2 ≤ b < 65536` and every non-empty list
    of sections sorted by start with 32-bit coordinates, the reader's explicit-stack search over the bytes the
    writer lays down returns exactly the blocks of the sections a linear scan with `overlaps` returns, in order —
    wherever the index sits in the file and whatever surrounds it. -/
theorem written_index_search (b : Nat) (hb : 2 ≤ b) (hb16 : b < 256 ^ 2) (secs : List Sec) (hne : secs ≠ [])
    (hsorted : LoSorted secs) (hs : ∀ x ∈ secs, SecOK x) (Ls : List (List T)) (hLs : levelsOf true b secs = some Ls)
    (pre post : List Nat) (hlen : (pre ++ body b pre.length Ls ++ post).length < 256 ^ 8) (qc qs qe : Nat) :
    ∃ fuel, searchCir .little (srcOf (pre ++ body b pre.length Ls ++ post)) 24 qc qs qe fuel [pre.length] [] =
      .ok (blocksOf (secs.filter fun x => ov ⟨qc, qs⟩ ⟨qc, qe⟩ x.lo x.hi)) := by
  obtain ⟨root, hbuild, hlaid⟩ := written_index_laid true b (by omega) hb16 secs hs Ls hLs pre post hlen
  obtain ⟨t, ht, hsearch⟩ := build_search b hb secs hne hsorted
  rw [hbuild] at ht
  cases ht
  exact ⟨_, by rw [searchCir_eq_search _ _ _ _ _ _ _ _ hlaid, hsearch]⟩

/-- the builder always produces its levels (so the theorem above is not vacuous) -/
theorem levelsOf_some (b : Nat) (hb : 2 ≤ b) (secs : List Sec) (hne : secs ≠ []) :
    ∃ Ls, levelsOf true b secs = some Ls := by
  have key : ∀ (fuel : Nat) (L : List T) (rest : List (List T)), L ≠ [] → L.length ≤ fuel →
      ∃ Ls, levelsLoop true b fuel L rest = some Ls := by
    intro fuel
    induction fuel with
    | zero => intro L rest hL hlen; have : 0 < L.length := List.length_pos_iff.mpr hL; omega
    | succ fuel ih =>
      intro L rest hL hlen
      simp only [levelsLoop]
      by_cases h1 : L.length = 1
      · simp [h1]
      · simp only [h1, if_false]
        have hpos : 0 < L.length := List.length_pos_iff.mpr hL
        have hbound := chunks_length_bound b hb L
        have hgl : (group true b L).length = (chunks b L).length := by simp [group]
        have hgne : group true b L ≠ [] := by
          have := chunks_length_pos b (by omega) L hL
          intro h; rw [h] at hgl; simp at hgl; omega
        exact ih _ _ hgne (by omega)
  have hne0 : (chunks b secs).map T.leaf ≠ [] := by
    have := chunks_length_pos b (by omega) secs hne
    intro h
    have h' := congrArg List.length h
    simp only [List.length_map, List.length_nil] at h'; omega
  have hbound := chunks_length_bound b hb secs
  exact key _ _ _ hne0 (by simp; omega)

end BBI
