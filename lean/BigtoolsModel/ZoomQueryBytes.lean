import BigtoolsModel.CirSer
/-! Probe (C07/C08, zoom range query at byte level): in ANY byte image that contains the encoded zoom blocks
    (32-byte records) at the offsets and sizes the level's index records and that index as the writer lays it
    down, the reader model's zoom query returns exactly the stored records of the chromosome whose span meets
    the query (inclusive comparison, as `get_zoom_block_values` filters), each once, in stored order. -/
namespace BBI
open RT CD

structure ZRec where
  chrom : Nat
  start : Nat
  stop : Nat
  valid : Nat
  mn : Nat        -- f32 bit patterns
  mx : Nat
  sum : Nat
  sumsq : Nat
deriving Repr, DecidableEq

def encZ (r : ZRec) : List Nat :=
  le 4 r.chrom ++ le 4 r.start ++ le 4 r.stop ++ le 4 r.valid ++ le 4 r.mn ++ le 4 r.mx ++ le 4 r.sum ++ le 4 r.sumsq

theorem encZ_length (r : ZRec) : (encZ r).length = 32 := by simp [encZ, le_length]

def ZRec.ok (r : ZRec) : Prop :=
  r.chrom < 256 ^ 4 ∧ r.start < 256 ^ 4 ∧ r.stop < 256 ^ 4 ∧ r.valid < 256 ^ 4 ∧ r.mn < 256 ^ 4 ∧ r.mx < 256 ^ 4 ∧
    r.sum < 256 ^ 4 ∧ r.sumsq < 256 ^ 4

def readZ (l : List Nat) (o : Nat) : ZRec :=
  let s := srcOf l
  ⟨u32 .little s o, u32 .little s (o + 4), u32 .little s (o + 8), u32 .little s (o + 12), u32 .little s (o + 16),
   u32 .little s (o + 20), u32 .little s (o + 24), u32 .little s (o + 28)⟩

def zKeep (c qs qe : Nat) (r : ZRec) : Bool := decide (r.chrom = c) && decide (r.stop ≥ qs) && decide (r.start ≤ qe)

inductive ZErr where | io | lenAssert deriving Repr, DecidableEq

/-- `get_zoom_block_values` on an uncompressed block -/
def zoomBlock (l : List Nat) (b : Block) (c qs qe : Nat) : Except ZErr (List ZRec) :=
  if b.offset + b.size > l.length then .error .io
  else if b.size % 32 ≠ 0 then .error .lenAssert
  else .ok ((List.range (b.size / 32)).filterMap fun i =>
    let r := readZ l (b.offset + i * 32)
    if zKeep c qs qe r then some r else none)

def goZoomBlocks (l : List Nat) (c qs qe : Nat) : List Block → Except ZErr (List ZRec)
  | [] => .ok []
  | b :: bs =>
    match zoomBlock l b c qs qe with
    | .error e => .error e
    | .ok a =>
      match goZoomBlocks l c qs qe bs with
      | .error e => .error e
      | .ok r => .ok (a ++ r)

structure ZSec where
  chrom : Nat
  lob : Nat
  hib : Nat
  recs : List ZRec
  off : Nat

def ZSec.bytes (d : ZSec) : List Nat := d.recs.flatMap encZ
def ZSec.sec (d : ZSec) : Sec := ⟨⟨d.chrom, d.lob⟩, ⟨d.chrom, d.hib⟩, d.off, d.bytes.length⟩

structure ZSecOK (d : ZSec) : Prop where
  sec : SecOK d.sec
  recs : ∀ r ∈ d.recs, r.ok
  cover : ∀ r ∈ d.recs, r.chrom = d.chrom ∧ d.lob ≤ r.start ∧ r.stop ≤ d.hib

theorem readZ_enc (l : List Nat) (o : Nat) (r : ZRec) (h : Has l o (encZ r)) (hr : r.ok) : readZ l o = r := by
  obtain ⟨a1, a2, a3, a4, a5, a6, a7, a8⟩ := hr
  unfold encZ at h
  have h8 := h.right
  have h7 := h.left.right
  have h6 := h.left.left.right
  have h5 := h.left.left.left.right
  have h4 := h.left.left.left.left.right
  have h3 := h.left.left.left.left.left.right
  have h2 := h.left.left.left.left.left.left.right
  have h1 := h.left.left.left.left.left.left.left
  simp only [List.length_append, le_length] at h1 h2 h3 h4 h5 h6 h7 h8
  simp only [readZ, u32]
  rw [uN_le l 4 _ _ h1 a1, uN_le l 4 _ _ h2 a2, uN_le l 4 _ _ (h3.cast (by omega)) a3,
    uN_le l 4 _ _ (h4.cast (by omega)) a4, uN_le l 4 _ _ (h5.cast (by omega)) a5,
    uN_le l 4 _ _ (h6.cast (by omega)) a6, uN_le l 4 _ _ (h7.cast (by omega)) a7,
    uN_le l 4 _ _ (h8.cast (by omega)) a8]

theorem filterMap_if {α} (p : α → Bool) : ∀ (l : List α),
    l.filterMap (fun r => if p r then some r else none) = l.filter p
  | [] => rfl
  | r :: rs => by
    simp only [List.filterMap_cons, List.filter_cons]
    by_cases hk : p r = true
    · simp only [hk, if_true, filterMap_if p rs]
    · simp only [hk, Bool.false_eq_true, if_false, filterMap_if p rs]

theorem zoomBlock_spec (l : List Nat) (d : ZSec) (hd : ZSecOK d) (h : Has l d.off d.bytes) (c qs qe : Nat) :
    zoomBlock l ⟨d.off, d.bytes.length⟩ c qs qe = .ok (d.recs.filter (zKeep c qs qe)) := by
  have hlen : d.bytes.length = d.recs.length * 32 := length_flatMap_const encZ 32 encZ_length d.recs
  have hsz := h.size
  have hio : ¬ (d.off + d.recs.length * 32 > l.length) := by omega
  simp only [zoomBlock, hlen, hio, if_false,
    Nat.mul_mod_left, ne_eq, not_true_eq_false, Nat.mul_div_cancel _ (show 0 < 32 by omega)]
  congr 1
  rw [range_filterMap_eq d.recs _ (fun r => if zKeep c qs qe r then some r else none)]
  · exact filterMap_if (zKeep c qs qe) d.recs
  · intro i hi
    have := has_flatMap_items encZ 32 encZ_length l d.recs d.off h i hi
    simp only [readZ_enc l _ _ this (hd.recs _ (List.getElem_mem hi))]

theorem goZoomBlocks_spec (l : List Nat) (c qs qe : Nat) : ∀ (ds : List ZSec), (∀ d ∈ ds, ZSecOK d) →
    (∀ d ∈ ds, Has l d.off d.bytes) →
    goZoomBlocks l c qs qe (ds.map fun d => ⟨d.off, d.bytes.length⟩) =
      .ok (ds.flatMap fun d => d.recs.filter (zKeep c qs qe)) := by
  intro ds
  induction ds with
  | nil => intro _ _; rfl
  | cons d ds ih =>
    intro hok hhas
    simp only [List.map_cons, goZoomBlocks, List.flatMap_cons]
    rw [ih (fun x hx => hok x (by simp [hx])) (fun x hx => hhas x (by simp [hx])),
      zoomBlock_spec l d (hok d (by simp)) (hhas d (by simp))]

theorem zoom_pruned_empty (d : ZSec) (hd : ZSecOK d) (c qs qe : Nat)
    (hov : ov ⟨c, qs⟩ ⟨c, qe⟩ d.sec.lo d.sec.hi = false) : d.recs.filter (zKeep c qs qe) = [] := by
  rw [List.filter_eq_nil_iff]
  intro r hr
  obtain ⟨h0, h1, h2⟩ := hd.cover r hr
  simp only [zKeep, Bool.and_eq_true, decide_eq_true_eq]
  intro ⟨⟨hc, h3⟩, h4⟩
  have : ov ⟨c, qs⟩ ⟨c, qe⟩ d.sec.lo d.sec.hi = true := by
    simp only [ZSec.sec, ← h0, hc, ov, Bool.and_eq_true, decide_eq_true_eq]
    exact ⟨Or.inr ⟨rfl, show qs ≤ d.hib by omega⟩, Or.inr ⟨rfl, show d.lob ≤ qe by omega⟩⟩
  rw [this] at hov; cases hov

theorem zoom_via_index_eq_all (c qs qe : Nat) : ∀ (ds : List ZSec), (∀ d ∈ ds, ZSecOK d) →
    ((ds.filter fun d => ov ⟨c, qs⟩ ⟨c, qe⟩ d.sec.lo d.sec.hi).flatMap fun d => d.recs.filter (zKeep c qs qe)) =
      (ds.flatMap (·.recs)).filter (zKeep c qs qe) := by
  intro ds
  induction ds with
  | nil => intro _; rfl
  | cons d ds ih =>
    intro hok
    have ih' := ih (fun x hx => hok x (by simp [hx]))
    simp only [List.filter_cons, List.flatMap_cons, List.filter_append]
    by_cases hov : ov ⟨c, qs⟩ ⟨c, qe⟩ d.sec.lo d.sec.hi = true
    · simp only [hov, if_true, List.flatMap_cons, ih']
    · have hov' : ov ⟨c, qs⟩ ⟨c, qe⟩ d.sec.lo d.sec.hi = false := by simpa using hov
      simp only [hov', Bool.false_eq_true, if_false, ih', zoom_pruned_empty d (hok d (by simp)) c qs qe hov',
        List.nil_append]

/-- **Zoom range query over bytes (repaired span rule in the index).** -/
theorem zoom_query_bytes (b : Nat) (hb : 2 ≤ b) (hb16 : b < 256 ^ 2) (ds : List ZSec) (hne : ds ≠ [])
    (hsorted : LoSorted (ds.map ZSec.sec)) (hok : ∀ d ∈ ds, ZSecOK d)
    (l : List Nat) (hl : l.length < 256 ^ 8) (hsecs : ∀ d ∈ ds, Has l d.off d.bytes)
    (Ls : List (List T)) (hLs : levelsOf true b (ds.map ZSec.sec) = some Ls) (idx : Nat)
    (hidx : Has l idx (body b idx Ls)) (c qs qe : Nat) :
    ∃ fuel blocks, searchCir .little (srcOf l) 24 c qs qe fuel [idx] [] = .ok blocks ∧
      goZoomBlocks l c qs qe blocks = .ok ((ds.flatMap (·.recs)).filter (zKeep c qs qe)) := by
  obtain ⟨pre, post, hl', hpre⟩ := hidx
  subst hpre
  have hne' : ds.map ZSec.sec ≠ [] := by simpa using hne
  have hsok : ∀ x ∈ ds.map ZSec.sec, SecOK x := by
    intro x hx
    obtain ⟨d, hd, rfl⟩ := List.mem_map.mp hx
    exact (hok d hd).sec
  obtain ⟨fuel, hsearch⟩ := written_index_search b hb hb16 (ds.map ZSec.sec) hne' hsorted hsok Ls hLs pre post
    (by rw [← hl']; exact hl) c qs qe
  rw [← hl'] at hsearch
  refine ⟨fuel, _, hsearch, ?_⟩
  have hblocks : blocksOf ((ds.map ZSec.sec).filter fun x => ov ⟨c, qs⟩ ⟨c, qe⟩ x.lo x.hi) =
      (ds.filter fun d => ov ⟨c, qs⟩ ⟨c, qe⟩ d.sec.lo d.sec.hi).map fun d => (⟨d.off, d.bytes.length⟩ : Block) := by
    simp only [blocksOf, List.filter_map, List.map_map]
    rfl
  rw [hblocks, goZoomBlocks_spec l c qs qe _ (fun d hd => hok d (List.mem_filter.mp hd).1)
    (fun d hd => hsecs d (List.mem_filter.mp hd).1), zoom_via_index_eq_all c qs qe ds hok]

end BBI
