import BigtoolsModel.Tiler2
import BigtoolsModel.Sweep
import BigtoolsModel.FView
import BigtoolsModel.IndexerFix
import BigtoolsModel.Chunker
import BigtoolsModel.SummaryFold
import BigtoolsModel.BedSummary
import BigtoolsModel.Stats2
import BigtoolsModel.ZoomLevels
import BigtoolsModel.AtomsNorm
namespace Sweep

/-- `bump` assembled from the source's split test (sel = false: summary sweep, true: zoom sweep) -/
def bumpGen (sel : Bool) (itemEnd : Nat) : List Seg → List Seg
  | [] => []
  | o :: rest =>
    if (if sel then Gen.bzs_split itemEnd o.e else Gen.bs_split itemEnd o.e) then
      { o with e := itemEnd, d := o.d + 1 } :: { s := itemEnd, e := o.e, d := o.d } :: rest
    else
      { o with d := o.d + 1 } :: bumpGen sel itemEnd rest

/-- the tail rule assembled from the source's test -/
def tailGen (sel : Bool) (itemStart itemEnd : Nat) (l : List Seg) : List Seg :=
  match l.getLast? with
  | some o => if (if sel then Gen.bzs_tail o.e itemEnd else Gen.bs_tail o.e itemEnd) then l ++ [⟨o.e, itemEnd, 1⟩] else l
  | none => l ++ [⟨itemStart, itemEnd, 1⟩]

/-- the flush loop assembled from the source's two tests -/
def flushGen (sel : Bool) (nextStart : Nat) : Nat → List Seg → List Seg × List Seg
  | 0, l => ([], l)
  | fuel + 1, l =>
    match l with
    | [] => ([], [])
    | f :: rest =>
      if (if sel then Gen.bzs_more f.s nextStart else Gen.bs_more f.s nextStart) then
        if (if sel then Gen.bzs_whole f.e nextStart else Gen.bs_whole f.e nextStart) then
          let (em, rem) := flushGen sel nextStart fuel rest
          (f :: em, rem)
        else
          ([{ f with e := nextStart }], { f with s := nextStart } :: rest)
      else ([], l)

theorem gen_sweep_atoms (a b : Nat) :
    Gen.bs_split a b = decide (a < b) ∧ Gen.bzs_split a b = decide (a < b) ∧
    Gen.bs_tail a b = decide (a < b) ∧ Gen.bzs_tail a b = decide (a < b) ∧
    Gen.bs_more a b = decide (a < b) ∧ Gen.bzs_more a b = decide (a < b) ∧
    Gen.bs_whole a b = decide (a ≤ b) ∧ Gen.bzs_whole a b = decide (a ≤ b) := by
  delta Gen.bs_split Gen.bzs_split Gen.bs_tail Gen.bzs_tail Gen.bs_more Gen.bzs_more Gen.bs_whole Gen.bzs_whole
  refine ⟨?_, ?_, ?_, ?_, ?_, ?_, ?_, ?_⟩ <;>
    first | rfl | grind | (rw [Bool.eq_iff_iff]; atoms_norm; omega)

/-- **Both sweeps' increment-and-split step** is the model's `bump`. -/
theorem gen_bump (sel : Bool) (itemEnd : Nat) (l : List Seg) : bumpGen sel itemEnd l = bump itemEnd l := by
  induction l with
  | nil => rfl
  | cons o rest ih =>
    obtain ⟨h1, h2, _⟩ := gen_sweep_atoms itemEnd o.e
    cases sel <;> simp [bumpGen, bump, h1, h2, ih]

/-- **Both sweeps' tail rule** is the model's `tailZoom` (after the repair of D3 the summary sweep uses the zoom sweep's rule). -/
theorem gen_tail (sel : Bool) (s e : Nat) (l : List Seg) : tailGen sel s e l = tailZoom s e l := by
  unfold tailGen tailZoom
  cases hl : l.getLast? with
  | none => rfl
  | some o =>
    obtain ⟨_, _, h3, h4, _⟩ := gen_sweep_atoms o.e e
    cases sel <;> simp [h3, h4]

/-- **Both sweeps' flush loop** is the model's `flush`. -/
theorem gen_flush (sel : Bool) (nextStart : Nat) : ∀ (fuel : Nat) (l : List Seg), flushGen sel nextStart fuel l = flush nextStart fuel l := by
  intro fuel
  induction fuel with
  | zero => intro l; rfl
  | succ n ih =>
    intro l
    cases l with
    | nil => rfl
    | cons f rest =>
      obtain ⟨_, _, _, _, h5, h6, _, _⟩ := gen_sweep_atoms f.s nextStart
      obtain ⟨_, _, _, _, _, _, h7, h8⟩ := gen_sweep_atoms f.e nextStart
      cases sel <;> simp [flushGen, flush, h5, h6, h7, h8, ih]

/-- the summary sweep's bookkeeping of a flushed piece: the length of a partly flushed piece, and the test that keeps
    zero-length pieces out of the statistics (D16) -/
theorem gen_summary_piece (nextStart s len : Nat) :
    Gen.bs_part_len nextStart s = nextStart - s ∧ Gen.bs_skip len = decide (len = 0) := by
  delta Gen.bs_part_len Gen.bs_skip
  constructor <;> first | rfl | grind | (rw [Bool.eq_iff_iff]; atoms_norm; omega)

/-- **Where the final drain stops.** After the last entry of a chromosome both sweeps flush what is still open up to a bound that no
    32-bit coordinate exceeds (`u32::MAX`, regenerated from the two `unwrap_or` defaults) — not up to the declared chromosome length:
    an entry may legally reach past it (the writer refuses only a START at or beyond the length) and its bases count. -/
theorem gen_final_bound (chromLength e : Nat) (he : e < 2 ^ 32) :
    Gen.bs_final_bound chromLength = 4294967295 ∧ Gen.bzs_final_bound chromLength = 4294967295 ∧
    e ≤ Gen.bs_final_bound chromLength ∧ e ≤ Gen.bzs_final_bound chromLength := by
  delta Gen.bs_final_bound Gen.bzs_final_bound
  refine ⟨?_, ?_, ?_, ?_⟩ <;> first | rfl | omega | (atoms_norm; omega) | grind

end Sweep
