import BigtoolsModel.PyBinsProof
/-! Probe (C20): the exact-bin routine `to_entry_array_bins` (bigBed entries; repaired: depth cells start
    uncovered, entries that only touch the range are skipped) for integral bin widths. Live bins carry a per-base
    depth vector; entries may overlap, so bins can stay live across entries. Theorem: for entries sorted by
    start (clipped to the range, made relative), no write is out of bounds and every bin reports `flush` of the
    per-base depth of its span — the number of entries covering each base. -/
namespace PEB
open PBP (Res)

inductive Summary where | mean | min | max deriving Repr, DecidableEq

structure Ent where
  s : Nat
  e : Nat
deriving Repr, DecidableEq

/-- one bin's per-base depth (0 = uncovered) after adding entry `x` -/
def upd (w : Nat) (x : Ent) (k : Nat) (c : List Nat) : List Nat :=
  c.mapIdx fun i d => if x.s ≤ k * w + i ∧ k * w + i < x.e then d + 1 else d

def flush (sm : Summary) (c : List Nat) : Res :=
  match c.filter (· > 0) with
  | [] => .missing
  | d :: ds =>
    match sm with
    | .mean => .val ((d :: ds).sum : Nat) (ds.length + 1)
    | .min => .val (ds.foldl Nat.min d : Nat) 1
    | .max => .val (ds.foldl Nat.max d : Nat) 1

structure St where
  first : Nat
  cells : List (List Nat)
  out : List Res

def popN (sm : Summary) : Nat → St → Option St
  | 0, st => some st
  | n + 1, st =>
    match st.cells with
    | [] => some st
    | c :: cs =>
      if st.first < st.out.length then popN sm n ⟨st.first + 1, cs, st.out.set st.first (flush sm c)⟩
      else none

/-- the accumulation loop with its `break` at the first bin starting at or after the entry's end -/
def accumGo (w : Nat) (x : Ent) : Nat → List (List Nat) → List (List Nat)
  | _, [] => []
  | k, c :: cs => if x.e ≤ k * w then c :: cs else upd w x k c :: accumGo w x (k + 1) cs

def step (sm : Summary) (w : Nat) (st : St) (x : Ent) : Option St :=
  if x.e ≤ x.s then some st else            -- repaired: nothing of the entry lies inside the range
  let bs := x.s / w
  let be := (x.e - 1) / w
  match popN sm (bs - st.first) st with
  | none => none
  | some st1 =>
    let fc : Nat × List (List Nat) :=
      if st1.cells = [] then (bs, List.replicate (max 1 (be + 1 - bs)) (List.replicate w 0))
      else (st1.first, st1.cells ++ List.replicate (be + 1 - (st1.first + st1.cells.length)) (List.replicate w 0))
    some ⟨fc.1, accumGo w x fc.1 fc.2, st1.out⟩

def run (sm : Summary) (w nb : Nat) (ents : List Ent) : Option (List Res) :=
  let rec go : List Ent → St → Option St
    | [], st => some st
    | x :: xs, st => match step sm w st x with
      | none => none
      | some st' => go xs st'
  match go ents ⟨0, [], List.replicate nb .missing⟩ with
  | none => none
  | some st => (popN sm st.cells.length st).map (·.out)

/-! ### specification: per-base depth of a bin -/

def depthVec (w : Nat) (P : List Ent) (k : Nat) : List Nat :=
  P.foldl (fun c x => upd w x k c) (List.replicate w 0)

theorem depthVec_snoc (w : Nat) (P : List Ent) (x : Ent) (k : Nat) :
    depthVec w (P ++ [x]) k = upd w x k (depthVec w P k) := by
  simp [depthVec, List.foldl_append]

theorem upd_length (w : Nat) (x : Ent) (k : Nat) (c : List Nat) : (upd w x k c).length = c.length := by
  simp [upd]

theorem foldl_upd_length (w k : Nat) : ∀ (P : List Ent) (c : List Nat),
    (P.foldl (fun c x => upd w x k c) c).length = c.length := by
  intro P
  induction P with
  | nil => intro c; rfl
  | cons x xs ih => intro c; simp only [List.foldl_cons, ih, upd_length]

theorem depthVec_length (w : Nat) (P : List Ent) (k : Nat) : (depthVec w P k).length = w := by
  simp [depthVec, foldl_upd_length]

/-- an entry that does not reach a bin leaves it alone -/
theorem upd_id (w : Nat) (x : Ent) (k : Nat) (c : List Nat) (hc : c.length ≤ w)
    (h : x.e ≤ k * w ∨ (k + 1) * w ≤ x.s ∨ x.e ≤ x.s) : upd w x k c = c := by
  unfold upd
  apply List.ext_getElem
  · simp
  · intro i h1 h2
    simp only [List.getElem_mapIdx]
    have hi : i < w := by
      have : i < c.length := by simpa using h1
      omega
    have hkw : (k + 1) * w = k * w + w := Nat.succ_mul k w
    rw [if_neg]
    omega

theorem foldl_upd_get (w k : Nat) : ∀ (P : List Ent) (c : List Nat) (i : Nat) (hi : i < c.length),
    (P.foldl (fun c x => upd w x k c) c)[i]'(by rw [foldl_upd_length]; exact hi) =
      c[i] + (P.filter fun x => decide (x.s ≤ k * w + i ∧ k * w + i < x.e)).length := by
  intro P
  induction P with
  | nil => intro c i hi; simp
  | cons x xs ih =>
    intro c i hi
    simp only [List.foldl_cons]
    rw [ih (upd w x k c) i (by rw [upd_length]; exact hi)]
    simp only [upd, List.getElem_mapIdx, List.filter_cons]
    by_cases hc : x.s ≤ k * w + i ∧ k * w + i < x.e
    · simp only [hc, and_self, if_true, decide_true, List.length_cons]; omega
    · simp only [hc, if_false, decide_false, Bool.false_eq_true]

/-- the value at every base of the spec vector: the number of entries covering it -/
theorem depthVec_get (w : Nat) (P : List Ent) (k i : Nat) (hi : i < w) :
    (depthVec w P k)[i]'(by rw [depthVec_length]; exact hi) =
      (P.filter fun x => decide (x.s ≤ k * w + i ∧ k * w + i < x.e)).length := by
  unfold depthVec
  rw [foldl_upd_get w k P (List.replicate w 0) i (by simpa using hi)]
  simp

/-! ### the pieces of one step -/

theorem popN_spec (sm : Summary) : ∀ (n : Nat) (st : St), st.first + st.cells.length ≤ st.out.length →
    ∃ out', popN sm n st = some ⟨st.first + min n st.cells.length, st.cells.drop (min n st.cells.length), out'⟩ ∧
      out'.length = st.out.length ∧
      (∀ k, (k < st.first ∨ st.first + min n st.cells.length ≤ k) → out'[k]? = st.out[k]?) ∧
      (∀ i (hi : i < st.cells.length), i < min n st.cells.length →
        out'[st.first + i]? = some (flush sm (st.cells[i]))) := by
  intro n
  induction n with
  | zero =>
    intro st _
    exact ⟨st.out, by simp [popN], rfl, fun _ _ => rfl, fun i _ h => by simp at h⟩
  | succ n ih =>
    intro st hb
    obtain ⟨first, cells, out⟩ := st
    cases cells with
    | nil => exact ⟨out, by simp [popN], rfl, fun _ _ => rfl, fun i h _ => by simp at h⟩
    | cons c cs =>
      simp only [List.length_cons] at hb
      have hlt : first < out.length := by omega
      simp only [popN, hlt, if_true]
      obtain ⟨out', h1, h2, h3, h4⟩ := ih ⟨first + 1, cs, out.set first (flush sm c)⟩
        (by simp only [List.length_set]; omega)
      dsimp only at h1 h2 h3 h4
      simp only [List.length_set] at h2
      have hmin : min (n + 1) (c :: cs).length = min n cs.length + 1 := by simp only [List.length_cons]; omega
      refine ⟨out', ?_, h2, ?_, ?_⟩
      · rw [h1]
        simp only [hmin, List.drop_succ_cons]
        rw [show first + 1 + min n cs.length = first + (min n cs.length + 1) by omega]
      · intro k hk
        rw [hmin] at hk
        rw [h3 k (by omega)]
        simp only [List.getElem?_set]
        have : first ≠ k := by omega
        simp [this]
      · intro i hil hi
        cases i with
        | zero =>
          simp only [Nat.add_zero, List.getElem_cons_zero]
          rw [h3 first (by left; omega)]
          simp [hlt]
        | succ i =>
          have hi' : i < min n cs.length := by omega
          have := h4 i (by simpa using hil) hi'
          simp only [List.getElem_cons_succ]
          rw [← this]
          congr 1; omega

/-- the loop with its `break` is the per-bin update applied to every live bin (bins at or beyond the entry's
    end are left alone by the update anyway) -/
theorem accumGo_all (w : Nat) (x : Ent) : ∀ (cells : List (List Nat)) (k : Nat), (∀ c ∈ cells, c.length ≤ w) →
    accumGo w x k cells = cells.mapIdx fun i c => upd w x (k + i) c := by
  intro cells
  induction cells with
  | nil => intro k _; rfl
  | cons c cs ih =>
    intro k h
    simp only [accumGo, List.mapIdx_cons, Nat.add_zero]
    have hshift : (cs.mapIdx fun i c => upd w x (k + (i + 1)) c) = cs.mapIdx fun i c => upd w x (k + 1 + i) c := by
      apply List.ext_getElem
      · simp
      · intro i h1 h2
        simp only [List.getElem_mapIdx]
        rw [show k + (i + 1) = k + 1 + i by omega]
    by_cases hb : x.e ≤ k * w
    · rw [if_pos hb]
      congr 1
      · exact (upd_id w x k c (h c (by simp)) (Or.inl hb)).symm
      · apply List.ext_getElem
        · simp
        · intro i h1 h2
          simp only [List.getElem_mapIdx]
          have : k * w ≤ (k + (i + 1)) * w := Nat.mul_le_mul_right w (by omega)
          exact (upd_id w x _ _ (h _ (by simp)) (Or.inl (by omega))).symm
    · rw [if_neg hb, ih (k + 1) (fun c hc => h c (by simp [hc])), hshift]

/-! ### the invariant -/

theorem depthVec_untouched (w : Nat) (k : Nat) : ∀ (P : List Ent),
    (∀ x ∈ P, x.e ≤ k * w ∨ (k + 1) * w ≤ x.s ∨ x.e ≤ x.s) → depthVec w P k = List.replicate w 0 := by
  intro P h
  unfold depthVec
  have key : ∀ (P : List Ent) (c : List Nat), c.length ≤ w →
      (∀ x ∈ P, x.e ≤ k * w ∨ (k + 1) * w ≤ x.s ∨ x.e ≤ x.s) → P.foldl (fun c x => upd w x k c) c = c := by
    intro P
    induction P with
    | nil => intro c _ _; rfl
    | cons x xs ih =>
      intro c hc hP
      simp only [List.foldl_cons]
      rw [upd_id w x k c hc (hP x (by simp))]
      exact ih c hc (fun y hy => hP y (by simp [hy]))
  exact key P _ (by simp) h

theorem flush_zeros (sm : Summary) (w : Nat) : flush sm (List.replicate w 0) = .missing := by
  have : (List.replicate w 0).filter (· > 0) = [] := by
    rw [List.filter_eq_nil_iff]; intro a ha; simp [List.eq_of_mem_replicate ha]
  simp [flush, this]

structure Inv (sm : Summary) (w nb : Nat) (P : List Ent) (lim : Nat) (st : St) : Prop where
  hout : st.out.length = nb
  hB : st.first + st.cells.length ≤ nb
  hcells : ∀ i (h : i < st.cells.length), st.cells[i] = depthVec w P (st.first + i)
  hdone : ∀ k, k < st.first → k < nb → st.out[k]? = some (flush sm (depthVec w P k))
  hrest : ∀ k, st.first ≤ k → k < nb → st.out[k]? = some .missing
  hbeyond : ∀ x ∈ P, x.s < x.e → x.e ≤ (st.first + st.cells.length) * w
  hfirst : st.first * w ≤ lim
  hlim : ∀ x ∈ P, x.s ≤ lim

theorem inv_init (sm : Summary) (w nb : Nat) : Inv sm w nb [] 0 ⟨0, [], List.replicate nb .missing⟩ where
  hout := by simp
  hB := by simp
  hcells := by intro i h; simp at h
  hdone := by intro k h; exact absurd h (Nat.not_lt_zero k)
  hrest := by intro k _ hk; simp [hk]
  hbeyond := by intro x hx; simp at hx
  hfirst := by simp
  hlim := by intro x hx; simp at hx

/-- bins strictly before the entry's first bin are not touched by it (nor by anything starting later) -/
theorem depth_before (w : Nat) (hw : 0 < w) (P : List Ent) (x : Ent) (k : Nat) (hk : k < x.s / w) :
    depthVec w (P ++ [x]) k = depthVec w P k := by
  rw [depthVec_snoc]
  apply upd_id w x k _ (by rw [depthVec_length]; exact Nat.le_refl _)
  right; left
  have : k + 1 ≤ x.s / w := hk
  rwa [Nat.le_div_iff_mul_le hw] at this

theorem finish_step (sm : Summary) (w nb : Nat) (hw : 0 < w) (P : List Ent) (x : Ent) (hx : x.s < x.e)
    (cells2 : List (List Nat)) (out' : List Res)
    (c2 : ∀ i (h : i < cells2.length), cells2[i] = depthVec w P (x.s / w + i))
    (lenA : x.s / w + cells2.length ≤ nb)
    (lenB : (x.e - 1) / w + 1 ≤ x.s / w + cells2.length)
    (hbey : ∀ y ∈ P, y.s < y.e → y.e ≤ (x.s / w + cells2.length) * w)
    (hlimP : ∀ y ∈ P, y.s ≤ x.s)
    (o1 : out'.length = nb)
    (o2 : ∀ k, k < x.s / w → k < nb → out'[k]? = some (flush sm (depthVec w P k)))
    (o3 : ∀ k, x.s / w ≤ k → k < nb → out'[k]? = some .missing) :
    Inv sm w nb (P ++ [x]) x.s ⟨x.s / w, accumGo w x (x.s / w) cells2, out'⟩ := by
  have hlenw : ∀ c ∈ cells2, c.length ≤ w := by
    intro c hc
    obtain ⟨i, hi, rfl⟩ := List.getElem_of_mem hc
    rw [c2 i hi, depthVec_length]; exact Nat.le_refl _
  have hall := accumGo_all w x cells2 (x.s / w) hlenw
  have hlen : (accumGo w x (x.s / w) cells2).length = cells2.length := by rw [hall]; simp
  refine ⟨o1, ?_, ?_, ?_, o3, ?_, ?_, ?_⟩
  · show x.s / w + (accumGo w x (x.s / w) cells2).length ≤ nb
    rw [hlen]; exact lenA
  · intro i h
    have hi : i < cells2.length := by rw [← hlen]; exact h
    show (accumGo w x (x.s / w) cells2)[i] = _
    simp only [hall, List.getElem_mapIdx]
    rw [depthVec_snoc, c2 i hi]
  · intro k hk hn
    show out'[k]? = _
    rw [o2 k hk hn, depth_before w hw P x k hk]
  · intro y hy hyy
    show y.e ≤ (x.s / w + (accumGo w x (x.s / w) cells2).length) * w
    rw [hlen]
    simp only [List.mem_append, List.mem_singleton] at hy
    rcases hy with hy | rfl
    · exact hbey y hy hyy
    · have h1 : (y.e - 1) / w * w ≤ y.e - 1 := Nat.div_mul_le_self _ _
      have h2 := Nat.lt_succ_iff.mpr (Nat.le_refl ((y.e - 1) / w))
      have h3 : y.e - 1 < ((y.e - 1) / w + 1) * w := by
        rw [← Nat.div_lt_iff_lt_mul hw]; exact h2
      have h4 := Nat.mul_le_mul_right w lenB
      omega
  · show x.s / w * w ≤ x.s
    exact Nat.div_mul_le_self _ _
  · intro y hy
    simp only [List.mem_append, List.mem_singleton] at hy
    rcases hy with hy | rfl
    · exact hlimP y hy
    · exact Nat.le_refl _

theorem depth_skip (w : Nat) (P : List Ent) (x : Ent) (hx : x.e ≤ x.s) (k : Nat) :
    depthVec w (P ++ [x]) k = depthVec w P k := by
  rw [depthVec_snoc]
  exact upd_id w x k _ (by rw [depthVec_length]; exact Nat.le_refl _) (Or.inr (Or.inr hx))

theorem step_inv (sm : Summary) (w nb : Nat) (hw : 0 < w) (P : List Ent) (lim : Nat) (st : St) (x : Ent)
    (hinv : Inv sm w nb P lim st) (h1 : lim ≤ x.s) (h3 : x.e ≤ nb * w) :
    ∃ st', step sm w st x = some st' ∧ Inv sm w nb (P ++ [x]) x.s st' := by
  by_cases hskip : x.e ≤ x.s
  · refine ⟨st, by simp [step, hskip], ?_⟩
    obtain ⟨hout, hB, hcells, hdone, hrest, hbeyond, hfirst, hlim⟩ := hinv
    refine ⟨hout, hB, ?_, ?_, hrest, ?_, by omega, ?_⟩
    · intro i h; rw [depth_skip w P x hskip]; exact hcells i h
    · intro k hk hn; rw [depth_skip w P x hskip]; exact hdone k hk hn
    · intro y hy hyy
      simp only [List.mem_append, List.mem_singleton] at hy
      rcases hy with hy | rfl
      · exact hbeyond y hy hyy
      · omega
    · intro y hy
      simp only [List.mem_append, List.mem_singleton] at hy
      rcases hy with hy | rfl
      · have := hlim y hy; omega
      · exact Nat.le_refl _
  have hx : x.s < x.e := by omega
  obtain ⟨first, cells, out⟩ := st
  obtain ⟨hout, hB, hcells, hdone, hrest, hbeyond, hfirst, hlim⟩ := hinv
  dsimp only at hout hB hcells hdone hrest hbeyond hfirst hlim
  have hbsbe : x.s / w ≤ (x.e - 1) / w := Nat.div_le_div_right (by omega)
  have hbe : (x.e - 1) / w < nb := by rw [Nat.div_lt_iff_lt_mul hw]; omega
  have hfb : first ≤ x.s / w := by rw [Nat.le_div_iff_mul_le hw]; omega
  have hlimP : ∀ y ∈ P, y.s ≤ x.s := fun y hy => by have := hlim y hy; omega
  -- bins at or beyond the live range hold nothing yet
  have hzero : ∀ k, first + cells.length ≤ k → depthVec w P k = List.replicate w 0 := by
    intro k hk
    apply depthVec_untouched
    intro y hy
    by_cases hyy : y.s < y.e
    · left
      have := hbeyond y hy hyy
      have := Nat.mul_le_mul_right w hk
      omega
    · right; right; omega
  obtain ⟨out', hpop, ho1, ho2, ho3⟩ := popN_spec sm (x.s / w - first) ⟨first, cells, out⟩ (by dsimp only; omega)
  dsimp only at hpop ho1 ho2 ho3
  by_cases hcase : first + cells.length ≤ x.s / w
  · -- every live bin is finished
    have hm : min (x.s / w - first) cells.length = cells.length := by omega
    rw [hm] at hpop ho2 ho3
    refine ⟨⟨x.s / w, accumGo w x (x.s / w)
      (List.replicate ((x.e - 1) / w + 1 - x.s / w) (List.replicate w 0)), out'⟩, ?_, ?_⟩
    · simp only [step, hskip, if_false, hpop, List.drop_length, if_true]
      rw [show max 1 ((x.e - 1) / w + 1 - x.s / w) = (x.e - 1) / w + 1 - x.s / w by omega]
    · refine finish_step sm w nb hw P x hx _ out' ?_ (by simp; omega) (by simp; omega) ?_ hlimP (by rw [ho1, hout]) ?_ ?_
      · intro i h
        simp only [List.getElem_replicate]
        exact (hzero _ (by omega)).symm
      · intro y hy hyy
        have := hbeyond y hy hyy
        have hle : first + cells.length ≤ x.s / w + (List.replicate ((x.e - 1) / w + 1 - x.s / w) (List.replicate w 0)).length := by
          simp; omega
        have := Nat.mul_le_mul_right w hle
        omega
      · intro k hk hn
        by_cases hk1 : k < first
        · rw [ho2 k (Or.inl hk1)]; exact hdone k hk1 hn
        · by_cases hk2 : k < first + cells.length
          · have := ho3 (k - first) (by omega) (by omega)
            rw [show first + (k - first) = k by omega] at this
            rw [this, hcells (k - first) (by omega), show first + (k - first) = k by omega]
          · rw [ho2 k (Or.inr (by omega)), hrest k (by omega) hn, hzero k (by omega), flush_zeros]
      · intro k hk hn
        rw [ho2 k (Or.inr (by omega))]
        exact hrest k (by omega) hn
  · -- the live range reaches the entry's first bin: earlier bins are finished, the rest stays
    have hm : min (x.s / w - first) cells.length = x.s / w - first := by omega
    rw [hm] at hpop ho2 ho3
    have hdl : (cells.drop (x.s / w - first)).length = first + cells.length - x.s / w := by simp; omega
    have hdne : cells.drop (x.s / w - first) ≠ [] := by
      intro h; rw [h] at hdl; simp at hdl; omega
    have hf2 : first + (x.s / w - first) = x.s / w := by omega
    refine ⟨⟨x.s / w, accumGo w x (x.s / w) (cells.drop (x.s / w - first) ++
      List.replicate ((x.e - 1) / w + 1 - (first + cells.length)) (List.replicate w 0)), out'⟩, ?_, ?_⟩
    · simp only [step, hskip, if_false, hpop, hdne, hdl, hf2]
      rw [show x.s / w + (first + cells.length - x.s / w) = first + cells.length by omega]
    · refine finish_step sm w nb hw P x hx _ out' ?_ (by simp [hdl]; omega) (by simp [hdl]; omega) ?_ hlimP
        (by rw [ho1, hout]) ?_ ?_
      · intro i h
        by_cases hi : i < (cells.drop (x.s / w - first)).length
        · rw [List.getElem_append_left hi, List.getElem_drop, hcells _ (by omega)]
          congr 1; omega
        · rw [List.getElem_append_right (by omega), List.getElem_replicate]
          exact (hzero _ (by omega)).symm
      · intro y hy hyy
        have := hbeyond y hy hyy
        have hle : first + cells.length ≤ x.s / w + (cells.drop (x.s / w - first) ++
            List.replicate ((x.e - 1) / w + 1 - (first + cells.length)) (List.replicate w 0)).length := by
          simp [hdl]; omega
        have := Nat.mul_le_mul_right w hle
        omega
      · intro k hk hn
        by_cases hk1 : k < first
        · rw [ho2 k (Or.inl hk1)]; exact hdone k hk1 hn
        · have := ho3 (k - first) (by omega) (by omega)
          rw [show first + (k - first) = k by omega] at this
          rw [this, hcells (k - first) (by omega), show first + (k - first) = k by omega]
      · intro k hk hn
        rw [ho2 k (Or.inr (by omega))]
        exact hrest k (by omega) hn

/-- entries sorted by start; each either lies (clipped) inside `[0, nb·w)` or is empty after clipping -/
def Sorted (nb w : Nat) : Nat → List Ent → Prop
  | _, [] => True
  | lim, x :: xs => lim ≤ x.s ∧ x.e ≤ nb * w ∧ Sorted nb w x.s xs

theorem go_inv (sm : Summary) (w nb : Nat) (hw : 0 < w) : ∀ (ents P : List Ent) (lim : Nat) (st : St),
    Inv sm w nb P lim st → Sorted nb w lim ents →
    ∃ st' lim', run.go sm w ents st = some st' ∧ Inv sm w nb (P ++ ents) lim' st' := by
  intro ents
  induction ents with
  | nil => intro P lim st h _; exact ⟨st, lim, rfl, by simpa using h⟩
  | cons x xs ih =>
    intro P lim st h hs
    obtain ⟨s1, s2, s3⟩ := hs
    obtain ⟨st1, hstep, hinv1⟩ := step_inv sm w nb hw P lim st x h s1 s2
    obtain ⟨st', lim', hgo, hinv'⟩ := ih (P ++ [x]) x.s st1 hinv1 s3
    refine ⟨st', lim', ?_, by simpa [List.append_assoc] using hinv'⟩
    simp only [run.go, hstep, hgo]

/-- **C20, exact bins of integral width (bigBed, repaired).** For every bin width `w > 0`, bin count `nb`,
    statistic, and every list of entries sorted by start with ends inside `[0, nb·w]` — overlapping, nested,
    identical and empty-after-clipping entries allowed: the routine writes no bin out of bounds and bin `k`
    reports `flush` of the per-base depth of `[k·w, (k+1)·w)` (`depthVec_get`: the number of entries covering each
    base): mean, minimum or maximum over the covered bases, `missing` when none is covered. -/
theorem bed_bins_spec (sm : Summary) (w nb : Nat) (hw : 0 < w) (ents : List Ent) (hs : Sorted nb w 0 ents) :
    ∃ out, run sm w nb ents = some out ∧ out.length = nb ∧
      ∀ k, k < nb → out[k]? = some (flush sm (depthVec w ents k)) := by
  obtain ⟨st, lim, hgo, hinv⟩ := go_inv sm w nb hw ents [] 0 _ (inv_init sm w nb) hs
  simp only [List.nil_append] at hinv
  obtain ⟨first, cells, out⟩ := st
  obtain ⟨hout, hB, hcells, hdone, hrest, hbeyond, _, _⟩ := hinv
  dsimp only at hout hB hcells hdone hrest hbeyond
  obtain ⟨out', hpop, ho1, ho2, ho3⟩ := popN_spec sm cells.length ⟨first, cells, out⟩ (by dsimp only; omega)
  dsimp only at hpop ho1 ho2 ho3
  rw [Nat.min_self] at hpop ho2 ho3
  refine ⟨out', ?_, by rw [ho1, hout], ?_⟩
  · simp only [run, hgo, hpop, Option.map_some]
  · intro k hk
    by_cases hk1 : k < first
    · rw [ho2 k (Or.inl hk1)]; exact hdone k hk1 hk
    · by_cases hk2 : k < first + cells.length
      · have := ho3 (k - first) (by omega) (by omega)
        rw [show first + (k - first) = k by omega] at this
        rw [this, hcells (k - first) (by omega), show first + (k - first) = k by omega]
      · rw [ho2 k (Or.inr (by omega)), hrest k (by omega) hk]
        have hz : depthVec w ents k = List.replicate w 0 := by
          apply depthVec_untouched
          intro y hy
          by_cases hyy : y.s < y.e
          · left
            have := hbeyond y hy hyy
            have := Nat.mul_le_mul_right w (show first + cells.length ≤ k by omega)
            omega
          · right; right; omega
        rw [hz, flush_zeros]

end PEB
