/-! Probe (C17): `stats_for_bed_item` computes, from the clipped values the reader returns, exactly the
    coverage and weighted sum of the stored values inside the region. -/
namespace ST

structure Val where
  s : Nat
  e : Nat
  v : Int
deriving DecidableEq, Repr

/-- what `get_interval(chrom, s, e)` yields for one stored value: strict filter, then clip -/
def clip (s e : Nat) (x : Val) : Option Val :=
  if x.e > s ∧ x.s < e then some { x with s := max x.s s, e := min x.e e } else none

def query (s e : Nat) (stored : List Val) : List Val := stored.filterMap (clip s e)

structure Stats where
  size : Nat
  bases : Nat
  sum : Int
deriving DecidableEq, Repr

/-- the accumulation loop of `stats_for_bed_item` (min/max handled separately) -/
def stats (s e : Nat) (vals : List Val) : Stats :=
  vals.foldl (fun acc x => { acc with bases := acc.bases + (x.e - x.s), sum := acc.sum + ((x.e - x.s : Nat) : Int) * x.v })
    { size := e - s, bases := 0, sum := 0 }

/-- covered bases / weighted sum of the stored values inside `[s,e)` -/
def cov (P : List Val) (a b : Nat) : Nat := (P.map fun p => min p.e b - max p.s a).sum
def wsum (P : List Val) (a b : Nat) : Int := (P.map fun p => ((min p.e b - max p.s a : Nat) : Int) * p.v).sum

theorem foldl_stats (vals : List Val) (acc : Stats) :
    (vals.foldl (fun acc x => { acc with bases := acc.bases + (x.e - x.s),
                                         sum := acc.sum + ((x.e - x.s : Nat) : Int) * x.v }) acc)
    = { acc with bases := acc.bases + (vals.map fun x => x.e - x.s).sum,
                 sum := acc.sum + (vals.map fun x => ((x.e - x.s : Nat) : Int) * x.v).sum } := by
  induction vals generalizing acc with
  | nil => simp
  | cons x xs ih => simp only [List.foldl_cons, ih, List.map_cons, List.sum_cons]; congr 1 <;> omega

/-- **Per-region statistics.** For any stored values and any region, the bases and sum reported are the
    coverage and the weighted sum of the stored values restricted to the region. -/
theorem stats_eq (s e : Nat) (stored : List Val) :
    (stats s e (query s e stored)).bases = cov stored s e ∧
    (stats s e (query s e stored)).sum = wsum stored s e ∧
    (stats s e (query s e stored)).size = e - s := by
  unfold stats
  rw [foldl_stats]
  simp only [Nat.zero_add, Int.zero_add, and_true]
  induction stored with
  | nil => simp [query, cov, wsum]
  | cons x xs ih =>
    simp only [query, List.filterMap_cons, clip, cov, wsum, List.map_cons, List.sum_cons] at *
    by_cases h : x.e > s ∧ x.s < e
    · simp only [h, and_self, if_true, List.map_cons, List.sum_cons]
      constructor
      · rw [ih.1]
      · rw [ih.2]
    · simp only [h, if_false]
      have hz : min x.e e - max x.s s = 0 := by omega
      rw [hz]
      simp only [Nat.zero_add, Int.natCast_zero, Int.zero_mul, Int.zero_add]
      exact ih

end ST
