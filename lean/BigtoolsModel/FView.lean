/-! Probe: `FileView` (window onto a file) refines the clamped slice. `fixedEnd = false` is the code as found. -/
namespace FView

inductive Whence where | start (k : Nat) | current (d : Int) | fromEnd (d : Int)
deriving Repr, DecidableEq

inductive Op where | read (n : Nat) | seek (w : Whence)
deriving Repr, DecidableEq

inductive Out where | bytes (bs : List Nat) | pos (p : Nat) | panic
deriving Repr, DecidableEq

/-- view state: absolute position `cur` in the underlying file, window `[lo, hi)` -/
structure View where
  lo : Nat
  hi : Nat
  cur : Nat
deriving Repr, DecidableEq

def clampI (x : Int) (lo hi : Nat) : Nat := (min (max x (lo : Int)) (hi : Int)).toNat

def stepView (fixedEnd : Bool) (file : List Nat) (v : View) : Op → View × Out
  | .read n =>
    let k := min n (v.hi - v.cur)
    ({ v with cur := v.cur + k }, .bytes ((file.drop v.cur).take k))
  | .seek (.start k) =>
    let p := min v.hi (v.lo + k)
    ({ v with cur := p }, .pos (p - v.lo))
  | .seek (.fromEnd d) =>
    let d' := min d 0
    let p : Int := (v.hi : Int) + d'
    let p' : Nat := if fixedEnd then (max p (v.lo : Int)).toNat else (max p 0).toNat
    if v.lo ≤ p' ∧ p' ≤ v.hi then ({ v with cur := p' }, .pos (p' - v.lo)) else (v, .panic)
  | .seek (.current d) =>
    let p := clampI ((v.cur : Int) + d) v.lo v.hi
    ({ v with cur := p }, .pos (p - v.lo))

/-- the specification: a position inside an isolated slice, with clamping seeks -/
def stepSpec (slice : List Nat) (pos : Nat) : Op → Nat × Out
  | .read n =>
    let k := min n (slice.length - pos)
    (pos + k, .bytes ((slice.drop pos).take k))
  | .seek (.start k) => let p := min k slice.length; (p, .pos p)
  | .seek (.fromEnd d) => let p := clampI ((slice.length : Int) + min d 0) 0 slice.length; (p, .pos p)
  | .seek (.current d) => let p := clampI ((pos : Int) + d) 0 slice.length; (p, .pos p)

def Rel (file : List Nat) (v : View) (pos : Nat) : Prop :=
  v.lo ≤ v.hi ∧ v.hi ≤ file.length ∧ v.cur = v.lo + pos ∧ v.cur ≤ v.hi

def sliceOf (file : List Nat) (v : View) : List Nat := (file.drop v.lo).take (v.hi - v.lo)

theorem slice_len (file : List Nat) (v : View) (h : v.lo ≤ v.hi ∧ v.hi ≤ file.length) :
    (sliceOf file v).length = v.hi - v.lo := by
  simp [sliceOf]; omega

/-- one step of the repaired view simulates one step of the slice, with equal output -/
theorem step_refines (file : List Nat) (v : View) (pos : Nat) (op : Op) (h : Rel file v pos) :
    let (v', o) := stepView true file v op
    let (pos', o') := stepSpec (sliceOf file v) pos op
    o = o' ∧ Rel file v' pos' ∧ v'.lo = v.lo ∧ v'.hi = v.hi := by
  obtain ⟨h1, h2, h3, h4⟩ := h
  have hl := slice_len file v ⟨h1, h2⟩
  have hc : ((v.hi - v.lo : Nat) : Int) = (v.hi : Int) - (v.lo : Int) := by omega
  cases op with
  | read n =>
    simp only [stepView, stepSpec, hl, Rel, and_true]
    refine ⟨?_, h1, h2, by omega, by omega⟩
    have e : v.hi - v.cur = v.hi - v.lo - pos := by omega
    rw [e]
    simp only [sliceOf, Out.bytes.injEq]
    rw [List.drop_take, List.drop_drop, List.take_take, h3]
    congr 1
    omega
  | seek w =>
    cases w with
    | start k =>
      simp only [stepView, stepSpec, hl, Rel, and_true]
      refine ⟨by congr 1; omega, h1, h2, by omega, by omega⟩
    | current d =>
      simp only [stepView, stepSpec, hl, Rel, clampI, and_true]
      refine ⟨by congr 1; omega, h1, h2, by omega, by omega⟩
    | fromEnd d =>
      simp only [stepView, stepSpec, hl, clampI, if_true]
      have hp : v.lo ≤ (max ((v.hi : Int) + min d 0) (v.lo : Int)).toNat ∧
                (max ((v.hi : Int) + min d 0) (v.lo : Int)).toNat ≤ v.hi := by omega
      simp only [hp, and_self, if_true, Rel, and_true]
      refine ⟨by congr 1; omega, h1, h2, by omega⟩

/-- the code as found panics for a window that does not start at 0 (D7) -/
theorem end_seek_panics_as_found :
    (stepView false (List.range 20) ⟨5, 15, 5⟩ (.seek (.fromEnd (-12)))).2 = .panic := by decide

end FView
