import BigtoolsModel.Tiler4
import BigtoolsModel.SweepStats
import BigtoolsModel.BedZoomBrute
/-! Probe (C08, the composition): the bigBed zoom path as "sweep, then tile every emitted depth segment, flushing
    after each segment handled while the last entry is processed". `bedZoom` is that model, built from the
    sweep's `stepEntry` and the tiler's `inner` (the literal transcription `BZ.zoomRecords` is tested equal to it
    on every small input). Theorem: for every start-sorted list of well-formed entries the zoom records are a
    faithful reduction of the emitted segments, whose depth at every base is the number of entries covering it. -/
namespace BZC
open SW Tiler2

def toVal (g : Seg) : Val := ⟨g.s, g.e, g.d⟩

/-- tile the segments one entry's step emitted -/
def tileAll (size : Nat) (flag : Bool) : List Seg → TSt → Option TSt
  | [], st => some st
  | g :: gs, st =>
    match inner repaired size (toVal g) flag (g.e + 3) g.s st with
    | some st' => tileAll size flag gs st'
    | none => none

def bedZoom (inf size : Nat) : List (Nat × Nat) → List Seg → TSt → Option TSt
  | [], _, st => some st
  | x :: rest, rem, st =>
    match tileAll size rest.isEmpty (stepEntry x.1 x.2 (nextStart inf rest) rem).1 st with
    | some st' => bedZoom inf size rest (stepEntry x.1 x.2 (nextStart inf rest) rem).2 st'
    | none => none

/-- the emitted segments with the flush flag they are tiled with -/
def emitted (inf : Nat) : List (Nat × Nat) → List Seg → List (Seg × Bool)
  | [], _ => []
  | x :: rest, rem =>
    (stepEntry x.1 x.2 (nextStart inf rest) rem).1.map (fun g => (g, rest.isEmpty)) ++
      emitted inf rest (stepEntry x.1 x.2 (nextStart inf rest) rem).2

theorem sweepAll_emitted (inf : Nat) : ∀ (todo : List (Nat × Nat)) (rem em : List Seg),
    (sweepAll inf todo rem em).1 = em ++ (emitted inf todo rem).map (·.1) := by
  intro todo
  induction todo with
  | nil => intro rem em; show em = em ++ List.map (fun gf : Seg × Bool => gf.1) []; rw [List.map_nil, List.append_nil]
  | cons x rest ih =>
    intro rem em
    simp only [sweepAll, emitted, ih, List.map_append, List.map_map, List.append_assoc]
    congr 2
    rw [show ((fun gf : Seg × Bool => gf.1) ∘ fun g => (g, rest.isEmpty)) = id from rfl, List.map_id]

theorem processAllF_append (size : Nat) : ∀ (a b : List (Val × Bool)) (st : TSt),
    processAllF repaired size (a ++ b) st =
      match processAllF repaired size a st with
      | some st' => processAllF repaired size b st'
      | none => none := by
  intro a
  induction a with
  | nil => intro b st; rfl
  | cons x xs ih =>
    intro b st
    simp only [List.cons_append, processAllF]
    cases inner repaired size x.1 x.2 (x.1.e + 3) x.1.s st with
    | none => rfl
    | some st' => exact ih b st'

theorem tileAll_eq (size : Nat) (flag : Bool) : ∀ (gs : List Seg) (st : TSt),
    tileAll size flag gs st = processAllF repaired size (gs.map fun g => (toVal g, flag)) st := by
  intro gs
  induction gs with
  | nil => intro st; rfl
  | cons g gs ih =>
    intro st
    simp only [tileAll, List.map_cons, processAllF, toVal]
    cases inner repaired size ⟨g.s, g.e, g.d⟩ flag (g.e + 3) g.s st with
    | none => rfl
    | some st' => exact ih st'

/-- the interleaved loop is the flagged tiler over everything the sweep emits -/
theorem bedZoom_eq (inf size : Nat) : ∀ (todo : List (Nat × Nat)) (rem : List Seg) (st : TSt),
    bedZoom inf size todo rem st =
      processAllF repaired size ((emitted inf todo rem).map fun gf => (toVal gf.1, gf.2)) st := by
  intro todo
  induction todo with
  | nil => intro rem st; rfl
  | cons x rest ih =>
    intro rem st
    simp only [bedZoom, emitted, List.map_append, List.map_map, processAllF_append, tileAll_eq]
    have : (List.map ((fun gf => (toVal gf.1, gf.2)) ∘ fun g => (g, rest.isEmpty))
        (stepEntry x.1 x.2 (nextStart inf rest) rem).1) =
        (stepEntry x.1 x.2 (nextStart inf rest) rem).1.map fun g => (toVal g, rest.isEmpty) := rfl
    rw [this]
    cases processAllF repaired size ((stepEntry x.1 x.2 (nextStart inf rest) rem).1.map fun g => (toVal g, rest.isEmpty)) st with
    | none => rfl
    | some st' => exact ih _ st'

theorem ordered_pairwise : ∀ (l : List Seg) (lo hi : Nat), Ordered lo hi l →
    (l.map toVal).Pairwise (fun p q => p.e ≤ q.s) ∧ (∀ g ∈ l, lo ≤ g.s ∧ g.s ≤ g.e) := by
  intro l
  induction l with
  | nil => intro _ _ _; exact ⟨List.Pairwise.nil, by simp⟩
  | cons g rest ih =>
    intro lo hi h
    obtain ⟨h1, h2, h3, h4, h5⟩ := h
    obtain ⟨ih1, ih2⟩ := ih g.e hi h5
    refine ⟨?_, ?_⟩
    · simp only [List.map_cons, List.pairwise_cons]
      refine ⟨?_, ih1⟩
      intro q hq
      obtain ⟨g', hg', rfl⟩ := List.mem_map.mp hq
      exact (ih2 g' hg').1
    · intro g' hg'
      simp only [List.mem_cons] at hg'
      rcases hg' with rfl | hg'
      · exact ⟨h1, h2⟩
      · have := ih2 g' hg'; exact ⟨by omega, this.2⟩

/-- **C08: bigBed zoom records are a faithful reduction of the coverage depth.** For every start-sorted list
    of well-formed entries (overlapping, nested, identical, zero-length) and every resolution: if `segs` are
    the depth segments the sweep emits, then (1) at every base their depth is the number of entries covering
    it, and (2) the zoom records — emitted and, had the run stopped, still live — are in order, disjoint, at most
    one resolution long, and have exactly the covered bases, sum, minimum and maximum of `segs` inside their
    span, covering every covered base once. -/
theorem bed_zoom_faithful (inf size : Nat) (hsize : 0 < size) (x : Nat × Nat) (rest : List (Nat × Nat))
    (hv : Valid inf x.1 (x :: rest)) (st' : TSt)
    (hrun : bedZoom inf size (x :: rest) [] ⟨none, []⟩ = some st')
    (hne : (sweepAll inf (x :: rest) [] []).1 ≠ []) :
    (∀ p, segDepth (sweepAll inf (x :: rest) [] []).1 p = depth (x :: rest) p) ∧
    Final size ((sweepAll inf (x :: rest) [] []).1.map toVal) (recs st') := by
  refine ⟨fun p => sweep_represents_depth inf x rest hv p, ?_⟩
  rw [bedZoom_eq] at hrun
  have hem := sweepAll_emitted inf (x :: rest) [] []
  simp only [List.nil_append] at hem
  have hord := sweepAll_ordered inf x.1 (x :: rest) [] [] x.1 trivial trivial (Nat.le_refl _) hv
  simp only [List.cons_ne_nil, if_false] at hord
  obtain ⟨hpw, hpos⟩ := ordered_pairwise _ _ _ hord
  have hmap : ((emitted inf (x :: rest) []).map fun gf => (toVal gf.1, gf.2)).map (·.1) =
      (sweepAll inf (x :: rest) [] []).1.map toVal := by
    rw [hem, List.map_map, List.map_map]; rfl
  have := runF_faithful size hsize ((emitted inf (x :: rest) []).map fun gf => (toVal gf.1, gf.2)) st'
    (by rw [hmap]; exact hpw)
    (by
      intro p hp
      obtain ⟨gf, hgf, rfl⟩ := List.mem_map.mp hp
      have : gf.1 ∈ (sweepAll inf (x :: rest) [] []).1 := by rw [hem]; exact List.mem_map_of_mem hgf
      exact (hpos gf.1 this).2)
    (by
      intro h
      apply hne
      rw [hem]
      have := congrArg (List.map (·.1)) h
      simp only [List.map_map, List.map_nil] at this
      have h2 : (emitted inf (x :: rest) []).map (·.1) = [] := by
        have : (emitted inf (x :: rest) []) = [] := by simpa using h
        rw [this]; rfl
      exact h2)
    hrun
  rw [hmap] at this
  exact this

end BZC
