import BigtoolsModel.SweepProof
/-! Probe (C08): faithful model of the bigBed `process_val_zoom` (sweep + tiling interleaved, flush of the live
    record after every segment of the last entry), with switches for D14 (`>=` vs `>`) and D15 (seed 1 vs depth);
    brute-force comparison with the per-base specification on all small inputs. This is a test of the model
    (and through it a defect finder), not a theorem. -/
namespace BZ
open SW

structure Rec where
  start : Nat
  stop : Nat
  bases : Nat
  sum : Nat
  mn : Nat
  mx : Nat
deriving Repr, DecidableEq

structure Fix where
  cmp : Bool       -- D14 repaired: `add_end > add_start`
  seed : Bool      -- D15 repaired: seed min/max with the depth
deriving Repr, DecidableEq

structure ZSt where
  overlap : List Seg
  live : Option Rec
  out : List Rec
deriving Repr

/-- the tiling loop for one removed segment `[rs, re)` of depth `d` -/
def tileSeg (fx : Fix) (size : Nat) (isLast : Bool) (rs re d : Nat) : Nat → Nat → Option Rec → List Rec → Option Rec × List Rec
  | 0, _, live, out => (live, out)
  | fuel + 1, a, live, out =>
    if a ≥ re then
      if isLast then
        match live with
        | some r => (none, out ++ [r])
        | none => (none, out)
      else (live, out)
    else
      let r := live.getD ⟨a, a, 0, 0, if fx.seed then d else 1, if fx.seed then d else 1⟩
      let nextEnd := r.start + size
      let addEnd := min nextEnd re
      let upd : Bool := if fx.cmp then decide (addEnd > a) else decide (addEnd ≥ a)
      let r' : Rec := if upd then
          { r with stop := addEnd, bases := r.bases + (addEnd - a), sum := r.sum + (addEnd - a) * d,
                   mn := min r.mn d, mx := max r.mx d }
        else r
      let (live', out') := if addEnd = nextEnd then (none, out ++ [r']) else (some r', out)
      tileSeg fx size isLast rs re d fuel (max addEnd rs) live' out'

/-- the `while first.start < next_start` loop: remove, split, tile -/
def drain (fx : Fix) (size : Nat) (isLast : Bool) (nextStart : Nat) : Nat → ZSt → ZSt
  | 0, st => st
  | fuel + 1, st =>
    match st.overlap with
    | [] => st
    | f :: rest =>
      if f.s < nextStart then
        let (rs, re, ov') := if f.e ≤ nextStart then (f.s, f.e, rest) else (f.s, nextStart, { f with s := nextStart } :: rest)
        let (live, out) := tileSeg fx size isLast rs re f.d (re + 2) rs st.live st.out
        drain fx size isLast nextStart fuel { overlap := ov', live := live, out := out }
      else st

def processEntries (fx : Fix) (size : Nat) : List (Nat × Nat) → ZSt → ZSt
  | [], st => st
  | x :: rest, st =>
    let ov := SW.tail x.1 x.2 (SW.bump x.2 st.overlap)
    let isLast := rest.isEmpty
    let nextStart := match rest with | [] => 4294967295 | y :: _ => y.1
    processEntries fx size rest (drain fx size isLast nextStart (ov.length + 2) { st with overlap := ov })

def zoomRecords (fx : Fix) (size : Nat) (entries : List (Nat × Nat)) : List Rec :=
  (processEntries fx size entries { overlap := [], live := none, out := [] }).out

/-! specification, per base -/
def depthAt (entries : List (Nat × Nat)) (p : Nat) : Nat := (entries.filter fun x => x.1 ≤ p ∧ p < x.2).length

def faithful (size bound : Nat) (entries : List (Nat × Nat)) (recs : List Rec) : Bool :=
  let covered := (List.range bound).filter fun p => depthAt entries p > 0
  let okRec (r : Rec) : Bool :=
    let ps := (List.range bound).filter fun p => r.start ≤ p ∧ p < r.stop ∧ depthAt entries p > 0
    r.start ≤ r.stop && r.stop - r.start ≤ size && r.bases = ps.length &&
    r.sum = (ps.map (depthAt entries)).sum &&
    (ps.isEmpty || (r.mn = (ps.map (depthAt entries)).foldl min 1000000 && r.mx = (ps.map (depthAt entries)).foldl max 0))
  let rec sorted : List Rec → Bool
    | a :: b :: rest => a.stop ≤ b.start && sorted (b :: rest)
    | _ => true
  recs.all okRec && sorted recs && (recs.map (·.bases)).sum = covered.length &&
    covered.all (fun p => (recs.filter fun r => r.start ≤ p ∧ p < r.stop).length = 1)

/-- all start-sorted entry lists with `k` entries over coordinates `0..m` -/
def allEntries (m : Nat) : Nat → Nat → List (List (Nat × Nat))
  | 0, _ => [[]]
  | k + 1, lo =>
    (List.range (m - lo)).flatMap fun ds =>
      let s := lo + ds
      (List.range (m + 1 - s)).flatMap fun de =>
        (allEntries m k s).map fun rest => (s, s + de) :: rest

def countFailures (fx : Fix) (m : Nat) : Nat × Nat :=
  let cases := (List.range 4).flatMap fun k => allEntries m (k + 1) 0
  let sizes := [1, 2, 3, 5]
  cases.foldl (fun (acc : Nat × Nat) es =>
    sizes.foldl (fun (acc : Nat × Nat) sz =>
      (acc.1 + 1, acc.2 + (if faithful sz (m + 1) es (zoomRecords fx sz es) then 0 else 1))) acc) (0, 0)

-- the confirmed D15 case and the D16 layout through the zoom path
#eval zoomRecords ⟨false, false⟩ 10 [(0,10),(0,10)]
#eval zoomRecords ⟨true, true⟩ 10 [(0,10),(0,10)]
#eval zoomRecords ⟨false, false⟩ 100 [(0,20),(0,10),(0,10),(10,20),(10,20),(10,20)]
-- (cases, failures): as found, only D15 repaired, both repaired
#eval countFailures ⟨false, false⟩ 5
#eval countFailures ⟨false, true⟩ 5
#eval countFailures ⟨true, true⟩ 5
end BZ
