import BigtoolsModel.MergeOrder
/-! Probe (C15, tool level): `MergingValues::new` applies clip, adjust and threshold to the merged stream
    (a `map` followed by a `filter`). Per base: where the inputs sum to zero (or have no data) nothing is
    emitted; elsewhere the base carries `min(clip, sum) + adjust` if that exceeds the threshold and nothing
    otherwise — for every window size, any number of sorted streams, every setting. -/
namespace MG

def adjustVal (clip : Option Int) (adj : Int) (v : Int) : Int :=
  (match clip with | some c => min c v | none => v) + adj

def post (clip : Option Int) (adj thr : Int) (l : List Val) : List Val :=
  (l.map fun x => { x with v := adjustVal clip adj x.v }).filter fun x => decide (x.v > thr)

/-- what one base carries after post-processing a value `t` taken from the merged stream (`t ≠ 0` there) -/
def postAt (clip : Option Int) (adj thr : Int) (t : Int) : Int :=
  if t = 0 then 0 else if adjustVal clip adj t > thr then adjustVal clip adj t else 0

/-- items at or after `lo` contribute nothing before `lo` -/
theorem sumAt_before (l : List Val) : ∀ (lo p : Nat), SortedOut lo l → p < lo → sumAt l p = 0 := by
  induction l with
  | nil => intro _ _ _ _; rfl
  | cons x rest ih =>
    intro lo p h hp
    obtain ⟨h1, h2, _, h4⟩ := h
    simp only [sumAt, Val.at]
    rw [if_neg (by omega), ih x.e p h4 (by omega)]; rfl

theorem post_sortedOut (clip : Option Int) (adj thr : Int) : ∀ (l : List Val) (lo : Nat), SortedOut lo l →
    ∀ p, p < lo → sumAt (post clip adj thr l) p = 0 := by
  intro l
  induction l with
  | nil => intro _ _ _ _; rfl
  | cons x rest ih =>
    intro lo h p hp
    obtain ⟨h1, h2, _, h4⟩ := h
    simp only [post, List.map_cons, List.filter_cons]
    split
    · simp only [sumAt, Val.at]
      rw [if_neg (by omega)]
      have := ih x.e h4 p (by omega)
      simp only [post] at this
      rw [this]; rfl
    · have := ih x.e h4 p (by omega)
      simp only [post] at this
      exact this

/-- **Post-processing, per base.** -/
theorem post_spec (clip : Option Int) (adj thr : Int) : ∀ (l : List Val) (lo : Nat), SortedOut lo l → ∀ p,
    sumAt (post clip adj thr l) p = postAt clip adj thr (sumAt l p) := by
  intro l
  induction l with
  | nil => intro _ _ p; simp [post, sumAt, postAt]
  | cons x rest ih =>
    intro lo h p
    obtain ⟨h1, h2, h3, h4⟩ := h
    have ihr := ih x.e h4 p
    simp only [post] at ihr
    by_cases hin : x.s ≤ p ∧ p < x.e
    · -- `p` lies in `x`: nothing later covers it
      have hrest : sumAt rest p = 0 := sumAt_before rest x.e p h4 hin.2
      have hrest' : sumAt (post clip adj thr rest) p = 0 := post_sortedOut clip adj thr rest x.e h4 p hin.2
      simp only [post] at hrest'
      simp only [post, List.map_cons, List.filter_cons, sumAt, Val.at, hin, and_self, if_true, hrest, Int.add_zero]
      by_cases hk : adjustVal clip adj x.v > thr
      · simp only [hk, decide_true, if_true, sumAt, Val.at, hin, and_self, hrest', Int.add_zero, postAt, h3, if_false]
      · simp only [hk, decide_false, Bool.false_eq_true, if_false, hrest', postAt, h3]
    · simp only [post, List.map_cons, List.filter_cons, sumAt, Val.at, hin, if_false, Int.zero_add]
      split
      · simp only [sumAt, Val.at, hin, if_false, Int.zero_add]
        exact ihr
      · exact ihr

/-- **The merge tool's stream, per base.** -/
theorem merge_tool_spec (W : Nat) (hW : 0 < W) (streams : List (List Val)) (hs : AllSorted streams)
    (clip : Option Int) (adj thr : Int) (p : Nat) :
    sumAt (post clip adj thr (merge W streams)) p = postAt clip adj thr (total streams p) := by
  rw [post_spec clip adj thr (merge W streams) 0 (merge_sorted W streams) p, merge_spec W hW streams hs p]

end MG
