import BigtoolsModel.Driver.Small
import BigtoolsModel.Driver.WigBed
/-! `bbmodel <cases-file>`: answers every case of the line protocol with the executable model. -/
namespace Drv

def W_MERGE : Nat := Gen.DATA_SIZE

def runCase (c : Case) : List String :=
  match c.kind with
  | "wig" => wigCase c
  | "bed" => bedCase c
  | "tempbuf" => tempbuf c
  | "fileview" => fileview c
  | "chunks" => chunks c
  | "index" => index c
  | "autosql" => autosql c
  | "merge" => mergeCase W_MERGE c
  | "fill" => fillCase c
  | _ => ["R unknown-kind"]

end Drv

def main (args : List String) : IO UInt32 := do
  match args with
  | [path] =>
    let text ← IO.FS.readFile path
    let out ← IO.getStdout
    for c in Drv.parseCases text do
      out.putStrLn s!"CASE {c.id}"
      for l in Drv.runCase c do out.putStrLn l
      out.putStrLn "END"
    out.flush
    return 0
  | _ =>
    IO.eprintln "usage: bbmodel <cases-file>"
    return 2
