import BigtoolsModel.Driver.Small
import BigtoolsModel.Driver.WigBed
import BigtoolsModel.Driver.Files
import BigtoolsModel.Driver.PyVals
/-! `bbmodel <cases-file>`: answers every case of the line protocol with the executable model. -/
namespace Drv

def W_MERGE : Nat := Gen.DATA_SIZE

def runCase (c : Case) : List String :=
  match c.kind with
  | "wig" => wigCase c
  | "wigbytes" => wigBytesCase c
  | "bedbytes" => bedBytesCase c
  | "bed" => bedCase c
  | "wigops" | "bedops" => opsCase c
  | "pyvalues" => pyValues c
  | "compat" => compatCase c
  | "tempbuf" => tempbuf c
  | "fileview" => fileview c
  | "chunks" => chunks c
  | "index" => index c
  | "autosql" => autosql c
  | "merge" => mergeCase W_MERGE c
  | "fill" => fillCase c
  | _ => ["R unknown-kind"]

end Drv

/-- answers one case -/
def answerCase (out : IO.FS.Stream) (c : Drv.Case) : IO Unit := do
  out.putStrLn s!"CASE {c.id}"
  let lines ← match c.kind with
    | "readwig" | "readbed" | "wfwig" | "wfbed" | "fileof" =>
      match (c.records "FILEHEX").head?, (c.records "FILE").head? with
      | some l, _ =>
        let bytes : ByteArray := (Drv.unhex (l.getD 1 "-")).foldl (fun a b => a.push (UInt8.ofNat b)) ByteArray.empty
        pure (match c.kind with
          | "readwig" => Drv.readWigFile bytes c
          | "readbed" => Drv.readBedFile bytes c
          | "wfwig" => Drv.wfWigFile bytes
          | "fileof" => Drv.fileOfCase bytes c
          | _ => Drv.wfBedFile bytes)
      | none, some l =>
        try
          let bytes ← IO.FS.readBinFile (l.getD 1 "")
          pure (match c.kind with
            | "readwig" => Drv.readWigFile bytes c
            | "readbed" => Drv.readBedFile bytes c
            | "wfwig" => Drv.wfWigFile bytes
            | "fileof" => Drv.fileOfCase bytes c
            | _ => Drv.wfBedFile bytes)
        catch _ => pure ["R no-such-file"]
      | none, none => pure ["R no-file-line"]
    | _ => pure (Drv.runCase c)
  for l in lines do out.putStrLn l
  out.putStrLn "END"

/-- reads the cases file one line at a time (a thorough run's file is hundreds of megabytes) and answers each case as
its `END` line arrives; the line grammar is `Drv.parseCases`'s -/
partial def serve (h : IO.FS.Handle) (out : IO.FS.Stream) (cur : Option Drv.Case) : IO Unit := do
  let raw ← h.getLine
  if raw.isEmpty then return ()
  let line := raw.trimAscii.toString
  if line.isEmpty || line.startsWith "#" then serve h out cur
  else
    let toks := Drv.tokens line
    match toks with
    | "CASE" :: id :: rest =>
      serve h out (some { id := id, kind := rest.headD "", args := rest.drop 1, lines := [] })
    | "END" :: _ =>
      match cur with
      | some c => answerCase out { c with lines := c.lines.reverse }; serve h out none
      | none => serve h out none
    | _ =>
      match cur with
      | some c => serve h out (some { c with lines := toks :: c.lines })
      | none => serve h out none

def main (args : List String) : IO UInt32 := do
  match args with
  | [path] =>
    let out ← IO.getStdout
    let h ← IO.FS.Handle.mk path .read
    serve h out none
    out.flush
    return 0
  | _ =>
    IO.eprintln "usage: bbmodel <cases-file>"
    return 2
