import BigtoolsModel.Driver.Util
import BigtoolsModel.PyBase
import BigtoolsModel.PyBins
import BigtoolsModel.PyOob
/-! Driver command `pyvalues`: the arrays `values()` of the Python binding returns, from the per-base routines
    (`PYB.perBaseG`, theorem `PYB.perBase_spec` / `values_spec`) and the exact-bin routines of integral width
    (`PYN.toArrayBins` / `PYN.toEntryArrayBins`, repaired; theorems `PBP.bins_spec`, `PEB.bed_bins_spec` about their
    compact twins), plus the out-of-bounds fill. Cells: `m` = the request's `missing`, `o` = its `oob`,
    `num/den` = a rational. Requests the model does not cover (non-integral width, zoom-backed) answer `na`. -/
namespace Drv

def cellText : PYN.Res → String
  | .missing => "m"
  | .val n 0 => if n == 0 then "nan" else "inf"
  | .val n d => s!"{n}/{d}"
  | .panic => "panic"

def pyValues (c : Case) : List String :=
  let bed := c.args.getD 0 "wig" == "bed"
  let len : Int := int (((c.records "LEN").head?.bind (·[1]?)).getD "0")
  let wig : List (Nat × Nat × Int) := (c.records "V").filterMap fun l =>
    (f32Int? (hexNat (l.getD 3 "0"))).map fun v => (nat (l.getD 1 ""), nat (l.getD 2 ""), v)
  let ents : List (Nat × Nat) := (c.records "E").map fun l => (nat (l.getD 1 ""), nat (l.getD 2 ""))
  (c.records "REQ").zipIdx.map fun (l, i) =>
    let start := int (l.getD 1 "0")
    let stop := int (l.getD 2 "0")
    let bins := l.getD 3 "-"
    let sm := match l.getD 4 "mean" with | "min" => PYN.Summary.min | "max" => .max | _ => .mean
    let missing := l.getD 5 "0"
    let exact := l.getD 7 "1" == "1"
    if stop ≤ start then s!"P {i} na" else
    let qs : Int := max start 0
    let qe : Int := min stop len
    let L := (stop - start).toNat
    -- what the reader hands over for the clamped range
    let wigIn : List (Nat × Nat × Int) := if qs ≥ qe then [] else
      wig.filterMap fun (s, e, v) => if (e : Int) > qs ∧ (s : Int) < qe then some ((max (s : Int) qs).toNat, (min (e : Int) qe).toNat, v) else none
    let bedIn : List (Nat × Nat) := if qs ≥ qe then [] else
      ents.filter fun (s, e) => decide ((e : Int) ≥ qs) && decide ((s : Int) ≤ qe)
    if bins == "-" then
      let r := if bed then PYB.perBaseG PYB.bump true start stop (bedIn.map fun (s, e) => ⟨s, e, 1⟩)
               else PYB.perBaseG PYB.assign false start stop (wigIn.map fun (s, e, v) => ⟨s, e, v⟩)
      match r with
      | .panic => s!"P {i} panic"
      | .ok cells =>
        let txt := cells.zipIdx.map fun (x, k) =>
          -- the out-of-bounds fill as the code computes it (`PYO.filled`; theorem `PYO.oob_fill_per_base`: position < 0 or ≥ length)
          if PYO.filled (-start) (len - start) L L k then "o" else match x with | some v => s!"{v}/1" | none => "m"
        s!"P {i} ok " ++ joinSp txt
    else
      let nb := nat bins
      if !exact || nb == 0 || L % nb != 0 then s!"P {i} na" else
      let m : Int := if missing == "nan" then 0 else int missing
      let res := if bed then PYN.toEntryArrayBins PYN.repaired sm m start L nb bedIn
                 else PYN.toArrayBins PYN.repaired sm start L nb wigIn
      let txt := res.zipIdx.map fun (x, k) =>
        -- `PYO.oob_fill_spec`: exactly the cells whose stretch starts below 0 or reaches beyond the chromosome's end
        if PYO.filled (-start) (len - start) L nb k then "o" else cellText x
      s!"P {i} ok " ++ joinSp txt

end Drv
