import BigtoolsModel.Driver.Util
import BigtoolsModel.TempBuf2
import BigtoolsModel.FView
import BigtoolsModel.Chunker
import BigtoolsModel.IndexerFix
import BigtoolsModel.AutoSqlNTest
import BigtoolsModel.MergePost
import BigtoolsModel.Fill
import BigtoolsModel.Compat
/-! Driver commands for the small kinds: staging buffer, FileView, chunker, indexer, autoSql, merge, fill.
    Always the repaired (`fixed = true`) variants: these are the ones the universal theorems are about. -/
namespace Drv

/-! ### C12 -/

def tbStep (s : TB.St) (a : TB.Act) : TB.St := (TB.step s a).getD s

inductive Pend where | none | await | len | expect

structure TbRun where
  s : TB.St
  pend : Pend := .none
  out : List String := []

def tbAfterDrop (r : TbRun) : TbRun :=
  match r.pend with
  | .await => if r.s.closed.isSome then { r with s := tbStep (tbStep r.s .cTake) .cSwap } else r
  | _ => r

def tempbuf (c : Case) : List String :=
  let inmem := c.opt "inmem" "1" == "1"
  let d0 := unhex (c.opt "d0" "-")
  let sched := (c.records "SCHED").flatMap (·.drop 1)
  let ws := sched.filterMap fun t => if t.startsWith "W:" then some (unhex (t.drop 2).toString) else none
  let r0 : TbRun := { s := TB.init inmem d0 ws }
  let r := sched.foldl (fun (r : TbRun) t =>
    if t.startsWith "W:" then { r with s := tbStep (tbStep r.s .pUpdate) .pWrite }
    else if t == "D" then tbAfterDrop { r with s := tbStep r.s .pDrop }
    else if t == "S" then { r with s := tbStep r.s .cSwitch }
    else if t == "R" then { r with out := r.out ++ [s!"RDY {if TB.readyNow r.s then 1 else 0}"] }
    else if t == "A" then tbAfterDrop { r with pend := .await }
    else if t == "L" then { r with pend := .len }
    else if t == "X" then { r with pend := .expect }
    else r) r0
  let fin := match r.pend with
    | .none => "DEST none"
    | .await => match r.s.cpc with
      | .done d => s!"DEST {hex d}"
      | .panicked => "DEST panic"
      | _ => "DEST blocked"
    | .len => match TB.lenNow r.s with
      | .ok n => s!"LEN {n}"
      | .blocked => "LEN blocked"
      | .panic => "LEN panic"
    | .expect => match TB.copyNow r.s with
      | .ok bs => s!"DEST {hex (d0 ++ bs)}"
      | .blocked => "DEST blocked"
      | .panic => "DEST panic"
  r.out ++ ["EARLY 0", fin]

/-! ### C18 -/

def textOf (c : Case) : List Nat := unhex (((c.records "TEXT").head?.bind (·[1]?)).getD "-")

/-- lines of a text, each with its newline (the last may lack it) -/
def splitLines (t : List Nat) : List (List Nat) :=
  let rec go : List Nat → List Nat → List (List Nat)
    | [], [] => []
    | [], acc => [acc.reverse]
    | 10 :: rest, acc => (10 :: acc).reverse :: go rest []
    | b :: rest, acc => go rest (b :: acc)
  go t []

def fileview (c : Case) : List String :=
  let file := textOf c
  let lo := nat (c.args.getD 0 "0")
  let hi := min (nat (c.args.getD 1 "0")) file.length
  let v0 : FView.View := ⟨lo, hi, lo⟩
  let ops := (c.records "OP").map fun l =>
    match l with
    | [_, "read", n] => FView.Op.read (nat n)
    | [_, "seek", "start", k] => .seek (.start (nat k))
    | [_, "seek", "cur", k] => .seek (.current (int k))
    | [_, "seek", _, k] => .seek (.fromEnd (int k))
    | _ => .read 0
  let rec go (v : FView.View) : List FView.Op → List String
    | [] => []
    | op :: rest =>
      let (v', o) := FView.stepView true file v op
      match o with
      | .bytes bs => s!"O bytes {hex bs}" :: go v' rest
      | .pos p => s!"O pos {p}" :: go v' rest
      | .panic => ["O panic"]
  go v0 ops

def chunks (c : Case) : List String :=
  let ls := (splitLines (textOf c)).map (·.length)
  let n := nat (c.args.getD 0 "1")
  ["CHUNKS " ++ joinSp ((CH.split ls n).map fun (a, b) => s!"{a}:{b}")]

/-- chromosome field of a line: bytes before the first tab, trailing whitespace trimmed (as `parse_bed`) -/
def chromField (line : List Nat) : List Nat :=
  let l := line.reverse.dropWhile (fun b => b == 10 || b == 13 || b == 32 || b == 9) |>.reverse
  l.takeWhile (· ≠ 9)

def index (c : Case) : List String :=
  let lines := splitLines (textOf c)
  let names := (lines.map chromField).eraseDups
  let idOf (n : List Nat) : Nat := (names.idxOf n) + 1
  let f : IX.File := lines.map fun l => (idOf (chromField l), l.length)
  match IX.indexFixed f with
  | none => ["INDEX err"]
  | some none => ["INDEX none"]
  | some (some l) => ["INDEX " ++ joinSp (l.map fun (o, ch) => s!"{o}:{hex (names.getD (ch - 1) [])}")]

/-! ### C19 -/

/-- the driver's character classes: `ASN.rustCC` -/
def uniCC : ASN.CC := ASN.rustCC

def utf8Encode (cps : List Nat) : List Nat :=
  cps.flatMap fun c =>
    if c < 0x80 then [c]
    else if c < 0x800 then [0xC0 + c / 64, 0x80 + c % 64]
    else if c < 0x10000 then [0xE0 + c / 4096, 0x80 + (c / 64) % 64, 0x80 + c % 64]
    else [0xF0 + c / 262144, 0x80 + (c / 4096) % 64, 0x80 + (c / 64) % 64, 0x80 + c % 64]

def hexS (s : List Nat) : String := hex (utf8Encode s)

def idxText : Option ASN.IndexType → String
  | none => "-"
  | some .primary => "primary"
  | some .unique => "unique"
  | some (.index none) => "index"
  | some (.index (some s)) => s!"index[{hexS s}]"

def ftText : ASN.FType → String
  | .basic n => strOfBytes n
  | .enum vs => "enum(" ++ ",".intercalate (vs.map hexS) ++ ")"
  | .set vs => "set(" ++ ",".intercalate (vs.map hexS) ++ ")"
  | .decl k n => s!"{strOfBytes k}:{hexS n.name}"

def errText : ASN.PErr → String
  | .invalidDeclareType => "InvalidDeclareType"
  | .invalidDeclareName => "InvalidDeclareName"
  | .invalidDeclareBrackets => "InvalidDeclareBrackets"
  | .invalidFieldSizeClose => "InvalidFieldSizeClose"
  | .invalidFieldCommentSeparater => "InvalidFieldCommentSeparater"
  | .invalidFieldValuesBrackets => "InvalidFieldValuesBrackets"
  | .invalidIndexSizeBrackets => "InvalidIndexSizeBrackets"
  | .outOfFuel => "OutOfFuel"

def autosql (c : Case) : List String :=
  match (c.records "GEN").head? with
  | some l =>
    -- number of extra columns = number of tab-separated fields of the rest-of-line (0 for an empty rest)
    let rest := unhex (l.getD 1 "-")
    let extra := if rest.isEmpty then 0 else (rest.filter (· == 9)).length + 1
    let text := ASN.bedAutosql extra
    [s!"GEN {hex text}", s!"FIELDS {ASN.fieldCount uniCC true text}"]
  | none =>
    let text := utf8Decode (textOf c)
    match ASN.parseAutosql uniCC true text with
    | .error e => [s!"PARSE err {errText e}"]
    | .ok ds =>
      s!"PARSE ok {ds.length}" :: ds.flatMap fun d =>
        s!"DECL {strOfBytes d.kind} {hexS d.name.name} {idxText d.name.indexType} {if d.name.auto then 1 else 0} {hexS d.comment} {d.fields.length}" ::
        d.fields.map fun f =>
          s!"FIELD {ftText f.ftype} {(f.size.map hexS).getD "none"} {hexS f.name} {idxText f.indexType} {if f.auto then 1 else 0} {hexS f.comment}"

/-! ### C15 -/

def valText (s e : Nat) (v : Int) : String := s!"{s}:{e}:{hex8 (intF32 v)}"

def mergeCase (W : Nat) (c : Case) : List String :=
  let n := nat (c.args.getD 0 "1")
  let streams : List (List MG.Val) := (List.range n).map fun k =>
    (c.records "MV").filterMap fun l =>
      if nat (l.getD 1 "") == k then
        (f32Int? (hexNat (l.getD 4 "0"))).map fun v => ⟨nat (l.getD 2 ""), nat (l.getD 3 ""), v⟩
      else none
  let merged := MG.merge W streams
  let clip := c.opt "clip" "none"
  let adj := c.opt "adjust" "none"
  let thr := c.opt "thr" "none"
  let res := if clip == "none" && adj == "none" && thr == "none" then merged
    else MG.post (if clip == "none" then none else some (int clip)) (if adj == "none" then 0 else int adj)
      (if thr == "none" then 0 else int thr) merged
  ["M" ++ String.join (res.map fun x => " " ++ valText x.s x.e x.v)]

def fillCase (c : Case) : List String :=
  let xs : List FL.Val := (c.records "V").filterMap fun l =>
    (f32Int? (hexNat (l.getD 3 "0"))).map fun v => ⟨nat (l.getD 1 ""), nat (l.getD 2 ""), v⟩
  let r := match c.args with
    | [a, b] => FL.fillStartToEnd xs (nat a) (nat b)
    | _ => FL.fill xs
  ["F" ++ String.join (r.map fun x => " " ++ valText x.s x.e x.v)]

end Drv

namespace Drv

/-! ### C14: prediction from the recorded operation log

`OPLOG` is the implementation's own `OPS` line (`S<pos>`, `W<pos>+<len>`, `W…!` for a write that puts a non-zero
byte into the magic number, `F`). By `Props.C14.magic_zero_while_no_write_touches_it` every prefix without a
`!` write is rejected by the readers; the writer lays the header down last, so from that write on the file is
complete; a failing operation is always reported (explicit final flush). -/
def opsCase (c : Case) : List String :=
  let ops := ((c.records "OPLOG").head?.map (·.drop 2)).getD []
  let hot := ops.map fun t => t.endsWith "!"
  let n := ops.length
  let firstHot := hot.idxOf true
  let verdict (k : Nat) : String := if k ≤ firstHot then "r" else "c"
  let prefixLine := "PREFIX" ++ String.join ((List.range n).map fun k => " " ++ verdict k)
  ["R ok", s!"FINAL {if firstHot < n then "opens" else "rejected"}", prefixLine,
   s!"FIRSTOPEN {if firstHot + 1 < n then toString (firstHot + 1) else "never"}",
   "FAULT" ++ String.join ((List.range n).map fun _ => " e")]

end Drv

namespace Drv

def compatCase (c : Case) : List String :=
  let args := (c.records "ARG").map fun l => unhex (l.getD 1 "-")
  match CLI.compatArgs args with
  | .panic => ["R panic"]
  | .args l => ["ARGS" ++ String.join (l.map fun a => " " ++ hex a)]

end Drv
