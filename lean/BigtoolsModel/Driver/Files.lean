import BigtoolsModel.Driver.Util
import BigtoolsModel.WfFile
import BigtoolsModel.FileRTBed
import BigtoolsModel.FileOf
import BigtoolsModel.FileOfBed
/-! Driver commands that read a real file: `readwig` / `readbed` (the byte-level READER model answering the
    case's queries on the bytes the implementation wrote — or any foreign file) and `wfwig` / `wfbed` (the
    Lean-defined well-formedness certificate). Uncompressed blocks are read in place; for compressed files the
    case carries `INFLATE <offset> <size> <hex>` lines (zlib is a parameter of the model: the table is produced
    by an independent inflater) and the block is read from the inflated bytes. -/
namespace Drv
open BBI

def errText' : BBI.Err → String
  | .unknownMagic => "UnknownMagic"
  | .invalidChroms => "InvalidChroms"
  | .truncated w => s!"Truncated:{w}"
  | .invalidFile w => s!"InvalidFile:{w}"
  | .outOfFuel => "OutOfFuel"

/-- the file followed by the inflated blocks; a compressed block `(off, size)` is redirected into the overlay -/
structure Image where
  src : Src
  redirect : List (Nat × Nat × Nat × Nat)      -- (offset, size) ↦ (virtual offset, inflated size)

def mkImage (file : ByteArray) (c : Case) : Image :=
  let table := (c.records "INFLATE").map fun l => (nat (l.getD 1 ""), nat (l.getD 2 ""), unhex (l.getD 3 "-"))
  let rec place : List (Nat × Nat × List Nat) → Nat → List (Nat × Nat × Nat × Nat)
    | [], _ => []
    | (o, sz, bs) :: rest, pos => (o, sz, pos, bs.length) :: place rest (pos + bs.length)
  let redirect := place table file.size
  let overlay : ByteArray := table.foldl (fun acc (_, _, bs) => bs.foldl (fun a b => a.push (UInt8.ofNat b)) acc) file
  { src := ⟨overlay.size, fun i => overlay.get! i⟩, redirect }

def Image.block (im : Image) (b : Block) : Block :=
  match im.redirect.find? (fun r => r.1 == b.offset && r.2.1 == b.size) with
  | some r => { b with offset := r.2.2.1, size := r.2.2.2 }
  | none => b

def readWigFile (file : ByteArray) (c : Case) : List String :=
  let im := mkImage file c
  let s0 : Src := ⟨file.size, fun i => file.get! i⟩
  match readHeader s0 with
  | .error e => [s!"OPEN err {errText' e}"]
  | .ok h =>
    match readChroms h s0 with
    | .error e => [s!"OPEN err {errText' e}"]
    | .ok chroms =>
      let sorted := chroms.toArray.qsort (fun a b => a.id < b.id) |>.toList
      let chromLine := "CHROMS" ++ String.join (sorted.map fun ch =>
        s!" {String.ofList (ch.name.map fun b => Char.ofNat b.toNat)}:{ch.id}:{ch.length}")
      let zoomLine := "ZOOMS" ++ String.join (h.zooms.map fun z => s!" {z.reduction}")
      let nlb := nat (c.opt "nonleaf" "24")
      let answers := (c.records "Q").zipIdx.map fun (q, qi) =>
        let name := (nameBytes (q.getD 2 "")).map UInt8.ofNat
        let qs := nat (q.getD 3 "")
        let qe := nat (q.getD 4 "")
        match q.getD 1 "" with
        | "iv" =>
          match chroms.find? (·.name = name) with
          | none => s!"A {qi} err InvalidChromosome"
          | some ch =>
            if h.fullIndexOffset + 48 > file.size then s!"A {qi} err Truncated" else
            if u32 h.endian s0 h.fullIndexOffset ≠ CIR_TREE_MAGIC then s!"A {qi} err UnknownMagic" else
            match searchCir h.endian s0 nlb ch.id qs qe (file.size + 1) [h.fullIndexOffset + 48] [] with
            | .error e => s!"A {qi} err {errText' e}"
            | .ok blocks =>
              let rec go : List Block → Except BBI.Err (List Value)
                | [] => .ok []
                | b :: bs =>
                  match wigBlock h.endian im.src (im.block b) ch.id qs qe with
                  | .error e => .error e
                  | .ok a => match go bs with
                    | .error e => .error e
                    | .ok r => .ok (a ++ r)
              match go blocks with
              | .error e => s!"A {qi} err {errText' e}"
              | .ok vs => s!"A {qi} ok" ++ String.join (vs.map fun v => s!" {v.start}:{v.stop}:{hex8 v.bits}")
        | _ => s!"A {qi} skip"
      ["OPEN ok", chromLine, zoomLine] ++ answers

def wfWigFile (file : ByteArray) : List String :=
  match checkBigWig ⟨file.size, fun i => file.get! i⟩ with
  | .error e => [s!"WF bad {e}"]
  | .ok r => [s!"WF ok chroms={r.chroms.length} sections={r.index.leaves.length} values={r.values.length} zooms={r.zoomIndexes.length}"]

def wfBedFile (file : ByteArray) : List String :=
  match checkBigBedData ⟨file.size, fun i => file.get! i⟩ with
  | .error e => [s!"WF bad {e}"]
  | .ok r => [s!"WF ok sections={r.1} entries={r.2}"]

/-- `get_block_entries` over a `Src`, either byte order (the little-endian case is `BBI.bedBlock`, about which
    `bed_query_bytes` / `checked_bed_query` speak): records until fewer than 12 bytes remain, `(0,0)` = padding
    ⇒ invalid file, inclusive filter, all records on the queried chromosome. -/
def bedBlockSrc (e : Endian) (s : Src) (b : Block) (chrom qs qe : Nat) : Except String (List (Nat × Nat × List Nat)) :=
  let stop := b.offset + b.size
  let rec go (fuel pos : Nat) (acc : List (Nat × Nat × Nat × List Nat)) : Except String (List (Nat × Nat × Nat × List Nat)) :=
    match fuel with
    | 0 => .error "OutOfFuel"
    | fuel + 1 =>
      if pos + 12 > stop then .ok acc.reverse else
      let c := u32 e s pos
      let st := u32 e s (pos + 4)
      let en := u32 e s (pos + 8)
      if st = 0 ∧ en = 0 then .error "InvalidFile" else
      let restLen := ((List.range (stop - (pos + 12))).takeWhile fun i => byte s (pos + 12 + i) ≠ 0).length
      let rest := (List.range restLen).map fun i => byte s (pos + 12 + i)
      go fuel (pos + 12 + restLen + 1) ((c, st, en, rest) :: acc)
  match go (b.size + 1) b.offset [] with
  | .error m => .error m
  | .ok recs =>
    if recs.all (fun r => r.1 == chrom) then
      .ok ((recs.filter fun r => decide (r.2.2.1 ≥ qs) && decide (r.2.1 ≤ qe)).map fun r => (r.2.1, r.2.2.1, r.2.2.2))
    else .error "ChromAssert"

def readBedFile (file : ByteArray) (c : Case) : List String :=
  let im := mkImage file c
  let s0 : Src := ⟨file.size, fun i => file.get! i⟩
  match readHeader s0 with
  | .error e => [s!"OPEN err {errText' e}"]
  | .ok h =>
    match readChroms h s0 with
    | .error e => [s!"OPEN err {errText' e}"]
    | .ok chroms =>
      let sorted := chroms.toArray.qsort (fun a b => a.id < b.id) |>.toList
      let chromLine := "CHROMS" ++ String.join (sorted.map fun ch =>
        s!" {String.ofList (ch.name.map fun b => Char.ofNat b.toNat)}:{ch.id}:{ch.length}")
      let zoomLine := "ZOOMS" ++ String.join (h.zooms.map fun z => s!" {z.reduction}")
      let nlb := nat (c.opt "nonleaf" "24")
      let answers := (c.records "Q").zipIdx.map fun (q, qi) =>
        let name := (nameBytes (q.getD 2 "")).map UInt8.ofNat
        let qs := nat (q.getD 3 "")
        let qe := nat (q.getD 4 "")
        match q.getD 1 "" with
        | "iv" =>
          match chroms.find? (·.name = name) with
          | none => s!"A {qi} err InvalidChromosome"
          | some ch =>
            if h.fullIndexOffset + 48 > file.size then s!"A {qi} err Truncated" else
            if u32 h.endian s0 h.fullIndexOffset ≠ CIR_TREE_MAGIC then s!"A {qi} err UnknownMagic" else
            match searchCir h.endian s0 nlb ch.id qs qe (file.size + 1) [h.fullIndexOffset + 48] [] with
            | .error e => s!"A {qi} err {errText' e}"
            | .ok blocks =>
              let rec go : List Block → Except String (List (Nat × Nat × List Nat))
                | [] => .ok []
                | b :: bs =>
                  match bedBlockSrc h.endian im.src (im.block b) ch.id qs qe with
                  | .error e => .error e
                  | .ok a => match go bs with
                    | .error e => .error e
                    | .ok r => .ok (a ++ r)
              match go blocks with
              | .error e => s!"A {qi} err {e}"
              | .ok vs => s!"A {qi} ok" ++ String.join (vs.map fun v => s!" {v.1}:{v.2.1}:{hex v.2.2}")
        | _ => s!"A {qi} skip"
      ["OPEN ok", chromLine, zoomLine] ++ answers

end Drv

namespace Drv
open BBI

def leU (bs : List Nat) (off n : Nat) : Nat := ((bs.drop off).take n).foldr (fun b acc => acc * 256 + b) 0

def firstDiff (a b : List Nat) : Nat :=
  let rec go : List Nat → List Nat → Nat → Nat
    | x :: xs, y :: ys, i => if x == y then go xs ys (i + 1) else i
    | _, _, i => i
  go a b 0

/-- `fileof`: do the REAL bytes of an uncompressed little-endian file equal the theorem-carrying model file
    (`BBI.fileOf` / `BBI.bedFileOf`) built from the input, with the areas the model leaves arbitrary (zoom directory,
    autoSql, summary, data count; everything after the main index) taken from the real file? If so,
    `wig_model_roundtrip` / `bed_model_roundtrip` are statements about this very file. -/
def fileOfCase (file : ByteArray) (c : Case) : List String :=
  let real := file.toList.map (·.toNat)
  let ips := nat (c.opt "ips" "1024")
  let b := nat (c.opt "bs" "256")
  let zc := leU real 6 2
  let dof := leU real 16 8
  let aso := leU real 36 8
  let so := leU real 44 8
  let ubs := leU real 52 4
  let fc := leU real 32 2
  let dfc := leU real 34 2
  let mid := (real.drop 64).take (dof + 8 - 64)
  let sizes := (c.records "CHROM").map fun l => (l.getD 1 "", nat (l.getD 2 "0"))
  let sizeOf (n : String) : Nat := ((sizes.find? (·.1 == n)).map (·.2)).getD 0
  let bytes : List Nat → List Nat :=
    if c.args.getD 0 "wig" == "bed" then
      let recs : List (String × CD.Entry) := (c.records "E").map fun l =>
        (l.getD 1 "", ⟨nat (l.getD 2 ""), nat (l.getD 3 ""), unhex (l.getD 4 "-")⟩)
      let runs := groupRuns recs
      let cs : List ChromBedIn := runs.map fun (n, es) => ⟨nameBytes n, sizeOf n, es⟩
      fun tail => (bedFileOf ⟨ips, b, zc, dof, fc, dfc, aso, so, ubs, mid, tail⟩ cs).bytes
    else
      let recs : List (String × Value) := (c.records "V").map fun l =>
        (l.getD 1 "", ⟨nat (l.getD 2 ""), nat (l.getD 3 ""), hexNat (l.getD 4 "0")⟩)
      let runs := groupRuns recs
      let cs : List ChromIn := runs.map fun (n, vs) => ⟨nameBytes n, sizeOf n, vs⟩
      fun tail => (fileOf ⟨ips, b, zc, dof, so, ubs, mid, tail⟩ cs).bytes
  let core := bytes []
  let model := bytes (real.drop core.length)
  if model == real then ["FILEOF eq"] else [s!"FILEOF differs at {firstDiff model real} (model {model.length} bytes, real {real.length})"]

end Drv
