import BigtoolsModel.Driver.Util
import BigtoolsModel.Validate
import BigtoolsModel.SummaryFold
import BigtoolsModel.Tiler3
import BigtoolsModel.BedZoomCompose
import BigtoolsModel.WigSections
import BigtoolsModel.Stats2
import BigtoolsModel.ZoomLevels
import BigtoolsModel.BedSummary
import BigtoolsModel.BBIWrite
import BigtoolsModel.BBIWriteBed
import BigtoolsModel.FileOf
import BigtoolsModel.FileOfBed
import BigtoolsModel.AutoSqlNTest
/-! Driver commands `wig` and `bed`: the property-level observables of a written file, computed from the input
    by the model's specification-level functions (the byte-level writer/reader models are proved equal to
    these: `BBI.wig_model_roundtrip`, `BBI.bed_model_roundtrip`, `Tiler2.run_faithful`, `SW.summary_*`, …). -/
namespace Drv

structure WigV where
  s : Nat
  e : Nat
  bits : Nat

def chromSizes (c : Case) : List (String × Nat) := (c.records "CHROM").map fun l => (l.getD 1 "", nat (l.getD 2 "0"))

/-- Rust's `String` order on ASCII names = lexicographic on bytes -/
def strLe (a b : String) : Bool := decide (a.toUTF8.toList ≤ b.toUTF8.toList)

def validate (bed : Bool) (c : Case) (runs : List (String × List VL.Item)) : Option VL.Err :=
  let sizes := chromSizes c
  let names := (runs.map (·.1)).eraseDups
  let idOf (n : String) : Nat := names.idxOf n
  let sizeOf (i : Nat) : Option Nat := (names[i]?).bind fun n => (sizes.find? (·.1 == n)).map (·.2)
  let le (a b : Nat) : Bool := match names[a]?, names[b]? with
    | some x, some y => strLe x y
    | _, _ => false
  -- the serial source compares a new chromosome with the previous one: refused when `new ≤ prev`… as the model states it
  VL.write bed (c.opt "sort" "all" == "start") sizeOf le (runs.map fun (n, items) => (idOf n, items))

def errClass : VL.Err → String
  | .invalidInput => "InvalidInput"
  | .invalidChromosome => "InvalidChromosome"
  | .notSorted => "SourceError"
  | .empty => "SourceError"

def chromsLine (c : Case) (names : List String) : String :=
  let sizes := chromSizes c
  "CHROMS" ++ String.join (names.zipIdx.map fun (n, i) => s!" {n}:{i}:{((sizes.find? (·.1 == n)).map (·.2)).getD 0}")

/-- the zoom resolutions the file lists: for a manual list the model predicts them (`ZL.normalize`, none when
    nothing covers a base — a level without records is not written); for automatic selection (which depends on
    compressed sizes) they are taken from the file (`LEVELS`) -/
def levels (c : Case) : List Nat :=
  let z := c.opt "zooms" "auto"
  if z == "auto" then ((c.records "LEVELS").head?.map fun l => (l.drop 1).map nat).getD []
  else if z == "none" then []
  else
    let covers := (c.records "V").any (fun l => nat (l.getD 2 "") < nat (l.getD 3 "")) ||
                  (c.records "E").any (fun l => nat (l.getD 2 "") < nat (l.getD 3 ""))
    if covers then ZL.normalize ((z.splitOn ",").map nat) else []

/-- `#k` = the k-th stored level, otherwise the reduction level itself -/
def levelOf (c : Case) (tok : String) : Nat :=
  if tok.startsWith "#" then ((levels c)[nat (tok.drop 1).toString]?).getD 4294967295 else nat tok

def recLine (id : Nat) (r : Tiler2.Rec) (sumsq : Int) : String :=
  s!"{id} {r.start} {r.stop} {r.bases} {r.mn} {r.mx} {r.sum} {sumsq}"

def zoomKeep (qs qe : Nat) (r : Tiler2.Rec) : Bool := decide (r.stop ≥ qs) && decide (r.start ≤ qe)

/-! ### bigWig -/

def wigRecs (size : Nat) (vals : List Tiler2.Val) : Option (List Tiler2.Rec3) := Tiler2.run3 Tiler2.repaired size vals

def wigCase (c : Case) : List String :=
  let recs : List (String × WigV) := (c.records "V").map fun l =>
    (l.getD 1 "", ⟨nat (l.getD 2 ""), nat (l.getD 3 ""), hexNat (l.getD 4 "0")⟩)
  let runs := groupRuns recs
  let names := runs.map (·.1)
  match validate false c (runs.map fun (n, vs) => (n, vs.map fun v => ⟨v.s, v.e⟩)) with
  | some e => [s!"R err {errClass e}", "OPEN err refused-leftover"]   -- a refused input leaves nothing a reader opens (C14)
  | none =>
    let ips := nat (c.opt "ips" "1024")
    let intVals : List (Option (List Tiler2.Val)) := runs.map fun (_, vs) =>
      vs.mapM fun v => (f32Int? v.bits).map fun i => (⟨v.s, v.e, i⟩ : Tiler2.Val)
    let allInt := intVals.all (·.isSome)
    let sections := (runs.map fun (_, vs) => (vs.length + ips - 1) / ips).sum
    let sumLine :=
      if allInt then
        let sms := intVals.map fun o => SF.chromSummary ((o.getD []).map fun v => ⟨v.s, v.e, v.v⟩)
        let t := SF.mergeAll true sms
        s!"SUM {sections} {t.bases} {t.mn} {t.mx} {t.sum} {t.sumsq}"
      else s!"SUM {sections} na"
    let answers := (c.records "Q").zipIdx.map fun (q, qi) =>
      let chrom := q.getD 2 ""
      let qs := nat (q.getD 3 "")
      let qe := nat (q.getD 4 "")
      -- `get_zoom_interval` looks the level up before the chromosome
      if q.getD 1 "" == "zoom" && !(levels c).contains (levelOf c (q.getD 5 "0")) then s!"A {qi} err Zoom" else
      match names.idxOf? chrom with
      | none => s!"A {qi} err InvalidChromosome"
      | some ci =>
        let vs := ((runs[ci]?).map (·.2)).getD []
        match q.getD 1 "" with
        | "iv" =>
          let kept := vs.filterMap fun v =>
            if v.e > qs ∧ v.s < qe then some (max v.s qs, min v.e qe, v.bits) else none
          s!"A {qi} ok" ++ String.join (kept.map fun (s, e, b) => s!" {s}:{e}:{hex8 b}")
        | "vals" =>
          let cells : List (Option Nat) := (List.range (qe - qs)).map fun i =>
            (vs.find? fun v => v.s ≤ qs + i ∧ qs + i < v.e ∧ v.e > qs ∧ v.s < qe).map (·.bits)
          -- later blocks overwrite earlier ones in the code; values are disjoint, so at most one covers a base
          let rec rle : List (Option Nat) → Option (Option Nat × Nat) → List String
            | [], none => []
            | [], some (v, n) => [s!" {match v with | some b => hex8 b | none => "nan"}*{n}"]
            | x :: rest, none => rle rest (some (x, 1))
            | x :: rest, some (v, n) =>
              if x == v then rle rest (some (v, n + 1))
              else s!" {match v with | some b => hex8 b | none => "nan"}*{n}" :: rle rest (some (x, 1))
          s!"A {qi} ok" ++ String.join (rle cells none)
        | "stats" =>
          -- `stats_for_bed_item`: size, covered bases, sum, min, max of the stored values clipped to the region
          match (intVals[ci]?).bind id with
          | none => s!"A {qi} na"
          | some ivs =>
            let clipped : List ST.Val := ST.query qs qe (ivs.map fun v => ⟨v.s, v.e, v.v⟩)
            let st := ST.stats qs qe clipped
            let mn := ST.reportMin qs qe clipped
            let mx := ST.reportMax qs qe clipped
            let f (o : Option Int) : String := match o with | some v => toString v | none => "nan"
            s!"A {qi} ok {st.size} {st.bases} {st.sum} {f mn} {f mx}"
        | "zoom" =>
          let lvl := levelOf c (q.getD 5 "0")
          if !(levels c).contains lvl then s!"A {qi} err Zoom" else
          match (intVals[ci]?).bind id with
          | none => s!"A {qi} na"
          | some ivs =>
            match wigRecs lvl ivs with
            | none => s!"A {qi} outOfFuel"
            | some rs =>
              let kept := rs.filter fun r => zoomKeep qs qe r.base
              s!"A {qi} ok" ++ String.join (kept.map fun r => " | " ++ recLine ci r.base r.sumsq)
        | _ => s!"A {qi} ?"
    ["R ok", "OPEN ok", chromsLine c names, "ZOOMS" ++ String.join ((levels c).map fun l => s!" {l}"),
     s!"HDR version=4 fields=0 defined=0 compressed={c.opt "compress" "0"}", sumLine] ++ answers

/-! ### bigBed -/

def BED3 : List Nat := Gen.BED3

structure BedE where
  s : Nat
  e : Nat
  rest : String

/-- the depth segments the sweep emits: `(SW.sweepAll inf es [] []).1`, computed through `BZC.emitted` (theorem
    `BZC.sweepAll_emitted`: the same list; `sweepAll` appends to its accumulator and is quadratic on long inputs) -/
def segsOf (es : List (Nat × Nat)) : List SW.Seg := (BZC.emitted 4294967295 es []).map (·.1)

/-- per-chromosome summary from the emitted segments and the cross-chromosome merge: `BSUM.ofSegs` / `BSUM.merge`
    (theorem `BSUM.mergeAll_ofSegs`) -/
def bedChromSummary (es : List (Nat × Nat)) : BSUM.Sm := BSUM.ofSegs (segsOf es)

/-- zoom records of one chromosome: the flagged tiler over the emitted depth segments; the sum of squares is the
    `sum` of the same run on squared depths (`Tiler2.run3_rel`) -/
def bedRecs (size : Nat) (es : List (Nat × Nat)) : Option (List (Tiler2.Rec × Int)) :=
  let em := BZC.emitted 4294967295 es []
  let run (sq : Bool) := (Tiler2.processAllF Tiler2.repaired size
      (em.map fun (g, f) => ((⟨g.s, g.e, if sq then (g.d : Int) * g.d else g.d⟩ : Tiler2.Val), f)) { live := none, out := [] }).map (·.out)
  match run false, run true with
  | some a, some b => some (a.zip (b.map (·.sum)))
  | _, _ => none

def bedCase (c : Case) : List String :=
  let recs : List (String × BedE) := (c.records "E").map fun l =>
    (l.getD 1 "", ⟨nat (l.getD 2 ""), nat (l.getD 3 ""), l.getD 4 "-"⟩)
  let runs := groupRuns recs
  let names := runs.map (·.1)
  let autosql : Option (List Nat) := (c.records "AUTOSQL").head?.map fun l => unhex (l.getD 1 "-")
  if (autosql.getD []).contains 0 then ["R err InvalidInput", "OPEN err refused-leftover"] else
  match validate true c (runs.map fun (n, vs) => (n, vs.map fun v => ⟨v.s, v.e⟩)) with
  | some e => [s!"R err {errClass e}", "OPEN err refused-leftover"]   -- a refused input leaves nothing a reader opens (C14)
  | none =>
    let text := autosql.getD BED3
    let fc := ASN.fieldCount ASN.rustCC true (utf8Decode text)
    let sms := runs.map fun (_, es) => bedChromSummary (es.map fun x => (x.s, x.e))
    let t := match sms with
      | [] => (⟨0, 0, 0, 0, 0⟩ : BSUM.Sm)
      | s :: rest => rest.foldl BSUM.merge s
    let n := (runs.map (·.2.length)).sum
    let answers := (c.records "Q").zipIdx.map fun (q, qi) =>
      let chrom := q.getD 2 ""
      let qs := nat (q.getD 3 "")
      let qe := nat (q.getD 4 "")
      -- `get_zoom_interval` looks the level up before the chromosome
      if q.getD 1 "" == "zoom" && !(levels c).contains (levelOf c (q.getD 5 "0")) then s!"A {qi} err Zoom" else
      match names.idxOf? chrom with
      | none => s!"A {qi} err InvalidChromosome"
      | some ci =>
        let es := ((runs[ci]?).map (·.2)).getD []
        match q.getD 1 "" with
        | "iv" =>
          let kept := es.filter fun x => decide (x.e ≥ qs) && decide (x.s ≤ qe)
          s!"A {qi} ok" ++ String.join (kept.map fun x => s!" {x.s}:{x.e}:{x.rest}")
        | "zoom" =>
          let lvl := levelOf c (q.getD 5 "0")
          if !(levels c).contains lvl then s!"A {qi} err Zoom" else
          match bedRecs lvl (es.map fun x => (x.s, x.e)) with
          | none => s!"A {qi} outOfFuel"
          | some rs =>
            let kept := rs.filter fun r => zoomKeep qs qe r.1
            s!"A {qi} ok" ++ String.join (kept.map fun r => " | " ++ recLine ci r.1 r.2)
        | _ => s!"A {qi} ?"
    ["R ok", "OPEN ok", chromsLine c names, "ZOOMS" ++ String.join ((levels c).map fun l => s!" {l}"),
     s!"HDR version=4 fields={fc} defined={fc} compressed={c.opt "compress" "0"}",
     s!"SUM {n} {t.bases} {t.mn} {t.mx} {t.sum} {t.sumsq}", s!"ITEMCOUNT {n}", s!"AUTOSQL {hex text}"] ++ answers

end Drv

namespace Drv

def fnv64 (bs : List Nat) : Nat :=
  bs.foldl (fun h b => ((h ^^^ b) * 0x100000001b3) % 2 ^ 64) 0xcbf29ce484222325

def hex16 (n : Nat) : String := String.ofList ((List.range 16).map fun i => hexDigit ((n / 16 ^ (15 - i)) % 16))

/-- (B) byte-level correspondence: the bytes the model writer lays down for an uncompressed bigWig with manual
    zoom sizes and integer values (`BW.writeBigWig`), as length + FNV-1a hash, to compare with the real file. -/
def wigBytesCase (c : Case) : List String :=
  let recs : List (String × WigV) := (c.records "V").map fun l =>
    (l.getD 1 "", ⟨nat (l.getD 2 ""), nat (l.getD 3 ""), hexNat (l.getD 4 "0")⟩)
  let runs := groupRuns recs
  let sizes := chromSizes c
  let zooms := c.opt "zooms" "none"
  let zs : Option (List Nat) := if zooms == "none" then some [] else if zooms == "auto" then none else
    some (((zooms.splitOn ",").map nat).filter (· ≠ 0)).eraseDups
  let input : Option (List (List Nat × Nat × List BW.V)) := runs.mapM fun (n, vs) =>
    -- small integers only: every statistic is then exact in f64 / f32, as in the model's exact arithmetic
    (vs.mapM fun v => ((f32Int? v.bits).filter fun i => i.natAbs < 2 ^ 16).map fun i => (⟨v.s, v.e, i⟩ : BW.V)).map fun xs =>
      (nameBytes n, ((sizes.find? (·.1 == n)).map (·.2)).getD 0, xs)
  match zs, input with
  | some z, some inp =>
    let blobs : BW.Blobs := if c.opt "compress" "0" != "0" then
        some ((c.records "DEFL").map fun l => (unhex (l.getD 1 "-"), unhex (l.getD 2 "-"))) else none
    let sorted := (z.toArray.qsort (· < ·)).toList.take 10
    let (bytes, zok) := BW.writeBigWigZ ⟨nat (c.opt "ips" "1024"), nat (c.opt "bs" "256"), sorted⟩ blobs inp
    if !zok then ["BYTES blocks-do-not-inflate-to-the-model-sections"] else
    let ubs := (bytes.drop 52).headD 0 + 256 * ((bytes.drop 53).headD 0 + 256 * ((bytes.drop 54).headD 0 + 256 * (bytes.drop 55).headD 0))
    -- the theorem-carrying model `BBI.fileOf` (subject of `wig_model_roundtrip`) with the zoom / summary areas of
    -- these bytes must reproduce them exactly: then the round-trip theorem speaks about this very file
    let cs : List BBI.ChromIn := inp.map fun ch => ⟨ch.1, ch.2.1, ch.2.2.map fun x => ⟨x.s, x.e, BW.floatBits 8 23 x.v⟩⟩
    let zc := (bytes.drop 6).headD 0 + 256 * (bytes.drop 7).headD 0
    let mk (tail : List Nat) : BBI.WOpts :=
      ⟨nat (c.opt "ips" "1024"), nat (c.opt "bs" "256"), zc, 344, 304, ubs, (bytes.drop 64).take 288, tail⟩
    let f0 := BBI.fileOf (mk []) cs
    let same := (BBI.fileOf (mk (bytes.drop f0.bytes.length)) cs).bytes == bytes
    [s!"BYTES {bytes.length} {hex16 (fnv64 bytes)}"] ++ (if blobs.isSome then [] else [s!"FILEOF {if same then "eq" else "differs"}"]) ++
      (if c.opt "dump" "0" == "1" then [s!"HEX {hex bytes}"] else [])
  | _, _ => ["BYTES na"]

/-- (B) for bigBed: the bytes `BW.writeBigBed` lays down for an uncompressed bigBed with a manual (or empty) list of
    zoom sizes, as length + FNV-1a hash. Every statistic is a coverage depth, so the model is exact for all inputs. -/
def bedBytesCase (c : Case) : List String :=
  let recs : List (String × BW.BedE) := (c.records "E").map fun l =>
    (l.getD 1 "", ⟨nat (l.getD 2 ""), nat (l.getD 3 ""), unhex (l.getD 4 "-")⟩)
  let runs := groupRuns recs
  let sizes := chromSizes c
  let zooms := c.opt "zooms" "none"
  let zs : Option (List Nat) := if zooms == "none" then some [] else if zooms == "auto" then none else
    some (((zooms.splitOn ",").map nat).filter (· ≠ 0)).eraseDups
  let autosql : List Nat := ((c.records "AUTOSQL").head?.map fun l => unhex (l.getD 1 "-")).getD BED3
  match zs with
  | some z =>
    let blobs : BW.Blobs := if c.opt "compress" "0" != "0" then
        some ((c.records "DEFL").map fun l => (unhex (l.getD 1 "-"), unhex (l.getD 2 "-"))) else none
    let sorted := (z.toArray.qsort (· < ·)).toList.take 10
    let input := runs.map fun (n, es) => (nameBytes n, ((sizes.find? (·.1 == n)).map (·.2)).getD 0, es)
    let (bytes, zok) := BW.writeBigBedZ ⟨nat (c.opt "ips" "1024"), nat (c.opt "bs" "256"), sorted⟩ blobs autosql
      (ASN.fieldCount ASN.rustCC true (utf8Decode autosql)) input
    if !zok then ["BYTES blocks-do-not-inflate-to-the-model-sections"] else
    -- the theorem-carrying model `BBI.bedFileOf` (subject of `bed_model_roundtrip`) with the zoom directory / autoSql /
    -- summary / zoom areas of these bytes must reproduce them exactly
    let cs : List BBI.ChromBedIn := input.map fun ch => ⟨ch.1, ch.2.1, ch.2.2.map fun x => ⟨x.s, x.e, x.rest⟩⟩
    let zc := (bytes.drop 6).headD 0 + 256 * (bytes.drop 7).headD 0
    let fc := ASN.fieldCount ASN.rustCC true (utf8Decode autosql)
    let midLen := 240 + autosql.length + 1 + 40 + 8
    let mk (tail : List Nat) : BBI.BOpts :=
      ⟨nat (c.opt "ips" "1024"), nat (c.opt "bs" "256"), zc, 304 + autosql.length + 1 + 40, fc, fc, 304, 304 + autosql.length + 1, 0,
       (bytes.drop 64).take midLen, tail⟩
    let f0 := BBI.bedFileOf (mk []) cs
    let same := (BBI.bedFileOf (mk (bytes.drop f0.bytes.length)) cs).bytes == bytes
    [s!"BYTES {bytes.length} {hex16 (fnv64 bytes)}"] ++ (if blobs.isSome then [] else [s!"FILEOF {if same then "eq" else "differs"}"]) ++
      (if c.opt "dump" "0" == "1" then [s!"HEX {hex bytes}"] else [])
  | none => ["BYTES na"]

end Drv
