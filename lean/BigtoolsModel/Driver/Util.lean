/-! Line protocol shared with `/verif/harness` (see `harness/src/proto.rs`): case parsing, hex, numbers. -/
namespace Drv

structure Case where
  id : String
  kind : String
  args : List String
  lines : List (List String)
deriving Repr

def tokens (line : String) : List String := (line.splitOn " ").filter (· ≠ "")

def parseCases (text : String) : List Case := Id.run do
  let mut out : Array Case := #[]
  let mut cur : Option Case := none
  for raw in text.splitOn "\n" do
    let line := raw.trimAscii.toString
    if line.isEmpty || line.startsWith "#" then continue
    let toks := tokens line
    match toks with
    | "CASE" :: id :: rest =>
      cur := some { id := id, kind := rest.headD "", args := rest.drop 1, lines := [] }
    | "END" :: _ =>
      match cur with
      | some c => out := out.push { c with lines := c.lines.reverse }; cur := none
      | none => pure ()
    | _ =>
      match cur with
      | some c => cur := some { c with lines := toks :: c.lines }
      | none => pure ()
  return out.toList

def Case.records (c : Case) (tag : String) : List (List String) := c.lines.filter (·.head? == some tag)

def Case.opts (c : Case) : List (String × String) :=
  (c.records "OPT").flatMap fun l => (l.drop 1).filterMap fun kv =>
    match kv.splitOn "=" with
    | [k, v] => some (k, v)
    | _ => none

def Case.opt (c : Case) (k d : String) : String := ((c.opts.find? (·.1 == k)).map (·.2)).getD d

def hexDigit (n : Nat) : Char := if n < 10 then Char.ofNat (48 + n) else Char.ofNat (87 + n)

def hex (bs : List Nat) : String :=
  if bs.isEmpty then "-" else String.ofList (bs.flatMap fun b => [hexDigit (b / 16), hexDigit (b % 16)])

def hexVal (c : Char) : Nat :=
  let n := c.toNat
  if 48 ≤ n ∧ n ≤ 57 then n - 48 else if 97 ≤ n ∧ n ≤ 102 then n - 87 else if 65 ≤ n ∧ n ≤ 70 then n - 55 else 0

def unhexGo : List Char → List Nat
  | a :: b :: rest => (hexVal a * 16 + hexVal b) :: unhexGo rest
  | _ => []

def unhex (s : String) : List Nat := if s == "-" then [] else unhexGo s.toList

def hexNat (s : String) : Nat := s.toList.foldl (fun acc c => acc * 16 + hexVal c) 0

def hex8 (n : Nat) : String :=
  String.ofList ((List.range 8).map fun i => hexDigit ((n / 16 ^ (7 - i)) % 16))

def nat (s : String) : Nat := s.toNat?.getD 0
def int (s : String) : Int := s.toInt?.getD 0

def nameBytes (s : String) : List Nat := s.toUTF8.toList.map (·.toNat)

def strOfBytes (bs : List Nat) : String := String.ofList (bs.map Char.ofNat)

/-- IEEE-754 single precision bit pattern → the integer it denotes, when it denotes one. -/
def f32Int? (bits : Nat) : Option Int :=
  let sign := bits / 2 ^ 31
  let e := (bits / 2 ^ 23) % 256
  let m := bits % 2 ^ 23
  if e == 0 then (if m == 0 then some 0 else none)
  else if e == 255 then none
  else
    let mant := 2 ^ 23 + m
    -- value = mant * 2^(e - 150)
    let v? : Option Nat :=
      if e ≥ 150 then some (mant * 2 ^ (e - 150))
      else
        let sh := 150 - e
        if sh ≤ 23 ∧ mant % 2 ^ sh == 0 then some (mant / 2 ^ sh) else none
    v?.map fun v => if sign == 1 then -(v : Int) else (v : Int)

/-- integer → f32 bit pattern (exact for |n| < 2^24) -/
def intF32 (n : Int) : Nat :=
  if n == 0 then 0 else
  let a := n.natAbs
  let lg := Nat.log2 a
  let mant := if lg ≤ 23 then a * 2 ^ (23 - lg) else a / 2 ^ (lg - 23)
  (if n < 0 then 2 ^ 31 else 0) + (lg + 127) * 2 ^ 23 + (mant - 2 ^ 23)

def joinSp (l : List String) : String := " ".intercalate l

/-- consecutive records grouped into chromosome runs, in order of appearance -/
def groupRuns {α} (recs : List (String × α)) : List (String × List α) :=
  let rec go : List (String × α) → Option (String × List α) → List (String × List α)
    | [], none => []
    | [], some (c, acc) => [(c, acc.reverse)]
    | (c, x) :: rest, none => go rest (some (c, [x]))
    | (c, x) :: rest, some (c', acc) =>
      if c == c' then go rest (some (c', x :: acc)) else (c', acc.reverse) :: go rest (some (c, [x]))
  go recs none


/-- UTF-8 bytes → code points (well-formed input assumed; the harness only sends valid UTF-8) -/
def utf8Decode : List Nat → List Nat
  | [] => []
  | b :: rest =>
    if b < 0x80 then b :: utf8Decode rest
    else if b < 0xE0 then
      match rest with
      | b1 :: r => ((b % 32) * 64 + b1 % 64) :: utf8Decode r
      | _ => []
    else if b < 0xF0 then
      match rest with
      | b1 :: b2 :: r => ((b % 16) * 4096 + (b1 % 64) * 64 + b2 % 64) :: utf8Decode r
      | _ => []
    else
      match rest with
      | b1 :: b2 :: b3 :: r => ((b % 8) * 262144 + (b1 % 64) * 4096 + (b2 % 64) * 64 + b3 % 64) :: utf8Decode r
      | _ => []
termination_by l => l.length
decreasing_by all_goals (simp_wf; try omega)

end Drv
