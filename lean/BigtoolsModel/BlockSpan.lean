import BigtoolsModel.Query
import BigtoolsModel.RTBuild
/-! Probe (C04/C03): the span a writer advertises for each data block covers every item in the block — for the
    repaired bigBed rule (first start, largest end) on any start-sorted entry list, and for the rule as found
    (first start, last end) on lists whose ends are also non-decreasing (bigWig values). With `bed_query_spec` /
    `wig_query_spec` this gives: a range query through the index returns exactly the filtered items. -/
namespace RT

def maxEnd : List Item → Nat
  | [] => 0
  | v :: vs => max v.e (maxEnd vs)

/-- `encode_section`: `fixed = true` takes the largest end (repair of D2), `false` the last item's end -/
def mkBlock (fixed : Bool) (chrom : Nat) (items : List Item) : Block :=
  ⟨chrom, (items.head?.map (·.s)).getD 0,
    if fixed then maxEnd items else (items.getLast?.map (·.e)).getD 0, items⟩

def StartSorted (l : List Item) : Prop := l.Pairwise fun a b => a.s ≤ b.s
def EndSorted (l : List Item) : Prop := l.Pairwise fun a b => a.e ≤ b.e

theorem le_maxEnd (items : List Item) : ∀ v ∈ items, v.e ≤ maxEnd items := by
  induction items with
  | nil => simp
  | cons x xs ih =>
    intro v hv
    simp only [List.mem_cons] at hv
    simp only [maxEnd]
    rcases hv with rfl | hv
    · omega
    · have := ih v hv; omega

theorem head_le (items : List Item) (h : StartSorted items) : ∀ v ∈ items, (items.head?.map (·.s)).getD 0 ≤ v.s := by
  cases items with
  | nil => simp
  | cons x xs =>
    intro v hv
    simp only [List.head?_cons, Option.map_some, Option.getD_some]
    simp only [List.mem_cons] at hv
    rcases hv with rfl | hv
    · omega
    · exact (List.pairwise_cons.mp h).1 v hv

theorem le_last (items : List Item) (h : EndSorted items) : ∀ v ∈ items, v.e ≤ (items.getLast?.map (·.e)).getD 0 := by
  induction items with
  | nil => simp
  | cons x xs ih =>
    intro v hv
    have hp := List.pairwise_cons.mp h
    cases xs with
    | nil => simp at hv; subst hv; simp
    | cons y ys =>
      rw [List.getLast?_cons_cons]
      simp only [List.mem_cons] at hv
      rcases hv with rfl | hv
      · -- v is the head: below every later end, in particular the last
        cases hl : (y :: ys).getLast? with
        | none => simp at hl
        | some z =>
          simp only [Option.map_some, Option.getD_some]
          exact hp.1 z (List.mem_of_getLast? hl)
      · exact ih hp.2 v (by simpa using hv)

theorem mkBlock_covers_fixed (chrom : Nat) (items : List Item) (h : StartSorted items) :
    ∀ v ∈ items, (mkBlock true chrom items).lo ≤ v.s ∧ v.e ≤ (mkBlock true chrom items).hi :=
  fun v hv => ⟨head_le items h v hv, le_maxEnd items v hv⟩

theorem mkBlock_covers_asFound (chrom : Nat) (items : List Item) (h : StartSorted items) (he : EndSorted items) :
    ∀ v ∈ items, (mkBlock false chrom items).lo ≤ v.s ∧ v.e ≤ (mkBlock false chrom items).hi :=
  fun v hv => ⟨head_le items h v hv, le_last items he v hv⟩

/-- the blocks of one chromosome: its items cut into runs of `ips` -/
def cut (fixed : Bool) (ips chrom : Nat) (items : List Item) : List Block :=
  (chunks ips items).map (mkBlock fixed chrom)

/-- the blocks of a file: chromosomes in order -/
def fileBlocks (fixed : Bool) (ips : Nat) (chroms : List (Nat × List Item)) : List Block :=
  chroms.flatMap fun c => cut fixed ips c.1 c.2

theorem cut_spansCover_fixed (ips chrom : Nat) (items : List Item) (h : StartSorted items) :
    SpansCover (cut true ips chrom items) := by
  intro b hb
  simp only [cut, List.mem_map] at hb
  obtain ⟨ch, hch, rfl⟩ := hb
  exact mkBlock_covers_fixed chrom ch (h.sublist (chunks_sublist ips items ch hch))

theorem cut_spansCover_asFound (ips chrom : Nat) (items : List Item) (h : StartSorted items) (he : EndSorted items) :
    SpansCover (cut false ips chrom items) := by
  intro b hb
  simp only [cut, List.mem_map] at hb
  obtain ⟨ch, hch, rfl⟩ := hb
  exact mkBlock_covers_asFound chrom ch (h.sublist (chunks_sublist ips items ch hch))
    (he.sublist (chunks_sublist ips items ch hch))

theorem fileBlocks_cover_fixed (ips : Nat) (chroms : List (Nat × List Item)) (h : ∀ c ∈ chroms, StartSorted c.2) :
    SpansCover (fileBlocks true ips chroms) := by
  intro b hb
  simp only [fileBlocks, List.mem_flatMap] at hb
  obtain ⟨c, hc, hb⟩ := hb
  exact cut_spansCover_fixed ips c.1 c.2 (h c hc) b hb

theorem fileBlocks_cover_asFound (ips : Nat) (chroms : List (Nat × List Item))
    (h : ∀ c ∈ chroms, StartSorted c.2 ∧ EndSorted c.2) : SpansCover (fileBlocks false ips chroms) := by
  intro b hb
  simp only [fileBlocks, List.mem_flatMap] at hb
  obtain ⟨c, hc, hb⟩ := hb
  exact cut_spansCover_asFound ips c.1 c.2 (h c hc).1 (h c hc).2 b hb

/-- the items of the blocks of a chromosome are the chromosome's items, in order -/
theorem cut_items (fixed : Bool) (ips chrom : Nat) (hips : 0 < ips) (items : List Item) :
    (cut fixed ips chrom items).flatMap (·.items) = items := by
  simp only [cut, List.flatMap_map]
  have : (fun ch => (mkBlock fixed chrom ch).items) = (fun ch : List Item => ch) := by funext ch; rfl
  rw [this]
  rw [List.flatMap_id']
  exact chunks_flatten ips hips items

/-- **C04 (repaired writer).** Any start-sorted entry lists, any `items_per_slot > 0`, any range: the entries
    read from the candidate blocks the index yields are exactly the stored entries of the chromosome that pass
    the reader's inclusive filter, each once, in stored order — however long earlier entries are. -/
theorem bed_query_complete (ips : Nat) (chroms : List (Nat × List Item)) (h : ∀ c ∈ chroms, StartSorted c.2)
    (c s e : Nat) :
    queryVia (bedKeep s e) id (candidates (fileBlocks true ips chroms) c s e) c =
      querySpec (bedKeep s e) id (fileBlocks true ips chroms) c :=
  bed_query_spec _ c s e (fileBlocks_cover_fixed ips chroms h)

/-- **C03 (writer as found is enough for bigWig).** Values are disjoint and in order, so ends are sorted too. -/
theorem wig_query_complete (ips : Nat) (chroms : List (Nat × List Item))
    (h : ∀ c ∈ chroms, StartSorted c.2 ∧ EndSorted c.2) (c s e : Nat) :
    queryVia (wigKeep s e) (wigClip s e) (candidates (fileBlocks false ips chroms) c s e) c =
      querySpec (wigKeep s e) (wigClip s e) (fileBlocks false ips chroms) c :=
  wig_query_spec _ c s e (fileBlocks_cover_asFound ips chroms h)

/-- as found, the bigBed rule does not cover: the failing file of D2 -/
theorem asFound_not_cover : ¬ SpansCover (cut false 2 0 [⟨0, 1000, 0⟩, ⟨10, 20, 1⟩, ⟨30, 40, 2⟩, ⟨50, 60, 3⟩]) := by
  intro h
  have hmem : mkBlock false 0 [⟨0, 1000, 0⟩, ⟨10, 20, 1⟩] ∈
      cut false 2 0 [⟨0, 1000, 0⟩, ⟨10, 20, 1⟩, ⟨30, 40, 2⟩, ⟨50, 60, 3⟩] := by
    have : cut false 2 0 [⟨0, 1000, 0⟩, ⟨10, 20, 1⟩, ⟨30, 40, 2⟩, ⟨50, 60, 3⟩] =
        [mkBlock false 0 [⟨0, 1000, 0⟩, ⟨10, 20, 1⟩], mkBlock false 0 [⟨30, 40, 2⟩, ⟨50, 60, 3⟩]] := by rfl
    rw [this]; exact List.mem_cons_self
  have := h _ hmem ⟨0, 1000, 0⟩ (by simp [mkBlock])
  revert this; decide

end RT
