/-! Probe (C06/C08): the bigBed coverage sweep with the zoom tail rule represents the depth function. -/
namespace SW

structure Seg where
  s : Nat
  e : Nat
  d : Nat
deriving Repr, DecidableEq

/-- contribution of one segment at position `p` -/
def Seg.at (g : Seg) (p : Nat) : Nat := if g.s ≤ p ∧ p < g.e then g.d else 0

def segDepth : List Seg → Nat → Nat
  | [], _ => 0
  | g :: rest, p => g.at p + segDepth rest p

def depth : List (Nat × Nat) → Nat → Nat
  | [], _ => 0
  | x :: rest, p => (if x.1 ≤ p ∧ p < x.2 then 1 else 0) + depth rest p

theorem segDepth_append (l1 l2 : List Seg) (p : Nat) : segDepth (l1 ++ l2) p = segDepth l1 p + segDepth l2 p := by
  induction l1 with
  | nil => simp [segDepth]
  | cons g rest ih => simp [segDepth, ih]; omega

theorem depth_append (l1 l2 : List (Nat × Nat)) (p : Nat) : depth (l1 ++ l2) p = depth l1 p + depth l2 p := by
  induction l1 with
  | nil => simp [depth]
  | cons g rest ih => simp [depth, ih]; omega

/-- "for each item in `overlap` that overlaps the current item, add 1; split the one the item ends inside" -/
def bump (itemEnd : Nat) : List Seg → List Seg
  | [] => []
  | o :: rest =>
    if itemEnd < o.e then
      { o with e := itemEnd, d := o.d + 1 } :: { s := itemEnd, e := o.e, d := o.d } :: rest
    else
      { o with d := o.d + 1 } :: bump itemEnd rest

/-- end of the covered stretch: end of the last segment, or `n` when there is none -/
def endOf (n : Nat) : List Seg → Nat
  | [] => n
  | g :: rest => endOf g.e rest

/-- zoom tail rule: extend past the last segment when the item reaches further -/
def tail (itemStart itemEnd : Nat) (l : List Seg) : List Seg :=
  if endOf itemStart l < itemEnd ∨ l = [] then l ++ [⟨endOf itemStart l, itemEnd, 1⟩] else l

/-- flush every segment that starts before `n`; returns (emitted, remaining) -/
def flush (n : Nat) : List Seg → List Seg × List Seg
  | [] => ([], [])
  | f :: rest =>
    if f.s < n then
      if f.e ≤ n then
        let r := flush n rest
        (f :: r.1, r.2)
      else ([{ f with e := n }], { f with s := n } :: rest)
    else ([], f :: rest)

/-- contiguous, well-formed, positive-depth segments starting at `n` -/
def Chain : Nat → List Seg → Prop
  | _, [] => True
  | n, g :: rest => g.s = n ∧ g.s ≤ g.e ∧ 1 ≤ g.d ∧ Chain g.e rest

theorem chain_zero_left (n : Nat) (l : List Seg) (h : Chain n l) (p : Nat) (hp : p < n) : segDepth l p = 0 := by
  induction l generalizing n with
  | nil => rfl
  | cons g rest ih =>
    obtain ⟨h1, h2, _, h4⟩ := h
    simp only [segDepth, Seg.at]
    rw [ih g.e h4 (by omega)]
    have : ¬ (g.s ≤ p ∧ p < g.e) := by omega
    simp [this]

theorem chain_end_ge (n : Nat) (l : List Seg) (h : Chain n l) : n ≤ endOf n l := by
  induction l generalizing n with
  | nil => simp [endOf]
  | cons g rest ih =>
    obtain ⟨h1, h2, _, h4⟩ := h
    simp only [endOf]
    have := ih g.e h4
    omega

theorem chain_zero_right (n : Nat) (l : List Seg) (h : Chain n l) (p : Nat) (hp : endOf n l ≤ p) : segDepth l p = 0 := by
  induction l generalizing n with
  | nil => rfl
  | cons g rest ih =>
    obtain ⟨h1, h2, _, h4⟩ := h
    simp only [endOf] at hp
    have hge : g.e ≤ endOf g.e rest := chain_end_ge g.e rest h4
    simp only [segDepth, Seg.at]
    rw [ih g.e h4 hp]
    have : ¬ (g.s ≤ p ∧ p < g.e) := by omega
    simp [this]



theorem bump_chain (e : Nat) : ∀ (l : List Seg) (n : Nat), Chain n l → n ≤ e → Chain n (bump e l) := by
  intro l
  induction l with
  | nil => intro n _ _; simp [bump, Chain]
  | cons g rest ih =>
    intro n h hne
    obtain ⟨h1, h2, h3, h4⟩ := h
    simp only [bump]
    split
    · exact ⟨h1, by simp; omega, by simp, rfl, by simp; omega, h3, h4⟩
    · exact ⟨h1, h2, by simp, ih g.e h4 (by omega)⟩

theorem bump_endOf (e : Nat) : ∀ (l : List Seg) (n : Nat), endOf n (bump e l) = endOf n l := by
  intro l
  induction l with
  | nil => intro n; simp [bump]
  | cons g rest ih =>
    intro n
    simp only [bump]
    split
    · simp [endOf]
    · simp only [endOf]; exact ih g.e

theorem bump_depth (e : Nat) : ∀ (l : List Seg) (n : Nat), Chain n l → n ≤ e → ∀ p,
    segDepth (bump e l) p = segDepth l p + (if n ≤ p ∧ p < e ∧ p < endOf n l then 1 else 0) := by
  intro l
  induction l with
  | nil =>
    intro n _ _ p
    have : ¬ (n ≤ p ∧ p < e ∧ p < n) := by omega
    simp [bump, segDepth, endOf, this]
  | cons g rest ih =>
    intro n h hne p
    obtain ⟨h1, h2, h3, h4⟩ := h
    have hge := chain_end_ge g.e rest h4
    have hE : endOf n (g :: rest) = endOf g.e rest := rfl
    rw [hE]
    simp only [bump]
    split
    · rename_i hlt
      simp only [segDepth, Seg.at]
      repeat' split
      all_goals omega
    · rename_i hlt
      have ih' := ih g.e h4 (by omega) p
      simp only [segDepth, Seg.at, ih']
      repeat' split
      all_goals omega

theorem chain_append (g : Seg) : ∀ (l : List Seg) (n : Nat), Chain n l → g.s = endOf n l → g.s ≤ g.e → 1 ≤ g.d →
    Chain n (l ++ [g]) := by
  intro l
  induction l with
  | nil => intro n _ h1 h2 h3; exact ⟨h1, h2, h3, trivial⟩
  | cons x rest ih =>
    intro n h h1 h2 h3
    obtain ⟨a1, a2, a3, a4⟩ := h
    exact ⟨a1, a2, a3, ih x.e a4 h1 h2 h3⟩

theorem endOf_append (g : Seg) : ∀ (l : List Seg) (n : Nat), endOf n (l ++ [g]) = g.e := by
  intro l
  induction l with
  | nil => intro n; rfl
  | cons x rest ih => intro n; exact ih x.e

theorem tail_chain (n e : Nat) (l : List Seg) (h : Chain n l) (hne : n ≤ e) : Chain n (tail n e l) := by
  unfold tail
  split
  · rename_i hc
    refine chain_append _ l n h rfl ?_ (Nat.le_refl 1)
    rcases hc with hc | hc
    · simp; omega
    · subst hc; simpa [endOf] using hne
  · exact h

theorem tail_depth (n e : Nat) (l : List Seg) (h : Chain n l) (p : Nat) :
    segDepth (tail n e l) p = segDepth l p + (if endOf n l ≤ p ∧ p < e then 1 else 0) := by
  unfold tail
  split
  · simp only [segDepth_append, segDepth, Seg.at, Nat.add_zero]
  · rename_i hc
    have : ¬ (endOf n l ≤ p ∧ p < e) := by
      intro ⟨a, b⟩; exact hc (Or.inl (by omega))
    rw [if_neg this]; rfl

theorem flush_depth (n : Nat) : ∀ (l : List Seg) (p : Nat),
    segDepth l p = segDepth (flush n l).1 p + segDepth (flush n l).2 p := by
  intro l
  induction l with
  | nil => intro p; simp [flush, segDepth]
  | cons f rest ih =>
    intro p
    simp only [flush]
    split
    · split
      · simp only [segDepth]; rw [ih p]; omega
      · simp only [segDepth, Seg.at]
        repeat' split
        all_goals omega
    · simp [segDepth]

theorem flush_rem_chain (n : Nat) : ∀ (l : List Seg) (m : Nat), Chain m l → m ≤ n → Chain n (flush n l).2 := by
  intro l
  induction l with
  | nil => intro m _ _; simp [flush, Chain]
  | cons f rest ih =>
    intro m h hm
    obtain ⟨a1, a2, a3, a4⟩ := h
    simp only [flush]
    split
    · split
      · rename_i h1 h2; exact ih f.e a4 h2
      · rename_i h1 h2; exact ⟨rfl, by simp; omega, a3, a4⟩
    · rename_i h1; exact ⟨by omega, a2, a3, a4⟩

/-- emitted segments: well-formed, positive, inside `[m, n]`, in order -/
def Ordered : Nat → Nat → List Seg → Prop
  | _, _, [] => True
  | lo, hi, g :: rest => lo ≤ g.s ∧ g.s ≤ g.e ∧ g.e ≤ hi ∧ 1 ≤ g.d ∧ Ordered g.e hi rest

theorem flush_em_ordered (n : Nat) : ∀ (l : List Seg) (m : Nat), Chain m l → Ordered m n (flush n l).1 := by
  intro l
  induction l with
  | nil => intro m _; simp [flush, Ordered]
  | cons f rest ih =>
    intro m h
    obtain ⟨a1, a2, a3, a4⟩ := h
    simp only [flush]
    split
    · split
      · rename_i h1 h2; exact ⟨by omega, a2, h2, a3, ih f.e a4⟩
      · rename_i h1 h2; exact ⟨by simp; omega, by simp; omega, by simp, a3, trivial⟩
    · trivial

theorem tail_endOf (n e : Nat) (l : List Seg) (hne : n ≤ e) : endOf n (tail n e l) = max (endOf n l) e := by
  unfold tail
  split
  · rename_i hc
    rw [endOf_append]
    show e = max (endOf n l) e
    rcases hc with hc | hc
    · omega
    · subst hc; simp only [endOf]; omega
  · rename_i hc
    have : ¬ (endOf n l < e) := fun h => hc (Or.inl h)
    omega

theorem flush_rem_endOf (n : Nat) : ∀ (l : List Seg) (m : Nat), Chain m l → m ≤ n →
    endOf n (flush n l).2 = max n (endOf m l) := by
  intro l
  induction l with
  | nil => intro m _ hm; simp [flush, endOf]; omega
  | cons f rest ih =>
    intro m h hm
    obtain ⟨a1, a2, a3, a4⟩ := h
    have hge := chain_end_ge f.e rest a4
    simp only [flush]
    split
    · split
      · rename_i h1 h2; simp only [endOf]; exact ih f.e a4 h2
      · rename_i h1 h2; simp only [endOf]; omega
    · rename_i h1; simp only [endOf]; omega

/-- one entry: bump, extend the tail, flush up to the next start -/
def stepEntry (s e n' : Nat) (rem : List Seg) : List Seg × List Seg := flush n' (tail s e (bump e rem))

def nextStart (inf : Nat) : List (Nat × Nat) → Nat
  | [] => inf
  | x :: _ => x.1

def sweepAll (inf : Nat) : List (Nat × Nat) → List Seg → List Seg → List Seg × List Seg
  | [], rem, em => (em, rem)
  | x :: rest, rem, em =>
    let r := stepEntry x.1 x.2 (nextStart inf rest) rem
    sweepAll inf rest r.2 (em ++ r.1)

structure SInv (inf n : Nat) (E : List (Nat × Nat)) (rem em : List Seg) : Prop where
  chain : Chain n rem
  rep : ∀ p, segDepth em p + segDepth rem p = depth E p
  endLe : endOf n rem ≤ inf
  nLe : n ≤ inf

theorem step_inv (inf s e n' : Nat) (E : List (Nat × Nat)) (rem em : List Seg)
    (h : SInv inf s E rem em) (hse : s ≤ e) (hn : s ≤ n') (he : e ≤ inf) (hn' : n' ≤ inf) :
    SInv inf n' (E ++ [(s, e)]) (stepEntry s e n' rem).2 (em ++ (stepEntry s e n' rem).1) := by
  have c1 := bump_chain e rem s h.chain hse
  have c2 := tail_chain s e _ c1 hse
  have hend : endOf s (tail s e (bump e rem)) = max (endOf s rem) e := by
    rw [tail_endOf s e _ hse, bump_endOf]
  refine ⟨flush_rem_chain n' _ s c2 hn, ?_, ?_, hn'⟩
  · intro p
    have d1 := bump_depth e rem s h.chain hse p
    have d2 := tail_depth s e (bump e rem) c1 p
    have d3 := flush_depth n' (tail s e (bump e rem)) p
    have hr := h.rep p
    have hge := chain_end_ge s rem h.chain
    rw [bump_endOf] at d2
    simp only [stepEntry, segDepth_append, depth_append, depth]
    have key : (if s ≤ p ∧ p < e ∧ p < endOf s rem then 1 else 0) + (if endOf s rem ≤ p ∧ p < e then 1 else 0)
        = (if s ≤ p ∧ p < e then 1 else 0) := by
      repeat' split
      all_goals omega
    omega
  · simp only [stepEntry]
    rw [flush_rem_endOf n' _ s c2 hn, hend]
    have := h.endLe
    omega

/-- start-sorted, well-formed entries bounded by `inf`; `n` is the start of the first one -/
def Valid (inf : Nat) : Nat → List (Nat × Nat) → Prop
  | _, [] => True
  | n, x :: rest => x.1 = n ∧ x.1 ≤ x.2 ∧ x.2 ≤ inf ∧ n ≤ nextStart inf rest ∧ nextStart inf rest ≤ inf ∧
      Valid inf (nextStart inf rest) rest

theorem sweepAll_spec (inf : Nat) : ∀ (todo E : List (Nat × Nat)) (rem em : List Seg) (n : Nat),
    SInv inf n E rem em → Valid inf n todo →
    SInv inf (if todo = [] then n else inf) (E ++ todo)
      (sweepAll inf todo rem em).2 (sweepAll inf todo rem em).1 := by
  intro todo
  induction todo with
  | nil => intro E rem em n h _; simpa [sweepAll] using h
  | cons x rest ih =>
    intro E rem em n h hv
    obtain ⟨v1, v2, v3, v4, v5, v6⟩ := hv
    subst v1
    have hs := step_inv inf x.1 x.2 (nextStart inf rest) E rem em h v2 v4 v3 v5
    have h2 := ih (E ++ [(x.1, x.2)]) _ _ _ hs v6
    have hn : (if rest = [] then nextStart inf rest else inf) = inf := by
      cases rest <;> simp [nextStart]
    rw [hn] at h2
    simpa [sweepAll] using h2

/-- **Coverage sweep (zoom tail rule) represents the depth function.** For every start-sorted list of
    well-formed entries, the segments the sweep emits have, at every position, exactly the number of
    entries covering that position; nothing is left behind. -/
theorem sweep_represents_depth (inf : Nat) (x : Nat × Nat) (rest : List (Nat × Nat))
    (hv : Valid inf x.1 (x :: rest)) (p : Nat) :
    segDepth (sweepAll inf (x :: rest) [] []).1 p = depth (x :: rest) p := by
  have h0 : SInv inf x.1 [] [] [] := by
    refine ⟨trivial, by intro p; simp [segDepth, depth], ?_, ?_⟩
    · simp only [endOf]; obtain ⟨_, a, b, _⟩ := hv; omega
    · obtain ⟨_, a, b, _⟩ := hv; omega
  have h := sweepAll_spec inf (x :: rest) [] [] [] x.1 h0 hv
  simp only [List.cons_ne_nil, if_false, List.nil_append] at h
  have hr := h.rep p
  have hz : segDepth (sweepAll inf (x :: rest) [] []).2 p = 0 := by
    by_cases hp : p < inf
    · exact chain_zero_left inf _ h.chain p hp
    · exact chain_zero_right inf _ h.chain p (by have := h.endLe; omega)
  omega

/-- the summary tail rule as found does not: the confirmed failing input (D3) -/
def tailSummary (itemStart itemEnd : Nat) (l : List Seg) : List Seg :=
  if endOf itemStart l = itemStart then l ++ [⟨itemStart, itemEnd, 1⟩] else l

def sweepAllAsFound (inf : Nat) : List (Nat × Nat) → List Seg → List Seg → List Seg × List Seg
  | [], rem, em => (em, rem)
  | x :: rest, rem, em =>
    let r := flush (nextStart inf rest) (tailSummary x.1 x.2 (bump x.2 rem))
    sweepAllAsFound inf rest r.2 (em ++ r.1)

theorem summary_rule_as_found_undercounts :
    segDepth (sweepAllAsFound 1000 [(0,10),(5,15)] [] []).1 12 = 0 ∧ depth [(0,10),(5,15)] 12 = 1 := by
  decide

end SW
