import BigtoolsModel.Generated.Funcs
import BigtoolsModel.RT
/-! The index-pruning predicate of the code, `overlaps` (bbiread.rs) — REGENERATED from the Rust source on every run
    (`Generated/Funcs.lean`) — is the model's `RT.ov`, for all arguments. Every search theorem of C03/C04/C05/C10 is
    stated with `RT.ov`; this theorem is what ties them to the function the code has now. -/
namespace RT

-- the simp set is deliberately wider than today's source needs: it must also normalise equivalent rewrites of it
set_option linter.unusedSimpArgs false in
theorem gen_overlaps_eq_ov (q qs qe b1 b1s b2 b2e : Nat) :
    Gen.overlaps q qs qe b1 b1s b2 b2e = ov ⟨q, qs⟩ ⟨q, qe⟩ ⟨b1, b1s⟩ ⟨b2, b2e⟩ := by
  have hle : ∀ (p r : Pos), (p ≤ r) = (p.c < r.c ∨ (p.c = r.c ∧ p.b ≤ r.b)) := fun _ _ => rfl
  rw [Bool.eq_iff_iff]
  simp only [ov, hle, Bool.and_eq_true, decide_eq_true_eq]
  delta Gen.overlaps
  try delta Gen.compare_position
  first
  | grind
  | (simp only [Bool.and_eq_true, Bool.or_eq_true, Bool.not_eq_true', decide_eq_true_eq, decide_eq_false_iff_not,
       Bool.if_false_left, Bool.if_false_right, Bool.if_true_left, Bool.if_true_right, ite_eq_left_iff, Bool.false_eq_true]
     repeat' split
     all_goals omega)

end RT
