/-! Probe (C03): `CachedBBIFileRead` is transparent — after any history of queries, every cached lookup
    returns what a fresh read returns; the block cache may be cleared at any size limit. -/
namespace CA

variable {K V : Type} [DecidableEq K]

/-- association-list cache -/
def lookup (c : List (K × V)) (k : K) : Option V := (c.find? (·.1 = k)).map (·.2)

structure Cache (K V : Type) where
  entries : List (K × V)

/-- `get_block_data` / `blocks_for_cir_tree_node`: hit → cached value; miss → read, possibly clear first
    (`limit = none` for the index-node map, `some 5000` for the block map), insert -/
def baseOf (limit : Option Nat) (entries : List (K × V)) : List (K × V) :=
  match limit with
  | some l => if entries.length ≥ l then [] else entries
  | none => entries

def access (read : K → Option V) (limit : Option Nat) (c : Cache K V) (k : K) : Option V × Cache K V :=
  match lookup c.entries k with
  | some v => (some v, c)
  | none =>
    let base := baseOf limit c.entries
    match read k with
    | some v => (some v, ⟨(k, v) :: base⟩)
    | none => (none, ⟨base⟩)

def Coherent (read : K → Option V) (c : Cache K V) : Prop := ∀ kv ∈ c.entries, read kv.1 = some kv.2

theorem lookup_coherent (read : K → Option V) (c : Cache K V) (h : Coherent read c) (k : K) (v : V)
    (hl : lookup c.entries k = some v) : read k = some v := by
  unfold lookup at hl
  cases hf : c.entries.find? (·.1 = k) with
  | none => simp [hf] at hl
  | some kv =>
    simp only [hf, Option.map_some, Option.some.injEq] at hl
    have hmem := List.mem_of_find?_eq_some hf
    have hk := List.find?_some hf
    simp only [decide_eq_true_eq] at hk
    rw [← hk, ← hl]
    exact h kv hmem

/-- one access: the answer is the uncached answer and the cache stays coherent -/
theorem access_transparent (read : K → Option V) (limit : Option Nat) (c : Cache K V) (h : Coherent read c) (k : K) :
    (access read limit c k).1 = read k ∧ Coherent read (access read limit c k).2 := by
  unfold access
  cases hl : lookup c.entries k with
  | some v => exact ⟨(lookup_coherent read c h k v hl).symm, h⟩
  | none =>
    simp only
    have hbase : ∀ kv ∈ baseOf limit c.entries, read kv.1 = some kv.2 := by
      intro kv hkv
      unfold baseOf at hkv
      cases limit with
      | none => exact h kv hkv
      | some l =>
        simp only at hkv
        split at hkv
        · simp at hkv
        · exact h kv hkv
    cases hr : read k with
    | none => exact ⟨rfl, hbase⟩
    | some v =>
      refine ⟨rfl, ?_⟩
      intro kv hkv
      simp only [List.mem_cons] at hkv
      rcases hkv with rfl | hkv
      · exact hr
      · exact hbase kv hkv

/-- **Cache transparency over any history.** Starting from an empty cache, after any sequence of
    accesses every answer equals a fresh read — for every clearing limit. -/
theorem history_transparent (read : K → Option V) (limit : Option Nat) :
    ∀ (keys : List K) (c : Cache K V), Coherent read c →
      ∀ k, (access read limit (keys.foldl (fun c k => (access read limit c k).2) c) k).1 = read k := by
  intro keys
  induction keys with
  | nil => intro c h k; exact (access_transparent read limit c h k).1
  | cons x xs ih =>
    intro c h k
    simp only [List.foldl_cons]
    exact ih _ (access_transparent read limit c h x).2 k

end CA
