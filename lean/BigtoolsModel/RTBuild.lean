import BigtoolsModel.RT
/-! Probe: the R-tree builder (`get_rtreeindex`): chunking into levels, spans, termination. -/
namespace RT

def Pos.max (p q : Pos) : Pos := if p ≤ q then q else p

theorem Pos.le_refl (p : Pos) : p ≤ p := by show Pos.le p p; unfold Pos.le; omega
theorem Pos.le_total (p q : Pos) : p ≤ q ∨ q ≤ p := by
  show Pos.le p q ∨ Pos.le q p; unfold Pos.le; omega
theorem Pos.le_max_left (p q : Pos) : p ≤ Pos.max p q := by
  unfold Pos.max; split
  · assumption
  · exact Pos.le_refl p
theorem Pos.le_max_right (p q : Pos) : q ≤ Pos.max p q := by
  unfold Pos.max; split
  · exact Pos.le_refl q
  · rename_i h; cases Pos.le_total p q with
    | inl h' => exact absurd h' h
    | inr h' => exact h'

/-- `itertools::chunks(b)` on a list. Structural in `fuel` so that the kernel can evaluate it
    (`decide` on concrete witnesses); `b = 0` panics in Rust, here it yields no chunk. -/
def chunksF (b : Nat) : Nat → List α → List (List α)
  | 0, _ => []
  | fuel + 1, l => if b = 0 ∨ l = [] then [] else l.take b :: chunksF b fuel (l.drop b)

def chunks (b : Nat) (l : List α) : List (List α) := chunksF b l.length l

theorem chunksF_flatten (b : Nat) (hb : 0 < b) : ∀ (fuel : Nat) (l : List α), l.length ≤ fuel →
    (chunksF b fuel l).flatten = l := by
  intro fuel
  induction fuel with
  | zero => intro l h; cases l <;> simp_all [chunksF]
  | succ fuel ih =>
    intro l h
    simp only [chunksF]
    split
    · rename_i hc; rcases hc with hc | hc
      · omega
      · simp [hc]
    · rename_i hc
      have : 0 < l.length := List.length_pos_iff.mpr (fun h' => hc (Or.inr h'))
      simp only [List.flatten_cons]
      rw [ih _ (by simp only [List.length_drop]; omega)]
      exact List.take_append_drop b l

theorem chunks_flatten (b : Nat) (hb : 0 < b) (l : List α) : (chunks b l).flatten = l :=
  chunksF_flatten b hb _ l (Nat.le_refl _)

theorem chunksF_ne_nil (b : Nat) : ∀ (fuel : Nat) (l : List α), ∀ c ∈ chunksF b fuel l, c ≠ [] := by
  intro fuel
  induction fuel with
  | zero => intro l c h; simp [chunksF] at h
  | succ fuel ih =>
    intro l c h
    simp only [chunksF] at h
    split at h
    · simp at h
    · rename_i hc
      simp only [List.mem_cons] at h
      rcases h with rfl | h
      · have h1 : b ≠ 0 := fun h' => hc (Or.inl h')
        have h2 : l ≠ [] := fun h' => hc (Or.inr h')
        cases l with
        | nil => exact absurd rfl h2
        | cons x xs => cases b with
          | zero => exact absurd rfl h1
          | succ b => simp
      · exact ih _ c h

theorem chunks_ne_nil (b : Nat) (l : List α) : ∀ c ∈ chunks b l, c ≠ [] := chunksF_ne_nil b _ l

theorem chunksF_sublist (b : Nat) : ∀ (fuel : Nat) (l : List α), ∀ c ∈ chunksF b fuel l, c.Sublist l := by
  intro fuel
  induction fuel with
  | zero => intro l c h; simp [chunksF] at h
  | succ fuel ih =>
    intro l c h
    simp only [chunksF] at h
    split at h
    · simp at h
    · simp only [List.mem_cons] at h
      rcases h with rfl | h
      · exact List.take_sublist _ _
      · exact (ih _ c h).trans (List.drop_sublist _ _)

theorem chunks_sublist (b : Nat) (l : List α) : ∀ c ∈ chunks b l, c.Sublist l := chunksF_sublist b _ l

theorem chunksF_length_bound (b : Nat) (hb : 2 ≤ b) : ∀ (fuel : Nat) (l : List α),
    2 * (chunksF b fuel l).length ≤ l.length + 1 := by
  intro fuel
  induction fuel with
  | zero => intro l; simp [chunksF]
  | succ fuel ih =>
    intro l
    simp only [chunksF]
    split
    · simp
    · rename_i hc
      have : 0 < l.length := List.length_pos_iff.mpr (fun h' => hc (Or.inr h'))
      have ih' := ih (l.drop b)
      simp only [List.length_cons, List.length_drop] at *
      by_cases h1 : l.length = 1
      · have hd : l.drop b = [] := List.drop_eq_nil_of_le (by omega)
        rw [hd] at ih' ⊢
        have : (chunksF b fuel ([] : List α)).length = 0 := by cases fuel <;> simp [chunksF]
        omega
      · omega

theorem chunks_length_bound (b : Nat) (hb : 2 ≤ b) (l : List α) : 2 * (chunks b l).length ≤ l.length + 1 :=
  chunksF_length_bound b hb _ l

theorem chunks_length_pos (b : Nat) (hb : 0 < b) (l : List α) (hl : l ≠ []) : 0 < (chunks b l).length := by
  have : 0 < l.length := List.length_pos_iff.mpr hl
  unfold chunks
  match hlen : l.length, this with
  | n + 1, _ =>
    simp only [chunksF]
    have : ¬ (b = 0 ∨ l = []) := by
      intro h
      rcases h with h | h
      · omega
      · exact hl h
    simp [this]

def origin : Pos := ⟨0, 0⟩

def maxHi : List Sec → Pos
  | [] => origin
  | s :: rest => Pos.max s.hi (maxHi rest)
def lastHi (secs : List Sec) : Pos := (secs.getLast?.map (·.hi)).getD origin
def firstLo (secs : List Sec) : Pos := (secs.head?.map (·.lo)).getD origin

def maxSpanHi : List (Span × T) → Pos
  | [] => origin
  | k :: rest => Pos.max k.1.hi (maxSpanHi rest)

/-- span recorded for a subtree. `fixed = false`: end taken from the last child (code as found);
    `fixed = true`: the maximum end. -/
def spanOf (fixed : Bool) : T → Span
  | .leaf secs => ⟨firstLo secs, if fixed then maxHi secs else lastHi secs⟩
  | .node kids => ⟨(kids.head?.map (·.1.lo)).getD origin,
                   if fixed then maxSpanHi kids else (kids.getLast?.map (·.1.hi)).getD origin⟩

def mkNode (fixed : Bool) (ch : List T) : T := .node (ch.map fun c => (spanOf fixed c, c))

def group (fixed : Bool) (b : Nat) (nodes : List T) : List T := (chunks b nodes).map (mkNode fixed)

def buildLoop (fixed : Bool) (b : Nat) : Nat → List T → Option T
  | 0, _ => none
  | fuel + 1, nodes => if nodes.length = 1 then nodes.head? else buildLoop fixed b fuel (group fixed b nodes)

def build (fixed : Bool) (b : Nat) (secs : List Sec) : Option T :=
  buildLoop fixed b (secs.length + 1) ((chunks b secs).map T.leaf)

theorem maxHi_ge (secs : List Sec) : ∀ s ∈ secs, s.hi ≤ maxHi secs := by
  induction secs with
  | nil => simp
  | cons x xs ih =>
    intro s hs
    simp only [List.mem_cons] at hs
    rcases hs with rfl | hs
    · exact Pos.le_max_left _ _
    · exact Pos.le_trans (ih s hs) (Pos.le_max_right _ _)

theorem maxSpanHi_ge (kids : List (Span × T)) : ∀ k ∈ kids, k.1.hi ≤ maxSpanHi kids := by
  induction kids with
  | nil => simp
  | cons x xs ih =>
    intro s hs
    simp only [List.mem_cons] at hs
    rcases hs with rfl | hs
    · exact Pos.le_max_left _ _
    · exact Pos.le_trans (ih s hs) (Pos.le_max_right _ _)

/-- leaves of a list of trees -/
def leavesT (ts : List T) : List Sec := ts.flatMap leaves

theorem leavesL_map (f : T → Span) (ch : List T) : leavesL (ch.map fun c => (f c, c)) = leavesT ch := by
  induction ch with
  | nil => simp [leavesL, leavesT]
  | cons c cs ih => simp [leavesL, leavesT] at *; exact ih

theorem leaves_mkNode (fixed : Bool) (ch : List T) : leaves (mkNode fixed ch) = leavesT ch := by
  simp [mkNode, leaves, leavesL_map]

def LoSorted (l : List Sec) : Prop := l.Pairwise (fun a b => a.lo ≤ b.lo)

/-- what the builder maintains for every subtree (repaired span rule) -/
structure Good (t : T) : Prop where
  ok : SpanOK t
  ne : leaves t ≠ []
  lo_eq : (spanOf true t).lo = firstLo (leaves t)
  hi_ge : ∀ s ∈ leaves t, s.hi ≤ (spanOf true t).hi

theorem firstLo_le (l : List Sec) (h : LoSorted l) : ∀ s ∈ l, firstLo l ≤ s.lo := by
  cases l with
  | nil => simp
  | cons x xs =>
    intro s hs
    simp only [firstLo, List.head?_cons, Option.map_some, Option.getD_some]
    simp only [List.mem_cons] at hs
    rcases hs with rfl | hs
    · exact Pos.le_refl _
    · exact (List.pairwise_cons.mp h).1 s hs

theorem good_leaf (secs : List Sec) (hne : secs ≠ []) : Good (.leaf secs) := by
  refine ⟨by simp [SpanOK], by simpa [leaves] using hne, by simp [spanOf, leaves], ?_⟩
  intro s hs
  simp only [leaves] at hs
  simpa [spanOf] using maxHi_ge secs s hs

theorem sublist_flatMap {α β} (f : α → List β) {l₁ l₂ : List α} (h : l₁.Sublist l₂) :
    (l₁.flatMap f).Sublist (l₂.flatMap f) := by
  induction h with
  | slnil => simp
  | cons a _ ih => simp only [List.flatMap_cons]; exact ih.trans (List.sublist_append_right _ _)
  | cons_cons a _ ih => simp only [List.flatMap_cons]; exact List.Sublist.append (List.Sublist.refl _) ih

theorem leavesT_cons (c : T) (cs : List T) : leavesT (c :: cs) = leaves c ++ leavesT cs := by
  simp [leavesT]

theorem good_mkNode (ch : List T) (hne : ch ≠ []) (hg : ∀ c ∈ ch, Good c) (hs : LoSorted (leavesT ch)) :
    Good (mkNode true ch) := by
  have hok : SpanOKL (ch.map fun c => (spanOf true c, c)) := by
    clear hne
    induction ch with
    | nil => simp [SpanOKL]
    | cons c cs ih =>
      have gc := hg c (by simp)
      rw [leavesT_cons] at hs
      have hs' := List.pairwise_append.mp hs
      simp only [List.map_cons, SpanOKL]
      refine ⟨?_, gc.ok, ih (fun d hd => hg d (by simp [hd])) hs'.2.1⟩
      intro s hsm
      refine ⟨?_, gc.hi_ge s hsm⟩
      rw [gc.lo_eq]
      exact firstLo_le _ hs'.1 s hsm
  cases ch with
  | nil => exact absurd rfl hne
  | cons c cs =>
    have gc := hg c (by simp)
    refine ⟨by simpa [mkNode, SpanOK] using hok, ?_, ?_, ?_⟩
    · rw [leaves_mkNode, leavesT_cons]; simp [gc.ne]
    · rw [leaves_mkNode, leavesT_cons]
      have : firstLo (leaves c ++ leavesT cs) = firstLo (leaves c) := by
        cases hl : leaves c with
        | nil => exact absurd hl gc.ne
        | cons x xs => simp [firstLo]
      rw [this, ← gc.lo_eq]
      simp [mkNode, spanOf]
    · intro s hsm
      rw [leaves_mkNode] at hsm
      simp only [leavesT, List.mem_flatMap] at hsm
      obtain ⟨d, hd, hsd⟩ := hsm
      have h1 := (hg d hd).hi_ge s hsd
      have h2 := maxSpanHi_ge ((c :: cs).map fun c => (spanOf true c, c)) (spanOf true d, d)
        (by simp only [List.mem_map]; exact ⟨d, hd, rfl⟩)
      simp only [mkNode, spanOf, if_true]
      exact Pos.le_trans h1 h2

theorem good_group (b : Nat) (nodes : List T) (hg : ∀ n ∈ nodes, Good n)
    (hs : LoSorted (leavesT nodes)) : ∀ t ∈ group true b nodes, Good t := by
  intro t ht
  simp only [group, List.mem_map] at ht
  obtain ⟨ch, hch, rfl⟩ := ht
  have hsub := chunks_sublist b nodes ch hch
  refine good_mkNode ch (chunks_ne_nil b nodes ch hch) (fun c hc => hg c (hsub.subset hc)) ?_
  exact List.Pairwise.sublist (sublist_flatMap leaves hsub) hs

theorem leavesT_group (b : Nat) (hb : 0 < b) (nodes : List T) :
    leavesT (group true b nodes) = leavesT nodes := by
  have : ∀ chs : List (List T), leavesT (chs.map (mkNode true)) = leavesT chs.flatten := by
    intro chs
    induction chs with
    | nil => simp [leavesT]
    | cons c cs ih =>
      simp only [List.map_cons, leavesT_cons, leaves_mkNode, List.flatten_cons, ih]
      simp [leavesT]
  rw [group, this, chunks_flatten b hb]

theorem buildLoop_spec (b : Nat) (hb : 2 ≤ b) : ∀ (fuel : Nat) (nodes : List T), nodes ≠ [] →
    (∀ n ∈ nodes, Good n) → LoSorted (leavesT nodes) → nodes.length ≤ fuel →
    ∃ t, buildLoop true b fuel nodes = some t ∧ Good t ∧ leaves t = leavesT nodes := by
  intro fuel
  induction fuel with
  | zero =>
    intro nodes hne _ _ hlen
    have : 0 < nodes.length := List.length_pos_iff.mpr hne
    omega
  | succ fuel ih =>
    intro nodes hne hg hs hlen
    simp only [buildLoop]
    by_cases h1 : nodes.length = 1
    · simp only [h1, if_true]
      match nodes, h1 with
      | [t], _ => exact ⟨t, rfl, hg t (by simp), by simp [leavesT]⟩
    · simp only [h1, if_false]
      have hpos : 0 < nodes.length := List.length_pos_iff.mpr hne
      have hbound := chunks_length_bound b hb nodes
      have hgl : (group true b nodes).length = (chunks b nodes).length := by simp [group]
      have hgne : group true b nodes ≠ [] := by
        have := chunks_length_pos b (by omega) nodes hne
        intro h; rw [h] at hgl; simp at hgl; omega
      obtain ⟨t, ht, gt, hl⟩ := ih (group true b nodes) hgne (good_group b nodes hg hs)
        (by rw [leavesT_group b (by omega)]; exact hs) (by omega)
      exact ⟨t, ht, gt, by rw [hl, leavesT_group b (by omega)]⟩

/-- **Builder + search, repaired span rule:** for every fan-out `b ≥ 2` and every non-empty list of
    sections sorted by start, the builder terminates and searching the tree it builds returns exactly
    the sections a linear scan with the code's `overlaps` returns, in order. -/
theorem build_search (b : Nat) (hb : 2 ≤ b) (secs : List Sec) (hne : secs ≠ []) (hs : LoSorted secs) :
    ∃ t, build true b secs = some t ∧
      ∀ qlo qhi, search qlo qhi t = secs.filter (fun s => ov qlo qhi s.lo s.hi) := by
  have hpos : 0 < secs.length := List.length_pos_iff.mpr hne
  have hl0 : leavesT ((chunks b secs).map T.leaf) = secs := by
    have : ∀ chs : List (List Sec), leavesT (chs.map T.leaf) = chs.flatten := by
      intro chs
      induction chs with
      | nil => simp [leavesT]
      | cons c cs ih => simp only [List.map_cons, leavesT_cons, leaves, List.flatten_cons, ih]
    rw [this, chunks_flatten b (by omega)]
  have hne0 : (chunks b secs).map T.leaf ≠ [] := by
    have := chunks_length_pos b (by omega) secs hne
    intro h
    have h' := congrArg List.length h
    simp only [List.length_map, List.length_nil] at h'; omega
  have hg0 : ∀ n ∈ (chunks b secs).map T.leaf, Good n := by
    intro n hn
    simp only [List.mem_map] at hn
    obtain ⟨c, hc, rfl⟩ := hn
    exact good_leaf c (chunks_ne_nil b secs c hc)
  have hbound := chunks_length_bound b hb secs
  obtain ⟨t, ht, gt, hl⟩ := buildLoop_spec b hb (secs.length + 1) _ hne0 hg0 (by rw [hl0]; exact hs)
    (by simp; omega)
  refine ⟨t, ht, ?_⟩
  intro qlo qhi
  rw [search_eq qlo qhi t gt.ok, hl, hl0]

/-- the span rule as found loses an entry: bigBed-like sections whose largest end is not the last -/
def exSecs : List Sec :=
  [⟨⟨0,0⟩, ⟨0,1000⟩, 0, 1⟩, ⟨⟨0,10⟩, ⟨0,20⟩, 1, 1⟩, ⟨⟨0,30⟩, ⟨0,40⟩, 2, 1⟩, ⟨⟨0,50⟩, ⟨0,60⟩, 3, 1⟩]

theorem span_rule_as_found_misses :
    ((build false 2 exSecs).map (search ⟨0,500⟩ ⟨0,600⟩)) = some [] ∧
    exSecs.filter (fun s => ov ⟨0,500⟩ ⟨0,600⟩ s.lo s.hi) = [⟨⟨0,0⟩, ⟨0,1000⟩, 0, 1⟩] := by
  decide

end RT
