import BigtoolsModel.CirSer
/-! Probe (C10): the big-endian twin of `uN_le` — reading `k` bytes big-endian from where the big-endian
    encoding of `n` sits gives `n`. With it every byte-level theorem stated for `.little` / `le` has a literal
    big-endian twin (replace `le k n` by `be k n` and `.little` by `.big`). -/
namespace BBI
open CD

/-- `k` big-endian bytes of `n` -/
def be (k n : Nat) : List Nat := (le k n).reverse

theorem be_length (k n : Nat) : (be k n).length = k := by simp [be, le_length]

theorem be_succ (k n : Nat) : be (k + 1) n = be k (n / 256) ++ [n % 256] := by
  simp [be, le]

theorem uN_big_succ (s : Src) (off k : Nat) :
    uN .big s off (k + 1) = uN .big s off k * 256 + byte s (off + k) := by
  simp only [uN]
  rw [List.range_succ, List.foldl_append]
  simp

theorem uN_be (l : List Nat) : ∀ (k off n : Nat), Has l off (be k n) → n < 256 ^ k →
    uN .big (srcOf l) off k = n := by
  intro k
  induction k with
  | zero => intro off n _ hn; simp at hn; subst hn; simp [uN]
  | succ k ih =>
    intro off n h hn
    rw [uN_big_succ, be_succ] at *
    have hl := h.left
    have hr := h.right
    rw [be_length] at hr
    have hb : byte (srcOf l) (off + k) = n % 256 := by
      have := hr.byte 0 (by simp) (by simp; omega)
      simpa using this
    rw [ih off (n / 256) hl (by rw [Nat.pow_succ] at hn; omega), hb]
    omega

/-- sanity: the two byte orders read the same number from mirrored bytes -/
example : uN .big (srcOf (be 4 0x888FFC26)) 0 4 = 0x888FFC26 ∧ uN .little (srcOf (le 4 0x888FFC26)) 0 4 = 0x888FFC26 := by
  constructor
  · exact uN_be _ 4 0 _ ⟨[], [], by simp, rfl⟩ (by decide)
  · exact uN_le _ 4 0 _ ⟨[], [], by simp, rfl⟩ (by decide)

end BBI
