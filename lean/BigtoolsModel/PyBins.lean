/-! Probe (C20): faithful executable models of the exact-bin routines `to_array_bins` (bigWig values) and
    `to_entry_array_bins` (bigBed entries) of pybigtools, as found and repaired (D11), with their deque of live
    bins, and a per-base specification to test them against on every small input (a *test* of the model and
    of the repairs, not a theorem). Bin edges are `floor(k·L/bins)`, the bin of a position is
    `floor(p·bins/L)` — what the f64 expressions compute when the width `L/bins` is integral; for other widths
    the correspondence check passes the f64 results in as tables. -/
namespace PYN

inductive Summary where | mean | min | max deriving Repr, DecidableEq

/-- a reported cell: `missing`, or the rational `num/den` (`den = 0` is NaN) -/
inductive Res where
  | missing
  | val (num : Int) (den : Nat)
  | panic
deriving Repr, DecidableEq

structure Fix where
  meanGuard : Bool     -- mean only over bins with covered bases > 0
  nanSeed : Bool       -- per-base depth cells start as NaN, not as `missing`
  skipTouch : Bool     -- records that only touch the range are skipped
deriving Repr, DecidableEq

def asFound : Fix := ⟨false, false, false⟩
def repaired : Fix := ⟨true, true, true⟩

def edge (L nb k : Nat) : Nat := k * L / nb
/-- `(x as f64 / bin_size) as usize`; negative `x` saturates to 0 -/
def binOf (L nb : Nat) (x : Int) : Nat := if x < 0 then 0 else x.toNat * nb / L

/-! ### `to_array_bins` -/

structure WBin where
  idx : Nat
  lo : Nat
  hi : Nat
  data : Option (Int × Int × Int)     -- mean: (covered, Σ overlap·v, _) ; min/max: (_, current, _)
deriving Repr, DecidableEq

def wFlush (fx : Fix) (sm : Summary) (b : WBin) : Res :=
  match b.data with
  | none => .missing
  | some (c, v, _) =>
    match sm with
    | .mean => if fx.meanGuard ∧ c ≤ 0 then .missing else .val v c.toNat
    | _ => .val v 1

structure WSt where
  live : List WBin
  out : List (Nat × Res)
deriving Repr

def pushBins (L nb : Nat) (be : Nat) : Nat → List WBin → Nat → List WBin
  | 0, live, _ => live
  | fuel + 1, live, bs =>
    match (match live.getLast? with | some b => if b.idx < be then some (b.idx + 1) else none | none => some bs) with
    | none => live
    | some k => pushBins L nb be fuel (live ++ [⟨k, edge L nb k, edge L nb (k + 1), none⟩]) bs

def wAccum (sm : Summary) (is ie : Int) (v : Int) : List WBin → List WBin
  | [] => []
  | b :: rest =>
    if ie ≤ (b.lo : Int) then b :: rest          -- `break`
    else
      let d := b.data.getD (match sm with | .mean => (0, 0, 0) | _ => (0, v, 0))   -- NaN.min(v) = v
      let d' := match sm with
        | .mean => let ov := min (b.hi : Int) ie - max (b.lo : Int) is; (d.1 + ov, d.2.1 + ov * v, 0)
        | .min => (d.1, min d.2.1 v, 0)
        | .max => (d.1, max d.2.1 v, 0)
      { b with data := some d' } :: wAccum sm is ie v rest

/-- one value `[s, e) = v` (absolute coordinates, as `get_interval` returns it: clipped, non-empty) -/
def wStep (fx : Fix) (sm : Summary) (start : Int) (L nb : Nat) (st : WSt) (s e : Nat) (v : Int) : WSt :=
  let is := max (s : Int) start - start
  let ie := min (e : Int) (start + L) - start
  let bs := binOf L nb is
  let be := binOf L nb (ie - 1)
  let done := st.live.takeWhile (·.idx < bs)
  let live := st.live.dropWhile (·.idx < bs)
  let out := st.out ++ done.map fun b => (b.idx, wFlush fx sm b)
  let live := pushBins L nb be (nb + 2) live bs
  ⟨wAccum sm is ie v live, out⟩

def writeOut (nb : Nat) (out : List (Nat × Res)) : List Res :=
  out.foldl (fun arr (kr : Nat × Res) => if kr.1 < arr.length then arr.set kr.1 kr.2 else [Res.panic]) (List.replicate nb .missing)

def toArrayBins (fx : Fix) (sm : Summary) (start : Int) (L nb : Nat) (vals : List (Nat × Nat × Int)) : List Res :=
  let st := vals.foldl (fun st x => wStep fx sm start L nb st x.1 x.2.1 x.2.2) ⟨[], []⟩
  writeOut nb (st.out ++ st.live.map fun b => (b.idx, wFlush fx sm b))

/-! ### `to_entry_array_bins` -/

structure EBin where
  idx : Nat
  lo : Nat
  hi : Nat
  covered : List Nat
  data : List (Option Int)        -- `none` = NaN; as found the seed is `missing`, modelled by the caller's value
deriving Repr, DecidableEq

/-- as found the cells are seeded with `missing` (an arbitrary number `m`) and `max(0.0)` is applied before adding -/
def eSeed (fx : Fix) (m : Int) : Option Int := if fx.nanSeed then none else some m

def eFlush (fx : Fix) (sm : Summary) (b : EBin) : Res :=
  match sm with
  | .mean =>
    if b.covered.any (· > 0) then
      .val ((b.data.map fun x => max (x.getD 0) 0).sum) b.covered.sum
    else .missing
  | .min =>
    -- `reduce(f64::min)`: NaN operands are ignored unless all are NaN
    match b.data.filterMap id with
    | [] => if b.data = [] then .missing else (if fx.nanSeed then .missing else .val 0 0)   -- all NaN ⇒ NaN (as found: unreachable)
    | x :: xs => .val (xs.foldl min x) 1
  | .max =>
    match b.data.filterMap id with
    | [] => if b.data = [] then .missing else (if fx.nanSeed then .missing else .val 0 0)
    | x :: xs => .val (xs.foldl max x) 1

structure ESt where
  live : List EBin
  out : List (Nat × Res)
deriving Repr

def pushEBins (fx : Fix) (m : Int) (L nb : Nat) (be : Nat) : Nat → List EBin → Nat → List EBin
  | 0, live, _ => live
  | fuel + 1, live, bs =>
    match (match live.getLast? with | some b => if b.idx < be then some (b.idx + 1) else none | none => some bs) with
    | none => live
    | some k =>
      let lo := edge L nb k
      let hi := edge L nb (k + 1)
      pushEBins fx m L nb be fuel (live ++ [⟨k, lo, hi, List.replicate (hi - lo) 0, List.replicate (hi - lo) (eSeed fx m)⟩]) bs

def eAccum (is ie : Int) : List EBin → List EBin
  | [] => []
  | b :: rest =>
    if ie ≤ (b.lo : Int) then b :: rest
    else
      let os := (max (b.lo : Int) is - b.lo).toNat
      let oe := (min (b.hi : Int) ie - b.lo).toNat
      { b with data := b.data.mapIdx (fun i x => if os ≤ i ∧ i < oe then some (max (x.getD 0) 0 + 1) else x),
               covered := b.covered.mapIdx (fun i x => if os ≤ i ∧ i < oe then max x 1 else x) } :: eAccum is ie rest

def eStep (fx : Fix) (sm : Summary) (m : Int) (start : Int) (L nb : Nat) (st : ESt) (s e : Nat) : ESt :=
  let is := max (s : Int) start - start
  let ie := min (e : Int) (start + L) - start
  if fx.skipTouch ∧ ie ≤ is then st else
  let bs := binOf L nb is
  let be := binOf L nb (ie - 1)
  let done := st.live.takeWhile (·.idx < bs)
  let live := st.live.dropWhile (·.idx < bs)
  let out := st.out ++ done.map fun b => (b.idx, eFlush fx sm b)
  let live := pushEBins fx m L nb be (nb + 2) live bs
  ⟨eAccum is ie live, out⟩

def toEntryArrayBins (fx : Fix) (sm : Summary) (m : Int) (start : Int) (L nb : Nat) (entries : List (Nat × Nat)) : List Res :=
  let st := entries.foldl (fun st x => eStep fx sm m start L nb st x.1 x.2) ⟨[], []⟩
  writeOut nb (st.out ++ st.live.map fun b => (b.idx, eFlush fx sm b))

/-! ### specification: per base, then per bin -/

/-- value at base `p` of disjoint values -/
def valueAt (vals : List (Nat × Nat × Int)) (p : Int) : Option Int :=
  (vals.find? fun x => decide ((x.1 : Int) ≤ p ∧ p < x.2.1)).map (·.2.2)

def depthAt (entries : List (Nat × Nat)) (p : Int) : Option Int :=
  let d := (entries.filter fun x => decide ((x.1 : Int) ≤ p ∧ p < x.2)).length
  if d = 0 then none else some d

def binSpec (sm : Summary) (cell : Int → Option Int) (start : Int) (L nb k : Nat) : Res :=
  let lo := edge L nb k
  let hi := edge L nb (k + 1)
  let xs := (List.range (hi - lo)).filterMap fun (i : Nat) => cell (start + (lo : Int) + (i : Int))
  match xs with
  | [] => .missing
  | x :: rest =>
    match sm with
    | .mean => .val (x :: rest).sum (rest.length + 1)
    | .min => .val (rest.foldl min x) 1
    | .max => .val (rest.foldl max x) 1

def resEq : Res → Res → Bool
  | .missing, .missing => true
  | .val a b, .val c d => b ≠ 0 && d ≠ 0 && a * d == c * b
  | _, _ => false

def agrees (got : List Res) (sm : Summary) (cell : Int → Option Int) (start : Int) (L nb : Nat) : Bool :=
  got.length == nb && (List.range nb).all fun k => resEq (got.getD k .panic) (binSpec sm cell start L nb k)

def noNaN (got : List Res) : Bool :=
  got.all fun r => match r with | .val _ 0 => false | .panic => false | _ => true

end PYN
