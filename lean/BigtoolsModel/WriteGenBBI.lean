import BigtoolsModel.Generated.Atoms
import BigtoolsModel.WriteAll
/-! Obligation on the regenerated list of bare `write` calls of bbiwrite.rs (header blocks, chromosome keys, data and zoom sections, indexes); one module per source file so that a property depends
    only on the files its writer goes through. -/
namespace WA

/-- no function of bbiwrite.rs hands a buffer to a destination with a bare `write`: everything goes through `write_all` / `io::copy` -/
theorem gen_no_bare_write_bbiwrite : Gen.wr_bare_write_bbiwrite = [] := by
  delta Gen.wr_bare_write_bbiwrite
  rfl

end WA
