import BigtoolsModel.Tiler2
/-! Probe (C07): the zoom tiler with the sum of squares. `run3` is the tiler of `Tiler2` with the extra field
    `sumsq` updated next to `sum` exactly as `process_val_zoom` does. Two simulations: (1) dropping `sumsq`
    gives the records of `Tiler2.run` (so everything proved there holds); (2) the `sumsq` fields are the `sum`
    fields of the run on the squared values (the control flow never looks at a value) — hence each record's
    sum of squares is `Σ overlap · v²` over the stored values inside its span. -/
namespace Tiler2

structure Rec3 where
  base : Rec
  sumsq : Int
deriving Repr, DecidableEq

structure TSt3 where
  live : Option Rec3
  out : List Rec3
deriving Repr

def iter3 (fx : Fix) (size : Nat) (x : Val) (a : Nat) (st : TSt3) : Nat × TSt3 :=
  let r := st.live.getD ⟨newRec a x.v, 0⟩
  let nextEnd := r.base.start + size
  let addEnd := min nextEnd x.e
  let upd : Bool := if fx.cmp then decide (addEnd > a) else decide (addEnd ≥ a)
  let r' : Rec3 := if upd then
      ⟨{ r.base with stop := addEnd, bases := r.base.bases + (addEnd - a),
                     sum := r.base.sum + ((addEnd - a : Nat) : Int) * x.v,
                     mn := min r.base.mn x.v, mx := max r.base.mx x.v },
       r.sumsq + ((addEnd - a : Nat) : Int) * x.v * x.v⟩
    else r
  let st' : TSt3 := if addEnd = nextEnd then { live := none, out := st.out ++ [r'] }
                    else { live := some r', out := st.out }
  let a' := if fx.start then max addEnd x.s else addEnd
  (a', st')

def finish3 (isLast : Bool) (st : TSt3) : TSt3 :=
  if isLast then
    match st.live with
    | some r => { live := none, out := st.out ++ [r] }
    | none => st
  else st

def inner3 (fx : Fix) (size : Nat) (x : Val) (isLast : Bool) : Nat → Nat → TSt3 → Option TSt3
  | 0, _, _ => none
  | fuel + 1, a, st =>
    if a ≥ x.e then some (finish3 isLast st)
    else inner3 fx size x isLast fuel (iter3 fx size x a st).1 (iter3 fx size x a st).2

def processAll3 (fx : Fix) (size : Nat) : List Val → TSt3 → Option TSt3
  | [], st => some st
  | x :: xs, st =>
    match inner3 fx size x xs.isEmpty (x.e + 3) x.s st with
    | some st' => processAll3 fx size xs st'
    | none => none

def run3 (fx : Fix) (size : Nat) (vals : List Val) : Option (List Rec3) :=
  (processAll3 fx size vals { live := none, out := [] }).map (·.out)

/-! ### a relation between a run with `sumsq` and a plain run on other values -/

/-- `G r3 r`: same span and coverage, and `g r3 = r.sum`; `P` says whether min/max and sum must agree too -/
structure Rel (sq : Bool) (r3 : Rec3) (r : Rec) : Prop where
  start : r3.base.start = r.start
  stop : r3.base.stop = r.stop
  bases : r3.base.bases = r.bases
  val : if sq then r3.sumsq = r.sum else r3.base = r

def RelO (sq : Bool) : Option Rec3 → Option Rec → Prop
  | none, none => True
  | some a, some b => Rel sq a b
  | _, _ => False

def RelL (sq : Bool) : List Rec3 → List Rec → Prop
  | [], [] => True
  | a :: as, b :: bs => Rel sq a b ∧ RelL sq as bs
  | _, _ => False

theorem relL_snoc (sq : Bool) : ∀ (as : List Rec3) (bs : List Rec) (a : Rec3) (b : Rec),
    RelL sq as bs → Rel sq a b → RelL sq (as ++ [a]) (bs ++ [b]) := by
  intro as
  induction as with
  | nil => intro bs a b h hab; cases bs with
    | nil => exact ⟨hab, trivial⟩
    | cons => simp [RelL] at h
  | cons x xs ih => intro bs a b h hab; cases bs with
    | nil => simp [RelL] at h
    | cons y ys => exact ⟨h.1, ih ys a b h.2 hab⟩

structure RelS (sq : Bool) (s3 : TSt3) (s : TSt) : Prop where
  live : RelO sq s3.live s.live
  out : RelL sq s3.out s.out

/-- the values the plain run is fed: the same (`sq = false`) or squared (`sq = true`) -/
def feed (sq : Bool) (x : Val) : Val := if sq then { x with v := x.v * x.v } else x

theorem feed_s (sq : Bool) (x : Val) : (feed sq x).s = x.s := by unfold feed; split <;> rfl
theorem feed_e (sq : Bool) (x : Val) : (feed sq x).e = x.e := by unfold feed; split <;> rfl

theorem iter3_rel (sq : Bool) (fx : Fix) (size : Nat) (x : Val) (a : Nat) (s3 : TSt3) (s : TSt)
    (h : RelS sq s3 s) :
    (iter3 fx size x a s3).1 = (iter fx size (feed sq x) a s).1 ∧
    RelS sq (iter3 fx size x a s3).2 (iter fx size (feed sq x) a s).2 := by
  obtain ⟨l3, o3⟩ := s3
  obtain ⟨l, o⟩ := s
  obtain ⟨hl, ho⟩ := h
  simp only at hl ho
  -- the working records are related
  have hr : Rel sq (l3.getD ⟨newRec a x.v, 0⟩) (l.getD (newRec a (feed sq x).v)) := by
    cases l3 with
    | none => cases l with
      | none =>
        simp only [Option.getD_none]
        refine ⟨rfl, rfl, rfl, ?_⟩
        cases sq
        · simp [feed]
        · simp [newRec]
      | some _ => simp [RelO] at hl
    | some r3 => cases l with
      | none => simp [RelO] at hl
      | some r => simpa [RelO] using hl
  simp only [iter3, iter, feed_e, feed_s]
  generalize l3.getD ⟨newRec a x.v, 0⟩ = w3 at hr ⊢
  generalize l.getD (newRec a (feed sq x).v) = w at hr ⊢
  obtain ⟨h1, h2, h3, h4⟩ := hr
  rw [h1]
  generalize (if fx.cmp then decide (min (w.start + size) x.e > a) else decide (min (w.start + size) x.e ≥ a)) = c
  -- the updated records are related
  have hupd : Rel sq
      (if c = true then
        (⟨⟨w.start, min (w.start + size) x.e, w3.base.bases + (min (w.start + size) x.e - a),
           w3.base.sum + ((min (w.start + size) x.e - a : Nat) : Int) * x.v,
           min w3.base.mn x.v, max w3.base.mx x.v⟩,
          w3.sumsq + ((min (w.start + size) x.e - a : Nat) : Int) * x.v * x.v⟩ : Rec3) else w3)
      (if c = true then
        { w with stop := min (w.start + size) x.e, bases := w.bases + (min (w.start + size) x.e - a),
                 sum := w.sum + ((min (w.start + size) x.e - a : Nat) : Int) * (feed sq x).v,
                 mn := min w.mn (feed sq x).v, mx := max w.mx (feed sq x).v } else w) := by
    cases c
    · simp only [Bool.false_eq_true, if_false]
      exact ⟨h1, h2, h3, h4⟩
    · simp only [if_true]
      refine ⟨rfl, rfl, by simp only [h3], ?_⟩
      cases sq
      · simp only [Bool.false_eq_true, if_false] at h4 ⊢
        simp only [feed, Bool.false_eq_true, if_false, ← h4, h1]
      · simp only [if_true] at h4 ⊢
        simp only [feed, if_true, h4, Int.mul_assoc]
  refine ⟨rfl, ?_⟩
  split
  · exact ⟨trivial, relL_snoc sq _ _ _ _ ho hupd⟩
  · exact ⟨by simpa [RelO] using hupd, ho⟩

theorem finish3_rel (sq : Bool) (isLast : Bool) (s3 : TSt3) (s : TSt) (h : RelS sq s3 s) :
    RelS sq (finish3 isLast s3) (finish isLast s) := by
  obtain ⟨l3, o3⟩ := s3
  obtain ⟨l, o⟩ := s
  obtain ⟨hl, ho⟩ := h
  simp only at hl ho
  cases isLast
  · exact ⟨hl, ho⟩
  · cases l3 with
    | none => cases l with
      | none => exact ⟨trivial, ho⟩
      | some _ => simp [RelO] at hl
    | some r3 => cases l with
      | none => simp [RelO] at hl
      | some r => exact ⟨trivial, relL_snoc sq _ _ _ _ ho (by simpa [RelO] using hl)⟩

def RelOS (sq : Bool) : Option TSt3 → Option TSt → Prop
  | none, none => True
  | some a, some b => RelS sq a b
  | _, _ => False

theorem inner3_rel (sq : Bool) (fx : Fix) (size : Nat) (x : Val) (isLast : Bool) :
    ∀ (fuel a : Nat) (s3 : TSt3) (s : TSt), RelS sq s3 s →
    RelOS sq (inner3 fx size x isLast fuel a s3) (inner fx size (feed sq x) isLast fuel a s) := by
  intro fuel
  induction fuel with
  | zero => intro a s3 s _; simp [inner3, inner, RelOS]
  | succ fuel ih =>
    intro a s3 s h
    simp only [inner3, inner, feed_e]
    split
    · exact finish3_rel sq isLast s3 s h
    · have := iter3_rel sq fx size x a s3 s h
      rw [this.1]
      exact ih _ _ _ this.2

theorem processAll3_rel (sq : Bool) (fx : Fix) (size : Nat) :
    ∀ (vals : List Val) (s3 : TSt3) (s : TSt), RelS sq s3 s →
    RelOS sq (processAll3 fx size vals s3) (processAll fx size (vals.map (feed sq)) s) := by
  intro vals
  induction vals with
  | nil => intro s3 s h; exact h
  | cons x xs ih =>
    intro s3 s h
    simp only [processAll3, processAll, List.map_cons, feed_e, feed_s, List.isEmpty_map]
    have := inner3_rel sq fx size x xs.isEmpty (x.e + 3) x.s s3 s h
    cases h3 : inner3 fx size x xs.isEmpty (x.e + 3) x.s s3 with
    | none =>
      cases h2 : inner fx size (feed sq x) xs.isEmpty (x.e + 3) x.s s with
      | none => trivial
      | some _ => rw [h3, h2] at this; simp [RelOS] at this
    | some st3 =>
      cases h2 : inner fx size (feed sq x) xs.isEmpty (x.e + 3) x.s s with
      | none => rw [h3, h2] at this; simp [RelOS] at this
      | some st => rw [h3, h2] at this; exact ih st3 st this

theorem run3_rel (sq : Bool) (fx : Fix) (size : Nat) (vals : List Val) (R3 : List Rec3)
    (h : run3 fx size vals = some R3) :
    ∃ R, run fx size (vals.map (feed sq)) = some R ∧ RelL sq R3 R := by
  have := processAll3_rel sq fx size vals ⟨none, []⟩ ⟨none, []⟩ ⟨trivial, trivial⟩
  simp only [run3, Option.map_eq_some_iff] at h
  obtain ⟨st3, hst3, rfl⟩ := h
  rw [hst3] at this
  cases hst : processAll fx size (vals.map (feed sq)) ⟨none, []⟩ with
  | none => rw [hst] at this; simp [RelOS] at this
  | some st =>
    rw [hst] at this
    exact ⟨st.out, by simp [run, hst], this.out⟩

theorem relL_forall (sq : Bool) (Q : Rec3 → Rec → Prop) (hQ : ∀ a b, Rel sq a b → Q a b) :
    ∀ (as : List Rec3) (bs : List Rec), RelL sq as bs → ∀ a ∈ as, ∃ b ∈ bs, Rel sq a b := by
  intro as
  induction as with
  | nil => intro bs _ a ha; simp at ha
  | cons x xs ih =>
    intro bs h a ha
    cases bs with
    | nil => simp [RelL] at h
    | cons y ys =>
      simp only [List.mem_cons] at ha
      rcases ha with rfl | ha
      · exact ⟨y, by simp, h.1⟩
      · obtain ⟨b, hb, hr⟩ := ih ys h.2 a ha
        exact ⟨b, by simp [hb], hr⟩

/-- weighted sum of squares of the values inside `[a,b)` -/
def wsumsq (P : List Val) (a b : Nat) : Int :=
  (P.map fun p => ((min p.e b - max p.s a : Nat) : Int) * (p.v * p.v)).sum

theorem wsum_sq (P : List Val) (a b : Nat) : wsum (P.map (feed true)) a b = wsumsq P a b := by
  unfold wsum wsumsq
  rw [List.map_map]
  apply congrArg
  apply List.map_congr_left
  intro p _
  simp [feed]

/-- **Sum of squares of every zoom record (repaired tiler).** Same hypotheses as `run_faithful`: each record
    of the run with `sumsq` has the span, coverage, sum, min and max of the corresponding `Tiler2` record
    (so `run_faithful` applies to it), and its sum of squares is `Σ overlap · v²` over the values. -/
theorem run3_sumsq (size : Nat) (hsize : 0 < size) (vals : List Val) (R3 : List Rec3)
    (hpw : vals.Pairwise (fun p q => p.e ≤ q.s)) (hse : ∀ p ∈ vals, p.s ≤ p.e)
    (hrun : run3 repaired size vals = some R3) :
    (∃ R, run repaired size vals = some R ∧ RelL false R3 R) ∧
    ∀ r3 ∈ R3, r3.sumsq = wsumsq vals r3.base.start r3.base.stop := by
  constructor
  · have := run3_rel false repaired size vals R3 hrun
    have hid : vals.map (feed false) = vals := by
      have : feed false = id := by funext x; simp [feed]
      rw [this, List.map_id]
    rwa [hid] at this
  · intro r3 hr3
    obtain ⟨R, hR, hrel⟩ := run3_rel true repaired size vals R3 hrun
    have hpw' : (vals.map (feed true)).Pairwise (fun p q => p.e ≤ q.s) := by
      rw [List.pairwise_map]
      exact hpw.imp (fun h => by simpa [feed_e, feed_s] using h)
    have hse' : ∀ p ∈ vals.map (feed true), p.s ≤ p.e := by
      intro p hp
      obtain ⟨q, hq, rfl⟩ := List.mem_map.mp hp
      simpa [feed_e, feed_s] using hse q hq
    have hfin := run_faithful size hsize (vals.map (feed true)) R hpw' hse' hR
    obtain ⟨r, hr, hrr⟩ := relL_forall true (fun _ _ => True) (fun _ _ _ => trivial) R3 R hrel r3 hr3
    have hv : r3.sumsq = r.sum := by simpa using hrr.val
    rw [hv, hfin.sum_ok r hr, wsum_sq, hrr.start, hrr.stop]

end Tiler2
