import BigtoolsModel.RTBuild
/-! Probe (C13, D4): `get_rtreeindex` on an empty section stream. The loop `if current_nodes.len() == 1 { break }`
    regroups an empty list into an empty list forever: for EVERY amount of fuel the model has not returned,
    which is what "the real loop never returns" means. With at least one section it always returns
    (`RT.build_search`). -/
namespace RT

theorem chunksF_nil' (b fuel : Nat) : chunksF b fuel ([] : List T) = [] := by
  cases fuel <;> simp [chunksF]

theorem group_nil (fixed : Bool) (b : Nat) : group fixed b [] = [] := by
  simp [group, chunks, chunksF]

/-- **D4: the builder as found never terminates on an empty level** (a zoom level without records, or a file
    whose only items are zero-length). -/
theorem buildLoop_empty_diverges (fixed : Bool) (b : Nat) : ∀ fuel, buildLoop fixed b fuel [] = none := by
  intro fuel
  induction fuel with
  | zero => rfl
  | succ fuel ih => simp [buildLoop, group_nil, ih]

theorem build_empty_diverges (fixed : Bool) (b : Nat) : ∀ fuel,
    buildLoop fixed b fuel ((chunks b ([] : List Sec)).map T.leaf) = none := by
  intro fuel
  have : (chunks b ([] : List Sec)).map T.leaf = [] := by simp [chunks, chunksF]
  rw [this]; exact buildLoop_empty_diverges fixed b fuel

end RT
