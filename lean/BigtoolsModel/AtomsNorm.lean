import BigtoolsModel.Generated.Atoms
import BigtoolsModel.Generated.Consts
/-! The arithmetic and the branch conditions of the two zoom tilers (`process_val_zoom` in bigwigwrite.rs and
    bigbedwrite.rs), of the two coverage sweeps (the summary sweep in `process_val`, the zoom sweep in `process_val_zoom`),
    of the section cut and of the variable-step / fixed-step decoders are REGENERATED from the Rust source on every run
    (`Generated/Atoms.lean`, tools/rs2lean.py). Here the model's loop bodies are re-assembled FROM THOSE EXPRESSIONS
    (`iterGen`, `bumpGen`, `tailGen`, `flushGen`, …) and proved equal to the model functions the property theorems are
    about. A change of one of these expressions in the source that is not an equivalent rewrite breaks the theorem here
    (and `Cex/AtomsCex.lean` then searches for arguments on which source and model differ). -/

set_option linter.unusedSimpArgs false
set_option linter.unusedVariables false

-- normalises Boolean tests to propositions
macro "atoms_norm" : tactic => `(tactic|
  (simp only [Bool.and_eq_true, Bool.or_eq_true, Bool.not_eq_true', decide_eq_true_eq, decide_eq_false_iff_not,
      Bool.if_false_left, Bool.if_false_right, Bool.if_true_left, Bool.if_true_right, Bool.false_eq_true, ge_iff_le, gt_iff_lt,
      Bool.not_eq_eq_eq_not, Bool.not_true, Bool.not_false, beq_iff_eq, bne_iff_ne, ne_eq] at *))
