import BigtoolsModel.FileOf
import BigtoolsModel.FileRTBed
/-! Probe (C02, closing the loop at the model level, repaired span rule): `bedFileOf` builds the `BedFile` the
    writer lays down for an input; `bedFileOf_valid`; `bed_model_roundtrip`: reading back any chromosome and
    range from the written bytes returns the input's entries that pass the reader's inclusive filter. -/
namespace BBI
open RT CD

structure ChromBedIn where
  name : List Nat
  size : Nat
  entries : List Entry

def firstS (ch : List Entry) : Nat := (ch.head?.map (·.s)).getD 0
def maxE : List Entry → Nat
  | [] => 0
  | x :: xs => max x.e (maxE xs)

def bedSecsOf (ips id : Nat) (c : ChromBedIn) : List (Nat × Nat × Nat × List Entry) :=
  (chunks ips c.entries).map fun ch => (id, firstS ch, maxE ch, ch)

def bedSectionsFrom (ips : Nat) : Nat → List ChromBedIn → List (Nat × Nat × Nat × List Entry)
  | _, [] => []
  | id, c :: cs => bedSecsOf ips id c ++ bedSectionsFrom ips (id + 1) cs

def bedChromsFrom : Nat → List ChromBedIn → List (List Nat × Nat × Nat)
  | _, [] => []
  | id, c :: cs => (c.name, id, c.size) :: bedChromsFrom (id + 1) cs

structure ChromBedInOK (c : ChromBedIn) : Prop where
  name : ∀ b ∈ c.name, b ≠ 0 ∧ b < 256
  size : c.size < 256 ^ 4
  nonempty : c.entries ≠ []
  entries : ∀ x ∈ c.entries, x.s ≤ x.e ∧ x.e ≤ c.size ∧ (∀ b ∈ x.rest, b ≠ 0) ∧ ¬ (x.s = 0 ∧ x.e = 0)
  sorted : c.entries.Pairwise fun a b => a.s ≤ b.s

theorem firstS_le (ch : List Entry) (h : ch.Pairwise fun a b => a.s ≤ b.s) : ∀ v ∈ ch, firstS ch ≤ v.s := by
  cases ch with
  | nil => simp
  | cons x xs =>
    intro v hv
    simp only [firstS, List.head?_cons, Option.map_some, Option.getD_some]
    simp only [List.mem_cons] at hv
    rcases hv with rfl | hv
    · omega
    · exact (List.pairwise_cons.mp h).1 v hv

theorem le_maxE : ∀ (ch : List Entry), ∀ v ∈ ch, v.e ≤ maxE ch := by
  intro ch
  induction ch with
  | nil => simp
  | cons x xs ih =>
    intro v hv
    simp only [List.mem_cons] at hv
    simp only [maxE]
    rcases hv with rfl | hv
    · omega
    · have := ih v hv; omega

theorem maxE_le (bound : Nat) : ∀ (ch : List Entry), (∀ v ∈ ch, v.e ≤ bound) → maxE ch ≤ bound := by
  intro ch
  induction ch with
  | nil => intro _; simp [maxE]
  | cons x xs ih =>
    intro h
    simp only [maxE]
    have := h x (by simp)
    have := ih (fun v hv => h v (by simp [hv]))
    omega

theorem mkBSecs_mem : ∀ (xs : List (Nat × Nat × Nat × List Entry)) (base : Nat) (d : BSec), d ∈ mkBSecs base xs →
    ∃ x ∈ xs, d.chrom = x.1 ∧ d.lob = x.2.1 ∧ d.hib = x.2.2.1 ∧ d.items = x.2.2.2 ∧
      base ≤ d.off ∧ d.off + d.bytes.length ≤ base + (bedDataBytes xs).length := by
  intro xs
  induction xs with
  | nil => intro base d h; simp [mkBSecs] at h
  | cons x xs ih =>
    intro base d h
    simp only [mkBSecs, List.mem_cons] at h
    simp only [bedDataBytes, List.flatMap_cons, List.length_append]
    rcases h with rfl | h
    · exact ⟨x, by simp, rfl, rfl, rfl, rfl, Nat.le_refl _, by simp only [BSec.bytes]; omega⟩
    · obtain ⟨y, hy, h1, h2, h3, h4, h6, h7⟩ := ih _ d h
      refine ⟨y, by simp [hy], h1, h2, h3, h4, by omega, ?_⟩
      simp only [bedDataBytes] at h7
      omega

theorem bedSectionsFrom_mem (ips : Nat) : ∀ (cs : List ChromBedIn) (id0 : Nat) (x : Nat × Nat × Nat × List Entry),
    x ∈ bedSectionsFrom ips id0 cs →
    ∃ c ∈ cs, ∃ ch ∈ chunks ips c.entries, x = (x.1, firstS ch, maxE ch, ch) ∧ id0 ≤ x.1 ∧ x.1 < id0 + cs.length := by
  intro cs
  induction cs with
  | nil => intro id0 x h; simp [bedSectionsFrom] at h
  | cons c cs ih =>
    intro id0 x h
    simp only [bedSectionsFrom, List.mem_append, bedSecsOf, List.mem_map] at h
    rcases h with ⟨ch, hch, rfl⟩ | h
    · exact ⟨c, by simp, ch, hch, rfl, Nat.le_refl _, by simp⟩
    · obtain ⟨c', hc', ch, hch, hx, h1, h2⟩ := ih (id0 + 1) x h
      exact ⟨c', by simp [hc'], ch, hch, hx, by omega, by simp only [List.length_cons]; omega⟩

theorem bed_section_ok (ips : Nat) (cs : List ChromBedIn) (hcs : ∀ c ∈ cs, ChromBedInOK c)
    (hn : cs.length < 256 ^ 2) (base total : Nat)
    (htotal : base + (bedDataBytes (bedSectionsFrom ips 0 cs)).length ≤ total) (h64 : total < 256 ^ 8) :
    ∀ d ∈ mkBSecs base (bedSectionsFrom ips 0 cs), BSecOK d := by
  intro d hd
  obtain ⟨x, hx, e1, e2, e3, e4, e6, e7⟩ := mkBSecs_mem _ base d hd
  obtain ⟨c, hc, ch, hch, hxe, hid1, hid2⟩ := bedSectionsFrom_mem ips cs 0 x hx
  have hok := hcs c hc
  have hsub := chunks_sublist ips c.entries ch hch
  have hne := chunks_ne_nil ips c.entries ch hch
  have hsorted : ch.Pairwise fun a b => a.s ≤ b.s := hok.sorted.sublist hsub
  have hv := fun v (hv : v ∈ ch) => hok.entries v (hsub.subset hv)
  have hitems : d.items = ch := by rw [e4, hxe]
  have hlob : d.lob = firstS ch := by rw [e2, hxe]
  have hhib : d.hib = maxE ch := by rw [e3, hxe]
  have hchrom : d.chrom < 256 ^ 4 := by rw [e1]; simp only [Nat.zero_add] at hid2; omega
  obtain ⟨f, hf⟩ : ∃ f, ch.head? = some f := by
    cases ch with
    | nil => exact absurd rfl hne
    | cons a as => exact ⟨a, rfl⟩
  have hfm := List.mem_of_head? hf
  have hfs : firstS ch = f.s := by simp [firstS, hf]
  have hsz := hok.size
  have hmax : maxE ch ≤ c.size := maxE_le c.size ch (fun v hvv => (hv v hvv).2.1)
  refine ⟨⟨⟨hchrom, ?_⟩, ⟨hchrom, ?_⟩, ?_, ?_⟩, ?_, ?_⟩
  · show d.lob < 256 ^ 4
    rw [hlob, hfs]; have := hv f hfm; omega
  · show d.hib < 256 ^ 4
    rw [hhib]; omega
  · show d.off < 256 ^ 8
    omega
  · show d.bytes.length < 256 ^ 8
    omega
  · intro v hvv
    rw [hitems] at hvv
    obtain ⟨a1, a2, a3, a4⟩ := hv v hvv
    exact ⟨by omega, by omega, a3, a4⟩
  · intro v hvv
    rw [hitems] at hvv
    rw [hlob, hhib]
    exact ⟨firstS_le ch hsorted v hvv, le_maxE ch v hvv⟩

def bedLoOf (x : Nat × Nat × Nat × List Entry) : Pos := ⟨x.1, x.2.1⟩

theorem mkBSecs_lo : ∀ (xs : List (Nat × Nat × Nat × List Entry)) (base : Nat),
    (mkBSecs base xs).map (fun d => d.sec.lo) = xs.map bedLoOf := by
  intro xs
  induction xs with
  | nil => intro _; rfl
  | cons x xs ih => intro base; simp only [mkBSecs, List.map_cons, ih]; rfl

theorem bedSecsOf_sorted (ips : Nat) (hips : 0 < ips) (id : Nat) (c : ChromBedIn) (hc : ChromBedInOK c) :
    ((bedSecsOf ips id c).map bedLoOf).Pairwise (· ≤ ·) := by
  have hs := hc.sorted
  rw [← chunks_flatten ips hips c.entries, List.pairwise_flatten] at hs
  simp only [bedSecsOf, List.map_map, List.pairwise_map]
  refine hs.2.imp_of_mem ?_
  intro l1 l2 h1 h2 hr
  show Pos.le ⟨id, firstS l1⟩ ⟨id, firstS l2⟩
  right
  refine ⟨rfl, ?_⟩
  have n1 := chunks_ne_nil ips c.entries l1 h1
  have n2 := chunks_ne_nil ips c.entries l2 h2
  cases l1 with
  | nil => exact absurd rfl n1
  | cons a as =>
    cases l2 with
    | nil => exact absurd rfl n2
    | cons b bs =>
      simp only [firstS, List.head?_cons, Option.map_some, Option.getD_some]
      exact hr a (by simp) b (by simp)

theorem bedSectionsFrom_sorted (ips : Nat) (hips : 0 < ips) : ∀ (cs : List ChromBedIn) (id0 : Nat),
    (∀ c ∈ cs, ChromBedInOK c) → ((bedSectionsFrom ips id0 cs).map bedLoOf).Pairwise (· ≤ ·) := by
  intro cs
  induction cs with
  | nil => intro _ _; simp [bedSectionsFrom]
  | cons c cs ih =>
    intro id0 h
    simp only [bedSectionsFrom, List.map_append, List.pairwise_append]
    refine ⟨bedSecsOf_sorted ips hips id0 c (h c (by simp)), ih (id0 + 1) (fun x hx => h x (by simp [hx])), ?_⟩
    intro p hp q hq
    obtain ⟨x, hx, rfl⟩ := List.mem_map.mp hp
    obtain ⟨y, hy, rfl⟩ := List.mem_map.mp hq
    simp only [bedSecsOf, List.mem_map] at hx
    obtain ⟨ch, _, rfl⟩ := hx
    obtain ⟨_, _, _, _, _, hy1, _⟩ := bedSectionsFrom_mem ips cs (id0 + 1) y hy
    show Pos.le _ _
    left
    show id0 < y.1
    omega

theorem bds_sorted (ips : Nat) (hips : 0 < ips) (cs : List ChromBedIn) (h : ∀ c ∈ cs, ChromBedInOK c) (base : Nat) :
    LoSorted ((mkBSecs base (bedSectionsFrom ips 0 cs)).map BSec.sec) := by
  unfold LoSorted
  have := bedSectionsFrom_sorted ips hips cs 0 h
  rw [← mkBSecs_lo _ base, List.pairwise_map] at this
  rw [List.pairwise_map]
  exact this

def bedKeySizeOf : List ChromBedIn → Nat
  | [] => 0
  | c :: cs => max c.name.length (bedKeySizeOf cs)

theorem le_bedKeySizeOf : ∀ (cs : List ChromBedIn), ∀ c ∈ cs, c.name.length ≤ bedKeySizeOf cs := by
  intro cs
  induction cs with
  | nil => intro c h; simp at h
  | cons x xs ih =>
    intro c h
    simp only [List.mem_cons] at h
    simp only [bedKeySizeOf]
    rcases h with rfl | h
    · omega
    · have := ih c h; omega

theorem bedChromsFrom_names : ∀ (cs : List ChromBedIn) (id0 : Nat),
    (bedChromsFrom id0 cs).map (·.1) = cs.map (·.name) := by
  intro cs
  induction cs with
  | nil => intro _; rfl
  | cons c cs ih => intro id0; simp [bedChromsFrom, ih]

theorem bedChromsFrom_length : ∀ (cs : List ChromBedIn) (id0 : Nat), (bedChromsFrom id0 cs).length = cs.length := by
  intro cs
  induction cs with
  | nil => intro _; rfl
  | cons c cs ih => intro id0; simp [bedChromsFrom, ih]

theorem bedChromsFrom_mem : ∀ (cs : List ChromBedIn) (id0 : Nat) (x : List Nat × Nat × Nat), x ∈ bedChromsFrom id0 cs →
    ∃ c ∈ cs, x.1 = c.name ∧ x.2.2 = c.size ∧ id0 ≤ x.2.1 ∧ x.2.1 < id0 + cs.length := by
  intro cs
  induction cs with
  | nil => intro id0 x h; simp [bedChromsFrom] at h
  | cons c cs ih =>
    intro id0 x h
    simp only [bedChromsFrom, List.mem_cons] at h
    rcases h with rfl | h
    · exact ⟨c, by simp, rfl, rfl, Nat.le_refl _, by simp⟩
    · obtain ⟨c', hc', h1, h2, h3, h4⟩ := ih (id0 + 1) x h
      exact ⟨c', by simp [hc'], h1, h2, by omega, by simp only [List.length_cons]; omega⟩

theorem bedChromsFrom_get : ∀ (cs : List ChromBedIn) (id0 j : Nat) (hj : j < cs.length),
    (cs[j].name, id0 + j, cs[j].size) ∈ bedChromsFrom id0 cs := by
  intro cs
  induction cs with
  | nil => intro _ j hj; simp at hj
  | cons c cs ih =>
    intro id0 j hj
    cases j with
    | zero => simp [bedChromsFrom]
    | succ j =>
      simp only [bedChromsFrom, List.getElem_cons_succ, List.mem_cons]
      right
      have := ih (id0 + 1) j (by simpa using hj)
      rwa [show id0 + 1 + j = id0 + (j + 1) by omega] at this

theorem mkBSecs_append : ∀ (xs ys : List (Nat × Nat × Nat × List Entry)) (b : Nat),
    mkBSecs b (xs ++ ys) = mkBSecs b xs ++ mkBSecs (b + (bedDataBytes xs).length) ys := by
  intro xs
  induction xs with
  | nil => intro ys b; simp [mkBSecs, bedDataBytes]
  | cons x xs ihx =>
    intro ys b
    simp only [List.cons_append, mkBSecs, ihx, bedDataBytes, List.flatMap_cons, List.length_append, Nat.add_assoc]

theorem bed_own_sections (id0 j : Nat) : ∀ (chs : List (List Entry)) (b : Nat),
    ((mkBSecs b (chs.map fun ch => (id0, firstS ch, maxE ch, ch))).filter fun d => d.chrom = j).flatMap (·.items) =
      if id0 = j then chs.flatten else [] := by
  intro chs
  induction chs with
  | nil => intro b; simp [mkBSecs]
  | cons ch chs ihc =>
    intro b
    simp only [List.map_cons, mkBSecs, List.filter_cons]
    by_cases hj : id0 = j
    · have := ihc (b + (ch.flatMap (encEntry id0)).length)
      simp only [hj, if_true] at this ⊢
      simp only [decide_true, if_true, List.flatMap_cons, List.flatten_cons, this]
    · have := ihc (b + (ch.flatMap (encEntry id0)).length)
      simp only [hj, if_false] at this ⊢
      simp only [decide_false, Bool.false_eq_true, if_false, this]

theorem bed_sections_of_id (ips : Nat) (hips : 0 < ips) : ∀ (cs : List ChromBedIn) (id0 base j : Nat),
    ((mkBSecs base (bedSectionsFrom ips id0 cs)).filter fun d => d.chrom = j).flatMap (·.items) =
      if h : id0 ≤ j ∧ j - id0 < cs.length then (cs[j - id0]'h.2).entries else [] := by
  intro cs
  induction cs with
  | nil => intro id0 base j; simp [bedSectionsFrom, mkBSecs]
  | cons c cs ih =>
    intro id0 base j
    simp only [bedSectionsFrom, mkBSecs_append, List.filter_append, List.flatMap_append, bedSecsOf]
    rw [bed_own_sections, ih (id0 + 1), chunks_flatten ips hips]
    by_cases hj : id0 = j
    · subst hj
      have h1 : ¬ (id0 + 1 ≤ id0 ∧ id0 - (id0 + 1) < cs.length) := by omega
      have h2 : id0 ≤ id0 ∧ id0 - id0 < (c :: cs).length := by simp
      rw [dif_neg h1, dif_pos h2]
      simp
    · rw [if_neg hj, List.nil_append]
      by_cases hlt : id0 ≤ j ∧ j - id0 < (c :: cs).length
      · have h1 : id0 + 1 ≤ j ∧ j - (id0 + 1) < cs.length := by
          have := hlt.2; simp only [List.length_cons] at this; omega
        rw [dif_pos h1, dif_pos hlt]
        have : j - id0 = (j - (id0 + 1)) + 1 := by omega
        simp only [this, List.getElem_cons_succ]
      · have h1 : ¬ (id0 + 1 ≤ j ∧ j - (id0 + 1) < cs.length) := by
          intro hh; apply hlt; simp only [List.length_cons]; omega
        rw [dif_neg h1, dif_neg hlt]

/-! ### the file of an input -/

structure BOpts where
  ips : Nat
  b : Nat
  zc : Nat
  dof : Nat
  fc : Nat
  dfc : Nat
  aso : Nat
  so : Nat
  bs : Nat
  mid : List Nat        -- zoom directory, autoSql text, total summary, data count
  tail : List Nat

/-- the number of entries after which the writer cuts a data block: the option, capped at 65535 like the bigWig
writer's (`bigbedwrite.rs`, `let max_items = (options.items_per_slot as usize).min(u16::MAX as usize)`; D22) -/
def BOpts.cut (o : BOpts) : Nat := min o.ips 65535

theorem BOpts.cut1 (o : BOpts) (h : 0 < o.ips) : 0 < o.cut := by unfold BOpts.cut; omega

def bedFileOf (o : BOpts) (cs : List ChromBedIn) : BedFile :=
  { zoomCount := o.zc, dataOff := o.dof, fieldCount := o.fc, definedFieldCount := o.dfc, autoSqlOff := o.aso,
    summaryOff := o.so, bufSize := o.bs, mid := o.mid,
    sections := bedSectionsFrom o.cut 0 cs, keySize := bedKeySizeOf cs, chromBlockSize := max 256 cs.length,
    chroms := bedChromsFrom 0 cs, blockSize := o.b, itemsPerSlot := o.ips,
    rootSpan := ((build true o.b ((mkBSecs (64 + o.mid.length) (bedSectionsFrom o.cut 0 cs)).map BSec.sec)).map
      (spanOf true)).getD ⟨⟨0, 0⟩, ⟨0, 0⟩⟩,
    levels := (levelsOf true o.b ((mkBSecs (64 + o.mid.length) (bedSectionsFrom o.cut 0 cs)).map BSec.sec)).getD [],
    tail := o.tail }

structure ValidBedInput (o : BOpts) (cs : List ChromBedIn) : Prop where
  ips1 : 0 < o.ips
  b2 : 2 ≤ o.b
  b16 : o.b < 256 ^ 2
  zc : o.zc < 256 ^ 2
  zdir : o.zc * 24 ≤ o.mid.length
  nonempty : cs ≠ []
  nchroms : cs.length < 256 ^ 2
  chroms : ∀ c ∈ cs, ChromBedInOK c
  names : (cs.map (·.name)).Nodup
  ks : bedKeySizeOf cs < 256 ^ 4
  size : (bedFileOf o cs).bytes.length < 256 ^ 8

theorem bed_sections_ne_nil (ips : Nat) (hips : 0 < ips) (cs : List ChromBedIn) (hne : cs ≠ [])
    (h : ∀ c ∈ cs, ChromBedInOK c) : bedSectionsFrom ips 0 cs ≠ [] := by
  cases cs with
  | nil => exact absurd rfl hne
  | cons c cs =>
    have hc := h c (by simp)
    have := chunks_length_pos ips hips c.entries hc.nonempty
    intro hh
    have hl := congrArg List.length hh
    simp only [bedSectionsFrom, bedSecsOf, List.length_append, List.length_map, List.length_nil] at hl
    omega

theorem bedFileOf_valid (o : BOpts) (cs : List ChromBedIn) (h : ValidBedInput o cs) : (bedFileOf o cs).Valid := by
  have hsne := bed_sections_ne_nil o.cut (o.cut1 h.ips1) cs h.nonempty h.chroms
  have hdsne : mkBSecs (64 + o.mid.length) (bedSectionsFrom o.cut 0 cs) ≠ [] := by
    cases hs : bedSectionsFrom o.cut 0 cs with
    | nil => exact absurd hs hsne
    | cons x xs => simp [mkBSecs]
  have hbytes : 64 + o.mid.length + (bedDataBytes (bedSectionsFrom o.cut 0 cs)).length ≤ (bedFileOf o cs).bytes.length := by
    simp only [BedFile.bytes, bedFileOf, List.length_append, bedHeaderBytes_length]
    omega
  refine
    { zc := h.zc, zdir := h.zdir, size := h.size, ks := h.ks
      nchroms := by show (bedChromsFrom 0 cs).length < _; rw [bedChromsFrom_length]; exact h.nchroms
      chromsOK := ?_, names := ?_, b2 := h.b2, b16 := h.b16, nonempty := hsne, secsOK := ?_, sorted := ?_, levels := ?_ }
  · intro x hx
    obtain ⟨c, hc, h1, h2, _, h4⟩ := bedChromsFrom_mem cs 0 x hx
    have hok := h.chroms c hc
    have hn := h.nchroms
    refine ⟨?_, ?_, ?_, ?_⟩
    · rw [h1]; exact le_bedKeySizeOf cs c hc
    · rw [h1]; exact hok.name
    · omega
    · rw [h2]; exact hok.size
  · show ((bedChromsFrom 0 cs).map (·.1)).Nodup
    rw [bedChromsFrom_names]; exact h.names
  · exact bed_section_ok o.cut cs h.chroms h.nchroms (64 + o.mid.length) _ hbytes h.size
  · exact bds_sorted o.cut (o.cut1 h.ips1) cs h.chroms _
  · show levelsOf true o.b _ = some ((levelsOf true o.b _).getD [])
    obtain ⟨Ls, hLs⟩ := levelsOf_some o.b h.b2 ((mkBSecs (64 + o.mid.length) (bedSectionsFrom o.cut 0 cs)).map BSec.sec)
      (by simpa using hdsne)
    have : (bedFileOf o cs).ds = mkBSecs (64 + o.mid.length) (bedSectionsFrom o.cut 0 cs) := rfl
    rw [this, hLs]; rfl

/-- **C02 for the model writer (little-endian, uncompressed, repaired span rule): write, then read.** For every
    valid input (any number of chromosomes with distinct names, each with entries sorted by start — overlapping,
    nested, identical entries allowed, however long earlier entries are), every `items_per_slot ≥ 1` and fan-out
    `≥ 2`: querying chromosome `j` over any range on the written bytes returns exactly that chromosome's input
    entries passing the reader's inclusive filter, once each, in stored order. -/
theorem bed_model_roundtrip (o : BOpts) (cs : List ChromBedIn) (h : ValidBedInput o cs) (j : Nat) (hj : j < cs.length)
    (qs qe : Nat) :
    ∃ fuel₀, ∀ fuel, fuel₀ ≤ fuel →
      getBedIntervalF fuel (bedFileOf o cs).bytes (cs[j].name.map UInt8.ofNat) qs qe =
        .ok (.ok (cs[j].entries.filter (bedKeep qs qe))) := by
  have hv := bedFileOf_valid o cs h
  have hmem : (cs[j].name, j, cs[j].size) ∈ (bedFileOf o cs).chroms := by
    have := bedChromsFrom_get cs 0 j hj
    rw [Nat.zero_add] at this
    exact this
  obtain ⟨fuel₀, hf⟩ := bed_file_roundtrip (bedFileOf o cs) hv (cs[j].name, j, cs[j].size) hmem qs qe
  refine ⟨fuel₀, fun fuel hfuel => ?_⟩
  rw [hf fuel hfuel]
  have : (bedFileOf o cs).ds = mkBSecs (64 + o.mid.length) (bedSectionsFrom o.cut 0 cs) := rfl
  rw [this, bed_sections_of_id o.cut (o.cut1 h.ips1) cs 0 _ j]
  simp [hj]

end BBI
