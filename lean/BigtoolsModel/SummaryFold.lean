/-! Probe (C06): the bigWig per-chromosome summary (`process_val`) and the cross-chromosome merge of `write_vals`
    (repaired: chromosomes covering no base do not contribute extrema, D17) give the statistics of all stored
    values: item count, covered bases, sum, sum of squares, minimum and maximum. -/
namespace SF

structure Val where
  s : Nat
  e : Nat
  v : Int
deriving DecidableEq, Repr

structure Sm where
  items : Nat
  bases : Nat
  mn : Int
  mx : Int
  sum : Int
  sumsq : Int
deriving DecidableEq, Repr

def len (x : Val) : Nat := x.e - x.s

def optMin : Option Int → Int → Option Int
  | none, v => some v
  | some m, v => some (min m v)
def optMax : Option Int → Int → Option Int
  | none, v => some v
  | some m, v => some (max m v)

/-- running state of one chromosome: extrema start at `f64::MAX` / `f64::MIN` (`none`) -/
structure Run where
  items : Nat
  bases : Nat
  mn : Option Int
  mx : Option Int
  sum : Int
  sumsq : Int

def step (r : Run) (x : Val) : Run :=
  { items := r.items + 1, bases := r.bases + len x, mn := optMin r.mn x.v, mx := optMax r.mx x.v,
    sum := r.sum + (len x : Int) * x.v, sumsq := r.sumsq + (len x : Int) * x.v * x.v }

/-- `destroy`: a chromosome without items reports 0 / 0 -/
def finish (r : Run) : Sm := ⟨r.items, r.bases, r.mn.getD 0, r.mx.getD 0, r.sum, r.sumsq⟩

def chromSummary (vals : List Val) : Sm := finish (vals.foldl step ⟨0, 0, none, none, 0, 0⟩)

/-- the merge in `write_vals`; `fixed` = extrema only from chromosomes that cover something -/
def merge (fixed : Bool) (a b : Sm) : Sm :=
  let (mn, mx) :=
    if fixed then
      if b.bases > 0 then (if a.bases > 0 then (min a.mn b.mn, max a.mx b.mx) else (b.mn, b.mx)) else (a.mn, a.mx)
    else (min a.mn b.mn, max a.mx b.mx)
  ⟨a.items + b.items, a.bases + b.bases, mn, mx, a.sum + b.sum, a.sumsq + b.sumsq⟩

def mergeAll (fixed : Bool) : List Sm → Sm
  | [] => ⟨0, 0, 0, 0, 0, 0⟩
  | s :: rest => rest.foldl (merge fixed) s

/-! ### specification -/

def minOf : List Int → Int
  | [] => 0
  | a :: rest => rest.foldl min a
def maxOf : List Int → Int
  | [] => 0
  | a :: rest => rest.foldl max a

def spec (vals : List Val) : Sm :=
  ⟨vals.length, (vals.map len).sum, minOf (vals.map (·.v)), maxOf (vals.map (·.v)),
   (vals.map fun x => (len x : Int) * x.v).sum, (vals.map fun x => (len x : Int) * x.v * x.v).sum⟩

theorem foldl_step (vals : List Val) (r : Run) :
    vals.foldl step r =
      { items := r.items + vals.length, bases := r.bases + (vals.map len).sum,
        mn := vals.foldl (fun m x => optMin m x.v) r.mn, mx := vals.foldl (fun m x => optMax m x.v) r.mx,
        sum := r.sum + (vals.map fun x => (len x : Int) * x.v).sum,
        sumsq := r.sumsq + (vals.map fun x => (len x : Int) * x.v * x.v).sum } := by
  induction vals generalizing r with
  | nil => simp
  | cons x xs ih =>
    simp only [List.foldl_cons, ih, step, List.length_cons, List.map_cons, List.sum_cons]
    congr 1 <;> omega

theorem foldl_optMin (vals : List Val) (a : Int) :
    vals.foldl (fun m x => optMin m x.v) (some a) = some ((vals.map (·.v)).foldl min a) := by
  induction vals generalizing a with
  | nil => rfl
  | cons x xs ih => simp only [List.foldl_cons, List.map_cons]; exact ih (min a x.v)

theorem foldl_optMax (vals : List Val) (a : Int) :
    vals.foldl (fun m x => optMax m x.v) (some a) = some ((vals.map (·.v)).foldl max a) := by
  induction vals generalizing a with
  | nil => rfl
  | cons x xs ih => simp only [List.foldl_cons, List.map_cons]; exact ih (max a x.v)

/-- one chromosome: the summary is the statistics of its values -/
theorem chromSummary_eq (vals : List Val) : chromSummary vals = spec vals := by
  unfold chromSummary spec finish
  rw [foldl_step]
  cases vals with
  | nil => simp [minOf, maxOf]
  | cons x xs =>
    have e1 : optMin none x.v = some x.v := rfl
    have e2 : optMax none x.v = some x.v := rfl
    simp only [List.foldl_cons, e1, e2, foldl_optMin, foldl_optMax, Option.getD_some, List.map_cons, minOf,
      maxOf, List.length_cons, List.sum_cons]
    congr 1 <;> omega

theorem foldl_min_assoc (l : List Int) (a b : Int) : l.foldl min (min a b) = min a (l.foldl min b) := by
  induction l generalizing a b with
  | nil => rfl
  | cons x xs ih =>
    simp only [List.foldl_cons]
    rw [show min (min a b) x = min a (min b x) by omega, ih]

theorem foldl_max_assoc (l : List Int) (a b : Int) : l.foldl max (max a b) = max a (l.foldl max b) := by
  induction l generalizing a b with
  | nil => rfl
  | cons x xs ih =>
    simp only [List.foldl_cons]
    rw [show max (max a b) x = max a (max b x) by omega, ih]

theorem minOf_append (a b : List Int) (ha : a ≠ []) (hb : b ≠ []) : minOf (a ++ b) = min (minOf a) (minOf b) := by
  cases a with
  | nil => exact absurd rfl ha
  | cons x xs =>
    cases b with
    | nil => exact absurd rfl hb
    | cons y ys =>
      simp only [minOf, List.cons_append, List.foldl_append, List.foldl_cons]
      rw [foldl_min_assoc]

theorem maxOf_append (a b : List Int) (ha : a ≠ []) (hb : b ≠ []) : maxOf (a ++ b) = max (maxOf a) (maxOf b) := by
  cases a with
  | nil => exact absurd rfl ha
  | cons x xs =>
    cases b with
    | nil => exact absurd rfl hb
    | cons y ys =>
      simp only [maxOf, List.cons_append, List.foldl_append, List.foldl_cons]
      rw [foldl_max_assoc]

/-- every value covers at least one base -/
def Pos (vals : List Val) : Prop := vals ≠ [] ∧ ∀ x ∈ vals, x.s < x.e

theorem pos_bases (vals : List Val) (h : Pos vals) : 0 < (vals.map len).sum := by
  obtain ⟨hne, hp⟩ := h
  cases vals with
  | nil => exact absurd rfl hne
  | cons x xs =>
    have := hp x (by simp)
    simp only [List.map_cons, List.sum_cons, len]; omega

theorem merge_spec (a b : List Val) (ha : Pos a) (hb : Pos b) : merge true (spec a) (spec b) = spec (a ++ b) := by
  have pa := pos_bases a ha
  have pb := pos_bases b hb
  have na : a.map (·.v) ≠ [] := by simpa using ha.1
  have nb : b.map (·.v) ≠ [] := by simpa using hb.1
  simp only [merge, spec, if_true, pa, pb, gt_iff_lt, List.map_append, List.sum_append, List.length_append,
    minOf_append _ _ na nb, maxOf_append _ _ na nb]

theorem pos_append (a b : List Val) (ha : Pos a) (hb : Pos b) : Pos (a ++ b) :=
  ⟨by simp [ha.1], fun x hx => by
    rcases List.mem_append.mp hx with h | h
    · exact ha.2 x h
    · exact hb.2 x h⟩

/-- **Total summary, bigWig.** Any number of chromosomes, each with at least one value, all values non-empty:
    merging the per-chromosome summaries gives the statistics of all stored values. -/
theorem total_summary_eq (c : List Val) (cs : List (List Val)) (hc : Pos c) (hcs : ∀ x ∈ cs, Pos x) :
    mergeAll true ((c :: cs).map chromSummary) = spec (c ++ cs.flatten) := by
  simp only [List.map_cons, mergeAll, chromSummary_eq]
  induction cs generalizing c with
  | nil => simp
  | cons d ds ih =>
    simp only [List.map_cons, List.foldl_cons, chromSummary_eq]
    rw [merge_spec c d hc (hcs d (by simp))]
    have := ih (c ++ d) (pos_append c d hc (hcs d (by simp))) (fun x hx => hcs x (by simp [hx]))
    rw [this]
    simp [List.append_assoc]

/-- D17, as found: a chromosome that covers nothing (reporting 0/0) drags the minimum to 0 -/
theorem zero_chrom_pollutes_as_found :
    (merge false ⟨2, 10, 2, 2, 20, 40⟩ ⟨1, 0, 0, 0, 0, 0⟩).mn = 0 ∧
    (merge true ⟨2, 10, 2, 2, 20, 40⟩ ⟨1, 0, 0, 0, 0, 0⟩).mn = 2 := by decide

end SF
