import BigtoolsModel.SweepStats
/-! C06 (bigBed, across chromosomes): the per-chromosome summary taken from the emitted depth segments and the
    cross-chromosome merge of `write_vals` (repaired: extrema only from chromosomes that cover something, D17;
    zero-length pieces ignored, D16). The merged summary of two chromosomes is the summary of all their segments. -/
namespace BSUM
open SW

structure Sm where
  bases : Nat
  sum : Nat
  sumsq : Nat
  mn : Nat
  mx : Nat
deriving DecidableEq, Repr

def pos (l : List Seg) : List Seg := l.filter fun g => g.s < g.e

def minD : List Nat → Nat
  | [] => 0
  | a :: rest => rest.foldl min a
def maxD (l : List Nat) : Nat := l.foldl max 0

/-- the summary of one chromosome from its emitted segments -/
def ofSegs (l : List Seg) : Sm :=
  let p := pos l
  ⟨(p.map fun g => g.e - g.s).sum, (p.map fun g => (g.e - g.s) * g.d).sum, (p.map fun g => (g.e - g.s) * g.d * g.d).sum,
   minD (p.map (·.d)), maxD (p.map (·.d))⟩

/-- the merge of `write_vals` (repaired) -/
def merge (a b : Sm) : Sm :=
  let (mn, mx) := if b.bases > 0 then (if a.bases > 0 then (min a.mn b.mn, max a.mx b.mx) else (b.mn, b.mx)) else (a.mn, a.mx)
  ⟨a.bases + b.bases, a.sum + b.sum, a.sumsq + b.sumsq, mn, mx⟩

theorem pos_append (a b : List Seg) : pos (a ++ b) = pos a ++ pos b := by simp [pos]

theorem foldl_min_assoc (l : List Nat) (a b : Nat) : l.foldl min (min a b) = min a (l.foldl min b) := by
  induction l generalizing b with
  | nil => rfl
  | cons x xs ih => simp only [List.foldl_cons]; rw [Nat.min_assoc, ih]

theorem minD_append (a b : List Nat) (ha : a ≠ []) (hb : b ≠ []) : minD (a ++ b) = min (minD a) (minD b) := by
  cases a with
  | nil => exact absurd rfl ha
  | cons x xs =>
    cases b with
    | nil => exact absurd rfl hb
    | cons y ys =>
      simp only [minD, List.cons_append, List.foldl_append, List.foldl_cons]
      rw [foldl_min_assoc ys (xs.foldl min x) y]

theorem foldl_max_init (l : List Nat) (a : Nat) : l.foldl max a = max a (l.foldl max 0) := by
  induction l generalizing a with
  | nil => simp
  | cons x xs ih => simp only [List.foldl_cons]; rw [ih (max a x), ih (max 0 x)]; omega

theorem maxD_append (a b : List Nat) : maxD (a ++ b) = max (maxD a) (maxD b) := by
  unfold maxD
  rw [List.foldl_append, foldl_max_init b (a.foldl max 0)]

theorem bases_pos_iff (l : List Seg) : (ofSegs l).bases > 0 ↔ pos l ≠ [] := by
  unfold ofSegs
  simp only
  constructor
  · intro h hn; rw [hn] at h; simp at h
  · intro h
    cases hp : pos l with
    | nil => exact absurd hp h
    | cons g gs =>
      have hg : g ∈ pos l := by rw [hp]; simp
      have : g.s < g.e := by simpa [pos] using (List.mem_filter.mp hg).2
      simp only [List.map_cons, List.sum_cons]
      omega

/-- **Cross-chromosome merge.** Merging the summaries of two chromosomes gives the summary of all their emitted
    segments: covered bases, sum and sum of squares add up; minimum and maximum are taken over the pieces of positive
    length of both — a chromosome covering nothing contributes nothing. -/
theorem merge_ofSegs (a b : List Seg) : merge (ofSegs a) (ofSegs b) = ofSegs (a ++ b) := by
  have ha := bases_pos_iff a
  have hb := bases_pos_iff b
  by_cases hpb : pos b = []
  · have hb0 : ¬ (ofSegs b).bases > 0 := fun h => (hb.mp h) hpb
    simp only [merge, hb0, if_false]
    simp [ofSegs, pos_append, hpb]
  · have hb1 : (ofSegs b).bases > 0 := hb.mpr hpb
    by_cases hpa : pos a = []
    · have ha0 : ¬ (ofSegs a).bases > 0 := fun h => (ha.mp h) hpa
      simp only [merge, hb1, ha0, if_true, if_false]
      simp [ofSegs, pos_append, hpa]
    · have ha1 : (ofSegs a).bases > 0 := ha.mpr hpa
      simp only [merge, hb1, ha1, if_true]
      have hma : (pos a).map (·.d) ≠ [] := by simpa using hpa
      have hmb : (pos b).map (·.d) ≠ [] := by simpa using hpb
      simp only [ofSegs, pos_append, List.map_append, List.sum_append, minD_append _ _ hma hmb, maxD_append]

/-- … hence for any number of chromosomes: folding `merge` over the per-chromosome summaries is the summary of all
    emitted segments. -/
theorem mergeAll_ofSegs (c : List Seg) (cs : List (List Seg)) :
    (cs.map ofSegs).foldl merge (ofSegs c) = ofSegs (c ++ cs.flatten) := by
  induction cs generalizing c with
  | nil => simp
  | cons x xs ih =>
    simp only [List.map_cons, List.foldl_cons, List.flatten_cons]
    rw [merge_ofSegs, ih (c ++ x), List.append_assoc]

end BSUM
