import BigtoolsModel.MergeProof
/-! Probe (C15): the merged output is sorted, non-overlapping, free of zero values and of empty items. -/
namespace MG

/-- items in order, each non-empty with a non-zero value, none starting before `lo` -/
def SortedOut : Nat → List Val → Prop
  | _, [] => True
  | lo, x :: rest => lo ≤ x.s ∧ x.s < x.e ∧ x.v ≠ 0 ∧ SortedOut x.e rest

theorem sortedOut_weaken : ∀ (l : List Val) (lo lo' : Nat), SortedOut lo l → lo' ≤ lo → SortedOut lo' l := by
  intro l
  cases l with
  | nil => intro _ _ _ _; trivial
  | cons x rest => intro lo lo' h hl; exact ⟨by have := h.1; omega, h.2.1, h.2.2.1, h.2.2.2⟩

/-- upper end of a sorted list (or `lo` when empty) -/
def endOfOut : Nat → List Val → Nat
  | lo, [] => lo
  | _, x :: rest => endOfOut x.e rest

theorem sortedOut_append : ∀ (a b : List Val) (lo : Nat), SortedOut lo a → SortedOut (endOfOut lo a) b → SortedOut lo (a ++ b) := by
  intro a
  induction a with
  | nil => intro b lo _ hb; exact hb
  | cons x rest ih => intro b lo ha hb; exact ⟨ha.1, ha.2.1, ha.2.2.1, ih b x.e ha.2.2.2 hb⟩

theorem endOfOut_ge : ∀ (l : List Val) (lo : Nat), SortedOut lo l → lo ≤ endOfOut lo l := by
  intro l
  induction l with
  | nil => intro lo _; exact Nat.le_refl _
  | cons x rest ih => intro lo h; have := ih x.e h.2.2.2; have := h.1; have := h.2.1; simp only [endOfOut]; omega

theorem sortedOut_emit (c : Val) (lo : Nat) (h1 : lo ≤ c.s) (h2 : c.s < c.e) : SortedOut lo (emit c) ∧ endOfOut lo (emit c) ≤ c.e := by
  unfold emit
  split
  · rename_i hv; exact ⟨⟨h1, h2, hv, trivial⟩, by simp [endOfOut]⟩
  · exact ⟨trivial, by simp only [endOfOut]; omega⟩

/-- run-length encoding emits sorted runs inside `[cs + idx₀, cs + idx + n]` -/
theorem rleGo_sorted (cs : Nat) (f : Nat → Int) : ∀ (n idx : Nat) (cur : Option Val) (lo : Nat),
    (∀ c, cur = some c → lo ≤ c.s ∧ c.s < c.e ∧ c.e = idx + cs) → (cur = none → lo ≤ idx + cs) →
    SortedOut lo (rleGo cs f n idx cur) ∧ endOfOut lo (rleGo cs f n idx cur) ≤ max lo (idx + cs + n) := by
  intro n
  induction n with
  | zero =>
    intro idx cur lo hc hn
    cases cur with
    | none => simp only [rleGo]; exact ⟨trivial, by simp only [endOfOut]; omega⟩
    | some c =>
      obtain ⟨a1, a2, a3⟩ := hc c rfl
      have := sortedOut_emit c lo a1 a2
      simp only [rleGo]
      exact ⟨this.1, by omega⟩
  | succ n ih =>
    intro idx cur lo hc hn
    cases cur with
    | none =>
      have hlo := hn rfl
      simp only [rleGo]
      have := ih (idx + 1) (some ⟨idx + cs, idx + cs + 1, f idx⟩) lo
        (by intro c hcc; cases hcc; exact ⟨hlo, by simp, by simp; omega⟩) (by intro h; cases h)
      exact ⟨this.1, by have := this.2; omega⟩
    | some c =>
      obtain ⟨a1, a2, a3⟩ := hc c rfl
      simp only [rleGo]
      split
      · have := ih (idx + 1) (some { c with e := c.e + 1 }) lo
          (by intro c' hcc; cases hcc; exact ⟨a1, by simp; omega, by simp; omega⟩) (by intro h; cases h)
        exact ⟨this.1, by have := this.2; omega⟩
      · have he := sortedOut_emit c lo a1 a2
        have hge := endOfOut_ge _ lo he.1
        have := ih (idx + 1) (some ⟨idx + cs, idx + cs + 1, f idx⟩) (endOfOut lo (emit c))
          (by intro c' hcc; cases hcc; exact ⟨by simp; omega, by simp, by simp; omega⟩) (by intro h; cases h)
        refine ⟨sortedOut_append _ _ lo he.1 this.1, ?_⟩
        have hend : ∀ (a b : List Val) (lo : Nat), endOfOut lo (a ++ b) = endOfOut (endOfOut lo a) b := by
          intro a
          induction a with
          | nil => intro b lo; rfl
          | cons x xs ihx => intro b lo; exact ihx b x.e
        rw [hend]
        have := this.2
        omega

theorem rle_sorted (cs : Nat) (f : Nat → Int) (len : Nat) :
    SortedOut cs (rle cs f len) ∧ endOfOut cs (rle cs f len) ≤ cs + len := by
  have := rleGo_sorted cs f len 0 none cs (by intro c h; cases h) (by intro _; omega)
  unfold rle
  exact ⟨this.1, by have := this.2; omega⟩

theorem endOfOut_append : ∀ (a b : List Val) (lo : Nat), endOfOut lo (a ++ b) = endOfOut (endOfOut lo a) b := by
  intro a
  induction a with
  | nil => intro b lo; rfl
  | cons x xs ih => intro b lo; exact ih b x.e

theorem sortedOut_snoc : ∀ (a : List Val) (l : Val) (lo : Nat), SortedOut lo (a ++ [l]) →
    SortedOut lo a ∧ endOfOut lo a ≤ l.s ∧ l.s < l.e ∧ l.v ≠ 0 := by
  intro a
  induction a with
  | nil => intro l lo h; exact ⟨trivial, h.1, h.2.1, h.2.2.1⟩
  | cons x xs ih =>
    intro l lo h
    have := ih l x.e h.2.2.2
    exact ⟨⟨h.1, h.2.1, h.2.2.1, this.1⟩, this.2⟩

theorem window_runs_sorted (W cs : Nat) (streams : List (List Val)) :
    SortedOut cs (window W cs streams).1 ∧ endOfOut cs (window W cs streams).1 ≤ cs + W := by
  have hwin : (window W cs streams).1 = rle cs (dataAt W cs (touchedAll W cs streams)) (maxLen W cs (touchedAll W cs streams)) := rfl
  rw [hwin]
  have := rle_sorted cs (dataAt W cs (touchedAll W cs streams)) (maxLen W cs (touchedAll W cs streams))
  have hle := maxLen_le W cs (touchedAll W cs streams)
  exact ⟨this.1, by have := this.2; omega⟩

/-- **Output order.** Everything the merger emits is in order, non-overlapping, non-empty and non-zero. -/
theorem loop_sorted (W : Nat) : ∀ (fuel cs : Nat) (streams : List (List Val)) (held : Option Val) (lo : Nat),
    (∀ h, held = some h → lo ≤ h.s ∧ h.s < h.e ∧ h.v ≠ 0 ∧ h.e ≤ cs) → (held = none → lo ≤ cs) →
    SortedOut lo (loop W fuel cs streams held) := by
  intro fuel
  induction fuel with
  | zero =>
    intro cs streams held lo hh _
    cases held with
    | none => simp [loop]; trivial
    | some h => obtain ⟨a1, a2, a3, _⟩ := hh h rfl; simp [loop]; exact ⟨a1, a2, a3, trivial⟩
  | succ fuel ih =>
    intro cs streams held lo hh hn
    have hheld : SortedOut lo held.toList ∧ endOfOut lo held.toList ≤ cs := by
      cases held with
      | none => exact ⟨trivial, by simpa [endOfOut] using hn rfl⟩
      | some h => obtain ⟨a1, a2, a3, a4⟩ := hh h rfl; exact ⟨⟨a1, a2, a3, trivial⟩, by simpa [endOfOut] using a4⟩
    simp only [loop]
    split
    · exact hheld.1
    · have hw := window_runs_sorted W cs streams
      generalize window W cs streams = w at hw
      obtain ⟨runs, streams'⟩ := w
      simp only at hw ⊢
      have hge := endOfOut_ge _ lo hheld.1
      have hq : SortedOut lo (held.toList ++ runs) :=
        sortedOut_append _ _ lo hheld.1 (sortedOut_weaken runs cs _ hw.1 hheld.2)
      have hqe : endOfOut lo (held.toList ++ runs) ≤ cs + W := by
        rw [endOfOut_append]
        -- the end of `runs` does not depend on where we start counting unless it is empty
        cases runs with
        | nil => simp only [endOfOut]; omega
        | cons r rs => simpa [endOfOut] using hw.2
      cases hl : (held.toList ++ runs).getLast? with
      | none =>
        simp only
        have hnil : held.toList ++ runs = [] := List.getLast?_eq_none_iff.mp hl
        apply ih (cs + W) streams' none lo (by intro h hc; cases hc)
        intro _
        have : lo ≤ cs := by
          cases held with
          | none => exact hn rfl
          | some h => simp at hnil
        omega
      | some l =>
        simp only
        have e := dropLast_of_getLast? _ l hl
        rw [← e] at hq hqe
        have hs := sortedOut_snoc _ l lo hq
        rw [endOfOut_append] at hqe
        simp only [endOfOut] at hqe
        apply sortedOut_append _ _ lo hs.1
        apply ih (cs + W) streams' (some l)
        · intro h hc; cases hc; exact ⟨hs.2.1, hs.2.2.1, hs.2.2.2, hqe⟩
        · intro hc; cases hc

theorem merge_sorted (W : Nat) (streams : List (List Val)) : SortedOut 0 (merge W streams) :=
  loop_sorted W _ 0 streams none 0 (by intro h hc; cases hc) (by intro _; exact Nat.le_refl _)

end MG
