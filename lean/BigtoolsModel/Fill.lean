/-! Probe (C15): `fill` / `fill_start_to_end` (`FillValues::next`): for sorted disjoint input the output is a
    gapless tiling from the start position (to the requested end), keeps every original value in order, and
    everything it adds is a zero filling exactly a gap. -/
namespace FL

structure Val where
  s : Nat
  e : Nat
  v : Int
deriving DecidableEq, Repr

/-- the iterator unrolled: `lastEnd` is the field `last_end`, `ee` the field `expected_end`;
    the held-back `last_val` is emitted right after the gap it caused -/
def fillGo (ee : Option Nat) : Nat → List Val → List Val
  | lastEnd, [] =>
    match ee with
    | none => []
    | some e => if lastEnd < e then [⟨lastEnd, e, 0⟩] else []
  | lastEnd, x :: xs =>
    if x.s > lastEnd then ⟨lastEnd, x.s, 0⟩ :: x :: fillGo ee x.e xs
    else x :: fillGo ee x.e xs

def fill (xs : List Val) : List Val := fillGo none 0 xs
def fillStartToEnd (xs : List Val) (start stop : Nat) : List Val := fillGo (some stop) start xs

/-- input in order and disjoint, starting at or after `from` -/
def Sorted : Nat → List Val → Prop
  | _, [] => True
  | p, x :: xs => p ≤ x.s ∧ Sorted x.e xs

/-- gapless tiling starting at `from` -/
def Tiled : Nat → List Val → Prop
  | _, [] => True
  | p, y :: ys => y.s = p ∧ Tiled y.e ys

/-- end of the last element (or the start position if there is none) -/
def endOf : Nat → List Val → Nat
  | p, [] => p
  | _, y :: ys => endOf y.e ys

theorem fill_tiled (ee : Option Nat) : ∀ (xs : List Val) (p : Nat), Sorted p xs → Tiled p (fillGo ee p xs) := by
  intro xs
  induction xs with
  | nil =>
    intro p _
    simp only [fillGo]
    cases ee with
    | none => simp [Tiled]
    | some e => by_cases h : p < e <;> simp [h, Tiled]
  | cons x xs ih =>
    intro p h
    obtain ⟨h1, h2⟩ := h
    simp only [fillGo]
    by_cases hg : x.s > p
    · simp only [hg, if_true, Tiled, true_and]
      exact ih x.e h2
    · simp only [hg, if_false, Tiled]
      exact ⟨by omega, ih x.e h2⟩

theorem fill_keeps (ee : Option Nat) : ∀ (xs : List Val) (p : Nat), xs.Sublist (fillGo ee p xs) := by
  intro xs
  induction xs with
  | nil => intro p; exact List.nil_sublist _
  | cons x xs ih =>
    intro p
    simp only [fillGo]
    by_cases hg : x.s > p
    · simp only [hg, if_true]
      exact List.Sublist.cons _ (List.Sublist.cons_cons _ (ih x.e))
    · simp only [hg, if_false]
      exact List.Sublist.cons_cons _ (ih x.e)

theorem fill_adds_zeros (ee : Option Nat) : ∀ (xs : List Val) (p : Nat), ∀ y ∈ fillGo ee p xs, y ∈ xs ∨ y.v = 0 := by
  intro xs
  induction xs with
  | nil =>
    intro p y hy
    simp only [fillGo] at hy
    cases ee with
    | none => simp at hy
    | some e =>
      by_cases h : p < e
      · simp only [h, if_true, List.mem_singleton] at hy; subst hy; right; rfl
      · simp [h] at hy
  | cons x xs ih =>
    intro p y hy
    simp only [fillGo] at hy
    by_cases hg : x.s > p
    · simp only [hg, if_true, List.mem_cons] at hy
      rcases hy with rfl | rfl | hy
      · right; rfl
      · left; simp
      · rcases ih x.e y hy with h | h
        · left; simp [h]
        · right; exact h
    · simp only [hg, if_false, List.mem_cons] at hy
      rcases hy with rfl | hy
      · left; simp
      · rcases ih x.e y hy with h | h
        · left; simp [h]
        · right; exact h

/-- where the tiling ends: the end of the input, extended to the requested end if that is farther -/
theorem fill_end (ee : Option Nat) : ∀ (xs : List Val) (p : Nat),
    endOf p (fillGo ee p xs) = match ee with
      | none => endOf p xs
      | some e => max (endOf p xs) e := by
  intro xs
  induction xs with
  | nil =>
    intro p
    simp only [fillGo, endOf]
    cases ee with
    | none => rfl
    | some e =>
      by_cases h : p < e
      · simp only [h, if_true, endOf]; omega
      · simp only [h, if_false, endOf]; omega
  | cons x xs ih =>
    intro p
    simp only [fillGo]
    by_cases hg : x.s > p
    · simp only [hg, if_true, endOf]; exact ih x.e
    · simp only [hg, if_false, endOf]; exact ih x.e

/-- **Gap filling.** -/
theorem fill_spec (xs : List Val) (start stop : Nat) (h : Sorted start xs) :
    Tiled start (fillStartToEnd xs start stop) ∧
    xs.Sublist (fillStartToEnd xs start stop) ∧
    (∀ y ∈ fillStartToEnd xs start stop, y ∈ xs ∨ y.v = 0) ∧
    endOf start (fillStartToEnd xs start stop) = max (endOf start xs) stop :=
  ⟨fill_tiled _ xs start h, fill_keeps _ xs start, fill_adds_zeros _ xs start, fill_end (some stop) xs start⟩

/-- the repository's own test vector -/
example : fill [⟨10, 15, 5⟩, ⟨20, 30, 7⟩, ⟨30, 35, 9⟩] =
    [⟨0, 10, 0⟩, ⟨10, 15, 5⟩, ⟨15, 20, 0⟩, ⟨20, 30, 7⟩, ⟨30, 35, 9⟩] := by decide

end FL
