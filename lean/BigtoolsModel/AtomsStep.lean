import BigtoolsModel.Tiler2
import BigtoolsModel.Sweep
import BigtoolsModel.FView
import BigtoolsModel.IndexerFix
import BigtoolsModel.Chunker
import BigtoolsModel.SummaryFold
import BigtoolsModel.BedSummary
import BigtoolsModel.Stats2
import BigtoolsModel.ZoomLevels
import BigtoolsModel.AtomsNorm
namespace StepSections

/-- start of the `i`-th item of a fixed-step section, computed as the source does: `curr_start` begins at the section's
    start and advances by the step after every item -/
def fixedStart (start step span : Nat) : Nat → Nat
  | 0 => Gen.fixed_first start
  | i + 1 => fixedStart start step span i + Gen.fixed_advance step span

/-- **Fixed-step and variable-step sections**: item `i` of a fixed-step section is `[start + i·step, start + i·step + span)`,
    an item of a variable-step section is `[s, s + span)` — the expansions the decode theorems (`BBI.decode2`, `BBI.decode3`)
    are stated with. -/
theorem gen_step_items (start step span i s : Nat) :
    fixedStart start step span i = start + i * step ∧ Gen.fixed_end (fixedStart start step span i) span step = start + i * step + span ∧
    Gen.var_end s span step = s + span := by
  have h : ∀ i, fixedStart start step span i = start + i * step := by
    intro i
    induction i with
    | zero => simp only [fixedStart]; delta Gen.fixed_first; first | rfl | grind | omega
    | succ n ih =>
      simp only [fixedStart, ih]; delta Gen.fixed_advance
      first | grind | (rw [Nat.add_mul]; omega)
  refine ⟨h i, ?_, ?_⟩
  · rw [h]; delta Gen.fixed_end; first | rfl | grind | omega
  · delta Gen.var_end; first | rfl | grind | omega

end StepSections
