import BigtoolsModel.BBIWriteBed
/-! Sectioning in the byte-level writer models loses nothing and reorders nothing: however the records of a chromosome
    are cut into blocks (every `items_per_slot` records, and at the forced cuts of the final drain), the concatenated
    block bytes are the encoding of the record stream, in order. -/
namespace BW

def encZRec (r : ZRec) : List Nat :=
  le 4 r.chrom ++ le 4 r.start ++ le 4 r.stop ++ le 4 r.bases ++ f32 r.mn ++ f32 r.mx ++ f32 r.sum ++ f32 r.sumsq

theorem encZoomSection_bytes (recs : List ZRec) : (encZoomSection recs).bytes = recs.flatMap encZRec := rfl

theorem cutZoomSections_bytes (ips : Nat) (hips : 0 < ips) : ∀ (fuel : Nat) (recs : List ZRec), recs.length < fuel →
    (cutZoomSections ips fuel recs).flatMap (·.bytes) = recs.flatMap encZRec := by
  intro fuel
  induction fuel with
  | zero => intro recs h; omega
  | succ fuel ih =>
    intro recs h
    cases recs with
    | nil => rfl
    | cons r rs =>
      simp only [cutZoomSections, List.flatMap_cons, encZoomSection_bytes]
      rw [ih _ (by simp only [List.length_drop, List.length_cons] at *; omega), ← List.flatMap_append, List.take_append_drop]
      rfl

theorem cutZoomSectionsAt_go_bytes (ips : Nat) (hips : 0 < ips) : ∀ (cuts : List Nat) (done : Nat) (rest : List ZRec),
    (cutZoomSectionsAt.go ips cuts done rest).flatMap (·.bytes) = rest.flatMap encZRec := by
  intro cuts
  induction cuts with
  | nil => intro done rest; exact cutZoomSections_bytes ips hips _ rest (by omega)
  | cons c cs ih =>
    intro done rest
    simp only [cutZoomSectionsAt.go, List.flatMap_append]
    rw [cutZoomSections_bytes ips hips _ _ (by omega), ih, ← List.flatMap_append, List.take_append_drop]

/-- **No zoom record is lost, duplicated or reordered by sectioning** — for any forced cuts whatever. -/
theorem cutZoomSectionsAt_bytes (ips : Nat) (hips : 0 < ips) (recs : List ZRec) (cuts : List Nat) :
    (cutZoomSectionsAt ips recs cuts).flatMap (·.bytes) = recs.flatMap encZRec :=
  cutZoomSectionsAt_go_bytes ips hips cuts 0 recs

def encBedE (chrom : Nat) (x : BedE) : List Nat := le 4 chrom ++ le 4 x.s ++ le 4 x.e ++ x.rest ++ [0]

theorem cutBedSections_bytes (ips chrom : Nat) (hips : 0 < ips) : ∀ (fuel : Nat) (items : List BedE), items.length < fuel →
    (cutBedSections ips chrom fuel items).flatMap (·.bytes) = items.flatMap (encBedE chrom) := by
  intro fuel
  induction fuel with
  | zero => intro items h; omega
  | succ fuel ih =>
    intro items h
    cases items with
    | nil => rfl
    | cons r rs =>
      simp only [cutBedSections, List.flatMap_cons]
      rw [ih _ (by simp only [List.length_drop, List.length_cons] at *; omega)]
      show (List.take ips (r :: rs)).flatMap (encBedE chrom) ++ _ = _
      rw [← List.flatMap_append, List.take_append_drop]
      rfl

/-- every block holds at most `items_per_slot` entries (what the index header advertises) -/
theorem cutBedSections_block_sizes (ips chrom : Nat) : ∀ (fuel : Nat) (items : List BedE),
    ∀ s ∈ cutBedSections ips chrom fuel items, ∃ blk : List BedE, blk.length ≤ ips ∧ s = encBedSection chrom blk := by
  intro fuel
  induction fuel with
  | zero => intro items s hs; simp [cutBedSections] at hs
  | succ fuel ih =>
    intro items s hs
    cases items with
    | nil => simp [cutBedSections] at hs
    | cons r rs =>
      simp only [cutBedSections, List.mem_cons] at hs
      rcases hs with rfl | hs
      · exact ⟨_, List.length_take_le _ _, rfl⟩
      · exact ih _ s hs

/-- the bigWig twin: every data section holds at most `ips` values -/
theorem cutSections_block_sizes (ips chrom : Nat) : ∀ (fuel : Nat) (items : List V),
    ∀ s ∈ cutSections ips chrom fuel items, ∃ blk : List V, blk.length ≤ ips ∧ s = encSection chrom blk := by
  intro fuel
  induction fuel with
  | zero => intro items s hs; simp [cutSections] at hs
  | succ fuel ih =>
    intro items s hs
    cases items with
    | nil => simp [cutSections] at hs
    | cons r rs =>
      simp only [cutSections, List.mem_cons] at hs
      rcases hs with rfl | hs
      · exact ⟨_, List.length_take_le _ _, rfl⟩
      · exact ih _ s hs

/-- **The 16-bit item count of a data section is never exceeded (D22).** The writer models cut at `min items_per_slot 65535`,
    so whatever `items_per_slot` the caller passes, every bigWig and bigBed data section holds at most 65535 items: its
    count field `le 2 count` is exact. -/
theorem data_sections_fit_u16 (ips chrom fuel : Nat) (vs : List V) (es : List BedE) :
    (∀ s ∈ cutSections (min ips 65535) chrom fuel vs, ∃ blk : List V, blk.length < 65536 ∧ s = encSection chrom blk) ∧
    (∀ s ∈ cutBedSections (min ips 65535) chrom fuel es, ∃ blk : List BedE, blk.length < 65536 ∧ s = encBedSection chrom blk) := by
  constructor
  · intro s hs
    obtain ⟨blk, h1, h2⟩ := cutSections_block_sizes _ chrom fuel vs s hs
    exact ⟨blk, by omega, h2⟩
  · intro s hs
    obtain ⟨blk, h1, h2⟩ := cutBedSections_block_sizes _ chrom fuel es s hs
    exact ⟨blk, by omega, h2⟩

end BW
