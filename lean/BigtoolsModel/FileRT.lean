import BigtoolsModel.WigQueryBytes
/-! Probe (C01, file level): fuel monotonicity of the index search (the model's fuel is an artefact: the real
    loop runs until its stack is empty), placement of concatenated sections, and the bigWig header and
    chromosome-tree codecs, assembled into the file-level round trip. -/
namespace BBI
open RT CD

/-! ### fuel is an artefact -/

theorem searchCir_mono (e : Endian) (s : Src) (nlb qc qs qe : Nat) : ∀ (fuel : Nat) (stack : List Nat)
    (acc r : List Block), searchCir e s nlb qc qs qe fuel stack acc = .ok r →
    ∀ k, searchCir e s nlb qc qs qe (fuel + k) stack acc = .ok r := by
  intro fuel
  induction fuel with
  | zero => intro stack acc r h; simp [searchCir] at h
  | succ fuel ih =>
    intro stack acc r h k
    rw [show fuel + 1 + k = (fuel + k) + 1 by omega]
    cases stack with
    | nil => simpa [searchCir] using h
    | cons off stack =>
      simp only [searchCir, bind, Except.bind, pure, Except.pure, throw, throwThe, MonadExceptOf.throw] at h ⊢
      repeat' split at h
      all_goals first
        | cases h
        | (simp_all only [not_true_eq_false, not_false_eq_true, false_and, and_false, if_false, if_true, ne_eq]
           first | exact ih _ _ _ h k | skip)

/-! ### concatenated sections sit at the running offsets -/

/-- the stored sections of a file: `(chrom, span, items)` in order, laid down from `base` -/
def mkDSecs : Nat → List (Nat × Nat × Nat × List Value) → List DSec
  | _, [] => []
  | base, x :: xs =>
    ⟨x.1, x.2.1, x.2.2.1, x.2.2.2, base, (enc1 x.1 x.2.2.2).length⟩ :: mkDSecs (base + (enc1 x.1 x.2.2.2).length) xs

def dataBytes (xs : List (Nat × Nat × Nat × List Value)) : List Nat := xs.flatMap fun x => enc1 x.1 x.2.2.2

theorem mkDSecs_has (l : List Nat) : ∀ (xs : List (Nat × Nat × Nat × List Value)) (base : Nat),
    Has l base (dataBytes xs) → ∀ d ∈ mkDSecs base xs, Has l d.off (enc1 d.chrom d.items) := by
  intro xs
  induction xs with
  | nil => intro base _ d hd; simp [mkDSecs] at hd
  | cons x xs ih =>
    intro base h d hd
    simp only [dataBytes, List.flatMap_cons] at h
    simp only [mkDSecs, List.mem_cons] at hd
    rcases hd with rfl | hd
    · exact h.left
    · exact ih _ h.right d hd

/-! ### header -/

def wigHeaderBytes (zoomCount chromTreeOff dataOff indexOff summaryOff bufSize : Nat) : List Nat :=
  le 4 BIGWIG_MAGIC ++ le 2 4 ++ le 2 zoomCount ++ le 8 chromTreeOff ++ le 8 dataOff ++ le 8 indexOff ++
    le 2 0 ++ le 2 0 ++ le 8 0 ++ le 8 summaryOff ++ le 4 bufSize ++ le 8 0

theorem wigHeaderBytes_length (a b c d e f : Nat) : (wigHeaderBytes a b c d e f).length = 64 := by
  simp [wigHeaderBytes, le_length]

theorem uN_big4 (s : Src) (off : Nat) :
    uN .big s off 4 = ((byte s off * 256 + byte s (off + 1)) * 256 + byte s (off + 2)) * 256 + byte s (off + 3) := by
  simp [uN, List.range_succ, List.foldl]

theorem magic_bytes : le 4 BIGWIG_MAGIC = [0x26, 0xFC, 0x8F, 0x88] := by decide

/-- the reader recognises a little-endian bigWig header and recovers the three offsets it navigates by -/
theorem readHeader_wig (l : List Nat) (zc cto dof io so bs : Nat) (rest : List Nat)
    (h : l = wigHeaderBytes zc cto dof io so bs ++ rest) (hzc : zc < 256 ^ 2) (hcto : cto < 256 ^ 8)
    (hio : io < 256 ^ 8) (hlen : 64 + zc * 24 ≤ l.length) :
    ∃ hd, readHeader (srcOf l) = .ok hd ∧ hd.kind = .bigWig ∧ hd.endian = .little ∧
      hd.chromTreeOffset = cto ∧ hd.fullIndexOffset = io := by
  have hh : Has l 0 (wigHeaderBytes zc cto dof io so bs) := ⟨[], rest, by simpa using h, rfl⟩
  unfold wigHeaderBytes at hh
  have h1 := hh.left.left.left.left.left.left.left.left.left.left.left       -- magic
  have h3 := hh.left.left.left.left.left.left.left.left.left.right           -- zoom count at 6
  have h4 := hh.left.left.left.left.left.left.left.left.right                -- chrom tree offset at 8
  have h6 := hh.left.left.left.left.left.left.right                          -- index offset at 24
  simp only [List.length_append, le_length] at h1 h3 h4 h6
  have lmagic : u32 .little (srcOf l) 0 = BIGWIG_MAGIC := uN_le l 4 0 _ h1 (by decide)
  rw [magic_bytes] at h1
  have b0 := h1.byte 0 (by simp) (by simp)
  have b1 := h1.byte 1 (by simp) (by simp)
  have b2 := h1.byte 2 (by simp) (by simp)
  have b3 := h1.byte 3 (by simp) (by simp)
  simp only [List.getElem_cons_zero, List.getElem_cons_succ, Nat.zero_add] at b0 b1 b2 b3
  have bmagic : u32 .big (srcOf l) 0 ≠ BIGWIG_MAGIC := by
    simp only [u32, uN_big4, Nat.zero_add, b0, b1, b2, b3]; decide
  have bmagic2 : u32 .big (srcOf l) 0 ≠ BIGBED_MAGIC := by
    simp only [u32, uN_big4, Nat.zero_add, b0, b1, b2, b3]; decide
  have z : u16 .little (srcOf l) 6 = zc := uN_le l 2 6 _ (h3.cast (by omega)) hzc
  have c8 : u64 .little (srcOf l) 8 = cto := uN_le l 8 8 _ (h4.cast (by omega)) hcto
  have c24 : u64 .little (srcOf l) 24 = io := uN_le l 8 24 _ (h6.cast (by omega)) hio
  have n1 : 0 + 64 ≤ (srcOf l).size := by show 0 + 64 ≤ l.length; omega
  have n2 : 64 + zc * 24 ≤ (srcOf l).size := hlen
  have hr : readHeader (srcOf l) = .ok
      { kind := .bigWig, endian := .little, version := u16 .little (srcOf l) 4, zoomLevels := zc,
        chromTreeOffset := cto, fullDataOffset := u64 .little (srcOf l) 16, fullIndexOffset := io,
        fieldCount := u16 .little (srcOf l) 32, definedFieldCount := u16 .little (srcOf l) 34,
        autoSqlOffset := u64 .little (srcOf l) 36, totalSummaryOffset := u64 .little (srcOf l) 44,
        uncompressBufSize := u32 .little (srcOf l) 52,
        zooms := (List.range zc).map fun i =>
          { reduction := u32 .little (srcOf l) (64 + 24 * i), dataOffset := u64 .little (srcOf l) (64 + 24 * i + 8),
            indexOffset := u64 .little (srcOf l) (64 + 24 * i + 16) : ZoomHdr } } := by
    simp only [readHeader, need, n1, if_true, bind, Except.bind, pure, Except.pure, bmagic, if_false, lmagic, z, n2,
      c8, c24]
  exact ⟨_, hr, rfl, rfl, rfl, rfl⟩

theorem has_flatMap_items' {α} (f : α → List Nat) (w : Nat) (xs : List α) (hw : ∀ x ∈ xs, (f x).length = w)
    (l : List Nat) : ∀ (base : Nat), Has l base (xs.flatMap f) →
      ∀ i (hi : i < xs.length), Has l (base + i * w) (f xs[i]) := by
  induction xs with
  | nil => intro base _ i hi; simp at hi
  | cons x xs ih =>
    intro base h i hi
    rw [List.flatMap_cons] at h
    cases i with
    | zero => simpa using h.left
    | succ i =>
      have := ih (fun y hy => hw y (by simp [hy])) (base + w) (by simpa [hw x (by simp)] using h.right) i
        (by simpa using hi)
      simp only [List.getElem_cons_succ]
      exact this.cast (by rw [Nat.succ_mul]; omega)

/-! ### chromosome tree (single leaf block, as bigtools writes it) -/

def chromItem (keySize : Nat) (c : List Nat × Nat × Nat) : List Nat :=
  c.1 ++ List.replicate (keySize - c.1.length) 0 ++ le 4 c.2.1 ++ le 4 c.2.2

def chromTreeBytes (keySize blockSize : Nat) (chroms : List (List Nat × Nat × Nat)) : List Nat :=
  le 4 CHROM_TREE_MAGIC ++ le 4 blockSize ++ le 4 keySize ++ le 4 8 ++ le 8 chroms.length ++ le 8 0 ++
    ([1, 0] ++ le 2 chroms.length ++ chroms.flatMap (chromItem keySize))

structure ChromOK (keySize : Nat) (c : List Nat × Nat × Nat) : Prop where
  len : c.1.length ≤ keySize
  bytes : ∀ b ∈ c.1, b ≠ 0 ∧ b < 256
  id : c.2.1 < 256 ^ 4
  size : c.2.2 < 256 ^ 4

theorem chromItem_length (keySize : Nat) (c : List Nat × Nat × Nat) (h : c.1.length ≤ keySize) :
    (chromItem keySize c).length = keySize + 8 := by
  simp [chromItem, le_length]; omega

theorem Has.getD {l off seg} (h : Has l off seg) (i : Nat) (hi : i < seg.length) : l.getD (off + i) 0 = seg[i] := by
  obtain ⟨pre, post, rfl, hp⟩ := h
  subst hp
  rw [List.getD_eq_getElem?_getD, List.append_assoc, List.getElem?_append_right (by omega)]
  simp [List.getElem?_append_left hi, List.getElem?_eq_getElem hi]

theorem ofNat_eq_zero (x : Nat) (hx : x < 256) : (UInt8.ofNat x = 0) ↔ x = 0 := by
  constructor
  · intro h
    have := congrArg UInt8.toNat h
    simp [UInt8.toNat_ofNat'] at this
    omega
  · intro h; subst h; rfl

theorem dropWhile_zero_name (n : List Nat) (hn : ∀ b ∈ n, b ≠ 0 ∧ b < 256) (tail : List UInt8) :
    ((n.map UInt8.ofNat) ++ tail).dropWhile (· = 0) =
      if n = [] then tail.dropWhile (· = 0) else (n.map UInt8.ofNat) ++ tail := by
  cases n with
  | nil => simp
  | cons a as =>
    have ha := hn a (by simp)
    have : ¬ UInt8.ofNat a = 0 := fun h => ha.1 ((ofNat_eq_zero a ha.2).mp h)
    simp [List.dropWhile_cons, this]

theorem dropWhile_replicate_zero (k : Nat) (tail : List UInt8) :
    ((List.replicate k (0 : UInt8)) ++ tail).dropWhile (· = 0) = tail.dropWhile (· = 0) := by
  induction k with
  | zero => simp
  | succ k ih => simp [List.replicate_succ, List.dropWhile_cons, ih]

/-- names are stored NUL-padded; trimming gives the name back -/
theorem trimNul_padded (n : List Nat) (hn : ∀ b ∈ n, b ≠ 0 ∧ b < 256) (k : Nat) :
    trimNul ((n ++ List.replicate k 0).map UInt8.ofNat) = n.map UInt8.ofNat := by
  have hpad : (List.replicate k 0).map UInt8.ofNat = List.replicate k (0 : UInt8) := by simp
  unfold trimNul
  rw [List.map_append, hpad]
  by_cases hnil : n = []
  · subst hnil
    simp only [List.map_nil, List.nil_append]
    have := dropWhile_replicate_zero k []
    simp only [List.append_nil, List.dropWhile_nil] at this
    rw [this]; rfl
  · rw [dropWhile_zero_name n hn, if_neg hnil, List.reverse_append, List.reverse_replicate,
      dropWhile_replicate_zero]
    have hrev : ∀ b ∈ n.reverse, b ≠ 0 ∧ b < 256 := fun b hb => hn b (List.mem_reverse.mp hb)
    have := dropWhile_zero_name n.reverse hrev []
    simp only [List.append_nil, List.map_reverse] at this
    rw [this, if_neg (by simpa using hnil)]
    simp

theorem chromItems_length (ks : Nat) : ∀ (chroms : List (List Nat × Nat × Nat)), (∀ c ∈ chroms, ChromOK ks c) →
    (chroms.flatMap (chromItem ks)).length = chroms.length * (ks + 8) := by
  intro chroms
  induction chroms with
  | nil => intro _; simp
  | cons c cs ih =>
    intro hok
    simp only [List.flatMap_cons, List.length_append, List.length_cons,
      chromItem_length ks c (hok c (by simp)).len, ih (fun x hx => hok x (by simp [hx])), Nat.succ_mul]
    omega

theorem readChromBlock_leaf (e : Endian) (s : Src) (ks fuel off : Nat) (h1 : off + 4 ≤ s.size)
    (hleaf : byte s off = 1) (h2 : off + 4 + (ks + 8) * u16 e s (off + 2) ≤ s.size) :
    readChromBlock e s ks (fuel + 1) off = .ok ((List.range (u16 e s (off + 2))).map fun i =>
      { name := trimNul ((List.range ks).map fun k => s.get (off + 4 + i * (ks + 8) + k)),
        id := u32 e s (off + 4 + i * (ks + 8) + ks), length := u32 e s (off + 4 + i * (ks + 8) + ks + 4) : Chrom }) := by
  unfold readChromBlock
  simp only [need, h1, h2, if_true, bind, Except.bind, pure, Except.pure, hleaf]

def chromOf (c : List Nat × Nat × Nat) : Chrom := ⟨c.1.map UInt8.ofNat, c.2.1, c.2.2⟩

theorem readChroms_written (l : List Nat) (hd : Header) (he : hd.endian = .little) (ks bsz : Nat)
    (chroms : List (List Nat × Nat × Nat)) (hks : ks < 256 ^ 4) (hcnt : chroms.length < 256 ^ 2)
    (hok : ∀ c ∈ chroms, ChromOK ks c) (h : Has l hd.chromTreeOffset (chromTreeBytes ks bsz chroms)) :
    readChroms hd (srcOf l) = .ok (chroms.map chromOf) := by
  have hsz := h.size
  unfold chromTreeBytes at h hsz
  have hnode := h.right
  have hhdr := h.left
  have hmagic := hhdr.left.left.left.left.left
  have hkey := hhdr.left.left.left.right
  simp only [List.length_append, le_length] at hnode hkey hmagic hsz
  have m : u32 .little (srcOf l) hd.chromTreeOffset = CHROM_TREE_MAGIC := uN_le l 4 _ _ hmagic (by decide)
  have k : u32 .little (srcOf l) (hd.chromTreeOffset + 8) = ks := uN_le l 4 _ _ (hkey.cast (by omega)) hks
  obtain ⟨nb, nc⟩ := header_of_has l (hd.chromTreeOffset + 32) 1 chroms.length _ (by omega) hcnt
    (hnode.cast (by omega))
  have hitems : Has l (hd.chromTreeOffset + 32 + 4) (chroms.flatMap (chromItem ks)) := by
    have := hnode.right
    simp only [List.length_append, le_length, List.length_cons, List.length_nil] at this
    exact this.cast (by omega)
  have hilen := chromItems_length ks chroms hok
  simp only [List.length_cons, List.length_nil, hilen] at hsz
  have n1 : hd.chromTreeOffset + 32 ≤ (srcOf l).size := by show _ ≤ l.length; omega
  have n2 : hd.chromTreeOffset + 32 + 4 ≤ (srcOf l).size := by show _ ≤ l.length; omega
  have n3 : hd.chromTreeOffset + 32 + 4 + (ks + 8) * chroms.length ≤ (srcOf l).size := by
    show _ ≤ l.length
    rw [Nat.mul_comm]; omega
  simp only [readChroms, need, he, n1, if_true, bind, Except.bind, pure, Except.pure, m, ne_eq, not_true_eq_false,
    if_false, k]
  rw [show (srcOf l).size + 1 = (srcOf l).size + 1 from rfl,
    readChromBlock_leaf .little (srcOf l) ks (srcOf l).size (hd.chromTreeOffset + 32) n2 nb (by rw [nc]; exact n3), nc]
  congr 1
  apply List.ext_getElem
  · simp
  · intro i h1 h2
    have hi : i < chroms.length := by simpa using h2
    simp only [List.getElem_map, List.getElem_range, chromOf]
    have hitem := has_flatMap_items' (chromItem ks) (ks + 8) chroms (fun c hc => chromItem_length ks c (hok c hc).len)
      l (hd.chromTreeOffset + 32 + 4) hitems i hi
    obtain ⟨o1, o2, o3, o4⟩ := hok chroms[i] (List.getElem_mem hi)
    unfold chromItem at hitem
    have hid := hitem.left.right
    have hsize := hitem.right
    have hname := hitem.left.left
    simp only [List.length_append, List.length_replicate, le_length] at hid hsize
    have e1 : chroms[i].1.length + (ks - chroms[i].1.length) = ks := by omega
    rw [Chrom.mk.injEq]
    refine ⟨?_, ?_, ?_⟩
    · -- the name
      rw [← trimNul_padded chroms[i].1 o2 (ks - chroms[i].1.length)]
      congr 1
      apply List.ext_getElem
      · simp; omega
      · intro j hj1 hj2
        simp only [List.getElem_map, List.getElem_range]
        have hj : j < (chroms[i].1 ++ List.replicate (ks - chroms[i].1.length) 0).length := by simpa using hj2
        show UInt8.ofNat (l.getD (hd.chromTreeOffset + 32 + 4 + i * (ks + 8) + j) 0) = _
        rw [hname.getD j hj]
    · exact uN_le l 4 _ _ (hid.cast (by omega)) o3
    · exact uN_le l 4 _ _ (hsize.cast (by omega)) o4

/-! ### the file -/

/-- the reader, with the search fuel as a parameter (the real loop has none) -/
def getIntervalF (fuel : Nat) (l : List Nat) (name : List UInt8) (qs qe : Nat) : Except Err (List Value) :=
  match readHeader (srcOf l) with
  | .error e => .error e
  | .ok h =>
    match readChroms h (srcOf l) with
    | .error e => .error e
    | .ok chroms =>
      match chroms.find? (fun c => c.name = name) with
      | none => .error (.invalidFile "chromosome")
      | some c =>
        if h.fullIndexOffset + 48 > l.length then .error (.truncated "index header") else
        if u32 h.endian (srcOf l) h.fullIndexOffset ≠ CIR_TREE_MAGIC then .error .unknownMagic else
        match searchCir h.endian (srcOf l) 24 c.id qs qe fuel [h.fullIndexOffset + 48] [] with
        | .error e => .error e
        | .ok blocks => goBlocks l c.id qs qe blocks

def cirHeaderBytes (b n : Nat) (sp : Span) (pos ips : Nat) : List Nat :=
  le 4 CIR_TREE_MAGIC ++ le 4 b ++ le 8 n ++ le 4 sp.lo.c ++ le 4 sp.lo.b ++ le 4 sp.hi.c ++ le 4 sp.hi.b ++
    le 8 pos ++ le 4 ips ++ le 4 0

theorem cirHeaderBytes_length (b n : Nat) (sp : Span) (pos ips : Nat) : (cirHeaderBytes b n sp pos ips).length = 48 := by
  simp [cirHeaderBytes, le_length]

structure WigFile where
  zoomCount : Nat
  dataOff : Nat
  summaryOff : Nat
  bufSize : Nat
  mid : List Nat                                    -- zoom directory, total summary, data count
  sections : List (Nat × Nat × Nat × List Value)    -- (chrom id, span start, span end, items)
  keySize : Nat
  chromBlockSize : Nat
  chroms : List (List Nat × Nat × Nat)              -- (name, id, size)
  blockSize : Nat
  itemsPerSlot : Nat
  rootSpan : Span
  levels : List (List T)
  tail : List Nat                                   -- zoom data and indexes, trailing magic

def WigFile.dataStart (f : WigFile) : Nat := 64 + f.mid.length
def WigFile.cto (f : WigFile) : Nat := f.dataStart + (dataBytes f.sections).length
def WigFile.io (f : WigFile) : Nat := f.cto + (chromTreeBytes f.keySize f.chromBlockSize f.chroms).length
def WigFile.ds (f : WigFile) : List DSec := mkDSecs f.dataStart f.sections

def WigFile.bytes (f : WigFile) : List Nat :=
  wigHeaderBytes f.zoomCount f.cto f.dataOff f.io f.summaryOff f.bufSize ++ f.mid ++ dataBytes f.sections ++
    chromTreeBytes f.keySize f.chromBlockSize f.chroms ++
    (cirHeaderBytes f.blockSize f.sections.length f.rootSpan f.io f.itemsPerSlot ++ body f.blockSize (f.io + 48) f.levels) ++
    f.tail

structure WigFile.Valid (f : WigFile) : Prop where
  zc : f.zoomCount < 256 ^ 2
  zdir : f.zoomCount * 24 ≤ f.mid.length
  size : f.bytes.length < 256 ^ 8
  ks : f.keySize < 256 ^ 4
  nchroms : f.chroms.length < 256 ^ 2
  chromsOK : ∀ c ∈ f.chroms, ChromOK f.keySize c
  names : (f.chroms.map (·.1)).Nodup
  b2 : 2 ≤ f.blockSize
  b16 : f.blockSize < 256 ^ 2
  nonempty : f.sections ≠ []
  secsOK : ∀ d ∈ f.ds, DSecOK d
  sorted : LoSorted (f.ds.map DSec.sec)
  levels : levelsOf true f.blockSize (f.ds.map DSec.sec) = some f.levels

theorem map_ofNat_inj : ∀ (a b : List Nat), (∀ x ∈ a, x < 256) → (∀ x ∈ b, x < 256) →
    a.map UInt8.ofNat = b.map UInt8.ofNat → a = b := by
  intro a
  induction a with
  | nil => intro b _ _ h; cases b with
    | nil => rfl
    | cons => simp at h
  | cons x xs ih =>
    intro b ha hb h
    cases b with
    | nil => simp at h
    | cons y ys =>
      simp only [List.map_cons, List.cons.injEq] at h
      have hx := ha x (by simp)
      have hy := hb y (by simp)
      have : x = y := by
        have := congrArg UInt8.toNat h.1
        simp [UInt8.toNat_ofNat'] at this
        omega
      rw [this, ih ys (fun z hz => ha z (by simp [hz])) (fun z hz => hb z (by simp [hz])) h.2]

theorem find_chrom (ks : Nat) : ∀ (chroms : List (List Nat × Nat × Nat)), (∀ c ∈ chroms, ChromOK ks c) →
    (chroms.map (·.1)).Nodup → ∀ c ∈ chroms,
    (chroms.map chromOf).find? (fun x => x.name = c.1.map UInt8.ofNat) = some (chromOf c) := by
  intro chroms
  induction chroms with
  | nil => intro _ _ c hc; simp at hc
  | cons x xs ih =>
    intro hok hnd c hc
    simp only [List.map_cons, List.nodup_cons] at hnd
    simp only [List.map_cons, List.find?_cons]
    simp only [List.mem_cons] at hc
    rcases hc with rfl | hc
    · simp [chromOf]
    · have hne : ¬ ((chromOf x).name = c.1.map UInt8.ofNat) := by
        intro h
        have := map_ofNat_inj x.1 c.1 (fun b hb => ((hok x (by simp)).bytes b hb).2)
          (fun b hb => ((hok c (by simp [hc])).bytes b hb).2) h
        exact hnd.1 (this ▸ List.mem_map_of_mem hc)
      simp only [hne, decide_false]
      exact ih (fun y hy => hok y (by simp [hy])) hnd.2 c hc

/-- **C01, file level (little-endian, uncompressed, repaired span rule in the index).** Any file of the shape
    bigtools lays down — header, anything in the zoom-directory/summary area, the data sections one after the
    other, the chromosome tree, the index, anything after it — with valid contents: for every chromosome of
    the file and every range, the reader model returns (for all sufficiently large search fuel) exactly the
    stored values of that chromosome that strictly overlap the range, clipped to it, in stored order. -/
theorem wig_file_roundtrip (f : WigFile) (hv : f.Valid) (c : List Nat × Nat × Nat) (hc : c ∈ f.chroms) (qs qe : Nat) :
    ∃ fuel₀, ∀ fuel, fuel₀ ≤ fuel →
      getIntervalF fuel f.bytes (c.1.map UInt8.ofNat) qs qe =
        .ok (((f.ds.filter fun d => d.chrom = c.2.1).flatMap (·.items)).filterMap (keepClip qs qe)) := by
  -- where things are
  have hcto : Has f.bytes f.cto (chromTreeBytes f.keySize f.chromBlockSize f.chroms) :=
    ⟨wigHeaderBytes f.zoomCount f.cto f.dataOff f.io f.summaryOff f.bufSize ++ f.mid ++ dataBytes f.sections,
     (cirHeaderBytes f.blockSize f.sections.length f.rootSpan f.io f.itemsPerSlot ++ body f.blockSize (f.io + 48) f.levels) ++ f.tail,
     by simp [WigFile.bytes, List.append_assoc],
     by simp [WigFile.cto, WigFile.dataStart, wigHeaderBytes_length]; omega⟩
  have hdata : Has f.bytes f.dataStart (dataBytes f.sections) :=
    ⟨wigHeaderBytes f.zoomCount f.cto f.dataOff f.io f.summaryOff f.bufSize ++ f.mid,
     chromTreeBytes f.keySize f.chromBlockSize f.chroms ++
       ((cirHeaderBytes f.blockSize f.sections.length f.rootSpan f.io f.itemsPerSlot ++ body f.blockSize (f.io + 48) f.levels) ++ f.tail),
     by simp [WigFile.bytes, List.append_assoc],
     by simp [WigFile.dataStart, wigHeaderBytes_length]⟩
  have hidx : Has f.bytes f.io
      (cirHeaderBytes f.blockSize f.sections.length f.rootSpan f.io f.itemsPerSlot ++ body f.blockSize (f.io + 48) f.levels) :=
    ⟨wigHeaderBytes f.zoomCount f.cto f.dataOff f.io f.summaryOff f.bufSize ++ f.mid ++ dataBytes f.sections ++
       chromTreeBytes f.keySize f.chromBlockSize f.chroms, f.tail,
     by simp [WigFile.bytes, List.append_assoc],
     by simp [WigFile.io, WigFile.cto, WigFile.dataStart, wigHeaderBytes_length]; omega⟩
  have hbody : Has f.bytes (f.io + 48) (body f.blockSize (f.io + 48) f.levels) := by
    have := hidx.right; rwa [cirHeaderBytes_length] at this
  have hio : f.io < 256 ^ 8 := by have := hidx.size; have := hv.size; omega
  have hctob : f.cto < 256 ^ 8 := by have := hcto.size; have := hv.size; omega
  -- header
  obtain ⟨hd, hrd, _, hend, hdc, hdi⟩ := readHeader_wig f.bytes f.zoomCount f.cto f.dataOff f.io f.summaryOff f.bufSize
    (f.mid ++ dataBytes f.sections ++ chromTreeBytes f.keySize f.chromBlockSize f.chroms ++
      (cirHeaderBytes f.blockSize f.sections.length f.rootSpan f.io f.itemsPerSlot ++ body f.blockSize (f.io + 48) f.levels) ++ f.tail)
    (by simp [WigFile.bytes, List.append_assoc]) hv.zc hctob hio
    (by have := hv.zdir; simp only [WigFile.bytes, List.length_append, wigHeaderBytes_length]; omega)
  -- chromosomes
  have hrc := readChroms_written f.bytes hd hend f.keySize f.chromBlockSize f.chroms hv.ks hv.nchroms hv.chromsOK
    (by rw [hdc]; exact hcto)
  -- index header
  have hmagic : u32 .little (srcOf f.bytes) f.io = CIR_TREE_MAGIC := by
    have h1 := hidx.left
    unfold cirHeaderBytes at h1
    exact uN_le f.bytes 4 _ _ h1.left.left.left.left.left.left.left.left.left (by decide)
  have h48 : ¬ (f.io + 48 > f.bytes.length) := by
    have := hidx.left.size; rw [cirHeaderBytes_length] at this; omega
  -- the query proper
  have hds_ne : f.ds ≠ [] := by
    intro h
    have hne := hv.nonempty
    cases hs : f.sections with
    | nil => exact hne hs
    | cons x xs => simp [WigFile.ds, hs, mkDSecs] at h
  obtain ⟨fuel₀, blocks, hsearch, hgo⟩ := wig_query_bytes f.blockSize hv.b2 hv.b16 f.ds hds_ne hv.sorted hv.secsOK
    f.bytes hv.size (mkDSecs_has f.bytes f.sections f.dataStart hdata) f.levels hv.levels (f.io + 48) hbody c.2.1 qs qe
  refine ⟨fuel₀, fun fuel hfuel => ?_⟩
  have hs' := searchCir_mono .little (srcOf f.bytes) 24 c.2.1 qs qe fuel₀ _ _ _ hsearch (fuel - fuel₀)
  rw [show fuel₀ + (fuel - fuel₀) = fuel by omega] at hs'
  simp only [getIntervalF, hrd, hrc, find_chrom f.keySize f.chroms hv.chromsOK hv.names c hc, hdi, h48, if_false, hend,
    hmagic, ne_eq, not_true_eq_false, chromOf, hs', hgo]

end BBI
