import BigtoolsModel.CirSer
/-! Probe (C10/C01): decoding of the three bigWig section types. For a section of type 1 (bedGraph), 2 (varStep)
    or 3 (fixedStep) laid down anywhere in a byte image according to the UCSC format, the reader model's
    `wigBlock` (= `get_block_values`) returns exactly the values the section denotes that strictly overlap the
    query, clipped to it, in order — for every item count, span, step and position (little-endian image). -/
namespace BBI
open CD

def secHeader (chrom start stop step span ty n : Nat) : List Nat :=
  le 4 chrom ++ le 4 start ++ le 4 stop ++ le 4 step ++ le 4 span ++ [ty, 0] ++ le 2 n

theorem secHeader_length (chrom start stop step span ty n : Nat) :
    (secHeader chrom start stop step span ty n).length = 24 := by simp [secHeader, le_length]

structure HdrOK (chrom start stop step span ty n : Nat) : Prop where
  c : chrom < 256 ^ 4
  s : start < 256 ^ 4
  e : stop < 256 ^ 4
  st : step < 256 ^ 4
  sp : span < 256 ^ 4
  t : ty < 256
  n : n < 256 ^ 2

theorem header_reads (l : List Nat) (o chrom start stop step span ty n : Nat) (rest : List Nat)
    (h : Has l o (secHeader chrom start stop step span ty n ++ rest)) (ok : HdrOK chrom start stop step span ty n) :
    u32 .little (srcOf l) o = chrom ∧ u32 .little (srcOf l) (o + 4) = start ∧
    u32 .little (srcOf l) (o + 12) = step ∧ u32 .little (srcOf l) (o + 16) = span ∧
    byte (srcOf l) (o + 20) = ty ∧ u16 .little (srcOf l) (o + 22) = n ∧ Has l (o + 24) rest ∧
    o + 24 + rest.length ≤ (srcOf l).size := by
  have hh := h.left
  have hr := h.right
  rw [secHeader_length] at hr
  have hsz := h.size
  simp only [List.length_append, secHeader_length] at hsz
  unfold secHeader at hh
  have h7 := hh.right
  have h6 := hh.left.right
  have h5 := hh.left.left.right
  have h4 := hh.left.left.left.right
  have h2 := hh.left.left.left.left.left.right
  have h1 := hh.left.left.left.left.left.left
  simp only [List.length_append, le_length, List.length_cons, List.length_nil] at h1 h2 h4 h5 h6 h7
  refine ⟨uN_le l 4 _ _ h1 ok.c, uN_le l 4 _ _ h2 ok.s, uN_le l 4 _ _ (h4.cast (by omega)) ok.st,
    uN_le l 4 _ _ (h5.cast (by omega)) ok.sp, ?_, uN_le l 2 _ _ (h7.cast (by omega)) ok.n, hr, ?_⟩
  · have := h6.byte 0 (by simp) (by simpa using ok.t)
    simpa using this
  · show o + 24 + rest.length ≤ l.length
    omega

/-- the reader's strict filter and clip -/
def keepClip (qs qe : Nat) (v : Value) : Option Value :=
  if v.stop > qs ∧ v.start < qe then some { v with start := max v.start qs, stop := min v.stop qe } else none

theorem filterMap_congr_mem {α β} (f g : α → Option β) : ∀ (l : List α), (∀ x ∈ l, f x = g x) →
    l.filterMap f = l.filterMap g := by
  intro l
  induction l with
  | nil => intro _; rfl
  | cons x xs ih =>
    intro h
    simp only [List.filterMap_cons, h x (by simp), ih (fun y hy => h y (by simp [hy]))]

/-! ### type 1 -/

def enc1 (chrom : Nat) (items : List Value) : List Nat :=
  secHeader chrom ((items.head?.map (·.start)).getD 0) ((items.getLast?.map (·.stop)).getD 0) 0 0 1 items.length ++
    items.flatMap fun v => le 4 v.start ++ le 4 v.stop ++ le 4 v.bits

def ValueOK (v : Value) : Prop := v.start < 256 ^ 4 ∧ v.stop < 256 ^ 4 ∧ v.bits < 256 ^ 4

theorem body_bound (l : List Nat) (o n w : Nat) (body : List Nat) (hb : body.length = n * w)
    (h : o + 24 + body.length ≤ (srcOf l).size) : o + 24 + n * w ≤ (srcOf l).size := by omega

theorem decode1 (l : List Nat) (o size chrom qs qe : Nat) (items : List Value) (hc : chrom < 256 ^ 4)
    (hn : items.length < 256 ^ 2) (hv : ∀ v ∈ items, ValueOK v) (h : Has l o (enc1 chrom items)) :
    wigBlock .little (srcOf l) ⟨o, size⟩ chrom qs qe = .ok (items.filterMap (keepClip qs qe)) := by
  have hok : HdrOK chrom ((items.head?.map (·.start)).getD 0) ((items.getLast?.map (·.stop)).getD 0) 0 0 1 items.length := by
    refine ⟨hc, ?_, ?_, by omega, by omega, by omega, hn⟩
    · cases hh : items.head? with
      | none => simp
      | some v => exact (hv v (List.mem_of_head? hh)).1
    · cases hh : items.getLast? with
      | none => simp
      | some v => exact (hv v (List.mem_of_getLast? hh)).2.1
  obtain ⟨r1, _, _, _, r5, r6, hbody, hsz⟩ := header_reads l o _ _ _ _ _ _ _ _ h hok
  have hlen : (items.flatMap fun v => le 4 v.start ++ le 4 v.stop ++ le 4 v.bits).length = items.length * 12 :=
    length_flatMap_const _ 12 (fun v => by simp [le_length]) items
  have b1 : o + 24 ≤ (srcOf l).size := by omega
  have b2 : o + 24 + items.length * 12 ≤ (srcOf l).size := by omega
  simp only [wigBlock, need, r1, r5, r6, b1, b2, if_true, bind, Except.bind, pure, Except.pure, ne_eq,
    not_true_eq_false, if_false]
  congr 1
  apply range_filterMap_eq
  intro i hi
  have hitem := has_flatMap_items (fun v : Value => le 4 v.start ++ le 4 v.stop ++ le 4 v.bits) 12
    (fun v => by simp [le_length]) l items (o + 24) hbody i hi
  obtain ⟨a1, a2, a3⟩ := hv items[i] (List.getElem_mem hi)
  have f1 := uN_le l 4 _ _ hitem.left.left a1
  have f2 := uN_le l 4 _ _ hitem.left.right a2
  have f3 := uN_le l 4 _ _ hitem.right a3
  simp only [List.length_append, le_length] at f2 f3
  have e1 : o + 24 + 12 * i = o + 24 + i * 12 := by omega
  simp only [u32, e1, f1, f2, f3, keepClip, show o + 24 + i * 12 + 4 + 4 = o + 24 + i * 12 + 8 by omega] at *

/-! ### type 2 (varStep): items are (start, value); every item spans `span` bases -/

def enc2 (chrom span stop : Nat) (items : List (Nat × Nat)) : List Nat :=
  secHeader chrom ((items.head?.map (·.1)).getD 0) stop 0 span 2 items.length ++
    items.flatMap fun v => le 4 v.1 ++ le 4 v.2

theorem decode2 (l : List Nat) (o size chrom span stop qs qe : Nat) (items : List (Nat × Nat))
    (hc : chrom < 256 ^ 4) (hsp : span < 256 ^ 4) (hst : stop < 256 ^ 4) (hn : items.length < 256 ^ 2)
    (hv : ∀ v ∈ items, v.1 < 256 ^ 4 ∧ v.2 < 256 ^ 4) (h : Has l o (enc2 chrom span stop items)) :
    wigBlock .little (srcOf l) ⟨o, size⟩ chrom qs qe =
      .ok (items.filterMap fun v => keepClip qs qe ⟨v.1, v.1 + span, v.2⟩) := by
  have hok : HdrOK chrom ((items.head?.map (·.1)).getD 0) stop 0 span 2 items.length := by
    refine ⟨hc, ?_, hst, by omega, hsp, by omega, hn⟩
    cases hh : items.head? with
    | none => simp
    | some v => exact (hv v (List.mem_of_head? hh)).1
  obtain ⟨r1, _, _, r4, r5, r6, hbody, hsz⟩ := header_reads l o _ _ _ _ _ _ _ _ h hok
  have hlen : (items.flatMap fun v => le 4 v.1 ++ le 4 v.2).length = items.length * 8 :=
    length_flatMap_const _ 8 (fun v => by simp [le_length]) items
  have b1 : o + 24 ≤ (srcOf l).size := by omega
  have b2 : o + 24 + items.length * 8 ≤ (srcOf l).size := by omega
  simp only [wigBlock, need, r1, r4, r5, r6, b1, b2, if_true, bind, Except.bind, pure, Except.pure, ne_eq,
    not_true_eq_false, if_false]
  congr 1
  apply range_filterMap_eq
  intro i hi
  have hitem := has_flatMap_items (fun v : Nat × Nat => le 4 v.1 ++ le 4 v.2) 8
    (fun v => by simp [le_length]) l items (o + 24) hbody i hi
  obtain ⟨a1, a2⟩ := hv items[i] (List.getElem_mem hi)
  have f1 := uN_le l 4 _ _ hitem.left a1
  have f2 := uN_le l 4 _ _ hitem.right a2
  simp only [List.length_append, le_length] at f2
  have e1 : o + 24 + 8 * i = o + 24 + i * 8 := by omega
  simp only [u32, e1, f1, f2, keepClip]

/-! ### type 3 (fixedStep): values only; item `i` starts at `start + i·step` -/

def enc3 (chrom start stop step span : Nat) (vals : List Nat) : List Nat :=
  secHeader chrom start stop step span 3 vals.length ++ vals.flatMap fun v => le 4 v

theorem decode3 (l : List Nat) (o size chrom start stop step span qs qe : Nat) (vals : List Nat)
    (hc : chrom < 256 ^ 4) (hs : start < 256 ^ 4) (hst : stop < 256 ^ 4) (hstep : step < 256 ^ 4)
    (hsp : span < 256 ^ 4) (hn : vals.length < 256 ^ 2) (hv : ∀ v ∈ vals, v < 256 ^ 4)
    (h : Has l o (enc3 chrom start stop step span vals)) :
    wigBlock .little (srcOf l) ⟨o, size⟩ chrom qs qe =
      .ok (vals.zipIdx.filterMap fun vi => keepClip qs qe ⟨start + vi.2 * step, start + vi.2 * step + span, vi.1⟩) := by
  have hok : HdrOK chrom start stop step span 3 vals.length := ⟨hc, hs, hst, hstep, hsp, by omega, hn⟩
  obtain ⟨r1, r2, r3, r4, r5, r6, hbody, hsz⟩ := header_reads l o _ _ _ _ _ _ _ _ h hok
  have hlen : (vals.flatMap fun v => le 4 v).length = vals.length * 4 :=
    length_flatMap_const _ 4 (fun v => by simp [le_length]) vals
  have b1 : o + 24 ≤ (srcOf l).size := by omega
  have b2 : o + 24 + vals.length * 4 ≤ (srcOf l).size := by omega
  simp only [wigBlock, need, r1, r2, r3, r4, r5, r6, b1, b2, if_true, bind, Except.bind, pure, Except.pure, ne_eq,
    not_true_eq_false, if_false]
  congr 1
  have hz : (List.range vals.length).filterMap (fun i =>
        (fun vi : Nat × Nat => keepClip qs qe ⟨start + vi.2 * step, start + vi.2 * step + span, vi.1⟩)
          (vals.getD i 0, i)) =
      vals.zipIdx.filterMap fun vi => keepClip qs qe ⟨start + vi.2 * step, start + vi.2 * step + span, vi.1⟩ := by
    have : vals.zipIdx = (List.range vals.length).map fun i => (vals.getD i 0, i) := by
      apply List.ext_getElem
      · simp
      · intro i h1 h2
        simp only [List.getElem_zipIdx, List.getElem_map, List.getElem_range, Nat.zero_add]
        have hi : i < vals.length := by simpa using h1
        simp [List.getD_eq_getElem?_getD, List.getElem?_eq_getElem hi]
    rw [this, List.filterMap_map]
    rfl
  rw [← hz]
  apply filterMap_congr_mem
  intro i hi
  have hi' : i < vals.length := by simpa using hi
  have hitem := has_flatMap_items (fun v : Nat => le 4 v) 4 (fun v => by simp [le_length]) l vals (o + 24) hbody i hi'
  have f1 := uN_le l 4 _ _ hitem (hv _ (List.getElem_mem hi'))
  have e1 : o + 24 + 4 * i = o + 24 + i * 4 := by omega
  simp only [u32, e1, f1, keepClip, List.getD_eq_getElem?_getD, List.getElem?_eq_getElem hi', Option.getD_some]

end BBI
