/-! Probe (C18): the repaired chromosome bisection (`do_index` of the planned repair of D6), over the abstract
    view of a text file as its strictly increasing list of line starts with their chromosomes. A probe at byte
    `m` (seek, skip the rest of the line, read the next line) finds the first line start after `m`. Theorem:
    for grouped files the entries found between an indexed line and a limit are line starts of the file, in
    order, and include the first line of every chromosome run that starts there — for every file size and
    line layout (`found_spec`). -/
namespace IXP

abbrev Line := Nat × Nat        -- (offset of the line start, chromosome)

/-- the probe: first line start strictly after `m` (`none` = end of file) -/
def probe (L : List Line) (m : Nat) : Option Line := L.find? fun e => decide (e.1 > m)

/-- entries found strictly between the indexed line `(p0, c0)` and `hi`; `cn` = chromosome of the next indexed
    line (the first line start at or after `hi`), `none` when there is none -/
def found (L : List Line) : Nat → Nat → Nat → Option Nat → Nat → Option (List Line)
  | 0, _, _, _, _ => none                                   -- recursion-depth panic
  | fuel + 1, p0, c0, cn, hi =>
    if hi ≤ p0 + 1 then some [] else
    let m := p0 + (hi - p0 - 1) / 2
    match probe L m with
    | none => found L fuel p0 c0 cn (m + 1)
    | some (o, c) =>
      if o ≥ hi then found L fuel p0 c0 cn (m + 1) else
      let left := if c ≠ c0 then found L fuel p0 c0 (some c) o else some []
      let right := if cn ≠ some c then found L fuel o c cn hi else some []
      match left, right with
      | some l, some r => some (l ++ (o, c) :: r)
      | _, _ => none

/-- strictly increasing offsets -/
def Inc : List Line → Prop
  | [] => True
  | [_] => True
  | a :: b :: rest => a.1 < b.1 ∧ Inc (b :: rest)

/-- every chromosome's lines are contiguous -/
def Grouped (L : List Line) : Prop :=
  ∀ i j k (hi : i < L.length) (hj : j < L.length) (hk : k < L.length), i ≤ j → j ≤ k → L[i].2 = L[k].2 → L[j].2 = L[i].2

/-- `(o, c)` is the first line of a run: the line before it (if any) is on another chromosome -/
def RunStart (L : List Line) (e : Line) : Prop :=
  ∃ i, ∃ h : i < L.length, L[i] = e ∧ (i = 0 ∨ ∃ h' : i - 1 < L.length, L[i - 1].2 ≠ e.2)

theorem inc_lt (L : List Line) (h : Inc L) : ∀ i j (hi : i < L.length) (hj : j < L.length), i < j → L[i].1 < L[j].1 := by
  induction L with
  | nil => intro i j hi; simp at hi
  | cons a rest ih =>
    intro i j hi hj hij
    cases rest with
    | nil => simp at hi hj; omega
    | cons b rest' =>
      obtain ⟨h1, h2⟩ := h
      cases j with
      | zero => omega
      | succ j =>
        cases i with
        | zero =>
          simp only [List.getElem_cons_zero, List.getElem_cons_succ]
          cases j with
          | zero => simpa using h1
          | succ j =>
            have := ih h2 0 (j + 1) (by simp) (by simpa using hj) (by omega)
            simp only [List.getElem_cons_zero] at this
            simp only [List.getElem_cons_succ] at this ⊢
            omega
        | succ i =>
          simp only [List.getElem_cons_succ]
          exact ih h2 i j (by simpa using hi) (by simpa using hj) (by omega)

theorem inc_inj (L : List Line) (h : Inc L) (i j : Nat) (hi : i < L.length) (hj : j < L.length)
    (he : L[i].1 = L[j].1) : i = j := by
  rcases Nat.lt_trichotomy i j with hlt | heq | hgt
  · have := inc_lt L h i j hi hj hlt; omega
  · exact heq
  · have := inc_lt L h j i hj hi hgt; omega

/-- the probe returns the first line start after `m` -/
theorem probe_some (L : List Line) (h : Inc L) (m : Nat) (e : Line) (hp : probe L m = some e) :
    ∃ i, ∃ hi : i < L.length, L[i] = e ∧ m < e.1 ∧ ∀ j (hj : j < L.length), m < L[j].1 → i ≤ j := by
  unfold probe at hp
  rw [List.find?_eq_some_iff_getElem] at hp
  obtain ⟨hm, i, hi, he, hbefore⟩ := hp
  refine ⟨i, hi, he, by simpa using hm, ?_⟩
  intro j hj hmj
  apply Nat.le_of_not_lt
  intro hlt
  have := hbefore j hlt
  simp at this
  omega

theorem probe_none (L : List Line) (m : Nat) (hp : probe L m = none) : ∀ e ∈ L, e.1 ≤ m := by
  unfold probe at hp
  rw [List.find?_eq_none] at hp
  intro e he
  have := hp e he
  simpa using this

/-- the next indexed line: the first line start at or after `hi` has chromosome `c` (or there is none) -/
def NextOK (L : List Line) (hi : Nat) : Option Nat → Prop
  | some c => ∃ n, ∃ hn : n < L.length, hi ≤ L[n].1 ∧ L[n].2 = c ∧ ∀ j (hj : j < L.length), hi ≤ L[j].1 → n ≤ j
  | none => ∀ e ∈ L, e.1 < hi

structure Post (L : List Line) (p0 hi : Nat) (R : List Line) : Prop where
  sound : ∀ e ∈ R, e ∈ L ∧ p0 < e.1 ∧ e.1 < hi
  ordered : R.Pairwise fun a b => a.1 < b.1
  complete : ∀ e, RunStart L e → p0 < e.1 → e.1 < hi → e ∈ R

theorem getElem_le_of_le (L : List Line) (h : Inc L) (i j : Nat) (hi : i < L.length) (hj : j < L.length)
    (hij : i ≤ j) : L[i].1 ≤ L[j].1 := by
  rcases Nat.lt_or_eq_of_le hij with hlt | rfl
  · exact Nat.le_of_lt (inc_lt L h i j hi hj hlt)
  · exact Nat.le_refl _

theorem idx_lt_of_lt (L : List Line) (h : Inc L) (i j : Nat) (hi : i < L.length) (hj : j < L.length)
    (hlt : L[i].1 < L[j].1) : i < j := by
  apply Nat.lt_of_not_le
  intro hle
  have := getElem_le_of_le L h j i hj hi hle
  omega

/-- no run starts strictly inside a stretch whose two ends are on the same chromosome -/
theorem no_run_start_inside (L : List Line) (hg : Grouped L) (a b k : Nat) (ha : a < L.length) (hb : b < L.length)
    (hk : k < L.length) (hab : L[a].2 = L[b].2) (h1 : a < k) (h2 : k ≤ b)
    (hrs : k = 0 ∨ ∃ h' : k - 1 < L.length, L[k - 1].2 ≠ L[k].2) : False := by
  rcases hrs with h0 | ⟨h', hne⟩
  · omega
  · have e1 := hg a (k - 1) b ha h' hb (by omega) (by omega) hab
    have e2 := hg a k b ha hk hb (by omega) h2 hab
    exact hne (by rw [e1, e2])

theorem found_spec (L : List Line) (hinc : Inc L) (hg : Grouped L) : ∀ (fuel p0 c0 : Nat) (cn : Option Nat) (hi : Nat)
    (R : List Line), (∃ i0, ∃ h0 : i0 < L.length, L[i0] = (p0, c0)) → NextOK L hi cn →
    found L fuel p0 c0 cn hi = some R → Post L p0 hi R := by
  intro fuel
  induction fuel with
  | zero => intro p0 c0 cn hi R _ _ h; simp [found] at h
  | succ fuel ih =>
    intro p0 c0 cn hi R hprev hnext h
    obtain ⟨i0, h0, hL0⟩ := hprev
    simp only [found] at h
    by_cases hsmall : hi ≤ p0 + 1
    · simp only [hsmall, if_true, Option.some.injEq] at h
      subst h
      exact ⟨by simp, List.Pairwise.nil, fun e _ h1 h2 => by omega⟩
    simp only [hsmall, if_false] at h
    have hm1 : p0 ≤ p0 + (hi - p0 - 1) / 2 := Nat.le_add_right _ _
    have hm2 : p0 + (hi - p0 - 1) / 2 + 1 < hi := by omega
    generalize hm : p0 + (hi - p0 - 1) / 2 = m at h hm1 hm2
    -- narrowing the limit to `m + 1` when no line starts in `(m, hi)`
    have narrow : (∀ j (hj : j < L.length), m < L[j].1 → hi ≤ L[j].1) →
        found L fuel p0 c0 cn (m + 1) = some R → Post L p0 hi R := by
      intro hno hrec
      have hnext' : NextOK L (m + 1) cn := by
        cases cn with
        | none =>
          intro e he
          obtain ⟨j, hj, rfl⟩ := List.getElem_of_mem he
          have := hnext L[j] he
          by_cases hmj : m < L[j].1
          · have := hno j hj hmj; omega
          · omega
        | some c =>
          obtain ⟨n, hn, hn1, hn2, hn3⟩ := hnext
          exact ⟨n, hn, by omega, hn2, fun j hj hjm => hn3 j hj (hno j hj (by omega))⟩
      have hp := ih p0 c0 cn (m + 1) R ⟨i0, h0, hL0⟩ hnext' hrec
      refine ⟨fun e he => ?_, hp.ordered, fun e hrs h1 h2 => ?_⟩
      · have := hp.sound e he; exact ⟨this.1, this.2.1, by omega⟩
      · apply hp.complete e hrs h1
        obtain ⟨k, hk, rfl, _⟩ := hrs
        by_cases hmk : m < L[k].1
        · have := hno k hk hmk; omega
        · omega
    cases hpr : probe L m with
    | none =>
      rw [hpr] at h
      exact narrow (fun j hj hmj => by have := probe_none L m hpr L[j] (List.getElem_mem hj); omega) h
    | some oc =>
      obtain ⟨o, c⟩ := oc
      rw [hpr] at h
      obtain ⟨i, hi', hLi, hmo, hfirst⟩ := probe_some L hinc m (o, c) hpr
      simp only at hmo h
      by_cases hge : o ≥ hi
      · simp only [hge, if_true] at h
        refine narrow (fun j hj hmj => ?_) h
        have := getElem_le_of_le L hinc i j hi' hj (hfirst j hj hmj)
        rw [hLi] at this; simp only at this; omega
      · simp only [hge, if_false] at h
        have ho : o < hi := by omega
        have hi0i : i0 < i := by
          apply idx_lt_of_lt L hinc i0 i h0 hi'
          rw [hL0, hLi]; simp only; omega
        -- the two recursive calls
        cases hleft : (if c ≠ c0 then found L fuel p0 c0 (some c) o else some []) with
        | none => rw [hleft] at h; simp at h
        | some l =>
          cases hright : (if cn ≠ some c then found L fuel o c cn hi else some []) with
          | none => rw [hleft, hright] at h; simp at h
          | some r =>
            rw [hleft, hright] at h
            simp only [Option.some.injEq] at h
            subst h
            have hpl : Post L p0 o l := by
              by_cases hc : c ≠ c0
              · rw [if_pos hc] at hleft
                refine ih p0 c0 (some c) o l ⟨i0, h0, hL0⟩ ?_ hleft
                refine ⟨i, hi', by rw [hLi]; exact Nat.le_refl _, by rw [hLi], fun j hj hjo => hfirst j hj (by omega)⟩
              · rw [if_neg hc] at hleft
                simp only [Option.some.injEq] at hleft
                subst hleft
                have hcc : c = c0 := by simpa using hc
                refine ⟨by simp, List.Pairwise.nil, fun e hrs h1 h2 => ?_⟩
                obtain ⟨k, hk, rfl, hrs'⟩ := hrs
                have hk1 : i0 < k := by
                  apply idx_lt_of_lt L hinc i0 k h0 hk; rw [hL0]; exact h1
                have hk2 : k < i := by
                  apply idx_lt_of_lt L hinc k i hk hi'; rw [hLi]; exact h2
                exact (no_run_start_inside L hg i0 i k h0 hi' hk (by rw [hL0, hLi, hcc]) hk1 (by omega) hrs').elim
            have hpr' : Post L o hi r := by
              by_cases hc : cn ≠ some c
              · rw [if_pos hc] at hright
                exact ih o c cn hi r ⟨i, hi', hLi⟩ hnext hright
              · rw [if_neg hc] at hright
                simp only [Option.some.injEq] at hright
                subst hright
                have hcc : cn = some c := by simpa using hc
                subst hcc
                obtain ⟨n, hn, hn1, hn2, hn3⟩ := hnext
                refine ⟨by simp, List.Pairwise.nil, fun e hrs h1 h2 => ?_⟩
                obtain ⟨k, hk, rfl, hrs'⟩ := hrs
                have hk1 : i < k := by
                  apply idx_lt_of_lt L hinc i k hi' hk; rw [hLi]; exact h1
                have hk2 : k < n := by
                  apply idx_lt_of_lt L hinc k n hk hn; omega
                exact (no_run_start_inside L hg i n k hi' hn hk (by rw [hLi, hn2]) hk1 (by omega) hrs').elim
            refine ⟨?_, ?_, ?_⟩
            · intro e he
              simp only [List.mem_append, List.mem_cons] at he
              rcases he with he | rfl | he
              · have := hpl.sound e he; exact ⟨this.1, this.2.1, by omega⟩
              · exact ⟨by rw [← hLi]; exact List.getElem_mem hi', by simp only; omega, ho⟩
              · have := hpr'.sound e he; exact ⟨this.1, by omega, this.2.2⟩
            · rw [List.pairwise_append]
              refine ⟨hpl.ordered, ?_, ?_⟩
              · rw [List.pairwise_cons]
                exact ⟨fun b hb => (hpr'.sound b hb).2.1, hpr'.ordered⟩
              · intro a ha b hb
                have h1 := (hpl.sound a ha).2.2
                simp only [List.mem_cons] at hb
                rcases hb with rfl | hb
                · exact h1
                · have := (hpr'.sound b hb).2.1; omega
            · intro e hrs h1 h2
              simp only [List.mem_append, List.mem_cons]
              rcases Nat.lt_trichotomy e.1 o with hlt | heq | hgt
              · left; exact hpl.complete e hrs h1 hlt
              · right; left
                obtain ⟨k, hk, rfl, _⟩ := hrs
                have : k = i := inc_inj L hinc k i hk hi' (by rw [hLi]; exact heq)
                subst this; exact hLi
              · right; right; exact hpr'.complete e hrs hgt h2

/-! ### from the entries found to the index: `dedup_by_key` on the chromosome -/

def dedupGo (last : Option Nat) : List Line → List Line
  | [] => []
  | x :: rest => if last = some x.2 then dedupGo last rest else x :: dedupGo (some x.2) rest

/-- the index the tool wants: the first line of every run = adjacent dedup of ALL lines -/
def runStartsOf (L : List Line) : List Line := dedupGo none L

/-- chromosome of the line before position `k` (`last` before the first) -/
def prevChrom (last : Option Nat) (L : List Line) (k : Nat) : Option Nat :=
  if k = 0 then last else (L[k - 1]?).map (·.2)

theorem inc_tail (x : Line) (xs : List Line) (h : Inc (x :: xs)) : Inc xs ∧ ∀ e ∈ xs, x.1 < e.1 := by
  cases xs with
  | nil => exact ⟨trivial, by simp⟩
  | cons y ys =>
    obtain ⟨h1, h2⟩ := h
    refine ⟨h2, ?_⟩
    intro e he
    obtain ⟨j, hj, rfl⟩ := List.getElem_of_mem he
    have := getElem_le_of_le (y :: ys) h2 0 j (by simp) hj (Nat.zero_le _)
    simp only [List.getElem_cons_zero] at this
    omega

/-- dedup sees the same thing in a sublist that keeps every line whose chromosome differs from its predecessor's -/
theorem dedup_sublist : ∀ (L R : List Line) (last : Option Nat), Inc L → R.Sublist L →
    (∀ k (hk : k < L.length), prevChrom last L k ≠ some L[k].2 → L[k] ∈ R) →
    dedupGo last R = dedupGo last L := by
  intro L
  induction L with
  | nil => intro R last _ hs _; rw [List.sublist_nil.mp hs]
  | cons x xs ih =>
    intro R last hinc hs hall
    obtain ⟨hinc', hgt⟩ := inc_tail x xs hinc
    -- what the hypothesis says about the tail
    have htail : ∀ (R' : List Line) (last' : Option Nat), last' = some x.2 → (∀ e ∈ R, e ≠ x → e ∈ R') →
        ∀ k (hk : k < xs.length), prevChrom last' xs k ≠ some xs[k].2 → xs[k] ∈ R' := by
      intro R' last' hl hsub k hk hne
      have := hall (k + 1) (by simpa using hk) (by
        simp only [prevChrom, Nat.add_one_ne_zero, if_false, Nat.add_sub_cancel, List.getElem_cons_succ]
        cases k with
        | zero =>
          simp only [prevChrom, if_true] at hne
          simp only [List.getElem?_cons_zero, Option.map_some]
          rw [← hl]; exact hne
        | succ k =>
          simp only [prevChrom, Nat.add_one_ne_zero, if_false, Nat.add_sub_cancel] at hne
          simp only [List.getElem?_cons_succ]
          exact hne)
      simp only [List.getElem_cons_succ] at this
      apply hsub _ this
      intro he
      have := hgt xs[k] (List.getElem_mem hk)
      rw [he] at this; omega
    cases hs with
    | cons _ hs' =>
      -- `x` is not in `R`: it is not a run start relative to `last`
      have hxR : x ∉ R := by
        intro hx
        have := hgt x (hs'.subset hx); omega
      have hlast : last = some x.2 := by
        apply Classical.byContradiction
        intro hne
        have := hall 0 (by simp) (by simpa [prevChrom] using hne)
        exact hxR this
      simp only [dedupGo, hlast, if_true]
      rw [← hlast]
      exact ih R last hinc' hs' (htail R last hlast (fun e he _ => he))
    | cons_cons _ hs' =>
      rename_i R''
      simp only [dedupGo]
      by_cases hlast : last = some x.2
      · simp only [hlast, if_true]
        rw [← hlast]
        refine ih R'' last hinc' hs' (htail R'' last hlast (fun e he hne => ?_))
        simp only [List.mem_cons] at he
        rcases he with rfl | he
        · exact absurd rfl hne
        · exact he
      · simp only [hlast, if_false]
        congr 1
        refine ih R'' (some x.2) hinc' hs' (htail R'' (some x.2) rfl (fun e he hne => ?_))
        simp only [List.mem_cons] at he
        rcases he with rfl | he
        · exact absurd rfl hne
        · exact he

/-- members of an increasing list, listed in increasing order, form a sublist -/
theorem sublist_of_sorted_mem : ∀ (L R : List Line), Inc L → (∀ e ∈ R, e ∈ L) → R.Pairwise (fun a b => a.1 < b.1) →
    R.Sublist L := by
  intro L
  induction L with
  | nil =>
    intro R _ hm _
    cases R with
    | nil => exact List.Sublist.slnil
    | cons r rs => exact absurd (hm r (by simp)) (by simp)
  | cons x xs ih =>
    intro R hinc hm hp
    obtain ⟨hinc', hgt⟩ := inc_tail x xs hinc
    cases R with
    | nil => exact List.nil_sublist _
    | cons r rs =>
      have hp' := List.pairwise_cons.mp hp
      have hr := hm r (by simp)
      simp only [List.mem_cons] at hr
      rcases hr with rfl | hr
      · -- the head is kept; the rest lies strictly after it, hence in `xs`
        refine List.Sublist.cons_cons _ (ih rs hinc' (fun e he => ?_) hp'.2)
        have := hm e (by simp [he])
        simp only [List.mem_cons] at this
        rcases this with rfl | h
        · have := hp'.1 _ he; omega
        · exact h
      · -- the head is skipped: everything in `R` lies in `xs`
        refine List.Sublist.cons _ (ih (r :: rs) hinc' (fun e he => ?_) hp)
        have := hm e he
        simp only [List.mem_cons] at this
        rcases this with rfl | h
        · -- `e = x` would lie before `r ∈ xs`, but `e` is `r` or comes after it
          simp only [List.mem_cons] at he
          rcases he with rfl | he
          · exact hr
          · have h1 := hp'.1 _ he
            have h2 := hgt r hr
            omega
        · exact h

/-- **C18: the repaired bisection yields the chromosome index.** For every grouped file (as its increasing list
    of line starts with chromosomes), whenever the bisection returns, keeping the first entry of each run of
    equal chromosomes among "first line + entries found" gives exactly the first line of every chromosome run
    of the file, in order. -/
theorem index_spec (x : Line) (xs : List Line) (hinc : Inc (x :: xs)) (hg : Grouped (x :: xs))
    (fuel fsize : Nat) (hsize : ∀ e ∈ x :: xs, e.1 < fsize) (R : List Line)
    (h : found (x :: xs) fuel x.1 x.2 none fsize = some R) :
    dedupGo none (x :: R) = runStartsOf (x :: xs) := by
  have hp := found_spec (x :: xs) hinc hg fuel x.1 x.2 none fsize R ⟨0, by simp, rfl⟩ hsize h
  have hsub : (x :: R).Sublist (x :: xs) := by
    apply sublist_of_sorted_mem (x :: xs) (x :: R) hinc
    · intro e he
      simp only [List.mem_cons] at he
      rcases he with rfl | he
      · simp
      · exact (hp.sound e he).1
    · rw [List.pairwise_cons]
      exact ⟨fun b hb => (hp.sound b hb).2.1, hp.ordered⟩
  unfold runStartsOf
  apply dedup_sublist (x :: xs) (x :: R) none hinc hsub
  intro k hk hne
  cases k with
  | zero => simp
  | succ k =>
    simp only [List.mem_cons]
    right
    have hk' : k < xs.length := by simpa using hk
    apply hp.complete
    · refine ⟨k + 1, hk, rfl, Or.inr ⟨by simp; omega, ?_⟩⟩
      simp only [prevChrom, Nat.add_one_ne_zero, if_false, Nat.add_sub_cancel] at hne
      have hk0 : k < (x :: xs).length := by simp; omega
      rw [List.getElem?_eq_getElem hk0] at hne
      simp only [Option.map_some, ne_eq, Option.some.injEq] at hne
      simpa using hne
    · have := inc_lt (x :: xs) hinc 0 (k + 1) (by simp) hk (by omega)
      simpa using this
    · exact hsize _ (List.getElem_mem hk)

end IXP
