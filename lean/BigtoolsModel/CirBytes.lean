import BigtoolsModel.BBIRead
import BigtoolsModel.RT
/-! Probe (C05/C10): for ANY byte image in which an index tree is laid out (whatever the node placement,
    fan-out or depth), the byte-level search of the reader model (`searchCir`, the explicit-stack loop of
    `CirTreeBlockSearchIter`) returns exactly what the abstract search returns. -/
namespace BBI
open RT

theorem overlaps_eq_ov (qc qs qe c1 s1 c2 e2 : Nat) :
    overlaps qc qs qe c1 s1 c2 e2 = ov ⟨qc, qs⟩ ⟨qc, qe⟩ ⟨c1, s1⟩ ⟨c2, e2⟩ := by
  have h1 : (cmpPos qc qs c2 e2 ≤ 0) ↔ Pos.le ⟨qc, qs⟩ ⟨c2, e2⟩ := by
    unfold cmpPos Pos.le; simp only; repeat' split
    all_goals omega
  have h2 : (cmpPos qc qe c1 s1 ≥ 0) ↔ Pos.le ⟨c1, s1⟩ ⟨qc, qe⟩ := by
    unfold cmpPos Pos.le; simp only; repeat' split
    all_goals omega
  unfold overlaps ov
  congr 1
  · exact decide_eq_decide.mpr h1
  · exact decide_eq_decide.mpr h2

/-- the bytes at `off` hold a leaf item / a non-leaf item with these fields -/
def leafItemAt (e : Endian) (s : Src) (b : Nat) (x : Sec) : Prop :=
  u32 e s b = x.lo.c ∧ u32 e s (b + 4) = x.lo.b ∧ u32 e s (b + 8) = x.hi.c ∧ u32 e s (b + 12) = x.hi.b ∧
  u64 e s (b + 16) = x.off ∧ u64 e s (b + 24) = x.size

def nodeItemAt (e : Endian) (s : Src) (b : Nat) (sp : Span) (child : Nat) : Prop :=
  u32 e s b = sp.lo.c ∧ u32 e s (b + 4) = sp.lo.b ∧ u32 e s (b + 8) = sp.hi.c ∧ u32 e s (b + 12) = sp.hi.b ∧
  u64 e s (b + 16) = child

mutual
/-- `Laid e s nlb off t`: the tree `t` is laid out in `s` with its root node at byte `off`
    (`nlb` = bytes per non-leaf item the reader insists on being able to read) -/
inductive Laid (e : Endian) (s : Src) (nlb : Nat) : Nat → T → Prop
  | leaf (off : Nat) (secs : List Sec) :
      off + 4 + secs.length * 32 ≤ s.size → byte s off = 1 → u16 e s (off + 2) = secs.length →
      (∀ i (h : i < secs.length), leafItemAt e s (off + 4 + i * 32) secs[i]) →
      Laid e s nlb off (.leaf secs)
  | node (off : Nat) (kids : List (Span × T)) (ptrs : List Nat) :
      off + 4 + kids.length * nlb ≤ s.size → byte s off = 0 → u16 e s (off + 2) = kids.length →
      LaidKids e s nlb (off + 4) kids ptrs →
      Laid e s nlb off (.node kids)
/-- the items of a non-leaf node starting at byte `base`, with the child pointers they hold -/
inductive LaidKids (e : Endian) (s : Src) (nlb : Nat) : Nat → List (Span × T) → List Nat → Prop
  | nil (base : Nat) : LaidKids e s nlb base [] []
  | cons (base : Nat) (k : Span × T) (ks : List (Span × T)) (p : Nat) (ps : List Nat) :
      nodeItemAt e s base k.1 p → Laid e s nlb p k.2 → LaidKids e s nlb (base + 24) ks ps →
      LaidKids e s nlb base (k :: ks) (p :: ps)
end

def blockOf (x : Sec) : Block := ⟨x.off, x.size⟩

theorem range_filterMap_eq {α β} (l : List α) (g : Nat → Option β) (f : α → Option β)
    (h : ∀ i (hi : i < l.length), g i = f l[i]) : (List.range l.length).filterMap g = l.filterMap f := by
  induction l generalizing g with
  | nil => simp
  | cons x xs ih =>
    rw [List.length_cons, List.range_succ_eq_map, List.filterMap_cons, List.filterMap_cons]
    have h0 := h 0 (by simp)
    simp only [List.getElem_cons_zero] at h0
    rw [h0, List.filterMap_map]
    have := ih (g ∘ Nat.succ) (fun i hi => by
      have := h (i + 1) (by simp; omega)
      simpa using this)
    rw [this]

mutual
def visited (qlo qhi : Pos) : T → Nat
  | .leaf _ => 1
  | .node kids => 1 + visitedL qlo qhi kids
def visitedL (qlo qhi : Pos) : List (Span × T) → Nat
  | [] => 0
  | (sp, t) :: ks => (if ov qlo qhi sp.lo sp.hi then visited qlo qhi t else 0) + visitedL qlo qhi ks
end

theorem range_filterMap_shift {β} (n : Nat) (g : Nat → Option β) :
    (List.range (n + 1)).filterMap g = (match g 0 with | some b => [b] | none => []) ++
      (List.range n).filterMap (fun i => g (i + 1)) := by
  rw [List.range_succ_eq_map, List.filterMap_cons, List.filterMap_map]
  cases g 0 <;> rfl

/-- the reader's selection of one non-leaf item -/
def kidSel (e : Endian) (s : Src) (qc qs qe base i : Nat) : Option Nat :=
  if overlaps qc qs qe (u32 e s (base + i * 24)) (u32 e s (base + i * 24 + 4)) (u32 e s (base + i * 24 + 8))
      (u32 e s (base + i * 24 + 12))
  then some (u64 e s (base + i * 24 + 16)) else none

theorem kidSel_succ (e : Endian) (s : Src) (qc qs qe base i : Nat) :
    kidSel e s qc qs qe base (i + 1) = kidSel e s qc qs qe (base + 24) i := by
  have : base + (i + 1) * 24 = base + 24 + i * 24 := by omega
  simp only [kidSel, this]

theorem kidSel_zero (e : Endian) (s : Src) (qc qs qe base : Nat) (sp : Span) (p : Nat)
    (h : nodeItemAt e s base sp p) :
    kidSel e s qc qs qe base 0 = if ov ⟨qc, qs⟩ ⟨qc, qe⟩ sp.lo sp.hi then some p else none := by
  obtain ⟨a1, a2, a3, a4, a5⟩ := h
  simp only [kidSel, Nat.zero_mul, Nat.add_zero, a1, a2, a3, a4, a5, overlaps_eq_ov]

/-- the pointers of the children whose recorded span overlaps the query, as the reader computes them -/
theorem kids_filter (e : Endian) (s : Src) (nlb qc qs qe : Nat) :
    ∀ (kids : List (Span × T)) (ptrs : List Nat) (base : Nat), LaidKids e s nlb base kids ptrs →
    (List.range kids.length).filterMap (kidSel e s qc qs qe base)
      = (kids.zip ptrs).filterMap (fun kp => if ov ⟨qc, qs⟩ ⟨qc, qe⟩ kp.1.1.lo kp.1.1.hi then some kp.2 else none) := by
  intro kids
  induction kids with
  | nil => intro ptrs base _; simp
  | cons k ks ih =>
    intro ptrs base h
    cases h with
    | cons _ _ _ p ps hitem hlaid hrest =>
      rw [List.length_cons, range_filterMap_shift, kidSel_zero e s qc qs qe base k.1 p hitem]
      have hfun : (fun i => kidSel e s qc qs qe base (i + 1)) = kidSel e s qc qs qe (base + 24) := by
        funext i; exact kidSel_succ e s qc qs qe base i
      rw [hfun, ih ps (base + 24) hrest, List.zip_cons_cons, List.filterMap_cons]
      by_cases hov : ov ⟨qc, qs⟩ ⟨qc, qe⟩ k.1.lo k.1.hi = true <;> simp [hov]

def blocksOf (l : List Sec) : List Block := l.map blockOf

theorem leaf_items (e : Endian) (s : Src) (qc qs qe off : Nat) (secs : List Sec)
    (h : ∀ i (h : i < secs.length), leafItemAt e s (off + 4 + i * 32) secs[i]) :
    (List.range secs.length).filterMap (fun i =>
        let b := off + 4 + i * 32
        if overlaps qc qs qe (u32 e s b) (u32 e s (b + 4)) (u32 e s (b + 8)) (u32 e s (b + 12))
        then some (⟨u64 e s (b + 16), u64 e s (b + 24)⟩ : Block) else none)
      = blocksOf (secs.filter fun x => ov ⟨qc, qs⟩ ⟨qc, qe⟩ x.lo x.hi) := by
  rw [range_filterMap_eq secs _ (fun x => if ov ⟨qc, qs⟩ ⟨qc, qe⟩ x.lo x.hi then some (blockOf x) else none)]
  · clear h
    induction secs with
    | nil => rfl
    | cons x xs ih =>
      simp only [List.filterMap_cons, List.filter_cons, blocksOf] at ih ⊢
      by_cases hov : ov ⟨qc, qs⟩ ⟨qc, qe⟩ x.lo x.hi = true
      · simp only [hov, if_true, List.map_cons]
        congr 1
      · simp only [hov, Bool.false_eq_true, if_false]
        exact ih
  · intro i hi
    obtain ⟨a1, a2, a3, a4, a5, a6⟩ := h i hi
    simp only [a1, a2, a3, a4, a5, a6, overlaps_eq_ov, blockOf]

mutual
theorem search_tree (e : Endian) (s : Src) (nlb qc qs qe : Nat) :
    (t : T) → (off : Nat) → Laid e s nlb off t → ∀ (fuel : Nat) (stack : List Nat) (acc : List Block),
      searchCir e s nlb qc qs qe (visited ⟨qc, qs⟩ ⟨qc, qe⟩ t + fuel) (off :: stack) acc =
        searchCir e s nlb qc qs qe fuel stack (acc ++ blocksOf (search ⟨qc, qs⟩ ⟨qc, qe⟩ t))
  | .leaf secs, off, h, fuel, stack, acc => by
    cases h with
    | leaf _ _ hb h1 hc hitems =>
      have hfuel : visited ⟨qc, qs⟩ ⟨qc, qe⟩ (.leaf secs) + fuel = fuel + 1 := by simp [visited]; omega
      rw [hfuel]
      simp only [searchCir, need, h1, hc]
      have b1 : off + 4 ≤ s.size := by omega
      have b2 : off + 4 + secs.length * 32 ≤ s.size := hb
      simp only [b1, b2, if_true, bind, Except.bind, pure, Except.pure]
      simp only [show ¬ ((1 : Nat) ≠ 0 ∧ (1 : Nat) ≠ 1) by omega, if_false, if_true]
      rw [leaf_items e s qc qs qe off secs hitems]
      simp [search]
  | .node kids, off, h, fuel, stack, acc => by
    cases h with
    | node _ _ ptrs hb h0 hc hk =>
      have hfuel : visited ⟨qc, qs⟩ ⟨qc, qe⟩ (.node kids) + fuel = (visitedL ⟨qc, qs⟩ ⟨qc, qe⟩ kids + fuel) + 1 := by
        simp [visited]; omega
      rw [hfuel]
      simp only [searchCir, need, h0, hc]
      have b1 : off + 4 ≤ s.size := by omega
      have b2 : off + 4 + kids.length * nlb ≤ s.size := hb
      simp only [b1, b2, if_true, bind, Except.bind, pure, Except.pure]
      simp only [show ¬ ((0 : Nat) ≠ 0 ∧ (0 : Nat) ≠ 1) by omega, if_false, show ¬ ((0 : Nat) = 1) by omega]
      have hsel : (fun i => let b := off + 4 + i * 24
            if overlaps qc qs qe (u32 e s b) (u32 e s (b + 4)) (u32 e s (b + 8)) (u32 e s (b + 12)) = true
            then some (u64 e s (b + 16)) else none) = kidSel e s qc qs qe (off + 4) := by
        funext i; rfl
      rw [hsel, kids_filter e s nlb qc qs qe kids ptrs (off + 4) hk]
      simp only [search]
      exact search_forest e s nlb qc qs qe kids ptrs (off + 4) hk fuel stack acc
theorem search_forest (e : Endian) (s : Src) (nlb qc qs qe : Nat) :
    (kids : List (Span × T)) → (ptrs : List Nat) → (base : Nat) → LaidKids e s nlb base kids ptrs →
    ∀ (fuel : Nat) (stack : List Nat) (acc : List Block),
      searchCir e s nlb qc qs qe (visitedL ⟨qc, qs⟩ ⟨qc, qe⟩ kids + fuel)
          ((kids.zip ptrs).filterMap (fun kp => if ov ⟨qc, qs⟩ ⟨qc, qe⟩ kp.1.1.lo kp.1.1.hi then some kp.2 else none)
            ++ stack) acc =
        searchCir e s nlb qc qs qe fuel stack (acc ++ blocksOf (searchL ⟨qc, qs⟩ ⟨qc, qe⟩ kids))
  | [], ptrs, base, h, fuel, stack, acc => by
    cases h
    simp [visitedL, searchL, blocksOf]
  | (sp, t) :: ks, ptrs, base, h, fuel, stack, acc => by
    cases h with
    | cons _ _ _ p ps hitem hlaid hrest =>
      simp only [List.zip_cons_cons, List.filterMap_cons, visitedL, searchL]
      by_cases hov : ov ⟨qc, qs⟩ ⟨qc, qe⟩ sp.lo sp.hi = true
      · simp only [hov, if_true, List.cons_append]
        rw [Nat.add_assoc, search_tree e s nlb qc qs qe t p hlaid]
        rw [search_forest e s nlb qc qs qe ks ps (base + 24) hrest]
        simp [blocksOf, List.append_assoc]
      · simp only [hov, Bool.false_eq_true, if_false, Nat.zero_add, List.nil_append]
        exact search_forest e s nlb qc qs qe ks ps (base + 24) hrest fuel stack acc
end

/-- **Search over bytes = abstract search, for any layout.** If a tree `t` is laid out in the byte image
    (root node at `off`), the reader's explicit-stack search returns, given enough fuel, exactly the blocks
    of the sections the abstract depth-first search returns, in the same order. -/
theorem searchCir_eq_search (e : Endian) (s : Src) (nlb qc qs qe off : Nat) (t : T) (h : Laid e s nlb off t) :
    searchCir e s nlb qc qs qe (visited ⟨qc, qs⟩ ⟨qc, qe⟩ t + 1) [off] [] =
      .ok (blocksOf (search ⟨qc, qs⟩ ⟨qc, qe⟩ t)) := by
  rw [search_tree e s nlb qc qs qe t off h 1 [] []]
  simp [searchCir]

/-- **C05/C10 certificate theorem.** Any index laid out in a byte image whose recorded spans contain the
    leaves beneath them answers every query exactly as a linear scan over its leaf entries, in file order —
    whatever the fan-out, depth, node placement or byte order. -/
theorem wf_search_eq_scan (e : Endian) (s : Src) (nlb qc qs qe off : Nat) (t : T)
    (h : Laid e s nlb off t) (hspan : SpanOK t) :
    searchCir e s nlb qc qs qe (visited ⟨qc, qs⟩ ⟨qc, qe⟩ t + 1) [off] [] =
      .ok (blocksOf ((leaves t).filter fun x => ov ⟨qc, qs⟩ ⟨qc, qe⟩ x.lo x.hi)) := by
  rw [searchCir_eq_search e s nlb qc qs qe off t h, search_eq _ _ t hspan]

end BBI
