import BigtoolsModel.BedZoomCompose
import BigtoolsModel.FiltersGen
import BigtoolsModel.Tiler4
import BigtoolsModel.SweepProof
import BigtoolsModel.ZoomQueryBytes
import BigtoolsModel.WriterSections
import BigtoolsModel.AtomsTiler
import BigtoolsModel.AtomsSweep
import BigtoolsModel.OverlapsGen
/-! # C08 — bigBed zoom levels are faithful reductions of coverage depth

Property theorems (statements copied from the lemma modules, proofs by those lemmas). -/

namespace BZC
open SW Tiler2

/-- **C08: bigBed zoom records are a faithful reduction of the coverage depth.** For every start-sorted list
    of well-formed entries (overlapping, nested, identical, zero-length) and every resolution: if `segs` are
    the depth segments the sweep emits, then (1) at every base their depth is the number of entries covering
    it, and (2) the zoom records — emitted and, had the run stopped, still live — are in order, disjoint, at most
    one resolution long, and have exactly the covered bases, sum, minimum and maximum of `segs` inside their
    span, covering every covered base once. -/
theorem C08_records_are_a_faithful_reduction_of_depth (inf size : Nat) (hsize : 0 < size) (x : Nat × Nat) (rest : List (Nat × Nat))
    (hv : Valid inf x.1 (x :: rest)) (st' : TSt)
    (hrun : bedZoom inf size (x :: rest) [] ⟨none, []⟩ = some st')
    (hne : (sweepAll inf (x :: rest) [] []).1 ≠ []) :
    (∀ p, segDepth (sweepAll inf (x :: rest) [] []).1 p = depth (x :: rest) p) ∧
    Final size ((sweepAll inf (x :: rest) [] []).1.map toVal) (recs st') :=
  bed_zoom_faithful inf size hsize x rest hv st' hrun hne

/-- the interleaved loop is the flagged tiler over everything the sweep emits -/
theorem C08_zoom_path_is_flagged_tiler_over_sweep (inf size : Nat) : ∀ (todo : List (Nat × Nat)) (rem : List Seg) (st : TSt),
    bedZoom inf size todo rem st =
      processAllF repaired size ((emitted inf todo rem).map fun gf => (toVal gf.1, gf.2)) st :=
  bedZoom_eq inf size

end BZC

namespace Tiler2

/-- **Tiler with arbitrary intermediate flushes (the bigBed shape).** Values in order, disjoint; any flags:
    the records (emitted and still live) are in order, disjoint, at most one resolution long, with exact
    coverage, sum, min and max, and they cover every base of the values exactly once. -/
theorem C08_tiler_faithful_under_any_flush_pattern (size : Nat) (hsize : 0 < size) (vals : List (Val × Bool)) (st' : TSt)
    (hpw : (vals.map (·.1)).Pairwise (fun p q => p.e ≤ q.s)) (hse : ∀ p ∈ vals, p.1.s ≤ p.1.e) (hne : vals ≠ [])
    (hrun : processAllF repaired size vals ⟨none, []⟩ = some st') :
    Final size (vals.map (·.1)) (recs st') :=
  runF_faithful size hsize vals st' hpw hse hne hrun

end Tiler2

namespace SW

/-- **Coverage sweep (zoom tail rule) represents the depth function.** For every start-sorted list of
    well-formed entries, the segments the sweep emits have, at every position, exactly the number of
    entries covering that position; nothing is left behind. -/
theorem C08_segments_carry_the_depth (inf : Nat) (x : Nat × Nat) (rest : List (Nat × Nat))
    (hv : Valid inf x.1 (x :: rest)) (p : Nat) :
    segDepth (sweepAll inf (x :: rest) [] []).1 p = depth (x :: rest) p :=
  sweep_represents_depth inf x rest hv p

end SW

namespace BBI
open RT CD

/-- **Zoom range query over bytes (repaired span rule in the index).** -/
theorem C08_zoom_range_query (b : Nat) (hb : 2 ≤ b) (hb16 : b < 256 ^ 2) (ds : List ZSec) (hne : ds ≠ [])
    (hsorted : LoSorted (ds.map ZSec.sec)) (hok : ∀ d ∈ ds, ZSecOK d)
    (l : List Nat) (hl : l.length < 256 ^ 8) (hsecs : ∀ d ∈ ds, Has l d.off d.bytes)
    (Ls : List (List T)) (hLs : levelsOf true b (ds.map ZSec.sec) = some Ls) (idx : Nat)
    (hidx : Has l idx (body b idx Ls)) (c qs qe : Nat) :
    ∃ fuel blocks, searchCir .little (srcOf l) 24 c qs qe fuel [idx] [] = .ok blocks ∧
      goZoomBlocks l c qs qe blocks = .ok ((ds.flatMap (·.recs)).filter (zKeep c qs qe)) :=
  zoom_query_bytes b hb hb16 ds hne hsorted hok l hl hsecs Ls hLs idx hidx c qs qe

end BBI

namespace BW

/-- **Sectioning of zoom records (byte-level writer model, the one compared byte for byte with the real files).** However
    a chromosome's zoom records are cut into blocks — every `items_per_slot` records and at the forced flushes of the final
    drain — the block bytes, concatenated, are the encoding of the record stream: no record lost, duplicated or moved. -/
theorem C08_zoom_sectioning_preserves_the_record_stream (ips : Nat) (hips : 0 < ips) (recs : List ZRec) (cuts : List Nat) :
    (cutZoomSectionsAt ips recs cuts).flatMap (·.bytes) = recs.flatMap encZRec :=
  cutZoomSectionsAt_bytes ips hips recs cuts

end BW

namespace BBI
open CD

/-- **The code's own zoom-record filter** (`get_zoom_block_values`, both byte orders), regenerated from bbiread.rs on every
    run, is the `zKeep` of the zoom query theorem. -/
theorem C08_source_zoom_filter_is_zKeep (c qs qe : Nat) (r : ZRec) :
    Gen.zoom_keep_0 r.chrom c r.start r.stop qs qe = zKeep c qs qe r ∧ Gen.zoom_keep_1 r.chrom c r.start r.stop qs qe = zKeep c qs qe r :=
  ⟨gen_zoom_filter_0 c qs qe r, gen_zoom_filter_1 c qs qe r⟩

end BBI

namespace Tiler2

/-- **The code's own bigBed tiler loop** (`process_val_zoom` in bigbedwrite.rs), assembled from the expressions regenerated
    from the source, is the model's `iter` (the tiler `C08_records_are_a_faithful_reduction_of_depth` is about), for every
    resolution, depth piece, position and tiler state; exit test and full-section test as in the model. -/
theorem C08_source_tiler_loop_body_is_the_models (size : Nat) (x : Val) (a : Nat) (st : TSt) (n ips : Nat) :
    iterGenBed size x a st = iter repaired size x a st ∧ Gen.bz_done a x.e = decide (a ≥ x.e) ∧
    Gen.bz_full n ips = decide (n = ips) :=
  ⟨gen_bed_tiler_iter size x a st, (gen_tiler_done a x.e).2, (gen_zoom_section_flush a x.e true true true n ips).2⟩

end Tiler2

namespace Sweep

/-- **The code's own zoom sweep** (the coverage sweep inside `process_val_zoom`): increment-and-split, tail rule and flush
    loop assembled from the tests regenerated from the source are the model's `bump`, `tailZoom`, `flush`. -/
theorem C08_source_zoom_sweep_is_the_models (itemStart itemEnd nextStart fuel : Nat) (l : List Seg) :
    bumpGen true itemEnd l = bump itemEnd l ∧ tailGen true itemStart itemEnd l = tailZoom itemStart itemEnd l ∧
    flushGen true nextStart fuel l = flush nextStart fuel l :=
  ⟨gen_bump true itemEnd l, gen_tail true itemStart itemEnd l, gen_flush true nextStart fuel l⟩

end Sweep

namespace RT

/-- **The code's own index-pruning predicate.** `Gen.overlaps` (regenerated from `overlaps` and the functions it calls in
    bbiread.rs on every run) is, for all arguments, the `ov` with which the search theorems are stated; zoom range queries search each level's index with it. -/
theorem C08_source_overlaps_is_the_models_ov (q qs qe b1 b1s b2 b2e : Nat) :
    Gen.overlaps q qs qe b1 b1s b2 b2e = ov ⟨q, qs⟩ ⟨q, qe⟩ ⟨b1, b1s⟩ ⟨b2, b2e⟩ :=
  gen_overlaps_eq_ov q qs qe b1 b1s b2 b2e

end RT
