import BigtoolsModel.Compat
import BigtoolsModel.TextCodec
import BigtoolsModel.Props.C01
import BigtoolsModel.Props.C02
import BigtoolsModel.OverlapsGen
/-! # C16 — command-line conversions round-trip records for any thread count and flag style

What is proved here is the decision logic in front of the converters: the UCSC-style argument rewriting
(`compat_args`, module `Compat`, tables re-extracted from `utils/cli.rs` on every run). The record round trip
itself is C01/C02 (write-then-read for every option record) composed with the text codecs; clap, `ryu` float
printing and Rust's float parser are not modelled — the correspondence compares the tools' texts numerically. -/
namespace Props.C16
open CLI

/-- Every UCSC spelling named in the property (`-unc`, `-blockSize=N`, `-chrom=`, `-start=`, `-end=`, `-chroms=`,
    `-itemsPerSlot=`, `-zooms=`, `-as=`) rewrites to the native flag, and native arguments, thread flags and file
    names are left alone — decided by the kernel against the table of the current source. -/
theorem ucsc_spellings_rewrite_to_native_flags : CASES.all (fun c => compatArg c.1 == .arg c.2) = true :=
  compat_table_spec

def startsWithDashLetter (p : List Nat) : Bool :=
  match p with
  | 45 :: c :: _ => c != 45
  | _ => false

theorem isPrefix_dash_letter (p rest : List Nat) (h : startsWithDashLetter p = true) :
    isPrefix p (45 :: 45 :: rest) = false := by
  match p, h with
  | 45 :: c :: t, h =>
    simp only [startsWithDashLetter, bne_iff_ne, ne_eq] at h
    simp [isPrefix, h]

/-- every pattern of the three tables of the current source is a dash followed by a non-dash -/
theorem tables_are_single_dash :
    REPLACE.all (fun fr => startsWithDashLetter fr.1) = true ∧ IGNORE.all startsWithDashLetter = true ∧
    UNIMPLEMENTED.all startsWithDashLetter = true := by decide +kernel

/-- Native (`--…`) arguments are never touched, whatever follows the two dashes. -/
theorem native_flags_untouched (rest : List Nat) : compatArg (45 :: 45 :: rest) = .arg (45 :: 45 :: rest) := by
  have ⟨h1, h2, h3⟩ := tables_are_single_dash
  unfold compatArg
  have hf : REPLACE.find? (fun fr => isPrefix fr.1 (45 :: 45 :: rest)) = none := by
    rw [List.find?_eq_none]
    intro fr hfr
    rw [List.all_eq_true] at h1
    simp [isPrefix_dash_letter fr.1 rest (h1 fr hfr)]
  rw [hf]
  have hi : IGNORE.any (fun p => isPrefix p (45 :: 45 :: rest)) = false := by
    rw [List.any_eq_false]
    intro p hp
    rw [List.all_eq_true] at h2
    simp [isPrefix_dash_letter p rest (h2 p hp)]
  have hu : UNIMPLEMENTED.any (fun p => isPrefix p (45 :: 45 :: rest)) = false := by
    rw [List.any_eq_false]
    intro p hp
    rw [List.all_eq_true] at h3
    simp [isPrefix_dash_letter p rest (h3 p hp)]
  simp [hi, hu]

/-- Multicall dispatch: `bigtools bedGraphToBigWig -unc …` and `bedgraphtobigwig -unc …` rewrite alike. -/
theorem multicall_dispatch_example :
    compatArgs [[98,105,103,116,111,111,108,115], [98,101,100,71,114,97,112,104,84,111,66,105,103,87,105,103], [45,117,110,99], [105,110]]
      = .args [[98,105,103,116,111,111,108,115], [98,101,100,103,114,97,112,104,116,111,98,105,103,119,105,103],
               [45,45,117,110,99,111,109,112,114,101,115,115,101,100], [105,110]] ∧
    compatArgs [[98,101,100,103,114,97,112,104,116,111,98,105,103,119,105,103], [45,117,110,99], [105,110]]
      = .args [[98,101,100,103,114,97,112,104,116,111,98,105,103,119,105,103],
               [45,45,117,110,99,111,109,112,114,101,115,115,101,100], [105,110]] := by decide +kernel

/-- The record round trip behind the converters (C01): write-then-read of the model writer for every option
    record; the full span of every chromosome comes back exactly. -/
theorem bigwig_records_roundtrip (o : BBI.WOpts) (cs : List BBI.ChromIn) (h : BBI.ValidInput o cs) (j : Nat) (hj : j < cs.length) :
    ∃ fuel₀, ∀ fuel, fuel₀ ≤ fuel →
      BBI.getIntervalF fuel (BBI.fileOf o cs).bytes (cs[j].name.map UInt8.ofNat) 0 cs[j].size = .ok cs[j].vals :=
  Props.C01.full_span_read_back_is_exact o cs h j hj

/-- Restricting the output by chromosome, start and end is the range query of C03 on the written bytes. -/
theorem restricted_output_is_the_range_query (o : BBI.WOpts) (cs : List BBI.ChromIn) (h : BBI.ValidInput o cs) (j : Nat)
    (hj : j < cs.length) (qs qe : Nat) :
    ∃ fuel₀, ∀ fuel, fuel₀ ≤ fuel →
      BBI.getIntervalF fuel (BBI.fileOf o cs).bytes (cs[j].name.map UInt8.ofNat) qs qe =
        .ok (cs[j].vals.filterMap (BBI.keepClip qs qe)) :=
  Props.C01.write_then_read_returns_the_input o cs h j hj qs qe

/-- Text level: a canonical bedGraph line over natural-number fields (chromosome name without a tab) parses back
    to the record it prints — decimal printing and parsing are mutually inverse. -/
theorem bedgraph_line_text_roundtrip (r : TXT.Rec) (h : ∀ c ∈ r.chrom, c ≠ 9) : TXT.parseLine (TXT.printLine r) = some r :=
  TXT.parse_print r h

theorem decimal_roundtrip (n : Nat) : TXT.parseNat (TXT.digits n) = some n := TXT.parseNat_digits n

end Props.C16

namespace RT

/-- **The code's own index-pruning predicate.** `Gen.overlaps` (regenerated from `overlaps` and the functions it calls in
    bbiread.rs on every run) is, for all arguments, the `ov` with which the search theorems are stated; the converters read every record (and every restricted range) through that index. -/
theorem C16_source_overlaps_is_the_models_ov (q qs qe b1 b1s b2 b2e : Nat) :
    Gen.overlaps q qs qe b1 b1s b2 b2e = ov ⟨q, qs⟩ ⟨q, qe⟩ ⟨b1, b1s⟩ ⟨b2, b2e⟩ :=
  gen_overlaps_eq_ov q qs qe b1 b1s b2 b2e

end RT
