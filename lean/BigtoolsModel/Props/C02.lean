import BigtoolsModel.WriteGenBBI
import BigtoolsModel.WriteGenBed
import BigtoolsModel.WriteGenTB
import BigtoolsModel.FileOfBed
import BigtoolsModel.FileRTBed
import BigtoolsModel.BedCodec
import BigtoolsModel.AtomsCut
import BigtoolsModel.OverlapsGen
import BigtoolsModel.WriterSections
/-! # C02 — bigBed write/read round trip, including overlapping entries and autoSql

Property theorems (statements copied from the lemma modules, proofs by those lemmas). -/

namespace BBI
open RT CD

/-- **C02 for the model writer (little-endian, uncompressed, repaired span rule): write, then read.** For every
    valid input (any number of chromosomes with distinct names, each with entries sorted by start — overlapping,
    nested, identical entries allowed, however long earlier entries are), every `items_per_slot ≥ 1` and fan-out
    `≥ 2`: querying chromosome `j` over any range on the written bytes returns exactly that chromosome's input
    entries passing the reader's inclusive filter, once each, in stored order. -/
theorem C02_write_then_read_returns_the_entries (o : BOpts) (cs : List ChromBedIn) (h : ValidBedInput o cs) (j : Nat) (hj : j < cs.length)
    (qs qe : Nat) :
    ∃ fuel₀, ∀ fuel, fuel₀ ≤ fuel →
      getBedIntervalF fuel (bedFileOf o cs).bytes (cs[j].name.map UInt8.ofNat) qs qe =
        .ok (.ok (cs[j].entries.filter (bedKeep qs qe))) :=
  bed_model_roundtrip o cs h j hj qs qe

/-- **C02, file level (little-endian, uncompressed, repaired span rule).** -/
theorem C02_any_file_of_this_shape_reads_back (f : BedFile) (hv : f.Valid) (c : List Nat × Nat × Nat) (hc : c ∈ f.chroms) (qs qe : Nat) :
    ∃ fuel₀, ∀ fuel, fuel₀ ≤ fuel →
      getBedIntervalF fuel f.bytes (c.1.map UInt8.ofNat) qs qe =
        .ok (.ok (((f.ds.filter fun d => d.chrom = c.2.1).flatMap (·.items)).filter (bedKeep qs qe))) :=
  bed_file_roundtrip f hv c hc qs qe

end BBI

namespace CD

/-- **bigBed record round trip**: for a chromosome id and in-range entries whose rest fields contain no NUL
    and which are not `(0,0)`, decoding the concatenated records returns them in order. -/
theorem C02_record_codec_roundtrip (chrom : Nat) (hc : chrom < 256 ^ 4) (entries : List Entry)
    (hok : ∀ x ∈ entries, x.ok) :
    ∀ fuel, entries.length < fuel →
      decEntries fuel (entries.flatMap (encEntry chrom)) = .ok (entries.map fun x => (chrom, x)) :=
  bed_records_roundtrip chrom hc entries hok

theorem C02_zero_zero_entry_is_the_padding_marker : isPadding (decEntries 5 (encEntry 0 ⟨0, 0, []⟩)) = true :=
  zero_zero_entry_rejected_as_found 

end CD

namespace CD

/-- `BigBedRead::autosql`: the bytes from `autoSqlOffset` up to the first NUL -/
def readCStr (l : List Nat) (off : Nat) : List Nat := (l.drop off).takeWhile (· ≠ 0)

/-- A NUL-free autoSql text written NUL-terminated at its offset is returned verbatim, whatever surrounds it
    (the writer refuses a text containing NUL with InvalidInput, so every stored text is NUL-free). -/
theorem C02_autosql_stored_verbatim (pre text tail : List Nat) (h : ∀ b ∈ text, b ≠ 0) :
    readCStr (pre ++ (text ++ 0 :: tail)) pre.length = text := by
  unfold readCStr
  rw [List.drop_left]
  exact takeWhile_nul text tail h

end CD

namespace SectionCut

/-- **The code's own section cut** (regenerated from `process_val` of both writers): a data section is handed over after the
    chromosome's last item or when it holds `min items_per_slot 65535` items — so no section ever holds more items than its
    16-bit count field can express (D22), whatever `items_per_slot` is. -/
theorem C02_source_section_cut (isLast : Bool) (n ips : Nat) :
    Gen.wig_cut isLast n ips = (isLast || decide (n ≥ min ips 65535)) ∧
    Gen.bed_cut isLast n ips = (isLast || decide (n ≥ min ips 65535)) ∧
    (n ≥ 65535 → Gen.wig_cut isLast n ips = true ∧ Gen.bed_cut isLast n ips = true) :=
  ⟨(gen_cut isLast n ips).1, (gen_cut isLast n ips).2, gen_cut_fits_u16 isLast n ips⟩

end SectionCut

namespace RT

/-- **The code's own index-pruning predicate.** `Gen.overlaps` (regenerated from `overlaps` and the functions it calls in
    bbiread.rs on every run) is, for all arguments, the `ov` with which the search theorems are stated; the full-span read of the round trip goes through that index. -/
theorem C02_source_overlaps_is_the_models_ov (q qs qe b1 b1s b2 b2e : Nat) :
    Gen.overlaps q qs qe b1 b1s b2 b2e = ov ⟨q, qs⟩ ⟨q, qe⟩ ⟨b1, b1s⟩ ⟨b2, b2e⟩ :=
  gen_overlaps_eq_ov q qs qe b1 b1s b2 b2e

end RT

namespace BW

/-- **Every `items_per_slot` (D22).** The byte-level writer models cut data sections at `min items_per_slot 65535`: whatever
    value the option has, every bigWig and bigBed data section holds fewer than 65536 items, so its 16-bit count field is
    exact (as found, a larger `items_per_slot` made the count wrap and the reader lose `count mod 65536` items). -/
theorem C02_data_sections_fit_the_16_bit_item_count (ips chrom fuel : Nat) (vs : List V) (es : List BedE) :
    (∀ s ∈ cutSections (min ips 65535) chrom fuel vs, ∃ blk : List V, blk.length < 65536 ∧ s = encSection chrom blk) ∧
    (∀ s ∈ cutBedSections (min ips 65535) chrom fuel es, ∃ blk : List BedE, blk.length < 65536 ∧ s = encBedSection chrom blk) :=
  data_sections_fit_u16 ips chrom fuel vs es

end BW

/-- **Tie to the source: whole buffers reach every destination** (the bigBed writer's sections, schema text, headers and indexes). The models append whole buffers to the
    destination. `std::io::Write::write` may accept any non-empty prefix; `write_all` loops until nothing is left
    (`WA.writeAll_delivers`: for every destination that takes at least one byte per call), a bare `write` delivers the buffer only
    if the destination takes all of it at once (`WA.write_delivers_iff`). The lists of bare `write` calls in the source files this writer goes through,
    regenerated from /repo on every run, are empty — so the models' appends are what a short-writing destination receives. -/
theorem C02_source_buffers_reach_every_destination_whole (s : WA.Sink) (h : 0 < s.take) (bufs : List (List Nat)) :
    (Gen.wr_bare_write_bbiwrite = [] ∧ Gen.wr_bare_write_bigbedwrite = [] ∧ Gen.wr_bare_write_tempfilebuffer = []) ∧ (bufs.foldl WA.writeAll s).data = s.data ++ bufs.flatten ∧
    (∀ buf, (s.write buf).1.data = s.data ++ buf ↔ buf.length ≤ s.take) :=
  ⟨⟨WA.gen_no_bare_write_bbiwrite, WA.gen_no_bare_write_bigbedwrite, WA.gen_no_bare_write_tempfilebuffer⟩, WA.writeAll_sequence s h bufs, fun buf => WA.write_delivers_iff s buf⟩
