import BigtoolsModel.AtomsSearch
import BigtoolsModel.AtomsBytes
import BigtoolsModel.AtomsRB
import BigtoolsModel.FileOf
import BigtoolsModel.FiltersGen
import BigtoolsModel.OverlapsGen
import BigtoolsModel.BlockSpan
import BigtoolsModel.PyBase
import BigtoolsModel.Cache
import BigtoolsModel.WigSections
import BigtoolsModel.AtomsStep
/-! # C03 — bigWig range queries return exactly the overlapping values, clipped, in order

Property theorems (statements copied from the lemma modules, proofs by those lemmas). -/

namespace BBI
open RT CD

/-- **C01 for the model writer (little-endian, uncompressed): write, then read.** For every valid input (any
    number of chromosomes with distinct names, each with sorted, disjoint, non-empty values inside the
    chromosome), every `items_per_slot ≥ 1`, fan-out `≥ 2`, and whatever the writer puts in the zoom /
    summary areas: querying any chromosome `j` over any range on the written bytes returns exactly that
    chromosome's input values that strictly overlap the range, clipped to it, in order. -/
theorem C03_range_query_is_filter_and_clip (o : WOpts) (cs : List ChromIn) (h : ValidInput o cs) (j : Nat) (hj : j < cs.length)
    (qs qe : Nat) :
    ∃ fuel₀, ∀ fuel, fuel₀ ≤ fuel →
      getIntervalF fuel (fileOf o cs).bytes (cs[j].name.map UInt8.ofNat) qs qe =
        .ok (cs[j].vals.filterMap (keepClip qs qe)) :=
  wig_model_roundtrip o cs h j hj qs qe

end BBI

namespace RT

/-- **C03 (writer as found is enough for bigWig).** Values are disjoint and in order, so ends are sorted too. -/
theorem C03_query_through_index_candidates (ips : Nat) (chroms : List (Nat × List Item))
    (h : ∀ c ∈ chroms, StartSorted c.2 ∧ EndSorted c.2) (c s e : Nat) :
    queryVia (wigKeep s e) (wigClip s e) (candidates (fileBlocks false ips chroms) c s e) c =
      querySpec (wigKeep s e) (wigClip s e) (fileBlocks false ips chroms) c :=
  wig_query_complete ips chroms h c s e

end RT

namespace PYB

/-- **C03, `BigWigRead::values`.** For every range and every list of block values clipped to it, the array
    holds at base `start + i` the value of the last returned item covering it (the only one, values being
    disjoint) and `none` (NaN) where nothing covers it; no slice is out of bounds. -/
theorem C03_per_base_array (start : Int) (L : Nat) (items : List Item)
    (hclip : ∀ it ∈ items, start ≤ it.s ∧ it.s ≤ it.e ∧ (it.e : Int) ≤ start + L) :
    perBaseG assign false start (start + L) items =
      .ok ((List.range L).map fun i => (covering start items i).getLast?.map (·.w)) :=
  values_spec start L items hclip

end PYB

namespace CA
variable {K V : Type} [DecidableEq K]

/-- **Cache transparency over any history.** Starting from an empty cache, after any sequence of
    accesses every answer equals a fresh read — for every clearing limit. -/
theorem C03_cache_is_transparent_after_any_history (read : K → Option V) (limit : Option Nat) :
    ∀ (keys : List K) (c : Cache K V), Coherent read c →
      ∀ k, (access read limit (keys.foldl (fun c k => (access read limit c k).2) c) k).1 = read k :=
  history_transparent read limit

end CA

namespace BBI
open CD

theorem C03_bedgraph_section_query (l : List Nat) (o size chrom qs qe : Nat) (items : List Value) (hc : chrom < 256 ^ 4)
    (hn : items.length < 256 ^ 2) (hv : ∀ v ∈ items, ValueOK v) (h : Has l o (enc1 chrom items)) :
    wigBlock .little (srcOf l) ⟨o, size⟩ chrom qs qe = .ok (items.filterMap (keepClip qs qe)) :=
  decode1 l o size chrom qs qe items hc hn hv h

end BBI

namespace RT

/-- **The code's own pruning predicate.** `Gen.overlaps` is regenerated from the Rust source of `overlaps` (and of the
    functions it calls) in bbiread.rs on every run; for all arguments it is the `ov` with which the search theorems
    of bigWig range queries are stated. A change to the source that alters the predicate breaks this obligation. -/
theorem C03_source_overlaps_is_the_models_ov (q qs qe b1 b1s b2 b2e : Nat) :
    Gen.overlaps q qs qe b1 b1s b2 b2e = ov ⟨q, qs⟩ ⟨q, qe⟩ ⟨b1, b1s⟩ ⟨b2, b2e⟩ :=
  gen_overlaps_eq_ov q qs qe b1 b1s b2 b2e

end RT

namespace BBI
open CD

/-- **The code's own range filter and clipping, bigWig.** For each of the three section types the `if` condition of
    `get_block_values` that mentions both query bounds, and the two clipping assignments that follow it, are regenerated from
    bigwigread.rs on every run; together they are the `keepClip` with which the query theorems are stated. -/
theorem C03_source_filter_is_keepClip (qs qe : Nat) (v : Value) :
    ((if Gen.wig_keep_0 v.start v.stop qs qe
      then some { v with start := Gen.wig_clip_start_0 v.start v.stop qs qe, stop := Gen.wig_clip_end_0 v.start v.stop qs qe }
      else none) = keepClip qs qe v) ∧
    ((if Gen.wig_keep_1 v.start v.stop qs qe
      then some { v with start := Gen.wig_clip_start_1 v.start v.stop qs qe, stop := Gen.wig_clip_end_1 v.start v.stop qs qe }
      else none) = keepClip qs qe v) ∧
    ((if Gen.wig_keep_2 v.start v.stop qs qe
      then some { v with start := Gen.wig_clip_start_2 v.start v.stop qs qe, stop := Gen.wig_clip_end_2 v.start v.stop qs qe }
      else none) = keepClip qs qe v) :=
  ⟨gen_wig_filter_0 qs qe v, gen_wig_filter_1 qs qe v, gen_wig_filter_2 qs qe v⟩

end BBI

namespace StepSections

/-- **The code's own expansion of variable-step and fixed-step sections** (regenerated from `get_block_values`): item `i` of
    a fixed-step section is `[start + i·step, start + i·step + span)`, a variable-step item is `[s, s + span)` — the
    expansions the decode theorems are stated with. -/
theorem C03_source_step_sections (start step span i s : Nat) :
    fixedStart start step span i = start + i * step ∧ Gen.fixed_end (fixedStart start step span i) span step = start + i * step + span ∧
    Gen.var_end s span step = s + span := gen_step_items start step span i s

end StepSections

/-- **Tie to the source: every block of a well-formed file is fetched, however well it compresses** (bigWig range queries). The reader theorems
    take `inflate` as a total function; the real `zlib_decompress` fails when the block inflates to more than the buffer it is given.
    With the lengths `read_block_data` uses — regenerated from bbiread.rs on every run: `block.size` bytes read, a buffer of exactly
    the header's `uncompress_buf_size` — a block holding `deflate x` with `|x| ≤ uncompress_buf_size` (what both well-formedness
    judges require of every block) is fetched as `x`, for every codec and every compressed size; an uncompressed file's block is
    the bytes themselves. -/
theorem C03_source_block_fetch (z : BBI.Zlib) (ubs : Nat) (l x : List Nat) (off : Nat) (hx : x.length ≤ ubs) :
    (0 < ubs → BBI.Has l off (z.deflate x) → RB.fetch z ubs l ⟨off, (z.deflate x).length⟩ = some x) ∧
    (BBI.Has l off x → RB.fetch z 0 l ⟨off, x.length⟩ = some x) :=
  ⟨fun hu h => RB.fetch_compressed z ubs l x off hu hx h, fun h => RB.fetch_raw z l x off h⟩

/-- **Tie to the source: the byte-by-byte decoders** (bigWig range queries). The readers assemble every field of an index item (leaf: 32 bytes, non-leaf: 24)
    and of a bedGraph item (12 bytes) from explicitly listed bytes, once per byte order. The lists, regenerated from bbiread.rs and
    bigwigread.rs on every run, are the consecutive ranges of the format — four 32-bit fields, then the 64-bit offset and size; start,
    end, value — in both arms, each byte used exactly once: the layout the byte-level reader models decode. -/
theorem C03_source_item_decoders_take_their_own_bytes :
    Gen.bf_leaf = BF.bothArms BF.leafFields ∧ Gen.bf_nonleaf = BF.bothArms BF.nonLeafFields ∧
    Gen.bf_bedgraph_item = BF.bothArms BF.bedGraphFields ∧ ((BF.layout 0 BF.leafFields).flatMap (·.2)) = List.range 32 :=
  ⟨BF.gen_leaf_bytes, BF.gen_nonleaf_bytes, BF.gen_bedgraph_item_bytes, BF.leaf_arm_covers_the_item.1⟩

/-- **Tie to the source: the search's entry points.** The index is searched with the chromosome id stored in the chromosome tree (a file's
    ids need not follow the order of its names), nothing makes `search_cir_tree` answer before the index is walked (a query may lie
    beyond the declared chromosome length: bigBed entries may reach there), and every block the walk yields is collected (the walk is
    not cut after some number of nodes) — regenerated from bbiread.rs on every run. -/
theorem C03_source_search_entry_points (cid ix : Nat) :
    Gen.sc_chrom_id cid ix = cid ∧ Gen.sc_early_returns = [] ∧ Gen.sc_walk_adaptors = [] :=
  SC.gen_search_entry cid ix
