import BigtoolsModel.PyBase
import BigtoolsModel.PyBinsProof
import BigtoolsModel.PyBedBinsProof
import BigtoolsModel.PyArr
import BigtoolsModel.PyOob
import BigtoolsModel.OverlapsGen
import BigtoolsModel.PyBinsNoNan
import BigtoolsModel.ConvGen
/-! # C20 — Python-binding array routines compute the documented per-base and binned values

Property theorems (statements copied from the lemma modules, proofs by those lemmas). -/

namespace PYB

/-- **C20, per-base routines (repaired `to_entry_array`; `to_array` on the reader's clipped values).**
    For every range `[start, start+L)` and every list of items the reader can return for it, the routine
    does not panic and cell `i` holds the sum of the weights of the items covering base `start + i`
    (`none` = reported as `missing`) — the depth for bigBed entries (all weights 1). -/
theorem C20_per_base_array_is_value_or_depth (start : Int) (L : Nat) (items : List Item)
    (hr : ∀ it ∈ items, Reachable start (start + L) it) :
    perBase true start (start + L) items =
      .ok ((List.range L).map fun i =>
        if covering start items i = [] then none else some (wsum (covering start items i))) :=
  perBase_spec start L items hr

/-- **C03, `BigWigRead::values`.** For every range and every list of block values clipped to it, the array
    holds at base `start + i` the value of the last returned item covering it (the only one, values being
    disjoint) and `none` (NaN) where nothing covers it; no slice is out of bounds. -/
theorem C20_reader_values_array (start : Int) (L : Nat) (items : List Item)
    (hclip : ∀ it ∈ items, start ≤ it.s ∧ it.s ≤ it.e ∧ (it.e : Int) ≤ start + L) :
    perBaseG assign false start (start + L) items =
      .ok ((List.range L).map fun i => (covering start items i).getLast?.map (·.w)) :=
  values_spec start L items hclip

/-- as found, an entry reaching beyond the range end makes `to_entry_array` panic (D11) -/
theorem C20_entry_array_as_found_panics : perBase false 10 20 [⟨5, 15, 1⟩, ⟨10, 25, 1⟩] = .panic :=
  as_found_panics 

end PYB

namespace PBP

/-- **C20, exact bins of integral width (bigWig, repaired mean guard).** For every bin width `w > 0`, bin count
    `nb`, statistic, and every list of values in order, disjoint, non-empty and inside `[0, nb·w)`: the routine
    writes no bin out of bounds and bin `k` reports `flush` of the accumulation over exactly the values that
    overlap `[k·w, (k+1)·w)` — `Σ overlap·v / Σ overlap`, the minimum, or the maximum of those values — and
    `missing` when none does. -/
theorem C20_bigwig_exact_bins_of_integral_width (sm : Summary) (w nb : Nat) (hw : 0 < w) (vals : List Item) (hs : Sorted nb w 0 vals) :
    ∃ out, run sm w nb vals = some out ∧ out.length = nb ∧
      ∀ k, k < nb → out[k]? = some (flush sm (accSpec sm w vals k)) :=
  bins_spec sm w nb hw vals hs

theorem C20_mean_accumulation_is_overlap_weighted (w : Nat) (P : List Item) (k : Nat) :
    accSpec .mean w P k =
      if (P.filter fun x => decide (0 < ov w x.s x.e k)) = [] then none
      else some ⟨(P.map fun x => ov w x.s x.e k).sum, (P.map fun x => (ov w x.s x.e k : Int) * x.v).sum⟩ :=
  accSpec_mean w P k

end PBP

namespace PEB

/-- **C20, exact bins of integral width (bigBed, repaired).** For every bin width `w > 0`, bin count `nb`,
    statistic, and every list of entries sorted by start with ends inside `[0, nb·w]` — overlapping, nested,
    identical and empty-after-clipping entries allowed: the routine writes no bin out of bounds and bin `k`
    reports `flush` of the per-base depth of `[k·w, (k+1)·w)` (`depthVec_get`: the number of entries covering each
    base): mean, minimum or maximum over the covered bases, `missing` when none is covered. -/
theorem C20_bigbed_exact_bins_of_integral_width (sm : Summary) (w nb : Nat) (hw : 0 < w) (ents : List Ent) (hs : Sorted nb w 0 ents) :
    ∃ out, run sm w nb ents = some out ∧ out.length = nb ∧
      ∀ k, k < nb → out[k]? = some (flush sm (depthVec w ents k)) :=
  bed_bins_spec sm w nb hw ents hs

end PEB

namespace PY

/-- D11(a): range `[0,5)`, 2 bins, data `[2,3) = 1`: bin 0 is reported as 0/0 (the real code returned NaN) -/
theorem C20_mean_bin_as_found_is_nan : toArrayBinsMean 5 2 [(2, 3, 1)] = [(0, some (0, 0))] :=
  bins_mean_nan_as_found 

/-- D11(b'): an entry starting before the range is silently dropped -/
theorem C20_entry_array_as_found_drops_entries :
    toEntryArray 10 20 [(5, 15)] = .ok (List.replicate 10 none) ∧
    depthSpec 10 20 [(5, 15)] = [1, 1, 1, 1, 1, 0, 0, 0, 0, 0] :=
  entry_array_drops_as_found 

end PY

namespace PYO

/-- **Out-of-bounds fill.** The fill at the end of `intervals_to_array` / `entries_to_array`, in exact arithmetic, for every
    request (`a = −start`, `r = length − start`, `L = end − start > 0` bases, `n > 0` cells, any bin width, integral or not):
    a cell receives the out-of-bounds value exactly when the stretch of the request it stands for starts below position 0
    or reaches beyond the chromosome's end; every index written is below `n`. -/
theorem C20_out_of_bounds_fill (a r : Int) (L n k : Nat) (hL : 0 < L) (hk : k < n) :
    filled a r L n k = true ↔ (startsBelowZero a L n k ∨ reachesPastEnd r L n k) := oob_fill_spec a r L n k hL hk

/-- per-base arrays: position `start + k` is filled exactly when it is below 0 or at / beyond the chromosome length -/
theorem C20_out_of_bounds_fill_per_base (start len : Int) (L k : Nat) (hL : 0 < L) (hk : k < L) :
    filled (-start) (len - start) L L k = true ↔ (start + k < 0 ∨ start + k ≥ len) := oob_fill_per_base start len L k hL hk

end PYO

namespace RT

/-- **The code's own index-pruning predicate.** `Gen.overlaps` (regenerated from `overlaps` and the functions it calls in
    bbiread.rs on every run) is, for all arguments, the `ov` with which the search theorems are stated; `values()` fills its arrays from range and zoom queries over that index. -/
theorem C20_source_overlaps_is_the_models_ov (q qs qe b1 b1s b2 b2e : Nat) :
    Gen.overlaps q qs qe b1 b1s b2 b2e = ov ⟨q, qs⟩ ⟨q, qe⟩ ⟨b1, b1s⟩ ⟨b2, b2e⟩ :=
  gen_overlaps_eq_ov q qs qe b1 b1s b2 b2e

end RT

namespace PYN

/-- **Never NaN, never a write outside the array — for every bin width.** The model of `to_array_bins` (bigWig exact bins,
    repaired), for every request of `L > 0` bases in `nb > 0` bins — integral width or not —, every statistic and every list of
    values as the reader hands them over (non-empty after clipping to the request): the array has `nb` cells and each is
    `missing` or a quotient with a positive denominator. (Bin edges in exact arithmetic, `⌊k·L/nb⌋`; for integral widths that
    is what the f64 expressions compute and the real arrays are compared cell by cell; for other widths the real arrays are
    judged by the oracle for NaN and range.) As found, `values(0, 5, bins=2)` on `[2,3) = 1` gave `0/0` (D11). -/
theorem C20_bins_never_nan_for_any_width (sm : Summary) (start : Int) (L nb : Nat) (hnb : 0 < nb) (hL : 0 < L)
    (vals : List (Nat × Nat × Int)) (hc : Clipped start L vals) :
    (toArrayBins repaired sm start L nb vals).length = nb ∧ ∀ r ∈ toArrayBins repaired sm start L nb vals, Good r :=
  bins_no_nan sm start L nb hnb hL vals hc

end PYN

namespace PYN

/-- the bigBed twin (`to_entry_array_bins`, repaired): for every request, every bin width and EVERY list of entries —
    overlapping, nested, reaching outside the request or merely touching it — no NaN and no write outside the array -/
theorem C20_entry_bins_never_nan_for_any_width (sm : Summary) (m : Int) (start : Int) (L nb : Nat) (hnb : 0 < nb)
    (es : List (Nat × Nat)) :
    (toEntryArrayBins repaired sm m start L nb es).length = nb ∧ ∀ r ∈ toEntryArrayBins repaired sm m start L nb es, Good r :=
  entry_bins_no_nan sm m start L nb hnb es

end PYN


/-- **Tie to the source: the bin arithmetic is exact.** Every integer → float conversion in the four array routines of the Python
    bindings (regenerated from pybigtools/src/lib.rs on every run) goes to `f64`, which holds every 32-bit coordinate, offset, bin
    index and count exactly; the exact-integer bin borders of the theorems above are therefore the borders the code computes from.
    (What remains outside the theorem: the rounding of the `f64` quotient `(end − start) / bins` itself, for widths that are not
    integral — those requests are judged by the NaN / range oracle, see `C20_bins_never_nan_for_any_width`.) -/
theorem C20_source_conversions_are_exact (x : Nat) (h : x < 2 ^ 32) :
    (Gen.pyb_conv_to_array x ++ Gen.pyb_conv_to_array_bins x ++ Gen.pyb_conv_to_entry_array x ++
      Gen.pyb_conv_to_entry_array_bins x).all (· == x) = true :=
  PYC.gen_py_conversions_exact x h

/-- non-vacuity of the exactness claim: `f32` would not do — 2^24 + 1 is a legal coordinate that `f32` cannot hold -/
example : FR.f32 (2 ^ 24 + 1) ≠ 2 ^ 24 + 1 ∧ FR.f64 (2 ^ 24 + 1) = 2 ^ 24 + 1 := by decide
