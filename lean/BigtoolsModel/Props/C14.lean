import BigtoolsModel.IoOps
/-! # C14 — no partial file passes for a complete one; no I/O failure is reported as success

Models: the destination as a byte image under absolute-position writes (what the recording sink of the
harness logs: a `BufWriter` in front of it turns the writer's calls into these operations), and `IO14.BufW` —
the buffered writer with its flush-on-seek and its error-swallowing flush-on-drop. The readers reject an image
whose first four bytes are not a BBI magic number (`readHeader`), so "rejected" is "magic still zero". -/
namespace Props.C14

/-- write `bs` at absolute position `pos` (padding with zeros like a file) -/
def writeAt (mem : List Nat) (pos : Nat) (bs : List Nat) : List Nat := IO14.writeAt mem pos bs

/-- a write puts a non-zero byte into offsets 0..3 -/
def touchesMagic (w : Nat × List Nat) : Bool := decide (w.1 < 4) && (w.2.take (4 - w.1)).any (· ≠ 0)

def image (ws : List (Nat × List Nat)) : List Nat := ws.foldl (fun m w => writeAt m w.1 w.2) []

def magicZero (mem : List Nat) : Prop := ∀ i, i < 4 → mem.getD i 0 = 0

theorem getD_writeAt (mem bs : List Nat) (pos i : Nat) :
    (writeAt mem pos bs).getD i 0 =
      if pos ≤ i ∧ i < pos + bs.length then bs.getD (i - pos) 0 else mem.getD i 0 := by
  unfold writeAt IO14.writeAt
  simp only [List.getD_eq_getElem?_getD]
  by_cases h1 : i < pos
  · have : ¬ (pos ≤ i ∧ i < pos + bs.length) := by omega
    rw [if_neg this, List.getElem?_append_left (by simp; omega), List.getElem?_append_left (by simp; omega),
      List.getElem?_take_of_lt h1]
    by_cases h2 : i < mem.length
    · rw [List.getElem?_append_left h2]
    · rw [List.getElem?_append_right (by omega), List.getElem?_replicate]
      have : mem[i]? = none := List.getElem?_eq_none (by omega)
      simp [this]
      split <;> rfl
  · by_cases h3 : i < pos + bs.length
    · rw [if_pos ⟨by omega, h3⟩, List.getElem?_append_left (by simp; omega),
        List.getElem?_append_right (by simp; omega)]
      simp only [List.length_take, List.length_append, List.length_replicate]
      congr 2
      omega
    · have : ¬ (pos ≤ i ∧ i < pos + bs.length) := by omega
      rw [if_neg this, List.getElem?_append_right (by simp; omega)]
      simp only [List.length_append, List.length_take, List.length_replicate, List.getElem?_drop]
      have e : pos + bs.length + (i - (min pos (mem.length + (pos - mem.length)) + bs.length)) = i := by omega
      rw [e]
      by_cases h2 : i < mem.length
      · rw [List.getElem?_append_left h2]
      · rw [List.getElem?_append_right (by omega), List.getElem?_replicate]
        have : mem[i]? = none := List.getElem?_eq_none (by omega)
        simp [this]
        split <;> rfl

/-- **Rejected until the header arrives.** Whatever is written, at whatever positions and in whatever order
    (data, index, zoom levels, summary, seeks back and forth), as long as no write has put a non-zero byte into
    offsets 0..3 the image's magic number is zero — every such prefix is rejected by the readers. The check
    evaluates the hypothesis on the recorded operation log of every run. -/
theorem magic_zero_while_no_write_touches_it (ws : List (Nat × List Nat))
    (h : ∀ w ∈ ws, touchesMagic w = false) : magicZero (image ws) := by
  suffices H : ∀ (ws : List (Nat × List Nat)) (m : List Nat), (∀ w ∈ ws, touchesMagic w = false) → magicZero m →
      magicZero (ws.foldl (fun m w => writeAt m w.1 w.2) m) from
    H ws [] h (by intro i _; simp)
  intro ws
  induction ws with
  | nil => intro m _ hm; exact hm
  | cons w rest ih =>
    intro m hw hm
    simp only [List.foldl_cons]
    apply ih _ (fun x hx => hw x (by simp [hx]))
    intro i hi
    rw [getD_writeAt]
    split
    · rename_i hin
      have ht := hw w (by simp)
      simp only [touchesMagic, Bool.and_eq_false_iff, decide_eq_false_iff_not, List.any_eq_false] at ht
      rcases ht with ht | ht
      · omega
      · by_cases hlt : i - w.1 < w.2.length
        · have hmem : w.2[i - w.1] ∈ w.2.take (4 - w.1) := by
            rw [List.mem_take_iff_getElem]
            exact ⟨i - w.1, by omega, rfl⟩
          have := ht _ hmem
          simp only [ne_eq, decide_not, Bool.not_eq_true', decide_eq_false_iff_not, Decidable.not_not] at this
          rw [List.getD_eq_getElem?_getD, List.getElem?_eq_getElem hlt]
          simpa using this
        · omega
    · exact hm i hi

/-- The sequential phase of the writer (blank header first, then only appending writes): the statement of the
    design round, kept as a corollary. -/
theorem magic_zero_until_header (n0 : Nat) (h0 : 4 ≤ n0) (ops : List IO14.Op) (hs : IO14.Sequential ops) (n : Nat) :
    (IO14.run { mem := [], pos := 0 } (.seek 0 :: .write (List.replicate n0 0) :: ops.take n)).mem.take 4 = [0, 0, 0, 0] :=
  IO14.magic_zero_until_header n0 h0 ops hs n

/-- A buffered writer whose program ends in an explicit flush reports a failing destination: success implies
    that no destination operation failed. -/
theorem explicit_flush_reports_failure (prog : List IO14.Cmd) (failAt : Nat) :
    (IO14.outcome (prog ++ [.flush]) failAt).1 = true → (IO14.outcome (prog ++ [.flush]) failAt).2 = false :=
  IO14.explicit_flush_reports prog failAt

/-- D9 (code as found): bytes flushed only by `BufWriter`'s drop hide the failure — seek + 4-byte write, the
    destination fails at its 2nd operation, the caller sees success. -/
theorem drop_flush_hides_failure_as_found : IO14.outcome [.seek, .write 4] 2 = (true, true) :=
  IO14.drop_flush_hides_failure

example : magicZero (image [(0, List.replicate 304 0), (304, [1, 2, 3]), (2, [0, 0, 7])]) :=
  magic_zero_while_no_write_touches_it _ (by decide)

end Props.C14
