import BigtoolsModel.MergePost
import BigtoolsModel.Fill
import BigtoolsModel.Generated.Consts
import BigtoolsModel.OverlapsGen
/-! # C15 — merging and gap-filling value streams preserve the per-base signal

Models: `MG.merge W` = `merge_sections_many` (`ValueIter::next`: work windows of `W` bases — 50,000 in the code —
per-base accumulation, run-length re-encoding with zero suppression, last run held back), `MG.post` =
the clip / adjust / threshold stage of `MergingValues::new`, `FL.fillStartToEnd` = `fill_start_to_end`.
Values are integers (exact arithmetic; the correspondence drives the code with exactly representable values). -/
namespace Props.C15

/-- For every window size `W > 0` and any number of sorted non-overlapping streams: at every base the merged
    output carries the sum of the inputs' values at that base, and nothing where that sum is zero. -/
theorem merge_is_per_base_sum (W : Nat) (hW : 0 < W) (streams : List (List MG.Val)) (hs : MG.AllSorted streams) (p : Nat) :
    MG.sumAt (MG.merge W streams) p = MG.total streams p :=
  MG.merge_spec W hW streams hs p

/-- the per-base total of a set of streams does not depend on the order in which the streams are given -/
theorem total_perm (a b : List (List MG.Val)) (h : a.Perm b) (p : Nat) : MG.total a p = MG.total b p := by
  induction h with
  | nil => rfl
  | cons x _ ih => simp only [MG.total, ih]
  | swap x y l => simp only [MG.total]; omega
  | trans _ _ ih₁ ih₂ => rw [ih₁, ih₂]

/-- **The merged signal depends neither on the order of the input files nor on the window size**: the same sorted streams
    given in any two orders, merged with any two window sizes, carry the same value at every base. -/
theorem merge_signal_independent_of_input_order_and_window (W₁ W₂ : Nat) (h₁ : 0 < W₁) (h₂ : 0 < W₂)
    (a b : List (List MG.Val)) (hp : a.Perm b) (hs : MG.AllSorted a) (p : Nat) :
    MG.sumAt (MG.merge W₁ a) p = MG.sumAt (MG.merge W₂ b) p := by
  rw [MG.merge_spec W₁ h₁ a hs p, MG.merge_spec W₂ h₂ b (fun l hl => hs l (hp.mem_iff.mpr hl)) p, total_perm a b hp p]

/-- The merged output is in order, non-overlapping, every item non-empty with a non-zero value. -/
theorem merge_output_sorted_disjoint (W : Nat) (streams : List (List MG.Val)) : MG.SortedOut 0 (MG.merge W streams) :=
  MG.merge_sorted W streams

/-- Gap filling: gapless tiling from `start`, keeps every input value in order, adds only zeros, ends at the
    farther of the input's end and the requested end. -/
theorem fill_is_gapless_and_adds_only_zeros (xs : List FL.Val) (start stop : Nat) (h : FL.Sorted start xs) :
    FL.Tiled start (FL.fillStartToEnd xs start stop) ∧
    xs.Sublist (FL.fillStartToEnd xs start stop) ∧
    (∀ y ∈ FL.fillStartToEnd xs start stop, y ∈ xs ∨ y.v = 0) ∧
    FL.endOf start (FL.fillStartToEnd xs start stop) = max (FL.endOf start xs) stop :=
  FL.fill_spec xs start stop h

/-- The merge tool's stream, per base, for every clip / adjust / threshold setting. -/
theorem tool_applies_clip_adjust_threshold_per_base (W : Nat) (hW : 0 < W) (streams : List (List MG.Val))
    (hs : MG.AllSorted streams) (clip : Option Int) (adj thr : Int) (p : Nat) :
    MG.sumAt (MG.post clip adj thr (MG.merge W streams)) p = MG.postAt clip adj thr (MG.total streams p) :=
  MG.merge_tool_spec W hW streams hs clip adj thr p

/-! ## the range the tool reads per chromosome, and the output names it accepts -/

/-- the reader's strict filter and clip for a query `[qs, qe)` (C03), as the tool applies it to every input -/
def queried (qs qe : Nat) (vals : List MG.Val) : List MG.Val :=
  vals.filterMap fun x => if x.e > qs ∧ x.s < qe then some ⟨max x.s qs, min x.e qe, x.v⟩ else none

/-- Reading `[0, len)` (the repaired tool) hands the merger every stored value unchanged: every base of every
    chromosome from position 0 is covered. -/
theorem tool_reads_every_base_from_zero (len : Nat) (vals : List MG.Val)
    (h : ∀ x ∈ vals, x.s < x.e ∧ x.e ≤ len) : queried 0 len vals = vals := by
  induction vals with
  | nil => rfl
  | cons x xs ih =>
    have hx := h x (by simp)
    have := ih (fun y hy => h y (by simp [hy]))
    simp only [queried, List.filterMap_cons] at this ⊢
    have h1 : x.e > 0 ∧ x.s < len := by omega
    simp only [h1, and_self, if_true]
    rw [this]
    congr 1
    cases x with
    | mk s e v => simp only at hx ⊢; congr 1 <;> omega

/-- The tool as found read `[1, len)`: a value covering base 0 loses it (D10). -/
theorem tool_as_found_loses_base_zero : queried 1 100 [⟨0, 10, 5⟩] = [⟨1, 10, 5⟩] := by decide

/-- ASCII lower-casing of a name, and the suffix test of the output-type detection -/
def lowerAscii (s : List Nat) : List Nat := s.map fun c => if 65 ≤ c ∧ c ≤ 90 then c + 32 else c
def endsWith (s suf : List Nat) : Bool := s.drop (s.length - suf.length) == suf

inductive OutType where | bigWig | bedGraph | refused deriving DecidableEq, Repr

/-- `suffixes` are the three literals the code compares the lower-cased output name with -/
def detect (bw bigwig bedgraph : List Nat) (name : List Nat) : OutType :=
  let n := lowerAscii name
  if endsWith n bw || endsWith n bigwig then .bigWig else if endsWith n bedgraph then .bedGraph else .refused

def sBw : List Nat := [46, 98, 119]                                   -- ".bw"
def sBigWigLower : List Nat := [46, 98, 105, 103, 119, 105, 103]       -- ".bigwig"
def sBedGraphLower : List Nat := [46, 98, 101, 100, 103, 114, 97, 112, 104]   -- ".bedgraph"
def sBigWigMixed : List Nat := [46, 98, 105, 103, 87, 105, 103]        -- ".bigWig"
def sBedGraphMixed : List Nat := [46, 98, 101, 100, 71, 114, 97, 112, 104]    -- ".bedGraph"

theorem endsWith_append (a b suf : List Nat) (h : suf.length ≤ b.length) :
    endsWith (a ++ b) suf = endsWith b suf := by
  unfold endsWith
  have e : (a ++ b).length - suf.length = a.length + (b.length - suf.length) := by
    simp only [List.length_append]; omega
  rw [e, ← List.drop_drop, List.drop_left]

theorem lowerAscii_append (a b : List Nat) : lowerAscii (a ++ b) = lowerAscii a ++ lowerAscii b := by
  simp [lowerAscii]

/-- With lower-case literals (the repaired tool) every documented spelling is accepted, whatever precedes it. -/
theorem documented_output_names_accepted (stem : List Nat) :
    detect sBw sBigWigLower sBedGraphLower (stem ++ sBw) = .bigWig ∧
    detect sBw sBigWigLower sBedGraphLower (stem ++ sBigWigMixed) = .bigWig ∧
    detect sBw sBigWigLower sBedGraphLower (stem ++ sBedGraphMixed) = .bedGraph := by
  refine ⟨?_, ?_, ?_⟩
  · simp only [detect, lowerAscii_append]
    rw [endsWith_append _ _ sBw (by decide)]
    have : endsWith (lowerAscii sBw) sBw = true := by decide
    simp [this]
  · simp only [detect, lowerAscii_append]
    rw [endsWith_append _ _ sBw (by decide), endsWith_append _ _ sBigWigLower (by decide)]
    have : endsWith (lowerAscii sBigWigMixed) sBigWigLower = true := by decide
    simp [this]
  · simp only [detect, lowerAscii_append]
    rw [endsWith_append _ _ sBw (by decide), endsWith_append _ _ sBigWigLower (by decide),
      endsWith_append _ _ sBedGraphLower (by decide)]
    have h1 : endsWith (lowerAscii sBedGraphMixed) sBw = false := by decide
    have h2 : endsWith (lowerAscii sBedGraphMixed) sBigWigLower = false := by decide
    have h3 : endsWith (lowerAscii sBedGraphMixed) sBedGraphLower = true := by decide
    simp [h1, h2, h3]

/-- With the mixed-case literals of the code as found, `out.bigWig` and `out.bedGraph` are refused (D10). -/
theorem mixed_case_literals_refuse_documented_names :
    detect sBw sBigWigMixed sBedGraphMixed ([111, 117, 116] ++ sBigWigMixed) = .refused ∧
    detect sBw sBigWigMixed sBedGraphMixed ([111, 117, 116] ++ sBedGraphMixed) = .refused := by decide

/-- The literals and the query start of the CURRENT source (re-extracted on every run) are the repaired ones:
    so `documented_output_names_accepted` and `tool_reads_every_base_from_zero` speak about the code as it is. -/
theorem source_uses_lower_case_suffixes_and_reads_from_zero :
    Gen.MERGE_SUFFIX_BW = sBw ∧ Gen.MERGE_SUFFIX_BIGWIG = sBigWigLower ∧ Gen.MERGE_SUFFIX_BEDGRAPH = sBedGraphLower ∧
    Gen.MERGE_QUERY_START = 0 := by decide

/-- the work-window size of the current source is positive, so `merge_is_per_base_sum` applies to it -/
theorem source_window_positive : 0 < Gen.DATA_SIZE := by decide

/-- a run is cut where a work window ends (`W = 4`): the stream stays correct per base, runs need not be maximal -/
example : MG.merge 4 [[⟨0, 6, 1⟩], [⟨3, 9, 2⟩]] = [⟨0, 3, 1⟩, ⟨3, 4, 3⟩, ⟨4, 6, 3⟩, ⟨6, 8, 2⟩, ⟨8, 9, 2⟩] := by decide

end Props.C15

namespace RT

/-- **The code's own index-pruning predicate.** `Gen.overlaps` (regenerated from `overlaps` and the functions it calls in
    bbiread.rs on every run) is, for all arguments, the `ov` with which the search theorems are stated; the merge tool reads every input through range queries over that index. -/
theorem C15_source_overlaps_is_the_models_ov (q qs qe b1 b1s b2 b2e : Nat) :
    Gen.overlaps q qs qe b1 b1s b2 b2e = ov ⟨q, qs⟩ ⟨q, qe⟩ ⟨b1, b1s⟩ ⟨b2, b2e⟩ :=
  gen_overlaps_eq_ov q qs qe b1 b1s b2 b2e

end RT
