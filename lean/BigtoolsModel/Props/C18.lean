import BigtoolsModel.FView
import BigtoolsModel.ChunkLines
import BigtoolsModel.IndexerProof
import BigtoolsModel.AtomsFView
import BigtoolsModel.AtomsIX
import BigtoolsModel.AtomsCH
/-! # C18 — slicing a text input for parallel work loses nothing and reorders nothing

Models: `FView.stepView` (`FileView::read` / `seek`), `CH.split` (`split_file_into_chunks_by_size`),
`IXP.found` (the bisection of `index_chroms` over the file's list of line starts; the literal transcription
`IX.doIndexFixed` used by the driver is tested equal to it on 599,844 small files). -/
namespace Props.C18

/-! ## (b) a view onto a byte range behaves like that range in isolation, for every sequence of operations -/

open FView in
/-- run a sequence of operations on the view, collecting the outputs (stops at a panic) -/
def runView (file : List Nat) : View → List Op → List Out
  | _, [] => []
  | v, op :: ops => let r := stepView true file v op; r.2 :: runView file r.1 ops

open FView in
/-- the same on the isolated slice with clamping seeks -/
def runSpec (slice : List Nat) : Nat → List Op → List Out
  | _, [] => []
  | pos, op :: ops => let r := stepSpec slice pos op; r.2 :: runSpec slice r.1 ops

open FView in
theorem fileview_refines_slice (file : List Nat) (ops : List Op) :
    ∀ (v : View) (pos : Nat), Rel file v pos → runView file v ops = runSpec (sliceOf file v) pos ops := by
  induction ops with
  | nil => intros; rfl
  | cons op ops ih =>
    intro v pos h
    have hs := step_refines file v pos op h
    simp only [runView, runSpec]
    generalize hv : stepView true file v op = rv at hs
    generalize hp : stepSpec (sliceOf file v) pos op = rp at hs
    obtain ⟨v', o⟩ := rv
    obtain ⟨pos', o'⟩ := rp
    simp only at hs
    obtain ⟨ho, hrel, hlo, hhi⟩ := hs
    have hsl : sliceOf file v' = sliceOf file v := by simp [sliceOf, hlo, hhi]
    simp only [ho]
    rw [ih v' pos' hrel, hsl]

open FView in
/-- for every window `[a, b)` inside the file: a freshly opened view is related to position 0 of the slice,
    so every operation sequence gives the outputs of the isolated range (and in particular never panics) -/
theorem fileview_from_start (file : List Nat) (a b : Nat) (hab : a ≤ b) (hb : b ≤ file.length) (ops : List Op) :
    runView file ⟨a, b, a⟩ ops = runSpec ((file.drop a).take (b - a)) 0 ops :=
  fileview_refines_slice file ops ⟨a, b, a⟩ 0 ⟨hab, hb, rfl, hab⟩

open FView in
example : runView (List.range 20) ⟨5, 15, 5⟩ [.seek (.fromEnd (-12)), .read 3] = [.pos 0, .bytes [5, 6, 7]] := by decide

/-! ## (c) size-based chunking -/

/-- chunks start at 0, are contiguous, end at the file size, and every cut is a line start; the chunker
    terminates (the model's fuel `size + 1` is never exhausted: `Good` excludes the empty result) -/
theorem chunks_cover_exactly_once_at_line_starts (ls : List Nat) (hl : CH.Lines ls) (chunks : Nat) (hc : 1 ≤ chunks) :
    CH.Good ls 0 (CH.split ls chunks) :=
  CH.split_good ls hl chunks hc

/-- reading the chunks one after the other yields line 0, 1, 2, … of the file, each exactly once:
    the parallel paths see the record stream of the serial path -/
theorem chunks_partition_lines (ls : List Nat) (hl : CH.Lines ls) (chunks : Nat) (hc : 1 ≤ chunks) :
    (CH.split ls chunks).flatMap (fun c => CH.linesIn 0 0 ls c.1 c.2) = List.range ls.length :=
  CH.chunks_partition_lines ls hl chunks hc

example : CH.split [10, 10, 100, 10] 3 = [(0, 120), (120, 130)] := by decide

/-- **The record stream does not depend on the number of chunks** (the thread count of the parallel converters): for any two
    requested chunk counts — 1 is the serial reading — the lines read chunk after chunk are the same lines in the same order. -/
theorem chunk_count_does_not_change_the_lines (ls : List Nat) (hl : CH.Lines ls) (c₁ c₂ : Nat) (h₁ : 1 ≤ c₁) (h₂ : 1 ≤ c₂) :
    (CH.split ls c₁).flatMap (fun c => CH.linesIn 0 0 ls c.1 c.2) = (CH.split ls c₂).flatMap (fun c => CH.linesIn 0 0 ls c.1 c.2) := by
  rw [CH.chunks_partition_lines ls hl c₁ h₁, CH.chunks_partition_lines ls hl c₂ h₂]

/-- Non-vacuity: the same four lines cut into one, two and three chunks (different cuts, same lines). -/
example : CH.split [10, 10, 100, 10] 1 ≠ CH.split [10, 10, 100, 10] 3 ∧
    (CH.split [10, 10, 100, 10] 1).flatMap (fun c => CH.linesIn 0 0 [10, 10, 100, 10] c.1 c.2) = [0, 1, 2, 3] ∧
    (CH.split [10, 10, 100, 10] 3).flatMap (fun c => CH.linesIn 0 0 [10, 10, 100, 10] c.1 c.2) = [0, 1, 2, 3] := by decide

/-! ## (a) the chromosome index -/

/-- For every grouped file, whenever the bisection returns, its result (after `dedup_by_key`) is exactly the
    first line of every chromosome run, in order. -/
theorem index_is_first_line_of_every_run (x : IXP.Line) (xs : List IXP.Line) (hinc : IXP.Inc (x :: xs))
    (hg : IXP.Grouped (x :: xs)) (fuel fsize : Nat) (hsize : ∀ e ∈ x :: xs, e.1 < fsize) (R : List IXP.Line)
    (h : IXP.found (x :: xs) fuel x.1 x.2 none fsize = some R) :
    IXP.dedupGo none (x :: R) = IXP.runStartsOf (x :: xs) :=
  IXP.index_spec x xs hinc hg fuel fsize hsize R h

/-- non-vacuity and the two shapes the code as found got wrong: a two-line file, and a long line hiding a run -/
example : (IXP.found [(0, 1), (10, 2)] 50 0 1 none 20).map (IXP.dedupGo none ∘ ((0, 1) :: ·)) = some [(0, 1), (10, 2)] := by
  decide
example : (IXP.found [(0, 1), (10, 1), (20, 2), (30, 2), (130, 3)] 50 0 1 none 140).map (IXP.dedupGo none ∘ ((0, 1) :: ·))
    = some [(0, 1), (20, 2), (130, 3)] := by decide

end Props.C18

namespace FView

/-- **The code's own read and seek arithmetic** (`file_view.rs`, regenerated from the source on every run): a step of the view
    assembled from those expressions — read length, the three seek targets with their clamps, the position reported back, the
    `End` arm's assertion — is the model's `stepView`, for every file, window, position and operation.
    `fileview_refines_slice` is about `stepView`. -/
theorem C18_source_fileview_step_is_the_models (file : List Nat) (v : View) (op : Op) (hw : v.lo ≤ v.hi) :
    stepViewGen file v op = stepView true file v op := gen_fileview_step file v op hw

end FView

namespace IX

/-- **The code's own bisection arithmetic** (`do_index` in bed/indexer.rs, regenerated from the source): the stop test, the probe
    position, the test "no line starts between the probe and the limit" and the upper bounds passed to the three recursive
    calls, put into the model's recursion, give exactly the model's repaired bisection — the function
    `index_is_first_line_of_every_run` is about. -/
theorem C18_source_bisection_is_the_models (f : File) (fuel : Nat) (st : St) (prevId : Nat) (nextId : Option Nat) (hi : Nat) :
    doIndexGen f fuel st prevId nextId hi = doIndexFixed f fuel st prevId nextId hi :=
  gen_index_bisection f fuel st prevId nextId hi

end IX

namespace CH

/-- **The code's own chunking arithmetic** (`split_file_into_chunks_by_size`, regenerated from the source): chunk size, first cut
    target, the tuple update after a cut, the clamp to the file size and the exit test, put into the model's loop, give exactly
    the model's `split` — the function the chunking theorems are about. -/
theorem C18_source_chunker_is_the_models (ls : List Nat) (chunks : Nat) : splitGen ls chunks = split ls chunks :=
  gen_chunker ls chunks

end CH

