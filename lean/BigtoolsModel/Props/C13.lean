import BigtoolsModel.Validate
import BigtoolsModel.ValidateGen
import BigtoolsModel.Tiler2
import BigtoolsModel.RTBuild
import BigtoolsModel.BuildEmpty
import BigtoolsModel.AutoSqlTotal
/-! # C13 — unrepresentable input is refused with an error, and every write call terminates

Property theorems (statements copied from the lemma modules, proofs by those lemmas). -/

namespace VL

/-- **Refusal.** If any run of the stream has an unknown chromosome, or contains an item violating a
    precondition — at any position of any run — the write is refused (whatever else is wrong earlier
    only changes which error is reported). -/
theorem C13_any_defective_item_or_unknown_chromosome_is_refused (bed allowOOO : Bool) (sizes : Nat → Option Nat) (le : Nat → Nat → Bool) :
    ∀ (stream : List (Nat × List Item)) (prev : Option Nat) (seen : List Nat),
      (∃ r ∈ stream, sizes r.1 = none ∨ ∃ len, sizes r.1 = some len ∧ BadItem bed len r.2) →
      (runs bed allowOOO sizes le prev seen stream).isSome :=
  refuses bed allowOOO sizes le

theorem C13_empty_input_is_refused (bed allowOOO : Bool) (sizes : Nat → Option Nat) (le : Nat → Nat → Bool) :
    write bed allowOOO sizes le [] = some .empty :=
  refuses_empty bed allowOOO sizes le

/-- chromosome order: with sorted input required, a run whose name is not greater than its predecessor's
    is refused (if nothing earlier already was) -/
theorem C13_chromosome_order_is_enforced (bed : Bool) (sizes : Nat → Option Nat) (le : Nat → Nat → Bool)
    (p c : Nat) (items : List Item) (rest : List (Nat × List Item)) (seen : List Nat) (h : le c p = true) :
    runs bed false sizes le (some p) seen ((c, items) :: rest) = some .notSorted :=
  refuses_chrom_order bed sizes le p c items rest seen h

/-- **input that is not grouped**: a chromosome with two runs anywhere in the stream is refused, in every sort mode (D23: as
    found, with chromosome order not required, such input was accepted and made the two-pass writer panic) -/
theorem C13_input_not_grouped_is_refused (bed allowOOO : Bool) (sizes : Nat → Option Nat) (le : Nat → Nat → Bool)
    (pre mid post : List (Nat × List Item)) (c : Nat) (i1 i2 : List Item) (prev : Option Nat) (seen : List Nat) :
    (runs bed allowOOO sizes le prev seen (pre ++ (c, i1) :: (mid ++ (c, i2) :: post))).isSome :=
  refuses_repeated_chromosome bed allowOOO sizes le pre mid post c i1 i2 prev seen

/-- acceptance: a stream of known chromosomes, each with one run, whose items satisfy every precondition is accepted -/
theorem C13_valid_streams_are_accepted (bed allowOOO : Bool) (sizes : Nat → Option Nat) (le : Nat → Nat → Bool) :
    ∀ (stream : List (Nat × List Item)) (prev : Option Nat) (seen : List Nat),
      (∀ r ∈ stream, ∃ len, sizes r.1 = some len ∧ checkChrom bed len r.2 = true) →
      (stream.map (·.1)).Nodup → (∀ r ∈ stream, r.1 ∉ seen) →
      allowOOO = true →
      runs bed allowOOO sizes le prev seen stream = none :=
  accepts bed allowOOO sizes le

end VL

namespace Tiler2

/-- the repaired tiler never runs out of the fuel the model gives it -/
theorem C13_zoom_tiler_terminates (size : Nat) (hsize : 0 < size) (vals : List Val)
    (hpw : vals.Pairwise (fun p q => p.e ≤ q.s)) (hse : ∀ p ∈ vals, p.s ≤ p.e) :
    (run repaired size vals).isSome :=
  run_total size hsize vals hpw hse

end Tiler2

namespace RT

/-- **Builder + search, repaired span rule:** for every fan-out `b ≥ 2` and every non-empty list of
    sections sorted by start, the builder terminates and searching the tree it builds returns exactly
    the sections a linear scan with the code's `overlaps` returns, in order. -/
theorem C13_index_builder_terminates_on_nonempty_levels (b : Nat) (hb : 2 ≤ b) (secs : List Sec) (hne : secs ≠ []) (hs : LoSorted secs) :
    ∃ t, build true b secs = some t ∧
      ∀ qlo qhi, search qlo qhi t = secs.filter (fun s => ov qlo qhi s.lo s.hi) :=
  build_search b hb secs hne hs

/-- **D4: the builder as found never terminates on an empty level** (a zoom level without records, or a file
    whose only items are zero-length). -/
theorem C13_index_builder_diverges_on_empty_level_as_found (fixed : Bool) (b : Nat) : ∀ fuel, buildLoop fixed b fuel [] = none :=
  buildLoop_empty_diverges fixed b

end RT

namespace ASN

/-- **The repaired autoSql parser is total.** For every input (any code points, any character
    classification) parsing returns declarations or a parse error; it never exhausts the fuel the model
    gives it — every loop of the parser consumes input. -/
theorem C13_autosql_parser_terminates (cc : CC) (s : List Nat) : parseAutosql cc true s ≠ .error .outOfFuel :=
  parse_total cc s

end ASN

namespace VL

/-- **The code's own preconditions.** Every `if <cond> { return Err(` of `process_val` in bigwigwrite.rs and bigbedwrite.rs is
    regenerated from the source on every run; split into the conditions on the value alone and those involving the look-ahead
    value, they are exactly the `check` with which refusal and acceptance above are stated. -/
theorem C13_source_preconditions_are_the_models_check (len : Nat) (cur n : Item) :
    check false len cur none = (!Gen.wig_refuse_alone cur.s cur.e len) ∧
    check false len cur (some n) = (!(Gen.wig_refuse_alone cur.s cur.e len || Gen.wig_refuse_next cur.s cur.e len n.s n.e)) ∧
    check true len cur none = (!Gen.bed_refuse_alone cur.s cur.e len) ∧
    check true len cur (some n) = (!(Gen.bed_refuse_alone cur.s cur.e len || Gen.bed_refuse_next cur.s cur.e len n.s n.e)) :=
  ⟨gen_wig_check_alone len cur, gen_wig_check_next len cur n, gen_bed_check_alone len cur, gen_bed_check_next len cur n⟩

end VL
