import BigtoolsModel.WfIndex
import BigtoolsModel.CheckedFile
import BigtoolsModel.CheckedBed
import BigtoolsModel.FileOf
import BigtoolsModel.FileOfBed
import BigtoolsModel.WriterSections
import BigtoolsModel.AtomsCut
/-! # C09 — every written file is a well-formed BBI file for an independent decoder

Property theorems (statements copied from the lemma modules, proofs by those lemmas). -/

namespace BBI
open RT

/-- **Checker soundness.** -/
theorem C09_accepted_index_is_laid_out_with_covering_spans (e : Endian) (s : Src) (bs : Nat) : ∀ (fuel off : Nat) (expect : Option Span) (t : T),
    walk e s bs fuel off expect = .ok t → Sound e s off expect t :=
  walk_sound e s bs

/-- **C09/C10: accepted index ⇒ the reader answers like a linear scan.** For any byte image, either byte order:
    if the checker accepts the index rooted at `off` and returns `t`, the reader's explicit-stack search over
    the same bytes returns, for every query, exactly the blocks of the leaf entries of `t` (in file order)
    that overlap it. -/
theorem C09_accepted_index_search_eq_scan (e : Endian) (s : Src) (bs fuel off : Nat) (expect : Option Span) (t : T)
    (h : walk e s bs fuel off expect = .ok t) (qc qs qe : Nat) :
    searchCir e s 24 qc qs qe (visited ⟨qc, qs⟩ ⟨qc, qe⟩ t + 1) [off] [] =
      .ok (blocksOf ((leaves t).filter fun x => ov ⟨qc, qs⟩ ⟨qc, qe⟩ x.lo x.hi)) :=
  checked_index_search e s bs fuel off expect t h qc qs qe

/-- **C09/C10: an accepted file is read as decoded.** -/
theorem C09_accepted_bigwig_reads_as_decoded (l : List Nat) (bs fuel off : Nat) (expect : Option Span) (t : T)
    (hwalk : walk .little (srcOf l) bs fuel off expect = .ok t)
    (hblocks : ∀ x ∈ leaves t, ∃ items, checkBlock l x = some items) (c qs qe : Nat) :
    ∃ fuel' blocks, searchCir .little (srcOf l) 24 c qs qe fuel' [off] [] = .ok blocks ∧
      goBlocks l c qs qe blocks =
        .ok ((((leaves t).filter fun x => x.lo.c = c).flatMap (itemsOf l)).filterMap (keepClip qs qe)) :=
  checked_query l bs fuel off expect t hwalk hblocks c qs qe

end BBI

namespace BBI
open RT CD

/-- **C09/C10 (bigBed): an accepted file is read as decoded; the chromosome assertion cannot fire.** -/
theorem C09_accepted_bigbed_reads_as_decoded (l : List Nat) (bs fuel off : Nat) (expect : Option Span) (t : T)
    (hwalk : walk .little (srcOf l) bs fuel off expect = .ok t)
    (hblocks : ∀ x ∈ leaves t, ∃ items, checkBedLeaf l x = some items) (c qs qe : Nat) :
    ∃ fuel' blocks, searchCir .little (srcOf l) 24 c qs qe fuel' [off] [] = .ok blocks ∧
      goBedBlocks l c qs qe blocks =
        .ok ((((leaves t).filter fun x => x.lo.c = c).flatMap (bedItemsOf l)).filter (bedKeep qs qe)) :=
  checked_bed_query l bs fuel off expect t hwalk hblocks c qs qe

theorem C09_model_writer_output_is_valid (o : WOpts) (cs : List ChromIn) (h : ValidInput o cs) : (fileOf o cs).Valid :=
  fileOf_valid o cs h

theorem C09_model_bed_writer_output_is_valid (o : BOpts) (cs : List ChromBedIn) (h : ValidBedInput o cs) : (bedFileOf o cs).Valid :=
  bedFileOf_valid o cs h

end BBI

namespace BW

/-- byte-level writer model (compared byte for byte with the real files): every bigBed data block holds at most the
    advertised `items_per_slot` entries … -/
theorem C09_model_bed_blocks_hold_at_most_items_per_slot (ips chrom fuel : Nat) (items : List BedE) :
    ∀ s ∈ cutBedSections ips chrom fuel items, ∃ blk : List BedE, blk.length ≤ ips ∧ s = encBedSection chrom blk :=
  cutBedSections_block_sizes ips chrom fuel items

/-- … and the blocks of a chromosome, concatenated, are the encoding of its entries in input order -/
theorem C09_model_bed_blocks_carry_the_entry_stream (ips chrom : Nat) (hips : 0 < ips) (items : List BedE) :
    (cutBedSections ips chrom (items.length + 1) items).flatMap (·.bytes) = items.flatMap (encBedE chrom) :=
  cutBedSections_bytes ips chrom hips _ items (by omega)

end BW

namespace SectionCut

/-- **The code's own section cut** (regenerated from `process_val` of both writers): a data section is handed over after the
    chromosome's last item or when it holds `min items_per_slot 65535` items — so no section ever holds more items than its
    16-bit count field can express (D22), whatever `items_per_slot` is. -/
theorem C09_source_section_cut (isLast : Bool) (n ips : Nat) :
    Gen.wig_cut isLast n ips = (isLast || decide (n ≥ min ips 65535)) ∧
    Gen.bed_cut isLast n ips = (isLast || decide (n ≥ min ips 65535)) ∧
    (n ≥ 65535 → Gen.wig_cut isLast n ips = true ∧ Gen.bed_cut isLast n ips = true) :=
  ⟨(gen_cut isLast n ips).1, (gen_cut isLast n ips).2, gen_cut_fits_u16 isLast n ips⟩

end SectionCut
