import BigtoolsModel.AtomsSearch
import BigtoolsModel.AtomsBytes
import BigtoolsModel.RTBuild
import BigtoolsModel.OverlapsGen
import BigtoolsModel.RTLayout
import BigtoolsModel.CirSer
import BigtoolsModel.CirBytes
/-! # C05 — the on-disk R-tree finds exactly what a linear scan finds, for every tree shape

Property theorems (statements copied from the lemma modules, proofs by those lemmas). -/

namespace RT

/-- **Builder + search, repaired span rule:** for every fan-out `b ≥ 2` and every non-empty list of
    sections sorted by start, the builder terminates and searching the tree it builds returns exactly
    the sections a linear scan with the code's `overlaps` returns, in order. -/
theorem C05_built_tree_search_eq_scan (b : Nat) (hb : 2 ≤ b) (secs : List Sec) (hne : secs ≠ []) (hs : LoSorted secs) :
    ∃ t, build true b secs = some t ∧
      ∀ qlo qhi, search qlo qhi t = secs.filter (fun s => ov qlo qhi s.lo s.hi) :=
  build_search b hb secs hne hs

/-- **Layout.** Let `lower` be the nodes of one level (each with `items n` entries, built by chunking into
    `b`), `hdr`/`isz` the header and item sizes of that level, and `base` the byte position of the level.
    The child pointers the writer stores in the level above (parents = chunks of `lower`), read in order,
    are exactly the positions at which the nodes of `lower` are written. -/
theorem C05_child_pointers_correct (b hdr isz base : Nat) (hb : 0 < b) (lower : List (List α)) (src : List α)
    (hlower : lower = chunks b src) :
    (ptrs (hdr + isz * b) base ((chunks b lower).map List.length)).flatten =
      positions base (lower.map fun n => hdr + isz * n.length) :=
  child_pointers_correct b hdr isz base hb lower src hlower

theorem C05_last_end_span_rule_misses :
    ((build false 2 exSecs).map (search ⟨0,500⟩ ⟨0,600⟩)) = some [] ∧
    exSecs.filter (fun s => ov ⟨0,500⟩ ⟨0,600⟩ s.lo s.hi) = [⟨⟨0,0⟩, ⟨0,1000⟩, 0, 1⟩] :=
  span_rule_as_found_misses 

end RT

namespace BBI
open RT CD

/-- **C05, bytes to answer (repaired span rule).** For every fan-out `2 ≤ b < 65536` and every non-empty list
    of sections sorted by start with 32-bit coordinates, the reader's explicit-stack search over the bytes the
    writer lays down returns exactly the blocks of the sections a linear scan with `overlaps` returns, in order —
    wherever the index sits in the file and whatever surrounds it. -/
theorem C05_written_index_bytes_search_eq_scan (b : Nat) (hb : 2 ≤ b) (hb16 : b < 256 ^ 2) (secs : List Sec) (hne : secs ≠ [])
    (hsorted : LoSorted secs) (hs : ∀ x ∈ secs, SecOK x) (Ls : List (List T)) (hLs : levelsOf true b secs = some Ls)
    (pre post : List Nat) (hlen : (pre ++ body b pre.length Ls ++ post).length < 256 ^ 8) (qc qs qe : Nat) :
    ∃ fuel, searchCir .little (srcOf (pre ++ body b pre.length Ls ++ post)) 24 qc qs qe fuel [pre.length] [] =
      .ok (blocksOf (secs.filter fun x => ov ⟨qc, qs⟩ ⟨qc, qe⟩ x.lo x.hi)) :=
  written_index_search b hb hb16 secs hne hsorted hs Ls hLs pre post hlen qc qs qe

end BBI

namespace BBI
open RT

/-- **C05/C10 certificate theorem.** Any index laid out in a byte image whose recorded spans contain the
    leaves beneath them answers every query exactly as a linear scan over its leaf entries, in file order —
    whatever the fan-out, depth, node placement or byte order. -/
theorem C05_any_laid_out_tree_search_eq_scan (e : Endian) (s : Src) (nlb qc qs qe off : Nat) (t : T)
    (h : Laid e s nlb off t) (hspan : SpanOK t) :
    searchCir e s nlb qc qs qe (visited ⟨qc, qs⟩ ⟨qc, qe⟩ t + 1) [off] [] =
      .ok (blocksOf ((leaves t).filter fun x => ov ⟨qc, qs⟩ ⟨qc, qe⟩ x.lo x.hi)) :=
  wf_search_eq_scan e s nlb qc qs qe off t h hspan

/-- **Search over bytes = abstract search, for any layout.** If a tree `t` is laid out in the byte image
    (root node at `off`), the reader's explicit-stack search returns, given enough fuel, exactly the blocks
    of the sections the abstract depth-first search returns, in the same order. -/
theorem C05_byte_search_eq_abstract_search (e : Endian) (s : Src) (nlb qc qs qe off : Nat) (t : T) (h : Laid e s nlb off t) :
    searchCir e s nlb qc qs qe (visited ⟨qc, qs⟩ ⟨qc, qe⟩ t + 1) [off] [] =
      .ok (blocksOf (search ⟨qc, qs⟩ ⟨qc, qe⟩ t)) :=
  searchCir_eq_search e s nlb qc qs qe off t h

end BBI

namespace RT

/-- **The code's own pruning predicate.** `Gen.overlaps` is regenerated from the Rust source of `overlaps` (and of the
    functions it calls) in bbiread.rs on every run; for all arguments it is the `ov` with which the search theorems
    of the index search are stated. A change to the source that alters the predicate breaks this obligation. -/
theorem C05_source_overlaps_is_the_models_ov (q qs qe b1 b1s b2 b2e : Nat) :
    Gen.overlaps q qs qe b1 b1s b2 b2e = ov ⟨q, qs⟩ ⟨q, qe⟩ ⟨b1, b1s⟩ ⟨b2, b2e⟩ :=
  gen_overlaps_eq_ov q qs qe b1 b1s b2 b2e

end RT

/-- **Tie to the source: the byte-by-byte decoders** (index search). The readers assemble every field of an index item (leaf: 32 bytes, non-leaf: 24)
    and of a bedGraph item (12 bytes) from explicitly listed bytes, once per byte order. The lists, regenerated from bbiread.rs and
    bigwigread.rs on every run, are the consecutive ranges of the format — four 32-bit fields, then the 64-bit offset and size; start,
    end, value — in both arms, each byte used exactly once: the layout the byte-level reader models decode. -/
theorem C05_source_item_decoders_take_their_own_bytes :
    Gen.bf_leaf = BF.bothArms BF.leafFields ∧ Gen.bf_nonleaf = BF.bothArms BF.nonLeafFields ∧
    Gen.bf_bedgraph_item = BF.bothArms BF.bedGraphFields ∧ ((BF.layout 0 BF.leafFields).flatMap (·.2)) = List.range 32 :=
  ⟨BF.gen_leaf_bytes, BF.gen_nonleaf_bytes, BF.gen_bedgraph_item_bytes, BF.leaf_arm_covers_the_item.1⟩

/-- **Tie to the source: the search's entry points.** The index is searched with the chromosome id stored in the chromosome tree (a file's
    ids need not follow the order of its names), nothing makes `search_cir_tree` answer before the index is walked (a query may lie
    beyond the declared chromosome length: bigBed entries may reach there), and every block the walk yields is collected (the walk is
    not cut after some number of nodes) — regenerated from bbiread.rs on every run. -/
theorem C05_source_search_entry_points (cid ix : Nat) :
    Gen.sc_chrom_id cid ix = cid ∧ Gen.sc_early_returns = [] ∧ Gen.sc_walk_adaptors = [] :=
  SC.gen_search_entry cid ix
