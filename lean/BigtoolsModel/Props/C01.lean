import BigtoolsModel.WriteGenBBI
import BigtoolsModel.WriteGenWig
import BigtoolsModel.WriteGenTB
import BigtoolsModel.FileOf
import BigtoolsModel.Codec
import BigtoolsModel.Compressed
import BigtoolsModel.AtomsCut
import BigtoolsModel.OverlapsGen
import BigtoolsModel.WriterSections
/-! # C01 — bigWig write/read round trip

Models: `BBI.fileOf` (module `FileOf`) — the byte image the writer lays down for an input: chromosome ids in
order of first appearance, values cut into type-1 sections of at most `items_per_slot` items, the single-leaf
chromosome tree, the R-tree of fan-out `block_size` built bottom-up and serialised level by level, with
ARBITRARY bytes where the writer puts the zoom directory, total summary, data count, zoom data and trailing
magic (so the theorems hold for every zoom setting); `BBI.getIntervalF` / `readHeader` / `readChroms` — the
byte-level reader (`bbiread.rs`, `bigwigread.rs`). Little-endian, uncompressed (zlib is a parameter of the
model: a compressed block is read through `inflate (deflate x) = x`). -/
namespace Props.C01
open BBI

/-- Write, then read any range: for every valid input (any number of chromosomes with distinct names, each with
    sorted, disjoint, non-empty values inside the chromosome), every `items_per_slot ≥ 1`, every fan-out `≥ 2`,
    whatever sits in the zoom / summary areas, querying chromosome `j` over `[qs, qe)` on the written bytes
    returns exactly that chromosome's input values that overlap the range, clipped, in order, bit-identical. -/
theorem write_then_read_returns_the_input (o : WOpts) (cs : List ChromIn) (h : ValidInput o cs) (j : Nat)
    (hj : j < cs.length) (qs qe : Nat) :
    ∃ fuel₀, ∀ fuel, fuel₀ ≤ fuel →
      getIntervalF fuel (fileOf o cs).bytes (cs[j].name.map UInt8.ofNat) qs qe =
        .ok (cs[j].vals.filterMap (keepClip qs qe)) :=
  wig_model_roundtrip o cs h j hj qs qe

theorem keepClip_full (c : ChromIn) (hc : ChromInOK c) : c.vals.filterMap (keepClip 0 c.size) = c.vals := by
  have hv := hc.vals
  generalize c.vals = vals at hv
  induction vals with
  | nil => rfl
  | cons v vs ih =>
    have h1 := hv v (by simp)
    rw [List.filterMap_cons]
    have : keepClip 0 c.size v = some v := by
      unfold keepClip
      have h2 : v.stop > 0 ∧ v.start < c.size := by omega
      rw [if_pos h2]
      cases v with
      | mk s e b => simp only at h1 ⊢; congr 1; congr 1 <;> omega
    rw [this, ih (fun w hw => hv w (by simp [hw]))]

/-- Reading the full span of a chromosome returns exactly the (start, end, value) triples that were written,
    in the same order, with bit-identical values. -/
theorem full_span_read_back_is_exact (o : WOpts) (cs : List ChromIn) (h : ValidInput o cs) (j : Nat) (hj : j < cs.length) :
    ∃ fuel₀, ∀ fuel, fuel₀ ≤ fuel →
      getIntervalF fuel (fileOf o cs).bytes (cs[j].name.map UInt8.ofNat) 0 cs[j].size = .ok cs[j].vals := by
  obtain ⟨f0, hf⟩ := wig_model_roundtrip o cs h j hj 0 cs[j].size
  refine ⟨f0, fun fuel hfu => ?_⟩
  rw [hf fuel hfu, keepClip_full cs[j] (h.chroms _ (List.getElem_mem hj))]

/-- The chromosome table of the written file lists exactly the chromosomes that had data, with ids in order of
    first appearance and the supplied sizes. -/
theorem chromosome_table_roundtrip (o : WOpts) (cs : List ChromIn) (h : ValidInput o cs) :
    ∃ hd, readHeader (srcOf (fileOf o cs).bytes) = .ok hd ∧
      readChroms hd (srcOf (fileOf o cs).bytes) = .ok ((chromsFrom 0 cs).map chromOf) := by
  have hv := fileOf_valid o cs h
  have hch : (fileOf o cs).chroms = chromsFrom 0 cs := rfl
  rw [← hch]
  generalize fileOf o cs = f at hv ⊢
  have hcto : Has f.bytes f.cto (chromTreeBytes f.keySize f.chromBlockSize f.chroms) :=
    ⟨wigHeaderBytes f.zoomCount f.cto f.dataOff f.io f.summaryOff f.bufSize ++ f.mid ++ dataBytes f.sections,
     (cirHeaderBytes f.blockSize f.sections.length f.rootSpan f.io f.itemsPerSlot ++ body f.blockSize (f.io + 48) f.levels) ++ f.tail,
     by simp [WigFile.bytes, List.append_assoc],
     by simp [WigFile.cto, WigFile.dataStart, wigHeaderBytes_length]; omega⟩
  have hidx : Has f.bytes f.io
      (cirHeaderBytes f.blockSize f.sections.length f.rootSpan f.io f.itemsPerSlot ++ body f.blockSize (f.io + 48) f.levels) :=
    ⟨wigHeaderBytes f.zoomCount f.cto f.dataOff f.io f.summaryOff f.bufSize ++ f.mid ++ dataBytes f.sections ++
       chromTreeBytes f.keySize f.chromBlockSize f.chroms, f.tail,
     by simp [WigFile.bytes, List.append_assoc],
     by simp [WigFile.io, WigFile.cto, WigFile.dataStart, wigHeaderBytes_length]; omega⟩
  have hio : f.io < 256 ^ 8 := by have := hidx.size; have := hv.size; omega
  have hctob : f.cto < 256 ^ 8 := by have := hcto.size; have := hv.size; omega
  obtain ⟨hd, hrd, _, hend, hdc, _⟩ := readHeader_wig f.bytes f.zoomCount f.cto f.dataOff f.io f.summaryOff f.bufSize
    (f.mid ++ dataBytes f.sections ++ chromTreeBytes f.keySize f.chromBlockSize f.chroms ++
      (cirHeaderBytes f.blockSize f.sections.length f.rootSpan f.io f.itemsPerSlot ++ body f.blockSize (f.io + 48) f.levels) ++ f.tail)
    (by simp [WigFile.bytes, List.append_assoc]) hv.zc hctob hio
    (by have := hv.zdir; simp only [WigFile.bytes, List.length_append, wigHeaderBytes_length]; omega)
  have hrc := readChroms_written f.bytes hd hend f.keySize f.chromBlockSize f.chroms hv.ks hv.nchroms hv.chromsOK
    (by rw [hdc]; exact hcto)
  exact ⟨hd, hrd, hrc⟩

/-- Section codec: decoding an encoded bigWig section returns the chromosome, type 1 and exactly the items
    (bit-identical), for up to 65535 items — the bound `items_per_slot ≤ 65535` of the property. -/
theorem section_codec_roundtrip (chrom : Nat) (items : List CD.Item) (hc : chrom < 256 ^ 4)
    (hn : items.length < 256 ^ 2) (hok : ∀ v ∈ items, v.ok) :
    CD.decSection (CD.encSection chrom items) = (chrom, 1, items) :=
  CD.section_roundtrip chrom items hc hn hok

/-- The hypotheses are satisfiable: two chromosomes, three values, one item per slot. -/
example : ∃ o cs, ValidInput o cs ∧ cs.length = 2 := ⟨o1, cs1, by
  constructor
  · exact { ips1 := by decide, b2 := by decide, b16 := by decide, zc := by decide,
            zdir := by decide, nonempty := by decide, nchroms := by decide,
            chroms := by
              intro c hc
              simp only [cs1, List.mem_cons, List.not_mem_nil, or_false] at hc
              rcases hc with rfl | rfl <;>
                exact { name := by decide, size := by decide, nonempty := by decide, vals := by decide, sorted := by decide }
            names := by decide, ks := by decide, size := by decide +kernel }
  · rfl⟩

/-- **Compressed files.** zlib enters as a parameter with the single law `inflate (deflate x) = x`. In any image
    that holds the DEFLATED type-1 sections at the offsets and with the (compressed) sizes its index records, the
    byte-level reader — R-tree search, then inflating and decoding each candidate block — returns exactly the
    stored values of the chromosome that overlap the range, clipped, in order. -/
theorem compressed_file_query_returns_the_stored_values (z : Zlib) (b : Nat) (hb : 2 ≤ b) (hb16 : b < 256 ^ 2)
    (ds : List DSec) (hne : ds ≠ [])
    (hsorted : RT.LoSorted (ds.map DSec.sec)) (hok : ∀ d ∈ ds, DSecOK d)
    (l : List Nat) (hl : l.length < 256 ^ 8)
    (hsecs : ∀ d ∈ ds, Has l d.off (z.deflate (enc1 d.chrom d.items)) ∧ d.size = (z.deflate (enc1 d.chrom d.items)).length)
    (Ls : List (List RT.T)) (hLs : levelsOf true b (ds.map DSec.sec) = some Ls) (idx : Nat)
    (hidx : Has l idx (body b idx Ls)) (c qs qe : Nat) :
    ∃ fuel blocks, searchCir .little (srcOf l) 24 c qs qe fuel [idx] [] = .ok blocks ∧
      goBlocksZ z l c qs qe blocks =
        .ok (((ds.filter fun d => d.chrom = c).flatMap (·.items)).filterMap (keepClip qs qe)) :=
  wig_query_bytes_compressed z b hb hb16 ds hne hsorted hok l hl hsecs Ls hLs idx hidx c qs qe

end Props.C01

namespace SectionCut

/-- **The code's own section cut** (regenerated from `process_val` of both writers): a data section is handed over after the
    chromosome's last item or when it holds `min items_per_slot 65535` items — so no section ever holds more items than its
    16-bit count field can express (D22), whatever `items_per_slot` is. -/
theorem C01_source_section_cut (isLast : Bool) (n ips : Nat) :
    Gen.wig_cut isLast n ips = (isLast || decide (n ≥ min ips 65535)) ∧
    Gen.bed_cut isLast n ips = (isLast || decide (n ≥ min ips 65535)) ∧
    (n ≥ 65535 → Gen.wig_cut isLast n ips = true ∧ Gen.bed_cut isLast n ips = true) :=
  ⟨(gen_cut isLast n ips).1, (gen_cut isLast n ips).2, gen_cut_fits_u16 isLast n ips⟩

end SectionCut

namespace RT

/-- **The code's own index-pruning predicate.** `Gen.overlaps` (regenerated from `overlaps` and the functions it calls in
    bbiread.rs on every run) is, for all arguments, the `ov` with which the search theorems are stated; the full-span read of the round trip goes through that index. -/
theorem C01_source_overlaps_is_the_models_ov (q qs qe b1 b1s b2 b2e : Nat) :
    Gen.overlaps q qs qe b1 b1s b2 b2e = ov ⟨q, qs⟩ ⟨q, qe⟩ ⟨b1, b1s⟩ ⟨b2, b2e⟩ :=
  gen_overlaps_eq_ov q qs qe b1 b1s b2 b2e

end RT

namespace BW

/-- **Every `items_per_slot` (D22).** The byte-level writer models cut data sections at `min items_per_slot 65535`: whatever
    value the option has, every bigWig and bigBed data section holds fewer than 65536 items, so its 16-bit count field is
    exact (as found, a larger `items_per_slot` made the count wrap and the reader lose `count mod 65536` items). -/
theorem C01_data_sections_fit_the_16_bit_item_count (ips chrom fuel : Nat) (vs : List V) (es : List BedE) :
    (∀ s ∈ cutSections (min ips 65535) chrom fuel vs, ∃ blk : List V, blk.length < 65536 ∧ s = encSection chrom blk) ∧
    (∀ s ∈ cutBedSections (min ips 65535) chrom fuel es, ∃ blk : List BedE, blk.length < 65536 ∧ s = encBedSection chrom blk) :=
  data_sections_fit_u16 ips chrom fuel vs es

end BW

/-- **Tie to the source: whole buffers reach every destination** (the bigWig writer's sections, headers and indexes). The models append whole buffers to the
    destination. `std::io::Write::write` may accept any non-empty prefix; `write_all` loops until nothing is left
    (`WA.writeAll_delivers`: for every destination that takes at least one byte per call), a bare `write` delivers the buffer only
    if the destination takes all of it at once (`WA.write_delivers_iff`). The lists of bare `write` calls in the source files this writer goes through,
    regenerated from /repo on every run, are empty — so the models' appends are what a short-writing destination receives. -/
theorem C01_source_buffers_reach_every_destination_whole (s : WA.Sink) (h : 0 < s.take) (bufs : List (List Nat)) :
    (Gen.wr_bare_write_bbiwrite = [] ∧ Gen.wr_bare_write_bigwigwrite = [] ∧ Gen.wr_bare_write_tempfilebuffer = []) ∧ (bufs.foldl WA.writeAll s).data = s.data ++ bufs.flatten ∧
    (∀ buf, (s.write buf).1.data = s.data ++ buf ↔ buf.length ≤ s.take) :=
  ⟨⟨WA.gen_no_bare_write_bbiwrite, WA.gen_no_bare_write_bigwigwrite, WA.gen_no_bare_write_tempfilebuffer⟩, WA.writeAll_sequence s h bufs, fun buf => WA.write_delivers_iff s buf⟩
