import BigtoolsModel.Pipeline
import BigtoolsModel.TempBuf
import BigtoolsModel.ChunkLines
/-! # C11 — output bytes do not depend on threads, buffering or task timing

Property theorems (statements copied from the lemma modules, proofs by those lemmas). -/

namespace PL
open TB

theorem C11_every_interleaving_yields_the_sequential_bytes (n : Nat) (inmem : Bool) (d0 : Bytes) (ws : Nat → List Bytes)
    (sched : List GAct) (g' : G) (hr : grun n (ginit n inmem d0 ws) sched = some g') (hc : g'.cur = n) :
    g'.final = some (pre d0 ws n) :=
  pipeline_from_start n inmem d0 ws sched g' hr hc

/-- **Pipeline determinism.** For any number of chromosomes, any producer histories, in-memory or
    temp-file staging, and **every** interleaving of all producers' and the consumer's atomic steps:
    if the run gets through all chromosomes, the file holds the initial bytes followed by each
    chromosome's bytes, in chromosome order — the bytes of the sequential schedule. -/
theorem C11_every_interleaving_from_any_invariant_state (n : Nat) (inmem : Bool) (d0 : Bytes) (ws : Nat → List Bytes) :
    ∀ (sched : List GAct) (g g' : G), GInv n ws d0 g → grun n g sched = some g' → g'.cur = n →
      g'.final = some (pre d0 ws n) :=
  pipeline_deterministic n inmem d0 ws

/-- **No deadlock**: from the start, after any interleaving of all producers' and the consumer's steps, either every
    chromosome has been written or some step is enabled. -/
theorem C11_pipeline_never_stuck (n : Nat) (inmem : Bool) (d0 : Bytes) (ws : Nat → List Bytes) (sched : List GAct) (g' : G)
    (hr : grun n (ginit n inmem d0 ws) sched = some g') :
    g'.cur = n ∨ ∃ a g'', gstep n g' a = some g'' :=
  pipeline_never_stuck n inmem d0 ws sched g' hr

/-- **The property as stated: the bytes do not depend on the schedule or on the staging mode.** Two complete runs of the
    same producer histories — under ANY two interleavings, and with in-memory staging in one and temp-file staging in the
    other (`inmem₁`, `inmem₂` independent) — leave the same bytes in the file. -/
theorem C11_two_complete_runs_agree (n : Nat) (inmem₁ inmem₂ : Bool) (d0 : Bytes) (ws : Nat → List Bytes)
    (sched₁ sched₂ : List GAct) (g₁ g₂ : G)
    (h₁ : grun n (ginit n inmem₁ d0 ws) sched₁ = some g₁) (hc₁ : g₁.cur = n)
    (h₂ : grun n (ginit n inmem₂ d0 ws) sched₂ = some g₂) (hc₂ : g₂.cur = n) :
    g₁.final = g₂.final := by
  rw [pipeline_from_start n inmem₁ d0 ws sched₁ g₁ h₁ hc₁, pipeline_from_start n inmem₂ d0 ws sched₂ g₂ h₂ hc₂]

/-- **Every maximal run of the whole pipeline completes with the sequential bytes**: a run in which no producer step,
    consumer step or hand-over is enabled any more has been through all chromosomes, and the file holds the bytes of the
    sequential schedule — the pipeline cannot come to rest anywhere else, whatever the interleaving. -/
theorem C11_every_maximal_run_completes (n : Nat) (inmem : Bool) (d0 : Bytes) (ws : Nat → List Bytes) (sched : List GAct) (g' : G)
    (hr : grun n (ginit n inmem d0 ws) sched = some g') (hmax : ∀ a, gstep n g' a = none) :
    g'.cur = n ∧ g'.final = some (pre d0 ws n) := by
  rcases pipeline_never_stuck n inmem d0 ws sched g' hr with hc | ⟨a, g'', hs⟩
  · exact ⟨hc, pipeline_from_start n inmem d0 ws sched g' hr hc⟩
  · rw [hmax a] at hs; cases hs

/-- The common value is a function of the producer histories alone: the initial bytes followed by each chromosome's
    buffers, flattened, in chromosome order (`pre` unfolded for the reader). -/
theorem C11_sequential_bytes_unfold (d0 : Bytes) (ws : Nat → List Bytes) (k : Nat) :
    pre d0 ws 0 = d0 ∧ pre d0 ws (k + 1) = pre d0 ws k ++ (ws k).flatten := by
  constructor <;> rfl

/-- Non-vacuity: two chromosomes, two different complete schedules (producer of chromosome 1 running before / after the
    consumer reaches it), one staging in memory and one in a temp file: both complete, and hold `[9,1,2,3]`. -/
example :
    let ws : Nat → List Bytes := fun i => if i = 0 then [[1], [2]] else [[3]]
    let sA : List GAct := [.prod 1 .pUpdate, .prod 1 .pWrite, .prod 1 .pDrop,
                           .cons .cSwitch, .prod 0 .pUpdate, .prod 0 .pWrite, .prod 0 .pUpdate, .prod 0 .pWrite, .prod 0 .pDrop,
                           .cons .cTake, .cons .cSwap, .next, .cons .cSwitch, .cons .cTake, .cons .cSwap, .next]
    let sB : List GAct := [.prod 0 .pUpdate, .cons .cSwitch, .prod 0 .pWrite, .prod 0 .pUpdate, .prod 0 .pWrite, .prod 0 .pDrop,
                           .cons .cTake, .cons .cSwap, .next, .cons .cSwitch,
                           .prod 1 .pUpdate, .prod 1 .pWrite, .prod 1 .pDrop, .cons .cTake, .cons .cSwap, .next]
    ((grun 2 (ginit 2 true [9] ws) sA).map (fun g => (g.cur, g.final)) = some (2, some [9, 1, 2, 3])) ∧
    ((grun 2 (ginit 2 false [9] ws) sB).map (fun g => (g.cur, g.final)) = some (2, some [9, 1, 2, 3])) := by
  decide

end PL

namespace TB

/-- **C12 safety, every interleaving.** Whatever the order of the atomic steps of producer and
    consumer, no run reaches a panic, and if the consumer's `await_real_file` has returned, the
    destination it returns holds exactly the initial content followed by every written byte, once
    and in order. -/
theorem C11_each_hand_off_delivers_every_byte_once_in_order (inmem : Bool) (d0 : Bytes) (ws : List Bytes) (sched : List Act) (s' : St)
    (hr : run (init inmem d0 ws) sched = some s') :
    s'.cpc ≠ .panicked ∧ ∀ d, s'.cpc = .done d → d = d0 ++ ws.flatten :=
  tb_safety inmem d0 ws sched s' hr

end TB

namespace CH

/-- **Chunks partition the lines in order.** For every file with non-empty lines and every requested number
    of chunks ≥ 1, reading the chunks one after the other yields line 0, line 1, … exactly once each. -/
theorem C11_chunked_converter_output_is_the_serial_output (ls : List Nat) (hl : Lines ls) (chunks : Nat) (hc : 1 ≤ chunks) :
    (split ls chunks).flatMap (fun c => linesIn 0 0 ls c.1 c.2) = List.range ls.length :=
  chunks_partition_lines ls hl chunks hc

end CH
