import BigtoolsModel.Pipeline
import BigtoolsModel.TempBuf
import BigtoolsModel.ChunkLines
/-! # C11 — output bytes do not depend on threads, buffering or task timing

Property theorems (statements copied from the lemma modules, proofs by those lemmas). -/

namespace PL
open TB

theorem C11_every_interleaving_yields_the_sequential_bytes (n : Nat) (inmem : Bool) (d0 : Bytes) (ws : Nat → List Bytes)
    (sched : List GAct) (g' : G) (hr : grun n (ginit n inmem d0 ws) sched = some g') (hc : g'.cur = n) :
    g'.final = some (pre d0 ws n) :=
  pipeline_from_start n inmem d0 ws sched g' hr hc

/-- **Pipeline determinism.** For any number of chromosomes, any producer histories, in-memory or
    temp-file staging, and **every** interleaving of all producers' and the consumer's atomic steps:
    if the run gets through all chromosomes, the file holds the initial bytes followed by each
    chromosome's bytes, in chromosome order — the bytes of the sequential schedule. -/
theorem C11_every_interleaving_from_any_invariant_state (n : Nat) (inmem : Bool) (d0 : Bytes) (ws : Nat → List Bytes) :
    ∀ (sched : List GAct) (g g' : G), GInv n ws d0 g → grun n g sched = some g' → g'.cur = n →
      g'.final = some (pre d0 ws n) :=
  pipeline_deterministic n inmem d0 ws

/-- **No deadlock**: from the start, after any interleaving of all producers' and the consumer's steps, either every
    chromosome has been written or some step is enabled. -/
theorem C11_pipeline_never_stuck (n : Nat) (inmem : Bool) (d0 : Bytes) (ws : Nat → List Bytes) (sched : List GAct) (g' : G)
    (hr : grun n (ginit n inmem d0 ws) sched = some g') :
    g'.cur = n ∨ ∃ a g'', gstep n g' a = some g'' :=
  pipeline_never_stuck n inmem d0 ws sched g' hr

end PL

namespace TB

/-- **C12 safety, every interleaving.** Whatever the order of the atomic steps of producer and
    consumer, no run reaches a panic, and if the consumer's `await_real_file` has returned, the
    destination it returns holds exactly the initial content followed by every written byte, once
    and in order. -/
theorem C11_each_hand_off_delivers_every_byte_once_in_order (inmem : Bool) (d0 : Bytes) (ws : List Bytes) (sched : List Act) (s' : St)
    (hr : run (init inmem d0 ws) sched = some s') :
    s'.cpc ≠ .panicked ∧ ∀ d, s'.cpc = .done d → d = d0 ++ ws.flatten :=
  tb_safety inmem d0 ws sched s' hr

end TB

namespace CH

/-- **Chunks partition the lines in order.** For every file with non-empty lines and every requested number
    of chunks ≥ 1, reading the chunks one after the other yields line 0, line 1, … exactly once each. -/
theorem C11_chunked_converter_output_is_the_serial_output (ls : List Nat) (hl : Lines ls) (chunks : Nat) (hc : 1 ≤ chunks) :
    (split ls chunks).flatMap (fun c => linesIn 0 0 ls c.1 c.2) = List.range ls.length :=
  chunks_partition_lines ls hl chunks hc

end CH
