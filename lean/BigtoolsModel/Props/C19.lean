import BigtoolsModel.WriteGenBed
import BigtoolsModel.AutoSqlNTest
import BigtoolsModel.AutoSqlTotal
import BigtoolsModel.AutoSqlCount
/-! # C19 — the stored autoSql always matches the data; the schema parser is total

Model: `ASN.parseAutosql` (module `AutoSqlN`): the cursor parser of `bed/autosql.rs` over code points, with the
character classes of Rust's `char` abstract (`ASN.CC`); `ASN.bedAutosql n` is `bed_autosql` for a BED line with
`n` extra columns; `ASN.fieldCount` is the rule of `BigBedWrite::write_pre` (fields of the last parsed
declaration, 3 if parsing fails or yields nothing). `fixed = true` is the parser with the repaired value loop. -/
namespace Props.C19
open ASN

/-- For every number of extra columns 0..40 the generated schema parses, and the header's field count is
    exactly three plus the number of extra columns (finite quantifier, decided by the kernel). -/
theorem generated_schema_declares_3_plus_n_fields :
    (List.range 41).all (fun n => fieldCount asciiCC true (bedAutosql n) = 3 + n) = true := by
  decide +kernel

/-- **No bound on the number of columns**: for EVERY `n`, the schema generated for `n` extra columns carries exactly `3 + n`
    declaration terminators (`;`) — one per column of the data, by induction over the generator's two loops (the table of
    standard BED fields, regenerated from the source, then the numbered `lstring` fields). The parser-level statement above is
    the kernel-decided finite quantifier; this one is what holds beyond it. -/
theorem generated_schema_has_one_declaration_per_column (n : Nat) : (bedAutosql n).count 59 = 3 + n :=
  bedAutosql_terminators n

/-- The same for the parser as found (the generator never emits `enum`/`set`, so the defect D8 is not reached). -/
theorem generated_schema_declares_3_plus_n_fields_as_found :
    (List.range 41).all (fun n => fieldCount asciiCC false (bedAutosql n) = 3 + n) = true :=
  generated_schema_fieldcount

/-- The parser is total: for EVERY string (any code points) and every character classification it returns
    declarations or a parse error — it never runs out of the fuel `|s| + 1` the model gives each loop, i.e.
    every loop of the parser consumes input. -/
theorem parser_terminates_on_every_string (cc : CC) (s : List Nat) : parseAutosql cc true s ≠ .error .outOfFuel :=
  parse_total cc s

/-- The default schema of the library (BED3) declares three fields. -/
theorem bed3_default_declares_three_fields : fieldCount asciiCC true Gen.BED3 = 3 := by decide +kernel

/-- D8 (code as found): an unterminated `enum(` spins; repaired: a parse error. -/
theorem unterminated_enum_diverges_as_found :
    isOutOfFuel (parseAutosql asciiCC false [116,97,98,108,101,32,116,32,34,99,34,32,40,32,101,110,117,109,40,97,44,32,98]) = true :=
  enum_unterminated_as_found
theorem unterminated_enum_is_an_error_repaired :
    isErrValues (parseAutosql asciiCC true [116,97,98,108,101,32,116,32,34,99,34,32,40,32,101,110,117,109,40,97,44,32,98]) = true :=
  enum_unterminated_repaired

end Props.C19

/-- **Tie to the source: whole buffers reach every destination** (the schema text). The models append whole buffers to the
    destination. `std::io::Write::write` may accept any non-empty prefix; `write_all` loops until nothing is left
    (`WA.writeAll_delivers`: for every destination that takes at least one byte per call), a bare `write` delivers the buffer only
    if the destination takes all of it at once (`WA.write_delivers_iff`). The lists of bare `write` calls in the source files this writer goes through,
    regenerated from /repo on every run, are empty — so the models' appends are what a short-writing destination receives. -/
theorem C19_source_buffers_reach_every_destination_whole (s : WA.Sink) (h : 0 < s.take) (bufs : List (List Nat)) :
    (Gen.wr_bare_write_bigbedwrite = []) ∧ (bufs.foldl WA.writeAll s).data = s.data ++ bufs.flatten ∧
    (∀ buf, (s.write buf).1.data = s.data ++ buf ↔ buf.length ≤ s.take) :=
  ⟨WA.gen_no_bare_write_bigbedwrite, WA.writeAll_sequence s h bufs, fun buf => WA.write_delivers_iff s buf⟩
