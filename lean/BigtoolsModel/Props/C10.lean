import BigtoolsModel.AtomsBytes
import BigtoolsModel.AtomsRB
import BigtoolsModel.CirBytes
import BigtoolsModel.FiltersGen
import BigtoolsModel.OverlapsGen
import BigtoolsModel.WigSections
import BigtoolsModel.WfIndex
import BigtoolsModel.CheckedFile
import BigtoolsModel.BigEndian
import BigtoolsModel.NonLeafWitness
import BigtoolsModel.AtomsStep
/-! # C10 — any well-formed BBI file is read correctly, whoever wrote it

Property theorems (statements copied from the lemma modules, proofs by those lemmas). -/

namespace BBI
open RT

/-- **Search over bytes = abstract search, for any layout.** If a tree `t` is laid out in the byte image
    (root node at `off`), the reader's explicit-stack search returns, given enough fuel, exactly the blocks
    of the sections the abstract depth-first search returns, in the same order. -/
theorem C10_byte_search_any_layout_either_endian (e : Endian) (s : Src) (nlb qc qs qe off : Nat) (t : T) (h : Laid e s nlb off t) :
    searchCir e s nlb qc qs qe (visited ⟨qc, qs⟩ ⟨qc, qe⟩ t + 1) [off] [] =
      .ok (blocksOf (search ⟨qc, qs⟩ ⟨qc, qe⟩ t)) :=
  searchCir_eq_search e s nlb qc qs qe off t h

/-- **C09/C10: accepted index ⇒ the reader answers like a linear scan.** For any byte image, either byte order:
    if the checker accepts the index rooted at `off` and returns `t`, the reader's explicit-stack search over
    the same bytes returns, for every query, exactly the blocks of the leaf entries of `t` (in file order)
    that overlap it. -/
theorem C10_accepted_index_search_eq_scan (e : Endian) (s : Src) (bs fuel off : Nat) (expect : Option Span) (t : T)
    (h : walk e s bs fuel off expect = .ok t) (qc qs qe : Nat) :
    searchCir e s 24 qc qs qe (visited ⟨qc, qs⟩ ⟨qc, qe⟩ t + 1) [off] [] =
      .ok (blocksOf ((leaves t).filter fun x => ov ⟨qc, qs⟩ ⟨qc, qe⟩ x.lo x.hi)) :=
  checked_index_search e s bs fuel off expect t h qc qs qe

/-- **C09/C10: an accepted file is read as decoded.** -/
theorem C10_accepted_file_reads_as_decoded (l : List Nat) (bs fuel off : Nat) (expect : Option Span) (t : T)
    (hwalk : walk .little (srcOf l) bs fuel off expect = .ok t)
    (hblocks : ∀ x ∈ leaves t, ∃ items, checkBlock l x = some items) (c qs qe : Nat) :
    ∃ fuel' blocks, searchCir .little (srcOf l) 24 c qs qe fuel' [off] [] = .ok blocks ∧
      goBlocks l c qs qe blocks =
        .ok ((((leaves t).filter fun x => x.lo.c = c).flatMap (itemsOf l)).filterMap (keepClip qs qe)) :=
  checked_query l bs fuel off expect t hwalk hblocks c qs qe

end BBI

namespace BBI
open CD

theorem C10_bedgraph_sections (l : List Nat) (o size chrom qs qe : Nat) (items : List Value) (hc : chrom < 256 ^ 4)
    (hn : items.length < 256 ^ 2) (hv : ∀ v ∈ items, ValueOK v) (h : Has l o (enc1 chrom items)) :
    wigBlock .little (srcOf l) ⟨o, size⟩ chrom qs qe = .ok (items.filterMap (keepClip qs qe)) :=
  decode1 l o size chrom qs qe items hc hn hv h

theorem C10_varstep_sections (l : List Nat) (o size chrom span stop qs qe : Nat) (items : List (Nat × Nat))
    (hc : chrom < 256 ^ 4) (hsp : span < 256 ^ 4) (hst : stop < 256 ^ 4) (hn : items.length < 256 ^ 2)
    (hv : ∀ v ∈ items, v.1 < 256 ^ 4 ∧ v.2 < 256 ^ 4) (h : Has l o (enc2 chrom span stop items)) :
    wigBlock .little (srcOf l) ⟨o, size⟩ chrom qs qe =
      .ok (items.filterMap fun v => keepClip qs qe ⟨v.1, v.1 + span, v.2⟩) :=
  decode2 l o size chrom span stop qs qe items hc hsp hst hn hv h

theorem C10_fixedstep_sections (l : List Nat) (o size chrom start stop step span qs qe : Nat) (vals : List Nat)
    (hc : chrom < 256 ^ 4) (hs : start < 256 ^ 4) (hst : stop < 256 ^ 4) (hstep : step < 256 ^ 4)
    (hsp : span < 256 ^ 4) (hn : vals.length < 256 ^ 2) (hv : ∀ v ∈ vals, v < 256 ^ 4)
    (h : Has l o (enc3 chrom start stop step span vals)) :
    wigBlock .little (srcOf l) ⟨o, size⟩ chrom qs qe =
      .ok (vals.zipIdx.filterMap fun vi => keepClip qs qe ⟨start + vi.2 * step, start + vi.2 * step + span, vi.1⟩) :=
  decode3 l o size chrom start stop step span qs qe vals hc hs hst hstep hsp hn hv h

theorem C10_big_endian_reads (l : List Nat) : ∀ (k off n : Nat), Has l off (be k n) → n < 256 ^ k →
    uN .big (srcOf l) off k = n :=
  uN_be l

end BBI

namespace BBI
open RT CD

/-- as found (32 bytes demanded per non-leaf item): the query fails -/
theorem C10_nonleaf_node_at_end_of_file_rejected_as_found :
    okBlocks (searchCir .little (srcOf d12Image) 32 0 150 160 5 [36] []) = none :=
  nonleaf_at_eof_rejected_as_found 

/-- repaired (24): the block is found -/
theorem C10_nonleaf_node_at_end_of_file_read_repaired :
    okBlocks (searchCir .little (srcOf d12Image) 24 0 150 160 5 [36] []) = some [⟨1000, 36⟩] :=
  nonleaf_at_eof_found_repaired 

end BBI

namespace RT

/-- **The code's own pruning predicate.** `Gen.overlaps` is regenerated from the Rust source of `overlaps` (and of the
    functions it calls) in bbiread.rs on every run; for all arguments it is the `ov` with which the search theorems
    of reading foreign files are stated. A change to the source that alters the predicate breaks this obligation. -/
theorem C10_source_overlaps_is_the_models_ov (q qs qe b1 b1s b2 b2e : Nat) :
    Gen.overlaps q qs qe b1 b1s b2 b2e = ov ⟨q, qs⟩ ⟨q, qe⟩ ⟨b1, b1s⟩ ⟨b2, b2e⟩ :=
  gen_overlaps_eq_ov q qs qe b1 b1s b2 b2e

end RT

namespace BBI
open CD

/-- **The code's own range filter and clipping, bigWig.** For each of the three section types the `if` condition of
    `get_block_values` that mentions both query bounds, and the two clipping assignments that follow it, are regenerated from
    bigwigread.rs on every run; together they are the `keepClip` with which the query theorems are stated. -/
theorem C10_source_filter_is_keepClip (qs qe : Nat) (v : Value) :
    ((if Gen.wig_keep_0 v.start v.stop qs qe
      then some { v with start := Gen.wig_clip_start_0 v.start v.stop qs qe, stop := Gen.wig_clip_end_0 v.start v.stop qs qe }
      else none) = keepClip qs qe v) ∧
    ((if Gen.wig_keep_1 v.start v.stop qs qe
      then some { v with start := Gen.wig_clip_start_1 v.start v.stop qs qe, stop := Gen.wig_clip_end_1 v.start v.stop qs qe }
      else none) = keepClip qs qe v) ∧
    ((if Gen.wig_keep_2 v.start v.stop qs qe
      then some { v with start := Gen.wig_clip_start_2 v.start v.stop qs qe, stop := Gen.wig_clip_end_2 v.start v.stop qs qe }
      else none) = keepClip qs qe v) :=
  ⟨gen_wig_filter_0 qs qe v, gen_wig_filter_1 qs qe v, gen_wig_filter_2 qs qe v⟩

end BBI

namespace BBI
open CD

/-- **The code's own range filter, bigBed**: the `if` condition of `get_block_entries` that mentions both query bounds,
    regenerated from bigbedread.rs on every run, is the `bedKeep` of the query theorems. -/
theorem C10_source_filter_is_bedKeep (qs qe : Nat) (x : Entry) : Gen.bed_keep x.s x.e qs qe = bedKeep qs qe x :=
  gen_bed_filter qs qe x

end BBI

namespace BBI
open CD

/-- **The code's own zoom-record filter** (`get_zoom_block_values`, both byte orders), regenerated from bbiread.rs on every
    run, is the `zKeep` of the zoom query theorem. -/
theorem C10_source_zoom_filter_is_zKeep (c qs qe : Nat) (r : ZRec) :
    Gen.zoom_keep_0 r.chrom c r.start r.stop qs qe = zKeep c qs qe r ∧ Gen.zoom_keep_1 r.chrom c r.start r.stop qs qe = zKeep c qs qe r :=
  ⟨gen_zoom_filter_0 c qs qe r, gen_zoom_filter_1 c qs qe r⟩

end BBI

namespace StepSections

/-- **The code's own expansion of variable-step and fixed-step sections** (regenerated from `get_block_values`): item `i` of
    a fixed-step section is `[start + i·step, start + i·step + span)`, a variable-step item is `[s, s + span)` — the
    expansions the decode theorems are stated with. -/
theorem C10_source_step_sections (start step span i s : Nat) :
    fixedStart start step span i = start + i * step ∧ Gen.fixed_end (fixedStart start step span i) span step = start + i * step + span ∧
    Gen.var_end s span step = s + span := gen_step_items start step span i s

end StepSections

/-- **Tie to the source: every block of a well-formed file is fetched, however well it compresses** (any well-formed file). The reader theorems
    take `inflate` as a total function; the real `zlib_decompress` fails when the block inflates to more than the buffer it is given.
    With the lengths `read_block_data` uses — regenerated from bbiread.rs on every run: `block.size` bytes read, a buffer of exactly
    the header's `uncompress_buf_size` — a block holding `deflate x` with `|x| ≤ uncompress_buf_size` (what both well-formedness
    judges require of every block) is fetched as `x`, for every codec and every compressed size; an uncompressed file's block is
    the bytes themselves. -/
theorem C10_source_block_fetch (z : BBI.Zlib) (ubs : Nat) (l x : List Nat) (off : Nat) (hx : x.length ≤ ubs) :
    (0 < ubs → BBI.Has l off (z.deflate x) → RB.fetch z ubs l ⟨off, (z.deflate x).length⟩ = some x) ∧
    (BBI.Has l off x → RB.fetch z 0 l ⟨off, x.length⟩ = some x) :=
  ⟨fun hu h => RB.fetch_compressed z ubs l x off hu hx h, fun h => RB.fetch_raw z l x off h⟩

/-- **Tie to the source: the byte-by-byte decoders** (any well-formed file, either byte order). The readers assemble every field of an index item (leaf: 32 bytes, non-leaf: 24)
    and of a bedGraph item (12 bytes) from explicitly listed bytes, once per byte order. The lists, regenerated from bbiread.rs and
    bigwigread.rs on every run, are the consecutive ranges of the format — four 32-bit fields, then the 64-bit offset and size; start,
    end, value — in both arms, each byte used exactly once: the layout the byte-level reader models decode. -/
theorem C10_source_item_decoders_take_their_own_bytes :
    Gen.bf_leaf = BF.bothArms BF.leafFields ∧ Gen.bf_nonleaf = BF.bothArms BF.nonLeafFields ∧
    Gen.bf_bedgraph_item = BF.bothArms BF.bedGraphFields ∧ ((BF.layout 0 BF.leafFields).flatMap (·.2)) = List.range 32 :=
  ⟨BF.gen_leaf_bytes, BF.gen_nonleaf_bytes, BF.gen_bedgraph_item_bytes, BF.leaf_arm_covers_the_item.1⟩
