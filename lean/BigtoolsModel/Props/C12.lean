import BigtoolsModel.AtomsTB
import BigtoolsModel.WriteGenTB
import BigtoolsModel.TempBuf2
/-! # C12 — the staging buffer delivers every byte once, in order, under every interleaving

Model: `TB.step` (module `TempBuf`) — the protocol of `TempFileBuffer` / `TempFileBufferWriter` as a labelled
transition system whose actions are the shared-memory accesses of the code (`real_file.swap` inside `update`,
the private write, the `closed` publication in `drop`, `switch`, the take of `closed` and the final mailbox
swap inside `await_real_file`). A schedule is ANY list of actions; `TB.run` executes it. -/
namespace Props.C12
open TB

/-- Safety for every producer history, both staging modes and **every** interleaving: no panic branch is
    reachable, and when `await_real_file` has returned, the destination holds the initial bytes followed by
    every written byte, once and in order. -/
theorem delivers_every_byte_once_in_order (inmem : Bool) (d0 : Bytes) (ws : List Bytes) (sched : List Act) (s' : St)
    (hr : run (init inmem d0 ws) sched = some s') :
    s'.cpc ≠ .panicked ∧ ∀ d, s'.cpc = .done d → d = d0 ++ ws.flatten :=
  tb_safety inmem d0 ws sched s' hr

/-- No deadlock: every reachable state is final (`await_real_file` has returned) or has an enabled step. -/
theorem never_deadlocks (inmem : Bool) (d0 : Bytes) (ws : List Bytes) (sched : List Act) (s' : St)
    (hr : run (init inmem d0 ws) sched = some s') :
    (∃ d, s'.cpc = .done d) ∨ ∃ a s'', step s' a = some s'' := by
  have ⟨hi, _, hd⟩ := run_inv d0 ws sched _ s' (inv_init inmem d0 ws) (ghost_init inmem d0 ws)
    (by simp [Aux, init]) hr
  exact tb_progress d0 s' hi hd

/-- Waiting ends as soon as the producer is done: in every reachable state in which the consumer has switched
    and the producer has dropped, the consumer's wait (`cTake`) is enabled — nothing else is needed. -/
theorem wait_over_once_producer_dropped (inmem : Bool) (d0 : Bytes) (ws : List Bytes) (sched : List Act) (s' : St)
    (hr : run (init inmem d0 ws) sched = some s') (hc : s'.cpc = .switched) (hp : s'.ppc = .dropped) :
    ∃ s'', step s' .cTake = some s'' := by
  have ⟨hi, _, _⟩ := run_inv d0 ws sched _ s' (inv_init inmem d0 ws) (ghost_init inmem d0 ws)
    (by simp [Aux, init]) hr
  obtain ⟨mailbox, pst, todo, issued, ppc, closed, cpc, inmem'⟩ := s'
  simp only at hc hp
  subst hc hp
  simp only [TB.Inv] at hi
  obtain ⟨fs, hfs, _⟩ := hi
  subst hfs
  exact ⟨_, rfl⟩

/-- The wait cannot end earlier: while the producer has not dropped, `cTake` is disabled. -/
theorem wait_blocks_until_drop (inmem : Bool) (d0 : Bytes) (ws : List Bytes) (sched : List Act) (s' : St)
    (hr : run (init inmem d0 ws) sched = some s') (hp : s'.ppc ≠ .dropped) :
    step s' .cTake = none := by
  have ⟨hi, _, _⟩ := run_inv d0 ws sched _ s' (inv_init inmem d0 ws) (ghost_init inmem d0 ws)
    (by simp [Aux, init]) hr
  obtain ⟨mailbox, pst, todo, issued, ppc, closed, cpc, inmem'⟩ := s'
  simp only at hp
  cases cpc with
  | switched =>
    simp only [TB.Inv] at hi
    cases ppc with
    | dropped => exact absurd rfl hp
    | idle => simp [step, hi.1]
    | swapped => simp [step, hi.1]
  | _ => simp [step]

/-- The non-redirecting consumer programs (`is_real_file_ready`, `len`, `expect_closed_write`), every schedule:
    blocked / false exactly until the producer has dropped, never a panic branch, `len` = number of bytes
    written, `expect_closed_write` copies exactly the written bytes. -/
theorem length_and_copy_of_unswitched_buffer (inmem : Bool) (d0 : Bytes) (ws : List Bytes) (sched : List Act) (s' : St)
    (hr : run (init inmem d0 ws) sched = some s') (hnosw : s'.cpc = .holding d0) :
    (s'.ppc = .dropped →
      readyNow s' = true ∧ lenNow s' = .ok ws.flatten.length ∧ copyNow s' = .ok ws.flatten) ∧
    (s'.ppc ≠ .dropped → readyNow s' = false ∧ lenNow s' = .blocked ∧ copyNow s' = .blocked) :=
  unswitched_programs inmem d0 ws sched s' hr hnosw

/-- progress measure: strictly decreases with every step -/
def measure (s : St) : Nat :=
  2 * s.todo.length + (match s.ppc with | .idle => 1 | _ => 0) +
    (match s.cpc with | .holding _ => 3 | .switched => 2 | .taken _ => 1 | _ => 0)

theorem measure_step (s s' : St) (a : Act) (h : step s a = some s') : measure s' + 1 ≤ measure s := by
  obtain ⟨mailbox, pst, todo, issued, ppc, closed, cpc, inmem⟩ := s
  cases a <;> simp only [step] at h
  · -- pUpdate
    cases ppc <;> cases todo <;> simp at h
    cases pst <;> cases mailbox <;> simp at h <;> subst h <;> simp [measure] <;> omega
  · -- pWrite
    cases ppc <;> cases todo <;> simp at h
    cases pst <;> simp at h <;> subst h <;> simp [measure] <;> omega
  · -- pDrop
    cases ppc <;> cases todo <;> simp at h
    subst h; simp [measure]; omega
  · -- cSwitch
    cases cpc <;> simp at h
    cases mailbox <;> simp at h <;> subst h <;> simp [measure]
  · -- cTake
    cases cpc <;> cases closed <;> simp at h
    subst h; simp [measure]
  · -- cSwap
    cases cpc <;> simp at h
    rename_i fs
    cases mailbox <;> cases fs <;> simp at h <;> subst h <;> simp [measure]

/-- Every run is finite and short: a schedule that executes has at most `2·writes + 4` steps, so no
    schedule can keep the protocol busy forever (termination of every maximal run). -/
theorem every_run_is_bounded (inmem : Bool) (d0 : Bytes) (ws : List Bytes) :
    ∀ (sched : List Act) (s s' : St), run s sched = some s' → measure s' + sched.length ≤ measure s := by
  intro sched
  induction sched with
  | nil => intro s s' h; simp [run] at h; subst h; simp
  | cons a as ih =>
    intro s s' h
    simp only [run] at h
    split at h
    · rename_i s1 hs1
      have := ih s1 s' h
      have := measure_step s s1 a hs1
      simp only [List.length_cons]; omega
    · simp at h

theorem schedule_length_le (inmem : Bool) (d0 : Bytes) (ws : List Bytes) (sched : List Act) (s' : St)
    (hr : run (init inmem d0 ws) sched = some s') : sched.length ≤ 2 * ws.length + 4 := by
  have := every_run_is_bounded inmem d0 ws sched _ s' hr
  simp only [measure, init] at this
  omega

/-- **Every maximal run delivers.** A run that cannot be extended (no action of producer or consumer is enabled) has
    returned from `await_real_file`, and the destination holds the initial bytes followed by every written byte, once and in
    order. Together with `schedule_length_le` (no schedule executes more than `2·writes + 4` steps) this is liveness under
    every fair and unfair interleaving: the protocol cannot stop anywhere else and cannot run forever. -/
theorem every_maximal_run_delivers (inmem : Bool) (d0 : Bytes) (ws : List Bytes) (sched : List Act) (s' : St)
    (hr : run (init inmem d0 ws) sched = some s') (hmax : ∀ a, step s' a = none) :
    s'.cpc = .done (d0 ++ ws.flatten) := by
  rcases never_deadlocks inmem d0 ws sched s' hr with ⟨d, hd⟩ | ⟨a, s'', hs⟩
  · rw [hd, (delivers_every_byte_once_in_order inmem d0 ws sched s' hr).2 d hd]
  · rw [hmax a] at hs; cases hs

/-- **The delivered bytes do not depend on the interleaving or on the staging mode**: two runs of the same producer history
    that have returned from `await_real_file` — under any two schedules, staging in memory in one and in a temp file in the
    other — hold the same destination. -/
theorem two_finished_runs_agree (inmem₁ inmem₂ : Bool) (d0 : Bytes) (ws : List Bytes) (sched₁ sched₂ : List Act) (s₁ s₂ : St)
    (d₁ d₂ : Bytes) (h₁ : run (init inmem₁ d0 ws) sched₁ = some s₁) (h₂ : run (init inmem₂ d0 ws) sched₂ = some s₂)
    (e₁ : s₁.cpc = .done d₁) (e₂ : s₂.cpc = .done d₂) : d₁ = d₂ := by
  rw [(delivers_every_byte_once_in_order inmem₁ d0 ws sched₁ s₁ h₁).2 d₁ e₁,
      (delivers_every_byte_once_in_order inmem₂ d0 ws sched₂ s₂ h₂).2 d₂ e₂]

/-- Non-vacuity of `every_maximal_run_delivers`: the end state of the concrete run below enables no action. -/
example : ((run (init false [9] [[1], [2, 3]]) [.pUpdate, .pWrite, .cSwitch, .pUpdate, .pWrite, .pDrop, .cTake, .cSwap]).map
    (fun s => [Act.pUpdate, .pWrite, .pDrop, .cSwitch, .cTake, .cSwap].all (fun a => (step s a).isNone))) = some true := by decide

/-- Non-vacuity: a concrete interleaving (switch lands between two writes, temp-file staging) runs to the end. -/
example : (run (init false [9] [[1], [2, 3]]) [.pUpdate, .pWrite, .cSwitch, .pUpdate, .pWrite, .pDrop, .cTake, .cSwap]).map (·.cpc)
    = some (.done [9, 1, 2, 3]) := by decide

end Props.C12

/-- **Tie to the source: whole buffers reach every destination** (the staging buffer's replay of what it staged). The models append whole buffers to the
    destination. `std::io::Write::write` may accept any non-empty prefix; `write_all` loops until nothing is left
    (`WA.writeAll_delivers`: for every destination that takes at least one byte per call), a bare `write` delivers the buffer only
    if the destination takes all of it at once (`WA.write_delivers_iff`). The lists of bare `write` calls in the source files this writer goes through,
    regenerated from /repo on every run, are empty — so the models' appends are what a short-writing destination receives. -/
theorem C12_source_buffers_reach_every_destination_whole (s : WA.Sink) (h : 0 < s.take) (bufs : List (List Nat)) :
    (Gen.wr_bare_write_tempfilebuffer = []) ∧ (bufs.foldl WA.writeAll s).data = s.data ++ bufs.flatten ∧
    (∀ buf, (s.write buf).1.data = s.data ++ buf ↔ buf.length ≤ s.take) :=
  ⟨WA.gen_no_bare_write_tempfilebuffer, WA.writeAll_sequence s h bufs, fun buf => WA.write_delivers_iff s buf⟩

/-- **Tie to the source: the reported length.** `len()` assembled from the expressions of tempfilebuffer.rs (regenerated on every run: the
    in-memory arm and the nothing-written arm) is the model's `lenNow` on every state — so `C12`'s "reports the number of bytes written"
    (`unswitched_programs`) speaks about the length the code computes, for every staged size: no narrowing cast on the way (2^32 staged
    bytes and more are reported in full). The temp-file arm returns the file's position as the operating system reports it. -/
theorem C12_source_reported_length (s : TB.St) (n : Nat) :
    TB.lenGen s = TB.lenNow s ∧ Gen.tb_len_inmem n = n ∧ Gen.tb_len_notstarted = 0 :=
  ⟨TB.gen_len_is_the_models s, TB.gen_len_atoms n⟩
