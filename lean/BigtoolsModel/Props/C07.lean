import BigtoolsModel.Tiler2
import BigtoolsModel.FiltersGen
import BigtoolsModel.ZoomLevels
import BigtoolsModel.Tiler3
import BigtoolsModel.ZoomQueryBytes
import BigtoolsModel.AtomsTiler
import BigtoolsModel.AtomsZL
import BigtoolsModel.OverlapsGen
/-! # C07 — bigWig zoom levels are faithful reductions of the data

Property theorems (statements copied from the lemma modules, proofs by those lemmas). -/

namespace Tiler2

/-- **Zoom tiler, repaired variant: every record is a faithful reduction** — in order, disjoint, at most one
    resolution long, covered bases and sum exact, min and max attained by and bounding exactly the values
    that overlap the record, total coverage preserved. -/
theorem C07_records_are_a_faithful_reduction (size : Nat) (hsize : 0 < size) (vals : List Val) (R : List Rec)
    (hpw : vals.Pairwise (fun p q => p.e ≤ q.s)) (hse : ∀ p ∈ vals, p.s ≤ p.e)
    (hrun : run repaired size vals = some R) : Final size vals R :=
  run_faithful size hsize vals R hpw hse hrun

/-- the repaired tiler never runs out of the fuel the model gives it -/
theorem C07_tiler_terminates (size : Nat) (hsize : 0 < size) (vals : List Val)
    (hpw : vals.Pairwise (fun p q => p.e ≤ q.s)) (hse : ∀ p ∈ vals, p.s ≤ p.e) :
    (run repaired size vals).isSome :=
  run_total size hsize vals hpw hse

/-- **Sum of squares of every zoom record (repaired tiler).** Same hypotheses as `run_faithful`: each record
    of the run with `sumsq` has the span, coverage, sum, min and max of the corresponding `Tiler2` record
    (so `run_faithful` applies to it), and its sum of squares is `Σ overlap · v²` over the values. -/
theorem C07_sum_of_squares (size : Nat) (hsize : 0 < size) (vals : List Val) (R3 : List Rec3)
    (hpw : vals.Pairwise (fun p q => p.e ≤ q.s)) (hse : ∀ p ∈ vals, p.s ≤ p.e)
    (hrun : run3 repaired size vals = some R3) :
    (∃ R, run repaired size vals = some R ∧ RelL false R3 R) ∧
    ∀ r3 ∈ R3, r3.sumsq = wsumsq vals r3.base.start r3.base.stop :=
  run3_sumsq size hsize vals R3 hpw hse hrun

theorem C07_sumsq_run_simulates_plain_run (sq : Bool) (fx : Fix) (size : Nat) (vals : List Val) (R3 : List Rec3)
    (h : run3 fx size vals = some R3) :
    ∃ R, run fx size (vals.map (feed sq)) = some R ∧ RelL sq R3 R :=
  run3_rel sq fx size vals R3 h

theorem C07_add_start_as_found_counts_uncovered_bases :
    run asFound 10 [⟨0,5,1⟩, ⟨100,105,2⟩] ≠ run repaired 10 [⟨0,5,1⟩, ⟨100,105,2⟩] :=
  bug_witness_D1 

/-- D14: with only the `add_start` repair, the record `[0,10)` of `[0,5)=1, [10,15)=7` reports max 7 -/
theorem C07_window_end_comparison_as_found_leaks_minmax :
    (run ⟨true, false⟩ 10 [⟨0,5,1⟩, ⟨10,15,7⟩]).map (fun rs => rs.map (·.mx)) = some [7, 7] ∧
    (run repaired 10 [⟨0,5,1⟩, ⟨10,15,7⟩]).map (fun rs => rs.map (·.mx)) = some [1, 7] :=
  bug_witness_D14 

end Tiler2

namespace BBI
open RT CD

/-- **Zoom range query over bytes (repaired span rule in the index).** -/
theorem C07_zoom_range_query (b : Nat) (hb : 2 ≤ b) (hb16 : b < 256 ^ 2) (ds : List ZSec) (hne : ds ≠ [])
    (hsorted : LoSorted (ds.map ZSec.sec)) (hok : ∀ d ∈ ds, ZSecOK d)
    (l : List Nat) (hl : l.length < 256 ^ 8) (hsecs : ∀ d ∈ ds, Has l d.off d.bytes)
    (Ls : List (List T)) (hLs : levelsOf true b (ds.map ZSec.sec) = some Ls) (idx : Nat)
    (hidx : Has l idx (body b idx Ls)) (c qs qe : Nat) :
    ∃ fuel blocks, searchCir .little (srcOf l) 24 c qs qe fuel [idx] [] = .ok blocks ∧
      goZoomBlocks l c qs qe blocks = .ok ((ds.flatMap (·.recs)).filter (zKeep c qs qe)) :=
  zoom_query_bytes b hb hb16 ds hne hsorted hok l hl hsecs Ls hLs idx hidx c qs qe

end BBI

namespace ZL

/-- Manual zoom lists (any list: unsorted, duplicates, zeros, more than ten): the resolutions used are strictly
    increasing, non-zero, at most ten and taken from the list; with at most ten distinct non-zero sizes all are used. -/
theorem C07_manual_zoom_levels (l : List Nat) :
    StrictInc (normalize l) ∧ (∀ z ∈ normalize l, z ≠ 0 ∧ z ∈ l) ∧ (normalize l).length ≤ 10 ∧
    (((l.filter (· ≠ 0)).foldr insertUniq []).length ≤ 10 → ∀ z ∈ l, z ≠ 0 → z ∈ normalize l) :=
  normalize_spec l

/-- Automatic candidates `initial · 4^k` are strictly increasing, and the listed levels — any subsequence of the
    candidates — are too. -/
theorem C07_auto_candidates_strictly_increasing (initial : Nat) (hi : 0 < initial) (n : Nat) : StrictInc (autoSizes initial n) :=
  autoSizes_strict initial hi n

theorem C07_listed_levels_strictly_increasing (cands kept : List Nat) (hc : StrictInc cands) (hk : kept.Sublist cands) :
    StrictInc kept :=
  listed_levels_strictly_increasing cands kept hc hk

end ZL

namespace BBI
open CD

/-- **The code's own zoom-record filter** (`get_zoom_block_values`, both byte orders), regenerated from bbiread.rs on every
    run, is the `zKeep` of the zoom query theorem. -/
theorem C07_source_zoom_filter_is_zKeep (c qs qe : Nat) (r : ZRec) :
    Gen.zoom_keep_0 r.chrom c r.start r.stop qs qe = zKeep c qs qe r ∧ Gen.zoom_keep_1 r.chrom c r.start r.stop qs qe = zKeep c qs qe r :=
  ⟨gen_zoom_filter_0 c qs qe r, gen_zoom_filter_1 c qs qe r⟩

end BBI

namespace Tiler2

/-- **The code's own tiler loop** (`process_val_zoom` in bigwigwrite.rs): the loop body assembled from the expressions in the
    Rust source — regenerated on every run (`Generated/Atoms.lean`) — is the model's `iter`, for every resolution, value,
    position and tiler state; the loop's exit test is the model's. `C07_records_are_a_faithful_reduction` is about `iter`. -/
theorem C07_source_tiler_loop_body_is_the_models (size : Nat) (x : Val) (a : Nat) (st : TSt) :
    iterGen size x a st = iter repaired size x a st ∧ Gen.wz_done a x.e = decide (a ≥ x.e) :=
  ⟨gen_wig_tiler_iter size x a st, (gen_tiler_done a x.e).1⟩

/-- **The code's own rule for handing a zoom section over** (regenerated from the source): everything of the value is
    consumed, no record is live, it was the last value and there are records — or the section holds `items_per_slot` records. -/
theorem C07_source_zoom_section_handover (a e : Nat) (liveNone isLast recsEmpty : Bool) (n ips : Nat) :
    Gen.wz_flush a e liveNone isLast recsEmpty n ips = ((decide (a ≥ e) && liveNone && isLast && !recsEmpty) || decide (n = ips)) :=
  (gen_zoom_section_flush a e liveNone isLast recsEmpty n ips).1

end Tiler2

namespace RT

/-- **The code's own index-pruning predicate.** `Gen.overlaps` (regenerated from `overlaps` and the functions it calls in
    bbiread.rs on every run) is, for all arguments, the `ov` with which the search theorems are stated; zoom range queries search each level's index with it. -/
theorem C07_source_overlaps_is_the_models_ov (q qs qe b1 b1s b2 b2e : Nat) :
    Gen.overlaps q qs qe b1 b1s b2 b2e = ov ⟨q, qs⟩ ⟨q, qe⟩ ⟨b1, b1s⟩ ⟨b2, b2e⟩ :=
  gen_overlaps_eq_ov q qs qe b1 b1s b2 b2e

end RT

namespace ZL

/-- **At most ten automatic levels, whatever `max_zooms` says (D24).** The number of candidate resolutions both writers take —
    regenerated from the source — is `min max_zooms 10`, the factor between candidates is 4: the candidates are
    `autoSizes initial (min max_zooms 10)`, at most ten, strictly increasing. As found, `--nzooms 12` listed twelve levels
    in a directory of ten and the last two were overwritten by the total summary. -/
theorem C07_source_automatic_levels_at_most_ten (initial maxZooms : Nat) (hi : 0 < initial) :
    Gen.zl_count_single maxZooms Gen.MAX_ZOOM_LEVELS = min maxZooms 10 ∧ Gen.zl_count_two maxZooms Gen.MAX_ZOOM_LEVELS = min maxZooms 10 ∧
    Gen.zl_factor = 4 ∧ (autoSizes initial (min maxZooms 10)).length ≤ 10 ∧ StrictInc (autoSizes initial (min maxZooms 10)) := by
  obtain ⟨h1, h2, h3, _, _⟩ := gen_auto_zoom_count maxZooms
  refine ⟨h1, h2, h3, ?_, autoSizes_strict initial hi _⟩
  rw [autoSizes_length]; omega

end ZL


/-- **The saturating window end (D25) is exact.** The writers compute the end of a zoom record's window as
    `start.saturating_add(resolution)` (32 bits); the model adds natural numbers. For value ends below `u32::MAX` — every end the
    format can hold but the very last coordinate — the bases added (`min windowEnd valueEnd`) and the "record complete" test
    (`addEnd = windowEnd`) are the same either way, whatever the start and the resolution; at `valueEnd = u32::MAX` the bases added still
    agree (the record is then closed one step earlier, at the end of the chromosome's last possible base). -/
theorem C07_saturating_window_end_is_exact (start res valueEnd : Nat) (he : valueEnd ≤ 4294967295) :
    min (min (start + res) 4294967295) valueEnd = min (start + res) valueEnd ∧
    (valueEnd < 4294967295 →
      (min (min (start + res) 4294967295) valueEnd = min (start + res) 4294967295 ↔ min (start + res) valueEnd = start + res)) := by
  constructor
  · omega
  · intro h; omega

/-- non-vacuity: the reported D25 input — a record starting at 3355443200 at resolution 2684354560 — is beyond 32 bits unsaturated -/
example : 3355443200 + 2684354560 > 4294967295 ∧ min (min (3355443200 + 2684354560) 4294967295) 3355443250 = 3355443250 := by decide
