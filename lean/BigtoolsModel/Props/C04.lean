import BigtoolsModel.AtomsSearch
import BigtoolsModel.AtomsRB
import BigtoolsModel.FileOfBed
import BigtoolsModel.FiltersGen
import BigtoolsModel.OverlapsGen
import BigtoolsModel.BlockSpan
import BigtoolsModel.Query
import BigtoolsModel.BedQueryBytes
/-! # C04 — bigBed range queries miss no overlapping entry and return no disjoint one

Property theorems (statements copied from the lemma modules, proofs by those lemmas). -/

namespace BBI
open RT CD

/-- **C02 for the model writer (little-endian, uncompressed, repaired span rule): write, then read.** For every
    valid input (any number of chromosomes with distinct names, each with entries sorted by start — overlapping,
    nested, identical entries allowed, however long earlier entries are), every `items_per_slot ≥ 1` and fan-out
    `≥ 2`: querying chromosome `j` over any range on the written bytes returns exactly that chromosome's input
    entries passing the reader's inclusive filter, once each, in stored order. -/
theorem C04_range_query_is_inclusive_filter (o : BOpts) (cs : List ChromBedIn) (h : ValidBedInput o cs) (j : Nat) (hj : j < cs.length)
    (qs qe : Nat) :
    ∃ fuel₀, ∀ fuel, fuel₀ ≤ fuel →
      getBedIntervalF fuel (bedFileOf o cs).bytes (cs[j].name.map UInt8.ofNat) qs qe =
        .ok (.ok (cs[j].entries.filter (bedKeep qs qe))) :=
  bed_model_roundtrip o cs h j hj qs qe

/-- **bigBed query over bytes (repaired span rule).** -/
theorem C04_byte_level_query (b : Nat) (hb : 2 ≤ b) (hb16 : b < 256 ^ 2) (ds : List BSec) (hne : ds ≠ [])
    (hsorted : LoSorted (ds.map BSec.sec)) (hok : ∀ d ∈ ds, BSecOK d)
    (l : List Nat) (hl : l.length < 256 ^ 8) (hsecs : ∀ d ∈ ds, Has l d.off d.bytes)
    (Ls : List (List T)) (hLs : levelsOf true b (ds.map BSec.sec) = some Ls) (idx : Nat)
    (hidx : Has l idx (body b idx Ls)) (c qs qe : Nat) :
    ∃ fuel blocks, searchCir .little (srcOf l) 24 c qs qe fuel [idx] [] = .ok blocks ∧
      goBedBlocks l c qs qe blocks =
        .ok (((ds.filter fun d => d.chrom = c).flatMap (·.items)).filter (bedKeep qs qe)) :=
  bed_query_bytes b hb hb16 ds hne hsorted hok l hl hsecs Ls hLs idx hidx c qs qe

end BBI

namespace RT

/-- **C04 (repaired writer).** Any start-sorted entry lists, any `items_per_slot > 0`, any range: the entries
    read from the candidate blocks the index yields are exactly the stored entries of the chromosome that pass
    the reader's inclusive filter, each once, in stored order — however long earlier entries are. -/
theorem C04_query_through_index_candidates (ips : Nat) (chroms : List (Nat × List Item)) (h : ∀ c ∈ chroms, StartSorted c.2)
    (c s e : Nat) :
    queryVia (bedKeep s e) id (candidates (fileBlocks true ips chroms) c s e) c =
      querySpec (bedKeep s e) id (fileBlocks true ips chroms) c :=
  bed_query_complete ips chroms h c s e

theorem C04_block_spans_cover_their_entries (ips chrom : Nat) (items : List Item) (h : StartSorted items) :
    SpansCover (cut true ips chrom items) :=
  cut_spansCover_fixed ips chrom items h

/-- as found, the bigBed rule does not cover: the failing file of D2 -/
theorem C04_last_end_rule_does_not_cover : ¬ SpansCover (cut false 2 0 [⟨0, 1000, 0⟩, ⟨10, 20, 1⟩, ⟨30, 40, 2⟩, ⟨50, 60, 3⟩]) :=
  asFound_not_cover 

/-- without span coverage an overlapping entry is lost: the confirmed failing case (D2) -/
theorem C04_query_misses_without_cover :
    queryVia (bedKeep 500 600) id (candidates [⟨0, 0, 20, [⟨0,1000,0⟩, ⟨10,20,1⟩]⟩, ⟨0, 30, 60, [⟨30,40,2⟩, ⟨50,60,3⟩]⟩] 0 500 600) 0 = [] ∧
    querySpec (bedKeep 500 600) id [⟨0, 0, 20, [⟨0,1000,0⟩, ⟨10,20,1⟩]⟩, ⟨0, 30, 60, [⟨30,40,2⟩, ⟨50,60,3⟩]⟩] 0 = [⟨0,1000,0⟩] :=
  bed_query_misses_without_cover

end RT

namespace RT

/-- **The code's own pruning predicate.** `Gen.overlaps` is regenerated from the Rust source of `overlaps` (and of the
    functions it calls) in bbiread.rs on every run; for all arguments it is the `ov` with which the search theorems
    of bigBed range queries are stated. A change to the source that alters the predicate breaks this obligation. -/
theorem C04_source_overlaps_is_the_models_ov (q qs qe b1 b1s b2 b2e : Nat) :
    Gen.overlaps q qs qe b1 b1s b2 b2e = ov ⟨q, qs⟩ ⟨q, qe⟩ ⟨b1, b1s⟩ ⟨b2, b2e⟩ :=
  gen_overlaps_eq_ov q qs qe b1 b1s b2 b2e

end RT

namespace BBI
open CD

/-- **The code's own range filter, bigBed**: the `if` condition of `get_block_entries` that mentions both query bounds,
    regenerated from bigbedread.rs on every run, is the `bedKeep` of the query theorems. -/
theorem C04_source_filter_is_bedKeep (qs qe : Nat) (x : Entry) : Gen.bed_keep x.s x.e qs qe = bedKeep qs qe x :=
  gen_bed_filter qs qe x

end BBI

/-- **Tie to the source: every block of a well-formed file is fetched, however well it compresses** (bigBed range queries). The reader theorems
    take `inflate` as a total function; the real `zlib_decompress` fails when the block inflates to more than the buffer it is given.
    With the lengths `read_block_data` uses — regenerated from bbiread.rs on every run: `block.size` bytes read, a buffer of exactly
    the header's `uncompress_buf_size` — a block holding `deflate x` with `|x| ≤ uncompress_buf_size` (what both well-formedness
    judges require of every block) is fetched as `x`, for every codec and every compressed size; an uncompressed file's block is
    the bytes themselves. -/
theorem C04_source_block_fetch (z : BBI.Zlib) (ubs : Nat) (l x : List Nat) (off : Nat) (hx : x.length ≤ ubs) :
    (0 < ubs → BBI.Has l off (z.deflate x) → RB.fetch z ubs l ⟨off, (z.deflate x).length⟩ = some x) ∧
    (BBI.Has l off x → RB.fetch z 0 l ⟨off, x.length⟩ = some x) :=
  ⟨fun hu h => RB.fetch_compressed z ubs l x off hu hx h, fun h => RB.fetch_raw z l x off h⟩

/-- **Tie to the source: the search's entry points.** The index is searched with the chromosome id stored in the chromosome tree (a file's
    ids need not follow the order of its names), nothing makes `search_cir_tree` answer before the index is walked (a query may lie
    beyond the declared chromosome length: bigBed entries may reach there), and every block the walk yields is collected (the walk is
    not cut after some number of nodes) — regenerated from bbiread.rs on every run. -/
theorem C04_source_search_entry_points (cid ix : Nat) :
    Gen.sc_chrom_id cid ix = cid ∧ Gen.sc_early_returns = [] ∧ Gen.sc_walk_adaptors = [] :=
  SC.gen_search_entry cid ix
