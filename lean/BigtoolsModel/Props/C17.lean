import BigtoolsModel.Stats
import BigtoolsModel.Stats2
import BigtoolsModel.ChunkLines
import BigtoolsModel.PyBase
import BigtoolsModel.AtomsCH
import BigtoolsModel.AtomsSF
import BigtoolsModel.AtomsST
import BigtoolsModel.OverlapsGen
/-! # C17 — per-region bigWig statistics and values are exact and thread-count independent

Property theorems (statements copied from the lemma modules, proofs by those lemmas). -/

namespace ST

/-- **Per-region statistics.** For any stored values and any region, the bases and sum reported are the
    coverage and the weighted sum of the stored values restricted to the region. -/
theorem C17_size_bases_sum_equal_the_stored_values_inside_the_region (s e : Nat) (stored : List Val) :
    (stats s e (query s e stored)).bases = cov stored s e ∧
    (stats s e (query s e stored)).sum = wsum stored s e ∧
    (stats s e (query s e stored)).size = e - s :=
  stats_eq s e stored

/-- **Per-region extrema.** For any stored non-empty values and any non-empty region, the reported minimum and maximum
    are those of the stored values overlapping the region, and NaN exactly when none does. -/
theorem C17_min_max_equal_the_extrema_of_the_overlapping_values (s e : Nat) (hse : s < e) (stored : List Val) (hne : ∀ x ∈ stored, x.s < x.e) :
    reportMin s e (query s e stored) = specMin s e stored ∧
    reportMax s e (query s e stored) = specMax s e stored :=
  minmax_eq s e hse stored hne

/-- an empty region (`start = end` in the BED file) yields zero-length clipped values; nothing is covered and
    NaN is reported whatever the data -/
theorem C17_empty_region_reports_nan (s : Nat) (stored : List Val) : reportMin s s (query s s stored) = none :=
  empty_region s stored

theorem C17_query_returns_clipped_values (s e : Nat) (stored : List Val) :
    (query s e stored).map (·.v) = (stored.filter (overlaps s e)).map (·.v) :=
  query_values s e stored

end ST

namespace CH

/-- **Chunks partition the lines in order.** For every file with non-empty lines and every requested number
    of chunks ≥ 1, reading the chunks one after the other yields line 0, line 1, … exactly once each. -/
theorem C17_rows_in_input_order_for_any_thread_count (ls : List Nat) (hl : Lines ls) (chunks : Nat) (hc : 1 ≤ chunks) :
    (split ls chunks).flatMap (fun c => linesIn 0 0 ls c.1 c.2) = List.range ls.length :=
  chunks_partition_lines ls hl chunks hc

/-- **Thread-count independence of the output rows**: a per-row function `row` (name and statistics of the region on that
    line) applied chunk by chunk gives the same rows in the same order for any two thread counts. -/
theorem C17_rows_agree_for_any_two_thread_counts {α : Type} (row : Nat → α) (ls : List Nat) (hl : Lines ls) (c₁ c₂ : Nat)
    (h₁ : 1 ≤ c₁) (h₂ : 1 ≤ c₂) :
    ((split ls c₁).flatMap (fun c => linesIn 0 0 ls c.1 c.2)).map row = ((split ls c₂).flatMap (fun c => linesIn 0 0 ls c.1 c.2)).map row := by
  rw [chunks_partition_lines ls hl c₁ h₁, chunks_partition_lines ls hl c₂ h₂]

end CH

namespace PYB

/-- **C03, `BigWigRead::values`.** For every range and every list of block values clipped to it, the array
    holds at base `start + i` the value of the last returned item covering it (the only one, values being
    disjoint) and `none` (NaN) where nothing covers it; no slice is out of bounds. -/
theorem C17_values_over_bed_per_base (start : Int) (L : Nat) (items : List Item)
    (hclip : ∀ it ∈ items, start ≤ it.s ∧ it.s ≤ it.e ∧ (it.e : Int) ≤ start + L) :
    perBaseG assign false start (start + L) items =
      .ok ((List.range L).map fun i => (covering start items i).getLast?.map (·.w)) :=
  values_spec start L items hclip

end PYB

namespace CH

/-- **The code's own chunking arithmetic** (the BED file of `bigwigaverageoverbed -t N` is cut by `split_file_into_chunks_by_size`,
    regenerated from the source) is the model's `split`, the function `C17_rows_in_input_order_for_any_thread_count` rests on. -/
theorem C17_source_chunker_is_the_models (ls : List Nat) (chunks : Nat) : splitGen ls chunks = split ls chunks :=
  gen_chunker ls chunks

end CH

namespace ST

/-- **The code's own accumulation in `stats_for_bed_item`** (regenerated from the source): a clipped value of `n` bases and
    value `v` adds `n` covered bases and `n·v` to the sum and moves the running extrema by `min` / `max`; the extrema start
    from the largest / smallest finite `f64`. -/
theorem C17_source_region_statistics_accumulation (n v a b : Int) :
    Gen.st_bases_add n v a b = n ∧ Gen.st_sum_add n v a b = n * v ∧ Gen.st_min n v a b = min a v ∧ Gen.st_max n v a b = max b v ∧
    Gen.st_min_init = .posMax ∧ Gen.st_max_init = .negMax :=
  ⟨(gen_region_stats_atoms n v a b).1, (gen_region_stats_atoms n v a b).2.1, (gen_region_stats_atoms n v a b).2.2.1,
   (gen_region_stats_atoms n v a b).2.2.2, SF.gen_extrema_start.2.2.2.2.1, SF.gen_extrema_start.2.2.2.2.2⟩

end ST

namespace RT

/-- **The code's own index-pruning predicate.** `Gen.overlaps` (regenerated from `overlaps` and the functions it calls in
    bbiread.rs on every run) is, for all arguments, the `ov` with which the search theorems are stated; the per-region statistics and values are computed from range queries over that index. -/
theorem C17_source_overlaps_is_the_models_ov (q qs qe b1 b1s b2 b2e : Nat) :
    Gen.overlaps q qs qe b1 b1s b2 b2e = ov ⟨q, qs⟩ ⟨q, qe⟩ ⟨b1, b1s⟩ ⟨b2, b2e⟩ :=
  gen_overlaps_eq_ov q qs qe b1 b1s b2 b2e

end RT
