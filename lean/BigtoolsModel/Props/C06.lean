import BigtoolsModel.SummaryFold
import BigtoolsModel.BedSummary
import BigtoolsModel.SweepProof
import BigtoolsModel.SweepStats
import BigtoolsModel.AtomsSweep
import BigtoolsModel.AtomsCut
import BigtoolsModel.AtomsSF
import BigtoolsModel.AtomsBSUM
/-! # C06 — whole-file summary statistics equal the statistics of the written data

Property theorems (statements copied from the lemma modules, proofs by those lemmas). -/

namespace SF

/-- one chromosome: the summary is the statistics of its values -/
theorem C06_wig_chromosome_summary (vals : List Val) : chromSummary vals = spec vals :=
  chromSummary_eq vals

/-- **Total summary, bigWig.** Any number of chromosomes, each with at least one value, all values non-empty:
    merging the per-chromosome summaries gives the statistics of all stored values. -/
theorem C06_wig_total_summary (c : List Val) (cs : List (List Val)) (hc : Pos c) (hcs : ∀ x ∈ cs, Pos x) :
    mergeAll true ((c :: cs).map chromSummary) = spec (c ++ cs.flatten) :=
  total_summary_eq c cs hc hcs

/-- D17, as found: a chromosome that covers nothing (reporting 0/0) drags the minimum to 0 -/
theorem C06_zero_coverage_chromosome_pollutes_min :
    (merge false ⟨2, 10, 2, 2, 20, 40⟩ ⟨1, 0, 0, 0, 0, 0⟩).mn = 0 ∧
    (merge true ⟨2, 10, 2, 2, 20, 40⟩ ⟨1, 0, 0, 0, 0, 0⟩).mn = 2 :=
  zero_chrom_pollutes_as_found 

end SF

namespace SW

/-- **Coverage sweep (zoom tail rule) represents the depth function.** For every start-sorted list of
    well-formed entries, the segments the sweep emits have, at every position, exactly the number of
    entries covering that position; nothing is left behind. -/
theorem C06_bed_segments_carry_the_depth (inf : Nat) (x : Nat × Nat) (rest : List (Nat × Nat))
    (hv : Valid inf x.1 (x :: rest)) (p : Nat) :
    segDepth (sweepAll inf (x :: rest) [] []).1 p = depth (x :: rest) p :=
  sweep_represents_depth inf x rest hv p

/-- **Covered bases.** The `bases_covered` the writer accumulates is the number of bases covered by at
    least one entry (each counted once, however many entries overlap it). -/
theorem C06_bed_bases_covered (inf : Nat) (x : Nat × Nat) (rest : List (Nat × Nat)) (hv : Valid inf x.1 (x :: rest)) :
    segBases (sweepAll inf (x :: rest) [] []).1 =
      rangeSum (fun p => if depth (x :: rest) p > 0 then 1 else 0) inf :=
  summary_bases_eq inf x rest hv

/-- **Total sum.** With everything emitted in order inside `[0, N)`, the `sum` field of the summary is the
    sum over all bases of the number of entries covering the base. -/
theorem C06_bed_sum (inf : Nat) (x : Nat × Nat) (rest : List (Nat × Nat)) (hv : Valid inf x.1 (x :: rest)) :
    segSum (sweepAll inf (x :: rest) [] []).1 = rangeSum (depth (x :: rest)) inf :=
  summary_sum_eq inf x rest hv

/-- **Sum of squares.** -/
theorem C06_bed_sum_squares (inf : Nat) (x : Nat × Nat) (rest : List (Nat × Nat)) (hv : Valid inf x.1 (x :: rest)) :
    segSum (reweight (fun d => d * d) (sweepAll inf (x :: rest) [] []).1) =
      rangeSum (fun p => depth (x :: rest) p * depth (x :: rest) p) inf :=
  summary_sumsq_eq inf x rest hv

/-- **Minimum and maximum (repaired rule: zero-length pieces are ignored).** The depths of the emitted
    segments of positive length are exactly the depths the entries reach on covered bases: every such
    segment's depth is the coverage at a base, and every covered base lies in such a segment carrying its
    coverage. Hence min and max over those segments are min and max of the coverage over covered bases. -/
theorem C06_bed_min_max (inf : Nat) (x : Nat × Nat) (rest : List (Nat × Nat)) (hv : Valid inf x.1 (x :: rest)) :
    (∀ g ∈ (sweepAll inf (x :: rest) [] []).1, g.s < g.e → ∃ p, g.s ≤ p ∧ p < g.e ∧ depth (x :: rest) p = g.d) ∧
    (∀ p, depth (x :: rest) p > 0 →
        ∃ g ∈ (sweepAll inf (x :: rest) [] []).1, g.s < g.e ∧ g.s ≤ p ∧ p < g.e ∧ g.d = depth (x :: rest) p) :=
  summary_minmax_exact inf x rest hv

theorem C06_tail_rule_as_found_undercounts :
    segDepth (sweepAllAsFound 1000 [(0,10),(5,15)] [] []).1 12 = 0 ∧ depth [(0,10),(5,15)] 12 = 1 :=
  summary_rule_as_found_undercounts 

/-- D16: a zero-length piece left in the sweep list carries depth 5 where the deepest coverage is 4 -/
theorem C06_zero_length_piece_pollutes_max :
    maxAll (sweepAll 1000 [(0,20),(0,10),(0,10),(10,20),(10,20),(10,20)] [] []).1 = 5 ∧
    maxNonEmpty (sweepAll 1000 [(0,20),(0,10),(0,10),(10,20),(10,20),(10,20)] [] []).1 = 4 :=
  phantom_pollutes_max

end SW

namespace BSUM

/-- bigBed, across chromosomes: merging two chromosomes' summaries = the summary of all their emitted segments
    (a chromosome covering nothing contributes nothing; zero-length pieces are ignored). -/
theorem C06_bed_cross_chromosome_merge (a b : List SW.Seg) : merge (ofSegs a) (ofSegs b) = ofSegs (a ++ b) :=
  merge_ofSegs a b

/-- … for any number of chromosomes -/
theorem C06_bed_total_summary_over_all_chromosomes (c : List SW.Seg) (cs : List (List SW.Seg)) :
    (cs.map ofSegs).foldl merge (ofSegs c) = ofSegs (c ++ cs.flatten) :=
  mergeAll_ofSegs c cs

end BSUM

namespace Sweep

/-- **The code's own summary sweep** (`add_interval_to_summary` in bigbedwrite.rs `process_val`): increment-and-split, tail rule
    and flush loop assembled from the tests regenerated from the source are the model's `bump`, `tailZoom` (the rule the
    repaired summary sweep shares with the zoom sweep) and `flush`; a partly flushed piece has length `next_start − start`
    and zero-length pieces are skipped; a bigWig value contributes `end − start` bases. -/
theorem C06_source_summary_sweep_is_the_models (itemStart itemEnd nextStart fuel s len e : Nat) (l : List Seg) :
    bumpGen false itemEnd l = bump itemEnd l ∧ tailGen false itemStart itemEnd l = tailZoom itemStart itemEnd l ∧
    flushGen false nextStart fuel l = flush nextStart fuel l ∧
    Gen.bs_part_len nextStart s = nextStart - s ∧ Gen.bs_skip len = decide (len = 0) ∧ Gen.wig_len e s = e - s :=
  ⟨gen_bump false itemEnd l, gen_tail false itemStart itemEnd l, gen_flush false nextStart fuel l,
   (gen_summary_piece nextStart s len).1, (gen_summary_piece nextStart s len).2, SectionCut.gen_wig_len e s⟩

end Sweep

namespace SF

/-- **The code's own summary update of the bigWig writers** (regenerated from `process_val`): what a value adds to covered
    bases, sum and sum of squares and how the running extrema move — one step of the summary fold with those expressions is
    the model's `step`. The extrema of BOTH writers (single pass, two pass) start from the largest / smallest finite `f64`. -/
theorem C06_source_wig_summary_update_is_the_models (r : Run) (x : Val) :
    stepGen r x = step r x ∧ Gen.ws_min_init_full = .posMax ∧ Gen.ws_max_init_full = .negMax ∧
    Gen.ws_min_init_nozoom = .posMax ∧ Gen.ws_max_init_nozoom = .negMax :=
  ⟨gen_wig_summary_step r x, gen_extrema_start.1, gen_extrema_start.2.1, gen_extrema_start.2.2.1, gen_extrema_start.2.2.2.1⟩

end SF

namespace BSUM
open SW

/-- **The code's own summary update of the bigBed writer** (regenerated from the `match summary` of `process_val`): seeding
    from the first flushed piece and adding later ones, with the source's expressions, is `addSeg`; and folding `addSeg` over
    the pieces of positive length gives the chromosome summary `ofSegs` that the C06 theorems are about. -/
theorem C06_source_bed_summary_update_is_the_models (st : Option Sm) (g : Seg) (l : List Seg)
    (hpos : ∀ g ∈ l, g.s < g.e) (hne : l ≠ []) :
    addSegGen st g = addSeg st g ∧ l.foldl addSeg none = some (ofSegs l) :=
  ⟨gen_bed_summary_step st g, foldl_addSeg_eq_ofSegs l hpos hne⟩

end BSUM


/-- **Tie to the source: entries that reach past the chromosome end are counted in full.** The summary sweep and the zoom sweep drain what is
    still open after a chromosome's last entry up to `u32::MAX` (regenerated), above every coordinate — not up to the declared length. -/
theorem C06_source_final_drain_is_unbounded (chromLength e : Nat) (he : e < 2 ^ 32) :
    e ≤ Gen.bs_final_bound chromLength ∧ e ≤ Gen.bzs_final_bound chromLength :=
  ⟨(Sweep.gen_final_bound chromLength e he).2.2.1, (Sweep.gen_final_bound chromLength e he).2.2.2⟩
