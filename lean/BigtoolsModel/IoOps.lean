/-! Probe (C14): (1) the destination's first four bytes stay zero until the real header is written, for every
    prefix of the operations that reach it; (2) a `BufWriter` whose last bytes are flushed only by `drop`
    hides a failing destination, an explicit final flush does not. -/
namespace IO14

/-- destination: bytes written so far (sparse writes past the end pad with zeros, like a file) -/
structure Dest where
  mem : List Nat
  pos : Nat
deriving Repr, DecidableEq

def writeAt (mem : List Nat) (pos : Nat) (bs : List Nat) : List Nat :=
  let padded := mem ++ List.replicate (pos - mem.length) 0
  padded.take pos ++ bs ++ padded.drop (pos + bs.length)

inductive Op where
  | write (bs : List Nat)
  | seek (pos : Nat)
deriving Repr, DecidableEq

def apply (d : Dest) : Op → Dest
  | .write bs => { mem := writeAt d.mem d.pos bs, pos := d.pos + bs.length }
  | .seek p => { d with pos := p }

def run (d : Dest) (ops : List Op) : Dest := ops.foldl apply d

/-- the phase before `write_info`: blank header first, then only sequential writes (no seek back) -/
def Sequential : List Op → Prop
  | [] => True
  | .write _ :: rest => Sequential rest
  | .seek _ :: _ => False

theorem writeAt_prefix (mem bs : List Nat) (pos k : Nat) (hk : k ≤ pos) (hm : k ≤ mem.length) :
    (writeAt mem pos bs).take k = mem.take k := by
  unfold writeAt
  rw [List.take_append_of_le_length (by simp; omega), List.take_append_of_le_length (by simp; omega),
      List.take_take, Nat.min_eq_left hk, List.take_append_of_le_length hm]

theorem sequential_keeps_prefix (k : Nat) : ∀ (ops : List Op) (d : Dest), Sequential ops → k ≤ d.pos → k ≤ d.mem.length →
    (run d ops).mem.take k = d.mem.take k := by
  intro ops
  induction ops with
  | nil => intro d _ _ _; rfl
  | cons op rest ih =>
    intro d hs hp hm
    cases op with
    | seek p => exact absurd hs (by simp [Sequential])
    | write bs =>
      simp only [run, List.foldl_cons, apply]
      have hlen : k ≤ (writeAt d.mem d.pos bs).length := by
        unfold writeAt; simp; omega
      have := ih { mem := writeAt d.mem d.pos bs, pos := d.pos + bs.length } hs (by simp; omega) hlen
      simp only [run] at this
      rw [this, writeAt_prefix d.mem bs d.pos k hp hm]

/-- **Header last.** After the blank header (`n0 ≥ 4` zero bytes at offset 0; 304 in the code) every
    prefix of the sequential phase leaves the magic number zero, so an interrupted file is not a BBI file. -/
theorem magic_zero_until_header (n0 : Nat) (h0 : 4 ≤ n0) (ops : List Op) (hs : Sequential ops) (n : Nat) :
    (run { mem := [], pos := 0 } (.seek 0 :: .write (List.replicate n0 0) :: ops.take n)).mem.take 4 = [0, 0, 0, 0] := by
  have hseq : Sequential (ops.take n) := by
    induction ops generalizing n with
    | nil => simp [Sequential]
    | cons op rest ih =>
      cases n with
      | zero => simp [Sequential]
      | succ n => cases op <;> simp_all [Sequential]
  simp only [run, List.foldl_cons, apply]
  have hw : writeAt [] 0 (List.replicate n0 0) = List.replicate n0 0 := by
    simp only [writeAt, List.length_nil, Nat.sub_self, List.replicate_zero, List.append_nil, List.take_nil,
      List.nil_append, List.drop_nil]
  rw [hw]
  have := sequential_keeps_prefix 4 (ops.take n)
    { mem := List.replicate n0 0, pos := 0 + (List.replicate n0 0).length }
    hseq (by simp only [List.length_replicate]; omega) (by simp only [List.length_replicate]; omega)
  simp only [run] at this
  rw [this, List.take_replicate, Nat.min_eq_left h0]
  rfl

/-! ### a buffered writer over a destination that fails at its `k`-th operation -/

structure Sink where
  ops : Nat           -- destination operations issued so far
  failAt : Nat        -- the `failAt`-th operation fails (1-based; 0 = never)
deriving Repr, DecidableEq

def Sink.op (s : Sink) : Except Unit Sink :=
  let s' := { s with ops := s.ops + 1 }
  if s'.ops = s.failAt then .error () else .ok s'

structure BufW where
  buffered : Nat      -- bytes waiting in the buffer
  sink : Sink
deriving Repr, DecidableEq

inductive Cmd where
  | write (n : Nat)   -- n bytes into the buffer (spills when it exceeds the capacity)
  | seek
  | flush
deriving Repr, DecidableEq

def cap : Nat := 8192

def flushB (b : BufW) : Except Unit BufW :=
  if b.buffered = 0 then .ok b else
  match b.sink.op with
  | .ok s => .ok { buffered := 0, sink := s }
  | .error e => .error e

def step (b : BufW) : Cmd → Except Unit BufW
  | .write n =>
    if b.buffered + n ≤ cap then .ok { b with buffered := b.buffered + n }
    else match flushB b with
      | .ok b' => .ok { b' with buffered := n }
      | .error e => .error e
  | .seek => match flushB b with
      | .ok b' => (match b'.sink.op with | .ok s => .ok { b' with sink := s } | .error e => .error e)
      | .error e => .error e
  | .flush => flushB b

def runCmds (b : BufW) : List Cmd → Except Unit BufW
  | [] => .ok b
  | c :: cs => match step b c with
    | .ok b' => runCmds b' cs
    | .error e => .error e

/-- what the caller sees, and whether the destination really failed (dropping the writer flushes, errors lost) -/
def outcome (prog : List Cmd) (failAt : Nat) : Bool × Bool :=
  match runCmds { buffered := 0, sink := { ops := 0, failAt := failAt } } prog with
  | .error _ => (false, true)
  | .ok b => (true, match flushB b with | .ok _ => false | .error _ => true)

/-- the shape of the tail of `write_info` as found: seek to the end, write the magic, return -/
theorem drop_flush_hides_failure : outcome [.seek, .write 4] 2 = (true, true) := by decide

theorem flushB_ok_empties (b b' : BufW) (h : flushB b = .ok b') : b'.buffered = 0 := by
  unfold flushB at h
  split at h
  · cases h; assumption
  · split at h
    · cases h; rfl
    · cases h

/-- **With an explicit final flush** a successful return means the destination did not fail: nothing is left
    for `drop` to flush. -/
theorem explicit_flush_reports (prog : List Cmd) (failAt : Nat) :
    (outcome (prog ++ [.flush]) failAt).1 = true → (outcome (prog ++ [.flush]) failAt).2 = false := by
  unfold outcome
  generalize hb0 : ({ buffered := 0, sink := { ops := 0, failAt := failAt } } : BufW) = b0
  clear hb0
  induction prog generalizing b0 with
  | nil =>
    simp only [List.nil_append, runCmds, step]
    cases hf : flushB b0 with
    | error e => simp
    | ok b' =>
      simp only
      have := flushB_ok_empties b0 b' hf
      simp [flushB, this]
  | cons c cs ih =>
    simp only [List.cons_append, runCmds]
    cases hs : step b0 c with
    | error e => simp
    | ok b1 => exact ih b1

end IO14
