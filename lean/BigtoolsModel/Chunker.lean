/-! Probe (C18/C17): `split_file_into_chunks_by_size` cuts only at line starts, covers the file exactly
    once, in order, and terminates — for every file and every requested chunk count. -/
namespace CH

/-- line boundaries of a file given the byte lengths of its lines: 0, l₁, l₁+l₂, …, size -/
def bounds : Nat → List Nat → List Nat
  | off, [] => [off]
  | off, l :: ls => off :: bounds (off + l) ls

def size (ls : List Nat) : Nat := ls.sum

/-- where `read_line` leaves the cursor when started at byte `pos` (anywhere, also mid-line):
    the first line boundary after `pos`, or `pos` itself at end of file -/
def lineEndAfter : Nat → List Nat → Nat → Nat
  | off, [], _ => off
  | off, l :: ls, pos => if pos < off + l then off + l else lineEndAfter (off + l) ls pos

def loop (ls : List Nat) (fileSize chunkSize : Nat) : Nat → Nat → Nat → List (Nat × Nat)
  | 0, _, _ => []
  | fuel + 1, start, end_ =>
    let lineEnd := lineEndAfter 0 ls end_
    let start' := lineEnd
    let end' := min (max lineEnd (start + chunkSize + chunkSize)) fileSize
    (start, lineEnd) :: (if start' ≥ fileSize then [] else loop ls fileSize chunkSize fuel start' end')

def split (ls : List Nat) (chunks : Nat) : List (Nat × Nat) :=
  let fileSize := size ls
  let chunkSize := fileSize / chunks
  loop ls fileSize chunkSize (fileSize + 1) 0 chunkSize

/-- every line has at least one byte (its newline, or content for an unterminated last line) -/
def Lines (ls : List Nat) : Prop := ∀ l ∈ ls, 1 ≤ l

theorem lineEndAfter_mem (ls : List Nat) : ∀ (off pos : Nat), lineEndAfter off ls pos ∈ bounds off ls := by
  induction ls with
  | nil => intro off pos; simp [lineEndAfter, bounds]
  | cons l ls ih =>
    intro off pos
    simp only [lineEndAfter, bounds]
    split
    · right
      cases ls <;> simp only [bounds] <;> exact List.mem_cons_self
    · right; exact ih (off + l) pos

theorem lineEndAfter_gt (ls : List Nat) (hl : Lines ls) : ∀ (off pos : Nat), off ≤ pos → pos < off + ls.sum →
    pos < lineEndAfter off ls pos ∧ lineEndAfter off ls pos ≤ off + ls.sum := by
  induction ls with
  | nil => intro off pos h1 h2; simp at h2; omega
  | cons l ls ih =>
    intro off pos h1 h2
    simp only [lineEndAfter, List.sum_cons] at *
    split
    · omega
    · have := ih (fun x hx => hl x (by simp [hx])) (off + l) pos (by omega) (by omega)
      omega

theorem lineEndAfter_eof (ls : List Nat) : ∀ (off pos : Nat), off + ls.sum ≤ pos →
    lineEndAfter off ls pos = off + ls.sum := by
  induction ls with
  | nil => intro off pos _; simp [lineEndAfter]
  | cons l ls ih =>
    intro off pos h
    simp only [lineEndAfter, List.sum_cons] at *
    have : ¬ (pos < off + l) := by omega
    rw [if_neg this, ih (off + l) pos (by omega)]; omega

/-- chunks are contiguous from `start`, end at the file size, and every cut is a line boundary -/
def Good (ls : List Nat) (start : Nat) : List (Nat × Nat) → Prop
  | [] => False
  | [c] => c.1 = start ∧ c.2 = size ls ∧ c.2 ∈ bounds 0 ls
  | c :: d :: rest => c.1 = start ∧ c.2 ∈ bounds 0 ls ∧ c.1 < c.2 ∧ Good ls c.2 (d :: rest)

theorem loop_good (ls : List Nat) (hl : Lines ls) (chunkSize : Nat) : ∀ (fuel start end_ : Nat),
    start ≤ end_ → end_ ≤ size ls → (start < size ls ∨ size ls = 0) → size ls - start < fuel →
    Good ls start (loop ls (size ls) chunkSize fuel start end_) := by
  intro fuel
  induction fuel with
  | zero => intro start end_ _ _ _ h; omega
  | succ fuel ih =>
    intro start end_ h1 h2 h3 h4
    simp only [loop]
    have hmem := lineEndAfter_mem ls 0 end_
    by_cases hend : end_ < size ls
    · have hgt := lineEndAfter_gt ls hl 0 end_ (by omega) (by simpa [size] using hend)
      simp only [Nat.zero_add] at hgt
      by_cases hfin : lineEndAfter 0 ls end_ ≥ size ls
      · simp only [hfin, if_true]
        exact ⟨rfl, by simp only [size] at *; omega, hmem⟩
      · simp only [hfin, if_false]
        have hrec := ih (lineEndAfter 0 ls end_)
          (min (max (lineEndAfter 0 ls end_) (start + chunkSize + chunkSize)) (size ls))
          (by simp only [size] at *; omega) (by omega) (Or.inl (by omega)) (by omega)
        -- the recursive call produces at least one chunk
        cases hrest : loop ls (size ls) chunkSize fuel (lineEndAfter 0 ls end_)
            (min (max (lineEndAfter 0 ls end_) (start + chunkSize + chunkSize)) (size ls)) with
        | nil => rw [hrest] at hrec; exact absurd hrec (by simp [Good])
        | cons d rest =>
          rw [hrest] at hrec
          exact ⟨rfl, hmem, by simp only []; omega, hrec⟩
    · have heq : end_ = size ls := by omega
      have he := lineEndAfter_eof ls 0 end_ (by simp only [size] at *; omega)
      simp only [Nat.zero_add] at he
      have hfin : lineEndAfter 0 ls end_ ≥ size ls := by simp only [size] at *; omega
      simp only [hfin, if_true]
      exact ⟨rfl, by simp only [size] at *; omega, hmem⟩

/-- **Chunker.** For every file (list of line lengths) and every requested number of chunks ≥ 1, the
    chunks start at 0, each starts where the previous one ended, the last ends at the file size, and
    every cut is a line boundary. -/
theorem split_good (ls : List Nat) (hl : Lines ls) (chunks : Nat) (hc : 1 ≤ chunks) :
    Good ls 0 (split ls chunks) := by
  unfold split
  have hdiv : size ls / chunks ≤ size ls := Nat.div_le_self _ _
  apply loop_good ls hl _ _ 0 _ (Nat.zero_le _) hdiv
  · by_cases h : size ls = 0
    · exact Or.inr h
    · exact Or.inl (by omega)
  · omega

end CH
