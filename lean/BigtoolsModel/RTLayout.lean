import BigtoolsModel.RTBuild
/-! Probe: level-order layout of the R-tree (`calculate_offsets`, `write_tree`): the child pointers the
    writer computes are the byte positions at which the children are actually written. -/
namespace RT

/-- child pointers written for the nodes of one level, as `write_tree` computes them:
    `childnode_offset + idx * full`, where `childnode_offset` advances by `children.len() * full`
    from one node to the next (`kidCounts` = number of children of each node of the level, in order). -/
def ptrs (full : Nat) : Nat → List Nat → List (List Nat)
  | _, [] => []
  | off, c :: cs => (List.range c).map (fun idx => off + idx * full) :: ptrs full (off + c * full) cs

/-- byte position of each node of a level when the nodes are written one after the other -/
def positions : Nat → List Nat → List Nat
  | _, [] => []
  | off, sz :: rest => off :: positions (off + sz) rest

/-- every element but the last equals `b` -/
def FullButLast (b : Nat) : List Nat → Prop
  | [] => True
  | [_] => True
  | c :: d :: rest => c = b ∧ FullButLast b (d :: rest)

/-- arithmetic progression `off, off+step, …` of length `n` -/
def arith (off step : Nat) : Nat → List Nat
  | 0 => []
  | n + 1 => off :: arith (off + step) step n

theorem arith_add (step : Nat) : ∀ (m n off : Nat),
    arith off step (m + n) = arith off step m ++ arith (off + m * step) step n := by
  intro m
  induction m with
  | zero => intro n off; simp [arith]
  | succ m ih =>
    intro n off
    rw [show m + 1 + n = (m + n) + 1 by omega]
    simp only [arith, ih, List.cons_append, List.cons.injEq, true_and]
    congr 2
    rw [Nat.add_mul]; omega

theorem range_map_arith (full : Nat) : ∀ (c off : Nat),
    (List.range c).map (fun idx => off + idx * full) = arith off full c := by
  intro c
  induction c with
  | zero => intro off; simp [arith]
  | succ c ih =>
    intro off
    rw [List.range_succ_eq_map, List.map_cons, List.map_map, arith]
    simp only [Nat.zero_mul, Nat.add_zero, List.cons.injEq, true_and]
    rw [← ih (off + full)]
    apply List.map_congr_left
    intro k _
    simp only [Function.comp]
    rw [Nat.succ_mul]; omega

theorem ptrs_flatten (full : Nat) : ∀ (kidCounts : List Nat) (off : Nat),
    (ptrs full off kidCounts).flatten = arith off full kidCounts.sum := by
  intro kidCounts
  induction kidCounts with
  | nil => intro off; simp [ptrs, arith]
  | cons c cs ih =>
    intro off
    simp only [ptrs, List.flatten_cons, List.sum_cons, ih, range_map_arith, arith_add]

theorem positions_full (b hdr isz : Nat) : ∀ (counts : List Nat) (off : Nat), FullButLast b counts →
    positions off (counts.map fun c => hdr + isz * c) = arith off (hdr + isz * b) counts.length := by
  intro counts
  induction counts with
  | nil => intro off _; simp [positions, arith]
  | cons c cs ih =>
    intro off h
    cases cs with
    | nil => simp [positions, arith]
    | cons d rest =>
      obtain ⟨hc, hrest⟩ := h
      subst hc
      simp only [List.map_cons, positions, List.length_cons, arith] at ih ⊢
      rw [ih (off + (hdr + isz * c)) hrest]

theorem chunksF_nil (b fuel : Nat) : chunksF b fuel ([] : List α) = [] := by
  cases fuel <;> simp [chunksF]

theorem chunksF_fullButLast (b : Nat) : ∀ (fuel : Nat) (l : List α), l.length ≤ fuel →
    FullButLast b ((chunksF b fuel l).map List.length) := by
  intro fuel
  induction fuel with
  | zero => intro l _; simp [chunksF, FullButLast]
  | succ fuel ih =>
    intro l hl
    simp only [chunksF]
    split
    · simp [FullButLast]
    · rename_i hc
      have hpos : 0 < l.length := List.length_pos_iff.mpr (fun h' => hc (Or.inr h'))
      have ih' := ih (l.drop b) (by simp only [List.length_drop]; omega)
      simp only [List.map_cons]
      cases hrest : chunksF b fuel (l.drop b) with
      | nil => simp [FullButLast]
      | cons c2 more =>
        rw [hrest] at ih'
        simp only [List.map_cons] at ih' ⊢
        refine ⟨?_, ih'⟩
        -- the remainder is non-empty, hence the first chunk took a full `b`
        have hd : l.drop b ≠ [] := by
          intro h0
          rw [h0, chunksF_nil] at hrest
          simp at hrest
        have : b < l.length := by
          by_cases hlt : b < l.length
          · exact hlt
          · exact absurd (List.drop_eq_nil_of_le (by omega)) hd
        simp [List.length_take]; omega

theorem chunks_fullButLast (b : Nat) (l : List α) : FullButLast b ((chunks b l).map List.length) :=
  chunksF_fullButLast b _ l (Nat.le_refl _)

theorem chunks_lengths_sum (b : Nat) (hb : 0 < b) (l : List α) : ((chunks b l).map List.length).sum = l.length := by
  have := congrArg List.length (chunks_flatten b hb l)
  rw [List.length_flatten] at this
  exact this

/-- **Layout.** Let `lower` be the nodes of one level (each with `items n` entries, built by chunking into
    `b`), `hdr`/`isz` the header and item sizes of that level, and `base` the byte position of the level.
    The child pointers the writer stores in the level above (parents = chunks of `lower`), read in order,
    are exactly the positions at which the nodes of `lower` are written. -/
theorem child_pointers_correct (b hdr isz base : Nat) (hb : 0 < b) (lower : List (List α)) (src : List α)
    (hlower : lower = chunks b src) :
    (ptrs (hdr + isz * b) base ((chunks b lower).map List.length)).flatten =
      positions base (lower.map fun n => hdr + isz * n.length) := by
  rw [ptrs_flatten, chunks_lengths_sum b hb lower]
  have hf : FullButLast b (lower.map List.length) := by rw [hlower]; exact chunks_fullButLast b src
  have := positions_full b hdr isz (lower.map List.length) base hf
  simp only [List.map_map, List.length_map] at this
  rw [← this]
  rfl

end RT
