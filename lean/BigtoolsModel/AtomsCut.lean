import BigtoolsModel.Tiler2
import BigtoolsModel.Sweep
import BigtoolsModel.FView
import BigtoolsModel.IndexerFix
import BigtoolsModel.Chunker
import BigtoolsModel.SummaryFold
import BigtoolsModel.BedSummary
import BigtoolsModel.Stats2
import BigtoolsModel.ZoomLevels
import BigtoolsModel.AtomsNorm
namespace SectionCut

/-- **Section cut** of both writers: a section is handed over after the last item of the chromosome or when it holds
    `min items_per_slot 65535` items (`≥`, so a section never exceeds that: the section header's item count is 16 bits
    wide — D22: as found the cut was at `items_per_slot` alone and a larger section lost its items beyond `count mod 65536`). -/
theorem gen_cut (isLast : Bool) (n ips : Nat) :
    Gen.wig_cut isLast n ips = (isLast || decide (n ≥ min ips 65535)) ∧
    Gen.bed_cut isLast n ips = (isLast || decide (n ≥ min ips 65535)) := by
  delta Gen.wig_cut Gen.bed_cut
  constructor <;> first | rfl | grind | (rw [Bool.eq_iff_iff]; atoms_norm; omega)

/-- consequently: the writers hand a section over no later than at 65535 items, whatever `items_per_slot` says
    (items are pushed one at a time and the test runs after every push) -/
theorem gen_cut_fits_u16 (isLast : Bool) (n ips : Nat) (h : n ≥ 65535) :
    Gen.wig_cut isLast n ips = true ∧ Gen.bed_cut isLast n ips = true := by
  obtain ⟨h1, h2⟩ := gen_cut isLast n ips
  rw [h1, h2]
  have : decide (n ≥ min ips 65535) = true := decide_eq_true (by omega)
  simp [this]

/-- the length a bigWig value contributes to the summary -/
theorem gen_wig_len (e s : Nat) : Gen.wig_len e s = e - s := by
  delta Gen.wig_len
  first | rfl | grind | omega

end SectionCut
