import BigtoolsModel.TempBuf
/-! Probe (C12): the consumer programs that do not redirect — `is_real_file_ready`, `len`, and
    `expect_closed_write` — as observations of the states the protocol reaches while the consumer has not
    switched. For every schedule: they block exactly until the producer has dropped, never hit a panic
    branch, `len` reports the number of bytes written and `expect_closed_write` copies exactly those bytes. -/
namespace TB

inductive Obs (α : Type) where
  | blocked            -- still in `cvar.wait`
  | ok (a : α)
  | panic
deriving Repr, DecidableEq

/-- `is_real_file_ready` -/
def readyNow (s : St) : Bool := s.closed.isSome

/-- `len()` -/
def lenNow (s : St) : Obs Nat :=
  match s.closed with
  | none => .blocked
  | some (.real _) => .panic                     -- "Should not have switched already."
  | some fs => .ok (stagedOf fs).length

/-- `expect_closed_write(real)`: what gets written to `real` -/
def copyNow (s : St) : Obs Bytes :=
  match s.closed with
  | none => .blocked
  | some fs =>
    match s.mailbox with
    | some _ => .panic                           -- assert!(real_file.is_none())
    | none =>
      match fs with
      | .real _ => .panic                        -- "Should only be writing to real file."
      | fs => .ok (stagedOf fs)

/-- **C12, non-redirecting consumer programs, every schedule.** -/
theorem unswitched_programs (inmem : Bool) (d0 : Bytes) (ws : List Bytes) (sched : List Act) (s' : St)
    (hr : run (init inmem d0 ws) sched = some s') (hnosw : s'.cpc = .holding d0) :
    (s'.ppc = .dropped →
      readyNow s' = true ∧ lenNow s' = .ok ws.flatten.length ∧ copyNow s' = .ok ws.flatten) ∧
    (s'.ppc ≠ .dropped → readyNow s' = false ∧ lenNow s' = .blocked ∧ copyNow s' = .blocked) := by
  have ⟨hi, hg, hd⟩ := run_inv d0 ws sched _ s' (inv_init inmem d0 ws) (ghost_init inmem d0 ws)
    (by simp [Aux, init]) hr
  obtain ⟨mailbox, pst, todo, issued, ppc, closed, cpc, inmem'⟩ := s'
  simp only at hnosw
  subst hnosw
  simp only [Inv] at hi
  obtain ⟨_, hmb, hclosed, hrest⟩ := hi
  constructor
  · intro hp
    simp only at hp
    subst hp
    simp only at hrest
    obtain ⟨fs, hfs, hnr, hst, _⟩ := hrest
    have ht : todo = [] := hd.1 rfl
    simp only [Ghost, ht, List.flatten_nil, List.append_nil] at hg
    subst hfs
    subst hmb
    cases fs with
    | real d => exact absurd rfl (hnr d)
    | notStarted => simp only [stagedOf] at hst; simp [readyNow, lenNow, copyNow, stagedOf, ← hg, ← hst]
    | staged m bs => simp only [stagedOf] at hst; simp [readyNow, lenNow, copyNow, stagedOf, ← hg, hst]
  · intro hp
    simp only at hp
    have hc : closed = none := by
      cases ppc <;> simp_all
    subst hc
    simp [readyNow, lenNow, copyNow]

end TB
