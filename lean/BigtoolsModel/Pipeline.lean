import BigtoolsModel.TempBuf
/-! Probe (C11): `n` chromosomes, each with its own producer and staging buffer; one consumer hands the real
    file to chromosome 0, waits, takes it back, hands it to chromosome 1, … (`write_chroms_with_zooms`).
    Whatever the interleaving of all producers' and the consumer's atomic steps, the file ends up holding
    the chromosomes' bytes in chromosome order. -/
namespace PL
open TB

structure G where
  cur : Nat                 -- chromosome the consumer is dealing with
  bufs : Nat → St           -- staging buffer of each chromosome
  final : Option Bytes      -- the file once every chromosome is done

inductive GAct where
  | prod (i : Nat) (a : Act)      -- a producer step of chromosome `i`
  | cons (a : Act)                -- a consumer step on the current chromosome
  | next                          -- current chromosome done: move the file on

def isProd : Act → Bool
  | .pUpdate | .pWrite | .pDrop => true
  | _ => false

def setBuf (bufs : Nat → St) (i : Nat) (s : St) : Nat → St := fun j => if j = i then s else bufs j

def gstep (n : Nat) (g : G) : GAct → Option G
  | .prod i a =>
    if i < n ∧ isProd a then
      match step (g.bufs i) a with
      | some s' => some { g with bufs := setBuf g.bufs i s' }
      | none => none
    else none
  | .cons a =>
    if g.cur < n ∧ !isProd a then
      match step (g.bufs g.cur) a with
      | some s' => some { g with bufs := setBuf g.bufs g.cur s' }
      | none => none
    else none
  | .next =>
    if g.cur < n then
      match (g.bufs g.cur).cpc with
      | .done d =>
        if g.cur + 1 < n then
          some { g with cur := g.cur + 1,
                        bufs := setBuf g.bufs (g.cur + 1) { g.bufs (g.cur + 1) with cpc := .holding d } }
        else some { g with cur := g.cur + 1, final := some d }
      | _ => none
    else none

def grun (n : Nat) (g : G) : List GAct → Option G
  | [] => some g
  | a :: as => match gstep n g a with
    | some g' => grun n g' as
    | none => none

/-- what a buffer the consumer has not reached yet looks like (the `holding` case of `TB.Inv` without
    knowing the destination) -/
def PInv (s : St) : Prop :=
  (∃ d, s.cpc = .holding d) ∧ s.mailbox = none ∧
  (match s.ppc with
   | .dropped => ∃ fs, s.closed = some fs ∧ (∀ d', fs ≠ .real d') ∧ stagedOf fs = s.issued ∧ s.pst = .notStarted
   | _ => (∀ d', s.pst ≠ .real d') ∧ stagedOf s.pst = s.issued ∧ s.closed = none)

theorem pinv_prod (s s' : St) (a : Act) (ha : isProd a = true) (h : PInv s) (hs : step s a = some s') : PInv s' := by
  obtain ⟨mailbox, pst, todo, issued, ppc, closed, cpc, inmem⟩ := s
  obtain ⟨⟨d, hd⟩, hm, hrest⟩ := h
  simp only at hd hm
  subst hd hm
  cases a <;> simp only [isProd, Bool.false_eq_true] at ha <;> simp only [step] at hs
  · cases ppc <;> cases todo <;> cases pst <;> simp_all [PInv, stagedOf] <;> (try (subst_vars; simp_all [PInv, stagedOf]))
  · cases ppc <;> cases todo <;> cases pst <;> simp_all [PInv, stagedOf] <;> (try (subst_vars; simp_all [PInv, stagedOf]))
  · cases ppc <;> cases todo <;> simp_all [PInv, stagedOf] <;> (try (subst_vars; simp_all [PInv, stagedOf]))

theorem inv_of_pinv (s : St) (d : Bytes) (h : PInv s) : TB.Inv d { s with cpc := .holding d } := by
  obtain ⟨mailbox, pst, todo, issued, ppc, closed, cpc, inmem⟩ := s
  obtain ⟨_, hm, hrest⟩ := h
  simp only at hm hrest
  cases ppc with
  | dropped => obtain ⟨fs, hc, h1, h2, h3⟩ := hrest; simp_all [TB.Inv]
  | idle => simp_all [TB.Inv]
  | swapped => simp_all [TB.Inv]

theorem pinv_init (inmem : Bool) (d : Bytes) (ws : List Bytes) : PInv (init inmem d ws) := by
  simp [PInv, init, stagedOf]

/-- file content when the consumer reaches chromosome `k` -/
def pre (d0 : Bytes) (ws : Nat → List Bytes) : Nat → Bytes
  | 0 => d0
  | k + 1 => pre d0 ws k ++ (ws k).flatten

structure GInv (n : Nat) (ws : Nat → List Bytes) (d0 : Bytes) (g : G) : Prop where
  cur_le : g.cur ≤ n
  book : ∀ j, j < n → Ghost (ws j) (g.bufs j) ∧ Aux (g.bufs j)
  later : ∀ j, g.cur < j → j < n → PInv (g.bufs j)
  current : g.cur < n → TB.Inv (pre d0 ws g.cur) (g.bufs g.cur)
  finished : g.cur = n → g.final = some (pre d0 ws n)

def ginit (n : Nat) (inmem : Bool) (d0 : Bytes) (ws : Nat → List Bytes) : G :=
  { cur := 0, bufs := fun j => init inmem (if j = 0 then d0 else []) (ws j), final := if n = 0 then some d0 else none }

theorem ginv_init (n : Nat) (inmem : Bool) (d0 : Bytes) (ws : Nat → List Bytes) :
    GInv n ws d0 (ginit n inmem d0 ws) := by
  refine ⟨Nat.zero_le _, ?_, ?_, ?_, ?_⟩
  · intro j _; exact ⟨ghost_init _ _ _, by simp [Aux, ginit, init]⟩
  · intro j _ _; exact pinv_init _ _ _
  · intro _; simpa [ginit, pre] using inv_init inmem d0 (ws 0)
  · intro h; simp only [ginit] at h; simp [ginit, ← h, pre]

theorem ghost_cpc (ws : List Bytes) (s : St) (c : CPc) (h : Ghost ws s) : Ghost ws { s with cpc := c } := h
theorem aux_cpc (s : St) (c : CPc) (h : Aux s) : Aux { s with cpc := c } := h

theorem ginv_step (n : Nat) (ws : Nat → List Bytes) (d0 : Bytes) (g g' : G) (a : GAct)
    (h : GInv n ws d0 g) (hs : gstep n g a = some g') : GInv n ws d0 g' := by
  cases a with
  | prod i a =>
    simp only [gstep] at hs
    split at hs
    · rename_i hc
      obtain ⟨hi, ha⟩ := hc
      split at hs
      · rename_i s' hst
        cases hs
        refine ⟨h.cur_le, ?_, ?_, ?_, h.finished⟩
        · intro j hj
          by_cases hji : j = i
          · subst hji
            simp only [setBuf, if_true]
            exact ⟨ghost_step _ _ _ _ (h.book j hj).1 hst, aux_step _ _ _ (h.book j hj).2 hst⟩
          · simp only [setBuf, hji, if_false]; exact h.book j hj
        · intro j hcj hj
          by_cases hji : j = i
          · subst hji
            simp only [setBuf, if_true]
            exact pinv_prod _ _ _ ha (h.later j hcj hj) hst
          · simp only [setBuf, hji, if_false]; exact h.later j hcj hj
        · intro hc
          by_cases hci : g.cur = i
          · simp only [setBuf, hci, if_true]
            have := h.current hc
            rw [hci] at this
            exact inv_step _ _ _ _ this hst
          · simp only [setBuf, hci, if_false]; exact h.current hc
      · cases hs
    · cases hs
  | cons a =>
    simp only [gstep] at hs
    split at hs
    · rename_i hc
      obtain ⟨hcur, _⟩ := hc
      split at hs
      · rename_i s' hst
        cases hs
        refine ⟨h.cur_le, ?_, ?_, ?_, h.finished⟩
        · intro j hj
          by_cases hji : j = g.cur
          · subst hji
            simp only [setBuf, if_true]
            exact ⟨ghost_step _ _ _ _ (h.book _ hj).1 hst, aux_step _ _ _ (h.book _ hj).2 hst⟩
          · simp only [setBuf, hji, if_false]; exact h.book j hj
        · intro j hcj hj
          have hcj' : g.cur < j := hcj
          have hji : j ≠ g.cur := by omega
          simp only [setBuf, hji, if_false]; exact h.later j hcj' hj
        · intro _
          simp only [setBuf, if_true]
          exact inv_step _ _ _ _ (h.current hcur) hst
      · cases hs
    · cases hs
  | next =>
    simp only [gstep] at hs
    split at hs
    · rename_i hcur
      split at hs
      · rename_i d hdone
        -- the finished chromosome delivered exactly its bytes
        have hinv := h.current hcur
        have hbook := h.book g.cur hcur
        have hd : d = pre d0 ws (g.cur + 1) := by
          simp only [TB.Inv, hdone] at hinv
          have ht := hbook.2.1 hinv.2
          have hg := hbook.1
          simp only [Ghost, ht, List.flatten_nil, List.append_nil] at hg
          rw [hinv.1, hg, pre]
        split at hs
        · rename_i hnext
          cases hs
          refine ⟨by simp; omega, ?_, ?_, ?_, ?_⟩
          · intro j hj
            by_cases hji : j = g.cur + 1
            · subst hji
              simp only [setBuf, if_true]
              exact ⟨ghost_cpc _ _ _ (h.book _ hj).1, aux_cpc _ _ (h.book _ hj).2⟩
            · simp only [setBuf, hji, if_false]; exact h.book j hj
          · intro j hcj hj
            have hji : j ≠ g.cur + 1 := by simp at hcj; omega
            simp only [setBuf, hji, if_false]
            exact h.later j (by simp at hcj; omega) hj
          · intro _
            simp only [setBuf, if_true]
            rw [← hd]
            exact inv_of_pinv _ d (h.later (g.cur + 1) (by omega) hnext)
          · intro hfin; simp at hfin; omega
        · rename_i hnext
          cases hs
          have hn : g.cur + 1 = n := by omega
          refine ⟨by simp; omega, h.book, ?_, ?_, ?_⟩
          · intro j hcj hj; simp at hcj; omega
          · intro hc; simp at hc; omega
          · intro _; simp only; rw [hd, hn]
      · cases hs
    · cases hs

/-- **Pipeline determinism.** For any number of chromosomes, any producer histories, in-memory or
    temp-file staging, and **every** interleaving of all producers' and the consumer's atomic steps:
    if the run gets through all chromosomes, the file holds the initial bytes followed by each
    chromosome's bytes, in chromosome order — the bytes of the sequential schedule. -/
theorem pipeline_deterministic (n : Nat) (inmem : Bool) (d0 : Bytes) (ws : Nat → List Bytes) :
    ∀ (sched : List GAct) (g g' : G), GInv n ws d0 g → grun n g sched = some g' → g'.cur = n →
      g'.final = some (pre d0 ws n) := by
  intro sched
  induction sched with
  | nil => intro g g' h hr hc; simp [grun] at hr; subst hr; exact h.finished hc
  | cons a as ih =>
    intro g g' h hr hc
    simp only [grun] at hr
    split at hr
    · rename_i g1 hg1
      exact ih g1 g' (ginv_step n ws d0 g g1 a h hg1) hr hc
    · cases hr

theorem pipeline_from_start (n : Nat) (inmem : Bool) (d0 : Bytes) (ws : Nat → List Bytes)
    (sched : List GAct) (g' : G) (hr : grun n (ginit n inmem d0 ws) sched = some g') (hc : g'.cur = n) :
    g'.final = some (pre d0 ws n) :=
  pipeline_deterministic n inmem d0 ws sched _ g' (ginv_init n inmem d0 ws) hr hc

end PL

namespace PL
open TB

/-- **Pipeline progress.** In every state the invariant allows, as long as a chromosome is still to be handed
    over some step is enabled: a producer step or a consumer step on the current chromosome, or — once
    `await_real_file` has returned — moving the file on. Together with the bound on every buffer's run length
    (`Props.C12.schedule_length_le`) no schedule can get stuck or run forever before all chromosomes are written. -/
theorem pipeline_progress (n : Nat) (ws : Nat → List Bytes) (d0 : Bytes) (g : G) (h : GInv n ws d0 g)
    (hc : g.cur < n) : ∃ a g', gstep n g a = some g' := by
  rcases tb_progress (pre d0 ws g.cur) (g.bufs g.cur) (h.current hc) (h.book _ hc).2 with ⟨d, hd⟩ | ⟨a, s', hs⟩
  · refine ⟨.next, ?_⟩
    simp only [gstep, hc, if_true, hd]
    by_cases hn : g.cur + 1 < n
    · exact ⟨_, by rw [if_pos hn]⟩
    · exact ⟨_, by rw [if_neg hn]⟩
  · by_cases hp : isProd a = true
    · exact ⟨.prod g.cur a, { g with bufs := setBuf g.bufs g.cur s' }, by simp [gstep, hc, hp, hs]⟩
    · exact ⟨.cons a, { g with bufs := setBuf g.bufs g.cur s' }, by simp [gstep, hc, hp, hs]⟩

/-- every reachable state of the pipeline satisfies the invariant -/
theorem ginv_run (n : Nat) (ws : Nat → List Bytes) (d0 : Bytes) :
    ∀ (sched : List GAct) (g g' : G), GInv n ws d0 g → grun n g sched = some g' → GInv n ws d0 g' := by
  intro sched
  induction sched with
  | nil => intro g g' h hr; simp [grun] at hr; subst hr; exact h
  | cons a as ih =>
    intro g g' h hr
    simp only [grun] at hr
    split at hr
    · rename_i g1 hg1
      exact ih g1 g' (ginv_step n ws d0 g g1 a h hg1) hr
    · cases hr

/-- **No deadlock**: from the start, after any interleaving, either every chromosome has been written or a step
    is enabled. -/
theorem pipeline_never_stuck (n : Nat) (inmem : Bool) (d0 : Bytes) (ws : Nat → List Bytes) (sched : List GAct) (g' : G)
    (hr : grun n (ginit n inmem d0 ws) sched = some g') :
    g'.cur = n ∨ ∃ a g'', gstep n g' a = some g'' := by
  have h := ginv_run n ws d0 sched _ g' (ginv_init n inmem d0 ws) hr
  by_cases hc : g'.cur < n
  · exact Or.inr (pipeline_progress n ws d0 g' h hc)
  · exact Or.inl (by have := h.cur_le; omega)

end PL
