import BigtoolsModel.Merge
namespace MG

def Val.at (x : Val) (p : Nat) : Int := if x.s ≤ p ∧ p < x.e then x.v else 0

def sumAt : List Val → Nat → Int
  | [], _ => 0
  | x :: rest, p => x.at p + sumAt rest p

theorem sumAt_append (a b : List Val) (p : Nat) : sumAt (a ++ b) p = sumAt a p + sumAt b p := by
  induction a with
  | nil => simp [sumAt]
  | cons x xs ih => simp only [List.cons_append, sumAt, ih]; omega

theorem sumAt_emit (c : Val) (p : Nat) : sumAt (emit c) p = c.at p := by
  unfold emit
  split
  · simp [sumAt]
  · rename_i h
    have : c.v = 0 := by simpa using h
    simp [sumAt, Val.at, this]

/-- Part 1: run-length re-encoding represents `f` on `[cs+idx, cs+idx+n)` plus the pending run -/
theorem rleGo_spec (cs : Nat) (f : Nat → Int) (p : Nat) : ∀ (n idx : Nat) (cur : Option Val),
    (∀ c, cur = some c → c.e = idx + cs ∧ c.s ≤ c.e) →
    sumAt (rleGo cs f n idx cur) p =
      (match cur with | some c => c.at p | none => 0) +
      (if idx + cs ≤ p ∧ p < idx + cs + n then f (p - cs) else 0) := by
  intro n
  induction n with
  | zero =>
    intro idx cur _
    have hfalse : ¬ (idx + cs ≤ p ∧ p < idx + cs + 0) := by omega
    rw [if_neg hfalse]
    cases cur with
    | none => simp [rleGo, sumAt]
    | some c => simp [rleGo, sumAt_emit]
  | succ n ih =>
    intro idx cur hcur
    cases cur with
    | none =>
      simp only [rleGo]
      rw [ih (idx + 1) (some ⟨idx + cs, idx + cs + 1, f idx⟩) (by intro c hc; cases hc; simp; omega)]
      simp only [Val.at, Int.zero_add]
      by_cases h1 : idx + cs ≤ p ∧ p < idx + cs + 1
      · have hp : p - cs = idx := by omega
        have h2 : ¬ (idx + 1 + cs ≤ p ∧ p < idx + 1 + cs + n) := by omega
        have h3 : idx + cs ≤ p ∧ p < idx + cs + (n + 1) := by omega
        rw [if_pos h1, if_neg h2, if_pos h3, hp]; omega
      · rw [if_neg h1]
        by_cases h2 : idx + 1 + cs ≤ p ∧ p < idx + 1 + cs + n
        · have h3 : idx + cs ≤ p ∧ p < idx + cs + (n + 1) := by omega
          rw [if_pos h2, if_pos h3]; omega
        · have h3 : ¬ (idx + cs ≤ p ∧ p < idx + cs + (n + 1)) := by omega
          rw [if_neg h2, if_neg h3]; rfl
    | some c =>
      obtain ⟨he, hle⟩ := hcur c rfl
      simp only [rleGo]
      split
      · rename_i heq
        rw [ih (idx + 1) (some { c with e := c.e + 1 }) (by intro c' hc'; cases hc'; simp; omega)]
        simp only [Val.at]
        by_cases hp : p = idx + cs
        · have a1 : c.s ≤ p ∧ p < c.e + 1 := by omega
          have a2 : ¬ (idx + 1 + cs ≤ p ∧ p < idx + 1 + cs + n) := by omega
          have a3 : ¬ (c.s ≤ p ∧ p < c.e) := by omega
          have a4 : idx + cs ≤ p ∧ p < idx + cs + (n + 1) := by omega
          have a5 : p - cs = idx := by omega
          rw [if_pos a1, if_neg a2, if_neg a3, if_pos a4, a5, heq]; omega
        · by_cases a1 : c.s ≤ p ∧ p < c.e
          · have b1 : c.s ≤ p ∧ p < c.e + 1 := by omega
            have b2 : ¬ (idx + 1 + cs ≤ p ∧ p < idx + 1 + cs + n) := by omega
            have b3 : ¬ (idx + cs ≤ p ∧ p < idx + cs + (n + 1)) := by omega
            rw [if_pos b1, if_neg b2, if_pos a1, if_neg b3]
          · have b1 : ¬ (c.s ≤ p ∧ p < c.e + 1) := by omega
            rw [if_neg b1, if_neg a1]
            by_cases b2 : idx + 1 + cs ≤ p ∧ p < idx + 1 + cs + n
            · have b3 : idx + cs ≤ p ∧ p < idx + cs + (n + 1) := by omega
              rw [if_pos b2, if_pos b3]
            · have b3 : ¬ (idx + cs ≤ p ∧ p < idx + cs + (n + 1)) := by omega
              rw [if_neg b2, if_neg b3]
      · rw [sumAt_append, sumAt_emit,
            ih (idx + 1) (some ⟨idx + cs, idx + cs + 1, f idx⟩) (by intro c' hc'; cases hc'; simp; omega)]
        simp only [Val.at]
        by_cases h1 : idx + cs ≤ p ∧ p < idx + cs + 1
        · have hp : p - cs = idx := by omega
          have h2 : ¬ (idx + 1 + cs ≤ p ∧ p < idx + 1 + cs + n) := by omega
          have h3 : idx + cs ≤ p ∧ p < idx + cs + (n + 1) := by omega
          rw [if_pos h1, if_neg h2, if_pos h3, hp]; omega
        · rw [if_neg h1]
          by_cases h2 : idx + 1 + cs ≤ p ∧ p < idx + 1 + cs + n
          · have h3 : idx + cs ≤ p ∧ p < idx + cs + (n + 1) := by omega
            rw [if_pos h2, if_pos h3]; omega
          · have h3 : ¬ (idx + cs ≤ p ∧ p < idx + cs + (n + 1)) := by omega
            rw [if_neg h2, if_neg h3]; omega

theorem rle_spec (cs : Nat) (f : Nat → Int) (len p : Nat) :
    sumAt (rle cs f len) p = if cs ≤ p ∧ p < cs + len then f (p - cs) else 0 := by
  unfold rle
  rw [rleGo_spec cs f p len 0 none (by intro c hc; cases hc)]
  simp

/-- a stream: well-formed values, each ending before the next starts -/
def Sorted : List Val → Prop
  | [] => True
  | x :: rest => x.s ≤ x.e ∧ (∀ y ∈ rest, x.e ≤ y.s) ∧ Sorted rest

theorem sumAt_zero_of_before (l : List Val) (p : Nat) (h : ∀ y ∈ l, p < y.s) : sumAt l p = 0 := by
  induction l with
  | nil => rfl
  | cons x xs ih =>
    have hx := h x (by simp)
    simp only [sumAt, Val.at]
    rw [ih (fun y hy => h y (by simp [hy]))]
    have : ¬ (x.s ≤ p ∧ p < x.e) := by omega
    simp [this]

theorem sumAt_zero_of_after (l : List Val) (p : Nat) (h : ∀ y ∈ l, y.e ≤ p) : sumAt l p = 0 := by
  induction l with
  | nil => rfl
  | cons x xs ih =>
    have hx := h x (by simp)
    simp only [sumAt, Val.at]
    rw [ih (fun y hy => h y (by simp [hy]))]
    have : ¬ (x.s ≤ p ∧ p < x.e) := by omega
    simp [this]

@[simp] theorem dataAt_nil (W cs i : Nat) : dataAt W cs [] i = 0 := rfl
@[simp] theorem dataAt_cons (W cs i : Nat) (x : Val) (t : List Val) :
    dataAt W cs (x :: t) i = contrib W cs x i + dataAt W cs t i := by simp [dataAt]
theorem dataAt_append (W cs i : Nat) (a b : List Val) :
    dataAt W cs (a ++ b) i = dataAt W cs a i + dataAt W cs b i := by
  simp [dataAt, List.map_append, List.sum_append]

/-- inside the window a touched value contributes exactly where it covers -/
theorem contrib_eq_at (W cs i : Nat) (x : Val) (hi : i < W) : contrib W cs x i = x.at (cs + i) := by
  unfold contrib Val.at
  by_cases h : x.s ≤ cs + i ∧ cs + i < x.e
  · have : max cs x.s - cs ≤ i ∧ i < min W (x.e - cs) := by omega
    rw [if_pos this, if_pos h]
  · have : ¬ (max cs x.s - cs ≤ i ∧ i < min W (x.e - cs)) := by omega
    rw [if_neg this, if_neg h]

/-- Part 2a: what one stream adds to `data[i]` is its value at base `cs + i` -/
theorem pull_data (W cs : Nat) (hW : 0 < W) : ∀ (l : List Val), Sorted l → ∀ i, i < W →
    dataAt W cs (pull W cs l).1 i = sumAt l (cs + i) := by
  intro l
  induction l with
  | nil => intro _ i _; rfl
  | cons x rest ih =>
    intro hs i hi
    obtain ⟨h1, h2, h3⟩ := hs
    simp only [pull]
    split
    · rename_i hA
      -- `x` starts at or after the end of the window: neither it nor anything later covers `cs + i`
      have : sumAt (x :: rest) (cs + i) = 0 := by
        apply sumAt_zero_of_before
        intro y hy
        simp only [List.mem_cons] at hy
        rcases hy with rfl | hy
        · omega
        · have := h2 y hy; omega
      rw [this]; rfl
    · split
      · rename_i hA hB
        -- `x` reaches past the window: later values start after the window
        have hrest : sumAt rest (cs + i) = 0 := by
          apply sumAt_zero_of_before
          intro y hy; have := h2 y hy; omega
        simp only [dataAt_cons, dataAt_nil, sumAt, hrest, contrib_eq_at W cs i x hi]
      · simp only [dataAt_cons, sumAt, contrib_eq_at W cs i x hi, ih h3 i hi]

theorem pull_rem_subset (W cs : Nat) : ∀ (l : List Val), ∀ y ∈ (pull W cs l).2, y ∈ l := by
  intro l
  induction l with
  | nil => intro y hy; simp [pull] at hy
  | cons x rest ih =>
    intro y hy
    simp only [pull] at hy
    split at hy
    · exact hy
    · split at hy
      · exact hy
      · exact List.mem_cons_of_mem _ (ih y hy)

theorem pull_rem_sorted (W cs : Nat) : ∀ (l : List Val), Sorted l → Sorted (pull W cs l).2 := by
  intro l
  induction l with
  | nil => intro _; simp [pull, Sorted]
  | cons x rest ih =>
    intro hs
    simp only [pull]
    split
    · exact hs
    · split
      · exact hs
      · exact ih hs.2.2

/-- Part 2b: beyond the window the remaining stream is the original one -/
theorem pull_rem_sum (W cs : Nat) : ∀ (l : List Val), Sorted l → ∀ p, cs + W ≤ p →
    sumAt (pull W cs l).2 p = sumAt l p := by
  intro l
  induction l with
  | nil => intro _ p _; rfl
  | cons x rest ih =>
    intro hs p hp
    simp only [pull]
    split
    · rfl
    · split
      · rfl
      · rename_i hA hB
        rw [ih hs.2.2 p hp]
        simp only [sumAt, Val.at]
        have : ¬ (x.s ≤ p ∧ p < x.e) := by omega
        simp [this]

def total : List (List Val) → Nat → Int
  | [], _ => 0
  | l :: ls, p => sumAt l p + total ls p

def AllSorted (streams : List (List Val)) : Prop := ∀ l ∈ streams, Sorted l

def touchedAll (W cs : Nat) (streams : List (List Val)) : List Val := (streams.map (pull W cs)).flatMap (·.1)

theorem window_data (W cs : Nat) (hW : 0 < W) : ∀ (streams : List (List Val)), AllSorted streams → ∀ i, i < W →
    dataAt W cs (touchedAll W cs streams) i = total streams (cs + i) := by
  intro streams
  induction streams with
  | nil => intro _ i _; rfl
  | cons l ls ih =>
    intro hs i hi
    simp only [touchedAll, List.map_cons, List.flatMap_cons, dataAt_append, total]
    rw [pull_data W cs hW l (hs l (by simp)) i hi]
    have := ih (fun m hm => hs m (by simp [hm])) i hi
    simp only [touchedAll] at this
    rw [this]

theorem foldl_max_ge (g : Val → Nat) : ∀ (l : List Val) (m0 : Nat),
    m0 ≤ l.foldl (fun m x => max m (g x)) m0 ∧ ∀ x ∈ l, g x ≤ l.foldl (fun m x => max m (g x)) m0 := by
  intro l
  induction l with
  | nil => intro m0; simp
  | cons y ys ih =>
    intro m0
    simp only [List.foldl_cons]
    have h := ih (max m0 (g y))
    refine ⟨by omega, ?_⟩
    intro x hx
    simp only [List.mem_cons] at hx
    rcases hx with rfl | hx
    · omega
    · exact h.2 x hx

theorem foldl_max_le (g : Val → Nat) (B : Nat) : ∀ (l : List Val) (m0 : Nat), m0 ≤ B → (∀ x ∈ l, g x ≤ B) →
    l.foldl (fun m x => max m (g x)) m0 ≤ B := by
  intro l
  induction l with
  | nil => intro m0 h _; simpa using h
  | cons y ys ih =>
    intro m0 h hb
    simp only [List.foldl_cons]
    exact ih _ (by have := hb y (by simp); omega) (fun x hx => hb x (by simp [hx]))

theorem maxLen_le (W cs : Nat) (t : List Val) : maxLen W cs t ≤ W :=
  foldl_max_le _ W t 0 (Nat.zero_le _) (fun x _ => Nat.min_le_left _ _)

theorem dataAt_zero_of (W cs i : Nat) : ∀ (t : List Val), (∀ x ∈ t, contrib W cs x i = 0) → dataAt W cs t i = 0 := by
  intro t
  induction t with
  | nil => intro _; rfl
  | cons y ys ih =>
    intro h
    rw [dataAt_cons, h y (by simp), ih (fun x hx => h x (by simp [hx]))]; rfl

theorem dataAt_zero_beyond (W cs : Nat) (t : List Val) (i : Nat) (h : maxLen W cs t ≤ i) : dataAt W cs t i = 0 := by
  apply dataAt_zero_of
  intro x hx
  have := (foldl_max_ge (fun x => min W (x.e - cs)) t 0).2 x hx
  unfold contrib
  have hn : ¬ (max cs x.s - cs ≤ i ∧ i < min W (x.e - cs)) := by
    unfold maxLen at h; omega
  rw [if_neg hn]

/-- Part 2: the runs of one window carry, inside the window, the per-base sum of all streams -/
theorem window_spec (W cs : Nat) (hW : 0 < W) (streams : List (List Val)) (hs : AllSorted streams) (p : Nat) :
    sumAt (window W cs streams).1 p = if cs ≤ p ∧ p < cs + W then total streams p else 0 := by
  have hwin : (window W cs streams).1 = rle cs (dataAt W cs (touchedAll W cs streams)) (maxLen W cs (touchedAll W cs streams)) := rfl
  rw [hwin, rle_spec]
  have hle := maxLen_le W cs (touchedAll W cs streams)
  by_cases h1 : cs ≤ p ∧ p < cs + maxLen W cs (touchedAll W cs streams)
  · have h2 : cs ≤ p ∧ p < cs + W := by omega
    rw [if_pos h1, if_pos h2, window_data W cs hW streams hs (p - cs) (by omega)]
    congr 1; omega
  · rw [if_neg h1]
    by_cases h2 : cs ≤ p ∧ p < cs + W
    · rw [if_pos h2]
      have := window_data W cs hW streams hs (p - cs) (by omega)
      rw [show cs + (p - cs) = p by omega] at this
      rw [← this, dataAt_zero_beyond W cs _ (p - cs) (by omega)]
    · rw [if_neg h2]

theorem dropLast_of_getLast? (q : List Val) (l : Val) (h : q.getLast? = some l) : q.dropLast ++ [l] = q := by
  obtain ⟨ys, rfl⟩ := List.getLast?_eq_some_iff.mp h
  simp

/-- Part 3a: the held-back run is only carried to the front of what follows -/
theorem held_out (W : Nat) (p : Nat) : ∀ (fuel cs : Nat) (streams : List (List Val)) (held : Option Val),
    sumAt (loop W fuel cs streams held) p = sumAt held.toList p + sumAt (loop W fuel cs streams none) p := by
  intro fuel
  induction fuel with
  | zero => intro cs streams held; simp [loop, sumAt]
  | succ fuel ih =>
    intro cs streams held
    simp only [loop]
    split
    · simp [sumAt]
    · cases held with
      | none => simp [sumAt]
      | some h =>
        simp only [Option.toList_some, Option.toList_none, List.nil_append]
        generalize hw : window W cs streams = w
        obtain ⟨runs, streams'⟩ := w
        simp only
        cases hr : runs.getLast? with
        | none =>
          have hnil : runs = [] := by simpa using hr
          subst hnil
          simp only [List.append_nil, List.getLast?_singleton, List.dropLast_singleton, List.nil_append,
            List.getLast?_nil]
          rw [ih (cs + W) streams' (some h)]
          simp
        | some l =>
          have hq : ([h] ++ runs).getLast? = some l := by
            obtain ⟨ys, rfl⟩ := List.getLast?_eq_some_iff.mp hr
            rw [← List.append_assoc]
            exact List.getLast?_eq_some_iff.mpr ⟨[h] ++ ys, rfl⟩
          rw [hq]
          simp only
          have e1 := dropLast_of_getLast? _ l hq
          have e2 := dropLast_of_getLast? _ l hr
          rw [sumAt_append, sumAt_append]
          have : sumAt ([h] ++ runs).dropLast p + sumAt [l] p = sumAt [h] p + (sumAt runs.dropLast p + sumAt [l] p) := by
            rw [← sumAt_append, e1, ← sumAt_append, e2, sumAt_append]
          have hl : sumAt [l] p = l.at p := by simp [sumAt]
          rw [hl] at this
          omega

/-- Part 3b: one iteration with nothing held = this window's runs, then the rest -/
theorem loop_step (W : Nat) (p : Nat) (fuel cs : Nat) (streams : List (List Val))
    (hne : (streams.all (·.isEmpty)) = false) :
    sumAt (loop W (fuel + 1) cs streams none) p =
      sumAt (window W cs streams).1 p + sumAt (loop W fuel (cs + W) (window W cs streams).2 none) p := by
  simp only [loop, hne, Bool.false_eq_true, if_false, Option.toList_none, List.nil_append]
  generalize window W cs streams = w
  obtain ⟨runs, streams'⟩ := w
  simp only
  cases hr : runs.getLast? with
  | none =>
    have hnil : runs = [] := by simpa using hr
    subst hnil
    simp [sumAt]
  | some l =>
    simp only
    rw [sumAt_append, held_out W p fuel (cs + W) streams' (some l)]
    have e := dropLast_of_getLast? runs l hr
    have : sumAt runs p = sumAt runs.dropLast p + sumAt [l] p := by rw [← sumAt_append, e]
    simp only [Option.toList_some]
    omega

theorem total_of_empty (streams : List (List Val)) (h : (streams.all (·.isEmpty)) = true) (p : Nat) :
    total streams p = 0 := by
  induction streams with
  | nil => rfl
  | cons l ls ih =>
    simp only [List.all_cons, Bool.and_eq_true] at h
    have hl : l = [] := by simpa using h.1
    subst hl
    simp [total, sumAt, ih h.2]

theorem total_window_rest (W cs : Nat) : ∀ (streams : List (List Val)), AllSorted streams → ∀ p, cs + W ≤ p →
    total (streams.map fun l => (pull W cs l).2) p = total streams p := by
  intro streams
  induction streams with
  | nil => intro _ p _; rfl
  | cons l ls ih =>
    intro hs p hp
    simp only [List.map_cons, total]
    rw [pull_rem_sum W cs l (hs l (by simp)) p hp, ih (fun m hm => hs m (by simp [hm])) p hp]

theorem window_rest_eq (W cs : Nat) (streams : List (List Val)) :
    (window W cs streams).2 = streams.map fun l => (pull W cs l).2 := by
  simp [window, List.map_map]

/-- every value still to be processed ends before `bound` -/
def Bound (bound : Nat) (streams : List (List Val)) : Prop := ∀ l ∈ streams, ∀ x ∈ l, x.e < bound

/-- Part 3c: with enough fuel the loop yields, from `cs` on, the per-base sum of the streams -/
theorem loop_spec (W : Nat) (hW : 0 < W) (p : Nat) : ∀ (fuel cs : Nat) (streams : List (List Val)),
    AllSorted streams → Bound (cs + fuel * W) streams →
    sumAt (loop W fuel cs streams none) p = if cs ≤ p then total streams p else 0 := by
  intro fuel
  induction fuel with
  | zero =>
    intro cs streams hs0 hb
    simp only [loop, Option.toList_none, sumAt]
    split
    · -- no value reaches `cs`
      have : total streams p = 0 := by
        clear hW hs0
        induction streams with
        | nil => rfl
        | cons l ls ih =>
          simp only [total]
          rw [sumAt_zero_of_after l p (fun y hy => by have := hb l (by simp) y hy; omega),
              ih (fun m hm x hx => hb m (by simp [hm]) x hx)]
          rfl
      rw [this]
    · rfl
  | succ fuel ih =>
    intro cs streams hs hb
    by_cases hall : (streams.all (·.isEmpty)) = true
    · simp only [loop, hall, if_true, Option.toList_none, sumAt, total_of_empty streams hall p]
      split <;> rfl
    · have hne : (streams.all (·.isEmpty)) = false := by simpa using hall
      rw [loop_step W p fuel cs streams hne, window_spec W cs hW streams hs p, window_rest_eq]
      have hs' : AllSorted (streams.map fun l => (pull W cs l).2) := by
        intro m hm
        simp only [List.mem_map] at hm
        obtain ⟨l, hl, rfl⟩ := hm
        exact pull_rem_sorted W cs l (hs l hl)
      have hb' : Bound (cs + W + fuel * W) (streams.map fun l => (pull W cs l).2) := by
        intro m hm x hx
        simp only [List.mem_map] at hm
        obtain ⟨l, hl, rfl⟩ := hm
        have := hb l hl x (pull_rem_subset W cs l x hx)
        rw [Nat.succ_mul] at this; omega
      rw [ih (cs + W) _ hs' hb']
      by_cases h1 : cs ≤ p ∧ p < cs + W
      · have h2 : ¬ (cs + W ≤ p) := by omega
        rw [if_pos h1, if_neg h2, if_pos h1.1]; omega
      · rw [if_neg h1]
        by_cases h2 : cs + W ≤ p
        · rw [if_pos h2, if_pos (by omega : cs ≤ p), total_window_rest W cs streams hs p h2]; omega
        · rw [if_neg h2, if_neg (by omega : ¬ cs ≤ p)]; rfl

theorem maxEnd_ge (streams : List (List Val)) : ∀ l ∈ streams, ∀ x ∈ l, x.e ≤ maxEnd streams := by
  intro l hl x hx
  have hmem : x ∈ streams.flatMap id := List.mem_flatMap.mpr ⟨l, hl, hx⟩
  exact (foldl_max_ge (fun x => x.e) (streams.flatMap id) 0).2 x hmem

/-- **Merging preserves the per-base signal.** For every window size `W > 0` (50,000 in the code), any
    number of streams of well-formed, sorted, non-overlapping values: at every base the merged output
    carries the sum of the inputs' values at that base (and nothing where that sum is zero). -/
theorem merge_spec (W : Nat) (hW : 0 < W) (streams : List (List Val)) (hs : AllSorted streams) (p : Nat) :
    sumAt (merge W streams) p = total streams p := by
  unfold merge
  rw [loop_spec W hW p _ 0 streams hs]
  · simp
  · intro l hl x hx
    have h1 := maxEnd_ge streams l hl x hx
    have h2 := Nat.div_add_mod (maxEnd streams) W
    have h3 := Nat.mod_lt (maxEnd streams) hW
    have h4 : (maxEnd streams / W + 2) * W = W * (maxEnd streams / W) + 2 * W := by
      rw [Nat.add_mul, Nat.mul_comm]
    omega

end MG
