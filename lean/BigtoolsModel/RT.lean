namespace RT
/-- position = (chrom, base), compared lexicographically -/
structure Pos where
  c : Nat
  b : Nat
deriving DecidableEq, Repr

def Pos.le (p q : Pos) : Prop := p.c < q.c ∨ (p.c = q.c ∧ p.b ≤ q.b)
instance : LE Pos := ⟨Pos.le⟩
instance (p q : Pos) : Decidable (p ≤ q) := by unfold LE.le instLEPos Pos.le; exact inferInstance

theorem Pos.le_trans {p q r : Pos} (h1 : p ≤ q) (h2 : q ≤ r) : p ≤ r := by
  have a : Pos.le p q := h1
  have b : Pos.le q r := h2
  show Pos.le p r
  unfold Pos.le at *; omega

structure Sec where
  lo : Pos
  hi : Pos
  off : Nat
  size : Nat
deriving DecidableEq, Repr

structure Span where
  lo : Pos
  hi : Pos
deriving DecidableEq, Repr

/-- the code's `overlaps`: query [qlo, qhi] against block [lo, hi], both inclusive -/
def ov (qlo qhi lo hi : Pos) : Bool := decide (qlo ≤ hi) && decide (lo ≤ qhi)

inductive T where
  | leaf (secs : List Sec)
  | node (kids : List (Span × T))

mutual
def leaves : T → List Sec
  | .leaf secs => secs
  | .node kids => leavesL kids
def leavesL : List (Span × T) → List Sec
  | [] => []
  | (_, t) :: ks => leaves t ++ leavesL ks
end

mutual
def search (qlo qhi : Pos) : T → List Sec
  | .leaf secs => secs.filter (fun s => ov qlo qhi s.lo s.hi)
  | .node kids => searchL qlo qhi kids
def searchL (qlo qhi : Pos) : List (Span × T) → List Sec
  | [] => []
  | (sp, t) :: ks => (if ov qlo qhi sp.lo sp.hi then search qlo qhi t else []) ++ searchL qlo qhi ks
end

mutual
def SpanOK : T → Prop
  | .leaf _ => True
  | .node kids => SpanOKL kids
def SpanOKL : List (Span × T) → Prop
  | [] => True
  | (sp, t) :: ks => (∀ s ∈ leaves t, sp.lo ≤ s.lo ∧ s.hi ≤ sp.hi) ∧ SpanOK t ∧ SpanOKL ks
end

theorem filter_none_of_not_ov (qlo qhi : Pos) (sp : Span) (l : List Sec)
    (h : ∀ s ∈ l, sp.lo ≤ s.lo ∧ s.hi ≤ sp.hi) (hn : ov qlo qhi sp.lo sp.hi = false) :
    l.filter (fun s => ov qlo qhi s.lo s.hi) = [] := by
  rw [List.filter_eq_nil_iff]
  intro s hs
  have ⟨h1, h2⟩ := h s hs
  simp only [ov, Bool.and_eq_true, decide_eq_true_eq, not_and] at *
  intro h3 h4
  have := Pos.le_trans h3 h2
  have := Pos.le_trans h1 h4
  simp_all

mutual
theorem search_eq (qlo qhi : Pos) : (t : T) → SpanOK t →
    search qlo qhi t = (leaves t).filter (fun s => ov qlo qhi s.lo s.hi)
  | .leaf secs, _ => by simp [search, leaves]
  | .node kids, h => by
      simp only [search, leaves]
      exact searchL_eq qlo qhi kids (by simpa [SpanOK] using h)
theorem searchL_eq (qlo qhi : Pos) : (ks : List (Span × T)) → SpanOKL ks →
    searchL qlo qhi ks = (leavesL ks).filter (fun s => ov qlo qhi s.lo s.hi)
  | [], _ => by simp [searchL, leavesL]
  | (sp, t) :: ks, h => by
      simp only [SpanOKL] at h
      obtain ⟨h1, h2, h3⟩ := h
      simp only [searchL, leavesL, List.filter_append]
      rw [searchL_eq qlo qhi ks h3]
      congr 1
      by_cases hov : ov qlo qhi sp.lo sp.hi = true
      · simp [hov, search_eq qlo qhi t h2]
      · have hov' : ov qlo qhi sp.lo sp.hi = false := by simpa using hov
        rw [filter_none_of_not_ov qlo qhi sp _ h1 hov']
        simp [hov']
end
end RT
