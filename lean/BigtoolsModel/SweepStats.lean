import BigtoolsModel.SweepProof
/-! Probe (C06): the segments the sweep emits are globally in order and disjoint, and the summary the
    writer accumulates from them (bases, sum, sum of squares) equals the per-base statistics of the
    coverage depth of the entries. -/
namespace SW

theorem ordered_weaken (hi hi' : Nat) : ∀ (l : List Seg) (lo lo' : Nat), Ordered lo hi l → lo' ≤ lo → hi ≤ hi' → Ordered lo' hi' l := by
  intro l
  induction l with
  | nil => intro _ _ _ _ _; trivial
  | cons g rest ih =>
    intro lo lo' h h1 h2
    obtain ⟨a1, a2, a3, a4, a5⟩ := h
    exact ⟨by omega, a2, by omega, a4, ih g.e g.e a5 (Nat.le_refl _) h2⟩

theorem ordered_append (mid hi : Nat) : ∀ (a b : List Seg) (lo : Nat), Ordered lo mid a → Ordered mid hi b → lo ≤ mid → mid ≤ hi →
    Ordered lo hi (a ++ b) := by
  intro a
  induction a with
  | nil => intro b lo _ hb h1 _; exact ordered_weaken hi hi b mid lo hb h1 (Nat.le_refl _)
  | cons g rest ih =>
    intro b lo ha hb h1 hm
    obtain ⟨a1, a2, a3, a4, a5⟩ := ha
    exact ⟨a1, a2, by omega, a4, ih b g.e a5 hb a3 hm⟩

/-- global order of everything emitted -/
theorem sweepAll_ordered (inf lo0 : Nat) : ∀ (todo : List (Nat × Nat)) (rem em : List Seg) (n : Nat),
    Chain n rem → Ordered lo0 n em → lo0 ≤ n → Valid inf n todo →
    Ordered lo0 (if todo = [] then n else inf) (sweepAll inf todo rem em).1 := by
  intro todo
  induction todo with
  | nil => intro rem em n _ ho _ _; simpa [sweepAll] using ho
  | cons x rest ih =>
    intro rem em n hc ho hlo hv
    obtain ⟨v1, v2, v3, v4, v5, v6⟩ := hv
    subst v1
    have c1 := bump_chain x.2 rem x.1 hc v2
    have c2 := tail_chain x.1 x.2 _ c1 v2
    have hem := flush_em_ordered (nextStart inf rest) _ x.1 c2
    have hrem := flush_rem_chain (nextStart inf rest) _ x.1 c2 v4
    have hord := ordered_append x.1 (nextStart inf rest) em _ lo0 ho hem hlo v4
    have h2 := ih _ _ (nextStart inf rest) hrem hord (by omega) v6
    have hn : (if rest = [] then nextStart inf rest else inf) = inf := by
      cases rest <;> simp [nextStart]
    rw [hn] at h2
    simpa [sweepAll, stepEntry] using h2

/-! ### sums over positions -/

def rangeSum (f : Nat → Nat) : Nat → Nat
  | 0 => 0
  | N + 1 => rangeSum f N + f N

theorem rangeSum_add (f g : Nat → Nat) (N : Nat) : rangeSum (fun p => f p + g p) N = rangeSum f N + rangeSum g N := by
  induction N with
  | zero => rfl
  | succ N ih => simp only [rangeSum, ih]; omega

theorem rangeSum_congr (f g : Nat → Nat) (N : Nat) (h : ∀ p, p < N → f p = g p) : rangeSum f N = rangeSum g N := by
  induction N with
  | zero => rfl
  | succ N ih => simp only [rangeSum]; rw [ih (fun p hp => h p (by omega)), h N (by omega)]

theorem rangeSum_zero (N : Nat) : rangeSum (fun _ => 0) N = 0 := by
  induction N with
  | zero => rfl
  | succ M ih => simp [rangeSum, ih]

/-- an indicator of `[a,b)` scaled by `d`, summed over `[0,N)` -/
theorem rangeSum_indicator (a d : Nat) : ∀ (N b : Nat), a ≤ b → b ≤ N →
    rangeSum (fun p => if a ≤ p ∧ p < b then d else 0) N = (b - a) * d := by
  intro N
  induction N with
  | zero =>
    intro b h1 h2
    have : b = 0 := by omega
    subst this; simp [rangeSum]
  | succ N ih =>
    intro b h1 h2
    simp only [rangeSum]
    by_cases hb : b ≤ N
    · rw [ih b h1 hb]
      have : ¬ (a ≤ N ∧ N < b) := by omega
      rw [if_neg this]; omega
    · have hbN : b = N + 1 := by omega
      subst hbN
      by_cases ha : a ≤ N
      · have hrec : rangeSum (fun p => if a ≤ p ∧ p < N + 1 then d else 0) N
            = rangeSum (fun p => if a ≤ p ∧ p < N then d else 0) N := by
          apply rangeSum_congr
          intro p hp
          by_cases hc : a ≤ p
          · have c1 : a ≤ p ∧ p < N + 1 := by omega
            have c2 : a ≤ p ∧ p < N := by omega
            rw [if_pos c1, if_pos c2]
          · have c1 : ¬ (a ≤ p ∧ p < N + 1) := by omega
            have c2 : ¬ (a ≤ p ∧ p < N) := by omega
            rw [if_neg c1, if_neg c2]
        rw [hrec, ih N ha (Nat.le_refl _)]
        have : a ≤ N ∧ N < N + 1 := by omega
        rw [if_pos this]
        have e : N + 1 - a = (N - a) + 1 := by omega
        rw [e, Nat.add_mul]; omega
      · have ha' : a = N + 1 := by omega
        subst ha'
        have : ¬ (N + 1 ≤ N ∧ N < N + 1) := by omega
        rw [if_neg this]
        have hz : rangeSum (fun p => if N + 1 ≤ p ∧ p < N + 1 then d else 0) N = rangeSum (fun _ => 0) N := by
          apply rangeSum_congr
          intro p _
          have : ¬ (N + 1 ≤ p ∧ p < N + 1) := by omega
          rw [if_neg this]
        rw [hz, rangeSum_zero]; simp

/-- what the writer adds up from the emitted segments -/
def segBases (l : List Seg) : Nat := (l.map fun g => g.e - g.s).sum
def segSum (l : List Seg) : Nat := (l.map fun g => (g.e - g.s) * g.d).sum

theorem rangeSum_segDepth (N : Nat) : ∀ (l : List Seg) (lo : Nat), Ordered lo N l →
    rangeSum (segDepth l) N = segSum l := by
  intro l
  induction l with
  | nil =>
    intro _ _
    have : segDepth [] = fun _ => 0 := by funext p; rfl
    rw [this, rangeSum_zero]; rfl
  | cons g rest ih =>
    intro lo h
    obtain ⟨a1, a2, a3, a4, a5⟩ := h
    have hfun : segDepth (g :: rest) = fun p => g.at p + segDepth rest p := by funext p; rfl
    rw [hfun, rangeSum_add, ih g.e (ordered_weaken N N rest g.e g.e a5 (Nat.le_refl _) (Nat.le_refl _))]
    have : rangeSum (fun p => g.at p) N = (g.e - g.s) * g.d := by
      have := rangeSum_indicator g.s g.d N g.e a2 a3
      simpa [Seg.at] using this
    rw [this]
    simp [segSum]

/-- **Total sum.** With everything emitted in order inside `[0, N)`, the `sum` field of the summary is the
    sum over all bases of the number of entries covering the base. -/
theorem summary_sum_eq (inf : Nat) (x : Nat × Nat) (rest : List (Nat × Nat)) (hv : Valid inf x.1 (x :: rest)) :
    segSum (sweepAll inf (x :: rest) [] []).1 = rangeSum (depth (x :: rest)) inf := by
  have hord := sweepAll_ordered inf x.1 (x :: rest) [] [] x.1 trivial trivial (Nat.le_refl _) hv
  simp only [List.cons_ne_nil, if_false] at hord
  rw [← rangeSum_segDepth inf _ x.1 hord]
  apply rangeSum_congr
  intro p _
  exact sweep_represents_depth inf x rest hv p

theorem ordered_zero_left (hi : Nat) : ∀ (l : List Seg) (lo p : Nat), Ordered lo hi l → p < lo → segDepth l p = 0 := by
  intro l
  induction l with
  | nil => intro _ _ _ _; rfl
  | cons g rest ih =>
    intro lo p h hp
    obtain ⟨a1, a2, a3, a4, a5⟩ := h
    simp only [segDepth, Seg.at]
    rw [ih g.e p a5 (by omega)]
    have : ¬ (g.s ≤ p ∧ p < g.e) := by omega
    rw [if_neg this]

/-- re-weight every segment: depth ↦ `w depth` -/
def reweight (w : Nat → Nat) (l : List Seg) : List Seg := l.map fun g => { g with d := w g.d }

theorem reweight_ordered (w : Nat → Nat) (hw : ∀ d, 1 ≤ d → 1 ≤ w d) (hi : Nat) : ∀ (l : List Seg) (lo : Nat),
    Ordered lo hi l → Ordered lo hi (reweight w l) := by
  intro l
  induction l with
  | nil => intro _ _; trivial
  | cons g rest ih =>
    intro lo h
    obtain ⟨a1, a2, a3, a4, a5⟩ := h
    exact ⟨a1, a2, a3, hw _ a4, ih g.e a5⟩

theorem reweight_zero_left (w : Nat → Nat) (hi : Nat) : ∀ (l : List Seg) (lo p : Nat), Ordered lo hi l → p < lo →
    segDepth (reweight w l) p = 0 := by
  intro l
  induction l with
  | nil => intro _ _ _ _; rfl
  | cons g rest ih =>
    intro lo p h hp
    obtain ⟨a1, a2, a3, a4, a5⟩ := h
    have ih' := ih g.e p a5 (by omega)
    simp only [reweight, List.map_cons, segDepth, Seg.at] at ih' ⊢
    rw [ih']
    have : ¬ (g.s ≤ p ∧ p < g.e) := by omega
    rw [if_neg this]

/-- disjointness: at each position at most one segment speaks, so a pointwise function of the depth can be
    pushed into the segments (`w 0 = 0`) -/
theorem segDepth_reweight (w : Nat → Nat) (hw0 : w 0 = 0) (hi : Nat) : ∀ (l : List Seg) (lo p : Nat),
    Ordered lo hi l → segDepth (reweight w l) p = w (segDepth l p) := by
  intro l
  induction l with
  | nil => intro _ _ _; simp [reweight, segDepth, hw0]
  | cons g rest ih =>
    intro lo p h
    obtain ⟨a1, a2, a3, a4, a5⟩ := h
    have ih' := ih g.e p a5
    by_cases hp : g.s ≤ p ∧ p < g.e
    · have hz : segDepth rest p = 0 := ordered_zero_left hi rest g.e p a5 hp.2
      have hz' : segDepth (reweight w rest) p = 0 := reweight_zero_left w hi rest g.e p a5 hp.2
      simp only [reweight, List.map_cons, segDepth, Seg.at] at hz' ⊢
      rw [hz', hz, if_pos hp, if_pos hp]; simp
    · simp only [reweight, List.map_cons, segDepth, Seg.at] at ih' ⊢
      rw [ih', if_neg hp, if_neg hp]; simp

def unitW : Nat → Nat := fun d => if d > 0 then 1 else 0

theorem segSum_unit (hi : Nat) : ∀ (l : List Seg) (lo : Nat), Ordered lo hi l → segSum (reweight unitW l) = segBases l := by
  intro l
  induction l with
  | nil => intro _ _; rfl
  | cons g gs ih =>
    intro lo h
    obtain ⟨a1, a2, a3, a4, a5⟩ := h
    have := ih g.e a5
    simp only [segSum, segBases, reweight, List.map_cons, List.sum_cons] at *
    have hw : unitW g.d = 1 := by unfold unitW; rw [if_pos (by omega)]
    rw [hw, Nat.mul_one, this]

/-- **Covered bases.** The `bases_covered` the writer accumulates is the number of bases covered by at
    least one entry (each counted once, however many entries overlap it). -/
theorem summary_bases_eq (inf : Nat) (x : Nat × Nat) (rest : List (Nat × Nat)) (hv : Valid inf x.1 (x :: rest)) :
    segBases (sweepAll inf (x :: rest) [] []).1 =
      rangeSum (fun p => if depth (x :: rest) p > 0 then 1 else 0) inf := by
  have hord := sweepAll_ordered inf x.1 (x :: rest) [] [] x.1 trivial trivial (Nat.le_refl _) hv
  simp only [List.cons_ne_nil, if_false] at hord
  have hw : ∀ d, 1 ≤ d → 1 ≤ unitW d := by
    intro d hd; unfold unitW; rw [if_pos (by omega)]; omega
  have h1 := rangeSum_segDepth inf _ x.1 (reweight_ordered unitW hw inf _ x.1 hord)
  rw [← segSum_unit inf _ x.1 hord, ← h1]
  apply rangeSum_congr
  intro p _
  rw [segDepth_reweight unitW (by simp [unitW]) inf _ x.1 p hord, sweep_represents_depth inf x rest hv p]
  rfl

/-- **Sum of squares.** -/
theorem summary_sumsq_eq (inf : Nat) (x : Nat × Nat) (rest : List (Nat × Nat)) (hv : Valid inf x.1 (x :: rest)) :
    segSum (reweight (fun d => d * d) (sweepAll inf (x :: rest) [] []).1) =
      rangeSum (fun p => depth (x :: rest) p * depth (x :: rest) p) inf := by
  have hord := sweepAll_ordered inf x.1 (x :: rest) [] [] x.1 trivial trivial (Nat.le_refl _) hv
  simp only [List.cons_ne_nil, if_false] at hord
  have hw : ∀ d, 1 ≤ d → 1 ≤ (fun d => d * d) d := by
    intro d hd; exact Nat.le_trans hd (Nat.le_mul_of_pos_right d hd)
  rw [← rangeSum_segDepth inf _ x.1 (reweight_ordered _ hw inf _ x.1 hord)]
  apply rangeSum_congr
  intro p _
  rw [segDepth_reweight (fun d => d * d) (by simp) inf _ x.1 p hord, sweep_represents_depth inf x rest hv p]

/-- in an ordered (hence disjoint) list, the depth at a position inside a segment is that segment's depth -/
theorem ordered_depth_inside (hi : Nat) : ∀ (l : List Seg) (lo : Nat), Ordered lo hi l → ∀ g ∈ l, ∀ p, g.s ≤ p → p < g.e →
    segDepth l p = g.d := by
  intro l
  induction l with
  | nil => intro _ _ g hg; simp at hg
  | cons x rest ih =>
    intro lo h g hg p hp1 hp2
    obtain ⟨a1, a2, a3, a4, a5⟩ := h
    simp only [List.mem_cons] at hg
    rcases hg with rfl | hg
    · simp only [segDepth, Seg.at]
      rw [ordered_zero_left hi rest g.e p a5 hp2, if_pos ⟨hp1, hp2⟩]; rfl
    · -- `g` lies after `x`
      have hgs : x.e ≤ g.s := by
        clear ih
        induction rest generalizing x with
        | nil => simp at hg
        | cons y ys ih2 =>
          obtain ⟨b1, b2, b3, b4, b5⟩ := a5
          simp only [List.mem_cons] at hg
          rcases hg with rfl | hg
          · exact b1
          · have := ih2 y (by omega) b2 b3 b4 b5 hg
            omega
      simp only [segDepth, Seg.at]
      have : ¬ (x.s ≤ p ∧ p < x.e) := by omega
      rw [if_neg this, ih x.e a5 g hg p hp1 hp2]; simp

/-- a covered position lies inside some emitted segment (of positive length) -/
theorem ordered_cover_witness : ∀ (l : List Seg) (p : Nat), segDepth l p > 0 → ∃ g ∈ l, g.s ≤ p ∧ p < g.e := by
  intro l
  induction l with
  | nil => intro p h; simp [segDepth] at h
  | cons x rest ih =>
    intro p h
    simp only [segDepth, Seg.at] at h
    by_cases hx : x.s ≤ p ∧ p < x.e
    · exact ⟨x, by simp, hx⟩
    · rw [if_neg hx] at h
      obtain ⟨g, hg, hgp⟩ := ih p (by omega)
      exact ⟨g, by simp [hg], hgp⟩

/-- **Minimum and maximum (repaired rule: zero-length pieces are ignored).** The depths of the emitted
    segments of positive length are exactly the depths the entries reach on covered bases: every such
    segment's depth is the coverage at a base, and every covered base lies in such a segment carrying its
    coverage. Hence min and max over those segments are min and max of the coverage over covered bases. -/
theorem summary_minmax_exact (inf : Nat) (x : Nat × Nat) (rest : List (Nat × Nat)) (hv : Valid inf x.1 (x :: rest)) :
    (∀ g ∈ (sweepAll inf (x :: rest) [] []).1, g.s < g.e → ∃ p, g.s ≤ p ∧ p < g.e ∧ depth (x :: rest) p = g.d) ∧
    (∀ p, depth (x :: rest) p > 0 →
        ∃ g ∈ (sweepAll inf (x :: rest) [] []).1, g.s < g.e ∧ g.s ≤ p ∧ p < g.e ∧ g.d = depth (x :: rest) p) := by
  have hord := sweepAll_ordered inf x.1 (x :: rest) [] [] x.1 trivial trivial (Nat.le_refl _) hv
  simp only [List.cons_ne_nil, if_false] at hord
  constructor
  · intro g hg hlen
    refine ⟨g.s, Nat.le_refl _, hlen, ?_⟩
    rw [← sweep_represents_depth inf x rest hv g.s]
    exact ordered_depth_inside inf _ x.1 hord g hg g.s (Nat.le_refl _) hlen
  · intro p hp
    rw [← sweep_represents_depth inf x rest hv p] at hp
    obtain ⟨g, hg, h1, h2⟩ := ordered_cover_witness _ p hp
    refine ⟨g, hg, by omega, h1, h2, ?_⟩
    rw [← sweep_represents_depth inf x rest hv p]
    exact (ordered_depth_inside inf _ x.1 hord g hg p h1 h2).symm

/-- D16: as found, zero-length pieces take part in the maximum -/
def maxAll (l : List Seg) : Nat := l.foldl (fun m g => max m g.d) 0
def maxNonEmpty (l : List Seg) : Nat := (l.filter fun g => g.s < g.e).foldl (fun m g => max m g.d) 0

theorem phantom_pollutes_max :
    let em := (sweepAll 1000 [(0,20),(0,10),(0,10),(10,20),(10,20),(10,20)] [] []).1
    maxAll em = 5 ∧ maxNonEmpty em = 4 := by decide

end SW
