/-! Probe (C01/C02/C09): little-endian integer codec and the bigWig type-1 section codec round trip. -/
namespace CD

/-- `k` little-endian bytes of `n` -/
def le : Nat → Nat → List Nat
  | 0, _ => []
  | k + 1, n => n % 256 :: le k (n / 256)

def fromLe : List Nat → Nat
  | [] => 0
  | b :: bs => b + 256 * fromLe bs

theorem le_length (k n : Nat) : (le k n).length = k := by
  induction k generalizing n with
  | zero => rfl
  | succ k ih => simp [le, ih]

theorem fromLe_le (k : Nat) : ∀ n, n < 256 ^ k → fromLe (le k n) = n := by
  induction k with
  | zero => intro n h; simp at h; subst h; rfl
  | succ k ih =>
    intro n h
    simp only [le, fromLe]
    rw [ih (n / 256) (by rw [Nat.pow_succ] at h; omega)]
    omega

theorem le_bytes (k n : Nat) : ∀ b ∈ le k n, b < 256 := by
  induction k generalizing n with
  | zero => simp [le]
  | succ k ih =>
    intro b hb
    simp only [le, List.mem_cons] at hb
    rcases hb with rfl | hb
    · omega
    · exact ih _ b hb

structure Item where
  s : Nat
  e : Nat
  bits : Nat
deriving DecidableEq, Repr

def Item.ok (v : Item) : Prop := v.s < 256 ^ 4 ∧ v.e < 256 ^ 4 ∧ v.bits < 256 ^ 4

def encItem (v : Item) : List Nat := le 4 v.s ++ le 4 v.e ++ le 4 v.bits

/-- `encode_section` (bigWig, uncompressed payload) -/
def encSection (chrom : Nat) (items : List Item) : List Nat :=
  le 4 chrom ++ le 4 ((items.head?.map (·.s)).getD 0) ++ le 4 ((items.getLast?.map (·.e)).getD 0) ++
  le 4 0 ++ le 4 0 ++ [1, 0] ++ le 2 items.length ++ items.flatMap encItem

/-- type-1 item decoder of `get_block_values`, before filtering -/
def decItems : Nat → List Nat → List Item
  | 0, _ => []
  | n + 1, bs =>
    ⟨fromLe (bs.take 4), fromLe ((bs.drop 4).take 4), fromLe ((bs.drop 8).take 4)⟩ :: decItems n (bs.drop 12)

def decSection (bs : List Nat) : Nat × Nat × List Item :=
  let chrom := fromLe (bs.take 4)
  let ty := (bs.drop 20).headD 0
  let count := fromLe ((bs.drop 22).take 2)
  (chrom, ty, decItems count (bs.drop 24))

theorem take_append_len {α} (a b : List α) (n : Nat) (h : a.length = n) : (a ++ b).take n = a := by
  subst h; simp
theorem drop_append_len {α} (a b : List α) (n : Nat) (h : a.length = n) : (a ++ b).drop n = b := by
  subst h; simp

theorem drop_add_append {α} (a b : List α) (n m : Nat) (h : a.length = n) : (a ++ b).drop (n + m) = b.drop m := by
  subst h
  rw [← List.drop_drop, List.drop_left]

theorem decItems_enc (items : List Item) (hok : ∀ v ∈ items, v.ok) (tail : List Nat) :
    decItems items.length (items.flatMap encItem ++ tail) = items := by
  induction items with
  | nil => rfl
  | cons v vs ih =>
    have hv := hok v (by simp)
    obtain ⟨h1, h2, h3⟩ := hv
    simp only [List.length_cons, decItems, List.flatMap_cons, encItem, List.append_assoc]
    have l4 : ∀ n, (le 4 n).length = 4 := le_length 4
    rw [take_append_len _ _ 4 (l4 _), drop_append_len _ _ 4 (l4 _),
        take_append_len _ _ 4 (l4 _)]
    have e8 : List.drop 8 (le 4 v.s ++ (le 4 v.e ++ (le 4 v.bits ++ (List.flatMap encItem vs ++ tail))))
        = le 4 v.bits ++ (List.flatMap encItem vs ++ tail) := by
      rw [show (8 : Nat) = 4 + (4 + 0) by rfl, drop_add_append _ _ 4 _ (l4 _), drop_add_append _ _ 4 _ (l4 _)]; rfl
    have e12 : List.drop 12 (le 4 v.s ++ (le 4 v.e ++ (le 4 v.bits ++ (List.flatMap encItem vs ++ tail))))
        = List.flatMap encItem vs ++ tail := by
      rw [show (12 : Nat) = 4 + (4 + (4 + 0)) by rfl, drop_add_append _ _ 4 _ (l4 _), drop_add_append _ _ 4 _ (l4 _),
          drop_add_append _ _ 4 _ (l4 _)]; rfl
    rw [e8, e12, take_append_len _ _ 4 (l4 _), fromLe_le 4 _ h1, fromLe_le 4 _ h2, fromLe_le 4 _ h3,
        ih (fun w hw => hok w (by simp [hw]))]

/-- **bigWig section round trip**: decoding an encoded section returns the chromosome, the section type 1
    and exactly the items (bit-identical values), for up to 65535 in-range items. -/
theorem section_roundtrip (chrom : Nat) (items : List Item) (hc : chrom < 256 ^ 4)
    (hn : items.length < 256 ^ 2) (hok : ∀ v ∈ items, v.ok) :
    decSection (encSection chrom items) = (chrom, 1, items) := by
  have l4 : ∀ n, (le 4 n).length = 4 := le_length 4
  have l2 : ∀ n, (le 2 n).length = 2 := le_length 2
  unfold decSection encSection
  simp only [List.append_assoc]
  generalize (items.head?.map (·.s)).getD 0 = a
  generalize (items.getLast?.map (·.e)).getD 0 = b
  have d20 : ∀ rest : List Nat, List.drop 20 (le 4 chrom ++ (le 4 a ++ (le 4 b ++ (le 4 0 ++ (le 4 0 ++ rest))))) = rest := by
    intro rest
    rw [show (20 : Nat) = 4 + (4 + (4 + (4 + (4 + 0)))) by rfl, drop_add_append _ _ 4 _ (l4 _),
        drop_add_append _ _ 4 _ (l4 _), drop_add_append _ _ 4 _ (l4 _), drop_add_append _ _ 4 _ (l4 _),
        drop_add_append _ _ 4 _ (l4 _)]; rfl
  have d22 : ∀ rest : List Nat, List.drop 22 (le 4 chrom ++ (le 4 a ++ (le 4 b ++ (le 4 0 ++ (le 4 0 ++ ([1, 0] ++ rest)))))) = rest := by
    intro rest
    rw [show (22 : Nat) = 4 + (4 + (4 + (4 + (4 + 2)))) by rfl, drop_add_append _ _ 4 _ (l4 _),
        drop_add_append _ _ 4 _ (l4 _), drop_add_append _ _ 4 _ (l4 _), drop_add_append _ _ 4 _ (l4 _),
        drop_add_append _ _ 4 _ (l4 _)]; rfl
  have d24 : ∀ rest : List Nat, List.drop 24 (le 4 chrom ++ (le 4 a ++ (le 4 b ++ (le 4 0 ++ (le 4 0 ++ ([1, 0] ++ (le 2 items.length ++ rest))))))) = rest := by
    intro rest
    rw [show (24 : Nat) = 4 + (4 + (4 + (4 + (4 + (2 + (2 + 0)))))) by rfl, drop_add_append _ _ 4 _ (l4 _),
        drop_add_append _ _ 4 _ (l4 _), drop_add_append _ _ 4 _ (l4 _), drop_add_append _ _ 4 _ (l4 _),
        drop_add_append _ _ 4 _ (l4 _), drop_add_append _ _ 2 _ rfl, drop_add_append _ _ 2 _ (l2 _)]; rfl
  rw [take_append_len _ _ 4 (l4 _), fromLe_le 4 _ hc, d20, d22, d24, take_append_len _ _ 2 (l2 _),
      fromLe_le 2 _ hn]
  have := decItems_enc items hok []
  simp only [List.append_nil] at this
  rw [this]
  rfl

end CD
