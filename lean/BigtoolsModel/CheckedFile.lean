import BigtoolsModel.WfIndex
import BigtoolsModel.WigQueryBytes
/-! Probe (C09/C10): any bigWig image whose index passes `walk` and whose leaf blocks pass `checkBlock`
    (an independent decoding of each block with the containment checks of the certificate) is answered by the
    READER exactly as the decoded content says: for every chromosome and range, index search followed by block
    decoding returns the decoded values of that chromosome that strictly overlap the range, clipped, in file
    order. Whatever wrote the file. (Little-endian, type-1 sections, uncompressed.) -/
namespace BBI
open RT

/-- independent decoding of one leaf's block, with the certificate's checks -/
def checkBlock (l : List Nat) (x : Sec) : Option (List Value) :=
  let s := srcOf l
  let o := x.off
  if x.lo.c ≠ x.hi.c then none else
  if o + x.size > l.length then none else
  if x.size < 24 then none else
  if byte s (o + 20) ≠ 1 then none else
  if x.size ≠ 24 + u16 .little s (o + 22) * 12 then none else
  if u32 .little s o ≠ x.lo.c then none else
  let items := (List.range (u16 .little s (o + 22))).map fun i =>
    (⟨u32 .little s (o + 24 + 12 * i), u32 .little s (o + 24 + 12 * i + 4), u32 .little s (o + 24 + 12 * i + 8)⟩ : Value)
  if items.all (fun v => decide (x.lo.b ≤ v.start) && decide (v.stop ≤ x.hi.b)) then some items else none

def itemsOf (l : List Nat) (x : Sec) : List Value := (checkBlock l x).getD []

theorem filterMap_map_range {β γ} (n : Nat) (g : Nat → β) (f : β → Option γ) :
    (List.range n).filterMap (fun i => f (g i)) = ((List.range n).map g).filterMap f := by
  rw [List.filterMap_map]; rfl

/-- the reader decodes an accepted block to the same items -/
theorem block_consistent (l : List Nat) (x : Sec) (items : List Value) (h : checkBlock l x = some items)
    (c qs qe : Nat) :
    wigBlock .little (srcOf l) ⟨x.off, x.size⟩ c qs qe =
      .ok (if x.lo.c = c then items.filterMap (keepClip qs qe) else []) := by
  unfold checkBlock at h
  simp only at h
  split at h; · cases h
  split at h; · cases h
  rename_i hb
  split at h; · cases h
  rename_i h24
  split at h; · cases h
  rename_i hty
  split at h; · cases h
  rename_i hsz
  split at h; · cases h
  rename_i hch
  split at h
  · simp only [Option.some.injEq] at h
    subst h
    have n1 : x.off + 24 ≤ (srcOf l).size := by show _ ≤ l.length; omega
    have hty' : byte (srcOf l) (x.off + 20) = 1 := by omega
    have hch' : u32 .little (srcOf l) x.off = x.lo.c := by omega
    have n2 : x.off + 24 + u16 .little (srcOf l) (x.off + 22) * 12 ≤ (srcOf l).size := by
      show _ ≤ l.length; omega
    by_cases hc : x.lo.c = c
    · simp only [wigBlock, need, n1, n2, if_true, bind, Except.bind, pure, Except.pure, hch', hc, ne_eq,
        not_true_eq_false, if_false, hty']
      congr 1
      rw [List.filterMap_map]
      rfl
    · simp [wigBlock, need, n1, bind, Except.bind, pure, Except.pure, hch', hc]
  · cases h

/-- accepted items lie inside the span the index records -/
theorem block_within (l : List Nat) (x : Sec) (items : List Value) (h : checkBlock l x = some items) :
    x.lo.c = x.hi.c ∧ ∀ v ∈ items, x.lo.b ≤ v.start ∧ v.stop ≤ x.hi.b := by
  unfold checkBlock at h
  simp only at h
  split at h; · cases h
  rename_i hcc
  split at h; · cases h
  split at h; · cases h
  split at h; · cases h
  split at h; · cases h
  split at h; · cases h
  split at h
  · rename_i hall
    simp only [Option.some.injEq] at h
    subst h
    refine ⟨by omega, ?_⟩
    intro v hv
    have := List.all_eq_true.mp hall v hv
    simpa using this
  · cases h

/-- decoding the blocks of a list of accepted leaves -/
theorem goBlocks_checked (l : List Nat) (c qs qe : Nat) : ∀ (xs : List Sec),
    (∀ x ∈ xs, ∃ items, checkBlock l x = some items) →
    goBlocks l c qs qe (blocksOf xs) =
      .ok (xs.flatMap fun x => if x.lo.c = c then (itemsOf l x).filterMap (keepClip qs qe) else []) := by
  intro xs
  induction xs with
  | nil => intro _; rfl
  | cons x xs ih =>
    intro h
    obtain ⟨items, hi⟩ := h x (by simp)
    simp only [blocksOf, List.map_cons, goBlocks, List.flatMap_cons, blockOf]
    have := ih (fun y hy => h y (by simp [hy]))
    simp only [blocksOf, blockOf] at this
    rw [block_consistent l x items hi c qs qe, this]
    simp [itemsOf, hi]

theorem pruned_checked (l : List Nat) (x : Sec) (items : List Value) (h : checkBlock l x = some items)
    (c qs qe : Nat) (hc : x.lo.c = c) (hov : ov ⟨c, qs⟩ ⟨c, qe⟩ x.lo x.hi = false) :
    items.filterMap (keepClip qs qe) = [] := by
  obtain ⟨hcc, hw⟩ := block_within l x items h
  rw [List.filterMap_eq_nil_iff]
  intro v hv
  obtain ⟨h1, h2⟩ := hw v hv
  have : ¬ (qs ≤ x.hi.b ∧ x.lo.b ≤ qe) := by
    intro hh
    have : ov ⟨c, qs⟩ ⟨c, qe⟩ x.lo x.hi = true := by
      simp only [ov, Bool.and_eq_true, decide_eq_true_eq]
      refine ⟨Or.inr ⟨by show c = x.hi.c; omega, hh.1⟩, Or.inr ⟨by show x.lo.c = c; omega, hh.2⟩⟩
    rw [this] at hov; cases hov
  simp only [keepClip]
  rw [if_neg]
  intro hk
  omega

theorem via_index_checked (l : List Nat) (c qs qe : Nat) : ∀ (xs : List Sec),
    (∀ x ∈ xs, ∃ items, checkBlock l x = some items) →
    ((xs.filter fun x => ov ⟨c, qs⟩ ⟨c, qe⟩ x.lo x.hi).flatMap fun x =>
        if x.lo.c = c then (itemsOf l x).filterMap (keepClip qs qe) else []) =
      ((xs.filter fun x => x.lo.c = c).flatMap (itemsOf l)).filterMap (keepClip qs qe) := by
  intro xs
  induction xs with
  | nil => intro _; rfl
  | cons x xs ih =>
    intro h
    have ih' := ih (fun y hy => h y (by simp [hy]))
    obtain ⟨items, hi⟩ := h x (by simp)
    simp only [List.filter_cons]
    by_cases hc : x.lo.c = c
    · simp only [hc, decide_true, if_true, List.flatMap_cons, List.filterMap_append]
      by_cases hov : ov ⟨c, qs⟩ ⟨c, qe⟩ x.lo x.hi = true
      · simp only [hov, if_true, List.flatMap_cons, hc, ih']
      · have hov' : ov ⟨c, qs⟩ ⟨c, qe⟩ x.lo x.hi = false := by simpa using hov
        have := pruned_checked l x items hi c qs qe hc hov'
        have hx : itemsOf l x = items := by simp [itemsOf, hi]
        simp only [hov', Bool.false_eq_true, if_false, ih', hx, this, List.nil_append]
    · simp only [hc, decide_false, Bool.false_eq_true, if_false]
      by_cases hov : ov ⟨c, qs⟩ ⟨c, qe⟩ x.lo x.hi = true
      · simp only [hov, if_true, List.flatMap_cons, hc, if_false, List.nil_append, ih']
      · simp only [hov, Bool.false_eq_true, if_false, ih']

/-- **C09/C10: an accepted file is read as decoded.** -/
theorem checked_query (l : List Nat) (bs fuel off : Nat) (expect : Option Span) (t : T)
    (hwalk : walk .little (srcOf l) bs fuel off expect = .ok t)
    (hblocks : ∀ x ∈ leaves t, ∃ items, checkBlock l x = some items) (c qs qe : Nat) :
    ∃ fuel' blocks, searchCir .little (srcOf l) 24 c qs qe fuel' [off] [] = .ok blocks ∧
      goBlocks l c qs qe blocks =
        .ok ((((leaves t).filter fun x => x.lo.c = c).flatMap (itemsOf l)).filterMap (keepClip qs qe)) := by
  refine ⟨_, _, checked_index_search .little (srcOf l) bs fuel off expect t hwalk c qs qe, ?_⟩
  rw [goBlocks_checked l c qs qe _ (fun x hx => hblocks x (List.mem_filter.mp hx).1),
    via_index_checked l c qs qe (leaves t) hblocks]

end BBI
