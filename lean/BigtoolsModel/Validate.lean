/-! Probe (C13): the writers' input validation and the serial source's chromosome logic as decision
    functions; every violation class, wherever it sits in the stream, makes the result an error. -/
namespace VL

inductive Err where
  | invalidInput          -- process_val precondition
  | invalidChromosome     -- chromosome missing from the sizes
  | notSorted             -- chromosome order (SourceError)
  | empty                 -- no values at all (SourceError)
deriving DecidableEq, Repr

structure Item where
  s : Nat
  e : Nat
deriving DecidableEq, Repr

/-- `process_val` preconditions. bigWig: start ≤ end, end ≤ len, end ≤ next.start.
    bigBed: start ≤ end, start < len, start ≤ next.start. -/
def check (bed : Bool) (len : Nat) (cur : Item) (next : Option Item) : Bool :=
  if cur.s > cur.e then false
  else if bed then
    if cur.s ≥ len then false else
    match next with
    | some n => decide (cur.s ≤ n.s)
    | none => true
  else
    if cur.e > len then false else
    match next with
    | some n => decide (cur.e ≤ n.s)
    | none => true

/-- one chromosome's items, each checked against its successor -/
def checkChrom (bed : Bool) (len : Nat) : List Item → Bool
  | [] => true
  | [v] => check bed len v none
  | v :: w :: rest => check bed len v (some w) && checkChrom bed len (w :: rest)

/-- the serial source over a stream already grouped into chromosome runs `(name, items)`;
    `sizes` looks the chromosome up, `le` is the string order used for the sortedness check -/
def runs (bed allowOOO : Bool) (sizes : Nat → Option Nat) (le : Nat → Nat → Bool) :
    Option Nat → List (Nat × List Item) → Option Err
  | _, [] => none
  | prev, (c, items) :: rest =>
    match prev with
    | some p => if !allowOOO && le c p then some .notSorted else goChrom c items rest
    | none => goChrom c items rest
where
  goChrom (c : Nat) (items : List Item) (rest : List (Nat × List Item)) : Option Err :=
    match sizes c with
    | none => some .invalidChromosome
    | some len => if checkChrom bed len items then runs bed allowOOO sizes le (some c) rest else some .invalidInput

def write (bed allowOOO : Bool) (sizes : Nat → Option Nat) (le : Nat → Nat → Bool)
    (stream : List (Nat × List Item)) : Option Err :=
  if stream = [] then some .empty else runs bed allowOOO sizes le none stream

/-- a run has a defect if one of its items violates a precondition with respect to its successor -/
def BadItem (bed : Bool) (len : Nat) : List Item → Prop
  | [] => False
  | [v] => check bed len v none = false
  | v :: w :: rest => check bed len v (some w) = false ∨ BadItem bed len (w :: rest)

theorem checkChrom_false_of_bad (bed : Bool) (len : Nat) : ∀ items, BadItem bed len items → checkChrom bed len items = false := by
  intro items
  induction items with
  | nil => intro h; exact absurd h (by simp [BadItem])
  | cons v rest ih =>
    cases rest with
    | nil => intro h; simpa [checkChrom, BadItem] using h
    | cons w rest' =>
      intro h
      simp only [checkChrom, BadItem] at *
      rcases h with h | h
      · simp [h]
      · simp [ih h]

/-- **Refusal.** If any run of the stream has an unknown chromosome, or contains an item violating a
    precondition — at any position of any run — the write is refused (whatever else is wrong earlier
    only changes which error is reported). -/
theorem refuses (bed allowOOO : Bool) (sizes : Nat → Option Nat) (le : Nat → Nat → Bool) :
    ∀ (stream : List (Nat × List Item)) (prev : Option Nat),
      (∃ r ∈ stream, sizes r.1 = none ∨ ∃ len, sizes r.1 = some len ∧ BadItem bed len r.2) →
      (runs bed allowOOO sizes le prev stream).isSome := by
  intro stream
  induction stream with
  | nil => intro prev h; obtain ⟨r, hr, _⟩ := h; simp at hr
  | cons x rest ih =>
    intro prev h
    obtain ⟨c, items⟩ := x
    have hgo : (runs.goChrom bed allowOOO sizes le c items rest).isSome := by
      unfold runs.goChrom
      cases hs : sizes c with
      | none => simp
      | some len =>
        simp only
        by_cases hc : checkChrom bed len items = true
        · simp only [hc, if_true]
          obtain ⟨r, hr, hbad⟩ := h
          simp only [List.mem_cons] at hr
          rcases hr with rfl | hr
          · rcases hbad with hb | ⟨l, hl, hb⟩
            · simp [hs] at hb
            · simp only [hs, Option.some.injEq] at hl; subst hl
              have := checkChrom_false_of_bad bed len items hb
              simp [this] at hc
          · exact ih (some c) ⟨r, hr, hbad⟩
        · simp [hc]
    unfold runs
    cases prev with
    | none => exact hgo
    | some p =>
      simp only
      split
      · simp
      · exact hgo

theorem refuses_empty (bed allowOOO : Bool) (sizes : Nat → Option Nat) (le : Nat → Nat → Bool) :
    write bed allowOOO sizes le [] = some .empty := by simp [write]

/-- chromosome order: with sorted input required, a run whose name is not greater than its predecessor's
    is refused (if nothing earlier already was) -/
theorem refuses_chrom_order (bed : Bool) (sizes : Nat → Option Nat) (le : Nat → Nat → Bool)
    (p c : Nat) (items : List Item) (rest : List (Nat × List Item)) (h : le c p = true) :
    runs bed false sizes le (some p) ((c, items) :: rest) = some .notSorted := by
  simp [runs, h]

/-- acceptance: a stream of known chromosomes in order whose items satisfy every precondition is accepted -/
theorem accepts (bed allowOOO : Bool) (sizes : Nat → Option Nat) (le : Nat → Nat → Bool) :
    ∀ (stream : List (Nat × List Item)) (prev : Option Nat),
      (∀ r ∈ stream, ∃ len, sizes r.1 = some len ∧ checkChrom bed len r.2 = true) →
      allowOOO = true →
      runs bed allowOOO sizes le prev stream = none := by
  intro stream
  induction stream with
  | nil => intro prev _ _; simp [runs]
  | cons x rest ih =>
    intro prev h ha
    obtain ⟨c, items⟩ := x
    obtain ⟨len, hl, hc⟩ := h (c, items) (by simp)
    have hrest := ih (some c) (fun r hr => h r (by simp [hr])) ha
    subst ha
    cases prev <;> simp [runs, runs.goChrom, hl, hc, hrest]

end VL
