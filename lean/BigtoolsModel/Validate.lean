/-! Probe (C13): the writers' input validation and the serial source's chromosome logic as decision
    functions; every violation class, wherever it sits in the stream, makes the result an error. -/
namespace VL

inductive Err where
  | invalidInput          -- process_val precondition
  | invalidChromosome     -- chromosome missing from the sizes
  | notSorted             -- chromosome order (SourceError)
  | empty                 -- no values at all (SourceError)
deriving DecidableEq, Repr

structure Item where
  s : Nat
  e : Nat
deriving DecidableEq, Repr

/-- `process_val` preconditions. bigWig: start ≤ end, end ≤ len, end ≤ next.start.
    bigBed: start ≤ end, start < len, start ≤ next.start. -/
def check (bed : Bool) (len : Nat) (cur : Item) (next : Option Item) : Bool :=
  if cur.s > cur.e then false
  else if bed then
    if cur.s ≥ len then false else
    match next with
    | some n => decide (cur.s ≤ n.s)
    | none => true
  else
    if cur.e > len then false else
    match next with
    | some n => decide (cur.e ≤ n.s)
    | none => true

/-- one chromosome's items, each checked against its successor -/
def checkChrom (bed : Bool) (len : Nat) : List Item → Bool
  | [] => true
  | [v] => check bed len v none
  | v :: w :: rest => check bed len v (some w) && checkChrom bed len (w :: rest)

/-- the sources over a stream cut into chromosome runs `(name, items)` in file order; `sizes` looks the chromosome up,
    `le` is the string order used for the sortedness check, `seen` the chromosomes that already had a run: a chromosome
    that comes back (the input is not grouped) is refused when its second run starts (D23; as found it was accepted and
    made the two-pass writer panic) -/
def runs (bed allowOOO : Bool) (sizes : Nat → Option Nat) (le : Nat → Nat → Bool) :
    Option Nat → List Nat → List (Nat × List Item) → Option Err
  | _, _, [] => none
  | prev, seen, (c, items) :: rest =>
    match prev with
    | some p => if !allowOOO && le c p then some .notSorted else goChrom c items rest seen
    | none => goChrom c items rest seen
where
  goChrom (c : Nat) (items : List Item) (rest : List (Nat × List Item)) (seen : List Nat) : Option Err :=
    match sizes c with
    | none => some .invalidChromosome
    | some len =>
      if seen.contains c then some .invalidInput
      else if checkChrom bed len items then runs bed allowOOO sizes le (some c) (c :: seen) rest else some .invalidInput

def write (bed allowOOO : Bool) (sizes : Nat → Option Nat) (le : Nat → Nat → Bool)
    (stream : List (Nat × List Item)) : Option Err :=
  if stream = [] then some .empty else runs bed allowOOO sizes le none [] stream

/-- a run has a defect if one of its items violates a precondition with respect to its successor -/
def BadItem (bed : Bool) (len : Nat) : List Item → Prop
  | [] => False
  | [v] => check bed len v none = false
  | v :: w :: rest => check bed len v (some w) = false ∨ BadItem bed len (w :: rest)

theorem checkChrom_false_of_bad (bed : Bool) (len : Nat) : ∀ items, BadItem bed len items → checkChrom bed len items = false := by
  intro items
  induction items with
  | nil => intro h; exact absurd h (by simp [BadItem])
  | cons v rest ih =>
    cases rest with
    | nil => intro h; simpa [checkChrom, BadItem] using h
    | cons w rest' =>
      intro h
      simp only [checkChrom, BadItem] at *
      rcases h with h | h
      · simp [h]
      · simp [ih h]

/-- **Refusal.** If any run of the stream has an unknown chromosome, or contains an item violating a
    precondition — at any position of any run — the write is refused (whatever else is wrong earlier
    only changes which error is reported). -/
theorem refuses (bed allowOOO : Bool) (sizes : Nat → Option Nat) (le : Nat → Nat → Bool) :
    ∀ (stream : List (Nat × List Item)) (prev : Option Nat) (seen : List Nat),
      (∃ r ∈ stream, sizes r.1 = none ∨ ∃ len, sizes r.1 = some len ∧ BadItem bed len r.2) →
      (runs bed allowOOO sizes le prev seen stream).isSome := by
  intro stream
  induction stream with
  | nil => intro prev seen h; obtain ⟨r, hr, _⟩ := h; simp at hr
  | cons x rest ih =>
    intro prev seen h
    obtain ⟨c, items⟩ := x
    have hgo : (runs.goChrom bed allowOOO sizes le c items rest seen).isSome := by
      unfold runs.goChrom
      cases hs : sizes c with
      | none => simp
      | some len =>
        simp only
        split
        · simp
        · by_cases hc : checkChrom bed len items = true
          · simp only [hc, if_true]
            obtain ⟨r, hr, hbad⟩ := h
            simp only [List.mem_cons] at hr
            rcases hr with rfl | hr
            · rcases hbad with hb | ⟨l, hl, hb⟩
              · simp [hs] at hb
              · simp only [hs, Option.some.injEq] at hl; subst hl
                have := checkChrom_false_of_bad bed len items hb
                simp [this] at hc
            · exact ih (some c) (c :: seen) ⟨r, hr, hbad⟩
          · simp [hc]
    unfold runs
    cases prev with
    | none => exact hgo
    | some p =>
      simp only
      split
      · simp
      · exact hgo

/-- **Not grouped.** A chromosome that already had a run (`c ∈ seen`) and comes back is refused — wherever the second run
    sits in the stream, whichever source delivers it. -/
theorem refuses_not_grouped (bed allowOOO : Bool) (sizes : Nat → Option Nat) (le : Nat → Nat → Bool) :
    ∀ (stream : List (Nat × List Item)) (prev : Option Nat) (seen : List Nat),
      (∃ r ∈ stream, r.1 ∈ seen) → (runs bed allowOOO sizes le prev seen stream).isSome := by
  intro stream
  induction stream with
  | nil => intro prev seen h; obtain ⟨r, hr, _⟩ := h; simp at hr
  | cons x rest ih =>
    intro prev seen h
    obtain ⟨c, items⟩ := x
    have hgo : (runs.goChrom bed allowOOO sizes le c items rest seen).isSome := by
      unfold runs.goChrom
      cases hs : sizes c with
      | none => simp
      | some len =>
        simp only
        split
        · simp
        · rename_i hseen
          by_cases hc : checkChrom bed len items = true
          · simp only [hc, if_true]
            obtain ⟨r, hr, hin⟩ := h
            simp only [List.mem_cons] at hr
            rcases hr with rfl | hr
            · exact absurd (by simpa using hin) hseen
            · exact ih (some c) (c :: seen) ⟨r, hr, List.mem_cons_of_mem _ hin⟩
          · simp [hc]
    unfold runs
    cases prev with
    | none => exact hgo
    | some p =>
      simp only
      split
      · simp
      · exact hgo

theorem runs_cons (bed allowOOO : Bool) (sizes : Nat → Option Nat) (le : Nat → Nat → Bool) (prev : Option Nat) (seen : List Nat)
    (c : Nat) (items : List Item) (rest : List (Nat × List Item)) :
    runs bed allowOOO sizes le prev seen ((c, items) :: rest) =
      match prev with
      | some p => if !allowOOO && le c p then some .notSorted else runs.goChrom bed allowOOO sizes le c items rest seen
      | none => runs.goChrom bed allowOOO sizes le c items rest seen := by
  cases prev <;> simp [runs]

/-- … in particular a stream in which some chromosome has two runs is refused -/
theorem refuses_repeated_chromosome (bed allowOOO : Bool) (sizes : Nat → Option Nat) (le : Nat → Nat → Bool)
    (pre mid post : List (Nat × List Item)) (c : Nat) (i1 i2 : List Item) (prev : Option Nat) (seen : List Nat) :
    (runs bed allowOOO sizes le prev seen (pre ++ (c, i1) :: (mid ++ (c, i2) :: post))).isSome := by
  induction pre generalizing prev seen with
  | nil =>
    simp only [List.nil_append]
    have hgo : (runs.goChrom bed allowOOO sizes le c i1 (mid ++ (c, i2) :: post) seen).isSome := by
      unfold runs.goChrom
      cases hs : sizes c with
      | none => simp
      | some len =>
        simp only
        split
        · simp
        · split
          · exact refuses_not_grouped bed allowOOO sizes le _ (some c) (c :: seen) ⟨(c, i2), by simp, by simp⟩
          · simp
    rw [runs_cons]
    cases prev with
    | none => exact hgo
    | some p =>
      (try simp only)
      split
      · simp
      · exact hgo
  | cons x pre ih =>
    obtain ⟨d, items⟩ := x
    simp only [List.cons_append]
    have hgo : (runs.goChrom bed allowOOO sizes le d items (pre ++ (c, i1) :: (mid ++ (c, i2) :: post)) seen).isSome := by
      unfold runs.goChrom
      cases hs : sizes d with
      | none => simp
      | some len =>
        simp only
        split
        · simp
        · split
          · exact ih (some d) (d :: seen)
          · simp
    rw [runs_cons]
    cases prev with
    | none => exact hgo
    | some p =>
      (try simp only)
      split
      · simp
      · exact hgo

theorem refuses_empty (bed allowOOO : Bool) (sizes : Nat → Option Nat) (le : Nat → Nat → Bool) :
    write bed allowOOO sizes le [] = some .empty := by simp [write]

/-- chromosome order: with sorted input required, a run whose name is not greater than its predecessor's
    is refused (if nothing earlier already was) -/
theorem refuses_chrom_order (bed : Bool) (sizes : Nat → Option Nat) (le : Nat → Nat → Bool)
    (p c : Nat) (items : List Item) (rest : List (Nat × List Item)) (seen : List Nat) (h : le c p = true) :
    runs bed false sizes le (some p) seen ((c, items) :: rest) = some .notSorted := by
  simp [runs, h]

/-- acceptance: a stream of known chromosomes, each with ONE run, whose items satisfy every precondition is accepted -/
theorem accepts (bed allowOOO : Bool) (sizes : Nat → Option Nat) (le : Nat → Nat → Bool) :
    ∀ (stream : List (Nat × List Item)) (prev : Option Nat) (seen : List Nat),
      (∀ r ∈ stream, ∃ len, sizes r.1 = some len ∧ checkChrom bed len r.2 = true) →
      (stream.map (·.1)).Nodup → (∀ r ∈ stream, r.1 ∉ seen) →
      allowOOO = true →
      runs bed allowOOO sizes le prev seen stream = none := by
  intro stream
  induction stream with
  | nil => intro prev seen _ _ _ _; simp [runs]
  | cons x rest ih =>
    intro prev seen h hnd hns ha
    obtain ⟨c, items⟩ := x
    obtain ⟨len, hl, hc⟩ := h (c, items) (by simp)
    simp only [List.map_cons, List.nodup_cons] at hnd
    have hcs : c ∉ seen := hns (c, items) (by simp)
    have hrest := ih (some c) (c :: seen) (fun r hr => h r (by simp [hr])) hnd.2
      (fun r hr => by
        have h1 := hns r (by simp [hr])
        have h2 : r.1 ≠ c := fun e => hnd.1 (by rw [← e]; exact List.mem_map_of_mem hr)
        simp [h1, h2]) ha
    subst ha
    cases prev <;> simp [runs, runs.goChrom, hl, hc, hcs, hrest]

end VL
