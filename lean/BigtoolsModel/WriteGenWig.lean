import BigtoolsModel.Generated.Atoms
import BigtoolsModel.WriteAll
/-! Obligation on the regenerated list of bare `write` calls of bigwigwrite.rs; one module per source file so that a property depends
    only on the files its writer goes through. -/
namespace WA

/-- no function of bigwigwrite.rs hands a buffer to a destination with a bare `write`: everything goes through `write_all` / `io::copy` -/
theorem gen_no_bare_write_bigwigwrite : Gen.wr_bare_write_bigwigwrite = [] := by
  delta Gen.wr_bare_write_bigwigwrite
  rfl

end WA
