import BigtoolsModel.Tiler2
import BigtoolsModel.Sweep
import BigtoolsModel.FView
import BigtoolsModel.IndexerFix
import BigtoolsModel.Chunker
import BigtoolsModel.SummaryFold
import BigtoolsModel.BedSummary
import BigtoolsModel.Stats2
import BigtoolsModel.ZoomLevels
import BigtoolsModel.AtomsNorm
namespace Tiler2

/-- a fresh zoom record as the source's record literal builds it (`start`, `end`, `bases_covered`, `min_val`, `max_val`;
    `sum: 0.0` is a float literal the translator does not read) -/
def newRecWith (nStart nEnd nBases nMin nMax : Int → Int → Int → Int → Int → Int) (a : Nat) (v : Int) : Rec :=
  { start := (nStart 0 v 0 0 a).toNat, stop := (nEnd 0 v 0 0 a).toNat, bases := (nBases 0 v 0 0 a).toNat, sum := 0,
    mn := nMin 0 v 0 0 a, mx := nMax 0 v 0 0 a }

/-- the statistics a value adds to the live record, with the source's expressions -/
def addWith (bases sum mn mx : Int → Int → Int → Int → Int → Int) (r : Rec) (stop added : Nat) (v : Int) (a : Nat) : Rec :=
  { r with stop := stop, bases := r.bases + (bases added v r.mn r.mx a).toNat, sum := r.sum + sum added v r.mn r.mx a,
           mn := mn added v r.mn r.mx a, mx := mx added v r.mn r.mx a }

/-- what the proofs need of the statistics expressions: each is the model's -/
structure StatAtoms (bases items sum sumsq mn mx nStart nEnd nMin nMax nBases : Int → Int → Int → Int → Int → Int) : Prop where
  bases_eq : ∀ n v a b s, bases n v a b s = n
  items_eq : ∀ n v a b s, items n v a b s = 1
  sum_eq : ∀ n v a b s, sum n v a b s = n * v
  sumsq_eq : ∀ n v a b s, sumsq n v a b s = n * v * v
  mn_eq : ∀ n v a b s, mn n v a b s = min a v
  mx_eq : ∀ n v a b s, mx n v a b s = max b v
  nStart_eq : ∀ n v a b s, nStart n v a b s = s
  nEnd_eq : ∀ n v a b s, nEnd n v a b s = s
  nMin_eq : ∀ n v a b s, nMin n v a b s = v
  nMax_eq : ∀ n v a b s, nMax n v a b s = v
  nBases_eq : ∀ n v a b s, nBases n v a b s = 0

theorem gen_wig_stat_atoms : StatAtoms Gen.wzs_bases_add Gen.wzs_items_add Gen.wzs_sum_add Gen.wzs_sumsq_add Gen.wzs_min Gen.wzs_max
    Gen.wzs_new_start Gen.wzs_new_end Gen.wzs_new_min Gen.wzs_new_max Gen.wzs_new_bases := by
  constructor <;> intros <;>
    delta Gen.wzs_bases_add Gen.wzs_items_add Gen.wzs_sum_add Gen.wzs_sumsq_add Gen.wzs_min Gen.wzs_max Gen.wzs_new_start
      Gen.wzs_new_end Gen.wzs_new_min Gen.wzs_new_max Gen.wzs_new_bases <;>
    first | rfl | omega | grind

theorem gen_bed_stat_atoms : StatAtoms Gen.bzs2_bases_add Gen.bzs2_items_add Gen.bzs2_sum_add Gen.bzs2_sumsq_add Gen.bzs2_min Gen.bzs2_max
    Gen.bzs2_new_start Gen.bzs2_new_end Gen.bzs2_new_min Gen.bzs2_new_max Gen.bzs2_new_bases := by
  constructor <;> intros <;>
    delta Gen.bzs2_bases_add Gen.bzs2_items_add Gen.bzs2_sum_add Gen.bzs2_sumsq_add Gen.bzs2_min Gen.bzs2_max Gen.bzs2_new_start
      Gen.bzs2_new_end Gen.bzs2_new_min Gen.bzs2_new_max Gen.bzs2_new_bases <;>
    first | rfl | omega | grind

theorem newRecWith_eq {bases items sum sumsq mn mx nStart nEnd nMin nMax nBases : Int → Int → Int → Int → Int → Int}
    (h : StatAtoms bases items sum sumsq mn mx nStart nEnd nMin nMax nBases) (a : Nat) (v : Int) :
    newRecWith nStart nEnd nBases nMin nMax a v = newRec a v := by
  unfold newRecWith newRec
  simp [h.nStart_eq, h.nEnd_eq, h.nMin_eq, h.nMax_eq, h.nBases_eq]

theorem addWith_eq {bases items sum sumsq mn mx nStart nEnd nMin nMax nBases : Int → Int → Int → Int → Int → Int}
    (h : StatAtoms bases items sum sumsq mn mx nStart nEnd nMin nMax nBases) (r : Rec) (stop added : Nat) (v : Int) (a : Nat) :
    addWith bases sum mn mx r stop added v a =
      { r with stop := stop, bases := r.bases + added, sum := r.sum + (added : Int) * v, mn := min r.mn v, mx := max r.mx v } := by
  unfold addWith
  simp [h.bases_eq, h.sum_eq, h.mn_eq, h.mx_eq]

/-- one pass through the body of the bigWig tiler's `loop`, assembled from the source's expressions -/
def iterGen (size : Nat) (x : Val) (a : Nat) (st : TSt) : Nat × TSt :=
  let r := st.live.getD (newRecWith Gen.wzs_new_start Gen.wzs_new_end Gen.wzs_new_bases Gen.wzs_new_min Gen.wzs_new_max a x.v)
  let nextEnd := Gen.wz_next_end r.start size
  let addEnd := Gen.wz_add_end nextEnd x.e
  let r' : Rec := if Gen.wz_update addEnd a then
      addWith Gen.wzs_bases_add Gen.wzs_sum_add Gen.wzs_min Gen.wzs_max r addEnd (Gen.wz_added addEnd a) x.v a
    else r
  let st' : TSt := if Gen.wz_close addEnd nextEnd then { live := none, out := st.out ++ [r'] }
                   else { live := some r', out := st.out }
  (Gen.wz_next_start addEnd x.s, st')

/-- the same for the bigBed tiler (the piece `[x.s, x.e)` of coverage depth `x.v` the sweep hands over) -/
def iterGenBed (size : Nat) (x : Val) (a : Nat) (st : TSt) : Nat × TSt :=
  let r := st.live.getD (newRecWith Gen.bzs2_new_start Gen.bzs2_new_end Gen.bzs2_new_bases Gen.bzs2_new_min Gen.bzs2_new_max a x.v)
  let nextEnd := Gen.bz_next_end r.start size
  let addEnd := Gen.bz_add_end nextEnd x.e
  let r' : Rec := if Gen.bz_update addEnd a then
      addWith Gen.bzs2_bases_add Gen.bzs2_sum_add Gen.bzs2_min Gen.bzs2_max r addEnd (Gen.bz_added addEnd a) x.v a
    else r
  let st' : TSt := if Gen.bz_close addEnd nextEnd then { live := none, out := st.out ++ [r'] }
                   else { live := some r', out := st.out }
  (Gen.bz_next_start addEnd x.s, st')

theorem rec_ext {a b : Rec} (h1 : a.start = b.start) (h2 : a.stop = b.stop) (h3 : a.bases = b.bases) (h4 : a.sum = b.sum)
    (h5 : a.mn = b.mn) (h6 : a.mx = b.mx) : a = b := by
  cases a; cases b; simp_all

/-- what the proofs below need of the seven expressions, stated once: each is the model's expression -/
structure TilerAtoms (done : Nat → Nat → Bool) (nextEnd : Nat → Nat → Nat) (addEnd : Nat → Nat → Nat)
    (update : Nat → Nat → Bool) (added : Nat → Nat → Nat) (close : Nat → Nat → Bool) (nextStart : Nat → Nat → Nat) : Prop where
  done_eq : ∀ a e, done a e = decide (a ≥ e)
  nextEnd_eq : ∀ s z, nextEnd s z = s + z
  addEnd_eq : ∀ n e, addEnd n e = min n e
  update_eq : ∀ ae a, update ae a = decide (ae > a)
  added_eq : ∀ ae a, update ae a = true → added ae a = ae - a
  close_eq : ∀ ae n, close ae n = decide (ae = n)
  nextStart_eq : ∀ ae s, nextStart ae s = max ae s

theorem gen_wig_atoms : TilerAtoms Gen.wz_done Gen.wz_next_end Gen.wz_add_end Gen.wz_update Gen.wz_added Gen.wz_close
    Gen.wz_next_start := by
  constructor <;> intros <;>
    delta Gen.wz_done Gen.wz_next_end Gen.wz_add_end Gen.wz_update Gen.wz_added Gen.wz_close Gen.wz_next_start at * <;>
    first
    | rfl
    | grind
    | (atoms_norm; omega)
    | (rw [Bool.eq_iff_iff]; atoms_norm; omega)

theorem gen_bed_atoms : TilerAtoms Gen.bz_done Gen.bz_next_end Gen.bz_add_end Gen.bz_update Gen.bz_added Gen.bz_close
    Gen.bz_next_start := by
  constructor <;> intros <;>
    delta Gen.bz_done Gen.bz_next_end Gen.bz_add_end Gen.bz_update Gen.bz_added Gen.bz_close Gen.bz_next_start at * <;>
    first
    | rfl
    | grind
    | (atoms_norm; omega)
    | (rw [Bool.eq_iff_iff]; atoms_norm; omega)

/-- **bigWig tiler.** The loop body assembled from the source's expressions is the model's `iter` (repaired variant),
    for every resolution, value, position and tiler state. -/
theorem gen_wig_tiler_iter (size : Nat) (x : Val) (a : Nat) (st : TSt) :
    iterGen size x a st = iter repaired size x a st := by
  obtain ⟨_, h2, h3, h4, h5, h6, h7⟩ := gen_wig_atoms
  unfold iterGen iter
  simp only [newRecWith_eq gen_wig_stat_atoms, addWith_eq gen_wig_stat_atoms, h2, h3, h4, h6, h7, repaired, if_true]
  by_cases hu : min ((st.live.getD (newRec a x.v)).start + size) x.e > a
  · have := h5 _ _ ((h4 _ _).trans (decide_eq_true hu))
    simp only [this, hu, decide_true, if_true, decide_eq_true_eq]
  · simp only [hu, decide_false, Bool.false_eq_true, if_false, decide_eq_true_eq]

/-- **bigBed tiler.** The same for the loop body in bigbedwrite.rs. -/
theorem gen_bed_tiler_iter (size : Nat) (x : Val) (a : Nat) (st : TSt) :
    iterGenBed size x a st = iter repaired size x a st := by
  obtain ⟨_, h2, h3, h4, h5, h6, h7⟩ := gen_bed_atoms
  unfold iterGenBed iter
  simp only [newRecWith_eq gen_bed_stat_atoms, addWith_eq gen_bed_stat_atoms, h2, h3, h4, h6, h7, repaired, if_true]
  by_cases hu : min ((st.live.getD (newRec a x.v)).start + size) x.e > a
  · have := h5 _ _ ((h4 _ _).trans (decide_eq_true hu))
    simp only [this, hu, decide_true, if_true, decide_eq_true_eq]
  · simp only [hu, decide_false, Bool.false_eq_true, if_false, decide_eq_true_eq]

/-- the loops' exit tests are the model's `a ≥ x.e` -/
theorem gen_tiler_done (a e : Nat) : Gen.wz_done a e = decide (a ≥ e) ∧ Gen.bz_done a e = decide (a ≥ e) :=
  ⟨gen_wig_atoms.done_eq a e, gen_bed_atoms.done_eq a e⟩

/-- when a section of zoom records is handed over: bigWig — all of this value is consumed, nothing is live, it is the
    last value and there are records, or the section is full; bigBed — the section is full (the end-of-input hand-over
    of the bigBed path is structural: `if !records.is_empty()` inside the `next_val.is_none()` branch) -/
theorem gen_zoom_section_flush (a e : Nat) (liveNone isLast recsEmpty : Bool) (n ips : Nat) :
    Gen.wz_flush a e liveNone isLast recsEmpty n ips = ((decide (a ≥ e) && liveNone && isLast && !recsEmpty) || decide (n = ips))
    ∧ Gen.bz_full n ips = decide (n = ips) := by
  delta Gen.wz_flush Gen.bz_full
  constructor <;> first | rfl | grind | (rw [Bool.eq_iff_iff]; atoms_norm; omega)

end Tiler2
