import BigtoolsModel.Tiler2
import BigtoolsModel.Sweep
import BigtoolsModel.FView
import BigtoolsModel.IndexerFix
import BigtoolsModel.Chunker
import BigtoolsModel.SummaryFold
import BigtoolsModel.BedSummary
import BigtoolsModel.Stats2
import BigtoolsModel.ZoomLevels
import BigtoolsModel.AtomsNorm
namespace Tiler2

/-- one pass through the body of the bigWig tiler's `loop`, assembled from the source's expressions -/
def iterGen (size : Nat) (x : Val) (a : Nat) (st : TSt) : Nat × TSt :=
  let r := st.live.getD (newRec a x.v)
  let nextEnd := Gen.wz_next_end r.start size
  let addEnd := Gen.wz_add_end nextEnd x.e
  let r' : Rec := if Gen.wz_update addEnd a then
      { r with stop := addEnd, bases := r.bases + Gen.wz_added addEnd a,
               sum := r.sum + ((Gen.wz_added addEnd a : Nat) : Int) * x.v, mn := min r.mn x.v, mx := max r.mx x.v }
    else r
  let st' : TSt := if Gen.wz_close addEnd nextEnd then { live := none, out := st.out ++ [r'] }
                   else { live := some r', out := st.out }
  (Gen.wz_next_start addEnd x.s, st')

/-- the same for the bigBed tiler (the piece `[x.s, x.e)` of coverage depth `x.v` the sweep hands over) -/
def iterGenBed (size : Nat) (x : Val) (a : Nat) (st : TSt) : Nat × TSt :=
  let r := st.live.getD (newRec a x.v)
  let nextEnd := Gen.bz_next_end r.start size
  let addEnd := Gen.bz_add_end nextEnd x.e
  let r' : Rec := if Gen.bz_update addEnd a then
      { r with stop := addEnd, bases := r.bases + Gen.bz_added addEnd a,
               sum := r.sum + ((Gen.bz_added addEnd a : Nat) : Int) * x.v, mn := min r.mn x.v, mx := max r.mx x.v }
    else r
  let st' : TSt := if Gen.bz_close addEnd nextEnd then { live := none, out := st.out ++ [r'] }
                   else { live := some r', out := st.out }
  (Gen.bz_next_start addEnd x.s, st')

theorem rec_ext {a b : Rec} (h1 : a.start = b.start) (h2 : a.stop = b.stop) (h3 : a.bases = b.bases) (h4 : a.sum = b.sum)
    (h5 : a.mn = b.mn) (h6 : a.mx = b.mx) : a = b := by
  cases a; cases b; simp_all

/-- what the proofs below need of the seven expressions, stated once: each is the model's expression -/
structure TilerAtoms (done : Nat → Nat → Bool) (nextEnd : Nat → Nat → Nat) (addEnd : Nat → Nat → Nat)
    (update : Nat → Nat → Bool) (added : Nat → Nat → Nat) (close : Nat → Nat → Bool) (nextStart : Nat → Nat → Nat) : Prop where
  done_eq : ∀ a e, done a e = decide (a ≥ e)
  nextEnd_eq : ∀ s z, nextEnd s z = s + z
  addEnd_eq : ∀ n e, addEnd n e = min n e
  update_eq : ∀ ae a, update ae a = decide (ae > a)
  added_eq : ∀ ae a, update ae a = true → added ae a = ae - a
  close_eq : ∀ ae n, close ae n = decide (ae = n)
  nextStart_eq : ∀ ae s, nextStart ae s = max ae s

theorem gen_wig_atoms : TilerAtoms Gen.wz_done Gen.wz_next_end Gen.wz_add_end Gen.wz_update Gen.wz_added Gen.wz_close
    Gen.wz_next_start := by
  constructor <;> intros <;>
    delta Gen.wz_done Gen.wz_next_end Gen.wz_add_end Gen.wz_update Gen.wz_added Gen.wz_close Gen.wz_next_start at * <;>
    first
    | rfl
    | grind
    | (atoms_norm; omega)
    | (rw [Bool.eq_iff_iff]; atoms_norm; omega)

theorem gen_bed_atoms : TilerAtoms Gen.bz_done Gen.bz_next_end Gen.bz_add_end Gen.bz_update Gen.bz_added Gen.bz_close
    Gen.bz_next_start := by
  constructor <;> intros <;>
    delta Gen.bz_done Gen.bz_next_end Gen.bz_add_end Gen.bz_update Gen.bz_added Gen.bz_close Gen.bz_next_start at * <;>
    first
    | rfl
    | grind
    | (atoms_norm; omega)
    | (rw [Bool.eq_iff_iff]; atoms_norm; omega)

/-- **bigWig tiler.** The loop body assembled from the source's expressions is the model's `iter` (repaired variant),
    for every resolution, value, position and tiler state. -/
theorem gen_wig_tiler_iter (size : Nat) (x : Val) (a : Nat) (st : TSt) :
    iterGen size x a st = iter repaired size x a st := by
  obtain ⟨_, h2, h3, h4, h5, h6, h7⟩ := gen_wig_atoms
  unfold iterGen iter
  simp only [h2, h3, h4, h6, h7, repaired, if_true]
  by_cases hu : min ((st.live.getD (newRec a x.v)).start + size) x.e > a
  · have := h5 _ _ ((h4 _ _).trans (decide_eq_true hu))
    simp only [this, hu, decide_true, if_true, decide_eq_true_eq]
  · simp only [hu, decide_false, Bool.false_eq_true, if_false, decide_eq_true_eq]

/-- **bigBed tiler.** The same for the loop body in bigbedwrite.rs. -/
theorem gen_bed_tiler_iter (size : Nat) (x : Val) (a : Nat) (st : TSt) :
    iterGenBed size x a st = iter repaired size x a st := by
  obtain ⟨_, h2, h3, h4, h5, h6, h7⟩ := gen_bed_atoms
  unfold iterGenBed iter
  simp only [h2, h3, h4, h6, h7, repaired, if_true]
  by_cases hu : min ((st.live.getD (newRec a x.v)).start + size) x.e > a
  · have := h5 _ _ ((h4 _ _).trans (decide_eq_true hu))
    simp only [this, hu, decide_true, if_true, decide_eq_true_eq]
  · simp only [hu, decide_false, Bool.false_eq_true, if_false, decide_eq_true_eq]

/-- the loops' exit tests are the model's `a ≥ x.e` -/
theorem gen_tiler_done (a e : Nat) : Gen.wz_done a e = decide (a ≥ e) ∧ Gen.bz_done a e = decide (a ≥ e) :=
  ⟨gen_wig_atoms.done_eq a e, gen_bed_atoms.done_eq a e⟩

/-- when a section of zoom records is handed over: bigWig — all of this value is consumed, nothing is live, it is the
    last value and there are records, or the section is full; bigBed — the section is full (the end-of-input hand-over
    of the bigBed path is structural: `if !records.is_empty()` inside the `next_val.is_none()` branch) -/
theorem gen_zoom_section_flush (a e : Nat) (liveNone isLast recsEmpty : Bool) (n ips : Nat) :
    Gen.wz_flush a e liveNone isLast recsEmpty n ips = ((decide (a ≥ e) && liveNone && isLast && !recsEmpty) || decide (n = ips))
    ∧ Gen.bz_full n ips = decide (n = ips) := by
  delta Gen.wz_flush Gen.bz_full
  constructor <;> first | rfl | grind | (rw [Bool.eq_iff_iff]; atoms_norm; omega)

end Tiler2
