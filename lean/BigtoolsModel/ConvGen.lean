import BigtoolsModel.Generated.Atoms
/-! Obligation on the regenerated list of integer → float conversions of the Python bindings' array routines (kept apart from
    `AtomsGen.lean` so that C20 depends on this obligation only). -/
namespace PYC

/-- **The array routines of the Python bindings convert integers to `f64` only.** `Gen.pyb_conv_* x` lists, in source order, the value
    of `x` after each `as f32` / `as f64` in `to_array`, `to_array_bins`, `to_entry_array`, `to_entry_array_bins` (regenerated from
    pybigtools/src/lib.rs on every run). For a 32-bit coordinate, offset, bin index or count every one of them is `x` itself —
    `FR.f64_exact_u32` — which is what entitles the model (`PyBase`, `PyBinsProof`, `PyBedBinsProof`) to compute bin borders and bin
    membership from exact integers. A conversion through `f32` anywhere in these four functions fails this obligation; the search
    program then exhibits `x = 2^24 + 1` (S120). -/
theorem gen_py_conversions_exact (x : Nat) (h : x < 2 ^ 32) :
    (Gen.pyb_conv_to_array x ++ Gen.pyb_conv_to_array_bins x ++ Gen.pyb_conv_to_entry_array x ++
      Gen.pyb_conv_to_entry_array_bins x).all (· == x) = true := by
  simp [Gen.pyb_conv_to_array, Gen.pyb_conv_to_array_bins, Gen.pyb_conv_to_entry_array, Gen.pyb_conv_to_entry_array_bins,
    FR.f64_exact_u32 x h]

end PYC
