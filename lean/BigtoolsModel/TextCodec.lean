/-! C16 (text level): canonical bedGraph / BED lines over natural-number fields — printing then parsing a record
    returns the record. Decimal printing and parsing are modelled over code points (`List Nat`); Rust's float
    printing / parsing is not modelled (the check compares the tools' texts numerically). -/
namespace TXT

/-- decimal digits, least significant first -/
def digitsRev : Nat → Nat → List Nat
  | 0, _ => []
  | f + 1, n => (48 + n % 10) :: (if n / 10 = 0 then [] else digitsRev f (n / 10))

def digits (n : Nat) : List Nat := (digitsRev (n + 1) n).reverse

def valRev : List Nat → Nat
  | [] => 0
  | d :: ds => (d - 48) + 10 * valRev ds

def isDigit (c : Nat) : Bool := decide (48 ≤ c) && decide (c ≤ 57)

def parseNat (ds : List Nat) : Option Nat :=
  if ds ≠ [] ∧ ds.all isDigit then some (valRev ds.reverse) else none

theorem valRev_digitsRev : ∀ (f n : Nat), n < f → valRev (digitsRev f n) = n := by
  intro f
  induction f with
  | zero => intro n h; omega
  | succ f ih =>
    intro n h
    simp only [digitsRev]
    by_cases h0 : n / 10 = 0
    · simp only [h0, if_true, valRev]
      omega
    · simp only [h0, if_false, valRev]
      rw [ih (n / 10) (by omega)]
      omega

theorem digitsRev_all : ∀ (f n : Nat), (digitsRev f n).all isDigit = true := by
  intro f
  induction f with
  | zero => intro n; rfl
  | succ f ih =>
    intro n
    simp only [digitsRev, List.all_cons]
    have hd : isDigit (48 + n % 10) = true := by
      simp only [isDigit, Bool.and_eq_true, decide_eq_true_eq]; omega
    by_cases h0 : n / 10 = 0
    · simp [h0, hd]
    · simp [h0, hd, ih (n / 10)]

theorem digitsRev_ne_nil (n : Nat) : digitsRev (n + 1) n ≠ [] := by simp [digitsRev]

/-- printing a number and parsing it back -/
theorem parseNat_digits (n : Nat) : parseNat (digits n) = some n := by
  unfold parseNat digits
  have h1 : (digitsRev (n + 1) n).reverse ≠ [] := by simpa using digitsRev_ne_nil n
  have h2 : (digitsRev (n + 1) n).reverse.all isDigit = true := by
    rw [List.all_reverse]; exact digitsRev_all _ _
  rw [if_pos ⟨h1, h2⟩, List.reverse_reverse, valRev_digitsRev (n + 1) n (by omega)]

theorem digits_no_tab (n : Nat) : ∀ c ∈ digits n, c ≠ 9 := by
  intro c hc
  have h2 : (digits n).all isDigit = true := by
    unfold digits; rw [List.all_reverse]; exact digitsRev_all _ _
  have := List.all_eq_true.mp h2 c hc
  simp only [isDigit, Bool.and_eq_true, decide_eq_true_eq] at this
  omega

/-- split at tabs -/
def splitTab : List Nat → List Nat → List (List Nat)
  | [], acc => [acc.reverse]
  | c :: rest, acc => if c = 9 then acc.reverse :: splitTab rest [] else splitTab rest (c :: acc)

theorem splitTab_field (a rest acc : List Nat) (h : ∀ c ∈ a, c ≠ 9) :
    splitTab (a ++ 9 :: rest) acc = (acc.reverse ++ a) :: splitTab rest [] := by
  induction a generalizing acc with
  | nil => simp [splitTab]
  | cons x xs ih =>
    have hx : x ≠ 9 := h x (by simp)
    rw [List.cons_append, splitTab, if_neg hx, ih (x :: acc) (fun c hc => h c (by simp [hc]))]
    simp

theorem splitTab_last (a acc : List Nat) (h : ∀ c ∈ a, c ≠ 9) : splitTab a acc = [acc.reverse ++ a] := by
  induction a generalizing acc with
  | nil => simp [splitTab]
  | cons x xs ih =>
    have hx : x ≠ 9 := h x (by simp)
    rw [splitTab, if_neg hx, ih (x :: acc) (fun c hc => h c (by simp [hc]))]
    simp

/-- a bedGraph record with a natural-number value -/
structure Rec where
  chrom : List Nat
  s : Nat
  e : Nat
  v : Nat
deriving DecidableEq, Repr

def printLine (r : Rec) : List Nat := r.chrom ++ 9 :: (digits r.s ++ 9 :: (digits r.e ++ 9 :: digits r.v))

def parseLine (l : List Nat) : Option Rec :=
  match splitTab l [] with
  | [c, s, e, v] =>
    match parseNat s, parseNat e, parseNat v with
    | some s, some e, some v => some ⟨c, s, e, v⟩
    | _, _, _ => none
  | _ => none

/-- **Text round trip.** A canonical line (chromosome name without a tab) parses back to the record it prints. -/
theorem parse_print (r : Rec) (h : ∀ c ∈ r.chrom, c ≠ 9) : parseLine (printLine r) = some r := by
  unfold parseLine printLine
  rw [splitTab_field r.chrom _ [] h, splitTab_field (digits r.s) _ [] (digits_no_tab _),
      splitTab_field (digits r.e) _ [] (digits_no_tab _), splitTab_last (digits r.v) [] (digits_no_tab _)]
  simp [parseNat_digits]

example : parseLine (printLine ⟨[99, 104, 114, 49], 0, 1200, 7⟩) = some ⟨[99, 104, 114, 49], 0, 1200, 7⟩ := by decide

end TXT
