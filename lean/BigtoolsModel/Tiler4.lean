import BigtoolsModel.Tiler2
/-! Probe (C08, tiler side of the composition): the bigBed zoom path runs the same tiling loop over the depth
    segments the sweep emits, but flushes the live record after EVERY segment handled while the last entry is
    being processed, not only once at the end. `processAllF` is the tiler with an arbitrary flush flag per
    value; `processAllF_spec`: whatever the flags, the records are a faithful reduction (`Final`). -/
namespace Tiler2

/-- flushing the live record keeps the invariant -/
theorem li_flush (size : Nat) (Pprev : List Val) (x : Val) (st : TSt) (flag : Bool)
    (h : LI size Pprev x x.e st) : LI size Pprev x x.e (finish flag st) := by
  cases flag
  · exact h
  · cases hl : st.live with
    | none => simpa [finish, hl] using h
    | some r =>
      have hrecs : recs (finish true st) = recs st := by simp [finish, recs, hl]
      have hlb := h.live_before r hl
      refine ⟨h.a_lo, h.a_hi, ?_, ?_, ?_, ?_, ?_, ?_, ?_, ?_, ?_⟩
      · intro r0 h0
        simp only [finish, hl, if_true, List.mem_append, List.mem_singleton] at h0
        rcases h0 with h0 | rfl
        · exact h.out_before r0 h0
        · exact hlb.1
      · intro r' hr'; simp [finish, hl] at hr'
      · rw [hrecs]; exact h.shape
      · rw [hrecs]; exact h.bases_ok
      · rw [hrecs]; exact h.sum_ok
      · rw [hrecs]; exact h.mm_ok
      · simp only [finish, hl, if_true]
        rw [List.pairwise_append]
        refine ⟨h.sorted, by simp, ?_⟩
        intro r1 h1 r2 h2
        simp only [List.mem_singleton] at h2; subst h2
        exact hlb.2.2 r1 h1
      · intro r' hr'; simp [finish, hl] at hr'
      · rw [hrecs]; exact h.total_ok

/-- the tiler with a flush flag per value -/
def processAllF (fx : Fix) (size : Nat) : List (Val × Bool) → TSt → Option TSt
  | [], st => some st
  | x :: xs, st =>
    match inner fx size x.1 x.2 (x.1.e + 3) x.1.s st with
    | some st' => processAllF fx size xs st'
    | none => none

theorem final_of_li' (size : Nat) (Pprev : List Val) (x : Val) (st : TSt)
    (h : LI size Pprev x x.e st) : Final size (Pprev ++ [x]) (recs st) := final_of_li size Pprev x st h

theorem processAllF_spec (size : Nat) (hsize : 0 < size) :
    ∀ (vals : List (Val × Bool)) (Pprev : List Val) (st st' : TSt),
      (Pprev ++ vals.map (·.1)).Pairwise (fun p q => p.e ≤ q.s) → (∀ p ∈ vals, p.1.s ≤ p.1.e) →
      (∀ x ∈ vals.head?, LI size Pprev x.1 x.1.s st) → vals ≠ [] →
      processAllF repaired size vals st = some st' →
      Final size (Pprev ++ vals.map (·.1)) (recs st') := by
  intro vals
  induction vals with
  | nil => intro _ _ _ _ _ _ hne; exact absurd rfl hne
  | cons x xs ih =>
    intro Pprev st st' hpw hse hli _ hrun
    have hli' := hli x (by simp)
    have hprev : ∀ p ∈ Pprev, p.e ≤ x.1.s := by
      intro p hp
      simp only [List.map_cons] at hpw
      rw [List.pairwise_append] at hpw
      exact hpw.2.2 p hp x.1 (by simp)
    simp only [processAllF] at hrun
    split at hrun
    · rename_i st1 hin
      obtain ⟨st0, h0, rfl⟩ := inner_spec size hsize Pprev x.1 x.2 hprev _ _ _ _ hli' hin
      have h0' := li_flush size Pprev x.1 st0 x.2 h0
      cases xs with
      | nil =>
        simp only [processAllF, Option.some.injEq] at hrun
        subst hrun
        simpa using final_of_li size Pprev x.1 _ h0'
      | cons y ys =>
        have hxy : x.1.e ≤ y.1.s := by
          simp only [List.map_cons] at hpw
          rw [List.pairwise_append] at hpw
          have := hpw.2.1
          rw [List.pairwise_cons] at this
          exact this.1 y.1 (by simp)
        have hn := li_next size Pprev x.1 y.1 _ h0' hxy (hse y (by simp))
        have := ih (Pprev ++ [x.1]) _ st' (by simpa using hpw) (fun p hp => hse p (by simp [hp]))
          (by intro z hz; simp at hz; subst hz; exact hn) (by simp) hrun
        simpa using this
    · simp at hrun

/-- **Tiler with arbitrary intermediate flushes (the bigBed shape).** Values in order, disjoint; any flags:
    the records (emitted and still live) are in order, disjoint, at most one resolution long, with exact
    coverage, sum, min and max, and they cover every base of the values exactly once. -/
theorem runF_faithful (size : Nat) (hsize : 0 < size) (vals : List (Val × Bool)) (st' : TSt)
    (hpw : (vals.map (·.1)).Pairwise (fun p q => p.e ≤ q.s)) (hse : ∀ p ∈ vals, p.1.s ≤ p.1.e) (hne : vals ≠ [])
    (hrun : processAllF repaired size vals ⟨none, []⟩ = some st') :
    Final size (vals.map (·.1)) (recs st') := by
  have := processAllF_spec size hsize vals [] _ st' (by simpa using hpw) hse
    (by
      intro z hz
      cases vals with
      | nil => simp at hz
      | cons x xs =>
        simp only [List.head?_cons, Option.mem_def, Option.some.injEq] at hz
        rw [← hz]; exact li_init size x.1 (hse x (by simp)))
    hne hrun
  simpa using this

end Tiler2
