import BigtoolsModel.AutoSqlN
import BigtoolsModel.Generated.Consts
namespace ASN
def FIELDS : List (List Nat) := Gen.AUTOSQL_FIELDS
def header : List Nat := Gen.AUTOSQL_HEADER
/-- decimal digits of `n` as code points (structural in `fuel`) -/
def digitsF : Nat → Nat → List Nat → List Nat
  | 0, _, acc => acc
  | fuel + 1, n, acc => if n < 10 then (48 + n) :: acc else digitsF fuel (n / 10) ((48 + n % 10) :: acc)
def digits (n : Nat) : List Nat := digitsF (n + 1) n []
def lfieldA : List Nat := Gen.AUTOSQL_LFIELD_A
def lfieldB : List Nat := Gen.AUTOSQL_LFIELD_B
/-- `bed_autosql` for `extra` extra columns -/
def bedAutosql (extra : Nat) : List Nat :=
  let std := (FIELDS.take (min extra FIELDS.length)).foldl (· ++ ·) header
  let more := (List.range (max extra FIELDS.length - FIELDS.length)).foldl
    (fun acc k => acc ++ lfieldA ++ digits (k + FIELDS.length + Gen.AUTOSQL_LFIELD_OFFSET) ++ lfieldB) std
  more ++ [41]

#eval (List.range 41).all fun n => fieldCount asciiCC false (bedAutosql n) = 3 + n

theorem generated_schema_fieldcount :
    (List.range 41).all (fun n => fieldCount asciiCC false (bedAutosql n) = 3 + n) = true := by
  decide +kernel

def isOutOfFuel : Except PErr (List Decl) → Bool
  | .error .outOfFuel => true
  | _ => false
def isErrValues : Except PErr (List Decl) → Bool
  | .error .invalidFieldValuesBrackets => true
  | _ => false

/-- D8: on `table t "c" ( enum(a, b` the loop as found exhausts any fuel we give it here; the repaired loop
    returns an error. (The general statements are `parse_total` for the repaired parser and a
    for-all-fuel divergence lemma for the loop as found.) -/
theorem enum_unterminated_as_found : isOutOfFuel (parseAutosql asciiCC false [116,97,98,108,101,32,116,32,34,99,34,32,40,32,101,110,117,109,40,97,44,32,98]) = true := by decide +kernel
theorem enum_unterminated_repaired : isErrValues (parseAutosql asciiCC true [116,97,98,108,101,32,116,32,34,99,34,32,40,32,101,110,117,109,40,97,44,32,98]) = true := by decide +kernel
end ASN
