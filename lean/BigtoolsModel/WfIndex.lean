import BigtoolsModel.CirBytes
/-! Probe (C09/C10): soundness of the index part of the well-formedness certificate. `walk` is the checker:
    it walks an on-disk index from its root, checks node flags, counts, bounds and that every recorded span
    contains the spans recorded beneath it, and returns the tree it saw. Theorem: whenever the checker accepts,
    that tree is laid out in the image and its spans contain their leaves — so the READER's byte-level search
    answers every query exactly like a linear scan over the leaf entries (`checked_index_search`). Holds for
    any byte image, either byte order, any writer. -/
namespace BBI
open RT

inductive WErr where
  | fuel | bounds | flag | empty | tooMany | leafSpan | kidSpan
deriving Repr, DecidableEq

def within (expect : Option Span) (lo hi : Pos) : Bool :=
  match expect with
  | none => true
  | some sp => decide (sp.lo ≤ lo) && decide (hi ≤ sp.hi)

def readSec (e : Endian) (s : Src) (base i : Nat) : Sec :=
  let b := base + i * 32
  ⟨⟨u32 e s b, u32 e s (b + 4)⟩, ⟨u32 e s (b + 8), u32 e s (b + 12)⟩, u64 e s (b + 16), u64 e s (b + 24)⟩

def readKid (e : Endian) (s : Src) (base i : Nat) : Span × Nat :=
  let b := base + i * 24
  (⟨⟨u32 e s b, u32 e s (b + 4)⟩, ⟨u32 e s (b + 8), u32 e s (b + 12)⟩⟩, u64 e s (b + 16))

def mapKids (f : Nat → Span → Except WErr T) : List (Span × Nat) → Except WErr (List (Span × T))
  | [] => .ok []
  | k :: ks =>
    match f k.2 k.1 with
    | .error err => .error err
    | .ok t =>
      match mapKids f ks with
      | .error err => .error err
      | .ok ts => .ok ((k.1, t) :: ts)

/-- the checker; `blockSize` from the index header bounds every node's item count -/
def walk (e : Endian) (s : Src) (blockSize : Nat) : Nat → Nat → Option Span → Except WErr T
  | 0, _, _ => .error .fuel
  | fuel + 1, off, expect =>
    if off + 4 > s.size then .error .bounds else
    if byte s off ≠ 0 ∧ byte s off ≠ 1 then .error .flag else
    if u16 e s (off + 2) = 0 then .error .empty else
    if u16 e s (off + 2) > blockSize then .error .tooMany else
    if byte s off = 1 then
      if off + 4 + u16 e s (off + 2) * 32 > s.size then .error .bounds else
      let secs := (List.range (u16 e s (off + 2))).map (readSec e s (off + 4))
      if secs.all (fun x => within expect x.lo x.hi) then .ok (.leaf secs) else .error .leafSpan
    else
      if off + 4 + u16 e s (off + 2) * 24 > s.size then .error .bounds else
      let kids := (List.range (u16 e s (off + 2))).map (readKid e s (off + 4))
      if kids.all (fun k => within expect k.1.lo k.1.hi) then
        match mapKids (fun p sp => walk e s blockSize fuel p (some sp)) kids with
        | .error err => .error err
        | .ok ts => .ok (.node ts)
      else .error .kidSpan

/-- every leaf of `t` lies within `expect` -/
def Within (expect : Option Span) (t : T) : Prop :=
  ∀ sp, expect = some sp → ∀ x ∈ leaves t, sp.lo ≤ x.lo ∧ x.hi ≤ sp.hi

structure Sound (e : Endian) (s : Src) (off : Nat) (expect : Option Span) (t : T) : Prop where
  laid : Laid e s 24 off t
  span : SpanOK t
  within : Within expect t

theorem within_some {sp : Span} {lo hi : Pos} (h : within (some sp) lo hi = true) : sp.lo ≤ lo ∧ hi ≤ sp.hi := by
  simpa [within] using h

/-- children: if every child walk is sound, the children are laid out one item after the other -/
theorem mapKids_sound (e : Endian) (s : Src) (f : Nat → Span → Except WErr T)
    (hf : ∀ p sp t, f p sp = .ok t → Sound e s p (some sp) t) :
    ∀ (rd : List (Span × Nat)) (base : Nat) (ts : List (Span × T)),
      (∀ i (h : i < rd.length), nodeItemAt e s (base + i * 24) rd[i].1 rd[i].2) →
      mapKids f rd = .ok ts →
      LaidKids e s 24 base ts (rd.map (·.2)) ∧ SpanOKL ts ∧ ts.map (·.1) = rd.map (·.1) := by
  intro rd
  induction rd with
  | nil =>
    intro base ts _ h
    simp only [mapKids, Except.ok.injEq] at h
    subst h
    exact ⟨LaidKids.nil base, by simp [SpanOKL], rfl⟩
  | cons k ks ih =>
    intro base ts hitems h
    simp only [mapKids] at h
    cases hk : f k.2 k.1 with
    | error err => rw [hk] at h; cases h
    | ok t =>
      rw [hk] at h
      cases hks : mapKids f ks with
      | error err => rw [hks] at h; cases h
      | ok ts' =>
        rw [hks] at h
        simp only [Except.ok.injEq] at h
        subst h
        have hs := hf _ _ _ hk
        have h0 := hitems 0 (by simp)
        simp only [Nat.zero_mul, Nat.add_zero, List.getElem_cons_zero] at h0
        obtain ⟨l1, l2, l3⟩ := ih (base + 24) ts' (fun i hi => by
          have := hitems (i + 1) (by simpa using hi)
          simp only [List.getElem_cons_succ] at this
          have e1 : base + (i + 1) * 24 = base + 24 + i * 24 := by omega
          rw [e1] at this; exact this) hks
        refine ⟨?_, ?_, ?_⟩
        · simp only [List.map_cons]
          exact LaidKids.cons base (k.1, t) ts' k.2 (ks.map (·.2)) h0 hs.laid l1
        · simp only [SpanOKL]
          exact ⟨hs.within k.1 rfl, hs.span, l2⟩
        · simp [l3]

theorem leavesL_within (sp : Span) : ∀ (ts : List (Span × T)), SpanOKL ts →
    (∀ k ∈ ts, sp.lo ≤ k.1.lo ∧ k.1.hi ≤ sp.hi) → ∀ x ∈ leavesL ts, sp.lo ≤ x.lo ∧ x.hi ≤ sp.hi := by
  intro ts
  induction ts with
  | nil => intro _ _ x hx; simp [leavesL] at hx
  | cons k ks ih =>
    intro hok hk x hx
    obtain ⟨ksp, kt⟩ := k
    simp only [SpanOKL] at hok
    simp only [leavesL, List.mem_append] at hx
    rcases hx with hx | hx
    · have h1 := hok.1 x hx
      have h2 := hk (ksp, kt) (by simp)
      exact ⟨Pos.le_trans h2.1 h1.1, Pos.le_trans h1.2 h2.2⟩
    · exact ih hok.2.2 (fun k' hk' => hk k' (by simp [hk'])) x hx

/-- **Checker soundness.** -/
theorem walk_sound (e : Endian) (s : Src) (bs : Nat) : ∀ (fuel off : Nat) (expect : Option Span) (t : T),
    walk e s bs fuel off expect = .ok t → Sound e s off expect t := by
  intro fuel
  induction fuel with
  | zero => intro off expect t h; simp [walk] at h
  | succ fuel ih =>
    intro off expect t h
    simp only [walk] at h
    split at h
    · cases h
    rename_i hb0
    split at h
    · cases h
    rename_i hflag
    split at h
    · cases h
    split at h
    · cases h
    split at h
    · -- leaf
      rename_i hleaf
      split at h
      · cases h
      rename_i hb1
      split at h
      · rename_i hall
        simp only [Except.ok.injEq] at h
        subst h
        refine ⟨?_, by simp [SpanOK], ?_⟩
        · refine Laid.leaf off _ ?_ hleaf (by simp) ?_
          · simp only [List.length_map, List.length_range]; omega
          · intro i hi
            simp only [List.getElem_map, List.getElem_range, readSec, leafItemAt, and_self]
        · intro sp hsp x hx
          subst hsp
          simp only [leaves] at hx
          exact within_some (List.all_eq_true.mp hall x hx)
      · cases h
    · -- non-leaf
      rename_i hnl
      have hz : byte s off = 0 := by omega
      split at h
      · cases h
      rename_i hb1
      split at h
      · rename_i hall
        cases hm : mapKids (fun p sp => walk e s bs fuel p (some sp))
            ((List.range (u16 e s (off + 2))).map (readKid e s (off + 4))) with
        | error err => rw [hm] at h; cases h
        | ok ts =>
          rw [hm] at h
          simp only [Except.ok.injEq] at h
          subst h
          obtain ⟨l1, l2, l3⟩ := mapKids_sound e s _ (fun p sp t ht => ih p (some sp) t ht) _ (off + 4) ts
            (fun i hi => by
              simp only [List.getElem_map, List.getElem_range, readKid, nodeItemAt, and_self]) hm
          have hlen : ts.length = u16 e s (off + 2) := by
            have := congrArg List.length l3
            simpa using this
          refine ⟨?_, by simpa [SpanOK] using l2, ?_⟩
          · refine Laid.node off ts _ ?_ hz hlen.symm l1
            rw [hlen]; omega
          · intro sp hsp x hx
            subst hsp
            simp only [leaves] at hx
            refine leavesL_within sp ts l2 ?_ x hx
            intro k hk
            have : k.1 ∈ ts.map (·.1) := List.mem_map_of_mem hk
            rw [l3] at this
            obtain ⟨rk, hrk, hrk1⟩ := List.mem_map.mp this
            have := within_some (List.all_eq_true.mp hall rk hrk)
            rw [hrk1] at this
            exact this
      · cases h

/-- **C09/C10: accepted index ⇒ the reader answers like a linear scan.** For any byte image, either byte order:
    if the checker accepts the index rooted at `off` and returns `t`, the reader's explicit-stack search over
    the same bytes returns, for every query, exactly the blocks of the leaf entries of `t` (in file order)
    that overlap it. -/
theorem checked_index_search (e : Endian) (s : Src) (bs fuel off : Nat) (expect : Option Span) (t : T)
    (h : walk e s bs fuel off expect = .ok t) (qc qs qe : Nat) :
    searchCir e s 24 qc qs qe (visited ⟨qc, qs⟩ ⟨qc, qe⟩ t + 1) [off] [] =
      .ok (blocksOf ((leaves t).filter fun x => ov ⟨qc, qs⟩ ⟨qc, qe⟩ x.lo x.hi)) :=
  let hs := walk_sound e s bs fuel off expect t h
  wf_search_eq_scan e s 24 qc qs qe off t hs.laid hs.span

end BBI
