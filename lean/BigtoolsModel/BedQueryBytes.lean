import BigtoolsModel.CirSer
import BigtoolsModel.BedCodec
/-! Probe (C02/C04/C05/C09 composition at byte level, repaired span rule): in ANY byte image that contains the
    encoded bigBed blocks at the offsets and sizes the index records and the index as the writer lays it down,
    the reader model's query returns exactly the stored entries of the chromosome that pass the reader's
    inclusive filter, each once, in stored order — and never trips the "multiple chroms in a section" assertion. -/
namespace BBI
open RT CD

structure BSec where
  chrom : Nat
  lob : Nat
  hib : Nat
  items : List Entry
  off : Nat

def BSec.bytes (d : BSec) : List Nat := d.items.flatMap (encEntry d.chrom)
def BSec.sec (d : BSec) : Sec := ⟨⟨d.chrom, d.lob⟩, ⟨d.chrom, d.hib⟩, d.off, d.bytes.length⟩

inductive BErr where | invalid | chromAssert deriving Repr, DecidableEq

def bedKeep (qs qe : Nat) (x : Entry) : Bool := decide (x.e ≥ qs) && decide (x.s ≤ qe)

/-- `get_block_entries` on an uncompressed block -/
def bedBlock (l : List Nat) (b : Block) (c qs qe : Nat) : Except BErr (List Entry) :=
  match decEntries (b.size + 1) ((l.drop b.offset).take b.size) with
  | .error _ => .error .invalid
  | .ok recs => if recs.all (fun r => r.1 = c) then .ok ((recs.map (·.2)).filter (bedKeep qs qe)) else .error .chromAssert

def goBedBlocks (l : List Nat) (c qs qe : Nat) : List Block → Except BErr (List Entry)
  | [] => .ok []
  | b :: bs =>
    match bedBlock l b c qs qe with
    | .error e => .error e
    | .ok a =>
      match goBedBlocks l c qs qe bs with
      | .error e => .error e
      | .ok r => .ok (a ++ r)

structure BSecOK (d : BSec) : Prop where
  sec : SecOK d.sec
  entries : ∀ x ∈ d.items, x.ok
  cover : ∀ x ∈ d.items, d.lob ≤ x.s ∧ x.e ≤ d.hib

theorem has_slice {l : List Nat} {off : Nat} {seg : List Nat} (h : Has l off seg) :
    (l.drop off).take seg.length = seg := by
  obtain ⟨pre, post, rfl, hp⟩ := h
  subst hp
  simp [List.append_assoc]

theorem enc_length_ge (chrom : Nat) (items : List Entry) : items.length ≤ (items.flatMap (encEntry chrom)).length := by
  induction items with
  | nil => simp
  | cons x xs ih =>
    simp only [List.flatMap_cons, List.length_append, List.length_cons, encEntry, le_length, List.length_nil]
    omega

theorem bedBlock_spec (l : List Nat) (d : BSec) (hd : BSecOK d) (h : Has l d.off d.bytes) (qs qe : Nat) :
    bedBlock l ⟨d.off, d.bytes.length⟩ d.chrom qs qe = .ok (d.items.filter (bedKeep qs qe)) := by
  have hc : d.chrom < 256 ^ 4 := hd.sec.1.1
  simp only [bedBlock, has_slice h]
  rw [show d.bytes = d.items.flatMap (encEntry d.chrom) from rfl,
    bed_records_roundtrip d.chrom hc d.items hd.entries _ (by have := enc_length_ge d.chrom d.items; omega)]
  simp only [List.all_map, List.map_map]
  have : (d.items.all ((fun r : Nat × Entry => decide (r.1 = d.chrom)) ∘ fun x => (d.chrom, x))) = true := by
    simp [List.all_eq_true]
  rw [this]
  simp only [if_true]
  congr 2
  exact List.map_id' _

theorem other_chrom_not_ov (d : BSec) (c qs qe : Nat) (hne : d.chrom ≠ c) :
    ov ⟨c, qs⟩ ⟨c, qe⟩ d.sec.lo d.sec.hi = false := by
  simp only [BSec.sec, ov, Bool.and_eq_false_iff]
  by_cases h : d.chrom < c
  · left; apply decide_eq_false; intro hh
    have : Pos.le ⟨c, qs⟩ ⟨d.chrom, d.hib⟩ := hh
    simp only [Pos.le] at this; omega
  · right; apply decide_eq_false; intro hh
    have : Pos.le ⟨d.chrom, d.lob⟩ ⟨c, qe⟩ := hh
    simp only [Pos.le] at this; omega

theorem goBedBlocks_spec (l : List Nat) (c qs qe : Nat) : ∀ (ds : List BSec), (∀ d ∈ ds, BSecOK d) →
    (∀ d ∈ ds, Has l d.off d.bytes) → (∀ d ∈ ds, d.chrom = c) →
    goBedBlocks l c qs qe (ds.map fun d => ⟨d.off, d.bytes.length⟩) =
      .ok (ds.flatMap fun d => d.items.filter (bedKeep qs qe)) := by
  intro ds
  induction ds with
  | nil => intro _ _ _; rfl
  | cons d ds ih =>
    intro hok hhas hch
    simp only [List.map_cons, goBedBlocks, List.flatMap_cons]
    rw [ih (fun x hx => hok x (by simp [hx])) (fun x hx => hhas x (by simp [hx])) (fun x hx => hch x (by simp [hx]))]
    rw [← hch d (by simp), bedBlock_spec l d (hok d (by simp)) (hhas d (by simp))]

theorem bed_pruned_empty (d : BSec) (hd : BSecOK d) (c qs qe : Nat) (hc : d.chrom = c)
    (hov : ov ⟨c, qs⟩ ⟨c, qe⟩ d.sec.lo d.sec.hi = false) : d.items.filter (bedKeep qs qe) = [] := by
  rw [List.filter_eq_nil_iff]
  intro x hx
  obtain ⟨h1, h2⟩ := hd.cover x hx
  have : ¬ (qs ≤ d.hib ∧ d.lob ≤ qe) := by
    intro hh
    have : ov ⟨c, qs⟩ ⟨c, qe⟩ d.sec.lo d.sec.hi = true := by
      simp only [BSec.sec, hc, ov, Bool.and_eq_true, decide_eq_true_eq]
      exact ⟨Or.inr ⟨rfl, hh.1⟩, Or.inr ⟨rfl, hh.2⟩⟩
    rw [this] at hov; cases hov
  simp only [bedKeep, Bool.and_eq_true, decide_eq_true_eq]
  omega

theorem bed_via_index_eq_all (c qs qe : Nat) : ∀ (ds : List BSec), (∀ d ∈ ds, BSecOK d) →
    ((ds.filter fun d => ov ⟨c, qs⟩ ⟨c, qe⟩ d.sec.lo d.sec.hi).flatMap fun d => d.items.filter (bedKeep qs qe)) =
      ((ds.filter fun d => d.chrom = c).flatMap (·.items)).filter (bedKeep qs qe) := by
  intro ds
  induction ds with
  | nil => intro _; rfl
  | cons d ds ih =>
    intro hok
    have ih' := ih (fun x hx => hok x (by simp [hx]))
    simp only [List.filter_cons]
    by_cases hc : d.chrom = c
    · simp only [hc, decide_true, if_true, List.flatMap_cons, List.filter_append]
      by_cases hov : ov ⟨c, qs⟩ ⟨c, qe⟩ d.sec.lo d.sec.hi = true
      · simp only [hov, if_true, List.flatMap_cons, ih']
      · have hov' : ov ⟨c, qs⟩ ⟨c, qe⟩ d.sec.lo d.sec.hi = false := by simpa using hov
        simp only [hov', Bool.false_eq_true, if_false, ih', bed_pruned_empty d (hok d (by simp)) c qs qe hc hov',
          List.nil_append]
    · simp only [hc, decide_false, Bool.false_eq_true, if_false, other_chrom_not_ov d c qs qe hc, ih']

/-- **bigBed query over bytes (repaired span rule).** -/
theorem bed_query_bytes (b : Nat) (hb : 2 ≤ b) (hb16 : b < 256 ^ 2) (ds : List BSec) (hne : ds ≠ [])
    (hsorted : LoSorted (ds.map BSec.sec)) (hok : ∀ d ∈ ds, BSecOK d)
    (l : List Nat) (hl : l.length < 256 ^ 8) (hsecs : ∀ d ∈ ds, Has l d.off d.bytes)
    (Ls : List (List T)) (hLs : levelsOf true b (ds.map BSec.sec) = some Ls) (idx : Nat)
    (hidx : Has l idx (body b idx Ls)) (c qs qe : Nat) :
    ∃ fuel blocks, searchCir .little (srcOf l) 24 c qs qe fuel [idx] [] = .ok blocks ∧
      goBedBlocks l c qs qe blocks =
        .ok (((ds.filter fun d => d.chrom = c).flatMap (·.items)).filter (bedKeep qs qe)) := by
  obtain ⟨pre, post, hl', hpre⟩ := hidx
  subst hpre
  have hne' : ds.map BSec.sec ≠ [] := by simpa using hne
  have hsok : ∀ x ∈ ds.map BSec.sec, SecOK x := by
    intro x hx
    obtain ⟨d, hd, rfl⟩ := List.mem_map.mp hx
    exact (hok d hd).sec
  obtain ⟨fuel, hsearch⟩ := written_index_search b hb hb16 (ds.map BSec.sec) hne' hsorted hsok Ls hLs pre post
    (by rw [← hl']; exact hl) c qs qe
  rw [← hl'] at hsearch
  refine ⟨fuel, _, hsearch, ?_⟩
  have hblocks : blocksOf ((ds.map BSec.sec).filter fun x => ov ⟨c, qs⟩ ⟨c, qe⟩ x.lo x.hi) =
      (ds.filter fun d => ov ⟨c, qs⟩ ⟨c, qe⟩ d.sec.lo d.sec.hi).map fun d => (⟨d.off, d.bytes.length⟩ : Block) := by
    simp only [blocksOf, List.filter_map, List.map_map]
    rfl
  rw [hblocks, goBedBlocks_spec l c qs qe _ (fun d hd => hok d (List.mem_filter.mp hd).1)
    (fun d hd => hsecs d (List.mem_filter.mp hd).1) ?_, bed_via_index_eq_all c qs qe ds hok]
  intro d hd
  have := (List.mem_filter.mp hd).2
  by_cases hc : d.chrom = c
  · exact hc
  · rw [other_chrom_not_ov d c qs qe hc] at this; cases this

end BBI
