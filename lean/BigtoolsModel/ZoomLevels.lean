/-! C07/C08: which zoom resolutions a file lists. Manual lists are normalised where they are consumed (drop zeros,
    sort, drop duplicates, keep at most ten — the repair of D13); automatic candidates are `initial · 4^k`; the writer
    then keeps a SUBSEQUENCE of the candidates (levels whose data would be too large, or that hold no record, are
    skipped). In every case the listed resolutions are strictly increasing and non-zero. -/
namespace ZL

/-- insert into a strictly increasing list, dropping a duplicate -/
def insertUniq (x : Nat) : List Nat → List Nat
  | [] => [x]
  | y :: ys => if x < y then x :: y :: ys else if x = y then y :: ys else y :: insertUniq x ys

/-- `manual_zoom_sizes()`: non-zero, ascending, distinct, at most ten -/
def normalize (l : List Nat) : List Nat := ((l.filter (· ≠ 0)).foldr insertUniq []).take 10

def StrictInc (l : List Nat) : Prop := l.Pairwise (· < ·)

theorem insertUniq_mem (x : Nat) : ∀ (l : List Nat) (z : Nat), z ∈ insertUniq x l ↔ z = x ∨ z ∈ l := by
  intro l
  induction l with
  | nil => intro z; simp [insertUniq]
  | cons y ys ih =>
    intro z
    simp only [insertUniq]
    split
    · simp
    · split
      · rename_i h1 h2; subst h2; simp
      · simp only [List.mem_cons, ih]
        constructor
        · rintro (h | h | h) <;> simp [h]
        · rintro (h | h | h) <;> simp [h]

theorem insertUniq_strict (x : Nat) : ∀ (l : List Nat), StrictInc l → StrictInc (insertUniq x l) := by
  intro l
  induction l with
  | nil => intro _; simp [insertUniq, StrictInc]
  | cons y ys ih =>
    intro h
    have hp := List.pairwise_cons.mp h
    simp only [insertUniq]
    split
    · rename_i hxy
      refine List.pairwise_cons.mpr ⟨?_, h⟩
      intro z hz
      simp only [List.mem_cons] at hz
      rcases hz with rfl | hz
      · exact hxy
      · have := hp.1 z hz; omega
    · split
      · exact h
      · rename_i h1 h2
        refine List.pairwise_cons.mpr ⟨?_, ih hp.2⟩
        intro z hz
        rw [insertUniq_mem] at hz
        rcases hz with rfl | hz
        · omega
        · exact hp.1 z hz

theorem foldr_strict (l : List Nat) : StrictInc (l.foldr insertUniq []) := by
  induction l with
  | nil => simp [StrictInc]
  | cons x xs ih => exact insertUniq_strict x _ ih

theorem foldr_mem (l : List Nat) (z : Nat) : z ∈ l.foldr insertUniq [] ↔ z ∈ l := by
  induction l with
  | nil => simp
  | cons x xs ih => simp only [List.foldr_cons, insertUniq_mem, ih, List.mem_cons]

/-- **Manual zoom lists.** Whatever list a user passes — unsorted, with duplicates, with zeros, with more than ten
    sizes — the resolutions the writer uses are strictly increasing, non-zero, at most ten, and all taken from the list;
    and when the list has at most ten distinct non-zero sizes every one of them is used. -/
theorem normalize_spec (l : List Nat) :
    StrictInc (normalize l) ∧ (∀ z ∈ normalize l, z ≠ 0 ∧ z ∈ l) ∧ (normalize l).length ≤ 10 ∧
    (((l.filter (· ≠ 0)).foldr insertUniq []).length ≤ 10 → ∀ z ∈ l, z ≠ 0 → z ∈ normalize l) := by
  unfold normalize
  refine ⟨?_, ?_, ?_, ?_⟩
  · exact List.Pairwise.sublist (List.take_sublist _ _) (foldr_strict _)
  · intro z hz
    have hz' := (foldr_mem _ z).mp (List.mem_of_mem_take hz)
    simp only [List.mem_filter, ne_eq, decide_not, Bool.not_eq_eq_eq_not, Bool.not_true, decide_eq_false_iff_not] at hz'
    exact ⟨hz'.2, hz'.1⟩
  · simp [List.length_take]; omega
  · intro hlen z hz hne
    rw [List.take_of_length_le hlen, foldr_mem]
    simp [hz, hne]

/-- automatic candidates: `initial, 4·initial, 16·initial, …` -/
def autoSizes (initial : Nat) : Nat → List Nat
  | 0 => []
  | n + 1 => initial :: autoSizes (initial * 4) n

theorem autoSizes_lower (initial : Nat) (hi : 0 < initial) : ∀ (n : Nat), ∀ z ∈ autoSizes (initial * 4) n, initial < z := by
  intro n
  induction n generalizing initial with
  | zero => intro z hz; simp [autoSizes] at hz
  | succ n ih =>
    intro z hz
    simp only [autoSizes, List.mem_cons] at hz
    rcases hz with rfl | hz
    · omega
    · have := ih (initial * 4) (by omega) z hz; omega

theorem autoSizes_strict (initial : Nat) (hi : 0 < initial) : ∀ (n : Nat), StrictInc (autoSizes initial n) := by
  intro n
  induction n generalizing initial with
  | zero => simp [autoSizes, StrictInc]
  | succ n ih =>
    simp only [autoSizes]
    exact List.pairwise_cons.mpr ⟨autoSizes_lower initial hi n, ih (initial * 4) (by omega)⟩

/-- **Listed levels.** The writer lists a subsequence of its candidate resolutions (it `continue`s over levels that
    are too large or hold no record, and stops after `max_zooms`): a subsequence of a strictly increasing list is
    strictly increasing — for manual lists and for automatic candidates alike. -/
theorem listed_levels_strictly_increasing (cands kept : List Nat) (hc : StrictInc cands) (hk : kept.Sublist cands) :
    StrictInc kept :=
  List.Pairwise.sublist hk hc

example : normalize [40, 10, 0, 10, 16] = [10, 16, 40] := by decide
example : normalize [2, 3, 4, 5, 6, 7, 8, 9, 10, 11, 12, 13] = [2, 3, 4, 5, 6, 7, 8, 9, 10, 11] := by decide

end ZL
