import BigtoolsModel.RT
/-! Probe (C03/C04/C01): a range query through the index equals filter-and-clip over the chromosome's
    items, for the strict bigWig filter and the inclusive bigBed filter alike. -/
namespace RT

structure Item where
  s : Nat
  e : Nat
  payload : Nat        -- value bits / index of the rest-of-line
deriving DecidableEq, Repr

structure Block where
  chrom : Nat
  lo : Nat             -- advertised span start (base)
  hi : Nat             -- advertised span end (base)
  items : List Item
deriving Repr

def Block.sec (b : Block) : Sec := ⟨⟨b.chrom, b.lo⟩, ⟨b.chrom, b.hi⟩, 0, 0⟩

/-- what the reader does once the index has produced the candidate blocks (in file order) -/
def queryVia (keep : Item → Bool) (post : Item → Item) (cands : List Block) (c : Nat) : List Item :=
  cands.flatMap fun b => if b.chrom = c then (b.items.filter keep).map post else []

/-- the index applied to the blocks: by C05 (`build_search` / `wf_search_eq_scan`) this is the filter -/
def candidates (blocks : List Block) (c s e : Nat) : List Block :=
  blocks.filter fun b => ov ⟨c, s⟩ ⟨c, e⟩ ⟨b.chrom, b.lo⟩ ⟨b.chrom, b.hi⟩

/-- specification: all items of chromosome `c`, filtered and post-processed, in stored order -/
def querySpec (keep : Item → Bool) (post : Item → Item) (blocks : List Block) (c : Nat) : List Item :=
  (((blocks.filter fun b => b.chrom = c).flatMap (·.items)).filter keep).map post

/-- the advertised span of every block contains its items -/
def SpansCover (blocks : List Block) : Prop :=
  ∀ b ∈ blocks, ∀ v ∈ b.items, b.lo ≤ v.s ∧ v.e ≤ b.hi

theorem ov_same_chrom (c s e lo hi : Nat) :
    ov ⟨c, s⟩ ⟨c, e⟩ ⟨c, lo⟩ ⟨c, hi⟩ = (decide (s ≤ hi) && decide (lo ≤ e)) := by
  simp only [ov]
  congr 1 <;> (apply decide_eq_decide.mpr; show Pos.le _ _ ↔ _; simp [Pos.le])

theorem query_eq_spec (keep : Item → Bool) (post : Item → Item) (blocks : List Block) (c s e : Nat)
    (hcover : SpansCover blocks)
    (hkeep : ∀ v, keep v = true → s ≤ v.e ∧ v.s ≤ e) :
    queryVia keep post (candidates blocks c s e) c = querySpec keep post blocks c := by
  unfold queryVia candidates querySpec
  induction blocks with
  | nil => simp
  | cons b bs ih =>
    have hcb : SpansCover bs := fun b' hb' => hcover b' (by simp [hb'])
    have ih' := ih hcb
    simp only [List.filter_cons]
    by_cases hc : b.chrom = c
    · subst hc
      simp only [ov_same_chrom, decide_true, if_true] at ih' ⊢
      by_cases hov : (decide (s ≤ b.hi) && decide (b.lo ≤ e)) = true
      · simp only [hov, if_true, List.flatMap_cons, List.filter_append, List.map_append]
        rw [ih']
      · -- pruned block: none of its items would have been kept
        simp only [hov, Bool.false_eq_true, if_false, List.flatMap_cons, List.filter_append, List.map_append]
        rw [ih']
        have : b.items.filter keep = [] := by
          rw [List.filter_eq_nil_iff]
          intro v hv hk
          have hk' := hkeep v hk
          have hcv := hcover b (by simp) v hv
          simp only [Bool.and_eq_true, decide_eq_true_eq, not_and] at hov
          omega
        simp [this]
    · have hne : ¬ (decide (b.chrom = c) = true) := by simpa using hc
      simp only [hne, if_false, Bool.false_eq_true]
      by_cases hov : ov ⟨c, s⟩ ⟨c, e⟩ ⟨b.chrom, b.lo⟩ ⟨b.chrom, b.hi⟩ = true
      · simp only [hov, if_true, List.flatMap_cons, hc, if_false, List.nil_append]
        exact ih'
      · simp only [hov, if_false, Bool.false_eq_true]
        exact ih'

/-- bigWig: strict filter, clip to the range -/
def wigKeep (s e : Nat) (v : Item) : Bool := decide (v.e > s) && decide (v.s < e)
def wigClip (s e : Nat) (v : Item) : Item := { v with s := max v.s s, e := min v.e e }
/-- bigBed: inclusive filter, no clipping -/
def bedKeep (s e : Nat) (v : Item) : Bool := decide (v.e ≥ s) && decide (v.s ≤ e)

theorem wig_query_spec (blocks : List Block) (c s e : Nat) (hcover : SpansCover blocks) :
    queryVia (wigKeep s e) (wigClip s e) (candidates blocks c s e) c
      = querySpec (wigKeep s e) (wigClip s e) blocks c :=
  query_eq_spec _ _ blocks c s e hcover (by intro v h; simp [wigKeep] at h; omega)

theorem bed_query_spec (blocks : List Block) (c s e : Nat) (hcover : SpansCover blocks) :
    queryVia (bedKeep s e) id (candidates blocks c s e) c = querySpec (bedKeep s e) id blocks c :=
  query_eq_spec _ _ blocks c s e hcover (by intro v h; simp [bedKeep] at h; omega)

/-- without span coverage an overlapping entry is lost: the confirmed failing case (D2) -/
theorem bed_query_misses_without_cover :
    let blocks : List Block := [⟨0, 0, 20, [⟨0,1000,0⟩, ⟨10,20,1⟩]⟩, ⟨0, 30, 60, [⟨30,40,2⟩, ⟨50,60,3⟩]⟩]
    queryVia (bedKeep 500 600) id (candidates blocks 0 500 600) 0 = [] ∧
    querySpec (bedKeep 500 600) id blocks 0 = [⟨0,1000,0⟩] := by
  decide

end RT
