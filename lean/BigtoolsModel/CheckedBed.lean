import BigtoolsModel.WfIndex
import BigtoolsModel.BedQueryBytes
/-! Probe (C09/C10, bigBed twin of `CheckedFile`): any bigBed image whose index passes `walk` and whose leaf
    blocks pass `checkBedLeaf` is answered by the READER exactly as the decoded content says, for every
    chromosome and range — and the reader's chromosome assertion cannot fire. -/
namespace BBI
open RT CD

/-- independent decoding of one leaf's block with the certificate's checks: records decode, all on the
    leaf's single chromosome, all inside the span the index records -/
def checkBedLeaf (l : List Nat) (x : Sec) : Option (List Entry) :=
  if x.lo.c ≠ x.hi.c then none else
  match decEntries (x.size + 1) ((l.drop x.off).take x.size) with
  | .error _ => none
  | .ok recs =>
    if recs.all (fun r => decide (r.1 = x.lo.c) && decide (x.lo.b ≤ r.2.s) && decide (r.2.e ≤ x.hi.b))
    then some (recs.map (·.2)) else none

def bedItemsOf (l : List Nat) (x : Sec) : List Entry := (checkBedLeaf l x).getD []

theorem bed_block_consistent (l : List Nat) (x : Sec) (items : List Entry) (h : checkBedLeaf l x = some items)
    (qs qe : Nat) :
    bedBlock l ⟨x.off, x.size⟩ x.lo.c qs qe = .ok (items.filter (bedKeep qs qe)) ∧
    x.lo.c = x.hi.c ∧ ∀ v ∈ items, x.lo.b ≤ v.s ∧ v.e ≤ x.hi.b := by
  unfold checkBedLeaf at h
  split at h; · cases h
  rename_i hcc
  cases hd : decEntries (x.size + 1) ((l.drop x.off).take x.size) with
  | error e => rw [hd] at h; cases h
  | ok recs =>
    rw [hd] at h
    simp only at h
    split at h
    · rename_i hall
      simp only [Option.some.injEq] at h
      subst h
      have hall' := List.all_eq_true.mp hall
      refine ⟨?_, by omega, ?_⟩
      · simp only [bedBlock, hd]
        have : recs.all (fun r => decide (r.1 = x.lo.c)) = true := by
          rw [List.all_eq_true]
          intro r hr
          have := hall' r hr
          simp only [Bool.and_eq_true, decide_eq_true_eq] at this
          simp [this.1.1]
        rw [this]
        rfl
      · intro v hv
        obtain ⟨r, hr, rfl⟩ := List.mem_map.mp hv
        have := hall' r hr
        simp only [Bool.and_eq_true, decide_eq_true_eq] at this
        exact ⟨this.1.2, this.2⟩
    · cases h

theorem leaf_other_chrom_not_ov (x : Sec) (hcc : x.lo.c = x.hi.c) (c qs qe : Nat) (hne : x.lo.c ≠ c) :
    ov ⟨c, qs⟩ ⟨c, qe⟩ x.lo x.hi = false := by
  simp only [ov, Bool.and_eq_false_iff]
  by_cases h : x.lo.c < c
  · left; apply decide_eq_false; intro hh
    have : Pos.le ⟨c, qs⟩ x.hi := hh
    simp only [Pos.le] at this; omega
  · right; apply decide_eq_false; intro hh
    have : Pos.le x.lo ⟨c, qe⟩ := hh
    simp only [Pos.le] at this; omega

theorem goBedBlocks_checked (l : List Nat) (c qs qe : Nat) : ∀ (xs : List Sec),
    (∀ x ∈ xs, ∃ items, checkBedLeaf l x = some items) → (∀ x ∈ xs, x.lo.c = c) →
    goBedBlocks l c qs qe (blocksOf xs) = .ok (xs.flatMap fun x => (bedItemsOf l x).filter (bedKeep qs qe)) := by
  intro xs
  induction xs with
  | nil => intro _ _; rfl
  | cons x xs ih =>
    intro h hc
    obtain ⟨items, hi⟩ := h x (by simp)
    simp only [blocksOf, List.map_cons, goBedBlocks, List.flatMap_cons, blockOf]
    have := ih (fun y hy => h y (by simp [hy])) (fun y hy => hc y (by simp [hy]))
    simp only [blocksOf, blockOf] at this
    have hb := (bed_block_consistent l x items hi qs qe).1
    rw [hc x (by simp)] at hb
    rw [hb, this]
    simp [bedItemsOf, hi]

theorem bed_pruned_checked (l : List Nat) (x : Sec) (items : List Entry) (h : checkBedLeaf l x = some items)
    (c qs qe : Nat) (hc : x.lo.c = c) (hov : ov ⟨c, qs⟩ ⟨c, qe⟩ x.lo x.hi = false) :
    items.filter (bedKeep qs qe) = [] := by
  obtain ⟨_, hcc, hw⟩ := bed_block_consistent l x items h qs qe
  rw [List.filter_eq_nil_iff]
  intro v hv
  obtain ⟨h1, h2⟩ := hw v hv
  have : ¬ (qs ≤ x.hi.b ∧ x.lo.b ≤ qe) := by
    intro hh
    have : ov ⟨c, qs⟩ ⟨c, qe⟩ x.lo x.hi = true := by
      simp only [ov, Bool.and_eq_true, decide_eq_true_eq]
      refine ⟨Or.inr ⟨by show c = x.hi.c; omega, hh.1⟩, Or.inr ⟨by show x.lo.c = c; omega, hh.2⟩⟩
    rw [this] at hov; cases hov
  simp only [bedKeep, Bool.and_eq_true, decide_eq_true_eq]
  omega

theorem bed_via_index_checked (l : List Nat) (c qs qe : Nat) : ∀ (xs : List Sec),
    (∀ x ∈ xs, ∃ items, checkBedLeaf l x = some items) →
    ((xs.filter fun x => ov ⟨c, qs⟩ ⟨c, qe⟩ x.lo x.hi).flatMap fun x => (bedItemsOf l x).filter (bedKeep qs qe)) =
      ((xs.filter fun x => x.lo.c = c).flatMap (bedItemsOf l)).filter (bedKeep qs qe) := by
  intro xs
  induction xs with
  | nil => intro _; rfl
  | cons x xs ih =>
    intro h
    have ih' := ih (fun y hy => h y (by simp [hy]))
    obtain ⟨items, hi⟩ := h x (by simp)
    have hx : bedItemsOf l x = items := by simp [bedItemsOf, hi]
    have hcc := (bed_block_consistent l x items hi qs qe).2.1
    simp only [List.filter_cons]
    by_cases hc : x.lo.c = c
    · simp only [hc, decide_true, if_true, List.flatMap_cons, List.filter_append]
      by_cases hov : ov ⟨c, qs⟩ ⟨c, qe⟩ x.lo x.hi = true
      · simp only [hov, if_true, List.flatMap_cons, ih']
      · have hov' : ov ⟨c, qs⟩ ⟨c, qe⟩ x.lo x.hi = false := by simpa using hov
        simp only [hov', Bool.false_eq_true, if_false, ih', hx, bed_pruned_checked l x items hi c qs qe hc hov',
          List.nil_append]
    · simp only [hc, decide_false, Bool.false_eq_true, if_false, leaf_other_chrom_not_ov x hcc c qs qe hc, ih']

/-- **C09/C10 (bigBed): an accepted file is read as decoded; the chromosome assertion cannot fire.** -/
theorem checked_bed_query (l : List Nat) (bs fuel off : Nat) (expect : Option Span) (t : T)
    (hwalk : walk .little (srcOf l) bs fuel off expect = .ok t)
    (hblocks : ∀ x ∈ leaves t, ∃ items, checkBedLeaf l x = some items) (c qs qe : Nat) :
    ∃ fuel' blocks, searchCir .little (srcOf l) 24 c qs qe fuel' [off] [] = .ok blocks ∧
      goBedBlocks l c qs qe blocks =
        .ok ((((leaves t).filter fun x => x.lo.c = c).flatMap (bedItemsOf l)).filter (bedKeep qs qe)) := by
  refine ⟨_, _, checked_index_search .little (srcOf l) bs fuel off expect t hwalk c qs qe, ?_⟩
  rw [goBedBlocks_checked l c qs qe _ (fun x hx => hblocks x (List.mem_filter.mp hx).1) ?_,
    bed_via_index_checked l c qs qe (leaves t) hblocks]
  intro x hx
  obtain ⟨hxm, hov⟩ := List.mem_filter.mp hx
  obtain ⟨items, hi⟩ := hblocks x hxm
  have hcc := (bed_block_consistent l x items hi qs qe).2.1
  by_cases hc : x.lo.c = c
  · exact hc
  · rw [leaf_other_chrom_not_ov x hcc c qs qe hc] at hov; cases hov

end BBI
