import BigtoolsModel.Tiler2
import BigtoolsModel.Sweep
import BigtoolsModel.FView
import BigtoolsModel.IndexerFix
import BigtoolsModel.Chunker
import BigtoolsModel.SummaryFold
import BigtoolsModel.BedSummary
import BigtoolsModel.Stats2
import BigtoolsModel.ZoomLevels
import BigtoolsModel.AtomsNorm
namespace FView

/-- one `read` / `seek` of the view, assembled from the expressions of `file_view.rs` regenerated from the source
    (the assertion `start ≤ new_pos ≤ end` of the `End` arm included) -/
def stepViewGen (file : List Nat) (v : View) : Op → View × Out
  | .read n =>
    let k := Gen.fv_read_len n v.hi v.cur
    ({ v with cur := v.cur + k }, .bytes ((file.drop v.cur).take k))
  | .seek (.start k) =>
    let p := Gen.fv_start_target v.lo v.hi k
    ({ v with cur := p }, .pos (Gen.fv_rel p v.lo))
  | .seek (.fromEnd d) =>
    let p' : Nat := (Gen.fv_end_clamp (Gen.fv_end_pos v.hi (Gen.fv_end_offset d)) v.lo v.hi).toNat
    if v.lo ≤ p' ∧ p' ≤ v.hi then ({ v with cur := p' }, .pos (Gen.fv_rel p' v.lo)) else (v, .panic)
  | .seek (.current d) =>
    let p : Nat := (Gen.fv_cur_clamp (Gen.fv_cur_pos v.cur d) v.lo v.hi).toNat
    ({ v with cur := p }, .pos (Gen.fv_rel p v.lo))

theorem gen_fv_atoms :
    (∀ n hi cur, Gen.fv_read_len n hi cur = min n (hi - cur)) ∧
    (∀ lo hi k, Gen.fv_start_target lo hi k = min hi (lo + k)) ∧
    (∀ p lo, Gen.fv_rel p lo = p - lo) ∧
    (∀ d, Gen.fv_end_offset d = min d 0) ∧
    (∀ hi (d : Int), Gen.fv_end_pos hi d = (hi : Int) + d) ∧
    (∀ (p : Int) lo hi, Gen.fv_end_clamp p lo hi = max p (lo : Int)) ∧
    (∀ cur (d : Int), Gen.fv_cur_pos cur d = (cur : Int) + d) ∧
    (∀ (p : Int) lo hi, lo ≤ hi → (Gen.fv_cur_clamp p lo hi).toNat = clampI p lo hi) := by
  refine ⟨?_, ?_, ?_, ?_, ?_, ?_, ?_, ?_⟩ <;> intros <;>
    delta Gen.fv_read_len Gen.fv_start_target Gen.fv_rel Gen.fv_end_offset Gen.fv_end_pos Gen.fv_end_clamp Gen.fv_cur_pos
      Gen.fv_cur_clamp <;>
    first
    | rfl
    | (unfold clampI; omega)
    | omega
    | grind

/-- **FileView.** Reading and seeking assembled from the source's expressions is the model's `stepView` (repaired variant), for
    every file, window, position and operation — `fileview_refines_slice` (C18) is about `stepView`. -/
theorem gen_fileview_step (file : List Nat) (v : View) (op : Op) (hw : v.lo ≤ v.hi) :
    stepViewGen file v op = stepView true file v op := by
  obtain ⟨h1, h2, h3, h4, h5, h6, h7, h8⟩ := gen_fv_atoms
  cases op with
  | read n => simp only [stepViewGen, stepView, h1]
  | seek w =>
    cases w with
    | start k => simp only [stepViewGen, stepView, h2, h3]
    | fromEnd d => simp only [stepViewGen, stepView, h3, h4, h5, h6, if_true]
    | current d => simp only [stepViewGen, stepView, h3, h7, h8 _ _ _ hw]

end FView
