/-! Probe (C19): the autoSql cursor parser over code points (`List Nat`), so that the kernel can evaluate it. -/
namespace ASN

abbrev Str := List Nat

/-- character classes of Rust's `char` methods, abstract in the theorems, concrete in the driver -/
structure CC where
  isWs : Nat → Bool
  isAlpha : Nat → Bool
  isAlnum : Nat → Bool
  lower : Nat → Nat

def asciiCC : CC where
  isWs c := c = 32 || (9 ≤ c && c ≤ 13)
  isAlpha c := (65 ≤ c && c ≤ 90) || (97 ≤ c && c ≤ 122)
  isAlnum c := (65 ≤ c && c ≤ 90) || (97 ≤ c && c ≤ 122) || (48 ≤ c && c ≤ 57)
  lower c := if 65 ≤ c && c ≤ 90 then c + 32 else c

/-- Rust's `char` classes on the code points the generators use: ASCII plus Latin-1 letters and digits, and every
    Unicode white-space character (`char::is_whitespace` = White_Space). Used by the executable driver. -/
def rustCC : CC where
  isWs c := c = 32 || (9 ≤ c && c ≤ 13) || c = 0x85 || c = 0xA0 || c = 0x1680 || (0x2000 ≤ c && c ≤ 0x200A) ||
    c = 0x2028 || c = 0x2029 || c = 0x202F || c = 0x205F || c = 0x3000      -- Unicode White_Space = Rust's char::is_whitespace
  isAlpha c := (65 ≤ c && c ≤ 90) || (97 ≤ c && c ≤ 122) || (0xC0 ≤ c && c ≤ 0xFF && c ≠ 0xD7 && c ≠ 0xF7) || c = 0xAA || c = 0xB5 || c = 0xBA
  isAlnum c := (65 ≤ c && c ≤ 90) || (97 ≤ c && c ≤ 122) || (48 ≤ c && c ≤ 57) ||
    (0xC0 ≤ c && c ≤ 0xFF && c ≠ 0xD7 && c ≠ 0xF7) || c = 0xAA || c = 0xB5 || c = 0xBA || c = 0xB2 || c = 0xB3 || c = 0xB9 || (0xBC ≤ c && c ≤ 0xBE)
  lower c := if 65 ≤ c && c ≤ 90 then c + 32 else if 0xC0 ≤ c && c ≤ 0xDE && c ≠ 0xD7 then c + 32 else c

structure P where
  rest : List Nat
  peek : Nat
deriving Repr

variable (cc : CC)

def isDelim (c : Nat) : Bool :=
  cc.isWs c || c = 59 || c = 40 || c = 41 || c = 91 || c = 93 || c = 44

def takeWs (p : P) : P :=
  match p.rest with
  | [] => { rest := [], peek := 0 }
  | c :: _ => if cc.isWs c then { rest := p.rest.dropWhile cc.isWs, peek := 0 } else p

def take (p : P) : List Nat × P := (p.rest.take p.peek, { rest := p.rest.drop p.peek, peek := 0 })

def peekOne (p : P) : List Nat × P :=
  let p := takeWs cc p
  match p.rest with
  | [] => ([], { p with peek := 0 })
  | c :: _ => ([c], { p with peek := 1 })

def peekWord (p : P) : List Nat × P :=
  let p := takeWs cc p
  match p.rest with
  | [] => ([], { p with peek := 0 })
  | c :: tl =>
    let tok := c :: tl.takeWhile (fun x => !isDelim cc x)
    (tok, { p with peek := tok.length })

def peekQuoted (p : P) : List Nat × P :=
  let p := takeWs cc p
  match p.rest with
  | 34 :: tl =>
    let body := tl.takeWhile (· ≠ 34)
    let tok := match tl.drop body.length with
      | [] => 34 :: body
      | _ :: _ => 34 :: body ++ [34]
    (tok, { p with peek := tok.length })
  | _ => ([], { p with peek := 0 })

def eatOne (p : P) : List Nat × P := let (t, p) := peekOne cc p; (t, (take p).2)
def eatWord (p : P) : List Nat × P := let (t, p) := peekWord cc p; (t, (take p).2)
def eatQuoted (p : P) : List Nat × P := let (t, p) := peekQuoted cc p; (t, (take p).2)

inductive PErr where
  | invalidDeclareType | invalidDeclareName | invalidDeclareBrackets | invalidFieldSizeClose
  | invalidFieldCommentSeparater | invalidFieldValuesBrackets | invalidIndexSizeBrackets
  | outOfFuel
deriving Repr, DecidableEq

inductive IndexType where | primary | index (size : Option Str) | unique
deriving Repr, DecidableEq

structure DeclName where
  name : Str
  indexType : Option IndexType
  auto : Bool
deriving Repr, DecidableEq

def str (l : List Nat) : Str := l

/-- the index/auto suffix shared by `DeclareName::parse` and `parse_field_list` -/
def parseIndexAuto (p : P) : Except PErr ((Option IndexType × Bool) × P) := do
  let (w, p1) := peekWord cc p
  let (it, p2) ←
    if str w = [112,114,105,109,97,114,121] then pure (some IndexType.primary, (take p1).2)
    else if str w = [105,110,100,101,120] then
      let p1 := (take p1).2
      let (nx, pn) := peekOne cc p1
      if str nx = [91] then
        let pn := (take pn).2
        let (size, pn) := eatWord cc pn
        let (close, pn) := eatOne cc pn
        if str close ≠ [93] then throw PErr.invalidIndexSizeBrackets
        pure (some (IndexType.index (some (str size))), pn)
      else pure (some (IndexType.index none), pn)
    else if str w = [117,110,105,113,117,101] then pure (some IndexType.unique, (take p1).2)
    else pure (none, p1)
  let (w2, p3) := peekWord cc p2
  if str w2 = [97,117,116,111] then pure ((it, true), (take p3).2) else pure ((it, false), p3)

def parseDeclName (p : P) : Except PErr (DeclName × P) := do
  let (nm, p) := eatWord cc p
  let first := nm.head?.getD 32
  if !cc.isAlpha first || nm.any (fun c => !cc.isAlnum c) then throw PErr.invalidDeclareName
  let ((it, auto), p) ← parseIndexAuto cc p
  pure ({ name := str nm, indexType := it, auto := auto }, p)

inductive FType where
  | basic (name : Str)
  | enum (values : List Str)
  | set (values : List Str)
  | decl (kind : Str) (name : DeclName)
deriving Repr, DecidableEq

def basicTypes : List Str :=
  [[105,110,116], [117,105,110,116], [115,104,111,114,116], [117,115,104,111,114,116], [98,121,116,101], [117,98,121,116,101], [102,108,111,97,116], [100,111,117,98,108,101], [99,104,97,114], [115,116,114,105,110,103], [108,115,116,114,105,110,103], [98,105,103,105,110,116]]

/-- the `loop` collecting enum/set values. `fixed = false` is the code as found (spins at end of input). -/
def valuesLoop (fixed : Bool) : Nat → P → List Str → Except PErr (List Str × P)
  | 0, _, _ => .error .outOfFuel
  | fuel + 1, p, acc =>
    let (v, p) := eatWord cc p
    if str v = [41] then .ok (acc, p)
    else if fixed && v.isEmpty then .error .invalidFieldValuesBrackets
    else
      let acc := acc ++ [str v]
      let (close, p) := eatOne cc p
      if str close = [41] then .ok (acc, p) else valuesLoop fixed fuel p acc

def tryParseType (fixed : Bool) (fuel : Nat) (p : P) : Except PErr (Option FType × P) := do
  let (w, p1) := peekWord cc p
  let lw := str (w.map cc.lower)
  if basicTypes.contains lw then pure (some (.basic lw), (take p1).2)
  else if lw = [101,110,117,109] ∨ lw = [115,101,116] then
    let p1 := (take p1).2
    let (ob, p1) := eatOne cc p1
    if str ob ≠ [40] then throw PErr.invalidFieldValuesBrackets
    let (vals, p2) ← valuesLoop cc fixed fuel p1 []
    pure (some (if lw = [101,110,117,109] then .enum vals else .set vals), p2)
  else if lw = [115,105,109,112,108,101] ∨ lw = [111,98,106,101,99,116] ∨ lw = [116,97,98,108,101] then
    let (dn, p2) ← parseDeclName cc (take p1).2
    -- as the code: a field of type `table …` is recorded as `DeclarationType::Object`
    pure (some (.decl (if lw = [116,97,98,108,101] then [111,98,106,101,99,116] else lw) dn), p2)
  else pure (none, p1)

structure Field where
  ftype : FType
  size : Option Str
  name : Str
  indexType : Option IndexType
  auto : Bool
  comment : Str
deriving Repr, DecidableEq

/-- optional `[size]` and the field name -/
def parseSizeName (p : P) : Except PErr ((Option Str × Str) × P) :=
  let (nx, pn) := peekOne cc p
  if str nx = [91] then
    let pn := (take pn).2
    let (size, pn) := eatWord cc pn
    let (close, pn) := eatOne cc pn
    if str close ≠ [93] then .error PErr.invalidFieldSizeClose
    else
      let (nm, pn) := eatWord cc pn
      .ok ((some (str size), str nm), pn)
  else
    let (nm, pn) := eatWord cc pn
    .ok ((none, str nm), pn)

/-- index/auto suffix, `;`, comment -/
def parseFieldTail (p : P) : Except PErr (((Option IndexType × Bool) × Str) × P) :=
  match parseIndexAuto cc p with
  | .error e => .error e
  | .ok (ia, p) =>
    let (semi, p) := eatOne cc p
    if str semi ≠ [59] then .error PErr.invalidFieldCommentSeparater
    else
      let (comment, p) := eatQuoted cc p
      .ok ((ia, str comment), p)

def fieldLoop (fixed : Bool) : Nat → P → List Field → Except PErr (List Field × P)
  | 0, _, _ => .error .outOfFuel
  | fuel + 1, p, acc =>
    match tryParseType cc fixed (p.rest.length + 1) p with
    | .error e => .error e
    | .ok (none, p) => .ok (acc, p)
    | .ok (some ft, p) =>
      match parseSizeName cc p with
      | .error e => .error e
      | .ok ((size, name), p) =>
        match parseFieldTail cc p with
        | .error e => .error e
        | .ok (((it, auto), comment), p) =>
          let acc := acc ++ [{ ftype := ft, size := size, name := name, indexType := it, auto := auto, comment := comment }]
          let (nx, pn) := peekOne cc p
          if str nx = [41] then .ok (acc, pn) else fieldLoop fixed fuel pn acc

structure Decl where
  kind : Str
  name : DeclName
  comment : Str
  fields : List Field
deriving Repr, DecidableEq

def parseDecl (fixed : Bool) (p : P) : Except PErr (Option Decl × P) := do
  let (k, p) := eatWord cc p
  if str k = [] then pure (none, p)
  else if str k ≠ [115,105,109,112,108,101] ∧ str k ≠ [111,98,106,101,99,116] ∧ str k ≠ [116,97,98,108,101] then throw PErr.invalidDeclareType
  else
    let (dn, p) ← parseDeclName cc p
    let (comment, p) := eatQuoted cc p
    let (ob, p) := eatOne cc p
    if str ob ≠ [40] then throw PErr.invalidDeclareBrackets
    let (fields, p) ← fieldLoop cc fixed (p.rest.length + 1) p []
    let (cb, p) := eatOne cc p
    if str cb ≠ [41] then throw PErr.invalidDeclareBrackets
    pure (some { kind := str k, name := dn, comment := str comment, fields := fields }, p)

/-- `parse_declaration_list`: at most four declarations -/
def declLoop (fixed : Bool) : Nat → P → List Decl → Except PErr (List Decl)
  | 0, _, acc => .ok acc
  | n + 1, p, acc => do
    let (d, p) ← parseDecl cc fixed p
    match d with
    | none => pure acc
    | some d => declLoop fixed n p (acc ++ [d])

def parseAutosql (fixed : Bool) (s : List Nat) : Except PErr (List Decl) :=
  declLoop cc fixed 4 { rest := s, peek := 0 } []

/-- `write_pre`: field count of the last parsed declaration, 3 when parsing fails or yields nothing -/
def fieldCount (fixed : Bool) (s : List Nat) : Nat :=
  match parseAutosql cc fixed s with
  | .ok ds => (ds.getLast?.map (·.fields.length)).getD 3
  | .error _ => 3

end ASN
