/-! Probe (C20): models of `to_entry_array` (per-base bigBed depth) and of the mean branch of
    `to_array_bins`, as found, with kernel-decided witnesses for the confirmed defects (D11). -/
namespace PY

inductive Out (α : Type) where
  | ok (a : α)
  | panic                      -- ndarray index out of bounds
deriving Repr, DecidableEq

/-- `x as usize` for an `i32`-range value: negative numbers wrap to something huge -/
def asUsize (x : Int) : Nat := if x < 0 then 2 ^ 64 - x.natAbs else x.toNat

def bumpRange (v : List (Option Nat)) (lo hi : Nat) : Out (List (Option Nat)) :=
  if lo ≥ hi then .ok v
  else if hi > v.length then .panic          -- `v.index_mut(i)` with `i ≥ len`
  else .ok (v.mapIdx fun i x => if lo ≤ i ∧ i < hi then some (x.getD 0 + 1) else x)

/-- `to_entry_array(start, end, entries, missing)`; entries are NOT clipped by the caller -/
def toEntryArray (start stop : Int) (entries : List (Nat × Nat)) : Out (List (Option Nat)) :=
  entries.foldl (fun acc en =>
      match acc with
      | .panic => .panic
      | .ok v => bumpRange v (asUsize ((en.1 : Int) - start)) (asUsize ((en.2 : Int) - start)))
    (.ok (List.replicate (stop - start).toNat none))

/-- specification: number of entries covering each base of the range -/
def depthSpec (start stop : Int) (entries : List (Nat × Nat)) : List Nat :=
  (List.range (stop - start).toNat).map fun (i : Nat) =>
    (entries.filter fun en => decide ((en.1 : Int) ≤ start + (i : Int) ∧ start + (i : Int) < (en.2 : Int))).length

/-- D11(b): entries `[5,15) [10,25)`, range `[10,20)`: the real code panicked ("index 10 is out of bounds") -/
theorem entry_array_panics_as_found : toEntryArray 10 20 [(5, 15), (10, 25)] = .panic := by decide

/-- D11(b'): an entry starting before the range is silently dropped -/
theorem entry_array_drops_as_found :
    toEntryArray 10 20 [(5, 15)] = .ok (List.replicate 10 none) ∧
    depthSpec 10 20 [(5, 15)] = [1, 1, 1, 1, 1, 0, 0, 0, 0, 0] := by decide

/-! ### mean bins of `to_array_bins` -/

structure Bin where
  idx : Nat
  lo : Nat          -- `((bin as f64) * bin_size) as i32`
  hi : Nat
  data : Option (Nat × Int)     -- (covered bases, weighted sum)
deriving Repr, DecidableEq

/-- floor (k · L / bins) -/
def binEdge (L bins k : Nat) : Nat := k * L / bins

def mkBin (L bins k : Nat) : Bin := ⟨k, binEdge L bins k, binEdge L bins (k + 1), none⟩

/-- the result of one bin: `none` = `missing`, `some (num, den)` = num/den, with den = 0 meaning NaN -/
def flushBin (b : Bin) : Option (Int × Nat) := b.data.map fun d => (d.2, d.1)

structure St where
  bins : List Bin
  out : List (Nat × Option (Int × Nat))
deriving Repr

/-- one interval `[is, ie)` (already relative to the range start) with value `v` -/
def stepInterval (L nb : Nat) (st : St) (is ie : Nat) (v : Int) : St :=
  let binStart := is * nb / L
  let binEnd := (ie - 1) * nb / L
  -- pop finished bins
  let (done, live) := st.bins.partition (fun b => b.idx < binStart)
  let out := st.out ++ done.map (fun b => (b.idx, flushBin b))
  -- create the bins up to binEnd
  let first := match live.getLast? with | some b => b.idx + 1 | none => binStart
  let live := live ++ (List.range (binEnd + 1 - first)).map (fun k => mkBin L nb (first + k))
  -- accumulate
  let live := live.map fun b =>
    if ie ≤ b.lo then b else
    let d := b.data.getD (0, 0)
    let ov := min b.hi ie - max b.lo is
    { b with data := some (d.1 + ov, d.2 + (ov : Int) * v) }
  { bins := live, out := out }

def toArrayBinsMean (L nb : Nat) (vals : List (Nat × Nat × Int)) : List (Nat × Option (Int × Nat)) :=
  let st := vals.foldl (fun st x => stepInterval L nb st x.1 x.2.1 x.2.2) { bins := [], out := [] }
  st.out ++ st.bins.map (fun b => (b.idx, flushBin b))

/-- D11(a): range `[0,5)`, 2 bins, data `[2,3) = 1`: bin 0 is reported as 0/0 (the real code returned NaN) -/
theorem bins_mean_nan_as_found : toArrayBinsMean 5 2 [(2, 3, 1)] = [(0, some (0, 0))] := by decide

end PY
