import BigtoolsModel.WigSections
/-! Probe (C01/C03/C05/C09 composition at byte level): in ANY byte image that contains the encoded data sections
    at the offsets the index records and the index as the writer lays it down, the reader model's query —
    byte-level index search followed by section decoding — returns exactly the stored values of the chromosome
    that strictly overlap the range, clipped, in stored order. -/
namespace BBI
open RT CD

structure DSec where
  chrom : Nat
  lob : Nat            -- advertised span (bases)
  hib : Nat
  items : List Value
  off : Nat
  size : Nat

def DSec.sec (d : DSec) : Sec := ⟨⟨d.chrom, d.lob⟩, ⟨d.chrom, d.hib⟩, d.off, d.size⟩

/-- block-by-block decoding, as the interval iterator does it -/
def goBlocks (l : List Nat) (c qs qe : Nat) : List Block → Except Err (List Value)
  | [] => .ok []
  | b :: bs =>
    match wigBlock .little (srcOf l) b c qs qe with
    | .error e => .error e
    | .ok a =>
      match goBlocks l c qs qe bs with
      | .error e => .error e
      | .ok r => .ok (a ++ r)

structure DSecOK (d : DSec) : Prop where
  sec : SecOK d.sec
  n : d.items.length < 256 ^ 2
  vals : ∀ v ∈ d.items, ValueOK v
  cover : ∀ v ∈ d.items, d.lob ≤ v.start ∧ v.stop ≤ d.hib

theorem wigBlock_other_chrom (l : List Nat) (o size chrom c qs qe : Nat) (items : List Value) (hc : chrom < 256 ^ 4)
    (hn : items.length < 256 ^ 2) (hv : ∀ v ∈ items, ValueOK v) (h : Has l o (enc1 chrom items)) (hne : chrom ≠ c) :
    wigBlock .little (srcOf l) ⟨o, size⟩ c qs qe = .ok [] := by
  have hok : HdrOK chrom ((items.head?.map (·.start)).getD 0) ((items.getLast?.map (·.stop)).getD 0) 0 0 1 items.length := by
    refine ⟨hc, ?_, ?_, by omega, by omega, by omega, hn⟩
    · cases hh : items.head? with
      | none => simp
      | some v => exact (hv v (List.mem_of_head? hh)).1
    · cases hh : items.getLast? with
      | none => simp
      | some v => exact (hv v (List.mem_of_getLast? hh)).2.1
  obtain ⟨r1, _, _, _, r5, r6, hbody, hsz⟩ := header_reads l o _ _ _ _ _ _ _ _ h hok
  have b1 : o + 24 ≤ (srcOf l).size := by omega
  simp only [wigBlock, need, r1, b1, if_true, bind, Except.bind, pure, Except.pure, ne_eq, hne, not_false_eq_true]

/-- decoding the blocks of a list of stored sections -/
theorem goBlocks_spec (l : List Nat) (c qs qe : Nat) : ∀ (ds : List DSec), (∀ d ∈ ds, DSecOK d) →
    (∀ d ∈ ds, Has l d.off (enc1 d.chrom d.items)) →
    goBlocks l c qs qe (ds.map fun d => ⟨d.off, d.size⟩) =
      .ok (ds.flatMap fun d => if d.chrom = c then d.items.filterMap (keepClip qs qe) else []) := by
  intro ds
  induction ds with
  | nil => intro _ _; rfl
  | cons d ds ih =>
    intro hok hhas
    have hd := hok d (by simp)
    have hcl : d.chrom < 256 ^ 4 := hd.sec.1.1
    simp only [List.map_cons, goBlocks, List.flatMap_cons]
    rw [ih (fun x hx => hok x (by simp [hx])) (fun x hx => hhas x (by simp [hx]))]
    by_cases hc : d.chrom = c
    · rw [← hc, decode1 l d.off d.size d.chrom qs qe d.items hcl hd.n hd.vals (hhas d (by simp))]
      simp
    · rw [wigBlock_other_chrom l d.off d.size d.chrom c qs qe d.items hcl hd.n hd.vals (hhas d (by simp)) hc]
      simp [hc]

/-- a section the index prunes holds nothing the query wants -/
theorem pruned_empty (d : DSec) (hd : DSecOK d) (c qs qe : Nat) (hc : d.chrom = c)
    (hov : ov ⟨c, qs⟩ ⟨c, qe⟩ d.sec.lo d.sec.hi = false) : d.items.filterMap (keepClip qs qe) = [] := by
  rw [List.filterMap_eq_nil_iff]
  intro v hv
  obtain ⟨h1, h2⟩ := hd.cover v hv
  have : ¬ (qs ≤ d.hib ∧ d.lob ≤ qe) := by
    intro hh
    have : ov ⟨c, qs⟩ ⟨c, qe⟩ d.sec.lo d.sec.hi = true := by
      simp only [DSec.sec, hc, ov, Bool.and_eq_true, decide_eq_true_eq]
      exact ⟨Or.inr ⟨rfl, hh.1⟩, Or.inr ⟨rfl, hh.2⟩⟩
    rw [this] at hov; cases hov
  simp only [keepClip]
  rw [if_neg]
  intro hk
  omega

theorem via_index_eq_all (c qs qe : Nat) : ∀ (ds : List DSec), (∀ d ∈ ds, DSecOK d) →
    ((ds.filter fun d => ov ⟨c, qs⟩ ⟨c, qe⟩ d.sec.lo d.sec.hi).flatMap fun d =>
        if d.chrom = c then d.items.filterMap (keepClip qs qe) else []) =
      ((ds.filter fun d => d.chrom = c).flatMap (·.items)).filterMap (keepClip qs qe) := by
  intro ds
  induction ds with
  | nil => intro _; rfl
  | cons d ds ih =>
    intro hok
    have ih' := ih (fun x hx => hok x (by simp [hx]))
    simp only [List.filter_cons]
    by_cases hc : d.chrom = c
    · simp only [hc, decide_true, if_true, List.flatMap_cons, List.filterMap_append]
      by_cases hov : ov ⟨c, qs⟩ ⟨c, qe⟩ d.sec.lo d.sec.hi = true
      · simp only [hov, if_true, List.flatMap_cons, hc, ih']
      · have hov' : ov ⟨c, qs⟩ ⟨c, qe⟩ d.sec.lo d.sec.hi = false := by simpa using hov
        simp only [hov', Bool.false_eq_true, if_false, ih', pruned_empty d (hok d (by simp)) c qs qe hc hov',
          List.nil_append]
    · simp only [hc, decide_false, Bool.false_eq_true, if_false]
      by_cases hov : ov ⟨c, qs⟩ ⟨c, qe⟩ d.sec.lo d.sec.hi = true
      · simp only [hov, if_true, List.flatMap_cons, hc, if_false, List.nil_append, ih']
      · simp only [hov, Bool.false_eq_true, if_false, ih']

/-- **Query over bytes.** Fan-out `2 ≤ b < 65536`; any non-empty list of stored sections sorted by start
    whose advertised spans cover their items, with 32-bit fields; any image smaller than 2^64 that holds each
    encoded section at its recorded offset and the index as written at `idx`. Then index search followed by block
    decoding returns exactly the values of chromosome `c` that strictly overlap `[qs, qe)`, clipped, in order. -/
theorem wig_query_bytes (b : Nat) (hb : 2 ≤ b) (hb16 : b < 256 ^ 2) (ds : List DSec) (hne : ds ≠ [])
    (hsorted : LoSorted (ds.map DSec.sec)) (hok : ∀ d ∈ ds, DSecOK d)
    (l : List Nat) (hl : l.length < 256 ^ 8) (hsecs : ∀ d ∈ ds, Has l d.off (enc1 d.chrom d.items))
    (Ls : List (List T)) (hLs : levelsOf true b (ds.map DSec.sec) = some Ls) (idx : Nat)
    (hidx : Has l idx (body b idx Ls)) (c qs qe : Nat) :
    ∃ fuel blocks, searchCir .little (srcOf l) 24 c qs qe fuel [idx] [] = .ok blocks ∧
      goBlocks l c qs qe blocks =
        .ok (((ds.filter fun d => d.chrom = c).flatMap (·.items)).filterMap (keepClip qs qe)) := by
  obtain ⟨pre, post, hl', hpre⟩ := hidx
  subst hpre
  have hne' : ds.map DSec.sec ≠ [] := by simpa using hne
  have hsok : ∀ x ∈ ds.map DSec.sec, SecOK x := by
    intro x hx
    simp only [List.mem_map] at hx
    obtain ⟨d, hd, rfl⟩ := hx
    exact (hok d hd).sec
  obtain ⟨fuel, hsearch⟩ := written_index_search b hb hb16 (ds.map DSec.sec) hne' hsorted hsok Ls hLs pre post
    (by rw [← hl']; exact hl) c qs qe
  rw [← hl'] at hsearch
  refine ⟨fuel, _, hsearch, ?_⟩
  have hblocks : blocksOf ((ds.map DSec.sec).filter fun x => ov ⟨c, qs⟩ ⟨c, qe⟩ x.lo x.hi) =
      (ds.filter fun d => ov ⟨c, qs⟩ ⟨c, qe⟩ d.sec.lo d.sec.hi).map fun d => (⟨d.off, d.size⟩ : Block) := by
    simp only [blocksOf, List.filter_map, List.map_map]
    rfl
  rw [hblocks, goBlocks_spec l c qs qe _ (fun d hd => hok d (List.mem_filter.mp hd).1)
    (fun d hd => hsecs d (List.mem_filter.mp hd).1), via_index_eq_all c qs qe ds hok]

end BBI
