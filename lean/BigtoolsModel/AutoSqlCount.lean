import BigtoolsModel.AutoSqlNTest
/-! The generated schema, for EVERY number of extra columns: one declaration terminator (`;`, code point 59) per column.
    The parser-level statement (`fieldCount … = 3 + n`) is a kernel-decided finite quantifier (0..40); this one is by
    induction over the generator's two loops and has no bound. -/
namespace ASN

theorem count_foldl_append (fs : List (List Nat)) (h : ∀ f ∈ fs, f.count 59 = 1) :
    ∀ acc : List Nat, (fs.foldl (· ++ ·) acc).count 59 = acc.count 59 + fs.length := by
  induction fs with
  | nil => intro acc; simp
  | cons f fs ih =>
    intro acc
    simp only [List.foldl_cons, List.length_cons]
    rw [ih (fun g hg => h g (List.mem_cons_of_mem _ hg)), List.count_append, h f List.mem_cons_self]
    omega

theorem count_digitsF (fuel : Nat) : ∀ (n : Nat) (acc : List Nat), (digitsF fuel n acc).count 59 = acc.count 59 := by
  induction fuel with
  | zero => intro n acc; rfl
  | succ k ih =>
    intro n acc
    simp only [digitsF]
    split
    · rw [List.count_cons]; have : ¬ (48 + n = 59) := by omega
      simp [this]
    · rw [ih, List.count_cons]; have : ¬ (48 + n % 10 = 59) := by omega
      simp [this]

theorem count_digits (n : Nat) : (digits n).count 59 = 0 := by
  simp [digits, count_digitsF]

theorem count_foldl_lfields (g : Nat → Nat) (ks : List Nat) :
    ∀ acc : List Nat, (ks.foldl (fun acc k => acc ++ lfieldA ++ digits (g k) ++ lfieldB) acc).count 59
      = acc.count 59 + ks.length := by
  induction ks with
  | nil => intro acc; simp
  | cons k ks ih =>
    intro acc
    simp only [List.foldl_cons, List.length_cons]
    rw [ih, List.count_append, List.count_append, List.count_append, count_digits]
    have hab : lfieldA.count 59 + lfieldB.count 59 = 1 := by decide
    omega

/-- For every `n`: the generated schema carries exactly `3 + n` declaration terminators. -/
theorem bedAutosql_terminators (n : Nat) : (bedAutosql n).count 59 = 3 + n := by
  have hF : ∀ f ∈ FIELDS, f.count 59 = 1 := by decide
  have hh : header.count 59 = 3 := by decide
  have hl : FIELDS.length = 12 := by decide
  simp only [bedAutosql]
  rw [List.count_append, count_foldl_lfields (fun k => k + FIELDS.length + Gen.AUTOSQL_LFIELD_OFFSET),
      count_foldl_append _ (fun f hf => hF f (List.mem_of_mem_take hf)), hh]
  simp only [List.length_take, List.length_range, hl]
  have : ([41] : List Nat).count 59 = 0 := by decide
  omega

end ASN
