/-! C20, last clause: "requested portions outside the chromosome are filled with the out-of-bounds value".
    Model of the fill at the end of `intervals_to_array` / `entries_to_array` (pybigtools/src/lib.rs), in exact
    arithmetic (the code computes `bin_size = (end − start) / bins` and the two bounds in f64; for the magnitudes a
    32-bit coordinate allows, `ceil(x / bin_size)` and `floor(x / bin_size)` are the exact `⌈x·bins / L⌉` and
    `⌊x·bins / L⌋` whenever `x·bins` is a multiple of `L` or not within rounding distance of one — the correspondence
    run compares the real arrays with this model on every request shape).

    Coordinates are relative to the request: `a = −start` (bases of the request below 0 when positive),
    `r = length − start` (where the chromosome ends inside the request), `L = end − start`, `n` cells
    (`n = bins`, or `n = L` for the per-base array, where `bin_size = 1`). -/
namespace PYO

/-- the lower fill writes cells `[0, lowerEnd)`: `if start < 0 { … ceil(min(−start, end − start) / bin_size).min(len) }` -/
def lowerEnd (a : Int) (L n : Nat) : Nat :=
  if a > 0 then min ((min a.toNat L * n + L - 1) / L) n else 0

/-- the upper fill writes cells `[upperStart, n)`: `if end > length { … floor(max(length − start, 0) / bin_size).min(len) }` -/
def upperStart (r : Int) (L n : Nat) : Nat :=
  if (L : Int) > r then min ((max r 0).toNat * n / L) n else n

/-- cell `k` is overwritten with the out-of-bounds value -/
def filled (a r : Int) (L n k : Nat) : Bool := decide (k < lowerEnd a L n) || decide (k ≥ upperStart r L n)

/-- cell `k` covers `[k·L/n, (k+1)·L/n)` of the request: it starts below position 0 of the chromosome … -/
def startsBelowZero (a : Int) (L n k : Nat) : Prop := ((k * L : Nat) : Int) < a * (n : Int)
/-- … or reaches beyond the chromosome's end -/
def reachesPastEnd (r : Int) (L n k : Nat) : Prop := ((k + 1) * L : Nat) > r * (n : Int)

theorem lt_ceil_div (k m L : Nat) (hL : 0 < L) : k < (m + L - 1) / L ↔ k * L < m := by
  constructor
  · intro h
    have h1 : (k + 1) * L ≤ m + L - 1 := (Nat.le_div_iff_mul_le hL).mp h
    rw [Nat.add_mul] at h1
    omega
  · intro h
    have h1 : (k + 1) * L ≤ m + L - 1 := by rw [Nat.add_mul]; omega
    exact (Nat.le_div_iff_mul_le hL).mpr h1

theorem div_le_iff (x L k : Nat) (hL : 0 < L) : x / L ≤ k ↔ x < (k + 1) * L := by
  rw [← Nat.lt_succ_iff]
  exact Nat.div_lt_iff_lt_mul hL

/-- **Lower fill.** For every request (`L > 0` bases, `n > 0` cells) and every cell `k < n`: the cell is overwritten by the
    lower fill exactly when it starts below position 0. -/
theorem lower_fill_spec (a : Int) (L n k : Nat) (hL : 0 < L) (hk : k < n) :
    k < lowerEnd a L n ↔ startsBelowZero a L n k := by
  unfold lowerEnd startsBelowZero
  by_cases ha : a > 0
  · simp only [ha, if_true]
    obtain ⟨m, rfl⟩ : ∃ m : Nat, a = (m : Int) := ⟨a.toNat, by omega⟩
    simp only [Int.toNat_natCast]
    rw [Nat.lt_min, lt_ceil_div _ _ _ hL]
    constructor
    · rintro ⟨h, _⟩
      have : min m L * n ≤ m * n := Nat.mul_le_mul_right n (Nat.min_le_left m L)
      have h2 : k * L < m * n := Nat.lt_of_lt_of_le h this
      exact_mod_cast h2
    · intro h
      have h2 : k * L < m * n := by exact_mod_cast h
      refine ⟨?_, hk⟩
      by_cases hm : m ≤ L
      · rwa [Nat.min_eq_left hm]
      · rw [Nat.min_eq_right (by omega)]
        rw [Nat.mul_comm L n]
        exact Nat.mul_lt_mul_of_pos_right hk hL
  · simp only [ha, if_false, Nat.not_lt_zero, false_iff]
    have : a * (n : Int) ≤ 0 := Int.mul_nonpos_of_nonpos_of_nonneg (by omega) (by omega)
    have h0 : (0 : Int) ≤ ((k * L : Nat) : Int) := Int.natCast_nonneg _
    omega

/-- **Upper fill.** … and it is overwritten by the upper fill exactly when it reaches beyond the chromosome's end. -/
theorem upper_fill_spec (r : Int) (L n k : Nat) (hL : 0 < L) (hk : k < n) :
    k ≥ upperStart r L n ↔ reachesPastEnd r L n k := by
  unfold upperStart reachesPastEnd
  by_cases hr : (L : Int) > r
  · simp only [hr, if_true]
    by_cases hr0 : r ≤ 0
    · have hm : (max r 0).toNat = 0 := by omega
      simp only [hm, Nat.zero_mul, Nat.zero_div, Nat.zero_min, ge_iff_le, Nat.zero_le, true_iff]
      have h1 : r * (n : Int) ≤ 0 := Int.mul_nonpos_of_nonpos_of_nonneg hr0 (by omega)
      have h2 : (0 : Int) < (((k + 1) * L : Nat) : Int) := by
        have : 0 < (k + 1) * L := Nat.mul_pos (by omega) hL
        exact_mod_cast this
      omega
    · obtain ⟨m, rfl⟩ : ∃ m : Nat, r = (m : Int) := ⟨r.toNat, by omega⟩
      have hm : (max (m : Int) 0).toNat = m := by omega
      simp only [hm, ge_iff_le]
      have hmin : min (m * n / L) n ≤ k ↔ m * n / L ≤ k := by omega
      rw [hmin, div_le_iff _ _ _ hL]
      constructor
      · intro h
        exact_mod_cast h
      · intro h
        exact_mod_cast h
  · simp only [hr, if_false, ge_iff_le]
    constructor
    · intro h; omega
    · intro h
      exfalso
      have h1 : ((k + 1) * L : Nat) ≤ n * L := Nat.mul_le_mul_right L (by omega)
      have h2 : ((n * L : Nat) : Int) ≤ r * (n : Int) := by
        have : (L : Int) * (n : Int) ≤ r * (n : Int) := Int.mul_le_mul_of_nonneg_right (by omega) (by omega)
        rw [Nat.mul_comm]; push_cast; exact this
      have h3 : (((k + 1) * L : Nat) : Int) ≤ ((n * L : Nat) : Int) := by exact_mod_cast h1
      omega

/-- **Out-of-bounds fill (C20).** For every request and every cell: the cell receives the out-of-bounds value exactly when the
    stretch of the request it stands for starts below position 0 or reaches beyond the chromosome's end; all other cells
    keep what the array routines computed. The indices written are `< n` by construction (`min … n`): no out-of-range write. -/
theorem oob_fill_spec (a r : Int) (L n k : Nat) (hL : 0 < L) (hk : k < n) :
    filled a r L n k = true ↔ (startsBelowZero a L n k ∨ reachesPastEnd r L n k) := by
  unfold filled
  rw [Bool.or_eq_true, decide_eq_true_eq, decide_eq_true_eq, lower_fill_spec a L n k hL hk, upper_fill_spec r L n k hL hk]

/-- the per-base array (`n = L` cells, `bin_size = 1`): cell `k` is position `start + k`; it is out of bounds exactly when
    that position is below 0 or at / beyond the chromosome length -/
theorem oob_fill_per_base (start len : Int) (L k : Nat) (hL : 0 < L) (hk : k < L) :
    filled (-start) (len - start) L L k = true ↔ (start + k < 0 ∨ start + k ≥ len) := by
  rw [oob_fill_spec _ _ _ _ _ hL hk]
  unfold startsBelowZero reachesPastEnd
  have hLi : (0 : Int) < (L : Int) := by omega
  constructor
  · rintro (h | h)
    · left
      have h' : (k : Int) * (L : Int) < (-start) * (L : Int) := by push_cast at h; exact h
      have := Int.lt_of_mul_lt_mul_right h' (by omega)
      omega
    · right
      have h' : (len - start) * (L : Int) < ((k : Int) + 1) * (L : Int) := by push_cast at h; exact h
      have := Int.lt_of_mul_lt_mul_right h' (by omega)
      omega
  · rintro (h | h)
    · left
      have : (k : Int) * (L : Int) < (-start) * (L : Int) := Int.mul_lt_mul_of_pos_right (by omega) hLi
      push_cast; exact this
    · right
      have : (len - start) * (L : Int) < ((k : Int) + 1) * (L : Int) := Int.mul_lt_mul_of_pos_right (by omega) hLi
      push_cast; exact this

-- the request of D18: chromosome of 100 bases, values('chr1', -30, 120, bins=7): cells 0, 1 and 6 reach outside
example : (List.range 7).map (filled 30 130 150 7) = [true, true, false, false, false, false, true] := by decide
-- a request wholly below 0 is all out of bounds; one wholly inside has no such cell
example : (List.range 4).map (filled 30 130 20 4) = [true, true, true, true] := by decide
example : (List.range 4).map (filled (-10) 90 20 4) = [false, false, false, false] := by decide

end PYO
