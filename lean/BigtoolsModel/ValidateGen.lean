import BigtoolsModel.Generated.Funcs
import BigtoolsModel.Validate
/-! The writers' preconditions — every `if <cond> { return Err(` of `process_val` in bigwigwrite.rs and bigbedwrite.rs,
    REGENERATED from the source on every run (`Generated/Funcs.lean`): the conditions on the value alone
    (`*_refuse_alone`) and those involving the look-ahead value (`*_refuse_next`) — are exactly the model's `VL.check`,
    with which the refusal and acceptance theorems of C13 are stated. -/
namespace VL

theorem gen_wig_check_alone (len : Nat) (cur : Item) :
    check false len cur none = !Gen.wig_refuse_alone cur.s cur.e len := by
  unfold check
  delta Gen.wig_refuse_alone
  grind

theorem gen_wig_check_next (len : Nat) (cur n : Item) :
    check false len cur (some n) = !(Gen.wig_refuse_alone cur.s cur.e len || Gen.wig_refuse_next cur.s cur.e len n.s n.e) := by
  unfold check
  delta Gen.wig_refuse_alone Gen.wig_refuse_next
  grind

theorem gen_bed_check_alone (len : Nat) (cur : Item) :
    check true len cur none = !Gen.bed_refuse_alone cur.s cur.e len := by
  unfold check
  delta Gen.bed_refuse_alone
  grind

theorem gen_bed_check_next (len : Nat) (cur n : Item) :
    check true len cur (some n) = !(Gen.bed_refuse_alone cur.s cur.e len || Gen.bed_refuse_next cur.s cur.e len n.s n.e) := by
  unfold check
  delta Gen.bed_refuse_alone Gen.bed_refuse_next
  grind

end VL
