import BigtoolsModel.Codec
/-! Probe (C02): bigBed record codec round trip (`encode_section` / `get_block_entries` before filtering). -/
namespace CD

structure Entry where
  s : Nat
  e : Nat
  rest : List Nat          -- bytes of the rest-of-line
deriving DecidableEq, Repr

def encEntry (chrom : Nat) (x : Entry) : List Nat := le 4 chrom ++ le 4 x.s ++ le 4 x.e ++ x.rest ++ [0]

inductive DecErr where | padding | outOfFuel deriving DecidableEq, Repr

/-- `read_entry` loop of `get_block_entries`: stops when fewer than 12 bytes remain; a record with
    start = end = 0 is taken for padding and is an error (as found) -/
def decEntries : Nat → List Nat → Except DecErr (List (Nat × Entry))
  | 0, _ => .error .outOfFuel
  | fuel + 1, bs =>
    if bs.length < 12 then .ok [] else
    let chrom := fromLe (bs.take 4)
    let s := fromLe ((bs.drop 4).take 4)
    let e := fromLe ((bs.drop 8).take 4)
    if s = 0 ∧ e = 0 then .error .padding else
    let body := bs.drop 12
    let rest := body.takeWhile (· ≠ 0)
    let after := (body.drop rest.length).drop 1      -- skip the NUL if there is one
    match decEntries fuel after with
    | .ok more => .ok ((chrom, ⟨s, e, rest⟩) :: more)
    | .error err => .error err

def Entry.ok (x : Entry) : Prop :=
  x.s < 256 ^ 4 ∧ x.e < 256 ^ 4 ∧ (∀ b ∈ x.rest, b ≠ 0) ∧ ¬ (x.s = 0 ∧ x.e = 0)

theorem takeWhile_nul (r tail : List Nat) (h : ∀ b ∈ r, b ≠ 0) : (r ++ 0 :: tail).takeWhile (· ≠ 0) = r := by
  induction r with
  | nil => simp
  | cons a as ih =>
    have ha := h a (by simp)
    simp only [List.cons_append, List.takeWhile_cons, ne_eq, ha, not_false_eq_true, decide_true, if_true]
    rw [ih (fun b hb => h b (by simp [hb]))]

/-- **bigBed record round trip**: for a chromosome id and in-range entries whose rest fields contain no NUL
    and which are not `(0,0)`, decoding the concatenated records returns them in order. -/
theorem bed_records_roundtrip (chrom : Nat) (hc : chrom < 256 ^ 4) (entries : List Entry)
    (hok : ∀ x ∈ entries, x.ok) :
    ∀ fuel, entries.length < fuel →
      decEntries fuel (entries.flatMap (encEntry chrom)) = .ok (entries.map fun x => (chrom, x)) := by
  induction entries with
  | nil => intro fuel hf; cases fuel with
    | zero => omega
    | succ f => simp [decEntries]
  | cons x xs ih =>
    intro fuel hf
    cases fuel with
    | zero => omega
    | succ f =>
      obtain ⟨h1, h2, h3, h4⟩ := hok x (by simp)
      have l4 : ∀ n, (le 4 n).length = 4 := le_length 4
      simp only [List.flatMap_cons, encEntry, List.append_assoc, decEntries]
      have hlen : ¬ ((le 4 chrom ++ (le 4 x.s ++ (le 4 x.e ++ (x.rest ++ ([0] ++ List.flatMap (encEntry chrom) xs))))).length < 12) := by
        simp only [List.length_append, l4]; omega
      rw [if_neg hlen]
      rw [take_append_len _ _ 4 (l4 _), fromLe_le 4 _ hc]
      have d4 : ∀ t : List Nat, List.drop 4 (le 4 chrom ++ t) = t := fun t => drop_append_len _ _ 4 (l4 _)
      have d8 : ∀ t : List Nat, List.drop 8 (le 4 chrom ++ (le 4 x.s ++ t)) = t := by
        intro t
        rw [show (8 : Nat) = 4 + (4 + 0) by rfl, drop_add_append _ _ 4 _ (l4 _), drop_add_append _ _ 4 _ (l4 _)]; rfl
      have d12 : ∀ t : List Nat, List.drop 12 (le 4 chrom ++ (le 4 x.s ++ (le 4 x.e ++ t))) = t := by
        intro t
        rw [show (12 : Nat) = 4 + (4 + (4 + 0)) by rfl, drop_add_append _ _ 4 _ (l4 _), drop_add_append _ _ 4 _ (l4 _),
            drop_add_append _ _ 4 _ (l4 _)]; rfl
      rw [d4, take_append_len _ _ 4 (l4 _), fromLe_le 4 _ h1, d8, take_append_len _ _ 4 (l4 _), fromLe_le 4 _ h2, d12]
      rw [if_neg h4]
      simp only [List.singleton_append]
      rw [takeWhile_nul x.rest _ h3]
      have hdrop : List.drop 1 (List.drop x.rest.length (x.rest ++ 0 :: List.flatMap (encEntry chrom) xs))
          = List.flatMap (encEntry chrom) xs := by
        rw [List.drop_left]; rfl
      rw [hdrop]
      have := ih (fun y hy => hok y (by simp [hy])) f (by simp only [List.length_cons] at hf; omega)
      rw [this]
      rfl

/-- D5: a zero-length entry at position 0 is written but read back as an error -/
def isPadding : Except DecErr (List (Nat × Entry)) → Bool
  | .error .padding => true
  | _ => false

theorem zero_zero_entry_rejected_as_found : isPadding (decEntries 5 (encEntry 0 ⟨0, 0, []⟩)) = true := by decide

end CD
