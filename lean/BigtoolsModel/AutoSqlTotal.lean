import BigtoolsModel.AutoSqlN
/-! Probe (C19): the repaired autoSql parser never exhausts its fuel — it terminates on every input. -/
namespace ASN

variable (cc : CC)

theorem dropWhile_length_le {α} (f : α → Bool) (l : List α) : (l.dropWhile f).length ≤ l.length := by
  induction l with
  | nil => simp
  | cons x xs ih => simp only [List.dropWhile_cons]; split <;> simp <;> omega

theorem takeWhile_length_le {α} (f : α → Bool) (l : List α) : (l.takeWhile f).length ≤ l.length := by
  induction l with
  | nil => simp
  | cons x xs ih => simp only [List.takeWhile_cons]; split <;> simp <;> omega

theorem takeWs_len (p : P) : (takeWs cc p).rest.length ≤ p.rest.length := by
  unfold takeWs
  split
  · simp
  · split
    · exact dropWhile_length_le _ _
    · exact Nat.le_refl _

theorem take_len (p : P) : (take p).2.rest.length = p.rest.length - p.peek := by
  simp [take]

theorem peekOne_rest (p : P) : (peekOne cc p).2.rest = (takeWs cc p).rest := by
  unfold peekOne; simp only; split <;> rfl
theorem peekWord_rest (p : P) : (peekWord cc p).2.rest = (takeWs cc p).rest := by
  unfold peekWord; simp only; split <;> rfl
theorem peekQuoted_rest (p : P) : (peekQuoted cc p).2.rest = (takeWs cc p).rest := by
  unfold peekQuoted; simp only; split <;> rfl

theorem peekOne_len (p : P) : (peekOne cc p).2.rest.length ≤ p.rest.length := by
  rw [peekOne_rest]; exact takeWs_len cc p
theorem peekWord_len (p : P) : (peekWord cc p).2.rest.length ≤ p.rest.length := by
  rw [peekWord_rest]; exact takeWs_len cc p

theorem eatOne_len (p : P) : (eatOne cc p).2.rest.length ≤ p.rest.length := by
  simp only [eatOne, take_len]
  have := peekOne_len cc p
  omega
theorem eatWord_len (p : P) : (eatWord cc p).2.rest.length ≤ p.rest.length := by
  simp only [eatWord, take_len]
  have := peekWord_len cc p
  omega
theorem eatQuoted_len (p : P) : (eatQuoted cc p).2.rest.length ≤ p.rest.length := by
  simp only [eatQuoted, take_len]
  have : (peekQuoted cc p).2.rest.length ≤ p.rest.length := by rw [peekQuoted_rest]; exact takeWs_len cc p
  omega

/-- a non-empty word really consumes input -/
theorem peekWord_peek (p : P) : (peekWord cc p).2.peek = (peekWord cc p).1.length ∧
    (peekWord cc p).1.length ≤ (peekWord cc p).2.rest.length := by
  unfold peekWord
  simp only
  split
  · simp
  · rename_i c tl h
    simp only [List.length_cons, true_and]
    rw [h]
    simp only [List.length_cons]
    have := takeWhile_length_le (fun x => !isDelim cc x) tl
    omega

theorem eatWord_strict (p : P) (h : (eatWord cc p).1 ≠ []) : (eatWord cc p).2.rest.length < p.rest.length := by
  have h1 := peekWord_peek cc p
  have h2 := peekWord_len cc p
  simp only [eatWord, take_len] at *
  have : (peekWord cc p).1.length > 0 := List.length_pos_iff.mpr h
  omega

theorem take_after_peekWord_strict (p : P) (h : (peekWord cc p).1 ≠ []) :
    (take (peekWord cc p).2).2.rest.length < p.rest.length :=
  eatWord_strict cc p h

/-- what we need of every sub-parser: it never reports `outOfFuel`, and it never gives input back -/
def Good {α} (p : P) (res : Except PErr (α × P)) : Prop :=
  res ≠ .error .outOfFuel ∧ ∀ r p', res = .ok (r, p') → p'.rest.length ≤ p.rest.length

theorem valuesLoop_good : ∀ (fuel : Nat) (p : P) (acc : List Str), p.rest.length < fuel →
    Good p (valuesLoop cc true fuel p acc) := by
  intro fuel
  induction fuel with
  | zero => intro p acc h; omega
  | succ fuel ih =>
    intro p acc h
    unfold valuesLoop
    simp only
    have hw := eatWord_len cc p
    split
    · -- `)` closes the list
      exact ⟨by simp, by intro r p' hr; cases hr; exact hw⟩
    · split
      · exact ⟨by simp, by intro r p' hr; cases hr⟩
      · rename_i hnot hfix
        -- the word is not empty, so input was consumed
        have hne : (eatWord cc p).1 ≠ [] := by
          intro he
          apply hfix
          simp [he]
        have hstrict := eatWord_strict cc p hne
        have ho := eatOne_len cc (eatWord cc p).2
        split
        · exact ⟨by simp, by intro r p' hr; cases hr; omega⟩
        · have := ih (eatOne cc (eatWord cc p).2).2 (acc ++ [str (eatWord cc p).1]) (by omega)
          exact ⟨this.1, by intro r p' hr; have := this.2 r p' hr; omega⟩

theorem take_le (p : P) : (take p).2.rest.length ≤ p.rest.length := by rw [take_len]; omega
theorem peekQuoted_len (p : P) : (peekQuoted cc p).2.rest.length ≤ p.rest.length := by
  rw [peekQuoted_rest]; exact takeWs_len cc p

/-- peel cursor operations off the final state until the initial state is reached -/
macro "len_chain" cc:term : tactic => `(tactic|
  repeat (first
    | exact Nat.le_refl _
    | apply Nat.le_trans (take_le _)
    | apply Nat.le_trans (peekWord_len $cc _)
    | apply Nat.le_trans (peekOne_len $cc _)
    | apply Nat.le_trans (peekQuoted_len $cc _)
    | apply Nat.le_trans (eatWord_len $cc _)
    | apply Nat.le_trans (eatOne_len $cc _)
    | apply Nat.le_trans (eatQuoted_len $cc _)))

set_option maxHeartbeats 1000000 in
theorem parseIndexAuto_good (p : P) : Good p (parseIndexAuto cc p) := by
  unfold parseIndexAuto Good
  simp only [bind, Except.bind, pure, Except.pure, throw, throwThe, MonadExceptOf.throw]
  constructor
  · repeat' split
    all_goals simp_all
  · intro r p' hr
    repeat' split at hr
    all_goals (first | (simp at hr; done) | skip)
    all_goals (simp only [Except.ok.injEq, Prod.mk.injEq] at hr; obtain ⟨_, rfl⟩ := hr)
    all_goals len_chain cc

theorem parseDeclName_good (p : P) : Good p (parseDeclName cc p) := by
  have hg := parseIndexAuto_good cc (eatWord cc p).2
  have hw := eatWord_len cc p
  unfold parseDeclName Good
  simp only [bind, Except.bind, pure, Except.pure, throw, throwThe, MonadExceptOf.throw]
  split
  · exact ⟨by simp, by intro r p' hr; cases hr⟩
  · cases h : parseIndexAuto cc (eatWord cc p).2 with
    | error e =>
      refine ⟨?_, by intro r p' hr; simp at hr⟩
      intro he
      simp only [Except.error.injEq] at he
      exact hg.1 (by rw [h, he])
    | ok v =>
      obtain ⟨⟨it, auto⟩, p2⟩ := v
      refine ⟨by simp, ?_⟩
      intro r p' hr
      simp only [Except.ok.injEq, Prod.mk.injEq] at hr
      obtain ⟨_, rfl⟩ := hr
      have := hg.2 _ _ h
      omega

/-- a keyword is not empty, so recognising one consumes input -/
theorem lower_ne_nil (w : List Nat) (kw : List Nat) (hk : kw ≠ []) (h : str (w.map cc.lower) = kw) : w ≠ [] := by
  intro hw; subst hw; simp [str] at h; exact hk h

theorem basic_ne_nil (lw : Str) (h : basicTypes.contains lw = true) : lw ≠ [] := by
  intro he; subst he; revert h; decide

theorem map_ne_nil_of (w : List Nat) (h : str (w.map cc.lower) ≠ []) : w ≠ [] := by
  intro hw; subst hw; exact h rfl

set_option maxHeartbeats 1000000 in
theorem tryParseType_good (fuel : Nat) (p : P) (hf : p.rest.length < fuel) :
    Good p (tryParseType cc true fuel p) ∧
    ∀ ft p', tryParseType cc true fuel p = .ok (some ft, p') → p'.rest.length < p.rest.length := by
  have hstrict := take_after_peekWord_strict cc p
  have hpw := peekWord_len cc p
  unfold tryParseType Good
  simp only [bind, Except.bind, pure, Except.pure, throw, throwThe, MonadExceptOf.throw]
  split
  · -- a basic type keyword
    rename_i hb
    have hne := map_ne_nil_of cc _ (basic_ne_nil _ hb)
    have := hstrict hne
    refine ⟨⟨by simp, ?_⟩, ?_⟩
    · intro r p' hr; simp only [Except.ok.injEq, Prod.mk.injEq] at hr; obtain ⟨_, rfl⟩ := hr; omega
    · intro ft p' hr; simp only [Except.ok.injEq, Prod.mk.injEq] at hr; obtain ⟨_, rfl⟩ := hr; omega
  · split
    · -- enum / set
      rename_i hb he
      have hne : (peekWord cc p).1 ≠ [] := by
        apply map_ne_nil_of cc
        rcases he with he | he <;> (rw [he]; simp)
      have h1 := hstrict hne
      have h2 := eatOne_len cc (take (peekWord cc p).2).2
      split
      · exact ⟨⟨by simp, by intro r p' hr; cases hr⟩, by intro ft p' hr; cases hr⟩
      · have hv := valuesLoop_good cc fuel (eatOne cc (take (peekWord cc p).2).2).2 [] (by omega)
        cases hvl : valuesLoop cc true fuel (eatOne cc (take (peekWord cc p).2).2).2 [] with
        | error e =>
          refine ⟨⟨?_, by intro r p' hr; simp at hr⟩, by intro ft p' hr; simp at hr⟩
          intro heq; simp only [Except.error.injEq] at heq
          exact hv.1 (by rw [hvl, heq])
        | ok v =>
          obtain ⟨vals, p2⟩ := v
          have := hv.2 _ _ hvl
          refine ⟨⟨by simp, ?_⟩, ?_⟩
          · intro r p' hr; simp only [Except.ok.injEq, Prod.mk.injEq] at hr; obtain ⟨_, rfl⟩ := hr; omega
          · intro ft p' hr; simp only [Except.ok.injEq, Prod.mk.injEq] at hr; obtain ⟨_, rfl⟩ := hr; omega
    · split
      · -- simple / object / table
        rename_i hb he hd
        have hne : (peekWord cc p).1 ≠ [] := by
          apply map_ne_nil_of cc
          rcases hd with hd | hd | hd <;> (rw [hd]; simp)
        have h1 := hstrict hne
        have hg := parseDeclName_good cc (take (peekWord cc p).2).2
        cases hdn : parseDeclName cc (take (peekWord cc p).2).2 with
        | error e =>
          refine ⟨⟨?_, by intro r p' hr; simp at hr⟩, by intro ft p' hr; simp at hr⟩
          intro heq; simp only [Except.error.injEq] at heq
          exact hg.1 (by rw [hdn, heq])
        | ok v =>
          obtain ⟨dn, p2⟩ := v
          have := hg.2 _ _ hdn
          refine ⟨⟨by simp, ?_⟩, ?_⟩
          · intro r p' hr; simp only [Except.ok.injEq, Prod.mk.injEq] at hr; obtain ⟨_, rfl⟩ := hr; omega
          · intro ft p' hr; simp only [Except.ok.injEq, Prod.mk.injEq] at hr; obtain ⟨_, rfl⟩ := hr; omega
      · -- not a type: nothing consumed beyond whitespace
        refine ⟨⟨by simp, ?_⟩, by intro ft p' hr; simp at hr⟩
        intro r p' hr; simp only [Except.ok.injEq, Prod.mk.injEq] at hr; obtain ⟨_, rfl⟩ := hr; omega

theorem parseSizeName_good (p : P) : Good p (parseSizeName cc p) := by
  unfold parseSizeName Good
  simp only
  constructor
  · repeat' split
    all_goals simp
  · intro r p' hr
    repeat' split at hr
    all_goals (first | (simp at hr; done) | skip)
    all_goals (simp only [Except.ok.injEq, Prod.mk.injEq] at hr; obtain ⟨_, rfl⟩ := hr)
    all_goals len_chain cc

theorem parseFieldTail_good (p : P) : Good p (parseFieldTail cc p) := by
  have hg := parseIndexAuto_good cc p
  unfold parseFieldTail Good
  cases h : parseIndexAuto cc p with
  | error e =>
    simp only
    refine ⟨?_, by intro r p' hr; simp at hr⟩
    intro he; simp only [Except.error.injEq] at he
    exact hg.1 (by rw [h, he])
  | ok v =>
    obtain ⟨ia, p1⟩ := v
    have h1 := hg.2 _ _ h
    simp only
    split
    · exact ⟨by simp, by intro r p' hr; cases hr⟩
    · refine ⟨by simp, ?_⟩
      intro r p' hr
      simp only [Except.ok.injEq, Prod.mk.injEq] at hr
      obtain ⟨_, rfl⟩ := hr
      have a1 := eatOne_len cc p1
      have a2 := eatQuoted_len cc (eatOne cc p1).2
      omega

theorem fieldLoop_good : ∀ (fuel : Nat) (p : P) (acc : List Field), p.rest.length < fuel →
    Good p (fieldLoop cc true fuel p acc) := by
  intro fuel
  induction fuel with
  | zero => intro p acc h; omega
  | succ fuel ih =>
    intro p acc h
    have ht := tryParseType_good cc (p.rest.length + 1) p (by omega)
    unfold fieldLoop
    cases h1 : tryParseType cc true (p.rest.length + 1) p with
    | error e =>
      simp only
      refine ⟨?_, by intro r p' hr; simp at hr⟩
      intro he; simp only [Except.error.injEq] at he
      exact ht.1.1 (by rw [h1, he])
    | ok v =>
      obtain ⟨oft, p1⟩ := v
      have hp1 := ht.1.2 _ _ h1
      cases oft with
      | none =>
        simp only
        exact ⟨by simp, by intro r p' hr; cases hr; exact hp1⟩
      | some ft =>
        have hstrict := ht.2 ft p1 h1
        simp only
        have hs := parseSizeName_good cc p1
        cases h2 : parseSizeName cc p1 with
        | error e =>
          simp only
          refine ⟨?_, by intro r p' hr; simp at hr⟩
          intro he; simp only [Except.error.injEq] at he
          exact hs.1 (by rw [h2, he])
        | ok v2 =>
          obtain ⟨⟨size, name⟩, p2⟩ := v2
          have hp2 := hs.2 _ _ h2
          simp only
          have hft := parseFieldTail_good cc p2
          cases h3 : parseFieldTail cc p2 with
          | error e =>
            simp only
            refine ⟨?_, by intro r p' hr; simp at hr⟩
            intro he; simp only [Except.error.injEq] at he
            exact hft.1 (by rw [h3, he])
          | ok v3 =>
            obtain ⟨⟨⟨it, auto⟩, comment⟩, p3⟩ := v3
            have hp3 := hft.2 _ _ h3
            simp only
            have hpo := peekOne_len cc p3
            split
            · exact ⟨by simp, by intro r p' hr; cases hr; omega⟩
            · have := ih (peekOne cc p3).2
                (acc ++ [{ ftype := ft, size := size, name := name, indexType := it, auto := auto, comment := comment }])
                (by omega)
              exact ⟨this.1, by intro r p' hr; have := this.2 r p' hr; omega⟩

set_option maxHeartbeats 1000000 in
theorem parseDecl_noFuel (p : P) : parseDecl cc true p ≠ .error .outOfFuel := by
  unfold parseDecl
  simp only [bind, Except.bind, pure, Except.pure, throw, throwThe, MonadExceptOf.throw]
  split
  · simp
  · split
    · simp
    · have hg := parseDeclName_good cc (eatWord cc p).2
      cases h1 : parseDeclName cc (eatWord cc p).2 with
      | error e =>
        simp only
        intro he; simp only [Except.error.injEq] at he
        exact hg.1 (by rw [h1, he])
      | ok v =>
        obtain ⟨dn, p1⟩ := v
        simp only
        split
        · simp
        · have hf := fieldLoop_good cc ((eatOne cc (eatQuoted cc p1).2).2.rest.length + 1)
            (eatOne cc (eatQuoted cc p1).2).2 [] (by omega)
          cases h2 : fieldLoop cc true ((eatOne cc (eatQuoted cc p1).2).2.rest.length + 1)
              (eatOne cc (eatQuoted cc p1).2).2 [] with
          | error e =>
            simp only
            intro he; simp only [Except.error.injEq] at he
            exact hf.1 (by rw [h2, he])
          | ok v2 =>
            obtain ⟨fields, p2⟩ := v2
            simp only
            split <;> simp

theorem declLoop_noFuel : ∀ (n : Nat) (p : P) (acc : List Decl), declLoop cc true n p acc ≠ .error .outOfFuel := by
  intro n
  induction n with
  | zero => intro p acc; simp [declLoop]
  | succ n ih =>
    intro p acc
    unfold declLoop
    simp only [bind, Except.bind, pure, Except.pure]
    cases h : parseDecl cc true p with
    | error e =>
      simp only
      intro he; simp only [Except.error.injEq] at he
      exact parseDecl_noFuel cc p (by rw [h, he])
    | ok v =>
      obtain ⟨d, p1⟩ := v
      cases d with
      | none => simp
      | some d => simp only; exact ih p1 _

/-- **The repaired autoSql parser is total.** For every input (any code points, any character
    classification) parsing returns declarations or a parse error; it never exhausts the fuel the model
    gives it — every loop of the parser consumes input. -/
theorem parse_total (s : List Nat) : parseAutosql cc true s ≠ .error .outOfFuel :=
  declLoop_noFuel cc 4 _ []

end ASN
