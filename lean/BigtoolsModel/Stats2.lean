import BigtoolsModel.Stats
/-! Probe (C17): minimum and maximum of `stats_for_bed_item`, and the "nothing covered" case. -/
namespace ST

def overlaps (s e : Nat) (x : Val) : Bool := decide (x.e > s ∧ x.s < e)

/-- the running minimum / maximum of the loop (`f64::MAX.min(v₁).min(v₂)…` over finite values) -/
def runMin (vals : List Val) : Option Int := vals.foldl (fun m x => some (match m with | none => x.v | some a => min a x.v)) none
def runMax (vals : List Val) : Option Int := vals.foldl (fun m x => some (match m with | none => x.v | some a => max a x.v)) none

/-- what is reported: NaN (`none`) when no base is covered -/
def reportMin (s e : Nat) (vals : List Val) : Option Int := if (stats s e vals).bases = 0 then none else runMin vals
def reportMax (s e : Nat) (vals : List Val) : Option Int := if (stats s e vals).bases = 0 then none else runMax vals

/-- specification: extremum of the stored values that overlap the region -/
def specMin (s e : Nat) (stored : List Val) : Option Int :=
  match (stored.filter (overlaps s e)).map (·.v) with
  | [] => none
  | a :: rest => some (rest.foldl min a)
def specMax (s e : Nat) (stored : List Val) : Option Int :=
  match (stored.filter (overlaps s e)).map (·.v) with
  | [] => none
  | a :: rest => some (rest.foldl max a)

theorem query_values (s e : Nat) (stored : List Val) :
    (query s e stored).map (·.v) = (stored.filter (overlaps s e)).map (·.v) := by
  induction stored with
  | nil => rfl
  | cons x xs ih =>
    simp only [query, List.filterMap_cons, clip, List.filter_cons, overlaps] at *
    by_cases h : x.e > s ∧ x.s < e
    · simp only [h, and_self, if_true, decide_true, List.map_cons, ih]
    · simp only [h, if_false, decide_false, Bool.false_eq_true, ih]

theorem query_pos (s e : Nat) (hse : s < e) (stored : List Val) (hne : ∀ x ∈ stored, x.s < x.e) :
    ∀ y ∈ query s e stored, y.s < y.e := by
  intro y hy
  simp only [query, List.mem_filterMap, clip] at hy
  obtain ⟨x, hx, hc⟩ := hy
  split at hc
  · rename_i h
    obtain ⟨h1, h2⟩ := h
    cases hc
    have := hne x hx
    show max x.s s < min x.e e
    omega
  · cases hc

theorem bases_zero_iff (s e : Nat) (vals : List Val) (hpos : ∀ y ∈ vals, y.s < y.e) :
    (stats s e vals).bases = 0 ↔ vals = [] := by
  unfold stats
  rw [foldl_stats]
  simp only [Nat.zero_add]
  constructor
  · intro h
    cases vals with
    | nil => rfl
    | cons y ys =>
      have := hpos y (by simp)
      simp only [List.map_cons, List.sum_cons] at h
      omega
  · intro h; subst h; rfl

theorem runMin_eq (vals : List Val) : runMin vals =
    match vals.map (·.v) with | [] => none | a :: rest => some (rest.foldl min a) := by
  have key : ∀ (l : List Val) (a : Int),
      l.foldl (fun m x => some (match m with | none => x.v | some a => min a x.v)) (some a) =
        some ((l.map (·.v)).foldl min a) := by
    intro l
    induction l with
    | nil => intro a; rfl
    | cons x xs ih => intro a; simp only [List.foldl_cons, List.map_cons]; exact ih _
  cases vals with
  | nil => rfl
  | cons x xs => simp only [runMin, List.foldl_cons, List.map_cons]; exact key xs x.v

theorem runMax_eq (vals : List Val) : runMax vals =
    match vals.map (·.v) with | [] => none | a :: rest => some (rest.foldl max a) := by
  have key : ∀ (l : List Val) (a : Int),
      l.foldl (fun m x => some (match m with | none => x.v | some a => max a x.v)) (some a) =
        some ((l.map (·.v)).foldl max a) := by
    intro l
    induction l with
    | nil => intro a; rfl
    | cons x xs ih => intro a; simp only [List.foldl_cons, List.map_cons]; exact ih _
  cases vals with
  | nil => rfl
  | cons x xs => simp only [runMax, List.foldl_cons, List.map_cons]; exact key xs x.v

/-- an empty region (`start = end` in the BED file) yields zero-length clipped values; nothing is covered and
    NaN is reported whatever the data -/
theorem empty_region (s : Nat) (stored : List Val) : reportMin s s (query s s stored) = none := by
  have : (stats s s (query s s stored)).bases = 0 := by
    unfold stats
    rw [foldl_stats]
    simp only [Nat.zero_add]
    induction stored with
    | nil => rfl
    | cons x xs ih =>
      simp only [query, List.filterMap_cons, clip] at *
      by_cases h : x.e > s ∧ x.s < s
      · simp only [h, and_self, if_true, List.map_cons, List.sum_cons, ih]; omega
      · simp only [h, if_false]; exact ih
  simp [reportMin, this]

/-- **Per-region extrema.** For any stored non-empty values and any non-empty region, the reported minimum and maximum
    are those of the stored values overlapping the region, and NaN exactly when none does. -/
theorem minmax_eq (s e : Nat) (hse : s < e) (stored : List Val) (hne : ∀ x ∈ stored, x.s < x.e) :
    reportMin s e (query s e stored) = specMin s e stored ∧
    reportMax s e (query s e stored) = specMax s e stored := by
  have hz := bases_zero_iff s e (query s e stored) (query_pos s e hse stored hne)
  unfold reportMin reportMax specMin specMax
  rw [runMin_eq, runMax_eq, query_values]
  by_cases h : query s e stored = []
  · have hv : (stored.filter (overlaps s e)).map (·.v) = [] := by rw [← query_values, h]; rfl
    simp [hz.mpr h, hv]
  · have : ¬ (stats s e (query s e stored)).bases = 0 := fun hb => h (hz.mp hb)
    simp [this]

end ST
