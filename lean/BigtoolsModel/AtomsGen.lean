import BigtoolsModel.Generated.Atoms
import BigtoolsModel.Tiler2
import BigtoolsModel.Sweep
import BigtoolsModel.FView
import BigtoolsModel.IndexerFix
import BigtoolsModel.Chunker
import BigtoolsModel.SummaryFold
import BigtoolsModel.BedSummary
import BigtoolsModel.Stats2
import BigtoolsModel.ZoomLevels
import BigtoolsModel.Generated.Consts
/-! The arithmetic and the branch conditions of the two zoom tilers (`process_val_zoom` in bigwigwrite.rs and
    bigbedwrite.rs), of the two coverage sweeps (the summary sweep in `process_val`, the zoom sweep in `process_val_zoom`),
    of the section cut and of the variable-step / fixed-step decoders are REGENERATED from the Rust source on every run
    (`Generated/Atoms.lean`, tools/rs2lean.py). Here the model's loop bodies are re-assembled FROM THOSE EXPRESSIONS
    (`iterGen`, `bumpGen`, `tailGen`, `flushGen`, …) and proved equal to the model functions the property theorems are
    about. A change of one of these expressions in the source that is not an equivalent rewrite breaks the theorem here
    (and `Cex/AtomsCex.lean` then searches for arguments on which source and model differ). -/

set_option linter.unusedSimpArgs false
set_option linter.unusedVariables false

-- normalises Boolean tests to propositions
macro "atoms_norm" : tactic => `(tactic|
  (simp only [Bool.and_eq_true, Bool.or_eq_true, Bool.not_eq_true', decide_eq_true_eq, decide_eq_false_iff_not,
      Bool.if_false_left, Bool.if_false_right, Bool.if_true_left, Bool.if_true_right, Bool.false_eq_true, ge_iff_le, gt_iff_lt,
      Bool.not_eq_eq_eq_not, Bool.not_true, Bool.not_false, beq_iff_eq, bne_iff_ne, ne_eq] at *))

namespace Tiler2

/-- one pass through the body of the bigWig tiler's `loop`, assembled from the source's expressions -/
def iterGen (size : Nat) (x : Val) (a : Nat) (st : TSt) : Nat × TSt :=
  let r := st.live.getD (newRec a x.v)
  let nextEnd := Gen.wz_next_end r.start size
  let addEnd := Gen.wz_add_end nextEnd x.e
  let r' : Rec := if Gen.wz_update addEnd a then
      { r with stop := addEnd, bases := r.bases + Gen.wz_added addEnd a,
               sum := r.sum + ((Gen.wz_added addEnd a : Nat) : Int) * x.v, mn := min r.mn x.v, mx := max r.mx x.v }
    else r
  let st' : TSt := if Gen.wz_close addEnd nextEnd then { live := none, out := st.out ++ [r'] }
                   else { live := some r', out := st.out }
  (Gen.wz_next_start addEnd x.s, st')

/-- the same for the bigBed tiler (the piece `[x.s, x.e)` of coverage depth `x.v` the sweep hands over) -/
def iterGenBed (size : Nat) (x : Val) (a : Nat) (st : TSt) : Nat × TSt :=
  let r := st.live.getD (newRec a x.v)
  let nextEnd := Gen.bz_next_end r.start size
  let addEnd := Gen.bz_add_end nextEnd x.e
  let r' : Rec := if Gen.bz_update addEnd a then
      { r with stop := addEnd, bases := r.bases + Gen.bz_added addEnd a,
               sum := r.sum + ((Gen.bz_added addEnd a : Nat) : Int) * x.v, mn := min r.mn x.v, mx := max r.mx x.v }
    else r
  let st' : TSt := if Gen.bz_close addEnd nextEnd then { live := none, out := st.out ++ [r'] }
                   else { live := some r', out := st.out }
  (Gen.bz_next_start addEnd x.s, st')

theorem rec_ext {a b : Rec} (h1 : a.start = b.start) (h2 : a.stop = b.stop) (h3 : a.bases = b.bases) (h4 : a.sum = b.sum)
    (h5 : a.mn = b.mn) (h6 : a.mx = b.mx) : a = b := by
  cases a; cases b; simp_all

/-- what the proofs below need of the seven expressions, stated once: each is the model's expression -/
structure TilerAtoms (done : Nat → Nat → Bool) (nextEnd : Nat → Nat → Nat) (addEnd : Nat → Nat → Nat)
    (update : Nat → Nat → Bool) (added : Nat → Nat → Nat) (close : Nat → Nat → Bool) (nextStart : Nat → Nat → Nat) : Prop where
  done_eq : ∀ a e, done a e = decide (a ≥ e)
  nextEnd_eq : ∀ s z, nextEnd s z = s + z
  addEnd_eq : ∀ n e, addEnd n e = min n e
  update_eq : ∀ ae a, update ae a = decide (ae > a)
  added_eq : ∀ ae a, update ae a = true → added ae a = ae - a
  close_eq : ∀ ae n, close ae n = decide (ae = n)
  nextStart_eq : ∀ ae s, nextStart ae s = max ae s

theorem gen_wig_atoms : TilerAtoms Gen.wz_done Gen.wz_next_end Gen.wz_add_end Gen.wz_update Gen.wz_added Gen.wz_close
    Gen.wz_next_start := by
  constructor <;> intros <;>
    delta Gen.wz_done Gen.wz_next_end Gen.wz_add_end Gen.wz_update Gen.wz_added Gen.wz_close Gen.wz_next_start at * <;>
    first
    | rfl
    | grind
    | (atoms_norm; omega)
    | (rw [Bool.eq_iff_iff]; atoms_norm; omega)

theorem gen_bed_atoms : TilerAtoms Gen.bz_done Gen.bz_next_end Gen.bz_add_end Gen.bz_update Gen.bz_added Gen.bz_close
    Gen.bz_next_start := by
  constructor <;> intros <;>
    delta Gen.bz_done Gen.bz_next_end Gen.bz_add_end Gen.bz_update Gen.bz_added Gen.bz_close Gen.bz_next_start at * <;>
    first
    | rfl
    | grind
    | (atoms_norm; omega)
    | (rw [Bool.eq_iff_iff]; atoms_norm; omega)

/-- **bigWig tiler.** The loop body assembled from the source's expressions is the model's `iter` (repaired variant),
    for every resolution, value, position and tiler state. -/
theorem gen_wig_tiler_iter (size : Nat) (x : Val) (a : Nat) (st : TSt) :
    iterGen size x a st = iter repaired size x a st := by
  obtain ⟨_, h2, h3, h4, h5, h6, h7⟩ := gen_wig_atoms
  unfold iterGen iter
  simp only [h2, h3, h4, h6, h7, repaired, if_true]
  by_cases hu : min ((st.live.getD (newRec a x.v)).start + size) x.e > a
  · have := h5 _ _ ((h4 _ _).trans (decide_eq_true hu))
    simp only [this, hu, decide_true, if_true, decide_eq_true_eq]
  · simp only [hu, decide_false, Bool.false_eq_true, if_false, decide_eq_true_eq]

/-- **bigBed tiler.** The same for the loop body in bigbedwrite.rs. -/
theorem gen_bed_tiler_iter (size : Nat) (x : Val) (a : Nat) (st : TSt) :
    iterGenBed size x a st = iter repaired size x a st := by
  obtain ⟨_, h2, h3, h4, h5, h6, h7⟩ := gen_bed_atoms
  unfold iterGenBed iter
  simp only [h2, h3, h4, h6, h7, repaired, if_true]
  by_cases hu : min ((st.live.getD (newRec a x.v)).start + size) x.e > a
  · have := h5 _ _ ((h4 _ _).trans (decide_eq_true hu))
    simp only [this, hu, decide_true, if_true, decide_eq_true_eq]
  · simp only [hu, decide_false, Bool.false_eq_true, if_false, decide_eq_true_eq]

/-- the loops' exit tests are the model's `a ≥ x.e` -/
theorem gen_tiler_done (a e : Nat) : Gen.wz_done a e = decide (a ≥ e) ∧ Gen.bz_done a e = decide (a ≥ e) :=
  ⟨gen_wig_atoms.done_eq a e, gen_bed_atoms.done_eq a e⟩

/-- when a section of zoom records is handed over: bigWig — all of this value is consumed, nothing is live, it is the
    last value and there are records, or the section is full; bigBed — the section is full (the end-of-input hand-over
    of the bigBed path is structural: `if !records.is_empty()` inside the `next_val.is_none()` branch) -/
theorem gen_zoom_section_flush (a e : Nat) (liveNone isLast recsEmpty : Bool) (n ips : Nat) :
    Gen.wz_flush a e liveNone isLast recsEmpty n ips = ((decide (a ≥ e) && liveNone && isLast && !recsEmpty) || decide (n = ips))
    ∧ Gen.bz_full n ips = decide (n = ips) := by
  delta Gen.wz_flush Gen.bz_full
  constructor <;> first | rfl | grind | (rw [Bool.eq_iff_iff]; atoms_norm; omega)

end Tiler2

namespace Sweep

/-- `bump` assembled from the source's split test (sel = false: summary sweep, true: zoom sweep) -/
def bumpGen (sel : Bool) (itemEnd : Nat) : List Seg → List Seg
  | [] => []
  | o :: rest =>
    if (if sel then Gen.bzs_split itemEnd o.e else Gen.bs_split itemEnd o.e) then
      { o with e := itemEnd, d := o.d + 1 } :: { s := itemEnd, e := o.e, d := o.d } :: rest
    else
      { o with d := o.d + 1 } :: bumpGen sel itemEnd rest

/-- the tail rule assembled from the source's test -/
def tailGen (sel : Bool) (itemStart itemEnd : Nat) (l : List Seg) : List Seg :=
  match l.getLast? with
  | some o => if (if sel then Gen.bzs_tail o.e itemEnd else Gen.bs_tail o.e itemEnd) then l ++ [⟨o.e, itemEnd, 1⟩] else l
  | none => l ++ [⟨itemStart, itemEnd, 1⟩]

/-- the flush loop assembled from the source's two tests -/
def flushGen (sel : Bool) (nextStart : Nat) : Nat → List Seg → List Seg × List Seg
  | 0, l => ([], l)
  | fuel + 1, l =>
    match l with
    | [] => ([], [])
    | f :: rest =>
      if (if sel then Gen.bzs_more f.s nextStart else Gen.bs_more f.s nextStart) then
        if (if sel then Gen.bzs_whole f.e nextStart else Gen.bs_whole f.e nextStart) then
          let (em, rem) := flushGen sel nextStart fuel rest
          (f :: em, rem)
        else
          ([{ f with e := nextStart }], { f with s := nextStart } :: rest)
      else ([], l)

theorem gen_sweep_atoms (a b : Nat) :
    Gen.bs_split a b = decide (a < b) ∧ Gen.bzs_split a b = decide (a < b) ∧
    Gen.bs_tail a b = decide (a < b) ∧ Gen.bzs_tail a b = decide (a < b) ∧
    Gen.bs_more a b = decide (a < b) ∧ Gen.bzs_more a b = decide (a < b) ∧
    Gen.bs_whole a b = decide (a ≤ b) ∧ Gen.bzs_whole a b = decide (a ≤ b) := by
  delta Gen.bs_split Gen.bzs_split Gen.bs_tail Gen.bzs_tail Gen.bs_more Gen.bzs_more Gen.bs_whole Gen.bzs_whole
  refine ⟨?_, ?_, ?_, ?_, ?_, ?_, ?_, ?_⟩ <;>
    first | rfl | grind | (rw [Bool.eq_iff_iff]; atoms_norm; omega)

/-- **Both sweeps' increment-and-split step** is the model's `bump`. -/
theorem gen_bump (sel : Bool) (itemEnd : Nat) (l : List Seg) : bumpGen sel itemEnd l = bump itemEnd l := by
  induction l with
  | nil => rfl
  | cons o rest ih =>
    obtain ⟨h1, h2, _⟩ := gen_sweep_atoms itemEnd o.e
    cases sel <;> simp [bumpGen, bump, h1, h2, ih]

/-- **Both sweeps' tail rule** is the model's `tailZoom` (after the repair of D3 the summary sweep uses the zoom sweep's rule). -/
theorem gen_tail (sel : Bool) (s e : Nat) (l : List Seg) : tailGen sel s e l = tailZoom s e l := by
  unfold tailGen tailZoom
  cases hl : l.getLast? with
  | none => rfl
  | some o =>
    obtain ⟨_, _, h3, h4, _⟩ := gen_sweep_atoms o.e e
    cases sel <;> simp [h3, h4]

/-- **Both sweeps' flush loop** is the model's `flush`. -/
theorem gen_flush (sel : Bool) (nextStart : Nat) : ∀ (fuel : Nat) (l : List Seg), flushGen sel nextStart fuel l = flush nextStart fuel l := by
  intro fuel
  induction fuel with
  | zero => intro l; rfl
  | succ n ih =>
    intro l
    cases l with
    | nil => rfl
    | cons f rest =>
      obtain ⟨_, _, _, _, h5, h6, _, _⟩ := gen_sweep_atoms f.s nextStart
      obtain ⟨_, _, _, _, _, _, h7, h8⟩ := gen_sweep_atoms f.e nextStart
      cases sel <;> simp [flushGen, flush, h5, h6, h7, h8, ih]

/-- the summary sweep's bookkeeping of a flushed piece: the length of a partly flushed piece, and the test that keeps
    zero-length pieces out of the statistics (D16) -/
theorem gen_summary_piece (nextStart s len : Nat) :
    Gen.bs_part_len nextStart s = nextStart - s ∧ Gen.bs_skip len = decide (len = 0) := by
  delta Gen.bs_part_len Gen.bs_skip
  constructor <;> first | rfl | grind | (rw [Bool.eq_iff_iff]; atoms_norm; omega)

end Sweep

namespace SectionCut

/-- **Section cut** of both writers: a section is handed over after the last item of the chromosome or when it holds
    `min items_per_slot 65535` items (`≥`, so a section never exceeds that: the section header's item count is 16 bits
    wide — D22: as found the cut was at `items_per_slot` alone and a larger section lost its items beyond `count mod 65536`). -/
theorem gen_cut (isLast : Bool) (n ips : Nat) :
    Gen.wig_cut isLast n ips = (isLast || decide (n ≥ min ips 65535)) ∧
    Gen.bed_cut isLast n ips = (isLast || decide (n ≥ min ips 65535)) := by
  delta Gen.wig_cut Gen.bed_cut
  constructor <;> first | rfl | grind | (rw [Bool.eq_iff_iff]; atoms_norm; omega)

/-- consequently: the writers hand a section over no later than at 65535 items, whatever `items_per_slot` says
    (items are pushed one at a time and the test runs after every push) -/
theorem gen_cut_fits_u16 (isLast : Bool) (n ips : Nat) (h : n ≥ 65535) :
    Gen.wig_cut isLast n ips = true ∧ Gen.bed_cut isLast n ips = true := by
  obtain ⟨h1, h2⟩ := gen_cut isLast n ips
  rw [h1, h2]
  have : decide (n ≥ min ips 65535) = true := decide_eq_true (by omega)
  simp [this]

/-- the length a bigWig value contributes to the summary -/
theorem gen_wig_len (e s : Nat) : Gen.wig_len e s = e - s := by
  delta Gen.wig_len
  first | rfl | grind | omega

end SectionCut

namespace StepSections

/-- start of the `i`-th item of a fixed-step section, computed as the source does: `curr_start` begins at the section's
    start and advances by the step after every item -/
def fixedStart (start step span : Nat) : Nat → Nat
  | 0 => Gen.fixed_first start
  | i + 1 => fixedStart start step span i + Gen.fixed_advance step span

/-- **Fixed-step and variable-step sections**: item `i` of a fixed-step section is `[start + i·step, start + i·step + span)`,
    an item of a variable-step section is `[s, s + span)` — the expansions the decode theorems (`BBI.decode2`, `BBI.decode3`)
    are stated with. -/
theorem gen_step_items (start step span i s : Nat) :
    fixedStart start step span i = start + i * step ∧ Gen.fixed_end (fixedStart start step span i) span step = start + i * step + span ∧
    Gen.var_end s span step = s + span := by
  have h : ∀ i, fixedStart start step span i = start + i * step := by
    intro i
    induction i with
    | zero => simp only [fixedStart]; delta Gen.fixed_first; first | rfl | grind | omega
    | succ n ih =>
      simp only [fixedStart, ih]; delta Gen.fixed_advance
      first | grind | (rw [Nat.add_mul]; omega)
  refine ⟨h i, ?_, ?_⟩
  · rw [h]; delta Gen.fixed_end; first | rfl | grind | omega
  · delta Gen.var_end; first | rfl | grind | omega

end StepSections

namespace FView

/-- one `read` / `seek` of the view, assembled from the expressions of `file_view.rs` regenerated from the source
    (the assertion `start ≤ new_pos ≤ end` of the `End` arm included) -/
def stepViewGen (file : List Nat) (v : View) : Op → View × Out
  | .read n =>
    let k := Gen.fv_read_len n v.hi v.cur
    ({ v with cur := v.cur + k }, .bytes ((file.drop v.cur).take k))
  | .seek (.start k) =>
    let p := Gen.fv_start_target v.lo v.hi k
    ({ v with cur := p }, .pos (Gen.fv_rel p v.lo))
  | .seek (.fromEnd d) =>
    let p' : Nat := (Gen.fv_end_clamp (Gen.fv_end_pos v.hi (Gen.fv_end_offset d)) v.lo v.hi).toNat
    if v.lo ≤ p' ∧ p' ≤ v.hi then ({ v with cur := p' }, .pos (Gen.fv_rel p' v.lo)) else (v, .panic)
  | .seek (.current d) =>
    let p : Nat := (Gen.fv_cur_clamp (Gen.fv_cur_pos v.cur d) v.lo v.hi).toNat
    ({ v with cur := p }, .pos (Gen.fv_rel p v.lo))

theorem gen_fv_atoms :
    (∀ n hi cur, Gen.fv_read_len n hi cur = min n (hi - cur)) ∧
    (∀ lo hi k, Gen.fv_start_target lo hi k = min hi (lo + k)) ∧
    (∀ p lo, Gen.fv_rel p lo = p - lo) ∧
    (∀ d, Gen.fv_end_offset d = min d 0) ∧
    (∀ hi (d : Int), Gen.fv_end_pos hi d = (hi : Int) + d) ∧
    (∀ (p : Int) lo hi, Gen.fv_end_clamp p lo hi = max p (lo : Int)) ∧
    (∀ cur (d : Int), Gen.fv_cur_pos cur d = (cur : Int) + d) ∧
    (∀ (p : Int) lo hi, lo ≤ hi → (Gen.fv_cur_clamp p lo hi).toNat = clampI p lo hi) := by
  refine ⟨?_, ?_, ?_, ?_, ?_, ?_, ?_, ?_⟩ <;> intros <;>
    delta Gen.fv_read_len Gen.fv_start_target Gen.fv_rel Gen.fv_end_offset Gen.fv_end_pos Gen.fv_end_clamp Gen.fv_cur_pos
      Gen.fv_cur_clamp <;>
    first
    | rfl
    | (unfold clampI; omega)
    | omega
    | grind

/-- **FileView.** Reading and seeking assembled from the source's expressions is the model's `stepView` (repaired variant), for
    every file, window, position and operation — `fileview_refines_slice` (C18) is about `stepView`. -/
theorem gen_fileview_step (file : List Nat) (v : View) (op : Op) (hw : v.lo ≤ v.hi) :
    stepViewGen file v op = stepView true file v op := by
  obtain ⟨h1, h2, h3, h4, h5, h6, h7, h8⟩ := gen_fv_atoms
  cases op with
  | read n => simp only [stepViewGen, stepView, h1]
  | seek w =>
    cases w with
    | start k => simp only [stepViewGen, stepView, h2, h3]
    | fromEnd d => simp only [stepViewGen, stepView, h3, h4, h5, h6, if_true]
    | current d => simp only [stepViewGen, stepView, h3, h7, h8 _ _ _ hw]

end FView

namespace IX

/-- the bisection of `index_chroms` with its arithmetic taken from the source: the stop test, the probe, the "no line starts to
    the right of the probe" test and the upper bounds handed to the three recursive calls -/
def doIndexGen (f : File) : Nat → St → Nat → Option Nat → Nat → Option St
  | 0, _, _, _, _ => none
  | limit + 1, st, prevId, nextId, hi =>
    match find st prevId with
    | none => none
    | some prev =>
      if Gen.ix_stop prev.off hi 0 0 then some st else
      let nextEnt := nextId.bind (find st)
      let m := Gen.ix_probe prev.off hi 0 0
      let tell := lineEndAfter 0 f m
      if Gen.ix_nothing_right prev.off hi m tell then
        doIndexGen f limit st prevId nextId (Gen.ix_retry_limit prev.off hi m tell)
      else
        match chromAt 0 f tell with
        | none => some st
        | some chrom =>
          let (st1, currId) := insertAfter st prevId tell chrom
          let left : Bool := decide (chrom ≠ prev.chrom)
          let right : Bool := match nextEnt with
            | some n => decide (chrom ≠ n.chrom)
            | none => true
          let st2 := if left then doIndexGen f limit st1 prevId (some currId) (Gen.ix_left_limit prev.off hi m tell) else some st1
          st2.bind fun s => if right then doIndexGen f limit s currId nextId (Gen.ix_right_limit prev.off hi m tell) else some s

theorem gen_ix_atoms (p hi m t x y : Nat) :
    Gen.ix_stop p hi x y = decide (hi ≤ p + 1) ∧ Gen.ix_probe p hi x y = p + (hi - p - 1) / 2 ∧
    Gen.ix_nothing_right p hi m t = decide (t ≥ hi) ∧ Gen.ix_retry_limit p hi m t = m + 1 ∧
    Gen.ix_left_limit p hi m t = t ∧ Gen.ix_right_limit p hi m t = hi := by
  delta Gen.ix_stop Gen.ix_probe Gen.ix_nothing_right Gen.ix_retry_limit Gen.ix_left_limit Gen.ix_right_limit
  refine ⟨?_, ?_, ?_, ?_, ?_, ?_⟩ <;> first | rfl | omega | grind | (rw [Bool.eq_iff_iff]; atoms_norm; omega)

/-- **Chromosome bisection.** `do_index` with the source's arithmetic is the model's repaired bisection `doIndexFixed` — the
    function `index_is_first_line_of_every_run` (C18) is about — for every file, depth budget, list state and bounds. -/
theorem gen_index_bisection (f : File) : ∀ (fuel : Nat) (st : St) (prevId : Nat) (nextId : Option Nat) (hi : Nat),
    doIndexGen f fuel st prevId nextId hi = doIndexFixed f fuel st prevId nextId hi := by
  intro fuel
  induction fuel with
  | zero => intros; rfl
  | succ n ih =>
    intro st prevId nextId hi
    unfold doIndexGen doIndexFixed
    cases hp : find st prevId with
    | none => rfl
    | some prev =>
      have a := fun m t => gen_ix_atoms prev.off hi m t 0 0
      simp only [(a 0 0).1, (a 0 0).2.1, fun m t => (a m t).2.2.1, fun m t => (a m t).2.2.2.1, fun m t => (a m t).2.2.2.2.1,
        fun m t => (a m t).2.2.2.2.2, ih, decide_eq_true_eq]
      first | rfl | (split <;> first | rfl | (split <;> first | rfl | (split <;> rfl)))

end IX

namespace CH

/-- the chunking loop with the source's arithmetic: after the cut at the next line end, the tuple update, the clamp to the file
    size and the exit test -/
def loopGen (ls : List Nat) (fileSize chunks chunkSize : Nat) : Nat → Nat → Nat → List (Nat × Nat)
  | 0, _, _ => []
  | fuel + 1, start, end_ =>
    let lineEnd := lineEndAfter 0 ls end_
    let start' := Gen.ch_next_start fileSize chunks chunkSize start lineEnd
    let raw := Gen.ch_next_end_raw fileSize chunks chunkSize start lineEnd
    let end' := Gen.ch_clamp_end fileSize chunks chunkSize start' raw
    (start, lineEnd) :: (if Gen.ch_done fileSize chunks chunkSize start' end' then [] else loopGen ls fileSize chunks chunkSize fuel start' end')

def splitGen (ls : List Nat) (chunks : Nat) : List (Nat × Nat) :=
  let fileSize := size ls
  let chunkSize := Gen.ch_size fileSize chunks 0 0 0
  loopGen ls fileSize chunks chunkSize (fileSize + 1) 0 (Gen.ch_first_end fileSize chunks chunkSize 0 0)

theorem gen_ch_atoms (fs n cs a b : Nat) :
    Gen.ch_size fs n cs a b = fs / n ∧ Gen.ch_first_end fs n cs a b = cs ∧ Gen.ch_next_start fs n cs a b = b ∧
    Gen.ch_next_end_raw fs n cs a b = max b (a + cs + cs) ∧ Gen.ch_clamp_end fs n cs a b = min b fs ∧
    Gen.ch_done fs n cs a b = decide (a ≥ fs) := by
  delta Gen.ch_size Gen.ch_first_end Gen.ch_next_start Gen.ch_next_end_raw Gen.ch_clamp_end Gen.ch_done
  refine ⟨?_, ?_, ?_, ?_, ?_, ?_⟩ <;> first | rfl | omega | grind | (rw [Bool.eq_iff_iff]; atoms_norm; omega)

/-- **Size-based chunking.** `split_file_into_chunks_by_size` with the source's arithmetic is the model's `split` — the function
    `chunks_cover_exactly_once_at_line_starts` and `chunks_partition_lines` (C18, C17) are about. -/
theorem gen_chunker (ls : List Nat) (chunks : Nat) : splitGen ls chunks = split ls chunks := by
  have hl : ∀ (fs cs fuel a b : Nat), loopGen ls fs chunks cs fuel a b = loop ls fs cs fuel a b := by
    intro fs cs fuel
    induction fuel with
    | zero => intros; rfl
    | succ n ih =>
      intro a b
      have h := fun x y => gen_ch_atoms fs chunks cs x y
      simp only [loopGen, loop, (h _ _).2.2.1, (h _ _).2.2.2.1, (h _ _).2.2.2.2.1, (h _ _).2.2.2.2.2, ih, decide_eq_true_eq]
  unfold splitGen split
  simp only [(gen_ch_atoms _ _ _ _ _).1, (gen_ch_atoms _ _ _ _ _).2.1, hl]

end CH

/-! ### Summary statistics: what one value / one coverage piece adds, and where the running extrema start -/

namespace SF

/-- `process_val` of the bigWig writers on one value, assembled from the source's update expressions. The running
    minimum / maximum start from the constants the source names (`gen_extrema_start`: the largest / smallest finite `f64`,
    which every value is below / above — the model's `none`). -/
def stepGen (r : Run) (x : Val) : Run :=
  let l : Int := (len x : Nat)
  { items := r.items + 1, bases := r.bases + (Gen.ws_bases_add l x.v 0 0).toNat,
    mn := match r.mn with | none => some x.v | some m => some (Gen.ws_min l x.v m 0),
    mx := match r.mx with | none => some x.v | some m => some (Gen.ws_max l x.v 0 m),
    sum := r.sum + Gen.ws_sum_add l x.v 0 0, sumsq := r.sumsq + Gen.ws_sumsq_add l x.v 0 0 }

theorem gen_wig_summary_atoms (l v a b : Int) :
    Gen.ws_bases_add l v a b = l ∧ Gen.ws_sum_add l v a b = l * v ∧ Gen.ws_sumsq_add l v a b = l * v * v ∧
    Gen.ws_min l v a b = min a v ∧ Gen.ws_max l v a b = max b v := by
  delta Gen.ws_bases_add Gen.ws_sum_add Gen.ws_sumsq_add Gen.ws_min Gen.ws_max
  refine ⟨?_, ?_, ?_, ?_, ?_⟩ <;> first | rfl | omega | grind

/-- **bigWig summary.** One step of the summary fold with the source's expressions is the model's `step` — the fold
    `C06_wig_chromosome_summary` and `C06_wig_total_summary` are about. -/
theorem gen_wig_summary_step (r : Run) (x : Val) : stepGen r x = step r x := by
  have h := fun a b => gen_wig_summary_atoms ((len x : Nat) : Int) x.v a b
  unfold stepGen step
  simp only [(h _ _).1, (h _ _).2.1, (h _ _).2.2.1, (h _ _).2.2.2.1, (h _ _).2.2.2.2, Int.toNat_natCast]
  cases r.mn <;> cases r.mx <;> rfl

/-- the running extrema of both bigWig writers (single pass and two pass) and of the per-region statistics start from the
    largest finite `f64` (minimum) and the smallest (maximum) -/
theorem gen_extrema_start :
    Gen.ws_min_init_full = .posMax ∧ Gen.ws_max_init_full = .negMax ∧ Gen.ws_min_init_nozoom = .posMax ∧
    Gen.ws_max_init_nozoom = .negMax ∧ Gen.st_min_init = .posMax ∧ Gen.st_max_init = .negMax := by
  delta Gen.ws_min_init_full Gen.ws_max_init_full Gen.ws_min_init_nozoom Gen.ws_max_init_nozoom Gen.st_min_init Gen.st_max_init
  refine ⟨?_, ?_, ?_, ?_, ?_, ?_⟩ <;> first | rfl | decide

end SF

namespace BSUM
open SW

/-- the summary update of the bigBed writer for one flushed piece of positive length, as the source writes it: the first
    piece seeds the summary, later ones are added -/
def addSeg (st : Option Sm) (g : Seg) : Option Sm :=
  let len := g.e - g.s
  match st with
  | none => some ⟨len, len * g.d, len * g.d * g.d, g.d, g.d⟩
  | some t => some ⟨t.bases + len, t.sum + len * g.d, t.sumsq + len * g.d * g.d, min t.mn g.d, max t.mx g.d⟩

/-- … the same, assembled from the expressions regenerated from the source -/
def addSegGen (st : Option Sm) (g : Seg) : Option Sm :=
  let l : Int := ((g.e - g.s : Nat) : Int)
  let d : Int := (g.d : Nat)
  match st with
  | none => some ⟨(Gen.bs_first_bases l d 0 0).toNat, (Gen.bs_first_sum l d 0 0).toNat, (Gen.bs_first_sumsq l d 0 0).toNat,
                  (Gen.bs_first_min l d 0 0).toNat, (Gen.bs_first_max l d 0 0).toNat⟩
  | some t => some ⟨t.bases + (Gen.bs_bases_add l d 0 0).toNat, t.sum + (Gen.bs_sum_add l d 0 0).toNat,
                    t.sumsq + (Gen.bs_sumsq_add l d 0 0).toNat, (Gen.bs_min l d t.mn 0).toNat, (Gen.bs_max l d 0 t.mx).toNat⟩

theorem gen_bed_summary_atoms (l v a b : Int) :
    Gen.bs_first_bases l v a b = l ∧ Gen.bs_first_sum l v a b = l * v ∧ Gen.bs_first_sumsq l v a b = l * v * v ∧
    Gen.bs_first_min l v a b = v ∧ Gen.bs_first_max l v a b = v ∧
    Gen.bs_bases_add l v a b = l ∧ Gen.bs_sum_add l v a b = l * v ∧ Gen.bs_sumsq_add l v a b = l * v * v ∧
    Gen.bs_min l v a b = min a v ∧ Gen.bs_max l v a b = max b v := by
  delta Gen.bs_first_bases Gen.bs_first_sum Gen.bs_first_sumsq Gen.bs_first_min Gen.bs_first_max Gen.bs_bases_add Gen.bs_sum_add
    Gen.bs_sumsq_add Gen.bs_min Gen.bs_max
  refine ⟨?_, ?_, ?_, ?_, ?_, ?_, ?_, ?_, ?_, ?_⟩ <;> first | rfl | omega | grind

theorem toNat_mul2 (a b : Nat) : ((a : Int) * (b : Int)).toNat = a * b := by
  rw [← Int.natCast_mul]; exact Int.toNat_natCast _
theorem toNat_mul3 (a b : Nat) : ((a : Int) * (b : Int) * (b : Int)).toNat = a * b * b := by
  rw [← Int.natCast_mul, ← Int.natCast_mul]; exact Int.toNat_natCast _
theorem toNat_min (a b : Nat) : (min (a : Int) (b : Int)).toNat = min a b := by omega
theorem toNat_max (a b : Nat) : (max (a : Int) (b : Int)).toNat = max a b := by omega

/-- **bigBed summary update** with the source's expressions is `addSeg` -/
theorem gen_bed_summary_step (st : Option Sm) (g : Seg) : addSegGen st g = addSeg st g := by
  have h := fun a b => gen_bed_summary_atoms ((g.e - g.s : Nat) : Int) (g.d : Nat) a b
  unfold addSegGen addSeg
  cases st with
  | none =>
    simp only [(h _ _).1, (h _ _).2.1, (h _ _).2.2.1, (h _ _).2.2.2.1, (h _ _).2.2.2.2.1, Int.toNat_natCast, toNat_mul2, toNat_mul3]
  | some t =>
    simp only [(h _ _).2.2.2.2.2.1, (h _ _).2.2.2.2.2.2.1, (h _ _).2.2.2.2.2.2.2.1, (h _ _).2.2.2.2.2.2.2.2.1,
      (h _ _).2.2.2.2.2.2.2.2.2, Int.toNat_natCast, toNat_mul2, toNat_mul3, toNat_min, toNat_max]

theorem foldl_addSeg_some (l : List Seg) : ∀ (t : Sm), l.foldl addSeg (some t) =
    some ⟨t.bases + (l.map fun g => g.e - g.s).sum, t.sum + (l.map fun g => (g.e - g.s) * g.d).sum,
          t.sumsq + (l.map fun g => (g.e - g.s) * g.d * g.d).sum, (l.map (·.d)).foldl min t.mn, (l.map (·.d)).foldl max t.mx⟩ := by
  induction l with
  | nil => intro t; simp
  | cons g rest ih =>
    intro t
    simp only [List.foldl_cons, addSeg, ih, List.map_cons, List.sum_cons]
    congr 2 <;> omega

/-- folding `addSeg` over the pieces of positive length a chromosome's sweep emits gives the chromosome summary `ofSegs` the
    theorems of C06 are about (`C06_bed_bases_covered`, `…_sum`, `…_sum_squares`, `…_min_max`, the cross-chromosome merge) -/
theorem foldl_addSeg_eq_ofSegs (l : List Seg) (hpos : ∀ g ∈ l, g.s < g.e) (hne : l ≠ []) :
    l.foldl addSeg none = some (ofSegs l) := by
  have hp : pos l = l := List.filter_eq_self.mpr (by intro g hg; simpa using hpos g hg)
  cases l with
  | nil => exact absurd rfl hne
  | cons g rest =>
    unfold ofSegs
    rw [hp]
    simp only [List.foldl_cons, addSeg, foldl_addSeg_some, List.map_cons, List.sum_cons, minD, maxD, Nat.zero_max]

end BSUM

namespace ST

/-- the accumulation of `stats_for_bed_item` over one clipped value -/
theorem gen_region_stats_atoms (n v a b : Int) :
    Gen.st_bases_add n v a b = n ∧ Gen.st_sum_add n v a b = n * v ∧ Gen.st_min n v a b = min a v ∧ Gen.st_max n v a b = max b v := by
  delta Gen.st_bases_add Gen.st_sum_add Gen.st_min Gen.st_max
  refine ⟨?_, ?_, ?_, ?_⟩ <;> first | rfl | omega | grind

end ST

namespace ZL

/-- **Automatic zoom levels (D24).** Both writers take `min max_zooms MAX_ZOOM_LEVELS` candidate resolutions (regenerated from the
    two `.take(…)` of bbiwrite.rs), each candidate `factor = 4` times the previous one (checked multiplication: the list ends
    before a resolution would overflow 32 bits). With `MAX_ZOOM_LEVELS` = the zoom directory's ten slots (`Gen.MAX_ZOOM_LEVELS`,
    re-extracted): whatever `max_zooms` is, at most ten levels are listed, and the candidates are the strictly increasing
    `autoSizes` of `C07_auto_candidates_strictly_increasing`. -/
theorem gen_auto_zoom_count (maxZooms : Nat) :
    Gen.zl_count_single maxZooms Gen.MAX_ZOOM_LEVELS = min maxZooms 10 ∧ Gen.zl_count_two maxZooms Gen.MAX_ZOOM_LEVELS = min maxZooms 10 ∧
    Gen.zl_factor = 4 ∧ Gen.zl_count_single maxZooms Gen.MAX_ZOOM_LEVELS ≤ 10 ∧ Gen.zl_count_two maxZooms Gen.MAX_ZOOM_LEVELS ≤ 10 := by
  delta Gen.zl_count_single Gen.zl_count_two Gen.zl_factor Gen.MAX_ZOOM_LEVELS
  refine ⟨?_, ?_, ?_, ?_, ?_⟩ <;> first | rfl | omega | grind

theorem autoSizes_length (initial : Nat) : ∀ n, (autoSizes initial n).length = n := by
  intro n
  induction n generalizing initial with
  | zero => rfl
  | succ n ih => simp [autoSizes, ih]

end ZL

namespace PYC

/-- **The array routines of the Python bindings convert integers to `f64` only.** `Gen.pyb_conv_* x` lists, in source order, the value
    of `x` after each `as f32` / `as f64` in `to_array`, `to_array_bins`, `to_entry_array`, `to_entry_array_bins` (regenerated from
    pybigtools/src/lib.rs on every run). For a 32-bit coordinate, offset, bin index or count every one of them is `x` itself —
    `FR.f64_exact_u32` — which is what entitles the model (`PyBase`, `PyBinsProof`, `PyBedBinsProof`) to compute bin borders and bin
    membership from exact integers. A conversion through `f32` anywhere in these four functions fails this obligation; the search
    program then exhibits `x = 2^24 + 1` (S120). -/
theorem gen_py_conversions_exact (x : Nat) (h : x < 2 ^ 32) :
    (Gen.pyb_conv_to_array x ++ Gen.pyb_conv_to_array_bins x ++ Gen.pyb_conv_to_entry_array x ++
      Gen.pyb_conv_to_entry_array_bins x).all (· == x) = true := by
  simp [Gen.pyb_conv_to_array, Gen.pyb_conv_to_array_bins, Gen.pyb_conv_to_entry_array, Gen.pyb_conv_to_entry_array_bins,
    FR.f64_exact_u32 x h]

end PYC
