import BigtoolsModel.AtomsTiler
import BigtoolsModel.AtomsSweep
import BigtoolsModel.AtomsCut
import BigtoolsModel.AtomsStep
import BigtoolsModel.AtomsFView
import BigtoolsModel.AtomsIX
import BigtoolsModel.AtomsCH
import BigtoolsModel.AtomsSF
import BigtoolsModel.AtomsBSUM
import BigtoolsModel.AtomsST
import BigtoolsModel.AtomsZL
import BigtoolsModel.AtomsRB
import BigtoolsModel.AtomsTB
import BigtoolsModel.AtomsBytes
import BigtoolsModel.AtomsSearch
/-! Umbrella: the obligations on the expressions regenerated from the Rust source, one module per group (`Atoms*.lean`), so that a
    property depends only on the groups its theorems use. -/
