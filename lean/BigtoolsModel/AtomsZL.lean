import BigtoolsModel.Tiler2
import BigtoolsModel.Sweep
import BigtoolsModel.FView
import BigtoolsModel.IndexerFix
import BigtoolsModel.Chunker
import BigtoolsModel.SummaryFold
import BigtoolsModel.BedSummary
import BigtoolsModel.Stats2
import BigtoolsModel.ZoomLevels
import BigtoolsModel.AtomsNorm
namespace ZL

/-- **Automatic zoom levels (D24).** Both writers take `min max_zooms MAX_ZOOM_LEVELS` candidate resolutions (regenerated from the
    two `.take(…)` of bbiwrite.rs), each candidate `factor = 4` times the previous one (checked multiplication: the list ends
    before a resolution would overflow 32 bits). With `MAX_ZOOM_LEVELS` = the zoom directory's ten slots (`Gen.MAX_ZOOM_LEVELS`,
    re-extracted): whatever `max_zooms` is, at most ten levels are listed, and the candidates are the strictly increasing
    `autoSizes` of `C07_auto_candidates_strictly_increasing`. -/
theorem gen_auto_zoom_count (maxZooms : Nat) :
    Gen.zl_count_single maxZooms Gen.MAX_ZOOM_LEVELS = min maxZooms 10 ∧ Gen.zl_count_two maxZooms Gen.MAX_ZOOM_LEVELS = min maxZooms 10 ∧
    Gen.zl_factor = 4 ∧ Gen.zl_count_single maxZooms Gen.MAX_ZOOM_LEVELS ≤ 10 ∧ Gen.zl_count_two maxZooms Gen.MAX_ZOOM_LEVELS ≤ 10 := by
  delta Gen.zl_count_single Gen.zl_count_two Gen.zl_factor Gen.MAX_ZOOM_LEVELS
  refine ⟨?_, ?_, ?_, ?_, ?_⟩ <;> first | rfl | omega | grind

theorem autoSizes_length (initial : Nat) : ∀ n, (autoSizes initial n).length = n := by
  intro n
  induction n generalizing initial with
  | zero => rfl
  | succ n ih => simp [autoSizes, ih]

end ZL
