/-! Probe (C20): the exact-bin routine `to_array_bins` (bigWig values; repaired mean guard) for integral bin
    widths, in a representation that keeps the deque of live bins as "first live index + cells" (the deque is
    contiguous by construction: bins are pushed with consecutive indices and popped from the front only).
    Theorem: for sorted disjoint non-empty values inside the range, no write is out of bounds and every bin
    reports `flush` of the accumulation over exactly the values overlapping it — mean = Σ overlap·v / Σ overlap,
    min / max over the overlapping values, `missing` when none overlaps. -/
namespace PBP

inductive Summary where | mean | min | max deriving Repr, DecidableEq

structure Acc where
  c : Nat
  a : Int
deriving Repr, DecidableEq

inductive Res where
  | missing
  | val (num : Int) (den : Nat)
deriving Repr, DecidableEq

structure Item where
  s : Nat
  e : Nat
  v : Int
deriving Repr, DecidableEq

/-- bases of `[s,e)` inside bin `k` of width `w` -/
def ov (w s e k : Nat) : Nat := min ((k + 1) * w) e - max (k * w) s

def accum (sm : Summary) (w : Nat) (x : Item) (k : Nat) (d : Option Acc) : Acc :=
  match sm with
  | .mean => ⟨(d.getD ⟨0, 0⟩).c + ov w x.s x.e k, (d.getD ⟨0, 0⟩).a + (ov w x.s x.e k : Int) * x.v⟩
  | .min => match d with
    | none => ⟨0, x.v⟩
    | some d0 => ⟨d0.c, min d0.a x.v⟩
  | .max => match d with
    | none => ⟨0, x.v⟩
    | some d0 => ⟨d0.c, max d0.a x.v⟩

def flush (sm : Summary) (d : Option Acc) : Res :=
  match d with
  | none => .missing
  | some d0 =>
    match sm with
    | .mean => if d0.c = 0 then .missing else .val d0.a d0.c
    | _ => .val d0.a 1

structure St where
  first : Nat
  cells : List (Option Acc)
  out : List Res

/-- `while front.idx < bin_start { pop_front; v[bin] = … }`, at most `n` times; `none` = index panic -/
def popN (sm : Summary) : Nat → St → Option St
  | 0, st => some st
  | n + 1, st =>
    match st.cells with
    | [] => some st
    | c :: cs =>
      if st.first < st.out.length then popN sm n ⟨st.first + 1, cs, st.out.set st.first (flush sm c)⟩
      else none

def accumGo (sm : Summary) (w : Nat) (x : Item) : Nat → List (Option Acc) → List (Option Acc)
  | _, [] => []
  | k, c :: cs => if x.e ≤ k * w then c :: cs else some (accum sm w x k c) :: accumGo sm w x (k + 1) cs

def step (sm : Summary) (w : Nat) (st : St) (x : Item) : Option St :=
  let bs := x.s / w
  let be := (x.e - 1) / w
  match popN sm (bs - st.first) st with
  | none => none
  | some st1 =>
    let fc : Nat × List (Option Acc) :=
      if st1.cells = [] then (bs, List.replicate (max 1 (be + 1 - bs)) none)
      else (st1.first, st1.cells ++ List.replicate (be + 1 - (st1.first + st1.cells.length)) none)
    some ⟨fc.1, accumGo sm w x fc.1 fc.2, st1.out⟩

def run (sm : Summary) (w nb : Nat) (vals : List Item) : Option (List Res) :=
  let rec go : List Item → St → Option St
    | [], st => some st
    | x :: xs, st => match step sm w st x with
      | none => none
      | some st' => go xs st'
  match go vals ⟨0, [], List.replicate nb .missing⟩ with
  | none => none
  | some st => (popN sm st.cells.length st).map (·.out)

/-! ### specification -/

def accSpec (sm : Summary) (w : Nat) (P : List Item) (k : Nat) : Option Acc :=
  P.foldl (fun d x => if 0 < ov w x.s x.e k then some (accum sm w x k d) else d) none

theorem accSpec_snoc (sm : Summary) (w : Nat) (P : List Item) (x : Item) (k : Nat) :
    accSpec sm w (P ++ [x]) k =
      if 0 < ov w x.s x.e k then some (accum sm w x k (accSpec sm w P k)) else accSpec sm w P k := by
  simp [accSpec, List.foldl_append]

/-! ### arithmetic of integral bins -/

theorem ov_pos_iff (w : Nat) (hw : 0 < w) (s e k : Nat) (hse : s < e) :
    0 < ov w s e k ↔ s / w ≤ k ∧ k ≤ (e - 1) / w := by
  unfold ov
  have h1 : s / w ≤ k ↔ s < (k + 1) * w := by
    rw [← Nat.lt_succ_iff, Nat.div_lt_iff_lt_mul hw]
  have h2 : k ≤ (e - 1) / w ↔ k * w < e := by
    rw [Nat.le_div_iff_mul_le hw]; omega
  rw [h1, h2]
  have hA : (k + 1) * w = k * w + w := Nat.succ_mul k w
  generalize (k + 1) * w = A at *
  generalize k * w = B at *
  omega

/-! ### the pieces of one step -/

/-- what `popN` does when every write is in bounds -/
theorem popN_spec (sm : Summary) : ∀ (n : Nat) (st : St), st.first + st.cells.length ≤ st.out.length →
    ∃ out', popN sm n st = some ⟨st.first + min n st.cells.length, st.cells.drop (min n st.cells.length), out'⟩ ∧
      out'.length = st.out.length ∧
      (∀ k, (k < st.first ∨ st.first + min n st.cells.length ≤ k) → out'[k]? = st.out[k]?) ∧
      (∀ i (hi : i < st.cells.length), i < min n st.cells.length →
        out'[st.first + i]? = some (flush sm (st.cells[i]))) := by
  intro n
  induction n with
  | zero =>
    intro st _
    exact ⟨st.out, by simp [popN], rfl, fun _ _ => rfl, fun i _ h => by simp at h⟩
  | succ n ih =>
    intro st hb
    obtain ⟨first, cells, out⟩ := st
    cases cells with
    | nil => exact ⟨out, by simp [popN], rfl, fun _ _ => rfl, fun i h _ => by simp at h⟩
    | cons c cs =>
      simp only [List.length_cons] at hb
      have hlt : first < out.length := by omega
      simp only [popN, hlt, if_true]
      obtain ⟨out', h1, h2, h3, h4⟩ := ih ⟨first + 1, cs, out.set first (flush sm c)⟩
        (by simp only [List.length_set]; omega)
      dsimp only at h1 h2 h3 h4
      simp only [List.length_set] at h2
      have hmin : min (n + 1) (c :: cs).length = min n cs.length + 1 := by simp only [List.length_cons]; omega
      refine ⟨out', ?_, h2, ?_, ?_⟩
      · rw [h1]
        simp only [hmin, List.drop_succ_cons]
        rw [show first + 1 + min n cs.length = first + (min n cs.length + 1) by omega]
      · intro k hk
        rw [hmin] at hk
        rw [h3 k (by omega)]
        simp only [List.getElem?_set]
        have : first ≠ k := by omega
        simp [this]
      · intro i hil hi
        cases i with
        | zero =>
          simp only [Nat.add_zero, List.getElem_cons_zero]
          rw [h3 first (by left; omega)]
          simp [hlt]
        | succ i =>
          have hi' : i < min n cs.length := by omega
          have := h4 i (by simpa using hil) hi'
          simp only [List.getElem_cons_succ]
          rw [← this]
          congr 1; omega

/-- no bin in range lies at or beyond the value's end: the accumulation loop visits every cell -/
theorem accumGo_all (sm : Summary) (w : Nat) (x : Item) : ∀ (cells : List (Option Acc)) (k : Nat),
    (∀ i, i < cells.length → (k + i) * w < x.e) →
    accumGo sm w x k cells = cells.mapIdx fun i c => some (accum sm w x (k + i) c) := by
  intro cells
  induction cells with
  | nil => intro k _; rfl
  | cons c cs ih =>
    intro k h
    have h0 := h 0 (by simp)
    simp only [Nat.add_zero] at h0
    simp only [accumGo, show ¬ x.e ≤ k * w by omega, if_false, List.mapIdx_cons, Nat.add_zero]
    rw [ih (k + 1) (fun i hi => by have := h (i + 1) (by simpa using hi); rwa [show k + 1 + i = k + (i + 1) by omega])]
    congr 1
    apply List.ext_getElem
    · simp
    · intro i h1 h2
      simp only [List.getElem_mapIdx]
      rw [show k + 1 + i = k + (i + 1) by omega]

/-! ### the invariant -/

structure Inv (sm : Summary) (w nb : Nat) (P : List Item) (lim : Nat) (st : St) : Prop where
  hout : st.out.length = nb
  hB : st.first + st.cells.length ≤ nb
  hcells : ∀ i (h : i < st.cells.length), st.cells[i] = accSpec sm w P (st.first + i)
  hdone : ∀ k, k < st.first → k < nb → st.out[k]? = some (flush sm (accSpec sm w P k))
  hrest : ∀ k, st.first ≤ k → k < nb → st.out[k]? = some .missing
  hnone : ∀ k, st.first + st.cells.length ≤ k → accSpec sm w P k = none
  hlast : st.cells ≠ [] → 0 < lim ∧ (lim - 1) / w + 1 = st.first + st.cells.length
  hempty : st.cells = [] → st.first = 0

theorem inv_init (sm : Summary) (w nb : Nat) : Inv sm w nb [] 0 ⟨0, [], List.replicate nb .missing⟩ where
  hout := by simp
  hB := by simp
  hcells := by intro i h; simp at h
  hdone := by intro k h; exact absurd h (Nat.not_lt_zero k)
  hrest := by intro k _ hk; simp [hk]
  hnone := by intro k _; rfl
  hlast := by intro h; simp at h
  hempty := by intro _; rfl

/-- old bins are not touched by a later value -/
theorem acc_before (sm : Summary) (w : Nat) (hw : 0 < w) (P : List Item) (x : Item) (hx : x.s < x.e) (k : Nat)
    (hk : k < x.s / w) : accSpec sm w (P ++ [x]) k = accSpec sm w P k := by
  rw [accSpec_snoc, if_neg]
  rw [ov_pos_iff w hw x.s x.e k hx]; omega

theorem acc_after (sm : Summary) (w : Nat) (hw : 0 < w) (P : List Item) (x : Item) (hx : x.s < x.e) (k : Nat)
    (hk : (x.e - 1) / w < k) : accSpec sm w (P ++ [x]) k = accSpec sm w P k := by
  rw [accSpec_snoc, if_neg]
  rw [ov_pos_iff w hw x.s x.e k hx]; omega

theorem acc_inside (sm : Summary) (w : Nat) (hw : 0 < w) (P : List Item) (x : Item) (hx : x.s < x.e) (k : Nat)
    (h1 : x.s / w ≤ k) (h2 : k ≤ (x.e - 1) / w) :
    accSpec sm w (P ++ [x]) k = some (accum sm w x k (accSpec sm w P k)) := by
  rw [accSpec_snoc, if_pos]
  rw [ov_pos_iff w hw x.s x.e k hx]; exact ⟨h1, h2⟩

theorem inside_lt_end (w : Nat) (hw : 0 < w) (x : Item) (hx : x.s < x.e) (k : Nat) (h2 : k ≤ (x.e - 1) / w) :
    k * w < x.e := by
  have := Nat.div_mul_le_self (x.e - 1) w
  have := Nat.mul_le_mul_right w h2
  omega

/-- the common end of a step: the live cells cover exactly bins `bs..be` and hold the accumulation over `P` -/
theorem finish_step (sm : Summary) (w nb : Nat) (hw : 0 < w) (P : List Item) (x : Item) (hx : x.s < x.e)
    (cells2 : List (Option Acc)) (out' : List Res)
    (hbe : (x.e - 1) / w < nb)
    (c2 : ∀ i (h : i < cells2.length), cells2[i] = accSpec sm w P (x.s / w + i))
    (len2 : x.s / w + cells2.length = (x.e - 1) / w + 1)
    (o1 : out'.length = nb)
    (o2 : ∀ k, k < x.s / w → k < nb → out'[k]? = some (flush sm (accSpec sm w P k)))
    (o3 : ∀ k, x.s / w ≤ k → k < nb → out'[k]? = some .missing)
    (hafter : ∀ k, (x.e - 1) / w < k → accSpec sm w P k = none) :
    Inv sm w nb (P ++ [x]) x.e ⟨x.s / w, accumGo sm w x (x.s / w) cells2, out'⟩ := by
  have hall : accumGo sm w x (x.s / w) cells2 = cells2.mapIdx fun i c => some (accum sm w x (x.s / w + i) c) :=
    accumGo_all sm w x cells2 (x.s / w) (fun i hi => inside_lt_end w hw x hx _ (by omega))
  have hlen : (accumGo sm w x (x.s / w) cells2).length = cells2.length := by rw [hall]; simp
  refine ⟨o1, ?_, ?_, ?_, o3, ?_, ?_, ?_⟩
  · show x.s / w + (accumGo sm w x (x.s / w) cells2).length ≤ nb
    rw [hlen]; omega
  · intro i h
    have hi : i < cells2.length := by rw [← hlen]; exact h
    show (accumGo sm w x (x.s / w) cells2)[i] = _
    simp only [hall, List.getElem_mapIdx]
    rw [acc_inside sm w hw P x hx _ (by omega) (by omega), c2 i hi]
  · intro k hk hn
    show out'[k]? = _
    rw [o2 k hk hn, acc_before sm w hw P x hx k hk]
  · intro k hk
    have hk' : (x.e - 1) / w < k := by
      have : x.s / w + (accumGo sm w x (x.s / w) cells2).length ≤ k := hk
      rw [hlen] at this; omega
    rw [acc_after sm w hw P x hx k hk', hafter k hk']
  · intro _
    refine ⟨by omega, ?_⟩
    show (x.e - 1) / w + 1 = x.s / w + (accumGo sm w x (x.s / w) cells2).length
    rw [hlen]; omega
  · intro h
    have : (accumGo sm w x (x.s / w) cells2).length = 0 := by
      have : accumGo sm w x (x.s / w) cells2 = [] := h
      rw [this]; rfl
    have hdiv : x.s / w ≤ (x.e - 1) / w := Nat.div_le_div_right (by omega)
    rw [hlen] at this
    omega

theorem step_inv (sm : Summary) (w nb : Nat) (hw : 0 < w) (P : List Item) (lim : Nat) (st : St) (x : Item)
    (hinv : Inv sm w nb P lim st) (h1 : lim ≤ x.s) (hx : x.s < x.e) (h3 : x.e ≤ nb * w) :
    ∃ st', step sm w st x = some st' ∧ Inv sm w nb (P ++ [x]) x.e st' := by
  obtain ⟨first, cells, out⟩ := st
  obtain ⟨hout, hB, hcells, hdone, hrest, hnone, hlast, hempty⟩ := hinv
  dsimp only at hout hB hcells hdone hrest hnone hlast hempty
  have hbsbe : x.s / w ≤ (x.e - 1) / w := Nat.div_le_div_right (by omega)
  have hbe : (x.e - 1) / w < nb := by rw [Nat.div_lt_iff_lt_mul hw]; omega
  have hcase : first + cells.length ≤ x.s / w ∨ (cells ≠ [] ∧ x.s / w + 1 = first + cells.length) := by
    by_cases hc : cells = []
    · left; rw [hempty hc, hc]; simp
    · obtain ⟨hl0, hl⟩ := hlast hc
      have : (lim - 1) / w ≤ x.s / w := Nat.div_le_div_right (by omega)
      by_cases hle : first + cells.length ≤ x.s / w
      · left; exact hle
      · right; exact ⟨hc, by omega⟩
  obtain ⟨out', hpop, ho1, ho2, ho3⟩ := popN_spec sm (x.s / w - first) ⟨first, cells, out⟩ (by dsimp only; omega)
  dsimp only at hpop ho1 ho2 ho3
  have hafter : ∀ k, (x.e - 1) / w < k → accSpec sm w P k = none := by
    intro k hk
    apply hnone
    rcases hcase with h | ⟨_, h⟩ <;> omega
  rcases hcase with hleft | ⟨hne, hright⟩
  · -- every live bin is finished; the new value opens bins `bs..be`
    have hm : min (x.s / w - first) cells.length = cells.length := by omega
    rw [hm] at hpop ho2 ho3
    refine ⟨⟨x.s / w, accumGo sm w x (x.s / w) (List.replicate ((x.e - 1) / w + 1 - x.s / w) none), out'⟩, ?_, ?_⟩
    · simp only [step, hpop, List.drop_length, if_true]
      rw [show max 1 ((x.e - 1) / w + 1 - x.s / w) = (x.e - 1) / w + 1 - x.s / w by omega]
    · refine finish_step sm w nb hw P x hx _ out' hbe ?_ (by simp; omega) (by rw [ho1, hout]) ?_ ?_ hafter
      · intro i h
        simp only [List.getElem_replicate]
        exact (hnone _ (by omega)).symm
      · intro k hk hn
        by_cases hk1 : k < first
        · rw [ho2 k (Or.inl hk1)]; exact hdone k hk1 hn
        · by_cases hk2 : k < first + cells.length
          · have := ho3 (k - first) (by omega) (by omega)
            rw [show first + (k - first) = k by omega] at this
            rw [this, hcells (k - first) (by omega), show first + (k - first) = k by omega]
          · rw [ho2 k (Or.inr (by omega)), hrest k (by omega) hn, hnone k (by omega)]
            rfl
      · intro k hk hn
        rw [ho2 k (Or.inr (by omega))]
        exact hrest k (by omega) hn
  · -- the last live bin is the new value's first bin: it stays, the others are finished
    have hlen : 0 < cells.length := List.length_pos_iff.mpr hne
    have hm : min (x.s / w - first) cells.length = cells.length - 1 := by omega
    rw [hm] at hpop ho2 ho3
    have hdrop : (cells.drop (cells.length - 1)).length = 1 := by simp; omega
    have hdne : cells.drop (cells.length - 1) ≠ [] := by
      intro h; rw [h] at hdrop; simp at hdrop
    have hfirst : first + (cells.length - 1) = x.s / w := by omega
    refine ⟨⟨x.s / w, accumGo sm w x (x.s / w)
      (cells.drop (cells.length - 1) ++ List.replicate ((x.e - 1) / w + 1 - (x.s / w + 1)) none), out'⟩, ?_, ?_⟩
    · simp only [step, hpop, hdne, if_false, hdrop, hfirst]
    · refine finish_step sm w nb hw P x hx _ out' hbe ?_ (by simp [hdrop]; omega) (by rw [ho1, hout]) ?_ ?_ hafter
      · intro i h
        by_cases hi : i = 0
        · subst hi
          rw [List.getElem_append_left (by omega), List.getElem_drop]
          rw [hcells _ (by omega)]
          congr 1
        · rw [List.getElem_append_right (by omega), List.getElem_replicate]
          exact (hnone _ (by omega)).symm
      · intro k hk hn
        by_cases hk1 : k < first
        · rw [ho2 k (Or.inl hk1)]; exact hdone k hk1 hn
        · have := ho3 (k - first) (by omega) (by omega)
          rw [show first + (k - first) = k by omega] at this
          rw [this, hcells (k - first) (by omega), show first + (k - first) = k by omega]
      · intro k hk hn
        rw [ho2 k (Or.inr (by omega))]
        exact hrest k (by omega) hn

/-- values in order, disjoint, non-empty, inside the range `[0, nb·w)` (what `get_interval` returns, made
    relative to the range start) -/
def Sorted (nb w : Nat) : Nat → List Item → Prop
  | _, [] => True
  | lim, x :: xs => lim ≤ x.s ∧ x.s < x.e ∧ x.e ≤ nb * w ∧ Sorted nb w x.e xs

theorem go_inv (sm : Summary) (w nb : Nat) (hw : 0 < w) : ∀ (vals P : List Item) (lim : Nat) (st : St),
    Inv sm w nb P lim st → Sorted nb w lim vals →
    ∃ st' lim', run.go sm w vals st = some st' ∧ Inv sm w nb (P ++ vals) lim' st' := by
  intro vals
  induction vals with
  | nil => intro P lim st h _; exact ⟨st, lim, rfl, by simpa using h⟩
  | cons x xs ih =>
    intro P lim st h hs
    obtain ⟨s1, s2, s3, s4⟩ := hs
    obtain ⟨st1, hstep, hinv1⟩ := step_inv sm w nb hw P lim st x h s1 s2 s3
    obtain ⟨st', lim', hgo, hinv'⟩ := ih (P ++ [x]) x.e st1 hinv1 s4
    refine ⟨st', lim', ?_, by simpa [List.append_assoc] using hinv'⟩
    simp only [run.go, hstep, hgo]

/-- **C20, exact bins of integral width (bigWig, repaired mean guard).** For every bin width `w > 0`, bin count
    `nb`, statistic, and every list of values in order, disjoint, non-empty and inside `[0, nb·w)`: the routine
    writes no bin out of bounds and bin `k` reports `flush` of the accumulation over exactly the values that
    overlap `[k·w, (k+1)·w)` — `Σ overlap·v / Σ overlap`, the minimum, or the maximum of those values — and
    `missing` when none does. -/
theorem bins_spec (sm : Summary) (w nb : Nat) (hw : 0 < w) (vals : List Item) (hs : Sorted nb w 0 vals) :
    ∃ out, run sm w nb vals = some out ∧ out.length = nb ∧
      ∀ k, k < nb → out[k]? = some (flush sm (accSpec sm w vals k)) := by
  obtain ⟨st, lim, hgo, hinv⟩ := go_inv sm w nb hw vals [] 0 _ (inv_init sm w nb) hs
  simp only [List.nil_append] at hinv
  obtain ⟨first, cells, out⟩ := st
  obtain ⟨hout, hB, hcells, hdone, hrest, hnone, _, _⟩ := hinv
  dsimp only at hout hB hcells hdone hrest hnone
  obtain ⟨out', hpop, ho1, ho2, ho3⟩ := popN_spec sm cells.length ⟨first, cells, out⟩ (by dsimp only; omega)
  dsimp only at hpop ho1 ho2 ho3
  rw [Nat.min_self] at hpop ho2 ho3
  refine ⟨out', ?_, by rw [ho1, hout], ?_⟩
  · simp only [run, hgo, hpop, Option.map_some]
  · intro k hk
    by_cases hk1 : k < first
    · rw [ho2 k (Or.inl hk1)]; exact hdone k hk1 hk
    · by_cases hk2 : k < first + cells.length
      · have := ho3 (k - first) (by omega) (by omega)
        rw [show first + (k - first) = k by omega] at this
        rw [this, hcells (k - first) (by omega), show first + (k - first) = k by omega]
      · rw [ho2 k (Or.inr (by omega)), hrest k (by omega) hk, hnone k (by omega)]
        rfl

theorem nat_sum_zero : ∀ (l : List Nat), (∀ a ∈ l, a = 0) → l.sum = 0
  | [], _ => rfl
  | a :: as, h => by
    simp only [List.sum_cons, h a (by simp), nat_sum_zero as (fun b hb => h b (by simp [hb]))]

theorem int_sum_zero : ∀ (l : List Int), (∀ a ∈ l, a = 0) → l.sum = 0
  | [], _ => rfl
  | a :: as, h => by
    simp only [List.sum_cons, h a (by simp), int_sum_zero as (fun b hb => h b (by simp [hb]))]; rfl

/-- what `flush ∘ accSpec` means for the mean: covered bases and weighted sum of the overlapping values -/
theorem foldl_mean (w k : Nat) : ∀ (P : List Item) (d : Option Acc),
    P.foldl (fun d x => if 0 < ov w x.s x.e k then some (accum .mean w x k d) else d) d =
      if (P.filter fun x => decide (0 < ov w x.s x.e k)) = [] then d
      else some ⟨(d.getD ⟨0, 0⟩).c + (P.map fun x => ov w x.s x.e k).sum,
                 (d.getD ⟨0, 0⟩).a + (P.map fun x => (ov w x.s x.e k : Int) * x.v).sum⟩ := by
  intro P
  induction P with
  | nil => intro d; rfl
  | cons x xs ih =>
    intro d
    simp only [List.foldl_cons, ih, List.filter_cons, List.map_cons, List.sum_cons]
    by_cases hov : 0 < ov w x.s x.e k
    · simp only [hov, if_true, decide_true, reduceCtorEq, if_false, accum, Option.getD_some]
      by_cases hP : (xs.filter fun x => decide (0 < ov w x.s x.e k)) = []
      · have hz : ∀ y ∈ xs, ov w y.s y.e k = 0 := by
          intro y hy
          have := (List.filter_eq_nil_iff.mp hP) y hy
          simpa using this
        have z1 : (xs.map fun x => ov w x.s x.e k).sum = 0 := by
          apply nat_sum_zero; intro a ha
          obtain ⟨y, hy, rfl⟩ := List.mem_map.mp ha; exact hz y hy
        have z2 : (xs.map fun x => (ov w x.s x.e k : Int) * x.v).sum = 0 := by
          apply int_sum_zero; intro a ha
          obtain ⟨y, hy, rfl⟩ := List.mem_map.mp ha; simp [hz y hy]
        simp [hP, z1, z2]
      · simp only [hP, if_false, Option.some.injEq, Acc.mk.injEq]
        constructor <;> omega
    · have h0 : ov w x.s x.e k = 0 := by omega
      simp [h0]

theorem accSpec_mean (w : Nat) (P : List Item) (k : Nat) :
    accSpec .mean w P k =
      if (P.filter fun x => decide (0 < ov w x.s x.e k)) = [] then none
      else some ⟨(P.map fun x => ov w x.s x.e k).sum, (P.map fun x => (ov w x.s x.e k : Int) * x.v).sum⟩ := by
  unfold accSpec
  rw [foldl_mean]
  simp

end PBP
