/-! Probe (C15): model of `merge_sections_many` (`ValueIter::next`): windows of `W` bases, per-base
    accumulation, run-length re-encoding with zero suppression, last run of a window held back. -/
namespace MG

structure Val where
  s : Nat
  e : Nat
  v : Int
deriving DecidableEq, Repr

/-- the per-stream loop for the window `[cs, cs+W)`: values touched, and what remains of the stream
    (a value reaching into later windows, or not yet started, is pushed back) -/
def pull (W cs : Nat) : List Val → List Val × List Val
  | [] => ([], [])
  | x :: rest =>
    if max cs x.s - cs ≥ W then ([], x :: rest)
    else if x.e - cs ≥ W then ([x], x :: rest)
    else let r := pull W cs rest; (x :: r.1, r.2)

/-- contribution of a touched value to `data[i]` -/
def contrib (W cs : Nat) (x : Val) (i : Nat) : Int :=
  if max cs x.s - cs ≤ i ∧ i < min W (x.e - cs) then x.v else 0

def dataAt (W cs : Nat) (touched : List Val) (i : Nat) : Int := (touched.map fun x => contrib W cs x i).sum

def maxLen (W cs : Nat) (touched : List Val) : Nat := touched.foldl (fun m x => max m (min W (x.e - cs))) 0

def emit (c : Val) : List Val := if c.v ≠ 0 then [c] else []

/-- run-length re-encoding of `data[0..len)`, positions shifted by `cs`, zero runs dropped -/
def rleGo (cs : Nat) (f : Nat → Int) : Nat → Nat → Option Val → List Val
  | 0, _, none => []
  | 0, _, some c => emit c
  | n + 1, idx, none => rleGo cs f n (idx + 1) (some ⟨idx + cs, idx + cs + 1, f idx⟩)
  | n + 1, idx, some c =>
    if c.v = f idx then rleGo cs f n (idx + 1) (some { c with e := c.e + 1 })
    else emit c ++ rleGo cs f n (idx + 1) (some ⟨idx + cs, idx + cs + 1, f idx⟩)

def rle (cs : Nat) (f : Nat → Int) (len : Nat) : List Val := rleGo cs f len 0 none

/-- one window over all streams: runs of this window and the streams afterwards -/
def window (W cs : Nat) (streams : List (List Val)) : List Val × List (List Val) :=
  let pulled := streams.map (pull W cs)
  let touched := pulled.flatMap (·.1)
  (rle cs (dataAt W cs touched) (maxLen W cs touched), pulled.map (·.2))

/-- all windows until every stream is exhausted; `held` is the `last_val` -/
def loop (W : Nat) : Nat → Nat → List (List Val) → Option Val → List Val
  | 0, _, _, held => held.toList
  | fuel + 1, cs, streams, held =>
    if streams.all (·.isEmpty) then held.toList else
    let (runs, streams') := window W cs streams
    let q := held.toList ++ runs              -- `insert_into_queue` puts the held run in front
    match q.getLast? with
    | none => loop W fuel (cs + W) streams' none
    | some l => q.dropLast ++ loop W fuel (cs + W) streams' (some l)

def maxEnd (streams : List (List Val)) : Nat := (streams.flatMap id).foldl (fun m x => max m x.e) 0

def merge (W : Nat) (streams : List (List Val)) : List Val :=
  loop W (maxEnd streams / W + 2) 0 streams none

end MG
