import BigtoolsModel.Tiler2
import BigtoolsModel.Sweep
import BigtoolsModel.FView
import BigtoolsModel.IndexerFix
import BigtoolsModel.Chunker
import BigtoolsModel.SummaryFold
import BigtoolsModel.BedSummary
import BigtoolsModel.Stats2
import BigtoolsModel.ZoomLevels
import BigtoolsModel.AtomsNorm
/-! ### Summary statistics: what one value / one coverage piece adds, and where the running extrema start -/

namespace SF

/-- `process_val` of the bigWig writers on one value, assembled from the source's update expressions. The running
    minimum / maximum start from the constants the source names (`gen_extrema_start`: the largest / smallest finite `f64`,
    which every value is below / above — the model's `none`). -/
def stepGen (r : Run) (x : Val) : Run :=
  let l : Int := (len x : Nat)
  { items := r.items + 1, bases := r.bases + (Gen.ws_bases_add l x.v 0 0).toNat,
    mn := match r.mn with | none => some x.v | some m => some (Gen.ws_min l x.v m 0),
    mx := match r.mx with | none => some x.v | some m => some (Gen.ws_max l x.v 0 m),
    sum := r.sum + Gen.ws_sum_add l x.v 0 0, sumsq := r.sumsq + Gen.ws_sumsq_add l x.v 0 0 }

theorem gen_wig_summary_atoms (l v a b : Int) :
    Gen.ws_bases_add l v a b = l ∧ Gen.ws_sum_add l v a b = l * v ∧ Gen.ws_sumsq_add l v a b = l * v * v ∧
    Gen.ws_min l v a b = min a v ∧ Gen.ws_max l v a b = max b v := by
  delta Gen.ws_bases_add Gen.ws_sum_add Gen.ws_sumsq_add Gen.ws_min Gen.ws_max
  refine ⟨?_, ?_, ?_, ?_, ?_⟩ <;> first | rfl | omega | grind

/-- **bigWig summary.** One step of the summary fold with the source's expressions is the model's `step` — the fold
    `C06_wig_chromosome_summary` and `C06_wig_total_summary` are about. -/
theorem gen_wig_summary_step (r : Run) (x : Val) : stepGen r x = step r x := by
  have h := fun a b => gen_wig_summary_atoms ((len x : Nat) : Int) x.v a b
  unfold stepGen step
  simp only [(h _ _).1, (h _ _).2.1, (h _ _).2.2.1, (h _ _).2.2.2.1, (h _ _).2.2.2.2, Int.toNat_natCast]
  cases r.mn <;> cases r.mx <;> rfl

/-- the running extrema of both bigWig writers (single pass and two pass) and of the per-region statistics start from the
    largest finite `f64` (minimum) and the smallest (maximum) -/
theorem gen_extrema_start :
    Gen.ws_min_init_full = .posMax ∧ Gen.ws_max_init_full = .negMax ∧ Gen.ws_min_init_nozoom = .posMax ∧
    Gen.ws_max_init_nozoom = .negMax ∧ Gen.st_min_init = .posMax ∧ Gen.st_max_init = .negMax := by
  delta Gen.ws_min_init_full Gen.ws_max_init_full Gen.ws_min_init_nozoom Gen.ws_max_init_nozoom Gen.st_min_init Gen.st_max_init
  refine ⟨?_, ?_, ?_, ?_, ?_, ?_⟩ <;> first | rfl | decide

end SF
