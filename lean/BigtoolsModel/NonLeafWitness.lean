import BigtoolsModel.CirSer
/-! Probe (C10, D12): a valid index whose non-leaf root is the last thing in the file. The reader as found insists
    on `count·32` readable bytes for a non-leaf node (items are 24 bytes) and reports a truncated file; with 24
    it finds the block. Kernel-decided on a 64-byte index image. -/
namespace BBI
open RT CD

def d12Sec : Sec := ⟨⟨0, 100⟩, ⟨0, 200⟩, 1000, 36⟩
/-- leaf node at 0 (36 bytes), then the root at 36 (28 bytes) pointing back to it -/
def d12Image : List Nat := nodeBytes (.leaf [d12Sec]) [] ++ nodeBytes (.node [(⟨⟨0, 100⟩, ⟨0, 200⟩⟩, .leaf [d12Sec])]) [0]

def okBlocks : Except Err (List Block) → Option (List Block)
  | .ok b => some b
  | .error _ => none

theorem d12_length : d12Image.length = 64 := by decide

/-- as found (32 bytes demanded per non-leaf item): the query fails -/
theorem nonleaf_at_eof_rejected_as_found :
    okBlocks (searchCir .little (srcOf d12Image) 32 0 150 160 5 [36] []) = none := by decide

/-- repaired (24): the block is found -/
theorem nonleaf_at_eof_found_repaired :
    okBlocks (searchCir .little (srcOf d12Image) 24 0 150 160 5 [36] []) = some [⟨1000, 36⟩] := by decide

end BBI
