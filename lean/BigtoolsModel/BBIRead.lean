/-! Probe: byte-level reader model for BBI files (header, zoom directory, chromosome B+ tree of any depth,
    R-tree search exactly as `CirTreeBlockSearchIter`, bigWig sections of types 1/2/3, bigBed records),
    parametrised by byte order; blocks must be uncompressed or pre-inflated by the caller. -/
namespace BBI

structure Src where
  size : Nat
  get : Nat → UInt8

def Src.ofArray (a : ByteArray) : Src := ⟨a.size, fun i => a.get! i⟩

inductive Endian where | little | big deriving Repr, DecidableEq

def byte (s : Src) (i : Nat) : Nat := (s.get i).toNat

def uN (e : Endian) (s : Src) (off n : Nat) : Nat :=
  match e with
  | .little => (List.range n).foldr (fun i acc => acc * 256 + byte s (off + i)) 0
  | .big => (List.range n).foldl (fun acc i => acc * 256 + byte s (off + i)) 0

def u16 (e : Endian) (s : Src) (off : Nat) := uN e s off 2
def u32 (e : Endian) (s : Src) (off : Nat) := uN e s off 4
def u64 (e : Endian) (s : Src) (off : Nat) := uN e s off 8

def BIGWIG_MAGIC : Nat := 0x888FFC26
def BIGBED_MAGIC : Nat := 0x8789F2EB
def CIR_TREE_MAGIC : Nat := 0x2468ACE0
def CHROM_TREE_MAGIC : Nat := 0x78CA8C91

inductive Kind where | bigWig | bigBed deriving Repr, DecidableEq

structure ZoomHdr where
  reduction : Nat
  dataOffset : Nat
  indexOffset : Nat
deriving Repr

structure Header where
  kind : Kind
  endian : Endian
  version : Nat
  zoomLevels : Nat
  chromTreeOffset : Nat
  fullDataOffset : Nat
  fullIndexOffset : Nat
  fieldCount : Nat
  definedFieldCount : Nat
  autoSqlOffset : Nat
  totalSummaryOffset : Nat
  uncompressBufSize : Nat
  zooms : List ZoomHdr
deriving Repr

inductive Err where
  | unknownMagic | invalidChroms | truncated (what : String) | invalidFile (what : String) | outOfFuel
deriving Repr

def need (s : Src) (off n : Nat) (what : String) : Except Err Unit :=
  if off + n ≤ s.size then .ok () else .error (.truncated what)

def readHeader (s : Src) : Except Err Header := do
  need s 0 64 "header"
  let m := u32 .big s 0
  -- `read_info`: the four magic/byte-order combinations
  let ke ←
    if m = BIGWIG_MAGIC then pure (Kind.bigWig, Endian.big)
    else if u32 .little s 0 = BIGWIG_MAGIC then pure (Kind.bigWig, Endian.little)
    else if m = BIGBED_MAGIC then pure (Kind.bigBed, Endian.big)
    else if u32 .little s 0 = BIGBED_MAGIC then pure (Kind.bigBed, Endian.little)
    else throw Err.unknownMagic
  let (kind, e) := ke
  let zoomLevels := u16 e s 6
  need s 64 (zoomLevels * 24) "zoom directory"
  let zooms := (List.range zoomLevels).map fun i =>
    { reduction := u32 e s (64 + 24 * i), dataOffset := u64 e s (64 + 24 * i + 8),
      indexOffset := u64 e s (64 + 24 * i + 16) : ZoomHdr }
  pure { kind := kind, endian := e, version := u16 e s 4, zoomLevels := zoomLevels,
         chromTreeOffset := u64 e s 8, fullDataOffset := u64 e s 16, fullIndexOffset := u64 e s 24,
         fieldCount := u16 e s 32, definedFieldCount := u16 e s 34, autoSqlOffset := u64 e s 36,
         totalSummaryOffset := u64 e s 44, uncompressBufSize := u32 e s 52, zooms := zooms }

structure Chrom where
  name : List UInt8
  id : Nat
  length : Nat
deriving Repr

def trimNul (l : List UInt8) : List UInt8 :=
  ((l.dropWhile (· = 0)).reverse.dropWhile (· = 0)).reverse

/-- `read_chrom_tree_block`, leaf and non-leaf, depth bounded by fuel -/
def readChromBlock (e : Endian) (s : Src) (keySize : Nat) : Nat → Nat → Except Err (List Chrom)
  | 0, _ => .error .outOfFuel
  | fuel + 1, off => do
    need s off 4 "chrom tree node header"
    let isLeaf := byte s off
    let count := u16 e s (off + 2)
    need s (off + 4) ((keySize + 8) * count) "chrom tree node items"
    if isLeaf = 1 then
      pure <| (List.range count).map fun i =>
        let b := off + 4 + i * (keySize + 8)
        { name := trimNul ((List.range keySize).map fun k => s.get (b + k)),
          id := u32 e s (b + keySize), length := u32 e s (b + keySize + 4) : Chrom }
    else
      let kids := (List.range count).map fun i => u64 e s (off + 4 + i * (keySize + 8) + keySize)
      let rec go : List Nat → Except Err (List Chrom)
        | [] => pure []
        | k :: ks => do
          let a ← readChromBlock e s keySize fuel k
          let b ← go ks
          pure (a ++ b)
      go kids

def readChroms (h : Header) (s : Src) : Except Err (List Chrom) := do
  let off := h.chromTreeOffset
  need s off 32 "chrom tree header"
  if u32 h.endian s off ≠ CHROM_TREE_MAGIC then throw Err.invalidChroms
  let keySize := u32 h.endian s (off + 8)
  readChromBlock h.endian s keySize (s.size + 1) (off + 32)

structure Block where
  offset : Nat
  size : Nat
deriving Repr, DecidableEq

def cmpPos (c1 b1 c2 b2 : Nat) : Int :=
  if c1 < c2 then -1 else if c1 > c2 then 1 else if b1 < b2 then -1 else if b1 > b2 then 1 else 0

def overlaps (qc qs qe c1 s1 c2 e2 : Nat) : Bool :=
  cmpPos qc qs c2 e2 ≤ 0 && cmpPos qc qe c1 s1 ≥ 0

/-- `search_cir_tree_inner`: explicit stack of node offsets, children pushed in order at the front.
    `nonLeafItemBytes` is what the reader insists on being able to read per non-leaf item
    (32 in the code as found, 24 by the format). -/
def searchCir (e : Endian) (s : Src) (nonLeafItemBytes : Nat) (qc qs qe : Nat) :
    Nat → List Nat → List Block → Except Err (List Block)
  | 0, _, _ => .error .outOfFuel
  | _, [], acc => .ok acc
  | fuel + 1, off :: stack, acc => do
    need s off 4 "index node header"
    let isLeaf := byte s off
    if isLeaf ≠ 0 ∧ isLeaf ≠ 1 then throw (Err.invalidFile "isleaf")
    let count := u16 e s (off + 2)
    if isLeaf = 1 then
      need s (off + 4) (count * 32) "leaf items"
      let items := (List.range count).filterMap fun i =>
        let b := off + 4 + i * 32
        if overlaps qc qs qe (u32 e s b) (u32 e s (b + 4)) (u32 e s (b + 8)) (u32 e s (b + 12))
        then some ⟨u64 e s (b + 16), u64 e s (b + 24)⟩ else none
      searchCir e s nonLeafItemBytes qc qs qe fuel stack (acc ++ items)
    else
      need s (off + 4) (count * nonLeafItemBytes) "non-leaf items"
      let kids := (List.range count).filterMap fun i =>
        let b := off + 4 + i * 24
        if overlaps qc qs qe (u32 e s b) (u32 e s (b + 4)) (u32 e s (b + 8)) (u32 e s (b + 12))
        then some (u64 e s (b + 16)) else none
      searchCir e s nonLeafItemBytes qc qs qe fuel (kids ++ stack) acc

structure Value where
  start : Nat
  stop : Nat
  bits : Nat      -- the f32 bit pattern
deriving Repr, DecidableEq

/-- `get_block_values` on an uncompressed block -/
def wigBlock (e : Endian) (s : Src) (b : Block) (chrom qs qe : Nat) : Except Err (List Value) := do
  need s b.offset 24 "section header"
  let o := b.offset
  let chromId := u32 e s o
  let chromStart := u32 e s (o + 4)
  let step := u32 e s (o + 12)
  let span := u32 e s (o + 16)
  let ty := byte s (o + 20)
  let n := u16 e s (o + 22)
  if chromId ≠ chrom then pure [] else
  let keep (v : Value) : Option Value :=
    if v.stop > qs ∧ v.start < qe then some { v with start := max v.start qs, stop := min v.stop qe } else none
  match ty with
  | 1 => do
    need s (o + 24) (n * 12) "bedGraph items"
    pure <| (List.range n).filterMap fun i =>
      keep ⟨u32 e s (o + 24 + 12 * i), u32 e s (o + 24 + 12 * i + 4), u32 e s (o + 24 + 12 * i + 8)⟩
  | 2 => do
    need s (o + 24) (n * 8) "varStep items"
    pure <| (List.range n).filterMap fun i =>
      let st := u32 e s (o + 24 + 8 * i)
      keep ⟨st, st + span, u32 e s (o + 24 + 8 * i + 4)⟩
  | 3 => do
    need s (o + 24) (n * 4) "fixedStep items"
    pure <| (List.range n).filterMap fun i =>
      let st := chromStart + i * step
      keep ⟨st, st + span, u32 e s (o + 24 + 4 * i)⟩
  | _ => throw (Err.invalidFile "section type")

def getInterval (s : Src) (h : Header) (chroms : List Chrom) (name : List UInt8) (qs qe : Nat)
    (nonLeafItemBytes : Nat := 32) : Except Err (List Value) := do
  let some c := chroms.find? (·.name = name) | throw (Err.invalidFile "chromosome")
  let idx := h.fullIndexOffset
  need s idx 48 "index header"
  if u32 h.endian s idx ≠ CIR_TREE_MAGIC then throw Err.unknownMagic
  let blocks ← searchCir h.endian s nonLeafItemBytes c.id qs qe (s.size + 1) [idx + 48] []
  let rec go : List Block → Except Err (List Value)
    | [] => pure []
    | b :: bs => do
      let a ← wigBlock h.endian s b c.id qs qe
      let r ← go bs
      pure (a ++ r)
  go blocks

end BBI
