import BigtoolsModel.Tiler2
import BigtoolsModel.RTBuild
/-! Probe: byte-level writer model for uncompressed bigWig files as bigtools lays them out (single pass,
    manual zoom sizes), to be compared byte for byte with the real writer's output. Values are small integers. -/
namespace BW

def le : Nat → Nat → List Nat
  | 0, _ => []
  | k + 1, n => n % 256 :: le k (n / 256)

/-- IEEE bits of an integer, rounded to nearest-even when it has more than `mantBits + 1` significant bits
    (Rust's `as f32` on an exactly held f64; exact below 2^53) -/
def floatBits (expBits mantBits : Nat) (n : Int) : Nat :=
  if n = 0 then 0 else
  let sign := if n < 0 then 1 else 0
  let a := n.natAbs
  let e := Nat.log2 a
  let bias := 2 ^ (expBits - 1) - 1
  if e ≤ mantBits then
    sign * 2 ^ (expBits + mantBits) + (e + bias) * 2 ^ mantBits + (a - 2 ^ e) * 2 ^ (mantBits - e)
  else
    let shift := e - mantBits
    let q := a / 2 ^ shift
    let r := a % 2 ^ shift
    let half := 2 ^ (shift - 1)
    let q' := if r > half ∨ (r = half ∧ q % 2 = 1) then q + 1 else q
    -- a carry out of the mantissa bumps the exponent (q' = 2^(mantBits+1))
    sign * 2 ^ (expBits + mantBits) + (e + bias) * 2 ^ mantBits + (q' - 2 ^ mantBits)

def f32 (n : Int) : List Nat := le 4 (floatBits 8 23 n)
def f64 (n : Int) : List Nat := le 8 (floatBits 11 52 n)

structure V where
  s : Nat
  e : Nat
  v : Int
deriving Repr, DecidableEq

structure Sec where
  chrom : Nat
  start : Nat
  stop : Nat
  bytes : List Nat
deriving Repr

def encSection (chrom : Nat) (items : List V) : Sec :=
  let start := (items.head?.map (·.s)).getD 0
  let stop := (items.getLast?.map (·.e)).getD 0
  { chrom, start, stop,
    bytes := le 4 chrom ++ le 4 start ++ le 4 stop ++ le 4 0 ++ le 4 0 ++ [1, 0] ++ le 2 items.length ++
      items.flatMap (fun x => le 4 x.s ++ le 4 x.e ++ f32 x.v) }

structure ZRec where
  chrom : Nat
  start : Nat
  stop : Nat
  bases : Nat
  mn : Int
  mx : Int
  sum : Int
  sumsq : Int
deriving Repr

def encZoomSection (recs : List ZRec) : Sec :=
  { chrom := (recs.head?.map (·.chrom)).getD 0, start := (recs.head?.map (·.start)).getD 0,
    stop := (recs.getLast?.map (·.stop)).getD 0,
    bytes := recs.flatMap fun r => le 4 r.chrom ++ le 4 r.start ++ le 4 r.stop ++ le 4 r.bases ++
      f32 r.mn ++ f32 r.mx ++ f32 r.sum ++ f32 r.sumsq }

/-- zoom records of one chromosome (the tiler as repaired — D1, D14 — with sum of squares) -/
structure ZSt where
  live : Option ZRec
  out : List ZRec

def zoomIter (chrom size : Nat) (x : V) (a : Nat) (st : ZSt) : Nat × ZSt :=
  let r := st.live.getD ⟨chrom, a, a, 0, x.v, x.v, 0, 0⟩
  let nextEnd := r.start + size
  let addEnd := min nextEnd x.e
  let r' : ZRec := if addEnd > a then                 -- repaired (D14): only when bases are added
      { r with stop := addEnd, bases := r.bases + (addEnd - a), sum := r.sum + (addEnd - a : Nat) * x.v,
               sumsq := r.sumsq + (addEnd - a : Nat) * x.v * x.v, mn := min r.mn x.v, mx := max r.mx x.v }
    else r
  let st' : ZSt := if addEnd = nextEnd then ⟨none, st.out ++ [r']⟩ else ⟨some r', st.out⟩
  (max addEnd x.s, st')                           -- repaired (D1): never left of the value's start

def zoomInner (chrom size : Nat) (x : V) (isLast : Bool) : Nat → Nat → ZSt → ZSt
  | 0, _, st => st
  | fuel + 1, a, st =>
    if a ≥ x.e then
      if isLast then match st.live with
        | some r => ⟨none, st.out ++ [r]⟩
        | none => st
      else st
    else
      let (a', st') := zoomIter chrom size x a st
      zoomInner chrom size x isLast fuel a' st'

def zoomChrom (chrom size : Nat) : List V → ZSt → ZSt
  | [], st => st
  | x :: xs, st => zoomChrom chrom size xs (zoomInner chrom size x xs.isEmpty (x.e + 3) x.s st)

/-! ### R-tree serialisation (level order, `write_tree` pointer arithmetic) -/

structure Leaf where
  chrom : Nat
  start : Nat
  stop : Nat
  offset : Nat
  size : Nat
deriving Repr

inductive Node where
  | leaf (items : List Leaf)
  | inner (kids : List (Nat × Nat × Nat × Nat × Node))     -- (startChrom, startBase, endChrom, endBase, child)

/-- lexicographic maximum of (chromosome, base) pairs (`sections_end` / `nodes_end`): children are sorted by
    start only, so the furthest end need not be the last child's -/
def lexMax (l : List (Nat × Nat)) : Nat × Nat :=
  l.foldl (fun m x => if m.1 < x.1 ∨ (m.1 = x.1 ∧ m.2 < x.2) then x else m) (l.headD (0, 0))

def spanOfNode : Node → Nat × Nat × Nat × Nat
  | .leaf items =>
    let e := lexMax (items.map fun l => (l.chrom, l.stop))
    ((items.head?.map (·.chrom)).getD 0, (items.head?.map (·.start)).getD 0, e.1, e.2)
  | .inner kids =>
    let e := lexMax (kids.map fun k => (k.2.2.1, k.2.2.2.1))
    ((kids.head?.map (·.1)).getD 0, (kids.head?.map (·.2.1)).getD 0, e.1, e.2)

def groupNodes (b : Nat) (nodes : List Node) : List Node :=
  (RT.chunks b nodes).map fun ch => .inner (ch.map fun c => let sp := spanOfNode c; (sp.1, sp.2.1, sp.2.2.1, sp.2.2.2, c))

def buildLoop (b : Nat) : Nat → List Node → Nat → Option (Node × Nat)
  | 0, _, _ => none
  | fuel + 1, nodes, levels =>
    if nodes.length = 1 then nodes.head?.map (·, levels) else buildLoop b fuel (groupNodes b nodes) (levels + 1)

def buildTree (b : Nat) (leaves : List Leaf) : Option (Node × Nat) :=
  buildLoop b (leaves.length + 1) ((RT.chunks b leaves).map Node.leaf) 0

mutual
/-- nodes at a given depth below `n`, in depth-first order -/
def nodesAt : Node → Nat → List Node
  | n, 0 => [n]
  | .leaf _, _ + 1 => []
  | .inner kids, d + 1 => nodesAtL kids d
def nodesAtL : List (Nat × Nat × Nat × Nat × Node) → Nat → List Node
  | [], _ => []
  | k :: ks, d => nodesAt k.2.2.2.2 d ++ nodesAtL ks d
end

def nodeSize : Node → Nat
  | .leaf items => 4 + items.length * 32
  | .inner kids => 4 + kids.length * 24

/-- bytes of the nodes of one level; `childBase` is where the next level starts -/
def levelBytes (b : Nat) (childrenAreLeaves : Bool) (childBase : Nat) : List Node → Nat → List Nat
  | [], _ => []
  | n :: ns, childOff =>
    match n with
    | .leaf items =>
      ([1, 0] ++ le 2 items.length ++ items.flatMap fun l =>
          le 4 l.chrom ++ le 4 l.start ++ le 4 l.chrom ++ le 4 l.stop ++ le 8 l.offset ++ le 8 l.size)
        ++ levelBytes b childrenAreLeaves childBase ns childOff
    | .inner kids =>
      let full := if childrenAreLeaves then 4 + 32 * b else 4 + 24 * b
      ([0, 0] ++ le 2 kids.length ++ (kids.zipIdx.flatMap fun (k, idx) =>
          le 4 k.1 ++ le 4 k.2.1 ++ le 4 k.2.2.1 ++ le 4 k.2.2.2.1 ++ le 8 (childOff + idx * full)))
        ++ levelBytes b childrenAreLeaves childBase ns (childOff + kids.length * full)

def CIR_MAGIC : Nat := 0x2468ACE0

/-- `write_rtreeindex`: header + levels from the root down; `pos` = file offset of the index header -/
def indexBytes (b ips : Nat) (leaves : List Leaf) (pos : Nat) : List Nat :=
  match buildTree b leaves with
  | none => []
  | some (root, levels) =>
    let sp := spanOfNode root
    let header := le 4 CIR_MAGIC ++ le 4 b ++ le 8 leaves.length ++ le 4 sp.1 ++ le 4 sp.2.1 ++ le 4 sp.2.2.1 ++
      le 4 sp.2.2.2 ++ le 8 pos ++ le 4 ips ++ le 4 0
    let rec go : Nat → Nat → Nat → List Nat
      | 0, _, _ => []
      | fuel + 1, d, start =>
        if d > levels then [] else
        let nodes := nodesAt root d
        let size := (nodes.map nodeSize).sum
        levelBytes b (d + 1 = levels) (start + size) nodes (start + size) ++ go fuel (d + 1) (start + size)
    header ++ go (levels + 2) 0 (pos + 48)

/-! ### the whole file -/

structure Opts where
  itemsPerSlot : Nat
  blockSize : Nat
  zoomSizes : List Nat

def cutSections (ips chrom : Nat) : Nat → List V → List Sec
  | 0, _ => []
  | _, [] => []
  | fuel + 1, items => encSection chrom (items.take ips) :: cutSections ips chrom fuel (items.drop ips)

def cutZoomSections (ips : Nat) : Nat → List ZRec → List Sec
  | 0, _ => []
  | _, [] => []
  | fuel + 1, recs => encZoomSection (recs.take ips) :: cutZoomSections ips fuel (recs.drop ips)

def leavesOf (secs : List Sec) (pos : Nat) : List Leaf × Nat :=
  secs.foldl (fun (acc : List Leaf × Nat) s =>
    (acc.1 ++ [⟨s.chrom, s.start, s.stop, acc.2, s.bytes.length⟩], acc.2 + s.bytes.length)) ([], pos)

def CHROM_MAGIC : Nat := 0x78CA8C91
def BIGWIG_MAGIC : Nat := 0x888FFC26

def chromTreeBytes (chroms : List (List Nat × Nat × Nat)) : List Nat :=   -- (name bytes, id, size), by id
  let keySize := chroms.foldl (fun m c => max m c.1.length) 0
  le 4 CHROM_MAGIC ++ le 4 (max 256 chroms.length) ++ le 4 keySize ++ le 4 8 ++ le 8 chroms.length ++ le 8 0 ++
  [1, 0] ++ le 2 chroms.length ++
  chroms.flatMap fun c => c.1 ++ List.replicate (keySize - c.1.length) 0 ++ le 4 c.2.1 ++ le 4 c.2.2

/-! Compression: zlib is not modelled. For a compressed file the model is handed, for every block in file order
    (data blocks, then each zoom level's blocks), the compressed bytes found in the real file together with what an
    independent inflater makes of them; it checks that the inflated bytes are exactly the section it would have
    written, and lays the file out with the compressed bytes in its place (offsets, sizes, index, and the
    uncompressed-buffer size of the header = the largest uncompressed section). -/
abbrev Blobs := Option (List (List Nat × List Nat))

/-- substitutes the next blobs for the sections' bytes; `ok` stays true while every blob inflates to its section -/
def substBlobs : Blobs → List Sec → List Sec × Blobs × Bool
  | none, secs => (secs, none, true)
  | some bl, [] => ([], some bl, true)
  | some [], _ :: _ => ([], some [], false)
  | some (b :: bl), s :: secs =>
    let r := substBlobs (some bl) secs
    ({ s with bytes := b.1 } :: r.1, r.2.1, r.2.2 && b.2 == s.bytes)

def maxLen (secs : List Sec) : Nat := secs.foldl (fun m s => max m s.bytes.length) 0

/-- input: chromosomes in first-appearance order with their sizes and values -/
def writeBigWigZ (o : Opts) (z : Blobs) (input : List (List Nat × Nat × List V)) : List Nat × Bool :=
  let preData := 64 + 240 + 40 + 8
  -- data sections, chromosome ids in order of appearance
  let dataSecs0 := input.zipIdx.flatMap fun (c, id) => cutSections (min o.itemsPerSlot 65535) id (c.2.2.length + 1) c.2.2   -- a section's item count is 16 bits wide (D22)
  let (dataSecs, z1, ok1) := substBlobs z dataSecs0
  let (dataLeaves, dataEnd) := leavesOf dataSecs preData
  let dataBytes := dataSecs.flatMap (·.bytes)
  let chromBytes := chromTreeBytes (input.zipIdx.map fun (c, id) => (c.1, id, c.2.1))
  let indexStart := dataEnd + chromBytes.length
  let idxBytes := indexBytes o.blockSize o.itemsPerSlot dataLeaves indexStart
  -- zoom levels (manual sizes, ascending as in the BTreeMap)
  let zoomStart := indexStart + idxBytes.length
  let zooms := o.zoomSizes.foldl (fun (acc : (List (Nat × Nat × Nat) × List Nat × Nat) × Blobs × Bool × Nat) size =>
      let recs := input.zipIdx.flatMap fun (c, id) => (zoomChrom id size c.2.2 ⟨none, []⟩).out.map fun r => (id, r)
      -- sections never span chromosomes
      let secs0 := input.zipIdx.flatMap fun (_, id) =>
        let rs := (recs.filter (·.1 = id)).map (·.2)
        cutZoomSections o.itemsPerSlot (rs.length + 1) rs
      if secs0.isEmpty then acc else              -- a level without records is not written (D4 repair)
      let (secs, z', ok') := substBlobs acc.2.1 secs0
      let a := acc.1
      let (zl, zend) := leavesOf secs a.2.2
      let zdata := secs.flatMap (·.bytes)
      let zidx := indexBytes o.blockSize o.itemsPerSlot zl zend
      ((a.1 ++ [(size, a.2.2, zend)], a.2.1 ++ zdata ++ zidx, zend + zidx.length), z', acc.2.2.1 && ok', max acc.2.2.2 (maxLen secs0)))
    (([], [], zoomStart), z1, ok1, maxLen dataSecs0)
  let ((zoomHdrs, zoomBytes, _), zrest, ok, ubs) := zooms
  -- summary
  let allVals := input.flatMap (·.2.2)
  let bases := (allVals.map fun x => x.e - x.s).sum
  let mn := allVals.foldl (fun m x => min m x.v) ((allVals.head?.map (·.v)).getD 0)
  let mx := allVals.foldl (fun m x => max m x.v) ((allVals.head?.map (·.v)).getD 0)
  let sum := (allVals.map fun x => ((x.e - x.s : Nat) : Int) * x.v).sum
  let sumsq := (allVals.map fun x => ((x.e - x.s : Nat) : Int) * x.v * x.v).sum
  let header := le 4 BIGWIG_MAGIC ++ le 2 4 ++ le 2 zoomHdrs.length ++ le 8 dataEnd ++ le 8 344 ++ le 8 indexStart ++
    le 2 0 ++ le 2 0 ++ le 8 0 ++ le 8 304 ++ le 4 (if z.isSome then ubs else 0) ++ le 8 0
  let zoomDir := zoomHdrs.flatMap fun z => le 4 z.1 ++ le 4 0 ++ le 8 z.2.1 ++ le 8 z.2.2
  let zoomDirPad := List.replicate (240 - zoomDir.length) 0
  let summary := le 8 bases ++ f64 mn ++ f64 mx ++ f64 sum ++ f64 sumsq
  (header ++ zoomDir ++ zoomDirPad ++ summary ++ le 8 dataSecs.length ++ dataBytes ++ chromBytes ++ idxBytes ++
    zoomBytes ++ le 4 BIGWIG_MAGIC, ok && (zrest.map (·.isEmpty)).getD true)

def writeBigWig (o : Opts) (input : List (List Nat × Nat × List V)) : List Nat := (writeBigWigZ o none input).1

end BW
