import BigtoolsModel.WigQueryBytes
/-! C01/C03/C09 with compression: zlib is a PARAMETER of the model — any pair `deflate` / `inflate` with the single
    law `inflate (deflate x) = x` (libdeflate writes, the reader inflates). In any image that holds, at the offsets
    and sizes the index records, the DEFLATED sections, the reader — byte-level index search, then inflating each
    block and decoding it — returns exactly the stored values overlapping the range, clipped, in order. -/
namespace BBI
open RT CD

structure Zlib where
  deflate : List Nat → List Nat
  inflate : List Nat → List Nat
  law : ∀ x, inflate (deflate x) = x

/-- the bytes of a block in the image (`read_block_data` reads `size` bytes at `offset`) -/
def slice (l : List Nat) (b : Block) : List Nat := (l.drop b.offset).take b.size

theorem slice_has (l seg : List Nat) (off : Nat) (h : Has l off seg) : slice l ⟨off, seg.length⟩ = seg := by
  obtain ⟨pre, post, rfl, hp⟩ := h
  unfold slice
  simp only
  rw [← hp, List.append_assoc, List.drop_left, List.take_left]

/-- block-by-block decoding of a compressed file: inflate, then `get_block_values` on the inflated bytes -/
def goBlocksZ (z : Zlib) (l : List Nat) (c qs qe : Nat) : List Block → Except Err (List Value)
  | [] => .ok []
  | b :: bs =>
    match wigBlock .little (srcOf (z.inflate (slice l b))) ⟨0, (z.inflate (slice l b)).length⟩ c qs qe with
    | .error e => .error e
    | .ok a =>
      match goBlocksZ z l c qs qe bs with
      | .error e => .error e
      | .ok r => .ok (a ++ r)

theorem has_self (seg : List Nat) : Has seg 0 seg := ⟨[], [], by simp, rfl⟩

theorem goBlocksZ_spec (z : Zlib) (l : List Nat) (c qs qe : Nat) : ∀ (ds : List DSec), (∀ d ∈ ds, DSecOK d) →
    (∀ d ∈ ds, Has l d.off (z.deflate (enc1 d.chrom d.items)) ∧ d.size = (z.deflate (enc1 d.chrom d.items)).length) →
    goBlocksZ z l c qs qe (ds.map fun d => ⟨d.off, d.size⟩) =
      .ok (ds.flatMap fun d => if d.chrom = c then d.items.filterMap (keepClip qs qe) else []) := by
  intro ds
  induction ds with
  | nil => intro _ _; rfl
  | cons d ds ih =>
    intro hok hhas
    have hd := hok d (by simp)
    have hcl : d.chrom < 256 ^ 4 := hd.sec.1.1
    obtain ⟨hh, hsz⟩ := hhas d (by simp)
    have hsl : z.inflate (slice l ⟨d.off, d.size⟩) = enc1 d.chrom d.items := by
      rw [hsz, slice_has l _ d.off hh, z.law]
    simp only [List.map_cons, goBlocksZ, List.flatMap_cons]
    rw [ih (fun x hx => hok x (by simp [hx])) (fun x hx => hhas x (by simp [hx])), hsl]
    by_cases hc : d.chrom = c
    · rw [← hc, decode1 (enc1 d.chrom d.items) 0 _ d.chrom qs qe d.items hcl hd.n hd.vals (has_self _)]
      simp
    · rw [wigBlock_other_chrom (enc1 d.chrom d.items) 0 _ d.chrom c qs qe d.items hcl hd.n hd.vals (has_self _) hc]
      simp [hc]

/-- **Query over the bytes of a compressed file.** As `wig_query_bytes`, with every data section stored deflated
    (any codec satisfying `inflate ∘ deflate = id`, any compressed sizes). -/
theorem wig_query_bytes_compressed (z : Zlib) (b : Nat) (hb : 2 ≤ b) (hb16 : b < 256 ^ 2) (ds : List DSec) (hne : ds ≠ [])
    (hsorted : LoSorted (ds.map DSec.sec)) (hok : ∀ d ∈ ds, DSecOK d)
    (l : List Nat) (hl : l.length < 256 ^ 8)
    (hsecs : ∀ d ∈ ds, Has l d.off (z.deflate (enc1 d.chrom d.items)) ∧ d.size = (z.deflate (enc1 d.chrom d.items)).length)
    (Ls : List (List T)) (hLs : levelsOf true b (ds.map DSec.sec) = some Ls) (idx : Nat)
    (hidx : Has l idx (body b idx Ls)) (c qs qe : Nat) :
    ∃ fuel blocks, searchCir .little (srcOf l) 24 c qs qe fuel [idx] [] = .ok blocks ∧
      goBlocksZ z l c qs qe blocks =
        .ok (((ds.filter fun d => d.chrom = c).flatMap (·.items)).filterMap (keepClip qs qe)) := by
  obtain ⟨pre, post, hl', hpre⟩ := hidx
  subst hpre
  have hne' : ds.map DSec.sec ≠ [] := by simpa using hne
  have hsok : ∀ x ∈ ds.map DSec.sec, SecOK x := by
    intro x hx
    simp only [List.mem_map] at hx
    obtain ⟨d, hd, rfl⟩ := hx
    exact (hok d hd).sec
  obtain ⟨fuel, hsearch⟩ := written_index_search b hb hb16 (ds.map DSec.sec) hne' hsorted hsok Ls hLs pre post
    (by rw [← hl']; exact hl) c qs qe
  rw [← hl'] at hsearch
  refine ⟨fuel, _, hsearch, ?_⟩
  have hblocks : blocksOf ((ds.map DSec.sec).filter fun x => ov ⟨c, qs⟩ ⟨c, qe⟩ x.lo x.hi) =
      (ds.filter fun d => ov ⟨c, qs⟩ ⟨c, qe⟩ d.sec.lo d.sec.hi).map fun d => (⟨d.off, d.size⟩ : Block) := by
    simp only [blocksOf, List.filter_map, List.map_map]
    rfl
  rw [hblocks, goBlocksZ_spec z l c qs qe _ (fun d hd => hok d (List.mem_filter.mp hd).1)
    (fun d hd => hsecs d (List.mem_filter.mp hd).1), via_index_eq_all c qs qe ds hok]

/-- the law is satisfiable (the identity codec: an uncompressed file) — and by any real zlib implementation -/
example : Zlib := ⟨id, id, fun _ => rfl⟩

end BBI
