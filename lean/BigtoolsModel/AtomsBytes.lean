import BigtoolsModel.AtomsNorm
/-! The index-item and bedGraph-item decoders of the readers are written out byte by byte (`u64::from_le_bytes([bytes[16], …, bytes[23]])`,
    once per byte order). Which bytes each field is assembled from is regenerated from bbiread.rs / bigwigread.rs (`Gen.bf_leaf`,
    `Gen.bf_nonleaf`, `Gen.bf_bedgraph_item`); this module proves that every field takes exactly its own consecutive bytes, in
    ascending order, in BOTH byte-order arms — the layout the byte-level reader models decode (`CirBytes.lean`: four 32-bit fields, then
    64-bit offset [and 64-bit size]; `Codec.lean`: start, end, value). A repeated or skipped index (S-round 7: `bytes[21]` for
    `bytes[20]` in the little-endian arm, which loses bits 32–39 of a block's file offset — invisible below 4 GiB) breaks it. -/
namespace BF

/-- consecutive byte ranges for fields of the given widths, starting at `at` -/
def layout : Nat → List (String × Nat) → List (String × List Nat)
  | _, [] => []
  | at_, (n, w) :: rest => (n, (List.range w).map (· + at_)) :: layout (at_ + w) rest

/-- both byte-order arms list the same fields over the same bytes (`from_be_bytes` / `from_le_bytes` do the ordering) -/
def bothArms (fields : List (String × Nat)) : List (String × String × List Nat) :=
  (layout 0 fields).map (fun (n, ix) => (n, "be", ix)) ++ (layout 0 fields).map (fun (n, ix) => (n, "le", ix))

def leafFields : List (String × Nat) :=
  [("start_chrom_ix", 4), ("start_base", 4), ("end_chrom_ix", 4), ("end_base", 4), ("data_offset", 8), ("data_size", 8)]
def nonLeafFields : List (String × Nat) :=
  [("start_chrom_ix", 4), ("start_base", 4), ("end_chrom_ix", 4), ("end_base", 4), ("data_offset", 8)]
def bedGraphFields : List (String × Nat) := [("chrom_start", 4), ("chrom_end", 4), ("value", 4)]

theorem gen_leaf_bytes : Gen.bf_leaf = bothArms leafFields := by delta Gen.bf_leaf; decide
theorem gen_nonleaf_bytes : Gen.bf_nonleaf = bothArms nonLeafFields := by delta Gen.bf_nonleaf; decide
theorem gen_bedgraph_item_bytes : Gen.bf_bedgraph_item = bothArms bedGraphFields := by delta Gen.bf_bedgraph_item; decide

/-- every byte of an item is used by exactly one field of each arm (no byte read twice, none skipped) -/
theorem leaf_arm_covers_the_item : ((layout 0 leafFields).flatMap (·.2)) = List.range 32 ∧
    ((layout 0 nonLeafFields).flatMap (·.2)) = List.range 24 ∧ ((layout 0 bedGraphFields).flatMap (·.2)) = List.range 12 := by decide

end BF
