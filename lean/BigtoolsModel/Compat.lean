import BigtoolsModel.Generated.Consts
/-! Probe (C16): `compat_arg_mut` as a table-driven rewriting function over code points; the UCSC spellings
    named in the property rewrite to the native flags and native arguments are left alone (kernel-decided
    against the table, which the extractor regenerates from `cli.rs`). -/
namespace CLI

def isPrefix : List Nat → List Nat → Bool
  | [], _ => true
  | _ :: _, [] => false
  | a :: as, b :: bs => a == b && isPrefix as bs

/-- Rust `str::replace`: all non-overlapping occurrences, left to right -/
def replaceAll (find repl : List Nat) : Nat → List Nat → List Nat
  | 0, s => s
  | _, [] => []
  | fuel + 1, c :: cs =>
    if find ≠ [] ∧ isPrefix find (c :: cs) then repl ++ replaceAll find repl fuel ((c :: cs).drop find.length)
    else c :: replaceAll find repl fuel cs

inductive Res where
  | arg (a : List Nat)
  | panic
deriving DecidableEq, Repr

def REPLACE : List (List Nat × List Nat) := Gen.COMPAT_REPLACE
def IGNORE : List (List Nat) := Gen.COMPAT_IGNORE
def UNIMPLEMENTED : List (List Nat) := Gen.COMPAT_UNIMPLEMENTED

/-- the `match` of `compat_replace_mut!`: first arm whose prefix matches wins -/
def compatArg (a : List Nat) : Res :=
  match REPLACE.find? (fun fr => isPrefix fr.1 a) with
  | some fr => .arg (replaceAll fr.1 fr.2 (a.length + 1) a)
  | none =>
    if IGNORE.any (fun p => isPrefix p a) then .arg []
    else if UNIMPLEMENTED.any (fun p => isPrefix p a) then .panic
    else .arg a

def CASES : List (List Nat × List Nat) := [([45,117,110,99], [45,45,117,110,99,111,109,112,114,101,115,115,101,100]), ([45,98,108,111,99,107,83,105,122,101,61,53], [45,45,98,108,111,99,107,45,115,105,122,101,61,53]), ([45,99,104,114,111,109,61,99,104,114,49], [45,45,99,104,114,111,109,61,99,104,114,49]), ([45,115,116,97,114,116,61,53], [45,45,115,116,97,114,116,61,53]), ([45,101,110,100,61,57,48], [45,45,101,110,100,61,57,48]), ([45,99,104,114,111,109,115,61,97], [45,45,99,104,114,111,109,115,61,97]), ([45,105,116,101,109,115,80,101,114,83,108,111,116,61,55], [45,45,105,116,101,109,115,45,112,101,114,45,115,108,111,116,61,55]), ([45,122,111,111,109,115,61,49,48,44,52,48], [45,45,122,111,111,109,115,61,49,48,44,52,48]), ([45,97,115,61,120,46,97,115], [45,45,97,117,116,111,115,113,108,61,120,46,97,115]), ([45,45,117,110,99,111,109,112,114,101,115,115,101,100], [45,45,117,110,99,111,109,112,114,101,115,115,101,100]), ([45,45,99,104,114,111,109], [45,45,99,104,114,111,109]), ([45,116], [45,116]), ([105,110,46,98,101,100,71,114,97,112,104], [105,110,46,98,101,100,71,114,97,112,104]), ([45,45,98,108,111,99,107,45,115,105,122,101], [45,45,98,108,111,99,107,45,115,105,122,101])]

theorem compat_table_spec : CASES.all (fun c => compatArg c.1 == .arg c.2) = true := by decide +kernel

end CLI
