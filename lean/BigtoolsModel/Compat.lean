import BigtoolsModel.Generated.Consts
/-! Probe (C16): `compat_arg_mut` as a table-driven rewriting function over code points; the UCSC spellings
    named in the property rewrite to the native flags and native arguments are left alone (kernel-decided
    against the table, which the extractor regenerates from `cli.rs`). -/
namespace CLI

def isPrefix : List Nat → List Nat → Bool
  | [], _ => true
  | _ :: _, [] => false
  | a :: as, b :: bs => a == b && isPrefix as bs

/-- Rust `str::replace`: all non-overlapping occurrences, left to right -/
def replaceAll (find repl : List Nat) : Nat → List Nat → List Nat
  | 0, s => s
  | _, [] => []
  | fuel + 1, c :: cs =>
    if find ≠ [] ∧ isPrefix find (c :: cs) then repl ++ replaceAll find repl fuel ((c :: cs).drop find.length)
    else c :: replaceAll find repl fuel cs

inductive Res where
  | arg (a : List Nat)
  | panic
deriving DecidableEq, Repr

def REPLACE : List (List Nat × List Nat) := Gen.COMPAT_REPLACE
def IGNORE : List (List Nat) := Gen.COMPAT_IGNORE
def UNIMPLEMENTED : List (List Nat) := Gen.COMPAT_UNIMPLEMENTED

/-- the `match` of `compat_replace_mut!`: first arm whose prefix matches wins -/
def compatArg (a : List Nat) : Res :=
  match REPLACE.find? (fun fr => isPrefix fr.1 a) with
  | some fr => .arg (replaceAll fr.1 fr.2 (a.length + 1) a)
  | none =>
    if IGNORE.any (fun p => isPrefix p a) then .arg []
    else if UNIMPLEMENTED.any (fun p => isPrefix p a) then .panic
    else .arg a

def CASES : List (List Nat × List Nat) := [([45,117,110,99], [45,45,117,110,99,111,109,112,114,101,115,115,101,100]), ([45,98,108,111,99,107,83,105,122,101,61,53], [45,45,98,108,111,99,107,45,115,105,122,101,61,53]), ([45,99,104,114,111,109,61,99,104,114,49], [45,45,99,104,114,111,109,61,99,104,114,49]), ([45,115,116,97,114,116,61,53], [45,45,115,116,97,114,116,61,53]), ([45,101,110,100,61,57,48], [45,45,101,110,100,61,57,48]), ([45,99,104,114,111,109,115,61,97], [45,45,99,104,114,111,109,115,61,97]), ([45,105,116,101,109,115,80,101,114,83,108,111,116,61,55], [45,45,105,116,101,109,115,45,112,101,114,45,115,108,111,116,61,55]), ([45,122,111,111,109,115,61,49,48,44,52,48], [45,45,122,111,111,109,115,61,49,48,44,52,48]), ([45,97,115,61,120,46,97,115], [45,45,97,117,116,111,115,113,108,61,120,46,97,115]), ([45,45,117,110,99,111,109,112,114,101,115,115,101,100], [45,45,117,110,99,111,109,112,114,101,115,115,101,100]), ([45,45,99,104,114,111,109], [45,45,99,104,114,111,109]), ([45,116], [45,116]), ([105,110,46,98,101,100,71,114,97,112,104], [105,110,46,98,101,100,71,114,97,112,104]), ([45,45,98,108,111,99,107,45,115,105,122,101], [45,45,98,108,111,99,107,45,115,105,122,101])]

theorem compat_table_spec : CASES.all (fun c => compatArg c.1 == .arg c.2) = true := by decide +kernel

end CLI

namespace CLI

def lowerAscii (s : List Nat) : List Nat := s.map fun c => if 65 ≤ c ∧ c ≤ 90 then c + 32 else c

def endsWith (s suf : List Nat) : Bool := s.drop (s.length - suf.length) == suf

/-- `Path::file_name`: the part after the last `/` -/
def fileName (s : List Nat) : List Nat := (s.reverse.takeWhile (· ≠ 47)).reverse

def sBigtools : List Nat := [98, 105, 103, 116, 111, 111, 108, 115]

/-- the commands whose arguments are rewritten -/
def COMPAT_COMMANDS : List (List Nat) :=
  [[98,101,100,103,114,97,112,104,116,111,98,105,103,119,105,103],          -- bedgraphtobigwig
   [98,101,100,116,111,98,105,103,98,101,100],                              -- bedtobigbed
   [98,105,103,98,101,100,116,111,98,101,100],                              -- bigbedtobed
   [98,105,103,119,105,103,105,110,102,111],                                -- bigwiginfo
   [98,105,103,119,105,103,97,118,101,114,97,103,101,111,118,101,114,98,101,100],   -- bigwigaverageoverbed
   [98,105,103,119,105,103,116,111,98,101,100,103,114,97,112,104]]          -- bigwigtobedgraph

inductive ArgsRes where
  | args (l : List (List Nat))
  | panic
deriving DecidableEq, Repr

def mapCompat : List (List Nat) → ArgsRes
  | [] => .args []
  | a :: rest =>
    match compatArg a, mapCompat rest with
    | .arg a', .args r => .args (a' :: r)
    | _, _ => .panic

/-- `compat_args` (ASCII arguments; the `bigwigmerge` positional rewriting is not modelled): multicall dispatch on
    `bigtools <sub> …`, lower-casing of the program / sub-command token, rewriting of every argument of the
    listed commands. -/
def compatArgs : List (List Nat) → ArgsRes
  | [] => .args []
  | first :: rest =>
    if endsWith (lowerAscii first) sBigtools then
      match rest with
      | [] => .args [first]
      | second :: rest2 =>
        let second' := if lowerAscii second == [45, 118] then second else lowerAscii second
        let command := lowerAscii (fileName second')
        if COMPAT_COMMANDS.contains command then mapCompat (first :: second' :: rest2)
        else .args (first :: second' :: rest2)
    else
      let command := lowerAscii (fileName first)
      let first' := lowerAscii first
      if COMPAT_COMMANDS.contains command then mapCompat (first' :: rest) else .args (first' :: rest)

end CLI
