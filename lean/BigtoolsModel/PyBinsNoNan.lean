import BigtoolsModel.PyBins
/-! C20, "never NaN for finite data and finite `missing`", for EVERY bin width (integral or not): every cell of the array the
    model of `to_array_bins` (repaired) returns is `missing` or a quotient with a positive denominator, and no bin index
    outside the array is ever written (the model's `panic` is unreachable). Values are what `get_interval` hands over:
    non-empty after clipping to the request `[start, start + L)`. -/
namespace PYN

/-- a cell that is not NaN and not a panic -/
def Good : Res → Prop
  | .missing => True
  | .val _ d => 0 < d
  | .panic => False

theorem wFlush_good (sm : Summary) (b : WBin) : Good (wFlush repaired sm b) := by
  unfold wFlush
  cases hd : b.data with
  | none => simp [Good]
  | some d =>
    obtain ⟨c, v, z⟩ := d
    cases sm with
    | mean =>
      simp only [repaired, true_and]
      by_cases hc : c ≤ 0
      · simp [hc, Good]
      · simp only [hc, if_false, Good]; omega
    | min => simp [Good]
    | max => simp [Good]

theorem binOf_lt (L nb : Nat) (hnb : 0 < nb) (x : Int) (hx : x < (L : Int)) : binOf L nb x < nb := by
  unfold binOf
  by_cases h0 : x < 0
  · simp [h0, hnb]
  · simp only [h0, if_false]
    have hL : 0 < L := by omega
    have hx' : x.toNat < L := by omega
    rw [Nat.div_lt_iff_lt_mul hL, Nat.mul_comm nb L]
    exact Nat.mul_lt_mul_of_pos_right hx' hnb

theorem binOf_mono (L nb : Nat) (x y : Int) (h : x ≤ y) : binOf L nb x ≤ binOf L nb y := by
  unfold binOf
  by_cases hx : x < 0
  · simp [hx]
  · have hy : ¬ y < 0 := by omega
    simp only [hx, hy, if_false]
    exact Nat.div_le_div_right (Nat.mul_le_mul_right nb (by omega))

/-- every live bin has an index below `lim` -/
def AllLt (lim : Nat) (l : List WBin) : Prop := ∀ b ∈ l, b.idx < lim

theorem pushBins_allLt (L nb be lim : Nat) (hbe : be < lim) : ∀ (fuel : Nat) (live : List WBin) (bs : Nat),
    bs < lim → AllLt lim live → AllLt lim (pushBins L nb be fuel live bs) := by
  intro fuel
  induction fuel with
  | zero => intro live bs _ h; exact h
  | succ n ih =>
    intro live bs hbs h
    unfold pushBins
    cases hl : live.getLast? with
    | none =>
      simp only
      apply ih _ _ hbs
      intro b hb
      rcases List.mem_append.mp hb with hb | hb
      · exact h b hb
      · simp only [List.mem_singleton] at hb; subst hb; exact hbs
    | some last =>
      simp only
      by_cases hlt : last.idx < be
      · simp only [hlt, if_true]
        apply ih _ _ hbs
        intro b hb
        rcases List.mem_append.mp hb with hb | hb
        · exact h b hb
        · simp only [List.mem_singleton] at hb; subst hb; show last.idx + 1 < lim; omega
      · simp only [hlt, if_false]; exact h

theorem wAccum_allLt (sm : Summary) (is ie v : Int) (lim : Nat) : ∀ (l : List WBin), AllLt lim l → AllLt lim (wAccum sm is ie v l) := by
  intro l
  induction l with
  | nil => intro h; exact h
  | cons b rest ih =>
    intro h
    unfold wAccum
    split
    · exact h
    · intro x hx
      rcases List.mem_cons.mp hx with rfl | hx
      · exact h b (List.mem_cons_self)
      · exact ih (fun y hy => h y (List.mem_cons_of_mem _ hy)) x hx

/-- what is kept true along the run: live bins and finished cells carry indices inside the array, finished cells are good -/
structure Inv (sm : Summary) (nb : Nat) (st : WSt) : Prop where
  live_lt : AllLt nb st.live
  out_ok : ∀ kr ∈ st.out, kr.1 < nb ∧ Good kr.2

theorem wStep_inv (sm : Summary) (start : Int) (L nb : Nat) (hnb : 0 < nb) (hL : 0 < L) (st : WSt) (s e : Nat) (v : Int)
    (hs : start < (e : Int)) (he : (s : Int) < start + L) (hse : s < e) (h : Inv sm nb st) :
    Inv sm nb (wStep repaired sm start L nb st s e v) := by
  unfold wStep
  have his : max (s : Int) start - start ≤ min (e : Int) (start + L) - start - 1 := by omega
  have hie : min (e : Int) (start + L) - start - 1 < (L : Int) := by omega
  have hbe : binOf L nb (min (e : Int) (start + L) - start - 1) < nb := binOf_lt L nb hnb _ hie
  have hbs : binOf L nb (max (s : Int) start - start) < nb := Nat.lt_of_le_of_lt (binOf_mono L nb _ _ his) hbe
  constructor
  · apply wAccum_allLt
    apply pushBins_allLt L nb _ nb hbe _ _ _ hbs
    intro b hb
    exact h.live_lt b ((List.dropWhile_sublist _).subset hb)
  · intro kr hkr
    simp only at hkr
    rcases List.mem_append.mp hkr with hkr | hkr
    · exact h.out_ok kr hkr
    · obtain ⟨b, hb, rfl⟩ := List.mem_map.mp hkr
      exact ⟨h.live_lt b ((List.takeWhile_sublist _).subset hb), wFlush_good sm b⟩

/-- values as `get_interval` returns them for the request: each non-empty and meeting `[start, start + L)` -/
def Clipped (start : Int) (L : Nat) (vals : List (Nat × Nat × Int)) : Prop :=
  ∀ x ∈ vals, x.1 < x.2.1 ∧ start < (x.2.1 : Int) ∧ (x.1 : Int) < start + L

theorem fold_inv (sm : Summary) (start : Int) (L nb : Nat) (hnb : 0 < nb) (hL : 0 < L) : ∀ (vals : List (Nat × Nat × Int)) (st : WSt),
    Clipped start L vals → Inv sm nb st →
    Inv sm nb (vals.foldl (fun st x => wStep repaired sm start L nb st x.1 x.2.1 x.2.2) st) := by
  intro vals
  induction vals with
  | nil => intro st _ h; exact h
  | cons x rest ih =>
    intro st hc h
    simp only [List.foldl_cons]
    obtain ⟨h1, h2, h3⟩ := hc x (List.mem_cons_self)
    exact ih _ (fun y hy => hc y (List.mem_cons_of_mem _ hy)) (wStep_inv sm start L nb hnb hL st x.1 x.2.1 x.2.2 h2 h3 h1 h)

theorem writeOut_good (nb : Nat) : ∀ (out : List (Nat × Res)) (arr : List Res), arr.length = nb → (∀ r ∈ arr, Good r) →
    (∀ kr ∈ out, kr.1 < nb ∧ Good kr.2) →
    (out.foldl (fun arr (kr : Nat × Res) => if kr.1 < arr.length then arr.set kr.1 kr.2 else [Res.panic]) arr).length = nb ∧
    ∀ r ∈ out.foldl (fun arr (kr : Nat × Res) => if kr.1 < arr.length then arr.set kr.1 kr.2 else [Res.panic]) arr, Good r := by
  intro out
  induction out with
  | nil => intro arr hl hg _; exact ⟨hl, hg⟩
  | cons kr rest ih =>
    intro arr hl hg ho
    simp only [List.foldl_cons]
    obtain ⟨hk, hgood⟩ := ho kr (List.mem_cons_self)
    have hlt : kr.1 < arr.length := by omega
    simp only [hlt, if_true]
    apply ih
    · simp [hl]
    · intro r hr
      rcases List.mem_or_eq_of_mem_set hr with hr | rfl
      · exact hg r hr
      · exact hgood
    · intro x hx; exact ho x (List.mem_cons_of_mem _ hx)

/-- **No NaN, no write outside the array, for every bin width.** For every request (`L` bases from `start`, `nb > 0` bins),
    every statistic and every list of values as the reader hands them over: the array has `nb` cells, and each is `missing` or
    a quotient with a positive denominator — never `0/0`, never the out-of-range marker. -/
theorem bins_no_nan (sm : Summary) (start : Int) (L nb : Nat) (hnb : 0 < nb) (hL : 0 < L) (vals : List (Nat × Nat × Int))
    (hc : Clipped start L vals) :
    (toArrayBins repaired sm start L nb vals).length = nb ∧ ∀ r ∈ toArrayBins repaired sm start L nb vals, Good r := by
  unfold toArrayBins writeOut
  have hinv := fold_inv sm start L nb hnb hL vals ⟨[], []⟩ hc ⟨by intro b hb; simp at hb, by intro kr hkr; simp at hkr⟩
  apply writeOut_good nb _ _ (by simp)
  · intro r hr; rw [List.mem_replicate] at hr; rw [hr.2]; simp [Good]
  · intro kr hkr
    rcases List.mem_append.mp hkr with hkr | hkr
    · exact hinv.out_ok kr hkr
    · obtain ⟨b, hb, rfl⟩ := List.mem_map.mp hkr
      exact ⟨hinv.live_lt b hb, wFlush_good sm b⟩

-- requests of non-integral width: 7 bases in 3 bins, 5 bases in 2 bins; as found the second one was 0/0 (D11(a))
example : toArrayBins repaired .mean 0 7 3 [(1, 2, 4), (3, 6, 2)] = [.val 4 1, .val 2 1, .val 4 2] := by decide
example : toArrayBins asFound .mean 0 5 2 [(2, 3, 1)] = [.val 0 0, .missing] ∧ ¬ Good (.val 0 0) := ⟨by decide, by simp [Good]⟩
example : Clipped 0 7 [(1, 2, 4), (3, 6, 2)] := by
  intro x hx
  simp only [List.mem_cons, List.not_mem_nil, or_false] at hx
  rcases hx with rfl | rfl <;> decide

/-! ### the bigBed twin: `to_entry_array_bins` -/

theorem sum_pos_of_any_pos : ∀ (l : List Nat), l.any (· > 0) = true → 0 < l.sum := by
  intro l
  induction l with
  | nil => intro h; simp at h
  | cons a rest ih =>
    intro h
    simp only [List.any_cons, Bool.or_eq_true, decide_eq_true_eq] at h
    simp only [List.sum_cons]
    rcases h with h | h
    · omega
    · have := ih h; omega

theorem eFlush_good (sm : Summary) (b : EBin) : Good (eFlush repaired sm b) := by
  unfold eFlush
  cases sm with
  | mean =>
    simp only
    split
    · rename_i h; simp only [Good]; exact sum_pos_of_any_pos _ h
    · simp [Good]
  | min =>
    simp only
    split
    · split <;> simp [Good, repaired]
    · simp [Good]
  | max =>
    simp only
    split
    · split <;> simp [Good, repaired]
    · simp [Good]

def EAllLt (lim : Nat) (l : List EBin) : Prop := ∀ b ∈ l, b.idx < lim

theorem pushEBins_allLt (fx : Fix) (m : Int) (L nb be lim : Nat) (hbe : be < lim) : ∀ (fuel : Nat) (live : List EBin) (bs : Nat),
    bs < lim → EAllLt lim live → EAllLt lim (pushEBins fx m L nb be fuel live bs) := by
  intro fuel
  induction fuel with
  | zero => intro live bs _ h; exact h
  | succ n ih =>
    intro live bs hbs h
    unfold pushEBins
    cases hl : live.getLast? with
    | none =>
      simp only
      apply ih _ _ hbs
      intro b hb
      rcases List.mem_append.mp hb with hb | hb
      · exact h b hb
      · simp only [List.mem_singleton] at hb; subst hb; exact hbs
    | some last =>
      simp only
      by_cases hlt : last.idx < be
      · simp only [hlt, if_true]
        apply ih _ _ hbs
        intro b hb
        rcases List.mem_append.mp hb with hb | hb
        · exact h b hb
        · simp only [List.mem_singleton] at hb; subst hb; show last.idx + 1 < lim; omega
      · simp only [hlt, if_false]; exact h

theorem eAccum_allLt (is ie : Int) (lim : Nat) : ∀ (l : List EBin), EAllLt lim l → EAllLt lim (eAccum is ie l) := by
  intro l
  induction l with
  | nil => intro h; exact h
  | cons b rest ih =>
    intro h
    unfold eAccum
    split
    · exact h
    · intro x hx
      rcases List.mem_cons.mp hx with rfl | hx
      · exact h b (List.mem_cons_self)
      · exact ih (fun y hy => h y (List.mem_cons_of_mem _ hy)) x hx

structure EInv (sm : Summary) (nb : Nat) (st : ESt) : Prop where
  live_lt : EAllLt nb st.live
  out_ok : ∀ kr ∈ st.out, kr.1 < nb ∧ Good kr.2

theorem eStep_inv (sm : Summary) (m : Int) (start : Int) (L nb : Nat) (hnb : 0 < nb) (st : ESt) (s e : Nat)
    (h : EInv sm nb st) : EInv sm nb (eStep repaired sm m start L nb st s e) := by
  unfold eStep
  simp only [repaired, true_and]
  split
  · exact h
  · rename_i hlt
    have his : max (s : Int) start - start ≤ min (e : Int) (start + L) - start - 1 := by omega
    have hie : min (e : Int) (start + L) - start - 1 < (L : Int) := by omega
    have hbe : binOf L nb (min (e : Int) (start + L) - start - 1) < nb := binOf_lt L nb hnb _ hie
    have hbs : binOf L nb (max (s : Int) start - start) < nb := Nat.lt_of_le_of_lt (binOf_mono L nb _ _ his) hbe
    constructor
    · apply eAccum_allLt
      apply pushEBins_allLt _ _ L nb _ nb hbe _ _ _ hbs
      intro b hb
      exact h.live_lt b ((List.dropWhile_sublist _).subset hb)
    · intro kr hkr
      simp only at hkr
      rcases List.mem_append.mp hkr with hkr | hkr
      · exact h.out_ok kr hkr
      · obtain ⟨b, hb, rfl⟩ := List.mem_map.mp hkr
        exact ⟨h.live_lt b ((List.takeWhile_sublist _).subset hb), eFlush_good sm b⟩

theorem efold_inv (sm : Summary) (m : Int) (start : Int) (L nb : Nat) (hnb : 0 < nb) : ∀ (es : List (Nat × Nat)) (st : ESt),
    EInv sm nb st → EInv sm nb (es.foldl (fun st x => eStep repaired sm m start L nb st x.1 x.2) st) := by
  intro es
  induction es with
  | nil => intro st h; exact h
  | cons x rest ih => intro st h; simp only [List.foldl_cons]; exact ih _ (eStep_inv sm m start L nb hnb st x.1 x.2 h)

/-- **bigBed exact bins: no NaN, no write outside the array, for every bin width and EVERY list of entries** (overlapping,
    nested, reaching outside the request or only touching it). -/
theorem entry_bins_no_nan (sm : Summary) (m : Int) (start : Int) (L nb : Nat) (hnb : 0 < nb) (es : List (Nat × Nat)) :
    (toEntryArrayBins repaired sm m start L nb es).length = nb ∧ ∀ r ∈ toEntryArrayBins repaired sm m start L nb es, Good r := by
  unfold toEntryArrayBins writeOut
  have hinv := efold_inv sm m start L nb hnb es ⟨[], []⟩ ⟨by intro b hb; simp at hb, by intro kr hkr; simp at hkr⟩
  apply writeOut_good nb _ _ (by simp)
  · intro r hr; rw [List.mem_replicate] at hr; rw [hr.2]; simp [Good]
  · intro kr hkr
    rcases List.mem_append.mp hkr with hkr | hkr
    · exact hinv.out_ok kr hkr
    · obtain ⟨b, hb, rfl⟩ := List.mem_map.mp hkr
      exact ⟨hinv.live_lt b hb, eFlush_good sm b⟩

end PYN
