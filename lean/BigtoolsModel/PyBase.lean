/-! Probe (C20): the per-base routines `to_array` (bigWig) and `to_entry_array` (bigBed, repaired: entries are
    clipped to the range) fill every cell with the sum of the weights of the items covering that base
    (the stored value for disjoint bigWig values; the number of overlapping entries for bigBed) and leave a
    cell "missing" exactly when nothing covers it — for every range, every item list the reader can return. -/
namespace PYB

inductive Out (α : Type) where
  | ok (a : α)
  | panic                      -- ndarray index out of bounds
deriving Repr, DecidableEq

/-- `x as usize` for an `i32`: negative numbers wrap to something huge -/
def asUsize (x : Int) : Nat := if x < 0 then 2 ^ 64 - x.natAbs else x.toNat

/-- `for i in lo..hi { v[i] = f(v[i]) }` on an ndarray view -/
def updRange {α} (f : α → α) (v : List α) (lo hi : Nat) : Out (List α) :=
  if lo ≥ hi then .ok v
  else if hi > v.length then .panic
  else .ok (v.mapIdx fun i x => if lo ≤ i ∧ i < hi then f x else x)

structure Item where
  s : Nat
  e : Nat
  w : Int          -- 1 for a bigBed entry, the value for a bigWig interval
deriving Repr, DecidableEq

/-- a cell: `none` = still NaN -/
def bump (w : Int) (x : Option Int) : Option Int := some (x.getD 0 + w)

/-- `clip = true`: the repaired `to_entry_array` (`max(start)`, `min(end)`); `clip = false`: `to_array`, and
    `to_entry_array` as found -/
def bounds (clip : Bool) (start stop : Int) (it : Item) : Nat × Nat :=
  if clip then (asUsize (max (it.s : Int) start - start), asUsize (min (it.e : Int) stop - start))
  else (asUsize ((it.s : Int) - start), asUsize ((it.e : Int) - start))

/-- `values()` of the Rust reader: the cell is overwritten -/
def assign (w : Int) (_ : Option Int) : Option Int := some w

/-- the loop over the items, for any per-cell update `upd` (`bump`: the Python routines; `assign`: `values()`) -/
def loopG (upd : Int → Option Int → Option Int) (clip : Bool) (start stop : Int) :
    List Item → List (Option Int) → Out (List (Option Int))
  | [], v => .ok v
  | it :: rest, v =>
    match updRange (upd it.w) v (bounds clip start stop it).1 (bounds clip start stop it).2 with
    | .panic => .panic
    | .ok v' => loopG upd clip start stop rest v'

abbrev loop := loopG bump

def perBaseG (upd : Int → Option Int → Option Int) (clip : Bool) (start stop : Int) (items : List Item) :
    Out (List (Option Int)) :=
  loopG upd clip start stop items (List.replicate (stop - start).toNat none)

abbrev perBase := perBaseG bump

/-- what a cell holding `x` becomes after the covering items, in order -/
def afterG (upd : Int → Option Int → Option Int) (x : Option Int) (cov : List Item) : Option Int :=
  cov.foldl (fun acc it => upd it.w acc) x

/-- items covering base `start + i` -/
def covering (start : Int) (items : List Item) (i : Nat) : List Item :=
  items.filter fun it => decide ((it.s : Int) ≤ start + i ∧ start + (i : Int) < it.e)

def wsum (l : List Item) : Int := (l.map (·.w)).sum

/-- what a cell holding `x` becomes after the items `items` -/
def after (x : Option Int) (cov : List Item) : Option Int :=
  if cov = [] then x else some (x.getD 0 + wsum cov)

theorem after_nil (x : Option Int) : after x [] = x := by simp [after]

theorem after_cons_cov (x : Option Int) (it : Item) (cov : List Item) :
    after (bump it.w x) cov = after x (it :: cov) := by
  unfold after bump wsum
  by_cases h : cov = []
  · subst h; simp
  · simp [h]; omega

/-- the index range an item touches, when it lies inside the array -/
theorem covers_iff (start : Int) (it : Item) (L i : Nat) (lo hi : Nat) (hi_le : hi ≤ L) (hiL : i < L)
    (hlo : (lo : Int) = max (it.s : Int) start - start) (hhi : (hi : Int) = min (it.e : Int) (start + L) - start) :
    (lo ≤ i ∧ i < hi) ↔ ((it.s : Int) ≤ start + i ∧ start + (i : Int) < it.e) := by
  constructor
  · rintro ⟨h1, h2⟩
    have a1 : (lo : Int) ≤ i := by exact_mod_cast h1
    have a2 : (i : Int) < hi := by exact_mod_cast h2
    omega
  · rintro ⟨h1, h2⟩
    have a3 : (i : Int) < L := by exact_mod_cast hiL
    constructor
    · have : (lo : Int) ≤ i := by omega
      exact_mod_cast this
    · have : (i : Int) < hi := by omega
      exact_mod_cast this

theorem asUsize_nonneg (x : Int) (h : 0 ≤ x) : ((asUsize x : Nat) : Int) = x := by
  unfold asUsize
  simp [show ¬ x < 0 by omega, Int.toNat_of_nonneg h]

/-- the reader's guarantee for bigBed entries (inclusive filter) and bigWig values (strict, clipped) -/
def Reachable (start stop : Int) (it : Item) : Prop := start ≤ it.e ∧ (it.s : Int) ≤ stop

theorem loopG_spec (upd : Int → Option Int → Option Int) (start : Int) (L : Nat) :
    ∀ (items : List Item) (v : List (Option Int)), v.length = L →
    (∀ it ∈ items, Reachable start (start + L) it) →
    loopG upd true start (start + L) items v = .ok (v.mapIdx fun i x => afterG upd x (covering start items i)) := by
  intro items
  induction items with
  | nil =>
    intro v _ _
    simp only [loopG, covering, List.filter_nil, afterG, List.foldl_nil]
    congr 1
    apply List.ext_getElem
    · simp
    · intro i h1 h2; simp
  | cons it rest ih =>
    intro v hv hr
    obtain ⟨r1, r2⟩ := hr it (by simp)
    have hlo0 : 0 ≤ max (it.s : Int) start - start := by omega
    have hhi0 : 0 ≤ min (it.e : Int) (start + L) - start := by omega
    have hlo := asUsize_nonneg _ hlo0
    have hhi := asUsize_nonneg _ hhi0
    have hhiL : asUsize (min (it.e : Int) (start + L) - start) ≤ L := by
      have : ((asUsize (min (it.e : Int) (start + L) - start) : Nat) : Int) ≤ L := by rw [hhi]; omega
      exact_mod_cast this
    simp only [loopG, bounds, if_true]
    -- both branches of `updRange` give the same pointwise description
    have hupd : ∃ v', updRange (upd it.w) v (asUsize (max (it.s : Int) start - start))
          (asUsize (min (it.e : Int) (start + L) - start)) = .ok v' ∧ v'.length = L ∧
          ∀ i (h : i < v'.length) (h' : i < v.length), v'[i] =
            if ((it.s : Int) ≤ start + i ∧ start + (i : Int) < it.e) then upd it.w v[i] else v[i] := by
      unfold updRange
      split
      · rename_i hge
        refine ⟨v, rfl, hv, ?_⟩
        intro i h h'
        have hi : i < L := by omega
        have := covers_iff start it L i _ _ hhiL hi hlo hhi
        have hn : ¬ ((it.s : Int) ≤ start + i ∧ start + (i : Int) < it.e) := by
          rw [← this]; omega
        simp [hn]
      · rw [if_neg (by omega)]
        refine ⟨_, rfl, by simp [hv], ?_⟩
        intro i h h'
        have hi : i < L := by omega
        have := covers_iff start it L i _ _ hhiL hi hlo hhi
        simp only [List.getElem_mapIdx]
        by_cases hc : ((it.s : Int) ≤ start + i ∧ start + (i : Int) < it.e)
        · simp only [hc, and_self, if_true]; rw [if_pos (this.mpr hc)]
        · simp only [hc, if_false]; rw [if_neg (fun hh => hc (this.mp hh))]
    obtain ⟨v', hv', hlen', hpt⟩ := hupd
    rw [hv']
    simp only
    rw [ih v' hlen' (fun x hx => hr x (by simp [hx]))]
    congr 1
    apply List.ext_getElem
    · simp [hlen', hv]
    · intro i h1 h2
      simp only [List.getElem_mapIdx]
      have hi' : i < v'.length := by simpa using h1
      have hi : i < v.length := by simpa using h2
      rw [hpt i hi' hi]
      simp only [covering, List.filter_cons]
      by_cases hc : ((it.s : Int) ≤ start + i ∧ start + (i : Int) < it.e)
      · simp only [hc, and_self, decide_true, if_true, afterG, List.foldl_cons]
      · simp only [hc, decide_false, if_false, Bool.false_eq_true]

theorem afterG_bump (x : Option Int) (cov : List Item) : afterG bump x cov = after x cov := by
  induction cov generalizing x with
  | nil => simp [afterG, after]
  | cons it cov ih =>
    have : afterG bump x (it :: cov) = afterG bump (bump it.w x) cov := rfl
    rw [this, ih, after_cons_cov]

theorem afterG_assign (x : Option Int) (cov : List Item) :
    afterG assign x cov = match cov.getLast? with | some it => some it.w | none => x := by
  induction cov generalizing x with
  | nil => simp [afterG]
  | cons it cov ih =>
    have : afterG assign x (it :: cov) = afterG assign (assign it.w x) cov := rfl
    rw [this, ih]
    cases cov with
    | nil => simp [assign]
    | cons c cs =>
      rw [List.getLast?_cons_cons]
      cases h : (c :: cs).getLast? with
      | none => simp at h
      | some y => rfl

theorem loop_spec (start : Int) (L : Nat) (items : List Item) (v : List (Option Int)) (hv : v.length = L)
    (hr : ∀ it ∈ items, Reachable start (start + L) it) :
    loop true start (start + L) items v = .ok (v.mapIdx fun i x => after x (covering start items i)) := by
  rw [show loop = loopG bump from rfl, loopG_spec bump start L items v hv hr]
  simp only [afterG_bump]

/-- **C20, per-base routines (repaired `to_entry_array`; `to_array` on the reader's clipped values).**
    For every range `[start, start+L)` and every list of items the reader can return for it, the routine
    does not panic and cell `i` holds the sum of the weights of the items covering base `start + i`
    (`none` = reported as `missing`) — the depth for bigBed entries (all weights 1). -/
theorem perBase_spec (start : Int) (L : Nat) (items : List Item)
    (hr : ∀ it ∈ items, Reachable start (start + L) it) :
    perBase true start (start + L) items =
      .ok ((List.range L).map fun i =>
        if covering start items i = [] then none else some (wsum (covering start items i))) := by
  show loopG bump true start (start + L) items (List.replicate (start + L - start).toNat none) = _
  have hL : (start + L - start).toNat = L := by
    have : start + (L : Int) - start = L := by omega
    rw [this]; exact Int.toNat_natCast L
  rw [hL, show loopG bump = loop from rfl, loop_spec start L items _ (by simp) hr]
  congr 1
  apply List.ext_getElem
  · simp
  · intro i h1 h2
    simp [after]

/-- when `to_array` receives values already clipped to the range (what `get_interval` returns), clipping
    again changes nothing: the unclipped routine and the clipped one coincide -/
theorem bounds_clip_irrelevant (start stop : Int) (it : Item) (h1 : start ≤ it.s) (h2 : (it.e : Int) ≤ stop) :
    bounds false start stop it = bounds true start stop it := by
  simp only [bounds, Bool.false_eq_true, if_false, if_true]
  rw [Int.max_eq_left h1, Int.min_eq_left h2]

/-- **C03, `BigWigRead::values`.** For every range and every list of block values clipped to it, the array
    holds at base `start + i` the value of the last returned item covering it (the only one, values being
    disjoint) and `none` (NaN) where nothing covers it; no slice is out of bounds. -/
theorem values_spec (start : Int) (L : Nat) (items : List Item)
    (hclip : ∀ it ∈ items, start ≤ it.s ∧ it.s ≤ it.e ∧ (it.e : Int) ≤ start + L) :
    perBaseG assign false start (start + L) items =
      .ok ((List.range L).map fun i => (covering start items i).getLast?.map (·.w)) := by
  have hL : (start + L - start).toNat = L := by
    have : start + (L : Int) - start = L := by omega
    rw [this]; exact Int.toNat_natCast L
  have hsame : ∀ (its : List Item) (v : List (Option Int)), (∀ it ∈ its, start ≤ it.s ∧ it.s ≤ it.e ∧ (it.e : Int) ≤ start + L) →
      loopG assign false start (start + L) its v = loopG assign true start (start + L) its v := by
    intro its
    induction its with
    | nil => intro v _; rfl
    | cons it rest ih =>
      intro v h
      have hb := bounds_clip_irrelevant start (start + L) it (h it (by simp)).1 (h it (by simp)).2.2
      simp only [loopG, hb]
      cases updRange (assign it.w) v (bounds true start (start + L) it).1 (bounds true start (start + L) it).2 with
      | panic => rfl
      | ok v' => exact ih v' (fun x hx => h x (by simp [hx]))
  unfold perBaseG
  rw [hL, hsame items _ hclip, loopG_spec assign start L items _ (by simp)
    (fun it hit => ⟨by have := hclip it hit; omega, by have := hclip it hit; omega⟩)]
  congr 1
  apply List.ext_getElem
  · simp
  · intro i h1 h2
    simp only [List.getElem_mapIdx, List.getElem_replicate, List.getElem_map, List.getElem_range, afterG_assign]
    cases (covering start items i).getLast? <;> rfl

/-- bigBed: the weight sum of unit-weight items is their number -/
theorem wsum_unit (l : List Item) (h : ∀ it ∈ l, it.w = 1) : wsum l = l.length := by
  induction l with
  | nil => rfl
  | cons x xs ih =>
    have := ih (fun it hit => h it (by simp [hit]))
    simp only [wsum, List.map_cons, List.sum_cons, List.length_cons] at this ⊢
    rw [h x (by simp), this]; omega

/-- as found, an entry reaching beyond the range end makes `to_entry_array` panic (D11) -/
theorem as_found_panics : perBase false 10 20 [⟨5, 15, 1⟩, ⟨10, 25, 1⟩] = .panic := by decide

/-- the hypotheses of `perBase_spec` are met by a list with an entry hanging over each end, and the result is the depth -/
example : perBase true 10 20 [⟨5, 15, 1⟩, ⟨10, 25, 1⟩, ⟨20, 30, 1⟩] =
    .ok [some 2, some 2, some 2, some 2, some 2, some 1, some 1, some 1, some 1, some 1] := by decide

end PYB
