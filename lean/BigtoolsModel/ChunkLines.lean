import BigtoolsModel.Chunker
/-! Probe (C17/C18): the chunks `split_file_into_chunks_by_size` produces partition the LINES of the file in
    order: the lines starting inside chunk 1, then those inside chunk 2, … are exactly lines 0, 1, 2, … of the
    file, each once. With `FileView` serving exactly a chunk's bytes (`FView.step_refines`) and every cut on a
    line boundary (`split_good`), processing the chunks in order is processing the file in order — for every
    file and every number of chunks (threads). -/
namespace CH

/-- indices (counting from `idx`) of the lines whose first byte lies in `[a, b)`; `off` = offset of the first line -/
def linesIn : Nat → Nat → List Nat → Nat → Nat → List Nat
  | _, _, [], _, _ => []
  | off, idx, l :: ls, a, b => (if a ≤ off ∧ off < b then [idx] else []) ++ linesIn (off + l) (idx + 1) ls a b

theorem linesIn_split (m : Nat) : ∀ (ls : List Nat) (off idx a b : Nat), a ≤ m → m ≤ b →
    linesIn off idx ls a b = linesIn off idx ls a m ++ linesIn off idx ls m b := by
  intro ls
  induction ls with
  | nil => intro off idx a b _ _; rfl
  | cons l ls ih =>
    intro off idx a b h1 h2
    simp only [linesIn]
    rw [ih (off + l) (idx + 1) a b h1 h2]
    by_cases hm : off < m
    · -- the line starts before `m`: it can only be in the left part, and nothing earlier-in-file follows it on the right
      have hr : ¬ (m ≤ off ∧ off < b) := by omega
      simp only [hr, if_false, List.nil_append]
      by_cases ha : a ≤ off
      · simp only [show a ≤ off ∧ off < b from ⟨ha, by omega⟩, show a ≤ off ∧ off < m from ⟨ha, hm⟩, and_self, if_true,
          List.cons_append, List.nil_append, List.append_assoc]
      · simp only [show ¬ (a ≤ off ∧ off < b) by omega, show ¬ (a ≤ off ∧ off < m) by omega, if_false,
          List.nil_append, List.append_assoc]
    · -- the line starts at or after `m`: so do all later lines, the left part is empty from here on
      have hl : ¬ (a ≤ off ∧ off < m) := by omega
      have hleft : ∀ (ls' : List Nat) (off' idx' : Nat), m ≤ off' → linesIn off' idx' ls' a m = [] := by
        intro ls'
        induction ls' with
        | nil => intro _ _ _; rfl
        | cons l' ls' ih' =>
          intro off' idx' ho
          simp only [linesIn, show ¬ (a ≤ off' ∧ off' < m) by omega, if_false, List.nil_append]
          exact ih' _ _ (by omega)
      simp only [hl, if_false, List.nil_append, hleft ls (off + l) (idx + 1) (by omega)]
      by_cases hb : off < b
      · simp only [show a ≤ off ∧ off < b by omega, show m ≤ off ∧ off < b by omega, and_self, if_true]
      · simp only [show ¬ (a ≤ off ∧ off < b) by omega, show ¬ (m ≤ off ∧ off < b) by omega, if_false]

/-- every line starts inside `[off, off + size)` when lines are non-empty -/
theorem linesIn_all : ∀ (ls : List Nat) (off idx : Nat), Lines ls →
    linesIn off idx ls off (off + ls.sum) = (List.range ls.length).map (· + idx) := by
  intro ls
  induction ls with
  | nil => intro off idx _; rfl
  | cons l ls ih =>
    intro off idx hl
    have h1 : 1 ≤ l := hl l (by simp)
    have hls : Lines ls := fun x hx => hl x (by simp [hx])
    simp only [linesIn, List.sum_cons, show off ≤ off ∧ off < off + (l + ls.sum) by omega, and_self, if_true,
      List.length_cons]
    -- lines after the first start at `off + l` or later: widening the window to the left changes nothing
    have hwiden : ∀ (ls' : List Nat) (off' idx' lo hi : Nat), off + l ≤ off' →
        linesIn off' idx' ls' off hi = linesIn off' idx' ls' (off + l) hi := by
      intro ls'
      induction ls' with
      | nil => intro _ _ _ _ _; rfl
      | cons l' ls' ih' =>
        intro off' idx' lo hi ho
        simp only [linesIn]
        rw [ih' (off' + l') (idx' + 1) lo hi (by omega)]
        by_cases hh : off' < hi
        · simp only [show off ≤ off' ∧ off' < hi by omega, show off + l ≤ off' ∧ off' < hi by omega]
        · simp only [show ¬ (off ≤ off' ∧ off' < hi) by omega, show ¬ (off + l ≤ off' ∧ off' < hi) by omega]
    rw [hwiden ls (off + l) (idx + 1) 0 _ (Nat.le_refl _), show off + (l + ls.sum) = off + l + ls.sum by omega,
      ih (off + l) (idx + 1) hls, List.range_succ_eq_map, List.map_cons, List.map_map]
    simp only [Nat.zero_add, List.singleton_append, List.cons.injEq, true_and]
    apply List.map_congr_left
    intro k _
    simp only [Function.comp]; omega

theorem bounds_le : ∀ (ls : List Nat) (off x : Nat), x ∈ bounds off ls → x ≤ off + ls.sum := by
  intro ls
  induction ls with
  | nil => intro off x h; simp [bounds] at h; omega
  | cons l ls ih =>
    intro off x h
    simp only [bounds, List.mem_cons] at h
    simp only [List.sum_cons]
    rcases h with rfl | h
    · omega
    · have := ih (off + l) x h; omega

/-- lines of a contiguous chain of chunks = lines of the union -/
theorem good_lines (ls : List Nat) : ∀ (chunks : List (Nat × Nat)) (start : Nat), Good ls start chunks → start ≤ size ls →
    chunks.flatMap (fun c => linesIn 0 0 ls c.1 c.2) = linesIn 0 0 ls start (size ls) := by
  intro chunks
  induction chunks with
  | nil => intro start h _; simp [Good] at h
  | cons c rest ih =>
    intro start h hs
    cases rest with
    | nil =>
      obtain ⟨h1, h2, _⟩ := h
      simp only [List.flatMap_cons, List.flatMap_nil, List.append_nil, h1, h2]
    | cons d rest' =>
      obtain ⟨h1, h2, h3, h4⟩ := h
      have hle : c.2 ≤ size ls := by
        have := bounds_le ls 0 c.2 h2
        simpa [size] using this
      rw [List.flatMap_cons, ih c.2 h4 hle, h1]
      exact (linesIn_split c.2 ls 0 0 start (size ls) (by omega) hle).symm

/-- **Chunks partition the lines in order.** For every file with non-empty lines and every requested number
    of chunks ≥ 1, reading the chunks one after the other yields line 0, line 1, … exactly once each. -/
theorem chunks_partition_lines (ls : List Nat) (hl : Lines ls) (chunks : Nat) (hc : 1 ≤ chunks) :
    (split ls chunks).flatMap (fun c => linesIn 0 0 ls c.1 c.2) = List.range ls.length := by
  rw [good_lines ls _ 0 (split_good ls hl chunks hc) (Nat.zero_le _)]
  have := linesIn_all ls 0 0 hl
  simp only [Nat.zero_add, Nat.add_zero, List.map_id'] at this
  simpa [size] using this

end CH
