import BigtoolsModel.Indexer
/-! Probe: a repaired bisection (explicit exclusive upper bound; recurse into the left half when the probe
    finds no new boundary) checked exhaustively on small grouped files against the linear reference. -/
namespace IX

def doIndexFixed (f : File) : Nat → St → Nat → Option Nat → Nat → Option St
  | 0, _, _, _, _ => none
  | limit + 1, st, prevId, nextId, hi =>
    match find st prevId with
    | none => none
    | some prev =>
      if hi ≤ prev.off + 1 then some st else
      let nextEnt := nextId.bind (find st)
      let m := prev.off + (hi - prev.off - 1) / 2
      let tell := lineEndAfter 0 f m
      if tell ≥ hi then
        -- no line starts in (m, hi): keep looking in (prev, m]
        doIndexFixed f limit st prevId nextId (m + 1)
      else
        match chromAt 0 f tell with
        | none => some st
        | some chrom =>
          let (st1, currId) := insertAfter st prevId tell chrom
          let left : Bool := decide (chrom ≠ prev.chrom)
          let right : Bool := match nextEnt with
            | some n => decide (chrom ≠ n.chrom)
            | none => true
          let st2 := if left then doIndexFixed f limit st1 prevId (some currId) tell else some st1
          st2.bind fun s => if right then doIndexFixed f limit s currId nextId hi else some s

def indexFixed (f : File) : Option (Option (List (Nat × Nat))) :=
  match f with
  | [] => none
  | first :: _ =>
    let st0 : St := { list := [⟨0, 0, first.1⟩], nextId := 1 }
    match doIndexFixed f 200 st0 0 none (fsize f) with
    | none => none
    | some st =>
      let d := dedupAdj st.list
      let chroms := d.map (·.chrom)
      if chroms.eraseDups.length = chroms.length then some (some (d.map fun e => (e.off, e.chrom))) else some none

/-- all files with `k` runs (chromosomes 1..k), each run 1..maxRun lines, line lengths from `lens` -/
def allLines (lens : List Nat) : Nat → List (List Nat)
  | 0 => [[]]
  | n + 1 => (allLines lens n).flatMap fun rest => lens.map fun l => l :: rest

def allFiles (lens : List Nat) (maxRun : Nat) : Nat → Nat → List File
  | 0, _ => [[]]
  | k + 1, c =>
    (List.range maxRun).flatMap fun r =>
      (allLines lens (r + 1)).flatMap fun ls =>
        (allFiles lens maxRun k (c + 1)).map fun rest => (ls.map fun l => (c, l)) ++ rest

def check (fs : List File) : Nat × Nat × Nat :=
  fs.foldl (fun (acc : Nat × Nat × Nat) f =>
    if f = [] then acc else
    let want := some (some (runStarts 0 none f))
    (acc.1 + 1,
     acc.2.1 + (if indexFixed f = want then 0 else 1),
     acc.2.2 + (if indexChroms f = want then 0 else 1))) (0, 0, 0)

-- (files, failures of the repaired bisection, failures of the bisection as found)
#eval check ((List.range 4).flatMap fun k => allFiles [1, 2, 9, 40] 3 k 1)
end IX
