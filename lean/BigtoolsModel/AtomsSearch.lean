import BigtoolsModel.AtomsNorm
/-! The entry points of the index search (`search_cir_tree`, `search_cir_tree_inner`, bbiread.rs): which chromosome id the search is run
    with, whether anything makes it return before the index is walked, and whether the walk is cut short. The search theorems
    (`RT.search`, `CirBytes`, `C03`–`C05`, `C10`) are about a complete walk for the id stored in the chromosome tree; these three facts,
    regenerated on every run, are what connects the entry points to that. -/
namespace SC

/-- the search runs with the id STORED in the chromosome tree entry (not with the entry's position in the name order), returns early
    under no condition, and collects every block the walk yields (no `take`, `skip`, `step_by` … on it) -/
theorem gen_search_entry (cid ix : Nat) :
    Gen.sc_chrom_id cid ix = cid ∧ Gen.sc_early_returns = [] ∧ Gen.sc_walk_adaptors = [] := by
  delta Gen.sc_chrom_id Gen.sc_early_returns Gen.sc_walk_adaptors
  refine ⟨?_, ?_, ?_⟩ <;> first | rfl | decide | omega

end SC
