import BigtoolsModel.AtomsNorm
import BigtoolsModel.Compressed
/-! The readers' block fetch (`read_block_data`, bbiread.rs): how many bytes are read at the block's offset, whether they are inflated,
    and how large the buffer is that libdeflate inflates into. The reader theorems (`Compressed.lean`) treat `inflate` as a total
    function; the real call fails (`InsufficientSpace`, then a panic on `unwrap`) when the inflated block is longer than the buffer.
    `RB.fetch` is the fetch with that bound; with the buffer the source allocates (regenerated), it succeeds on every block of a file
    whose header field `uncompress_buf_size` bounds its blocks — which is what both judges of well-formedness check — however well the
    block compresses. -/
namespace RB
open BBI

/-- the regenerated expressions: `block.size` bytes are read; a file is compressed iff `uncompress_buf_size > 0`; the inflate buffer
    is exactly `uncompress_buf_size` bytes, whatever the compressed size -/
theorem gen_rb_atoms (ubs bs rl : Nat) :
    Gen.rb_raw_len ubs bs rl = bs ∧ Gen.rb_inflate_buf ubs bs rl = ubs ∧ Gen.rb_compressed ubs bs rl = decide (ubs > 0) := by
  delta Gen.rb_raw_len Gen.rb_inflate_buf Gen.rb_compressed
  refine ⟨?_, ?_, ?_⟩ <;> first | rfl | omega | (atoms_norm; omega) | grind

/-- libdeflate's `zlib_decompress` into a buffer of `cap` bytes: fails when the stream inflates to more than that -/
def inflateInto (z : Zlib) (cap : Nat) (raw : List Nat) : Option (List Nat) :=
  if (z.inflate raw).length ≤ cap then some (z.inflate raw) else none

/-- `read_block_data` over the file image `l`, with the regenerated lengths -/
def fetch (z : Zlib) (ubs : Nat) (l : List Nat) (b : Block) : Option (List Nat) :=
  let raw := (l.drop b.offset).take (Gen.rb_raw_len ubs b.size b.size)
  if Gen.rb_compressed ubs b.size raw.length then inflateInto z (Gen.rb_inflate_buf ubs b.size raw.length) raw else some raw

/-- **Every block of a well-formed compressed file is fetched**, whatever its compression ratio: if the image holds `deflate x`
    at the block's place and `x` is no longer than the header's `uncompress_buf_size`, the fetch returns `x`. -/
theorem fetch_compressed (z : Zlib) (ubs : Nat) (l x : List Nat) (off : Nat) (hu : 0 < ubs) (hx : x.length ≤ ubs)
    (h : Has l off (z.deflate x)) : fetch z ubs l ⟨off, (z.deflate x).length⟩ = some x := by
  have hs := slice_has l _ off h
  unfold slice at hs
  simp only at hs
  have a1 : ∀ a b c, Gen.rb_raw_len a b c = b := fun a b c => (gen_rb_atoms a b c).1
  have a2 : ∀ a b c, Gen.rb_inflate_buf a b c = a := fun a b c => (gen_rb_atoms a b c).2.1
  have a3 : ∀ a b c, Gen.rb_compressed a b c = decide (a > 0) := fun a b c => (gen_rb_atoms a b c).2.2
  unfold fetch
  simp only [a1, a2, a3, hs, decide_eq_true_eq, gt_iff_lt, hu, if_true, inflateInto, z.law, hx]

/-- an uncompressed file's block is the bytes themselves -/
theorem fetch_raw (z : Zlib) (l seg : List Nat) (off : Nat) (h : Has l off seg) :
    fetch z 0 l ⟨off, seg.length⟩ = some seg := by
  have hs := slice_has l _ off h
  unfold slice at hs
  simp only at hs
  have a1 : ∀ a b c, Gen.rb_raw_len a b c = b := fun a b c => (gen_rb_atoms a b c).1
  have a3 : ∀ a b c, Gen.rb_compressed a b c = decide (a > 0) := fun a b c => (gen_rb_atoms a b c).2.2
  unfold fetch
  simp [a1, a3, hs]

/-- non-vacuity, and why the bound must not depend on the compressed size: with a buffer of 64 bytes per compressed byte a block of
    2000 zeros that deflates to 20 bytes would not be fetched (S104 / S110) -/
example : ∃ cap raw, ∀ z : Zlib, (z.inflate raw).length = 2000 → cap = 64 * 20 → inflateInto z cap raw = none :=
  ⟨1280, [], fun z h hc => by unfold inflateInto; simp [h]⟩

end RB
