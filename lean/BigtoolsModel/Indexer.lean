/-! Probe (C18): executable model of `index_chroms` (bisection over a text file) as found. -/
namespace IX

/-- a file is a list of lines: (chromosome id, byte length incl. newline) -/
abbrev File := List (Nat × Nat)

def fsize (f : File) : Nat := (f.map (·.2)).sum

/-- first line boundary strictly after `pos` (where `read_line` from `pos` leaves the cursor) -/
def lineEndAfter : Nat → File → Nat → Nat
  | off, [], _ => off
  | off, l :: ls, pos => if pos < off + l.2 then off + l.2 else lineEndAfter (off + l.2) ls pos

/-- chromosome of the line starting at boundary `pos`, `none` at end of file -/
def chromAt : Nat → File → Nat → Option Nat
  | _, [], _ => none
  | off, l :: ls, pos => if pos = off then some l.1 else chromAt (off + l.2) ls pos

structure Ent where
  id : Nat
  off : Nat
  chrom : Nat
deriving Repr, DecidableEq

structure St where
  list : List Ent
  nextId : Nat
deriving Repr

def insertAfter (st : St) (prevId : Nat) (off chrom : Nat) : St × Nat :=
  let e : Ent := ⟨st.nextId, off, chrom⟩
  let rec go : List Ent → List Ent
    | [] => [e]
    | x :: xs => if x.id = prevId then x :: e :: xs else x :: go xs
  ({ list := go st.list, nextId := st.nextId + 1 }, e.id)

def find (st : St) (id : Nat) : Option Ent := st.list.find? (·.id = id)

/-- `do_index`; `none` = the recursion-depth panic -/
def doIndex (f : File) : Nat → St → Nat → Option Nat → Option St
  | 0, _, _, _ => none
  | limit + 1, st, prevId, nextId =>
    match find st prevId with
    | none => none
    | some prev =>
      let nextEnt := nextId.bind (find st)
      let nextTell := (nextEnt.map (·.off)).getD (fsize f)
      let mid := (nextTell + prev.off) / 2
      let tell := lineEndAfter 0 f mid
      match chromAt 0 f tell with
      | none => some st                                   -- probe ran into end of file: returns (D6)
      | some chrom =>
        let (st1, currId) := insertAfter st prevId tell chrom
        let left : Bool := decide (chrom ≠ prev.chrom) && decide (tell < nextTell)
        let right : Bool := match nextEnt with
          | some n => decide (chrom ≠ n.chrom) && decide (tell < n.off)
          | none => true
        let st2 := if left then doIndex f limit st1 prevId (some currId) else some st1
        let st3 := st2.bind fun s => if right then doIndex f limit s currId nextId else some s
        st3.bind fun s =>
          if chrom ≠ prev.chrom ∧ tell = nextTell then
            let tell2 := lineEndAfter 0 f prev.off
            match chromAt 0 f tell2 with
            | some c2 => some (insertAfter s prevId tell2 c2).1
            | none => none
          else some s

/-- `dedup_by_key` on the chromosome: keep the first of each run of equal keys -/
def dedupGo (last : Option Nat) : List Ent → List Ent
  | [] => []
  | x :: rest => if last = some x.chrom then dedupGo last rest else x :: dedupGo (some x.chrom) rest

def dedupAdj (l : List Ent) : List Ent := dedupGo none l

def indexChroms (f : File) : Option (Option (List (Nat × Nat))) :=
  match f with
  | [] => none      -- "Empty file" error
  | first :: _ =>
    let st0 : St := { list := [⟨0, 0, first.1⟩], nextId := 1 }
    match doIndex f 100 st0 0 none with
    | none => none
    | some st =>
      let d := dedupAdj st.list
      let chroms := d.map (·.chrom)
      if chroms.eraseDups.length = chroms.length then some (some (d.map fun e => (e.off, e.chrom))) else some none

/-- reference: offset of the first line of every run -/
def runStarts : Nat → Option Nat → File → List (Nat × Nat)
  | _, _, [] => []
  | off, prevChrom, l :: ls =>
    (if prevChrom = some l.1 then [] else [(off, l.1)]) ++ runStarts (off + l.2) (some l.1) ls

#eval indexChroms [(1,10),(2,10)]                 -- as found: [(0,1)]  (the real code printed [(0,"chrA")])
#eval runStarts 0 none [(1,10),(2,10)]
#eval indexChroms [(1,10),(2,10),(2,110)]         -- as found: [(0,1)]
#eval indexChroms [(1,10),(2,10),(2,10)]
#eval indexChroms [(1,10),(1,10),(2,10),(2,10),(3,10),(3,10),(3,10)]
#eval runStarts 0 none [(1,10),(1,10),(2,10),(2,10),(3,10),(3,10),(3,10)]
end IX

namespace IX
#eval indexChroms [(1,10),(1,10),(2,10),(2,100),(3,10)]
#eval runStarts 0 none [(1,10),(1,10),(2,10),(2,100),(3,10)]
end IX
