/-! Probe: staging buffer protocol as an LTS; safety by invariant over all schedules. -/
namespace TB
abbrev Bytes := List Nat

inductive BufSt where
  | notStarted
  | staged (inmem : Bool) (bs : Bytes)      -- InMemory / Temp: bytes not yet at the destination
  | real (d : Bytes)                        -- owns the destination, whose content is `d`
deriving Repr, DecidableEq

inductive PPc where | idle | swapped | dropped deriving Repr, DecidableEq
inductive CPc where
  | holding (d : Bytes)        -- before `switch`
  | switched                   -- `switch` done, `await_real_file` not yet past the wait
  | taken (fs : BufSt)         -- took `closed`, about to swap the mailbox
  | done (d : Bytes)
  | panicked
deriving Repr, DecidableEq

structure St where
  mailbox : Option Bytes
  pst : BufSt
  todo : List Bytes            -- writes the producer still has to issue
  issued : Bytes               -- flatten of the writes already issued (ghost)
  ppc : PPc
  closed : Option BufSt
  cpc : CPc
  inmem : Bool
deriving Repr

inductive Act where | pUpdate | pWrite | pDrop | cSwitch | cTake | cSwap deriving Repr, DecidableEq

def step (s : St) : Act → Option St
  | .pUpdate =>
    match s.ppc, s.todo with
    | .idle, _ :: _ =>
      match s.pst with
      | .real _ => some { s with ppc := .swapped }          -- no shared access in this arm
      | .notStarted =>
        match s.mailbox with
        | some d => some { s with mailbox := none, pst := .real d, ppc := .swapped }
        | none   => some { s with pst := .staged s.inmem [], ppc := .swapped }
      | .staged m bs =>
        match s.mailbox with
        | some d => some { s with mailbox := none, pst := .real (d ++ bs), ppc := .swapped }
        | none   => some { s with pst := .staged m bs, ppc := .swapped }
    | _, _ => none
  | .pWrite =>
    match s.ppc, s.todo with
    | .swapped, w :: ws =>
      match s.pst with
      | .notStarted => none                                   -- unreachable!()
      | .staged m bs => some { s with pst := .staged m (bs ++ w), todo := ws, issued := s.issued ++ w, ppc := .idle }
      | .real d => some { s with pst := .real (d ++ w), todo := ws, issued := s.issued ++ w, ppc := .idle }
    | _, _ => none
  | .pDrop =>
    match s.ppc, s.todo with
    | .idle, [] => some { s with closed := some s.pst, pst := .notStarted, ppc := .dropped }
    | _, _ => none
  | .cSwitch =>
    match s.cpc with
    | .holding d =>
      match s.mailbox with
      | none => some { s with mailbox := some d, cpc := .switched }
      | some _ => some { s with cpc := .panicked }
    | _ => none
  | .cTake =>
    match s.cpc, s.closed with
    | .switched, some fs => some { s with closed := none, cpc := .taken fs }
    | _, _ => none
  | .cSwap =>
    match s.cpc with
    | .taken fs =>
      match s.mailbox, fs with
      | some d, .staged _ bs => some { s with mailbox := none, cpc := .done (d ++ bs) }
      | some d, .notStarted => some { s with mailbox := none, cpc := .done d }
      | none, .real d => some { s with cpc := .done d }
      | _, _ => some { s with cpc := .panicked }
    | _ => none

def init (inmem : Bool) (d0 : Bytes) (ws : List Bytes) : St :=
  { mailbox := none, pst := .notStarted, todo := ws, issued := [], ppc := .idle,
    closed := none, cpc := .holding d0, inmem := inmem }

def run (s : St) : List Act → Option St
  | [] => some s
  | a :: as => match step s a with
    | some s' => run s' as
    | none => none

/-- bytes staged in a buffer state -/
def stagedOf : BufSt → Bytes
  | .staged _ bs => bs
  | _ => []

/-- Where is the destination, and what does it contain? Exactly one place. -/
def Inv (d0 : Bytes) (s : St) : Prop :=
  match s.cpc with
  | .holding d => d = d0 ∧ s.mailbox = none ∧ s.closed.isNone = (s.ppc != .dropped) ∧
      (match s.ppc with
       | .dropped => ∃ fs, s.closed = some fs ∧ (∀ d', fs ≠ .real d') ∧ stagedOf fs = s.issued ∧ s.pst = .notStarted
       | _ => (∀ d', s.pst ≠ .real d') ∧ stagedOf s.pst = s.issued ∧ s.closed = none)
  | .switched =>
      (match s.ppc with
       | .dropped => ∃ fs, s.closed = some fs ∧ s.pst = .notStarted ∧
            ((∃ d, s.mailbox = some d ∧ (∀ d', fs ≠ .real d') ∧ d ++ stagedOf fs = d0 ++ s.issued) ∨
             (s.mailbox = none ∧ fs = .real (d0 ++ s.issued)))
       | _ => s.closed = none ∧
            ((∃ d, s.mailbox = some d ∧ (∀ d', s.pst ≠ .real d') ∧ d ++ stagedOf s.pst = d0 ++ s.issued) ∨
             (s.mailbox = none ∧ s.pst = .real (d0 ++ s.issued))))
  | .taken fs => s.ppc = .dropped ∧ s.closed = none ∧
      ((∃ d, s.mailbox = some d ∧ (∀ d', fs ≠ .real d') ∧ d ++ stagedOf fs = d0 ++ s.issued) ∨
       (s.mailbox = none ∧ fs = .real (d0 ++ s.issued)))
  | .done d => d = d0 ++ s.issued ∧ s.ppc = .dropped
  | .panicked => False

end TB

namespace TB

theorem inv_init (inmem : Bool) (d0 : Bytes) (ws : List Bytes) : Inv d0 (init inmem d0 ws) := by
  simp [Inv, init, stagedOf]


macro "tb_crush" : tactic => `(tactic|
  (simp_all [step, Inv, stagedOf] <;> (try subst_vars) <;> (try simp_all [Inv, stagedOf]) <;> (try grind)))

theorem inv_pUpdate (d0 : Bytes) (s s' : St) (h : Inv d0 s) (hs : step s .pUpdate = some s') : Inv d0 s' := by
  obtain ⟨mailbox, pst, todo, issued, ppc, closed, cpc, inmem⟩ := s
  cases ppc <;> cases todo <;> cases pst <;> cases mailbox <;> cases cpc <;> tb_crush

theorem inv_pWrite (d0 : Bytes) (s s' : St) (h : Inv d0 s) (hs : step s .pWrite = some s') : Inv d0 s' := by
  obtain ⟨mailbox, pst, todo, issued, ppc, closed, cpc, inmem⟩ := s
  cases ppc <;> cases todo <;> cases pst <;> cases cpc <;> tb_crush

theorem inv_pDrop (d0 : Bytes) (s s' : St) (h : Inv d0 s) (hs : step s .pDrop = some s') : Inv d0 s' := by
  obtain ⟨mailbox, pst, todo, issued, ppc, closed, cpc, inmem⟩ := s
  cases ppc <;> cases todo <;> cases cpc <;> tb_crush

theorem inv_cSwitch (d0 : Bytes) (s s' : St) (h : Inv d0 s) (hs : step s .cSwitch = some s') : Inv d0 s' := by
  obtain ⟨mailbox, pst, todo, issued, ppc, closed, cpc, inmem⟩ := s
  cases cpc <;> cases mailbox <;> cases ppc <;> tb_crush

theorem inv_cTake (d0 : Bytes) (s s' : St) (h : Inv d0 s) (hs : step s .cTake = some s') : Inv d0 s' := by
  obtain ⟨mailbox, pst, todo, issued, ppc, closed, cpc, inmem⟩ := s
  cases cpc <;> cases closed <;> cases ppc <;> tb_crush

theorem inv_cSwap (d0 : Bytes) (s s' : St) (h : Inv d0 s) (hs : step s .cSwap = some s') : Inv d0 s' := by
  obtain ⟨mailbox, pst, todo, issued, ppc, closed, cpc, inmem⟩ := s
  cases cpc with
  | taken fs => cases mailbox <;> cases fs <;> tb_crush
  | _ => tb_crush

theorem inv_step (d0 : Bytes) (s s' : St) (a : Act) (h : Inv d0 s) (hs : step s a = some s') :
    Inv d0 s' := by
  cases a
  · exact inv_pUpdate d0 s s' h hs
  · exact inv_pWrite d0 s s' h hs
  · exact inv_pDrop d0 s s' h hs
  · exact inv_cSwitch d0 s s' h hs
  · exact inv_cTake d0 s s' h hs
  · exact inv_cSwap d0 s s' h hs


/-- ghost bookkeeping: what has been issued plus what is still to do is the producer's history -/
def Ghost (ws : List Bytes) (s : St) : Prop := s.issued ++ s.todo.flatten = ws.flatten

theorem ghost_init (inmem : Bool) (d0 : Bytes) (ws : List Bytes) : Ghost ws (init inmem d0 ws) := by
  simp [Ghost, init]

macro "tb_aux" P:ident : tactic => `(tactic|
  (simp_all [$P:ident] <;> (try (subst_vars; simp_all [$P:ident]))))

theorem ghost_step (ws : List Bytes) (s s' : St) (a : Act) (h : Ghost ws s) (hs : step s a = some s') :
    Ghost ws s' := by
  obtain ⟨mailbox, pst, todo, issued, ppc, closed, cpc, inmem⟩ := s
  cases a <;> simp only [step] at hs
  · cases ppc <;> cases todo <;> cases pst <;> cases mailbox <;> tb_aux Ghost
  · cases ppc <;> cases todo <;> cases pst <;> tb_aux Ghost
  · cases ppc <;> cases todo <;> tb_aux Ghost
  · cases cpc <;> cases mailbox <;> tb_aux Ghost
  · cases cpc <;> cases closed <;> tb_aux Ghost
  · cases cpc with
    | taken fs => cases mailbox <;> cases fs <;> tb_aux Ghost
    | _ => tb_aux Ghost

/-- producer program counter is consistent with what it still has to do -/
def Aux (s : St) : Prop :=
  (s.ppc = .dropped → s.todo = []) ∧ (s.ppc = .swapped → s.todo ≠ [] ∧ s.pst ≠ .notStarted)

theorem aux_step (s s' : St) (a : Act) (h : Aux s) (hs : step s a = some s') : Aux s' := by
  obtain ⟨mailbox, pst, todo, issued, ppc, closed, cpc, inmem⟩ := s
  cases a <;> simp only [step] at hs
  · cases ppc <;> cases todo <;> cases pst <;> cases mailbox <;> tb_aux Aux
  · cases ppc <;> cases todo <;> cases pst <;> tb_aux Aux
  · cases ppc <;> cases todo <;> tb_aux Aux
  · cases cpc <;> cases mailbox <;> tb_aux Aux
  · cases cpc <;> cases closed <;> tb_aux Aux
  · cases cpc with
    | taken fs => cases mailbox <;> cases fs <;> tb_aux Aux
    | _ => tb_aux Aux

theorem run_inv (d0 : Bytes) (ws : List Bytes) : ∀ (sched : List Act) (s s' : St),
    Inv d0 s → Ghost ws s → Aux s → run s sched = some s' → Inv d0 s' ∧ Ghost ws s' ∧ Aux s' := by
  intro sched
  induction sched with
  | nil => intro s s' h g d hr; simp [run] at hr; subst hr; exact ⟨h, g, d⟩
  | cons a as ih =>
    intro s s' h g d hr
    simp only [run] at hr
    split at hr
    · rename_i s1 hs1
      exact ih s1 s' (inv_step d0 s s1 a h hs1) (ghost_step ws s s1 a g hs1) (aux_step s s1 a d hs1) hr
    · simp at hr

/-- **C12 safety, every interleaving.** Whatever the order of the atomic steps of producer and
    consumer, no run reaches a panic, and if the consumer's `await_real_file` has returned, the
    destination it returns holds exactly the initial content followed by every written byte, once
    and in order. -/
theorem tb_safety (inmem : Bool) (d0 : Bytes) (ws : List Bytes) (sched : List Act) (s' : St)
    (hr : run (init inmem d0 ws) sched = some s') :
    s'.cpc ≠ .panicked ∧ ∀ d, s'.cpc = .done d → d = d0 ++ ws.flatten := by
  have ⟨hi, hg, hd⟩ := run_inv d0 ws sched _ s' (inv_init inmem d0 ws) (ghost_init inmem d0 ws)
    (by simp [Aux, init]) hr
  constructor
  · intro hp; simp [Inv, hp] at hi
  · intro d hdone
    simp only [Inv, hdone] at hi
    have ht := hd.1 hi.2
    simp only [Ghost, ht, List.flatten_nil, List.append_nil] at hg
    rw [hi.1, hg]

/-- **C12 progress.** In every reachable state that is not final some step is enabled: the protocol
    cannot get stuck; in particular once the producer has dropped, the consumer's wait is over. -/
theorem tb_progress (d0 : Bytes) (s : St) (h : Inv d0 s) (hd : Aux s) :
    (∃ d, s.cpc = .done d) ∨ ∃ a s', step s a = some s' := by
  obtain ⟨mailbox, pst, todo, issued, ppc, closed, cpc, inmem⟩ := s
  cases cpc with
  | done d => exact Or.inl ⟨d, rfl⟩
  | panicked => simp [Inv] at h
  | holding d =>
    right
    refine ⟨.cSwitch, ?_⟩
    simp only [Inv] at h
    simp [step, h.2.1]
  | taken fs =>
    right
    refine ⟨.cSwap, ?_⟩
    simp only [Inv] at h
    rcases h.2.2 with ⟨d, hm, hf, _⟩ | ⟨hm, hf⟩
    · cases fs <;> simp_all [step]
    · simp_all [step]
  | switched =>
    right
    cases ppc with
    | dropped =>
      simp only [Inv] at h
      obtain ⟨fs, hc, _⟩ := h
      exact ⟨.cTake, by simp [step, hc]⟩
    | swapped =>
      have := hd.2 rfl
      cases todo with
      | nil => simp at this
      | cons w ws =>
        cases pst with
        | notStarted => simp at this
        | staged m bs => exact ⟨.pWrite, by simp [step]⟩
        | real d => exact ⟨.pWrite, by simp [step]⟩
    | idle =>
      cases todo with
      | nil => exact ⟨.pDrop, by simp [step]⟩
      | cons w ws =>
        refine ⟨.pUpdate, ?_⟩
        cases pst <;> cases mailbox <;> simp [step]

end TB
